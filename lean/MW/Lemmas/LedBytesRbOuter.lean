/-
  LedBytes, part 11 — Rollback's outer loops on bytes: FetchAllMinedBalance, the loop over the heights (fetchBlockRecord,
  the transactions in reverse, `rollbackTxB`), deleteBlockRecord for every height seen, the pending spenders of the
  removed coinbase credits (removeConflict), UpdateMinedBalances; then resetSyncedTo and disconnectBlock.
-/
import MW.Lemmas.LedBytesWorld
namespace MW.LedBytes
open MW MW.Gen.Codec MW.Model.TxmgrCodec MW.TxmgrCodec MW.Model.Ledger

-- ------------------------------------------------------------------ FetchAllMinedBalance / UpdateMinedBalances

/-- FetchAllMinedBalance: every entry of bucket `bal` (wallet id ↦ 8-byte amount) -/
def fetchAllBalB (bal : AMap.T Bytes Bytes) : BBals :=
  bal.filterMap (fun e => if e.1.length = 42 then (decBalance e.2).map (fun a => (e.1, a)) else none)

theorem fetchAllBal_abs (N : Names) (bal : AMap.T Bytes Bytes) : absBals N (fetchAllBalB bal) = absBucket (cdBal N) bal := by
  unfold absBals fetchAllBalB absBucket
  induction bal with
  | nil => rfl
  | cons e l ih =>
    simp only [List.filterMap_cons, absEntry, cdBal] at ih ⊢
    by_cases h : e.1.length = 42
    · simp only [h, if_true]
      cases decBalance e.2 with
      | none => simpa using ih
      | some a => simpa using ih
    · simp only [h, if_false]
      simpa using ih

/-- the working balances fit their fields: wallet ids of 42 bytes, amounts below 2^64 -/
def BalsWF (bals : BBals) : Prop := ∀ e ∈ bals, e.1.length = 42 ∧ e.2 < 256 ^ 8

/-- UpdateMinedBalances: putMinedBalance per entry of the working map -/
def mergeBalancesB (bals : BBals) (bal : AMap.T Bytes Bytes) : AMap.T Bytes Bytes :=
  bals.foldr (fun e m => AMap.put m e.1 (valueBalance e.2)) bal

theorem mergeBalances_on_bytes (N : Names) : ∀ (bals : BBals) (bal : AMap.T Bytes Bytes), Canon (cdBal N) bal → BalsWF bals →
    absBucket (cdBal N) (mergeBalancesB bals bal) = mergeBalances (absBals N bals) (absBucket (cdBal N) bal) ∧
    Canon (cdBal N) (mergeBalancesB bals bal) := by
  intro bals
  induction bals with
  | nil => intro bal hc _; exact ⟨rfl, hc⟩
  | cons e l ih =>
    intro bal hc hw
    obtain ⟨i1, i2⟩ := ih bal hc (fun x hx => hw x (List.mem_cons_of_mem _ hx))
    obtain ⟨hk, hv⟩ := hw e List.mem_cons_self
    have p1 := abs_put (cdBal_laws N) i2 (k := e.1) (v := e.2) hk hv
    have p2 := canon_put i2 (cd := cdBal N) (k := e.1) (v := e.2) hk hv
    refine ⟨?_, p2⟩
    show absBucket (cdBal N) (AMap.put (mergeBalancesB l bal) e.1 (valueBalance e.2)) = _
    have p1' : absBucket (cdBal N) (AMap.put (mergeBalancesB l bal) e.1 (valueBalance e.2))
        = AMap.put (absBucket (cdBal N) (mergeBalancesB l bal)) (N.wal e.1) e.2 := p1
    rw [p1', i1]; rfl

-- ------------------------------------------------------------------ the loop over the heights

structure RbAccB where
  bs : BStore
  bals : BBals
  cb : List OutPointB := []
  heights : List Nat := []

def absAcc (E : Env) (a : RbAccB) : RbAcc :=
  { s := absStore E a.bs, bals := absBals E.N a.bals, cb := a.cb.map (nmOP E.N), heights := a.heights }

/-- Rollback: one iteration of the outer loop on bytes (fetchBlockRecord, then the transactions in reverse) -/
def rollbackBlockAtB {E : Env} {c : Ctx} (R : RbEnv E c) (acc : RbAccB) (cur : Nat) : M RbAccB :=
  match AMap.get acc.bs.b (keyBlockRecord cur) with
  | none => pure acc
  | some v =>
    match readRawBlockRecordValue v with
    | none => throw (.other "short block record")
    | some r =>
      r.txs.reverse.foldlM (fun (a : RbAccB) txh => do
        let x ← rollbackTxB R txh ⟨cur, r.hash⟩ r.time (a.bs, a.bals)
        pure { a with bs := x.1.1, bals := x.1.2, cb := a.cb ++ x.2 })
        { acc with heights := acc.heights ++ [cur] }

theorem rollbackBlockAt_on_bytes {E : Env} {c : Ctx} (R : RbEnv E c) {acc : RbAccB} (hC : CanonS E acc.bs) {cur : Nat}
    (hcur : cur < 256 ^ 8) :
    (rollbackBlockAtB R acc cur).map (absAcc E) = rollbackBlockAt c (absAcc E acc) cur ∧
    ∀ acc', rollbackBlockAtB R acc cur = .ok acc' → CanonS E acc'.bs := by
  unfold rollbackBlockAtB rollbackBlockAt
  rcases b_get E hC.b (k := cur) hcur with ⟨g1, g2⟩ | ⟨r, hr, g1, g2⟩
  · have g2' : AMap.get (absAcc E acc).s.blocks cur = none := g2
    rw [g1, g2']
    exact ⟨rfl, fun _ h => by cases h; exact hC⟩
  · have g2' : AMap.get (absAcc E acc).s.blocks cur = some (E.N.blk r.hash, r.txs.map E.N.tx) := g2
    rw [g1, g2']
    have hrd : readRawBlockRecordValue ((cdB E.N).encV r) = some r := (cdB_laws E.N).decV_encV r hr
    simp only [hrd]
    rw [← List.map_reverse]
    have hstep : ∀ (a : RbAccB) (txh : Bytes), CanonS E a.bs → txh.length = 32 →
        ((do
          let x ← rollbackTxB R txh ⟨cur, r.hash⟩ r.time (a.bs, a.bals)
          pure { a with bs := x.1.1, bals := x.1.2, cb := a.cb ++ x.2 } : M RbAccB)).map (absAcc E)
          = (do
              let (s', bals', rem) ← rollbackTx c (absAcc E a).s (absAcc E a).bals ⟨cur, E.N.blk r.hash⟩ (E.N.tx txh)
              pure { (absAcc E a) with s := s', bals := bals', cb := (absAcc E a).cb ++ rem }) ∧
        ∀ a', (do
          let x ← rollbackTxB R txh ⟨cur, r.hash⟩ r.time (a.bs, a.bals)
          pure { a with bs := x.1.1, bals := x.1.2, cb := a.cb ++ x.2 } : M RbAccB) = .ok a' → CanonS E a'.bs := by
      intro a txh ha htx
      have hs : StepWF txh ⟨cur, r.hash⟩ := ⟨htx, hr.1, hcur⟩
      obtain ⟨t1, t2⟩ := rollbackTx_on_bytes R (sb := (a.bs, a.bals)) ha hs hr.2.1
      have t1' : rollbackTx c (absAcc E a).s (absAcc E a).bals ⟨cur, E.N.blk r.hash⟩ (E.N.tx txh)
          = (rollbackTxB R txh ⟨cur, r.hash⟩ r.time (a.bs, a.bals)).map (absRb E) := t1.symm
      rw [t1']
      cases hf : rollbackTxB R txh ⟨cur, r.hash⟩ r.time (a.bs, a.bals) with
      | error e => exact ⟨rfl, fun _ h => by cases h⟩
      | ok x =>
        refine ⟨?_, fun _ h => by cases h; exact t2 x hf⟩
        show Except.ok (absAcc E _) = Except.ok _
        simp [absAcc]
    exact foldlM_sim (absAcc E) (fun a => CanonS E a.bs) _ _ E.N.tx (fun t => t.length = 32)
      (fun b a hb ha => hstep b a hb ha) r.txs.reverse { acc with heights := acc.heights ++ [cur] } hC
      (fun t ht => hr.2.2.2.2 t (List.mem_reverse.mp ht))

/-- the pending spenders of a removed coinbase output -/
def purgeSpendersB {E : Env} {own : Own} (P : PendEnv E own) (bs : BStore) (op : OutPointB) : BStore :=
  (spendersB bs.mi (canonicalOutPoint op)).foldl (fun bs ds => rcSpenderB (removeConflictB P (bs.m.length + 1)) P bs ds) bs

theorem purgeSpenders_on_bytes {E : Env} {own : Own} (P : PendEnv E own) {bs : BStore} (hC : CanonS E bs) {op : OutPointB}
    (hop : op.WF = true) :
    absStore E (purgeSpendersB P bs op) = purgeSpenders own (absStore E bs) (nmOP E.N op) ∧ CanonS E (purgeSpendersB P bs op) := by
  unfold purgeSpendersB purgeSpenders
  obtain ⟨s1, s2⟩ := spenders_on_bytes E hC hop
  rw [s1]
  refine foldl_sim (absStore E) (CanonS E) _ _ E.N.tx (fun sp => sp.length = 32) ?_ _ bs hC s2
  intro b sp hb hsp
  have hlen : (absStore E b).pending.length = b.m.length := abs_length (cdM_laws E.N E.deser) hb.m
  obtain ⟨r1, r2⟩ := rcSpender_on_bytes P (removeConflict_on_bytes P (b.m.length + 1)) b sp hb hsp
  refine ⟨?_, r2⟩
  rw [r1, hlen]; rfl

/-- TxStore.Rollback(height) on bytes -/
def rollbackB {E : Env} {c : Ctx} (R : RbEnv E c) (P : PendEnv E c.own) (bs : BStore) (height : Nat) : M BStore := do
  let top := syncedToOf bs.sync
  let hs := (List.range (top + 1 - height)).map (fun k => top - k)
  let acc ← hs.foldlM (rollbackBlockAtB R) { bs := bs, bals := fetchAllBalB bs.bal }
  let bs1 := acc.heights.foldl (fun bs h => { bs with b := AMap.erase bs.b (keyBlockRecord h) }) acc.bs
  let bs2 := acc.cb.foldl (purgeSpendersB P) bs1
  pure { bs2 with bal := mergeBalancesB acc.bals bs2.bal }

theorem rollback_on_bytes {E : Env} {c : Ctx} (R : RbEnv E c) (P : PendEnv E c.own) {bs : BStore} (hC : CanonS E bs)
    {height : Nat} (htop : syncedToOf bs.sync < 256 ^ 8)
    (hbal : ∀ acc, ((List.range (syncedToOf bs.sync + 1 - height)).map (fun k => syncedToOf bs.sync - k)).foldlM
        (rollbackBlockAtB R) { bs := bs, bals := fetchAllBalB bs.bal } = .ok acc →
        BalsWF acc.bals ∧ (∀ o ∈ acc.cb, o.WF = true) ∧ ∀ h ∈ acc.heights, h < 256 ^ 8) :
    (rollbackB R P bs height).map (absStore E) = rollback c (absStore E bs) height ∧
    ∀ bs', rollbackB R P bs height = .ok bs' → CanonS E bs' := by
  unfold rollbackB rollback
  have hst : (absStore E bs).syncedTo = syncedToOf bs.sync := rfl
  rw [hst]
  obtain ⟨f1, f2⟩ := foldlM_sim (absAcc E) (fun a => CanonS E a.bs) (rollbackBlockAtB R) (rollbackBlockAt c)
    (fun h : Nat => h) (fun h => h < 256 ^ 8)
    (fun a h ha hh => rollbackBlockAt_on_bytes R ha hh)
    ((List.range (syncedToOf bs.sync + 1 - height)).map (fun k => syncedToOf bs.sync - k))
    { bs := bs, bals := fetchAllBalB bs.bal } hC
    (by intro h hh; obtain ⟨k, _, rfl⟩ := List.mem_map.mp hh; omega)
  rw [List.map_id'] at f1
  have hinit : absAcc E { bs := bs, bals := fetchAllBalB bs.bal } = { s := absStore E bs, bals := (absStore E bs).balance } := by
    simp only [absAcc, List.map_nil]
    rw [fetchAllBal_abs]; rfl
  rw [hinit] at f1
  simp only [bind, Except.bind]
  rw [← f1]
  cases hf : ((List.range (syncedToOf bs.sync + 1 - height)).map (fun k => syncedToOf bs.sync - k)).foldlM
      (rollbackBlockAtB R) { bs := bs, bals := fetchAllBalB bs.bal } with
  | error e => exact ⟨rfl, fun _ h => by cases h⟩
  | ok acc =>
    obtain ⟨hbw, hcbw, hhw⟩ := hbal acc hf
    have hCa := f2 acc hf
    -- the block records
    obtain ⟨b1, b2⟩ := foldl_sim (absStore E) (CanonS E)
      (fun bs h => { bs with b := AMap.erase bs.b (keyBlockRecord h) })
      (fun s h => { s with blocks := AMap.erase s.blocks h }) (fun h : Nat => h) (fun h => h < 256 ^ 8)
      (by
        intro b h hb hh
        obtain ⟨e1, e2⟩ := b_erase E hb.b (k := h) hh
        refine ⟨?_, { hb with b := e2 }⟩
        simp only [absStore]; rw [e1])
      acc.heights acc.bs hCa hhw
    rw [List.map_id'] at b1
    -- the pending spenders of the removed coinbase credits
    obtain ⟨p1, p2⟩ := foldl_sim (absStore E) (CanonS E) (purgeSpendersB P) (purgeSpenders c.own) (nmOP E.N)
      (fun o => o.WF = true) (fun b o hb ho => purgeSpenders_on_bytes P hb ho) acc.cb _ b2 hcbw
    obtain ⟨m1, m2⟩ := mergeBalances_on_bytes E.N acc.bals _ p2.bal hbw
    refine ⟨?_, fun _ h => by cases h; exact { p2 with bal := m2 }⟩
    show Except.ok (absStore E _) = Except.ok _
    simp only [absAcc] at b1 p1 ⊢
    congr 1
    rw [← b1, ← p1]
    simp only [absStore]
    rw [m1]

-- ------------------------------------------------------------------ resetSyncedTo

/-- the height whose 8-byte key is the name "syncedto" -/
def collisionHeight : Nat := 0x73796e636564746f

theorem keySynced_ne_of_lt {h : Nat} (hh : h < collisionHeight) : h < 256 ^ 8 ∧ keySynced h ≠ syncedToKey := by
  have hc : collisionHeight < 256 ^ 8 := by decide
  have hlt : h < 256 ^ 8 := Nat.lt_trans hh hc
  refine ⟨hlt, fun he => ?_⟩
  have e1 := decSyncedKey_enc h hlt
  have e2 := decSyncedKey_enc collisionHeight hc
  rw [he, ← syncedTo_key_collision] at e1
  have : collisionHeight = h := by
    have := e2.symm.trans e1
    exact Option.some.inj this
  omega

/-- resetSyncedTo on the sync bucket: the cursor, the delete loop from the cursor down, the cursor write -/
def resetSyncedToB (sync : AMap.T Bytes Bytes) (height : Nat) : AMap.T Bytes Bytes :=
  let cur := syncedToOf sync
  let sync' := (List.range (cur - height)).foldl (fun m k => AMap.erase m (keySynced (cur - k))) sync
  AMap.put sync' syncedToKey (valueSyncedTo (if cur > height then height else cur))

theorem reset_loop (E : Env) (cur : Nat) (hcur : cur < collisionHeight) : ∀ (l : List Nat) (sync : AMap.T Bytes Bytes),
    Canon (cdSync E.N) (AMap.erase sync syncedToKey) →
    absBucket (cdSync E.N) (AMap.erase (l.foldl (fun m k => AMap.erase m (keySynced (cur - k))) sync) syncedToKey)
      = l.foldl (fun m k => AMap.erase m (cur - k)) (absBucket (cdSync E.N) (AMap.erase sync syncedToKey)) ∧
    Canon (cdSync E.N) (AMap.erase (l.foldl (fun m k => AMap.erase m (keySynced (cur - k))) sync) syncedToKey) := by
  intro l
  induction l with
  | nil => intro sync hc; exact ⟨rfl, hc⟩
  | cons k l ih =>
    intro sync hc
    obtain ⟨hlt, hne⟩ := keySynced_ne_of_lt (h := cur - k) (by omega)
    obtain ⟨e1, _⟩ := sync_erase_height E hc hlt hne
    have hc' : Canon (cdSync E.N) (AMap.erase (AMap.erase sync (keySynced (cur - k))) syncedToKey) := by
      rw [erase_erase_comm]; exact canon_erase hc _
    obtain ⟨i1, i2⟩ := ih (AMap.erase sync (keySynced (cur - k))) hc'
    simp only [List.foldl_cons]
    rw [i1, e1]
    exact ⟨rfl, i2⟩

theorem resetSyncedTo_on_bytes (E : Env) {bs : BStore} (hC : CanonS E bs) (height : Nat)
    (hcur : syncedToOf bs.sync < collisionHeight) :
    absStore E { bs with sync := resetSyncedToB bs.sync height } = resetSyncedTo (absStore E bs) height ∧
    CanonS E { bs with sync := resetSyncedToB bs.sync height } := by
  obtain ⟨l1, l2⟩ := reset_loop E (syncedToOf bs.sync) hcur (List.range (syncedToOf bs.sync - height)) bs.sync hC.sync
  have hv : (if syncedToOf bs.sync > height then height else syncedToOf bs.sync) < 256 ^ 8 := by
    have := (keySynced_ne_of_lt hcur).1
    split <;> omega
  obtain ⟨c1, c2⟩ := sync_put_cursor
    ((List.range (syncedToOf bs.sync - height)).foldl (fun m k => AMap.erase m (keySynced (syncedToOf bs.sync - k))) bs.sync) hv
  have hcan : Canon (cdSync E.N) (AMap.erase (resetSyncedToB bs.sync height) syncedToKey) := by
    unfold resetSyncedToB; simp only []; rw [c1]; exact l2
  refine ⟨?_, { hC with sync := hcan }⟩
  unfold resetSyncedTo
  simp only [absStore]
  have e1 : AMap.erase (resetSyncedToB bs.sync height) syncedToKey
      = AMap.erase ((List.range (syncedToOf bs.sync - height)).foldl
          (fun m k => AMap.erase m (keySynced (syncedToOf bs.sync - k))) bs.sync) syncedToKey := c1
  have e2 : syncedToOf (resetSyncedToB bs.sync height)
      = (if syncedToOf bs.sync > height then height else syncedToOf bs.sync) := c2
  rw [e1, e2, l1]
  rfl

-- ------------------------------------------------------------------ disconnectBlock

/-- disconnectBlock: the importing wallets' cursors are pulled back (GetAllWalletStatus, PutWalletStatus).  The bucket is
    rewritten in place: on an association list with distinct keys this is the sequence of Puts up to the order of the
    entries, which no Get observes (the ledger model does the same) -/
def pullBackStatusB (ws : AMap.T Bytes Bytes) (reset : Nat) : AMap.T Bytes Bytes :=
  ws.map (fun e =>
    match decWalletStatus e.2 with
    | some x => if x.1 ≠ 2 ^ 64 - 1 ∧ x.1 > reset then (e.1, valueWalletStatus ⟨[], reset, x.2⟩) else e
    | none => e)

theorem absBucket_ws_cons (N : Names) (k : Bytes) (x : Nat × Nat) (l : AMap.T Bytes Bytes) (hk : k.length = 42)
    (hx : x.1 < 256 ^ 8 ∧ x.2 < 256) :
    absBucket (cdWS N) ((k, valueWalletStatus ⟨[], x.1, x.2⟩) :: l) = (N.wal k, nmStatus x) :: absBucket (cdWS N) l :=
  absBucket_cons_enc (cdWS_laws N) (k := k) (v := x) hk hx l

theorem canon_ws_cons (N : Names) (k : Bytes) (x : Nat × Nat) (l : AMap.T Bytes Bytes) (hk : k.length = 42)
    (hx : x.1 < 256 ^ 8 ∧ x.2 < 256) (hl : Canon (cdWS N) l) :
    Canon (cdWS N) ((k, valueWalletStatus ⟨[], x.1, x.2⟩) :: l) :=
  canon_cons (cd := cdWS N) (k := k) (v := x) hk hx hl

theorem canon_ws_head (N : Names) {e : Bytes × Bytes} {l : AMap.T Bytes Bytes} (hc : Canon (cdWS N) (e :: l)) :
    ∃ (k : Bytes) (x : Nat × Nat), k.length = 42 ∧ (x.1 < 256 ^ 8 ∧ x.2 < 256) ∧ e = (k, valueWalletStatus ⟨[], x.1, x.2⟩) := by
  obtain ⟨k, v, hk, hv, he⟩ := hc _ List.mem_cons_self
  exact ⟨k, v, hk, hv, he⟩

def pullBack (reset : Nat) (e : Wid × WStatus) : Wid × WStatus :=
  match e.2.synced with
  | some h => if h > reset then (e.1, { e.2 with synced := some reset }) else e
  | none => e

theorem nmStatus_pull (x : Nat × Nat) (reset : Nat) (hr : reset < 18446744073709551615) (w : Wid) :
    pullBack reset (w, nmStatus x)
      = if x.1 ≠ 2 ^ 64 - 1 ∧ x.1 > reset then (w, nmStatus (reset, x.2)) else (w, nmStatus x) := by
  have hne : reset ≠ 18446744073709551615 := by omega
  unfold pullBack nmStatus
  simp only [Nat.reducePow, Nat.reduceSub]
  by_cases hm : x.1 = 18446744073709551615
  · simp [hm]
  · by_cases hg : x.1 > reset
    · simp [hm, hg, hne]
    · simp [hm, hg]

theorem pullBackStatus_on_bytes (N : Names) (reset : Nat) (hr : reset < 18446744073709551615) : ∀ (ws : AMap.T Bytes Bytes),
    Canon (cdWS N) ws →
    absBucket (cdWS N) (pullBackStatusB ws reset) = (absBucket (cdWS N) ws).map (pullBack reset) ∧
    Canon (cdWS N) (pullBackStatusB ws reset) := by
  have hr' : reset < 256 ^ 8 := by simp only [Nat.reducePow]; omega
  intro ws
  induction ws with
  | nil => intro _; exact ⟨rfl, canon_nil _⟩
  | cons e l ih =>
    intro hc
    obtain ⟨k, x, hk, hx, rfl⟩ := canon_ws_head N hc
    obtain ⟨i1, i2⟩ := ih (canon_tail hc)
    have hdec : decWalletStatus (valueWalletStatus ⟨[], x.1, x.2⟩) = some x := decWalletStatus_enc x hx.1 hx.2
    have hstep : pullBackStatusB ((k, valueWalletStatus ⟨[], x.1, x.2⟩) :: l) reset
        = (if x.1 ≠ 2 ^ 64 - 1 ∧ x.1 > reset then (k, valueWalletStatus ⟨[], reset, x.2⟩)
            else (k, valueWalletStatus ⟨[], x.1, x.2⟩)) :: pullBackStatusB l reset := by
      unfold pullBackStatusB
      simp only [List.map_cons, hdec]
    rw [hstep, absBucket_ws_cons N k x l hk hx, List.map_cons, nmStatus_pull x reset hr]
    by_cases hcond : x.1 ≠ 2 ^ 64 - 1 ∧ x.1 > reset
    · rw [if_pos hcond, if_pos hcond]
      have := absBucket_ws_cons N k (reset, x.2) (pullBackStatusB l reset) hk ⟨hr', hx.2⟩
      rw [this, i1]
      exact ⟨rfl, canon_ws_cons N k (reset, x.2) _ hk ⟨hr', hx.2⟩ i2⟩
    · rw [if_neg hcond, if_neg hcond, absBucket_ws_cons N k x _ hk hx, i1]
      exact ⟨rfl, canon_ws_cons N k x _ hk hx i2⟩

/-- disconnectBlock on bytes -/
def disconnectBlockB {E : Env} {c : Ctx} (R : RbEnv E c) (P : PendEnv E c.own) (bs : BStore) (height : Nat) : M BStore :=
  if height = 0 then throw (.other "genesis")
  else if height > syncedToOf bs.sync then pure bs
  else do
    let bs1 ← rollbackB R P bs height
    let bs2 : BStore := { bs1 with sync := resetSyncedToB bs1.sync (height - 1) }
    pure { bs2 with ws := pullBackStatusB bs2.ws (height - 1) }

/-- what the simulation of Rollback needs of its own run (each a fact about the bytes produced; all follow from field
    widths along a real history): the working balances written back fit their 8 bytes and carry 42-byte wallet ids, the
    removed coinbase outpoints and the heights seen fit their fields -/
def RollbackOut {E : Env} {c : Ctx} (R : RbEnv E c) (bs : BStore) (height : Nat) : Prop :=
  ∀ acc, ((List.range (syncedToOf bs.sync + 1 - height)).map (fun k => syncedToOf bs.sync - k)).foldlM
      (rollbackBlockAtB R) { bs := bs, bals := fetchAllBalB bs.bal } = .ok acc →
    BalsWF acc.bals ∧ (∀ o ∈ acc.cb, o.WF = true) ∧ ∀ h ∈ acc.heights, h < 256 ^ 8

/-- **disconnectBlock on bytes**: Rollback, resetSyncedTo, the importing wallets' cursors -/
theorem disconnectBlock_on_bytes {E : Env} {c : Ctx} (R : RbEnv E c) (P : PendEnv E c.own) {bs : BStore} (hC : CanonS E bs)
    {height : Nat} (hcur : syncedToOf bs.sync < collisionHeight) (hout : RollbackOut R bs height)
    (hcur1 : ∀ bs1, rollbackB R P bs height = .ok bs1 → syncedToOf bs1.sync = syncedToOf bs.sync) :
    (disconnectBlockB R P bs height).map (absStore E) = disconnectBlock c (absStore E bs) height ∧
    ∀ bs', disconnectBlockB R P bs height = .ok bs' → CanonS E bs' := by
  unfold disconnectBlockB disconnectBlock
  have hst : (absStore E bs).syncedTo = syncedToOf bs.sync := rfl
  rw [hst]
  by_cases h0 : height = 0
  · simp only [h0, if_true]
    exact ⟨rfl, fun _ h => by cases h⟩
  · simp only [h0, if_false]
    by_cases hgt : height > syncedToOf bs.sync
    · simp only [hgt, if_true]
      exact ⟨rfl, fun _ h => by cases h; exact hC⟩
    · simp only [hgt, if_false]
      obtain ⟨r1, r2⟩ := rollback_on_bytes R P hC (height := height) (keySynced_ne_of_lt hcur).1 hout
      simp only [bind, Except.bind]
      rw [← r1]
      cases hf : rollbackB R P bs height with
      | error e => exact ⟨rfl, fun _ h => by cases h⟩
      | ok bs1 =>
        have hC1 := r2 bs1 hf
        have hs1 := hcur1 bs1 hf
        obtain ⟨s1, s2⟩ := resetSyncedTo_on_bytes E hC1 (height - 1) (by rw [hs1]; exact hcur)
        have hreset : height - 1 < 18446744073709551615 := by
          have : collisionHeight < 18446744073709551615 := by decide
          omega
        obtain ⟨w1, w2⟩ := pullBackStatus_on_bytes E.N (height - 1) hreset
          ({ bs1 with sync := resetSyncedToB bs1.sync (height - 1) } : BStore).ws s2.ws
        refine ⟨?_, fun _ h => by cases h; exact { s2 with ws := w2 }⟩
        show Except.ok (absStore E _) = Except.ok _
        congr 1
        rw [← s1]
        simp only [absStore] at w1 ⊢
        rw [w1]
        rfl

end MW.LedBytes
