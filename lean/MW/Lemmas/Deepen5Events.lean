/-
  C06 deepening (round 5), part 3: the other events of a removal window in the relaxed state `JRW`, and the handler
  step of the generalised invariant `JTW`.
-/
import MW.Lemmas.Deepen5Handle
import MW.Lemmas.Deepen4Stat
namespace MW.Lemmas.Deepen5
open MW MW.Model.Ledger MW.Model.Persist MW.Spec.Persist MW.Spec.Chain MW.Spec.Books MW.Lemmas.Ledger
  MW.Lemmas.PersistOp MW.Lemmas.PersistFault MW.Lemmas.PersistCrash MW.Lemmas.Deepen3 MW.Lemmas.Deepen4

/-- **a handler step inside a removal window** (either phase) -/
theorem JRW_handle {cfg : Cfg} {G : Block} (E : StaticOK cfg.st G) (cr : Bool) {x : SysQ} {k : Skel} {w : Wid}
    (hJ : JRW cfg G x k w)
    (hon : ∀ b, x.queue.head? = some b → k.chain[b.height]? = some b)
    (hok : ∀ b, x.queue = [b] → ((opBlock (envAt cfg.st k.chain) cfg.n b).run none x.P x.V).ok = true) :
    JRW cfg G (stepQ cfg.st cfg.n cr x .handle) k w := by
  rcases hJ with hM | ⟨hQ, hgone, hnA⟩
  · exact Or.inl (JRmidW_handle E cr hM hon hok)
  · right
    have hJQ := JQ_nodeOrHandle E cfg.n cr .handle .handle (Or.inl ⟨rfl, rfl⟩) hQ trivial
    refine ⟨hJQ, ?_, hnA⟩
    -- the follower never creates a status entry
    cases hq : x.queue with
    | nil =>
      have h1 : stepQ cfg.st cfg.n cr x .handle = x := by simp only [stepQ, hq]
      rw [h1]; exact hgone
    | cons b q =>
      have h1 : stepQ cfg.st cfg.n cr x .handle =
          { x with queue := q, P := ((opBlock (envAt cfg.st x.chain) cfg.n b).run none x.P x.V).P,
                   V := ((opBlock (envAt cfg.st x.chain) cfg.n b).run none x.P x.V).V } := by
        simp only [stepQ, hq]
      rw [h1]
      obtain ⟨e1, _, _⟩ := opBlock_processBlock (envAt cfg.st x.chain) cfg.n b x.P x.V
      show AMap.get ((opBlock (envAt cfg.st x.chain) cfg.n b).run none x.P x.V).P.led.status w = none
      rw [e1]
      have hf := (sframe_processBlock (ctxOf (envAt cfg.st x.chain) x.V) x.P.led x.V.led b).rem w
      unfold remD at hf
      rw [hgone] at hf
      exact Option.isNone_iff_eq_none.1 hf

/-- a node event (extension / reorganisation to any branch) inside a removal window -/
theorem JRmidW_nodeMove {cfg : Cfg} {G : Block} {x : SysQ} {k : Skel} {w : Wid} (hJ : JRmidW cfg G x k w)
    (N' bs : List Block) (hbs : bs ≠ []) (hN' : ChainOK (lenv cfg.st k.ks) G N') (hsub : ∀ b ∈ bs, b ∈ N')
    (hlast : N'.getLast? = bs.getLast?) :
    JRmidW cfg G { x with chain := N', queue := x.queue ++ bs } { k with chain := N', hist := k.hist ++ [N'] } w := by
  obtain ⟨hc, hks, hkeys, hnW, hnA, hrec, htask, ⟨X, g, kk, hX, hM, hv, ⟨c, hcm, hXc⟩, _⟩, hqk, _, hN, hcur, hoth, hother⟩ := hJ
  refine ⟨rfl, hks, hkeys, hnW, hnA, hrec, htask, ⟨X, g, kk, hX, ?_, hv, ⟨c, List.mem_append_left _ hcm, hXc⟩, ?_⟩, ?_, ?_, hN',
    List.mem_append_right _ (List.mem_singleton.2 rfl), hoth, hother⟩
  · exact MW.Lemmas.RemoveInterleave.p2w_ctx (c := (lenv cfg.st k.ks).ctx k.chain) rfl rfl rfl hM
  · intro h
    exact absurd (List.append_eq_nil_iff.1 h).2 hbs
  · intro b hb
    rcases List.mem_append.1 hb with h | h
    · exact hqk b h
    · exact hN'.known b (hsub b h)
  · intro _
    show (x.queue ++ bs).getLast? = N'.getLast?
    rw [hlast, getLast?_append_ne hbs]

theorem JRW_node {cfg : Cfg} {G : Block} (E : StaticOK cfg.st G) (cr : Bool) {x : SysQ} {k : Skel} {w : Wid} (ev : EvQ)
    (hev : (∃ b, ev = .extend b) ∨ (∃ m bs, ev = .reorgTo m bs)) (hJ : JRW cfg G x k w)
    (hok : StepOK cfg.st G k ev) :
    JRW cfg G (stepQ cfg.st cfg.n cr x ev) (skStep cfg.st k ev) w := by
  rcases hJ with hM | hD
  · left
    rcases hev with ⟨b, rfl⟩ | ⟨m, bs, rfl⟩
    · have h1 : stepQ cfg.st cfg.n cr x (.extend b) = { x with chain := k.chain ++ [b], queue := x.queue ++ [b] } := by
        simp only [stepQ, hM.chain]
      rw [h1]
      exact JRmidW_nodeMove hM (k.chain ++ [b]) [b] (by simp) hok
        (fun y hy => by rw [List.mem_singleton.1 hy]; exact List.mem_append_right _ List.mem_cons_self) (by simp)
    · have h1 : stepQ cfg.st cfg.n cr x (.reorgTo m bs) =
          { x with chain := k.chain.take (k.chain.length - m) ++ bs, queue := x.queue ++ bs } := by
        simp only [stepQ, hM.chain]
      rw [h1]
      exact JRmidW_nodeMove hM _ bs hok.1 hok.2 (fun y hy => List.mem_append_right _ hy) (getLast?_append_ne hok.1)
  · have := JR_node E cr ev hev (Or.inr hD) hok
    rcases this with hM' | hD'
    · exact absurd hM'.flagged (by
        obtain ⟨stt, hst, _⟩ := hM'.flagged
        intro _
        -- node events do not touch the store
        have hP : (stepQ cfg.st cfg.n cr x ev).P = x.P := by
          rcases hev with ⟨b, rfl⟩ | ⟨m, bs, rfl⟩ <;> simp only [stepQ]
        rw [hP, hD.gone] at hst; cases hst)
    · exact Or.inr hD'

/-- an unconfirmed transaction inside a removal window (the relaxed state does not read the pending bucket: C08 asks
    the pending-side clause at the removal steps) -/
theorem JRW_recvTx {cfg : Cfg} {G : Block} (cr : Bool) {x : SysQ} {k : Skel} {w : Wid} (tx : Tx) (hJ : JRW cfg G x k w) :
    JRW cfg G (stepQ cfg.st cfg.n cr x (.recvTx tx)) k w := by
  obtain ⟨m1, m2⟩ := recvTx_mined (envAt cfg.st x.chain) cfg.n cfg.n tx x.P x.V
  obtain ⟨f1, f2⟩ := recvTx_frame (envAt cfg.st x.chain) cfg.n cfg.n tx x.P x.V
  have f3 := recvTx_tasks (envAt cfg.st x.chain) cfg.n cfg.n tx x.P x.V
  have h1 : stepQ cfg.st cfg.n cr x (.recvTx tx) =
      { x with P := (Model.Persist.recvTx (envAt cfg.st x.chain) cfg.n cfg.n none tx x.P x.V).P,
               V := (Model.Persist.recvTx (envAt cfg.st x.chain) cfg.n cfg.n none tx x.P x.V).V } := rfl
  rcases hJ with hM | ⟨hQ, hgone, hnA⟩
  · left
    obtain ⟨hc, hks, hkeys, hnW, hnA, hrec, htask, ⟨X, g, kk, hX, hP, hv, hpre, hq0⟩, hqk, hql, hN, hcur, hoth, hother⟩ := hM
    rw [h1]
    refine ⟨hc, m1.trans hks, f2.trans hkeys, hnW, hnA, hrec, by rw [f3]; exact htask,
      ⟨X, g, kk, hX, ⟨hP.len, hP.ghost, MW.Lemmas.RemoveInterleave.subW_minedEq hP.sub m2,
        MW.Lemmas.RemoveInterleave.reach_minedEq hP.reach m2,
        MW.Lemmas.RemoveInterleave.midCW_congr hP.mid m2.credits m2.debits m2.unspent m2.game m2.txrecs m2.blocks
          m2.balance m2.sync m2.syncedTo m2.status⟩, f1.trans hv, hpre, hq0⟩, hqk, hql, hN, hcur, ?_, hother⟩
    intro w' hw' hne
    show readyB (Model.Persist.recvTx (envAt cfg.st x.chain) cfg.n cfg.n none tx x.P x.V).P.led w' = true
    rw [readyB_status (s := x.P.led) (by rw [m2.status])]; exact hoth w' hw' hne
  · right
    refine ⟨JQ_recvTx cfg.n cr tx hQ, ?_, hnA⟩
    rw [h1]
    show AMap.get (Model.Persist.recvTx (envAt cfg.st x.chain) cfg.n cfg.n none tx x.P x.V).P.led.status w = none
    rw [m2.status]; exact hgone

/-- **the handler step of the generalised invariant**: inside a removal window the follower handles the next queued
    notification — a block of the node's chain at ANY height (extension; reorganisation of any depth, also below the
    height at which the wallet was flagged); success of its database transaction is asked of the LAST queued
    notification only (a failing one changes nothing) -/
theorem JTW_handle {cfg : Cfg} {G : Block} (E : StaticOK cfg.st G) (cr : Bool) {x : SysQ} {k : SkelT} {w : Wid}
    (hJ : JTW cfg G x k) (hbusy : k.busy = some (.rem w))
    (hon : ∀ b, x.queue.head? = some b → k.base.chain[b.height]? = some b)
    (hok : ∀ b, x.queue = [b] →
      ((opBlock (envAt cfg.st k.base.chain) cfg.n b).run none x.P x.V).ok = true) :
    JTW cfg G (stepT cfg cr x (.q .handle)) (skStepT cfg k (.q .handle)) := by
  obtain ⟨hshort, hqs, hcn, hph⟩ := hJ
  refine ⟨hshort, qsuf_stepQ cfg.st cfg.n cr x k.queue .handle hqs, credNodup_stepT cfg cr x (.q .handle) hcn, ?_⟩
  unfold PhaseT at hph ⊢
  show match k.busy with
    | none => JQ cfg.st G (stepQ cfg.st cfg.n cr x .handle) k.base
    | some (.imp w) => JI cfg G (stepQ cfg.st cfg.n cr x .handle) k.base w
    | some (.rem w) => JRW cfg G (stepQ cfg.st cfg.n cr x .handle) k.base w
  rw [hbusy] at hph ⊢
  exact JRW_handle E cr hph hon hok

end MW.Lemmas.Deepen5
