/-
  ADDRESS RECORDS = FIRST-USE HEIGHTS, part 5: a FIXED node chain, ARBITRARY notifications (the shape of
  `MW.Props.C12.used_flag_iff_full`): the follower is fed any list of known blocks – in order, out of order,
  repeated, stale – by `processBlock`; after every one of them the store holds books and first-use heights of the
  node's chain up to the height it is synced to.
-/
import MW.Lemmas.LedgerFU4
import MW.Lemmas.LedgerListed
namespace MW.Lemmas.LedgerFU
open MW MW.Model.Ledger MW.Spec.Chain MW.Spec.Books MW.Lemmas.Ledger

/-- feed the notifications `hist` to the follower one after the other (failed ones change nothing) -/
def foldNotify (c : Ctx) (sv : Store × Vol) (hist : List Block) : Store × Vol :=
  hist.foldl (fun sv b => let r := processBlock c sv.1 sv.2 b; (r.1, r.2.1)) sv

/-- the wallet holds books and first-use heights of the node's chain `N` up to its synced height, the
    follower's tip is that block, every address owner is a ready wallet -/
def KInv (e : Env) (N : List Block) (s : Store) (v : Vol) : Prop :=
  s.syncedTo < N.length ∧ Inv (e.ctx N) s (N.take (s.syncedTo + 1)) ∧
    AddrInv (e.ctx N) s (N.take (s.syncedTo + 1)) ∧ v.best = tipMeta (N.take (s.syncedTo + 1)) ∧
    AllReady e.own (readyWallets s e.wallets) ∧ (readyWallets s e.wallets).isEmpty = false

theorem KInv_step {e : Env} {G : Block} (E : EnvHyp e G) {N : List Block} (hN : ChainOK e G N) {s : Store} {v : Vol}
    (hK : KInv e N s v) {b : Block} (hb : AMap.get e.known b.id = some b) :
    KInv e N (processBlock (e.ctx N) s v b).1 (processBlock (e.ctx N) s v b).2.1 := by
  obtain ⟨hlt, hI, hA, hv, hAR, hne⟩ := hK
  have hS : ChainOK e G (N.take (s.syncedTo + 1)) := hN.take _
  have H := reorgHyp_of hN hS
  have hinj : IdInj (b :: (N.take (s.syncedTo + 1) ++ (e.ctx N).node.chain)) :=
    idInj_of_known (known := e.known) (fun x hx => by
      rcases List.mem_cons.1 hx with h | h
      · rw [h]; exact hb
      · rcases List.mem_append.1 h with h | h
        · exact hS.known x h
        · exact hN.known x h)
  have hgen := hgen_of E hS hb
  obtain ⟨s', v', ok, h1, hcase⟩ := handler_step_addr H hinj hI hA hv hgen hAR hne
  rw [h1]
  rcases hcase with ⟨_, rfl, rfl⟩ | ⟨_, hvb, hr, hcase⟩
  · exact ⟨hlt, hI, hA, hv, hAR, hne⟩
  · have hAR' : AllReady e.own (readyWallets s' e.wallets) := by rw [hr]; exact hAR
    have hne' : (readyWallets s' e.wallets).isEmpty = false := by rw [hr]; exact hne
    -- in both cases the block is on the node's chain and the store holds the chain up to it
    have key : ∀ (hbN : N[b.height]? = some b), Inv (e.ctx N) s' (N.take (b.height + 1)) →
        AddrInv (e.ctx N) s' (N.take (b.height + 1)) → KInv e N s' v' := by
      intro hbN hI' hA'
      have hbl : b.height < N.length := (List.getElem?_eq_some_iff.1 hbN).1
      have hst : s'.syncedTo = b.height := by
        have := hI'.syncedTo
        rw [List.length_take] at this
        omega
      unfold KInv
      rw [hst]
      exact ⟨hbl, hI', hA', by rw [hvb]; exact (tipMeta_take hN.good hbN).symm, hAR', hne'⟩
    rcases hcase with ⟨hbN, hI', hA'⟩ | ⟨hbS, hI', hA'⟩
    · exact key hbN hI' hA'
    · have hbl : b.height < s.syncedTo + 1 := by
        have := (List.getElem?_eq_some_iff.1 hbS).1
        rw [List.length_take] at this
        omega
      have hbN : N[b.height]? = some b := by rw [← getElem?_take_of_lt hbl]; exact hbS
      have et : (N.take (s.syncedTo + 1)).take (b.height + 1) = N.take (b.height + 1) := by
        rw [List.take_take, Nat.min_eq_left (by omega)]
      rw [et] at hI' hA'
      exact key hbN hI' hA'

theorem KInv_fold {e : Env} {G : Block} (E : EnvHyp e G) {N : List Block} (hN : ChainOK e G N) (hist : List Block) :
    ∀ (sv : Store × Vol), KInv e N sv.1 sv.2 → (∀ b ∈ hist, AMap.get e.known b.id = some b) →
      KInv e N (foldNotify (e.ctx N) sv hist).1 (foldNotify (e.ctx N) sv hist).2 := by
  induction hist with
  | nil => intro sv h _; exact h
  | cons b hist ih =>
    intro sv h hk
    unfold foldNotify
    rw [List.foldl_cons]
    exact ih _ (KInv_step E hN h (hk b List.mem_cons_self)) (fun x hx => hk x (List.mem_cons_of_mem _ hx))

/-- USED FLAG, FIXED NODE CHAIN, ARBITRARY NOTIFICATIONS. After ANY list of notified known blocks the listed
    flag of every owned address is `Spec.Chain.addrUsed` of the node's chain up to the height the wallet is
    synced to (and the ledger invariant holds for that prefix). -/
theorem used_flag_fold {e : Env} {G : Block} (E : EnvHyp e G) {N : List Block} (hN : ChainOK e G N)
    (s : Store) (v : Vol) (hist : List Block) (hK : KInv e N s v)
    (hk : ∀ b ∈ hist, AMap.get e.known b.id = some b)
    {a : Addr} {w : Wid} {ch : Bool} (ho : AMap.get e.own a = some (w, ch)) (hG : addrUsed [G] a = false) :
    let s' := (foldNotify (e.ctx N) (s, v) hist).1
    Inv (e.ctx N) s' (N.take (s'.syncedTo + 1)) ∧
    decide (0 < gA s' (w, false, a) ∨ 0 < gA s' (w, true, a)) = addrUsed (N.take (s'.syncedTo + 1)) a := by
  obtain ⟨_, hI, hA, _⟩ := KInv_fold E hN hist (s, v) hK hk
  refine ⟨hI, ?_⟩
  have ht : (N.take ((foldNotify (e.ctx N) (s, v) hist).1.syncedTo + 1)).take 1 = [G] := by
    rw [List.take_take, Nat.min_eq_left (by omega), take_succ_of_get hN.genesis]; simp
  exact (used_iff hA (c := e.ctx N) ho (by rw [ht]; exact hG)).1

theorem foldNotify_listed (c : Ctx) (hist : List Block) :
    ∀ (sv : Store × Vol), Listed sv.1 (foldNotify c sv hist).1 := by
  induction hist with
  | nil => intro sv; exact Listed.refl _
  | cons b hist ih =>
    intro sv
    exact (processBlock_listed c sv.1 sv.2 b).trans
      (ih ((processBlock c sv.1 sv.2 b).1, (processBlock c sv.1 sv.2 b).2.1))

-- ------------------------------------------------------------------ histories in which NewAddress writes its record

/-- the events of LedgerIssue.lean, the issuance carrying the class the address is issued in: wallet.go
    NewAddress adds the address to the keystore view AND writes the address record (class, address) ↦ 0 in the
    same database transaction (`MW.Props.C12.walletNewAddress_eq`) -/
inductive EvL
  | node (ev : Ev)
  | issue (a : Addr) (w : Wid) (ch : Bool) (stk : Bool)

def EvL.toI : EvL → EvI
  | .node ev => .node ev
  | .issue a w ch _ => .issue a w ch

def setAddrs (x : WorldI) (A : AMap.T AKey Nat) : WorldI :=
  { x with w := { x.w with s := { x.w.s with addrs := A } } }

def stepL (e : Env) (x : WorldI) : EvL → WorldI
  | .node ev => stepI e x (.node ev)
  | .issue a w ch stk => setAddrs (stepI e x (.issue a w ch)) (AMap.put x.w.s.addrs (w, stk, a) 0)

def runL (e : Env) (x : WorldI) (evs : List EvL) : WorldI := evs.foldl (stepL e) x

theorem runL_snoc (e : Env) (x : WorldI) (l : List EvL) (ev : EvL) :
    runL e x (l ++ [ev]) = stepL e (runL e x l) ev := by
  unfold runL; rw [List.foldl_append]; rfl

theorem runL_append (e : Env) (x : WorldI) (l₁ l₂ : List EvL) :
    runL e x (l₁ ++ l₂) = runL e (runL e x l₁) l₂ := by
  unfold runL; rw [List.foldl_append]

/-- keystore view, node chain and notification queue do not depend on the store -/
def Shadow (x y : WorldI) : Prop := x.own = y.own ∧ x.w.chain = y.w.chain ∧ x.w.queue = y.w.queue

theorem shadow_step {e : Env} {x y : WorldI} (h : Shadow x y) (ev : EvL) :
    Shadow (stepL e x ev) (stepI e y ev.toI) := by
  obtain ⟨h1, h2, h3⟩ := h
  cases ev with
  | issue a w ch stk => exact ⟨by show AMap.put x.own a (w, ch) = AMap.put y.own a (w, ch); rw [h1], h2, h3⟩
  | node ev =>
    cases ev with
    | extend b => exact ⟨h1, by show x.w.chain ++ [b] = y.w.chain ++ [b]; rw [h2],
        by show x.w.queue ++ [b] = y.w.queue ++ [b]; rw [h3]⟩
    | reorgTo k bs =>
      exact ⟨h1, by show x.w.chain.take (x.w.chain.length - k) ++ bs = y.w.chain.take (y.w.chain.length - k) ++ bs
                    rw [h2],
        by show x.w.queue ++ bs = y.w.queue ++ bs; rw [h3]⟩
    | handle =>
      refine ⟨h1, ?_, ?_⟩
      · show (stepW { e with own := x.own } x.w .handle).chain = (stepW { e with own := y.own } y.w .handle).chain
        unfold stepW
        cases hx : x.w.queue <;> cases hy : y.w.queue <;> simp_all
      · show (stepW { e with own := x.own } x.w .handle).queue = (stepW { e with own := y.own } y.w .handle).queue
        unfold stepW
        cases hx : x.w.queue <;> cases hy : y.w.queue <;> simp_all

theorem shadow_run (e : Env) (x : WorldI) (evs : List EvL) : Shadow (runL e x evs) (runI e x (evs.map EvL.toI)) := by
  induction evs using list_snoc_induction with
  | nil => exact ⟨rfl, rfl, rfl⟩
  | snoc l ev ih =>
    rw [runL_snoc, List.map_append, List.map_singleton, runI_snoc]
    exact shadow_step ih ev

/-- `JS` does not read the address bucket -/
theorem JS_setAddrs {e : Env} {G : Block} {w : World} {S : List Block} (A : AMap.T AKey Nat) (h : JS e G w S) :
    JS e G { w with s := { w.s with addrs := A } } S := by
  obtain ⟨hI, hv, hS, hAR, hne, hq, hq0, hq1⟩ := h
  exact ⟨⟨⟨hI.agree.unspent, hI.agree.credits, hI.agree.debits, hI.agree.game, hI.agree.txrecs, hI.agree.blocks⟩,
    hI.bal, hI.sync, hI.syncedTo⟩, hv, hS, hAR, hne, hq, hq0, hq1⟩

/-- writing the record 0 for a key whose address the stored chain does not pay keeps the address clause -/
theorem addrInv_put_rec {c : Ctx} {s : Store} {S : List Block} {a : Addr} (w : Wid) (stk : Bool)
    (hu : addrUsed S a = false) (hA : AddrInv c s S) :
    AddrInv c { s with addrs := AMap.put s.addrs (w, stk, a) 0 } S := by
  intro k
  unfold gA
  simp only
  rw [AMap.get_put]
  by_cases hk : (w, stk, a) = k
  · subst hk
    simp only [if_true, Option.getD_some]
    unfold recOf
    simp only
    rw [firstUse_of_not_used hu]
    simp
  · simp only [hk, if_false]
    exact hA k

/-- the invariant `JIA` along a history whose issuances write their record; the node chains are those of the
    underlying history of LedgerIssue.lean -/
theorem JIA_runL {e : Env} {G : Block} {x0 : WorldI} {evs : List EvL} (H : RunHypI e G x0 (evs.map EvL.toI))
    (h0 : Inv ({ e with own := x0.own }.ctx x0.w.chain) x0.w.s x0.w.chain)
    (hA0 : AddrInv ({ e with own := x0.own }.ctx x0.w.chain) x0.w.s x0.w.chain)
    (hv0 : x0.w.v.best = tipMeta x0.w.chain) (hq0 : x0.w.queue = []) :
    ∀ pre, (∃ post, evs = pre ++ post) → JIA e G x0 (runL e x0 pre) (chainsI e x0 (pre.map EvL.toI)) := by
  intro pre
  induction pre using list_snoc_induction with
  | nil => intro _; exact JIA_init H h0 hA0 hv0 hq0
  | snoc pre ev ih =>
    rintro ⟨post, heq⟩
    have heq' : evs = pre ++ ev :: post := by rw [heq, List.append_assoc]; rfl
    have heqI : evs.map EvL.toI = pre.map EvL.toI ++ ev.toI :: post.map EvL.toI := by rw [heq']; simp
    have hJ := ih ⟨_, heq'⟩
    obtain ⟨s1, s2, s3⟩ := shadow_run e x0 pre
    have hcur : (runL e x0 pre).w.chain ∈ chainsI e x0 (pre.map EvL.toI) := by
      rw [s2]; exact chainsI_cur_mem e x0 _
    have hmem : ev.toI ∈ evs.map EvL.toI := by rw [heqI]; exact List.mem_append_right _ List.mem_cons_self
    have hlast : (runI e x0 (pre.map EvL.toI ++ [ev.toI])).w.chain = (runL e x0 (pre ++ [ev])).w.chain := by
      have := (shadow_run e x0 (pre ++ [ev])).2.1
      rw [List.map_append, List.map_singleton] at this
      exact this.symm
    rw [List.map_append, List.map_singleton, chainsI_snoc, hlast, runL_snoc]
    cases ev with
    | node nv =>
      have hN' := H.chains (pre.map EvL.toI) nv (post.map EvL.toI) heqI
      have hlast' : (runI e x0 (pre.map EvL.toI ++ [EvI.node nv])).w.chain =
          (runL e x0 (pre ++ [EvL.node nv])).w.chain := hlast
      rw [hlast', runL_snoc, ← s1] at hN'
      exact JIA_node (H.envHyp _) nv hJ hcur hN' (H.reorgNonempty nv hmem)
    | issue a w ch stk =>
      have hpaid := H.paid (pre.map EvL.toI) a w ch (post.map EvL.toI) heqI
      have hw := H.issuer a w ch hmem
      obtain ⟨S, hJS, hA, ⟨c, hc, hSc⟩, hN, hr⟩ := hJ
      have huS : addrUsed S a = false := addrUsed_prefix hSc (hpaid c hc)
      have huN : addrUsed (runL e x0 pre).w.chain a = false := hpaid _ hcur
      have hw' : (readyWallets (runL e x0 pre).w.s e.wallets).contains w = true := by rw [hr]; exact hw
      refine ⟨S, JS_setAddrs _ (JS_issue (e := { e with own := (runL e x0 pre).own }) hJS huS hw'), ?_,
        ⟨c, List.mem_append_left _ hc, hSc⟩,
        ChainOK.put_own (e := { e with own := (runL e x0 pre).own }) hN huN, hr⟩
      exact addrInv_put_rec (c := { e with own := AMap.put (runL e x0 pre).own a (w, ch) }.ctx (runL e x0 pre).w.chain)
        w stk huS (addrInv_put_own (c := { e with own := (runL e x0 pre).own }.ctx (runL e x0 pre).w.chain) huS hA)

theorem stepL_listed (e : Env) (x : WorldI) (ev : EvL) : Listed x.w.s (stepL e x ev).w.s := by
  cases ev with
  | issue a w ch stk => exact listed_put x.w.s (w, stk, a) 0
  | node ev =>
    cases ev with
    | extend b => exact Listed.refl _
    | reorgTo k bs => exact Listed.refl _
    | handle =>
      show Listed x.w.s (stepW { e with own := x.own } x.w .handle).s
      unfold stepW
      cases hq : x.w.queue with
      | nil => exact Listed.refl _
      | cons b q => exact processBlock_listed _ _ _ _

theorem runL_listed (e : Env) (evs : List EvL) : ∀ (x : WorldI), Listed x.w.s (runL e x evs).w.s := by
  induction evs with
  | nil => intro x; exact Listed.refl _
  | cons ev evs ih => intro x; exact (stepL_listed e x ev).trans (ih _)

/-- THE USED FLAG, COMPLETE (C12 `used_flag_iff`). For EVERY finite history of node events (extend, reorganise
    to any branch), handler steps and NewAddress calls (keystore view grows AND the address record (class,
    address) ↦ 0 is written), under the hypotheses of `ledger_correct_issue` for the underlying history: once no
    notification is pending, every address issued along the way that the keystore view still gives to its wallet
      * is still LISTED in the class it was issued in (its record is present), and
      * its listed flag (standard-form or staking-form record positive) is `Spec.Chain.addrUsed` of the node's best
        chain; the staking-form record is positive iff a block above the genesis pays it in staking form. -/
theorem used_flag_listed (e : Env) (G : Block) (x0 : WorldI) (evs : List EvL)
    (H : RunHypI e G x0 (evs.map EvL.toI))
    (h0 : Inv ({ e with own := x0.own }.ctx x0.w.chain) x0.w.s x0.w.chain)
    (hA0 : AddrInv ({ e with own := x0.own }.ctx x0.w.chain) x0.w.s x0.w.chain)
    (hv0 : x0.w.v.best = tipMeta x0.w.chain) (hq0 : x0.w.queue = [])
    (hq : (runL e x0 evs).w.queue = [])
    {a : Addr} {w : Wid} {ch stk : Bool} (hi : EvL.issue a w ch stk ∈ evs)
    (ho : AMap.get (runL e x0 evs).own a = some (w, ch)) :
    (AMap.get (runL e x0 evs).w.s.addrs (w, stk, a)).isSome = true ∧
    (decide (0 < gA (runL e x0 evs).w.s (w, false, a) ∨ 0 < gA (runL e x0 evs).w.s (w, true, a)) =
        addrUsed (runL e x0 evs).w.chain a) ∧
    (decide (0 < gA (runL e x0 evs).w.s (w, true, a)) =
        ((runL e x0 evs).w.chain.drop 1).any (paysKey true a)) := by
  constructor
  · obtain ⟨pre, post, heq⟩ := List.append_of_mem hi
    rw [heq, show pre ++ EvL.issue a w ch stk :: post = (pre ++ [EvL.issue a w ch stk]) ++ post by simp,
      runL_append, runL_snoc]
    apply runL_listed e post _ (w, stk, a)
    show (AMap.get (AMap.put (runL e x0 pre).w.s.addrs (w, stk, a) 0) (w, stk, a)).isSome = true
    rw [AMap.get_put]; simp
  · obtain ⟨S, ⟨_, _, _, _, _, _, hS, _⟩, hA, _, hN, _⟩ :=
      JIA_runL H h0 hA0 hv0 hq0 evs ⟨[], (List.append_nil _).symm⟩
    have := hS hq
    subst this
    have hg : (runL e x0 evs).w.chain[0]? = some G := hN.genesis
    have ht : (runL e x0 evs).w.chain.take 1 = [G] := by rw [take_succ_of_get hg]; simp
    have hG : addrUsed [G] a = false :=
      genesis_not_paid_of_issued H (a := a) (w := w) (ch := ch) (List.mem_map.2 ⟨_, hi, rfl⟩)
    exact used_iff hA (c := { e with own := (runL e x0 evs).own }.ctx (runL e x0 evs).w.chain) ho
      (by rw [ht]; exact hG)

/-- the static part of a context, as the `Env` of the history theorems -/
def envOf (c : Ctx) : Env := ⟨c.p, c.own, c.wallets, c.node.known⟩

theorem ctx_envOf (c : Ctx) : (envOf c).ctx c.node.chain = c := rfl

end MW.Lemmas.LedgerFU
