/-
  Updates of a store expressed through its lookup function, and the specification database
  they correspond to (Put, Delete, Clear, bucket creation).
-/
import MW.Lemmas.KvRead
namespace MW.Model.KV
open MW MW.KV
open MW.Spec.KV (DB)

variable {s s' : Store} {d : DB}

theorem nodup_map_fst_filter {α β : Type} {l : List (α × β)} (f : α × β → Bool)
    (h : (l.map (·.1)).Nodup) : ((l.filter f).map (·.1)).Nodup := by
  have : (l.map (·.1)).Pairwise (· ≠ ·) := h
  have h2 := List.pairwise_map.mp this
  show ((l.filter f).map (·.1)).Pairwise (· ≠ ·)
  exact List.pairwise_map.mpr (List.Pairwise.filter f h2)

/-- Put of a non-empty key into an existing bucket -/
theorem Rel.put (h : Rel s d) {p : Path} (hp : p ∈ d.buckets) {k v : Bytes} (hk : k ≠ [])
    (hs' : SMap.Sorted s') (hg : ∀ k0, s'.get k0 = if k0 = dataKey p k then some v else s.get k0) :
    Rel s' { d with data := ((p, k), v) :: d.data.filter fun e => e.1 != (p, k) } where
  sorted := hs'
  bNodup := h.bNodup
  bValid := h.bValid
  bClosed := h.bClosed
  dNodup := by
    simp only [List.map_cons]
    refine List.nodup_cons.mpr ⟨?_, nodup_map_fst_filter _ h.dNodup⟩
    intro hm
    obtain ⟨e, he, heq⟩ := List.mem_map.mp hm
    have := (List.mem_filter.mp he).2
    simp [heq] at this
  dIn := by
    intro e he
    rcases List.mem_cons.mp he with he | he
    · subst he; exact ⟨hp, hk⟩
    · exact h.dIn e (List.mem_filter.mp he).1
  mem := by
    intro k0 v0
    rw [hg]
    by_cases hk0 : k0 = dataKey p k
    · subst hk0
      simp only [if_true, Option.some.injEq]
      constructor
      · intro hv; subst hv
        exact Or.inr ⟨((p, k), v), List.mem_cons_self, rfl, rfl⟩
      · rintro (⟨q, _, hq, _⟩ | ⟨e, he, hke, hve⟩)
        · exact absurd hq (dataKey_ne_indexKey _ _ _)
        · rcases List.mem_cons.mp he with he | he
          · subst he; exact hve.symm
          · have hf := List.mem_filter.mp he
            obtain ⟨h1, h2⟩ := dataKey_injective (h.noSep hp) (h.noSep (h.dIn e hf.1).1) hke
            have : e.1 = (p, k) := Prod.ext h1.symm h2.symm
            simp [this] at hf
    · simp only [hk0, if_false]
      rw [h.mem]
      constructor
      · rintro (hq | ⟨e, he, hke, hve⟩)
        · exact Or.inl hq
        · refine Or.inr ⟨e, List.mem_cons_of_mem _ (List.mem_filter.mpr ⟨he, ?_⟩), hke, hve⟩
          simp only [bne_iff_ne, ne_eq]
          intro heq
          apply hk0
          rw [hke, heq]
      · rintro (hq | ⟨e, he, hke, hve⟩)
        · exact Or.inl hq
        · rcases List.mem_cons.mp he with he | he
          · subst he; exact absurd hke hk0
          · exact Or.inr ⟨e, (List.mem_filter.mp he).1, hke, hve⟩

/-- Delete of a key in an existing bucket -/
theorem Rel.del (h : Rel s d) {p : Path} (hp : p ∈ d.buckets) {k : Bytes}
    (hs' : SMap.Sorted s') (hg : ∀ k0, s'.get k0 = if k0 = dataKey p k then none else s.get k0) :
    Rel s' { d with data := d.data.filter fun e => e.1 != (p, k) } where
  sorted := hs'
  bNodup := h.bNodup
  bValid := h.bValid
  bClosed := h.bClosed
  dNodup := nodup_map_fst_filter _ h.dNodup
  dIn := by intro e he; exact h.dIn e (List.mem_filter.mp he).1
  mem := by
    intro k0 v0
    rw [hg]
    by_cases hk0 : k0 = dataKey p k
    · subst hk0
      simp only [if_true, reduceCtorEq, false_iff, not_or, not_exists, not_and]
      refine ⟨fun q _ hq => absurd hq (dataKey_ne_indexKey _ _ _), ?_⟩
      intro e he hke
      have hf := List.mem_filter.mp he
      obtain ⟨h1, h2⟩ := dataKey_injective (h.noSep hp) (h.noSep (h.dIn e hf.1).1) hke
      have : e.1 = (p, k) := Prod.ext h1.symm h2.symm
      simp [this] at hf
    · simp only [hk0, if_false]
      rw [h.mem]
      constructor
      · rintro (hq | ⟨e, he, hke, hve⟩)
        · exact Or.inl hq
        · refine Or.inr ⟨e, List.mem_filter.mpr ⟨he, ?_⟩, hke, hve⟩
          simp only [bne_iff_ne, ne_eq]
          intro heq; apply hk0; rw [hke, heq]
      · rintro (hq | ⟨e, he, hke, hve⟩)
        · exact Or.inl hq
        · exact Or.inr ⟨e, (List.mem_filter.mp he).1, hke, hve⟩

/-- Clear of an existing bucket: every key under `<path>_` goes, nothing else -/
theorem Rel.clear (h : Rel s d) {p : Path} (hp : p ∈ d.buckets)
    (hs' : SMap.Sorted s') (hg : ∀ k0, s'.get k0 = if dataKey p [] <+: k0 then none else s.get k0) :
    Rel s' { d with data := d.data.filter fun e => e.1.1 != p } where
  sorted := hs'
  bNodup := h.bNodup
  bValid := h.bValid
  bClosed := h.bClosed
  dNodup := nodup_map_fst_filter _ h.dNodup
  dIn := by intro e he; exact h.dIn e (List.mem_filter.mp he).1
  mem := by
    intro k0 v0
    rw [hg]
    by_cases hk0 : dataKey p [] <+: k0
    · simp only [hk0, if_true, reduceCtorEq, false_iff, not_or, not_exists, not_and]
      refine ⟨fun q _ hq => ?_, ?_⟩
      · rw [hq] at hk0; exact absurd hk0 (dataPrefix_not_prefix_indexKey _ _ _)
      · intro e he hke
        have hf := List.mem_filter.mp he
        rw [hke] at hk0
        have := (dataKey_prefix_iff (h.noSep (h.dIn e hf.1).1) (h.noSep hp) [] _).mp hk0
        simp [this.1] at hf
    · simp only [hk0, if_false]
      rw [h.mem]
      constructor
      · rintro (hq | ⟨e, he, hke, hve⟩)
        · exact Or.inl hq
        · refine Or.inr ⟨e, List.mem_filter.mpr ⟨he, ?_⟩, hke, hve⟩
          simp only [bne_iff_ne, ne_eq]
          intro heq; apply hk0; rw [hke, heq]
          exact (dataKey_prefix_iff (h.noSep hp) (h.noSep hp) [] _).mpr ⟨rfl, List.nil_prefix⟩
      · rintro (hq | ⟨e, he, hke, hve⟩)
        · exact Or.inl hq
        · exact Or.inr ⟨e, (List.mem_filter.mp he).1, hke, hve⟩

/-- creation of a bucket with a valid name under an existing parent (or at the top level) -/
theorem Rel.create (h : Rel s d) {q : Path} {n : Bytes} (hq : q = [] ∨ q ∈ d.buckets) (hn : ValidName n)
    (hnew : q ++ [n] ∉ d.buckets)
    (hs' : SMap.Sorted s') (hg : ∀ k0, s'.get k0 = if k0 = idxKey (q ++ [n]) then some n else s.get k0) :
    Rel s' { d with buckets := (q ++ [n]) :: d.buckets } where
  sorted := hs'
  bNodup := List.nodup_cons.mpr ⟨hnew, h.bNodup⟩
  bValid := by
    intro p hp
    rcases List.mem_cons.mp hp with hp | hp
    · subst hp
      refine ⟨by simp, ?_⟩
      intro x hx
      rcases List.mem_append.mp hx with hx | hx
      · rcases hq with hq | hq
        · subst hq; cases hx
        · exact (h.bValid q hq).2 x hx
      · simp at hx; subst hx; exact hn
    · exact h.bValid p hp
  bClosed := by
    intro p m hp hm
    rcases List.mem_cons.mp hm with hm | hm
    · have := List.append_inj' hm (by simp)
      rcases hq with hq | hq
      · rw [this.1, hq] at hp; exact absurd rfl hp
      · rw [this.1]; exact List.mem_cons_of_mem _ hq
    · exact List.mem_cons_of_mem _ (h.bClosed p m hp hm)
  dNodup := h.dNodup
  dIn := by intro e he; exact ⟨List.mem_cons_of_mem _ (h.dIn e he).1, (h.dIn e he).2⟩
  mem := by
    intro k0 v0
    rw [hg]
    have hnsq : NoSep (q ++ [n]) := by
      rcases hq with hq | hq
      · subst hq; intro x hx; simp at hx; subst hx; exact hn.noSep
      · exact (h.noSep hq).append hn.noSep
    by_cases hk0 : k0 = idxKey (q ++ [n])
    · subst hk0
      simp only [if_true, Option.some.injEq]
      constructor
      · intro hv; subst hv
        exact Or.inl ⟨q ++ [n], List.mem_cons_self, rfl, (lastName_concat q n).symm⟩
      · rintro (⟨r, hr, hkr, hvr⟩ | ⟨e, _, hke, _⟩)
        · rcases List.mem_cons.mp hr with hr | hr
          · subst hr; rw [lastName_concat] at hvr; exact hvr.symm
          · have := idxKey_injective hnsq (h.noSep hr) hkr
            rw [← this] at hr; exact absurd hr hnew
        · exact absurd hke.symm (dataKey_ne_indexKey _ _ _)
    · simp only [hk0, if_false]
      rw [h.mem]
      constructor
      · rintro (⟨r, hr, hkr, hvr⟩ | he)
        · exact Or.inl ⟨r, List.mem_cons_of_mem _ hr, hkr, hvr⟩
        · exact Or.inr he
      · rintro (⟨r, hr, hkr, hvr⟩ | he)
        · rcases List.mem_cons.mp hr with hr | hr
          · subst hr; exact absurd hkr hk0
          · exact Or.inl ⟨r, hr, hkr, hvr⟩
        · exact Or.inr he

/-- `k0` is the index key or a data key of a bucket at or below `p` -/
def UnderKey (p : Path) (k0 : Bytes) : Prop :=
  ∃ r, p <+: r ∧ NoSep r ∧ (k0 = idxKey r ∨ ∃ k, k0 = dataKey r k)

/-- deletion of an existing bucket with everything below it -/
theorem Rel.delb (h : Rel s d) {p : Path} (hp : p ∈ d.buckets) (hp2 : p.length ≥ 2)
    (hs' : SMap.Sorted s')
    (hgone : ∀ k0, UnderKey p k0 → s'.get k0 = none)
    (hkeep : ∀ k0, ¬ UnderKey p k0 → s'.get k0 = s.get k0) :
    Rel s' { buckets := d.buckets.filter fun q => !p.isPrefixOf q,
             data := d.data.filter fun e => !p.isPrefixOf e.1.1 } where
  sorted := hs'
  bNodup := List.Pairwise.filter _ h.bNodup
  bValid := by intro q hq; exact h.bValid q (List.mem_filter.mp hq).1
  bClosed := by
    intro q n hq hm
    have hm' := List.mem_filter.mp hm
    refine List.mem_filter.mpr ⟨h.bClosed q n hq hm'.1, ?_⟩
    simp only [Bool.not_eq_true', Bool.eq_false_iff, ne_eq, List.isPrefixOf_iff_prefix] at hm' ⊢
    intro hpre
    exact hm'.2 (hpre.trans (List.prefix_append q [n]))
  dNodup := nodup_map_fst_filter _ h.dNodup
  dIn := by
    intro e he
    have he' := List.mem_filter.mp he
    exact ⟨List.mem_filter.mpr ⟨(h.dIn e he'.1).1, he'.2⟩, (h.dIn e he'.1).2⟩
  mem := by
    intro k0 v0
    by_cases hu : UnderKey p k0
    · rw [hgone k0 hu]
      simp only [reduceCtorEq, false_iff, not_or, not_exists, not_and]
      obtain ⟨r, hpr, hnr, hk⟩ := hu
      refine ⟨?_, ?_⟩
      · intro q hq hkq
        have hq' := List.mem_filter.mp hq
        simp only [Bool.not_eq_true', Bool.eq_false_iff, ne_eq, List.isPrefixOf_iff_prefix] at hq'
        rcases hk with hk | ⟨k, hk⟩
        · rw [hk] at hkq
          have := idxKey_injective hnr (h.noSep hq'.1) hkq
          subst this; exact absurd hpr hq'.2
        · rw [hk] at hkq; exact absurd hkq (dataKey_ne_indexKey _ _ _)
      · intro e he hke
        have he' := List.mem_filter.mp he
        simp only [Bool.not_eq_true', Bool.eq_false_iff, ne_eq, List.isPrefixOf_iff_prefix] at he'
        rcases hk with hk | ⟨k, hk⟩
        · rw [hk] at hke; exact absurd hke.symm (dataKey_ne_indexKey _ _ _)
        · rw [hk] at hke
          have := (dataKey_injective hnr (h.noSep (h.dIn e he'.1).1) hke).1
          rw [← this] at he'; exact absurd hpr he'.2
    · rw [hkeep k0 hu, h.mem]
      constructor
      · rintro (⟨q, hq, hkq, hvq⟩ | ⟨e, he, hke, hve⟩)
        · refine Or.inl ⟨q, List.mem_filter.mpr ⟨hq, ?_⟩, hkq, hvq⟩
          simp only [Bool.not_eq_true', Bool.eq_false_iff, ne_eq, List.isPrefixOf_iff_prefix]
          intro hpre
          exact hu ⟨q, hpre, h.noSep hq, Or.inl hkq⟩
        · refine Or.inr ⟨e, List.mem_filter.mpr ⟨he, ?_⟩, hke, hve⟩
          simp only [Bool.not_eq_true', Bool.eq_false_iff, ne_eq, List.isPrefixOf_iff_prefix]
          intro hpre
          exact hu ⟨e.1.1, hpre, h.noSep (h.dIn e he).1, Or.inr ⟨e.1.2, hke⟩⟩
      · rintro (⟨q, hq, hkq, hvq⟩ | ⟨e, he, hke, hve⟩)
        · exact Or.inl ⟨q, (List.mem_filter.mp hq).1, hkq, hvq⟩
        · exact Or.inr ⟨e, (List.mem_filter.mp he).1, hke, hve⟩

end MW.Model.KV
