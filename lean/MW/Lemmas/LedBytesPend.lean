/-
  LedBytes, part 9 — the pending side of insertMinedTx on bytes: removeDoubleSpends / removeConflict (recursive, fuel as in
  the ledger model) / removeUnminedInputsOf / deleteUnminedInputs / removeUnminedGameHistory on the buckets `m`, `mi`,
  `mc`, `LG`, and their simulation by MW.Model.Ledger.  The pending record's value is `received ‖ MsgTx.Bytes(wire.DB)`;
  `PendEnv.deserB` is mass-core's deserializer read as a byte-level transaction (`TxB`), tied to `Env.deser`.
  Hash lists (`mi` values) are read in 32-byte chunks (`decHashes` = fetchUnminedInputSpendTxHashes).
-/
import MW.Lemmas.LedBytesRollback
namespace MW.LedBytes
open MW MW.Gen.Codec MW.Model.TxmgrCodec MW.TxmgrCodec MW.Model.Ledger

structure PendEnv (E : Env) (own : Own) where
  deserB : Bytes → TxB
  ownA : Bytes → Option (Bytes × Bool)
  deser_sim : ∀ ser, E.deser ser = (deserB ser).nm E.N
  deser_wf : ∀ ser, (deserB ser).WF
  ownA_sim : ∀ a, AMap.get own (E.N.adr a) = (ownA a).map (fun x => (E.N.wal x.1, x.2))
  ownA_wf : ∀ a x, ownA a = some x → x.1.length = 42

/-- simulation of a loop without error exits -/
theorem foldl_sim {α αB β βB : Type} (absF : βB → β) (P : βB → Prop) (fB : βB → αB → βB) (f : β → α → β) (g : αB → α)
    (Q : αB → Prop) (hstep : ∀ b a, P b → Q a → absF (fB b a) = f (absF b) (g a) ∧ P (fB b a)) :
    ∀ (l : List αB) (b : βB), P b → (∀ a ∈ l, Q a) → absF (l.foldl fB b) = (l.map g).foldl f (absF b) ∧ P (l.foldl fB b) := by
  intro l
  induction l with
  | nil => intro b hb _; exact ⟨rfl, hb⟩
  | cons a l ih =>
    intro b hb hq
    obtain ⟨h1, h2⟩ := hstep b a hb (hq a List.mem_cons_self)
    simp only [List.foldl_cons, List.map_cons]
    rw [← h1]
    exact ih _ h2 (fun x hx => hq x (List.mem_cons_of_mem _ hx))

/-- fetchUnminedInputSpendTxHashes -/
def spendersB (mi : AMap.T Bytes Bytes) (k : Bytes) : List Bytes := ((AMap.get mi k).bind decHashes).getD []

/-- existsRawUnmined + readRawUnmined + MsgTx.SetBytes -/
def pendTxB {E : Env} {own : Own} (P : PendEnv E own) (m : AMap.T Bytes Bytes) (k : Bytes) : Option TxB :=
  (AMap.get m k).bind (fun v => (readRawUnmined v).map (fun x => P.deserB x.2))

theorem spenders_on_bytes (E : Env) {bs : BStore} (hC : CanonS E bs) {op : OutPointB} (hop : op.WF = true) :
    (AMap.get (absStore E bs).pendIns (nmOP E.N op)).getD [] = (spendersB bs.mi (canonicalOutPoint op)).map E.N.tx ∧
    ∀ h ∈ spendersB bs.mi (canonicalOutPoint op), h.length = 32 := by
  unfold spendersB
  rcases mi_get E hC.mi hop with ⟨g1, g2⟩ | ⟨v, hv, g1, g2⟩
  · have g2' : AMap.get (absStore E bs).pendIns (nmOP E.N op) = none := g2
    rw [g1, g2']
    exact ⟨by first | rfl | trivial, fun h hh => by simp at hh⟩
  · have g2' : AMap.get (absStore E bs).pendIns (nmOP E.N op) = some (v.map E.N.tx) := g2
    rw [g1, g2']
    simp only [Option.bind_some, decHashes_enc v hv, Option.getD_some]
    exact ⟨trivial, hv⟩

theorem pendTx_on_bytes {E : Env} {own : Own} (P : PendEnv E own) {bs : BStore} (hC : CanonS E bs) {k : Bytes}
    (hk : k.length = 32) :
    AMap.get (absStore E bs).pending (E.N.tx k) = (pendTxB P bs.m k).map (TxB.nm E.N) := by
  unfold pendTxB
  rcases m_get E hC.m hk with ⟨g1, g2⟩ | ⟨v, hv, g1, g2⟩
  · have g2' : AMap.get (absStore E bs).pending (E.N.tx k) = none := g2
    rw [g1, g2']; rfl
  · have g2' : AMap.get (absStore E bs).pending (E.N.tx k) = some (E.deser v.2) := g2
    rw [g1, g2']
    simp only [Option.bind_some, readRawUnmined_valueUnmined v.2 v.1 hv.1 hv.2, Option.map_some, P.deser_sim]

-- ------------------------------------------------------------------ removeUnminedInputsOf / deleteUnminedInputs

/-- removeRawUnminedInputSpender per input -/
def removeUnminedInputsOfB (bs : BStore) (tx : TxB) : BStore :=
  tx.ins.foldl (fun bs i =>
    match (AMap.get bs.mi (canonicalOutPoint ⟨i.hash, i.index⟩)).bind decHashes with
    | some (x :: xs) =>
      let rest := (x :: xs).filter (fun sp => sp ≠ tx.hash)
      if rest.isEmpty then { bs with mi := AMap.erase bs.mi (canonicalOutPoint ⟨i.hash, i.index⟩) }
      else { bs with mi := AMap.put bs.mi (canonicalOutPoint ⟨i.hash, i.index⟩) rest.flatten }
    | _ => bs) bs

theorem filter_ne_map (N : Names) (hs : List Bytes) (t : Bytes) :
    (hs.map N.tx).filter (fun sp => sp ≠ N.tx t) = (hs.filter (fun sp => sp ≠ t)).map N.tx := by
  rw [List.filter_map]
  congr 1
  apply List.filter_congr
  intro x _
  by_cases h : x = t
  · simp [h]
  · have : N.tx x ≠ N.tx t := fun e => h (N.tx_inj _ _ e)
    simp [h, this]

theorem removeUnminedInputsOf_on_bytes (E : Env) {bs : BStore} (hC : CanonS E bs) {tx : TxB} (hw : tx.WF) :
    absStore E (removeUnminedInputsOfB bs tx) = removeUnminedInputsOf (absStore E bs) (tx.nm E.N) ∧
    CanonS E (removeUnminedInputsOfB bs tx) := by
  unfold removeUnminedInputsOfB removeUnminedInputsOf
  have hins : (tx.nm E.N).ins = tx.ins.map (InB.nm E.N) := rfl
  rw [hins]
  refine foldl_sim (absStore E) (CanonS E) _ _ (InB.nm E.N) (fun i => i.hash.length = 32 ∧ i.index < 256 ^ 4) ?_ tx.ins bs hC hw.ins
  intro b i hb hi
  have hop : (⟨i.hash, i.index⟩ : OutPointB).WF = true := outPoint_wf_mk hi.1 hi.2
  have hk : ((InB.nm E.N i).tx, (InB.nm E.N i).idx) = nmOP E.N ⟨i.hash, i.index⟩ := rfl
  have hid : (tx.nm E.N).id = E.N.tx tx.hash := rfl
  simp only [hk, hid]
  rcases mi_get E hb.mi hop with ⟨g1, g2⟩ | ⟨v, hv, g1, g2⟩
  · have g2' : AMap.get (absStore E b).pendIns (nmOP E.N ⟨i.hash, i.index⟩) = none := g2
    rw [g1, g2']
    exact ⟨rfl, hb⟩
  · have g2' : AMap.get (absStore E b).pendIns (nmOP E.N ⟨i.hash, i.index⟩) = some (v.map E.N.tx) := g2
    rw [g1, g2']
    simp only [Option.bind_some, decHashes_enc v hv]
    cases v with
    | nil => exact ⟨rfl, hb⟩
    | cons x xs =>
      simp only [List.map_cons]
      rw [← List.map_cons, filter_ne_map]
      have hrest : ∀ h ∈ (x :: xs).filter (fun sp => sp ≠ tx.hash), h.length = 32 :=
        fun h hh => hv h (List.mem_filter.mp hh).1
      by_cases he : ((x :: xs).filter (fun sp => sp ≠ tx.hash)).isEmpty = true
      · have he' : (((x :: xs).filter (fun sp => sp ≠ tx.hash)).map E.N.tx).isEmpty = true := by
          rw [List.isEmpty_iff] at he ⊢; rw [he]; rfl
        simp only [he, he', if_true]
        obtain ⟨e1, e2⟩ := mi_erase E hb.mi hop
        refine ⟨?_, { hb with mi := e2 }⟩
        simp only [absStore]; rw [e1]
      · have he' : ¬ (((x :: xs).filter (fun sp => sp ≠ tx.hash)).map E.N.tx).isEmpty = true := by
          intro h; apply he; rw [List.isEmpty_iff] at h ⊢; exact List.map_eq_nil_iff.mp h
        simp only [he, he', Bool.false_eq_true, if_false]
        obtain ⟨p1, p2⟩ := mi_put E hb.mi (k := ⟨i.hash, i.index⟩) (v := (x :: xs).filter (fun sp => sp ≠ tx.hash)) hop hrest
        refine ⟨?_, { hb with mi := p2 }⟩
        simp only [absStore]; rw [p1]

/-- deleteUnminedInputs: every input whose spender list is not empty loses its entry -/
def deleteUnminedInputsB (bs : BStore) (ins : List OutPointB) : BStore :=
  ins.foldl (fun bs i =>
    match (AMap.get bs.mi (canonicalOutPoint i)).bind decHashes with
    | some (_ :: _) => { bs with mi := AMap.erase bs.mi (canonicalOutPoint i) }
    | _ => bs) bs

/-- the model's loop, as a loop over the outpoints of the inputs -/
def deleteUnminedInputsOps (s : Store) (ops : List (TxId × Nat)) : Store :=
  ops.foldl (fun s k =>
    match AMap.get s.pendIns k with
    | some (_ :: _) => { s with pendIns := AMap.erase s.pendIns k }
    | _ => s) s

theorem deleteUnminedInputs_ops (s : Store) (tx : Tx) :
    deleteUnminedInputs s tx = deleteUnminedInputsOps s (tx.ins.map (fun i => (i.tx, i.idx))) := by
  unfold deleteUnminedInputs deleteUnminedInputsOps
  rw [List.foldl_map]
  rfl

theorem deleteUnminedInputs_on_bytes (E : Env) {bs : BStore} (hC : CanonS E bs) {ins : List OutPointB}
    (hw : ∀ o ∈ ins, o.WF = true) :
    absStore E (deleteUnminedInputsB bs ins) = deleteUnminedInputsOps (absStore E bs) (ins.map (nmOP E.N)) ∧
    CanonS E (deleteUnminedInputsB bs ins) := by
  unfold deleteUnminedInputsB deleteUnminedInputsOps
  refine foldl_sim (absStore E) (CanonS E) _ _ (nmOP E.N) (fun o => o.WF = true) ?_ ins bs hC hw
  intro b i hb hop
  rcases mi_get E hb.mi hop with ⟨g1, g2⟩ | ⟨v, hv, g1, g2⟩
  · have g2' : AMap.get (absStore E b).pendIns (nmOP E.N i) = none := g2
    simp only [g1, g2']
    exact ⟨rfl, hb⟩
  · have g2' : AMap.get (absStore E b).pendIns (nmOP E.N i) = some (v.map E.N.tx) := g2
    simp only [g1, g2', Option.bind_some, decHashes_enc v hv]
    cases v with
    | nil => exact ⟨rfl, hb⟩
    | cons x xs =>
      simp only [List.map_cons]
      obtain ⟨e1, e2⟩ := mi_erase E hb.mi hop
      refine ⟨?_, { hb with mi := e2 }⟩
      simp only [absStore]; rw [e1]

-- ------------------------------------------------------------------ removeUnminedGameHistory

theorem foldIdx_sim {α αB β βB : Type} (absF : βB → β) (P : βB → Prop) (fB : βB → Nat → αB → βB) (f : β → Nat → α → β)
    (g : αB → α) (B : Nat)
    (hstep : ∀ b i a, P b → i < B → absF (fB b i a) = f (absF b) i (g a) ∧ P (fB b i a)) :
    ∀ (l : List αB) (n : Nat) (b : βB), P b → n + l.length ≤ B →
      absF (foldIdx fB l n b) = foldIdx f (l.map g) n (absF b) ∧ P (foldIdx fB l n b) := by
  intro l
  induction l with
  | nil => intro n b hb _; exact ⟨rfl, hb⟩
  | cons a l ih =>
    intro n b hb hn
    obtain ⟨h1, h2⟩ := hstep b n a hb (by simp at hn; omega)
    simp only [foldIdx, List.map_cons]
    rw [← h1]
    exact ih (n + 1) _ h2 (by simp at hn; omega)

def removeUnminedGameHistoryB {E : Env} {own : Own} (P : PendEnv E own) (bs : BStore) (tx : TxB) : BStore :=
  foldIdx (fun bs i (o : OutB) =>
    if o.cls.isStaking || o.cls.isBinding then
      match P.ownA o.addr with
      | some (w, _) => { bs with LG := AMap.erase bs.LG (keyUnminedGameHistory ⟨w, o.cls.isBinding, false, tx.hash, 0, i⟩) }
      | none => bs
    else bs) tx.outs 0 bs

theorem removeUnminedGameHistory_on_bytes {E : Env} {own : Own} (P : PendEnv E own) {bs : BStore} (hC : CanonS E bs)
    {tx : TxB} (hw : tx.WF) :
    absStore E (removeUnminedGameHistoryB P bs tx) = removeUnminedGameHistory own (absStore E bs) (tx.nm E.N) ∧
    CanonS E (removeUnminedGameHistoryB P bs tx) := by
  unfold removeUnminedGameHistoryB removeUnminedGameHistory
  have houts : (tx.nm E.N).outs = tx.outs.map (OutB.nm E.N) := rfl
  rw [houts]
  refine foldIdx_sim (absStore E) (CanonS E) _ _ (OutB.nm E.N) (256 ^ 4) ?_ tx.outs 0 bs hC (by simpa using hw.nOuts)
  intro b i o hb hi
  have hcls : (o.nm E.N).cls = o.cls := rfl
  have hadr : (o.nm E.N).addr = E.N.adr o.addr := rfl
  have hid : (tx.nm E.N).id = E.N.tx tx.hash := rfl
  simp only [hcls, hadr, hid, P.ownA_sim]
  by_cases hg : (o.cls.isStaking || o.cls.isBinding) = true
  · simp only [hg, if_true]
    cases ho : P.ownA o.addr with
    | none => exact ⟨rfl, hb⟩
    | some x =>
      obtain ⟨w, ch⟩ := x
      have hw' := P.ownA_wf _ _ ho
      simp only [Option.map_some]
      have huk : (⟨w, o.cls.isBinding, false, tx.hash, 0, i⟩ : GameKeyB).WFu = true ∧
          (⟨w, o.cls.isBinding, false, tx.hash, 0, i⟩ : GameKeyB).withdrawn = false ∧
          (⟨w, o.cls.isBinding, false, tx.hash, 0, i⟩ : GameKeyB).height = 0 :=
        ⟨ugameKey_wf hw' hw.hash o.cls.isBinding hi, rfl, rfl⟩
      obtain ⟨e1, e2⟩ := LG_erase E hb.LG huk
      refine ⟨?_, { hb with LG := e2 }⟩
      simp only [absStore]; rw [e1]; rfl
  · simp only [hg, Bool.false_eq_true, if_false]
    exact ⟨trivial, hb⟩

-- ------------------------------------------------------------------ removeConflict, removeDoubleSpends

theorem st_m_erase (E : Env) {bs : BStore} (hC : CanonS E bs) {k : Bytes} (hk : k.length = 32) :
    absStore E { bs with m := AMap.erase bs.m k }
      = { absStore E bs with pending := AMap.erase (absStore E bs).pending (E.N.tx k) } ∧
    CanonS E { bs with m := AMap.erase bs.m k } := by
  obtain ⟨m1, m2⟩ := m_erase E hC.m (k := k) hk
  refine ⟨?_, { hC with m := m2 }⟩
  simp only [absStore]; rw [m1]

theorem st_mc_erase (E : Env) {bs : BStore} (hC : CanonS E bs) {op : OutPointB} (hop : op.WF = true) :
    absStore E { bs with mc := AMap.erase bs.mc (canonicalOutPoint op) }
      = { absStore E bs with pendCred := AMap.erase (absStore E bs).pendCred (nmOP E.N op) } ∧
    CanonS E { bs with mc := AMap.erase bs.mc (canonicalOutPoint op) } := by
  obtain ⟨m1, m2⟩ := mc_erase E hC.mc hop
  refine ⟨?_, { hC with mc := m2 }⟩
  simp only [absStore]; rw [m1]

/-- one recorded spender: remove it (with its descendants) if it is still pending -/
def rcSpender (own : Own) (fuel : Nat) (s : Store) (sp : TxId) : Store :=
  match AMap.get s.pending sp with
  | some sptx => removeConflict own fuel s sptx
  | none => s

/-- removeConflict, body of the loop over the outputs -/
def rcOutStep (own : Own) (fuel : Nat) (id : TxId) (s : Store) (i : Nat) : Store :=
  let s' := ((AMap.get s.pendIns (id, i)).getD []).foldl (rcSpender own fuel) s
  { s' with pendCred := AMap.erase s'.pendCred (id, i) }

theorem removeConflict_succ (own : Own) (fuel : Nat) (s : Store) (tx : Tx) :
    removeConflict own (fuel + 1) s tx =
      (let s3 := removeUnminedGameHistory own
          (removeUnminedInputsOf ((List.range tx.outs.length).foldl (rcOutStep own fuel tx.id) s) tx) tx
       { s3 with pending := AMap.erase s3.pending tx.id }) := by
  rw [removeConflict]; rfl

variable {E : Env} {own : Own}

def rcSpenderB (rc : BStore → TxB → BStore) (P : PendEnv E own) (bs : BStore) (sp : Bytes) : BStore :=
  match pendTxB P bs.m sp with
  | some sptx => rc bs sptx
  | none => bs

def rcOutStepB (rc : BStore → TxB → BStore) (P : PendEnv E own) (txh : Bytes) (bs : BStore) (i : Nat) : BStore :=
  let bs' := (spendersB bs.mi (canonicalOutPoint ⟨txh, i⟩)).foldl (rcSpenderB rc P) bs
  { bs' with mc := AMap.erase bs'.mc (canonicalOutPoint ⟨txh, i⟩) }

/-- removeConflict on bytes: the pending spenders of every output first (recursively), then the tx itself -/
def removeConflictB (P : PendEnv E own) : Nat → BStore → TxB → BStore
  | 0, bs, _ => bs
  | fuel + 1, bs, tx =>
    let bs3 := removeUnminedGameHistoryB P
      (removeUnminedInputsOfB ((List.range tx.outs.length).foldl (rcOutStepB (removeConflictB P fuel) P tx.hash) bs) tx) tx
    { bs3 with m := AMap.erase bs3.m tx.hash }

theorem pendTxB_wf (P : PendEnv E own) {m : AMap.T Bytes Bytes} {k : Bytes} {t : TxB}
    (h : pendTxB P m k = some t) : t.WF := by
  unfold pendTxB at h
  cases hg : AMap.get m k with
  | none => rw [hg] at h; cases h
  | some v =>
    rw [hg] at h
    simp only [Option.bind_some] at h
    cases hr : readRawUnmined v with
    | none => rw [hr] at h; cases h
    | some x =>
      rw [hr] at h
      cases h
      exact P.deser_wf _

/-- what the recursive call must satisfy -/
def RcSim (E : Env) (own : Own) (rc : BStore → TxB → BStore) (fuel : Nat) : Prop :=
  ∀ bs tx, CanonS E bs → tx.WF →
    absStore E (rc bs tx) = removeConflict own fuel (absStore E bs) (tx.nm E.N) ∧ CanonS E (rc bs tx)

theorem rcSpender_on_bytes (P : PendEnv E own) {rc : BStore → TxB → BStore} {fuel : Nat} (ih : RcSim E own rc fuel)
    (b : BStore) (sp : Bytes) (hb : CanonS E b) (hsp : sp.length = 32) :
    absStore E (rcSpenderB rc P b sp) = rcSpender own fuel (absStore E b) (E.N.tx sp) ∧ CanonS E (rcSpenderB rc P b sp) := by
  unfold rcSpenderB rcSpender
  rw [pendTx_on_bytes P hb hsp]
  cases hp : pendTxB P b.m sp with
  | none => exact ⟨rfl, hb⟩
  | some t => exact ih b t hb (pendTxB_wf P hp)

theorem rcOutStep_on_bytes (P : PendEnv E own) {rc : BStore → TxB → BStore} {fuel : Nat} (ih : RcSim E own rc fuel)
    {txh : Bytes} (hh : txh.length = 32) (b : BStore) (i : Nat) (hb : CanonS E b) (hi : i < 256 ^ 4) :
    absStore E (rcOutStepB rc P txh b i) = rcOutStep own fuel (E.N.tx txh) (absStore E b) i ∧
    CanonS E (rcOutStepB rc P txh b i) := by
  have hop : (⟨txh, i⟩ : OutPointB).WF = true := outPoint_wf_mk hh hi
  obtain ⟨s1, s2⟩ := spenders_on_bytes E hb hop
  have s1' : (AMap.get (absStore E b).pendIns (E.N.tx txh, i)).getD []
      = (spendersB b.mi (canonicalOutPoint ⟨txh, i⟩)).map E.N.tx := s1
  obtain ⟨g1, g2⟩ := foldl_sim (absStore E) (CanonS E) (rcSpenderB rc P) (rcSpender own fuel) E.N.tx
    (fun sp => sp.length = 32) (fun b sp hb hsp => rcSpender_on_bytes P ih b sp hb hsp)
    (spendersB b.mi (canonicalOutPoint ⟨txh, i⟩)) b hb s2
  obtain ⟨e1, e2⟩ := st_mc_erase E g2 hop
  unfold rcOutStepB rcOutStep
  refine ⟨?_, e2⟩
  rw [s1', ← g1]
  exact e1

theorem removeConflict_on_bytes (P : PendEnv E own) : ∀ (fuel : Nat), RcSim E own (removeConflictB P fuel) fuel := by
  intro fuel
  induction fuel with
  | zero => intro bs tx hC _; exact ⟨rfl, hC⟩
  | succ fuel ih =>
    intro bs tx hC hw
    have hid : (tx.nm E.N).id = E.N.tx tx.hash := rfl
    have hlen : (tx.nm E.N).outs.length = tx.outs.length := by simp [TxB.nm]
    obtain ⟨f1, f2⟩ := foldl_sim (absStore E) (CanonS E) (rcOutStepB (removeConflictB P fuel) P tx.hash)
      (rcOutStep own fuel (E.N.tx tx.hash)) (fun i : Nat => i) (fun i => i < 256 ^ 4)
      (fun b i hb hi => rcOutStep_on_bytes P ih hw.hash b i hb hi)
      (List.range tx.outs.length) bs hC
      (fun i hi => Nat.lt_of_lt_of_le (List.mem_range.mp hi) hw.nOuts)
    rw [List.map_id'] at f1
    obtain ⟨r1, r2⟩ := removeUnminedInputsOf_on_bytes E f2 hw
    obtain ⟨h1, h2⟩ := removeUnminedGameHistory_on_bytes P r2 hw
    obtain ⟨m1, m2⟩ := st_m_erase E h2 (k := tx.hash) hw.hash
    rw [removeConflict_succ, hid, hlen, ← f1, ← r1, ← h1]
    exact ⟨m1, m2⟩

/-- removeDoubleSpends on bytes (`ins`: the previous outpoints of the mined transaction's inputs) -/
def removeDoubleSpendsB (P : PendEnv E own) (ins : List OutPointB) (bs : BStore) : BStore :=
  let fuel := bs.m.length + 1
  deleteUnminedInputsB
    (ins.foldl (fun bs i => (spendersB bs.mi (canonicalOutPoint i)).foldl (rcSpenderB (removeConflictB P fuel) P) bs) bs) ins

/-- the model's removeDoubleSpends, as a function of the outpoints of the inputs -/
def removeDoubleSpendsOps (own : Own) (s : Store) (ops : List (TxId × Nat)) : Store :=
  let fuel := s.pending.length + 1
  deleteUnminedInputsOps
    (ops.foldl (fun s k => ((AMap.get s.pendIns k).getD []).foldl (rcSpender own fuel) s) s) ops

theorem removeDoubleSpends_ops (own : Own) (s : Store) (tr : TxRec) :
    removeDoubleSpends own s tr = removeDoubleSpendsOps own s (tr.tx.ins.map (fun i => (i.tx, i.idx))) := by
  unfold removeDoubleSpends removeDoubleSpendsOps
  simp only [deleteUnminedInputs_ops, List.foldl_map]
  rfl

/-- **removeDoubleSpends on bytes** -/
theorem removeDoubleSpends_on_bytes (P : PendEnv E own) {bs : BStore} (hC : CanonS E bs)
    {ins : List OutPointB} (hw : ∀ o ∈ ins, o.WF = true) :
    absStore E (removeDoubleSpendsB P ins bs) = removeDoubleSpendsOps own (absStore E bs) (ins.map (nmOP E.N)) ∧
    CanonS E (removeDoubleSpendsB P ins bs) := by
  have hlen : (absStore E bs).pending.length = bs.m.length := abs_length (cdM_laws E.N E.deser) hC.m
  obtain ⟨f1, f2⟩ := foldl_sim (absStore E) (CanonS E)
    (fun b i => (spendersB b.mi (canonicalOutPoint i)).foldl (rcSpenderB (removeConflictB P (bs.m.length + 1)) P) b)
    (fun s k => ((AMap.get s.pendIns k).getD []).foldl (rcSpender own (bs.m.length + 1)) s) (nmOP E.N) (fun o => o.WF = true)
    (by
      intro b i hb hop
      obtain ⟨s1, s2⟩ := spenders_on_bytes E hb hop
      rw [s1]
      exact foldl_sim (absStore E) (CanonS E) _ _ E.N.tx (fun sp => sp.length = 32)
        (fun b sp hb hsp => rcSpender_on_bytes P (removeConflict_on_bytes P _) b sp hb hsp) _ b hb s2)
    ins bs hC hw
  obtain ⟨d1, d2⟩ := deleteUnminedInputs_on_bytes E f2 hw
  unfold removeDoubleSpendsB removeDoubleSpendsOps
  simp only [hlen]
  rw [← f1]
  exact ⟨d1, d2⟩

end MW.LedBytes
