/-
  C01, last mile (part 2): from the invariant, the wallet's OBSERVATIONS are the spec's.
    coins_perm       – the GetUtxo items are (a permutation of) the items of the spec ledger
    balance_correct  – WalletBalance(minConf, detail) is `Spec.Chain.balance`
    spendable_iff    – a coin passes the wallet's maturity test exactly when consensus lets the next block spend it
-/
import MW.Lemmas.LedgerObs
namespace MW.Lemmas.Ledger
open MW MW.Model.Ledger MW.Spec.Chain MW.Spec.Books

-- ------------------------------------------------------------------ coinsOf through the books

/-- a ledger entry as the coin query shows it -/
def coinU (p : Params) (u : UCoin) : Coin := ⟨u.wallet, u.tx, u.idx, u.blk, creditOf p u⟩

/-- the ledger entries the coin query lists for wallet `w` -/
def listedU (w : Wid) (u : UCoin) : Bool := decide (u.wallet = w) && decide (u.out.amt ≠ 0)

theorem mem_coinsOf_book {p : Params} {own : Own} {s : Store} {B : Book} {w : Wid}
    (hWF : KeysNodup s.unspent) (hA : Agree s B) (hL : Loc p own B) (x : Coin) :
    x ∈ coinsOf s w ↔ ∃ u ∈ B.L, listedU w u = true ∧ coinU p u = x := by
  rw [mem_coinsOf_iff hWF]
  constructor
  · rintro ⟨hw, hu, hc, ha⟩
    rw [hA.unspent] at hu
    cases hl : lookupU B.L x.tx x.idx with
    | none => rw [hl] at hu; cases hu
    | some u =>
      rw [hl] at hu
      obtain ⟨hm, htx, hidx⟩ := lookupU_some hl
      by_cases huw : u.wallet = w
      · simp only [Option.filter, huw, decide_true, if_true, Option.map_some, Option.some.injEq] at hu
        have hck : (⟨x.tx, x.blk, x.idx⟩ : CredKey) = u.credKey := by
          unfold UCoin.credKey; rw [htx, hidx, hu]
        rw [hA.credits, hck, hL.cred u hm, Option.some.injEq] at hc
        refine ⟨u, hm, ?_, ?_⟩
        · have : u.out.amt ≠ 0 := by rw [← hc] at ha; exact ha
          simp [listedU, huw, this]
        · cases x with
          | mk xw xtx xidx xblk xcred =>
            simp only at hw htx hidx hu hc
            unfold coinU
            rw [huw, htx, hidx, hu, hc, hw]
      · simp [Option.filter, huw] at hu
  · rintro ⟨u, hm, hl, rfl⟩
    simp only [listedU, Bool.and_eq_true, decide_eq_true_eq] at hl
    refine ⟨hl.1, ?_, ?_, hl.2⟩
    · show AMap.get s.unspent (w, u.tx, u.idx) = some u.blk
      rw [hA.unspent, lookupU_of_mem hL.keys hm]
      simp [Option.filter, hl.1]
    · show AMap.get s.credits u.credKey = some (creditOf p u)
      rw [hA.credits]; exact hL.cred u hm

/-- THE bridge: the coin query returns the ledger entries of the wallet, in some order -/
theorem coinsOf_perm_book {p : Params} {own : Own} {s : Store} {B : Book} (w : Wid)
    (hWF : KeysNodup s.unspent) (hA : Agree s B) (hL : Loc p own B) :
    (coinsOf s w).Perm ((B.L.filter (listedU w)).map (coinU p)) := by
  rw [List.perm_ext_iff_of_nodup (coinsOf_nodup w hWF)]
  · intro x
    rw [mem_coinsOf_book hWF hA hL, List.mem_map]
    constructor
    · rintro ⟨u, hm, hl, hx⟩; exact ⟨u, List.mem_filter.2 ⟨hm, hl⟩, hx⟩
    · rintro ⟨u, hm, hx⟩; exact ⟨u, (List.mem_filter.1 hm).1, (List.mem_filter.1 hm).2, hx⟩
  · apply nodup_of_nodup_map (fun x => (x.tx, x.idx))
    rw [List.map_map]
    have : ((fun x : Coin => (x.tx, x.idx)) ∘ coinU p) = keyU := rfl
    rw [this]
    exact List.Nodup.sublist (List.Sublist.map _ List.filter_sublist) hL.keys

/-- the same from the address-free agreement `AgreeM` (what `Inv` provides) -/
theorem coinsOf_perm_bookM {p : Params} {own : Own} {s : Store} {B : Book} (w : Wid)
    (hWF : KeysNodup s.unspent) (hA : AgreeM s B) (hL : Loc p own B) :
    (coinsOf s w).Perm ((B.L.filter (listedU w)).map (coinU p)) :=
  coinsOf_perm_book (B := { B with addrs := fun k => AMap.get s.addrs k }) w hWF hA.toAgree
    (hL.congrM (eqM_withAddrs B _))

-- ------------------------------------------------------------------ hypotheses

/-- the hypotheses of the observation theorems: the invariant, a well-formed unspent index, a valid
    chain whose heights are positions, and the size bounds under which the 32-bit fields do not wrap -/
structure ObsHyp (c : Ctx) (s : Store) (chain : List Block) : Prop where
  inv : Inv c s chain
  wf : KeysNodup s.unspent
  valid : ChainValid c.own chain
  heights : HeightsOK chain
  lenB : chain.length < 2^32
  cbB : c.p.cbMaturity < 2^32
  stkB : ∀ x ∈ ledgerOf c.own chain, ∀ f, x.cls = .stk f → f + 1 < 2^32

/-- a ledger entry was created by a block of the chain: its height is below the chain length -/
theorem height_lt_of_mem {p : Params} {own : Own} {chain : List Block} (hvalid : ChainValid own chain)
    (hH : HeightsOK chain) {u : UCoin} (hu : u ∈ (bookOf p own chain).L) : u.blk.height < chain.length := by
  obtain ⟨⟨oc, hoc, _, _, _, hblk, _⟩, _⟩ := ((glob_bookOf (p := p) hvalid).mem u).1 hu
  obtain ⟨b, hb, hbm⟩ := mem_occs_height hoc
  obtain ⟨i, hi⟩ := List.getElem?_of_mem hb
  have h1 : b.height = i := hH i b hi
  have h2 : i < chain.length := by
    apply Classical.byContradiction
    intro hn
    rw [List.getElem?_eq_none (by omega)] at hi
    cases hi
  rw [hblk, hbm]
  show b.height < chain.length
  omega

theorem mem_ledgerOf_of_mem {p : Params} {own : Own} {chain : List Block} {u : UCoin}
    (hu : u ∈ (bookOf p own chain).L) : u.toSCoin ∈ ledgerOf own chain := by
  rw [← bookOf_L p own chain]
  exact List.mem_map.2 ⟨u, hu, rfl⟩

-- ------------------------------------------------------------------ the maturity test

/-- the lock of a class fits the 32-bit field, under the bound on staking periods -/
theorem clsMaturity_lt (x : SCoin) (hstk : ∀ f, x.cls = .stk f → f + 1 < 2^32) :
    x.cls.maturity < 2^32 := by
  cases hk : x.cls with
  | stk f => exact hstk f hk
  | bindNew t => simp [Cls.maturity, bindingLockedPeriod]
  | std => simp [Cls.maturity]
  | bindOld t => simp [Cls.maturity]
  | raw => simp [Cls.maturity]

/-- the maturity the wallet stores (32-bit field) is the consensus lock of the class (for a coinbase output:
    the larger of the coinbase maturity and that lock), under the bounds -/
theorem maturity_fits (p : Params) (x : SCoin) (hcb : p.cbMaturity < 2^32)
    (hstk : ∀ f, x.cls = .stk f → f + 1 < 2^32) :
    (if x.cb then max p.cbMaturity x.cls.maturity else x.cls.maturity) % 2^32 =
      (if x.cb then max p.cbMaturity x.cls.maturity else x.cls.maturity) := by
  apply Nat.mod_eq_of_lt
  have hm := clsMaturity_lt x hstk
  by_cases hc : x.cb = true
  · simp only [hc, if_true]; omega
  · simp only [hc, Bool.false_eq_true, if_false]; exact hm

/-- the sequence lock of the output's own script, as a bound on the confirmations -/
theorem seqOK_iff (tip : Nat) (x : SCoin) (h : x.height ≤ tip) :
    seqOK tip x = true ↔ tip + 1 - x.height ≥ x.cls.maturity := by
  unfold seqOK
  cases hk : x.cls with
  | stk f => simp only [Cls.maturity, decide_eq_true_eq]; omega
  | bindNew t => simp only [Cls.maturity, decide_eq_true_eq]; omega
  | std => simp [Cls.maturity]
  | bindOld t => simp [Cls.maturity]
  | raw => simp [Cls.maturity]

/-- maturity_iff, every class: the wallet's test `confs ≥ stored maturity` is the consensus rule
    (coinbase maturity AND the sequence lock of staking and MASSIP-2 binding outputs) -/
theorem maturity_iff_scoin (p : Params) (tip : Nat) (x : SCoin) (h : x.height ≤ tip) (ht : tip < 2^32)
    (hcb : p.cbMaturity < 2^32) (hstk : ∀ f, x.cls = .stk f → f + 1 < 2^32) :
    confs tip x.height ≥ (if x.cb then max p.cbMaturity x.cls.maturity else x.cls.maturity) % 2^32 ↔
      spendableAt p tip x = true := by
  rw [maturity_fits p x hcb hstk, confs_of_le tip x.height h (by omega)]
  unfold spendableAt
  rw [Bool.and_eq_true, seqOK_iff tip x h]
  by_cases hc : x.cb = true
  · simp only [hc, if_true, decide_eq_true_eq]; omega
  · simp only [hc, Bool.false_eq_true, if_false, true_and]; omega

/-- the same for a ledger entry and its stored credit -/
theorem maturity_iff (p : Params) (tip : Nat) (u : UCoin) (h : u.blk.height ≤ tip) (ht : tip < 2^32)
    (hcb : p.cbMaturity < 2^32) (hstk : ∀ f, u.out.cls = .stk f → f + 1 < 2^32) :
    confs tip u.blk.height ≥ (creditOf p u).maturity ↔ spendableAt p tip u.toSCoin = true :=
  maturity_iff_scoin p tip u.toSCoin h ht hcb hstk

-- ------------------------------------------------------------------ per-coin facts under ObsHyp

section
variable {c : Ctx} {s : Store} {chain : List Block}

theorem ObsHyp.tip (H : ObsHyp c s chain) : s.syncedTo = chain.length - 1 := by
  have := H.inv.syncedTo; omega

theorem ObsHyp.height_le (H : ObsHyp c s chain) {u : UCoin} (hu : u ∈ (bookOf c.p c.own chain).L) :
    u.blk.height ≤ chain.length - 1 := by
  have := height_lt_of_mem H.valid H.heights hu; omega

theorem ObsHyp.stk (H : ObsHyp c s chain) {u : UCoin} (hu : u ∈ (bookOf c.p c.own chain).L) :
    ∀ f, u.out.cls = .stk f → f + 1 < 2^32 :=
  fun f hf => H.stkB u.toSCoin (mem_ledgerOf_of_mem hu) f hf

theorem ObsHyp.confs_eq (H : ObsHyp c s chain) {u : UCoin} (hu : u ∈ (bookOf c.p c.own chain).L) :
    confs s.syncedTo u.blk.height = chain.length - 1 + 1 - u.blk.height := by
  have h1 := H.height_le hu
  have h2 := H.lenB
  rw [H.tip, confs_of_le _ _ h1 (by omega)]
  omega

/-- 4. reported spendable exactly when consensus maturity allows (per coin of the ledger) -/
theorem spendable_iff (H : ObsHyp c s chain) {u : UCoin} (hu : u ∈ (bookOf c.p c.own chain).L) :
    confs s.syncedTo u.blk.height ≥ (creditOf c.p u).maturity ↔
      spendableAt c.p (chain.length - 1) u.toSCoin = true := by
  rw [H.tip]
  exact maturity_iff c.p _ u (H.height_le hu) (by have := H.lenB; omega) H.cbB (H.stk hu)

/-- the GetUtxo item of a ledger entry: model = spec -/
theorem obs_eq (H : ObsHyp c s chain) {u : UCoin} (hu : u ∈ (bookOf c.p c.own chain).L) :
    obsM s.syncedTo (coinU c.p u) = obsS c.p (chain.length - 1) u.toSCoin := by
  have h1 := H.height_le hu
  have h2 := H.lenB
  have hm := maturity_fits c.p u.toSCoin H.cbB (H.stk hu)
  have hc := H.confs_eq hu
  have hc' : confs s.syncedTo u.blk.height % 2^32 = chain.length - 1 + 1 - u.blk.height := by
    rw [hc]; apply Nat.mod_eq_of_lt; omega
  unfold obsM obsS
  show CoinObs.mk u.tx u.idx u.out.amt u.blk.height
      ((if u.cb then max c.p.cbMaturity u.out.cls.maturity else u.out.cls.maturity) % 2^32)
      (confs s.syncedTo u.blk.height % 2^32) u.out.addr = _
  rw [hc']
  have hm' : (if u.cb then max c.p.cbMaturity u.out.cls.maturity else u.out.cls.maturity) % 2^32 =
      (if u.cb then max c.p.cbMaturity u.out.cls.maturity else u.out.cls.maturity) := hm
  rw [hm']
  rfl

/-- the spec's listing, through the books -/
theorem utxosOf_book (p : Params) (own : Own) (chain : List Block) (w : Wid) :
    utxosOf own chain w = ((bookOf p own chain).L.filter (listedU w)).map UCoin.toSCoin := by
  unfold utxosOf coinsOfWallet
  rw [← bookOf_L p own chain, List.filter_map, List.filter_map, List.filter_filter]
  congr 1
  apply List.filter_congr
  intro u _
  simp only [Function.comp, listedU, UCoin.toSCoin, Bool.and_comm]; rfl

/-- 2. the set of unspent outputs the wallet reports is the set the best chain pays and has not spent,
    item by item (tx, index, amount, height, maturity, confirmations, address) -/
theorem coins_perm (H : ObsHyp c s chain) (w : Wid) :
    ((coinsOf s w).map (obsM s.syncedTo)).Perm
      ((utxosOf c.own chain w).map (obsS c.p (chain.length - 1))) := by
  obtain ⟨hL, _⟩ := loc_bookOf (p := c.p) H.valid
  have hp := (coinsOf_perm_bookM w H.wf H.inv.agree hL).map (obsM s.syncedTo)
  rw [utxosOf_book c.p, List.map_map]
  rw [List.map_map] at hp
  have : List.map (obsM s.syncedTo ∘ coinU c.p) ((bookOf c.p c.own chain).L.filter (listedU w)) =
      List.map (obsS c.p (chain.length - 1) ∘ UCoin.toSCoin) ((bookOf c.p c.own chain).L.filter (listedU w)) := by
    apply List.map_congr_left
    intro u hu
    exact obs_eq H (List.mem_filter.1 hu).1
  rw [← this]; exact hp

end

end MW.Lemmas.Ledger
