/-
  Reorg (C01 goal 3), part 1: facts about hash-linked chains (prefixes, the hash-chain property,
  fetchBlock) and the first walk loop of `reorg` (alignNew) with its fuel.
-/
import MW.Lemmas.LedgerChainDefs
namespace MW.Lemmas.Ledger
open MW MW.Model.Ledger MW.Spec.Chain MW.Spec.Books

-- ------------------------------------------------------------------ descending height lists

/-- `[hi, hi-1, …, lo+1]` -/
def descList (hi lo : Nat) : List Nat := (List.range' (lo + 1) (hi - lo)).reverse

theorem descList_self (h : Nat) : descList h h = [] := by simp [descList]

theorem descList_of_le {hi lo : Nat} (h : hi ≤ lo) : descList hi lo = [] := by
  have : hi - lo = 0 := by omega
  simp [descList, this]

theorem descList_succ (h : Nat) : descList (h + 1) h = [h + 1] := by
  have : h + 1 - h = 1 := by omega
  simp [descList, this]

theorem descList_append {a b c : Nat} (hab : b ≤ a) (hbc : c ≤ b) :
    descList a b ++ descList b c = descList a c := by
  unfold descList
  rw [← List.reverse_append]
  congr 1
  have h1 : b + 1 = (c + 1) + (b - c) := by omega
  have h2 : a - c = (b - c) + (a - b) := by omega
  rw [h1, h2]
  exact List.range'_append_1 ..

theorem descList_cons {hi lo : Nat} (h : lo < hi) : descList hi lo = hi :: descList (hi - 1) lo := by
  rw [← descList_append (a := hi) (b := hi - 1) (c := lo) (by omega) (by omega)]
  have := descList_succ (hi - 1)
  rw [show hi - 1 + 1 = hi by omega] at this
  rw [this]; rfl

theorem descList_concat {hi lo : Nat} (h : lo < hi) : descList hi lo = descList hi (lo + 1) ++ [lo + 1] := by
  rw [← descList_append (a := hi) (b := lo + 1) (c := lo) (by omega) (by omega), descList_succ]

-- ------------------------------------------------------------------ prefixes

theorem take_succ_of_get {l : List Block} {k : Nat} {x : Block} (h : l[k]? = some x) :
    l.take (k + 1) = l.take k ++ [x] := by
  rw [List.take_add_one, h]; rfl

theorem getElem?_take_some {l : List Block} {n i : Nat} {x : Block} (h : (l.take n)[i]? = some x) :
    l[i]? = some x ∧ i < n := by
  rw [List.getElem?_take] at h
  by_cases hi : i < n
  · simp only [hi, if_true] at h; exact ⟨h, hi⟩
  · simp [hi] at h

theorem getElem?_take_of_lt {l : List Block} {n i : Nat} (h : i < n) : (l.take n)[i]? = l[i]? := by
  rw [List.getElem?_take]; simp [h]

theorem heightsOK_take {l : List Block} (h : HeightsOK l) (n : Nat) : HeightsOK (l.take n) :=
  fun i b hb => h i b (getElem?_take_some hb).1

theorem linked_take {l : List Block} (h : Linked l) (n : Nat) : Linked (l.take n) :=
  fun i x y hx hy => h i x y (getElem?_take_some hx).1 (getElem?_take_some hy).1

theorem goodChain_take {l : List Block} (h : GoodChain l) (n : Nat) : GoodChain (l.take (n + 1)) :=
  ⟨heightsOK_take h.heights _, linked_take h.linked _, by
    have := h.nonempty
    cases l with
    | nil => exact absurd rfl this
    | cons a t => simp⟩

theorem chainValid_take {own : Own} {l : List Block} (h : ChainValid own l) (n : Nat) :
    ChainValid own (l.take n) :=
  chainValid_prefix (a := l.take n) (b := l.drop n) (by rw [List.take_append_drop]; exact h)

theorem IdInj.mono {a b : List Block} (h : IdInj b) (hs : ∀ x ∈ a, x ∈ b) : IdInj a :=
  fun x hx y hy e => h x (hs x hx) y (hs y hy) e

theorem IdInj.left {a b : List Block} (h : IdInj (a ++ b)) : IdInj a :=
  h.mono (fun _ hx => List.mem_append_left _ hx)

theorem IdInj.right {a b : List Block} (h : IdInj (a ++ b)) : IdInj b :=
  h.mono (fun _ hx => List.mem_append_right _ hx)

theorem IdInj.tail {x : Block} {a : List Block} (h : IdInj (x :: a)) : IdInj a :=
  h.mono (fun _ hx => List.mem_cons_of_mem _ hx)

theorem GoodChain.length_pos {l : List Block} (h : GoodChain l) : 0 < l.length :=
  List.length_pos_iff.2 h.nonempty

theorem GoodChain.height_at {l : List Block} (h : GoodChain l) {i : Nat} {x : Block} (hx : l[i]? = some x) :
    x.height = i := h.heights i x hx

theorem GoodChain.prev_at {l : List Block} (h : GoodChain l) {i : Nat} {x y : Block} (hx : l[i]? = some x)
    (hy : l[i + 1]? = some y) : y.prev = x.id := h.linked i x y hx hy

/-- the meta of the tip of a well-formed chain -/
theorem tipMeta_good {l : List Block} (h : GoodChain l) :
    ∃ x, l[l.length - 1]? = some x ∧ tipMeta l = ⟨l.length - 1, x.id⟩ := by
  have hp := h.length_pos
  have hx : l[l.length - 1]? = some (l[l.length - 1]'(by omega)) := List.getElem?_eq_getElem _
  refine ⟨_, hx, ?_⟩
  unfold tipMeta
  rw [List.getLast?_eq_getElem?, hx]
  simp only
  rw [h.height_at hx]

/-- a block on a chain is a member of it -/
theorem mem_of_get {l : List Block} {i : Nat} {x : Block} (h : l[i]? = some x) : x ∈ l :=
  List.mem_of_getElem? h

-- ------------------------------------------------------------------ 1. chain facts

/-- FetchBlockBySha finds a block of the best chain by its id -/
theorem fetchBlock_of_mem {n : Node} {x : Block} (hinj : IdInj n.chain) (hx : x ∈ n.chain) :
    n.fetchBlock x.id = some x := by
  unfold Node.fetchBlock
  cases h : n.chain.find? (fun b => b.id = x.id) with
  | none =>
    have := List.find?_eq_none.1 h x hx
    simp at this
  | some y =>
    have hy := List.mem_of_find?_eq_some h
    have hp := List.find?_some h
    simp only [decide_eq_true_eq] at hp
    rw [hinj y hy x hx hp]

/-- item 1a: the block at position `i` of the node's best chain is what FetchBlockBySha returns for its id
    (`GoodChain` is not needed: the first block with that id IS the block, because ids determine blocks) -/
theorem fetchBlock_at {c : Ctx} {i : Nat} {x : Block} (_hg : GoodChain c.node.chain) (hinj : IdInj c.node.chain)
    (hx : c.node.chain[i]? = some x) : c.node.fetchBlock x.id = some x :=
  fetchBlock_of_mem hinj (mem_of_get hx)

/-- equal ids at the same position: equal blocks -/
theorem eq_of_id {S N : List Block} {i j : Nat} {x y : Block} (hinj : IdInj (S ++ N))
    (hx : S[i]? = some x) (hy : N[j]? = some y) (hid : x.id = y.id) : x = y :=
  hinj x (List.mem_append_left _ (mem_of_get hx)) y (List.mem_append_right _ (mem_of_get hy)) hid

/-- equal ids: equal positions -/
theorem pos_of_id {S N : List Block} {i j : Nat} {x y : Block} (hS : GoodChain S) (hN : GoodChain N)
    (hinj : IdInj (S ++ N)) (hx : S[i]? = some x) (hy : N[j]? = some y) (hid : x.id = y.id) : i = j := by
  have := eq_of_id hinj hx hy hid
  rw [← hS.height_at hx, ← hN.height_at hy, this]

/-- item 1b, THE HASH-CHAIN PROPERTY: two chains that have the same id at position `i` are equal up to `i` -/
theorem prefix_of_id {S N : List Block} (hS : GoodChain S) (hN : GoodChain N) (hinj : IdInj (S ++ N)) :
    ∀ (i : Nat) (x y : Block), S[i]? = some x → N[i]? = some y → x.id = y.id →
      S.take (i + 1) = N.take (i + 1) := by
  intro i
  induction i with
  | zero =>
    intro x y hx hy hid
    rw [take_succ_of_get hx, take_succ_of_get hy, eq_of_id hinj hx hy hid]; simp
  | succ i ih =>
    intro x y hx hy hid
    have hxy := eq_of_id hinj hx hy hid
    have hiS : i < S.length := by have := (List.getElem?_eq_some_iff.1 hx).1; omega
    have hiN : i < N.length := by have := (List.getElem?_eq_some_iff.1 hy).1; omega
    have hx' : S[i]? = some S[i] := List.getElem?_eq_getElem hiS
    have hy' : N[i]? = some N[i] := List.getElem?_eq_getElem hiN
    have hid' : S[i].id = N[i].id := by
      rw [← hS.prev_at hx' hx, ← hN.prev_at hy' hy, hxy]
    rw [take_succ_of_get hx, take_succ_of_get hy, ih _ _ hx' hy' hid', hxy]

/-- equal prefixes: equal blocks inside -/
theorem get_of_take_eq {S N : List Block} {i k : Nat} (h : S.take (i + 1) = N.take (i + 1)) (hk : k ≤ i) :
    S[k]? = N[k]? := by
  rw [← getElem?_take_of_lt (l := S) (n := i + 1) (i := k) (by omega),
    ← getElem?_take_of_lt (l := N) (n := i + 1) (i := k) (by omega), h]

/-- equal prefixes are downward closed -/
theorem take_eq_of_le {S N : List Block} {i k : Nat} (h : S.take (i + 1) = N.take (i + 1)) (hk : k ≤ i) :
    S.take (k + 1) = N.take (k + 1) := by
  have e : ∀ l : List Block, l.take (k + 1) = (l.take (i + 1)).take (k + 1) := by
    intro l; rw [List.take_take]; congr 1; omega
  rw [e S, e N, h]

/-- item 1b, converse use: if the prefixes up to `i` differ, the ids at `i` differ -/
theorem id_ne_of_take_ne {S N : List Block} (hS : GoodChain S) (hN : GoodChain N) (hinj : IdInj (S ++ N))
    {i : Nat} {x y : Block} (hx : S[i]? = some x) (hy : N[i]? = some y)
    (hne : S.take (i + 1) ≠ N.take (i + 1)) : x.id ≠ y.id :=
  fun hid => hne (prefix_of_id hS hN hinj i x y hx hy hid)

/-- … or, put differently: some id at a position ≤ i differs -/
theorem exists_id_ne_of_take_ne {S N : List Block} (hS : GoodChain S) (hN : GoodChain N) (hinj : IdInj (S ++ N))
    {i : Nat} {x y : Block} (hx : S[i]? = some x) (hy : N[i]? = some y)
    (hne : S.take (i + 1) ≠ N.take (i + 1)) : ∃ k ≤ i, S[k]?.map (·.id) ≠ N[k]?.map (·.id) :=
  ⟨i, Nat.le_refl _, by rw [hx, hy]; simpa using id_ne_of_take_ne hS hN hinj hx hy hne⟩

/-- the fork height below `h`: the largest `f ≤ h` up to which the two chains agree -/
theorem exists_fork {S N : List Block} (h0 : S.take 1 = N.take 1) (h : Nat) :
    ∃ f, f ≤ h ∧ S.take (f + 1) = N.take (f + 1) ∧
      ∀ j, f < j → j ≤ h → S.take (j + 1) ≠ N.take (j + 1) := by
  induction h with
  | zero => exact ⟨0, Nat.le_refl _, h0, fun j h1 h2 => by omega⟩
  | succ h ih =>
    by_cases e : S.take (h + 2) = N.take (h + 2)
    · exact ⟨h + 1, Nat.le_refl _, e, fun j h1 h2 => by omega⟩
    · obtain ⟨f, hf, he, hm⟩ := ih
      refine ⟨f, by omega, he, fun j h1 h2 => ?_⟩
      by_cases hj : j = h + 1
      · subst hj; exact e
      · exact hm j h1 (by omega)

/-- the segment decomposition of a chain used for `connectAll_sound` -/
theorem chain_split (N : List Block) {f B : Nat} (h : f ≤ B) :
    N = N.take (f + 1) ++ (N.take (B + 1)).drop (f + 1) ++ N.drop (B + 1) := by
  have e : N.take (f + 1) = (N.take (B + 1)).take (f + 1) := by
    rw [List.take_take]; congr 1; omega
  rw [e, List.take_append_drop, List.take_append_drop]

theorem take_append_seg (N : List Block) {f B : Nat} (h : f ≤ B) :
    N.take (f + 1) ++ (N.take (B + 1)).drop (f + 1) = N.take (B + 1) := by
  have e : N.take (f + 1) = (N.take (B + 1)).take (f + 1) := by
    rw [List.take_take]; congr 1; omega
  rw [e, List.take_append_drop]

/-- consecutive segments -/
theorem seg_cons {N : List Block} {f B : Nat} {x : Block} (hx : N[f + 1]? = some x) (h : f + 1 ≤ B) :
    (N.take (B + 1)).drop (f + 1) = x :: (N.take (B + 1)).drop (f + 2) := by
  have : (N.take (B + 1))[f + 1]? = some x := by rw [getElem?_take_of_lt (by omega)]; exact hx
  rw [List.drop_eq_getElem?_toList_append, this]; rfl

theorem seg_append (N : List Block) {f h B : Nat} (h1 : f ≤ h) (h2 : h ≤ B) :
    (N.take (h + 1)).drop (f + 1) ++ (N.take (B + 1)).drop (h + 1) = (N.take (B + 1)).drop (f + 1) := by
  have e : N.take (h + 1) = (N.take (B + 1)).take (h + 1) := by
    rw [List.take_take]; congr 1; omega
  rw [e]
  generalize N.take (B + 1) = L
  rw [List.drop_take]
  have : L.drop (h + 1) = (L.drop (f + 1)).drop (h + 1 - (f + 1)) := by
    rw [List.drop_drop]; congr 1; omega
  rw [this, List.take_append_drop]

-- ------------------------------------------------------------------ 2. alignNew

/-- the loop of reorg step 1, from any block `nb` of the node's chain with enough fuel: it stops at the block
    of the node's chain at height `min nb.height curH`, having collected the blocks above it up to `nb` -/
theorem alignNew_loop {c : Ctx} (hN : GoodChain c.node.chain) (hinj : IdInj c.node.chain) (curH : Nat) :
    ∀ (fuel : Nat) (nb : Block) (tc : List Block), c.node.chain[nb.height]? = some nb →
      nb.height - curH ≤ fuel →
      ∃ nb', c.node.chain[min nb.height curH]? = some nb' ∧
        alignNew c curH fuel nb tc =
          .ok (nb', (c.node.chain.take (nb.height + 1)).drop (min nb.height curH + 1) ++ tc) := by
  intro fuel
  induction fuel with
  | zero =>
    intro nb tc hnb hf
    have hm : min nb.height curH = nb.height := by omega
    refine ⟨nb, by rw [hm]; exact hnb, ?_⟩
    rw [hm, List.drop_take]
    simp [alignNew]
  | succ fuel ih =>
    intro nb tc hnb hf
    unfold alignNew
    by_cases hlt : curH < nb.height
    · simp only [hlt, if_true]
      obtain ⟨k, hk⟩ : ∃ k, nb.height = k + 1 := ⟨nb.height - 1, by omega⟩
      have hkN : k < c.node.chain.length := by have := (List.getElem?_eq_some_iff.1 hnb).1; omega
      have hpb : c.node.chain[k]? = some c.node.chain[k] := List.getElem?_eq_getElem hkN
      have hprev : nb.prev = c.node.chain[k].id := hN.prev_at hpb (by rw [← hk]; exact hnb)
      have hph : c.node.chain[k].height = k := hN.height_at hpb
      rw [hprev, fetchBlock_at hN hinj hpb]
      simp only
      obtain ⟨nb', h1, h2⟩ := ih c.node.chain[k] (nb :: tc) (by rw [hph]; exact hpb) (by rw [hph]; omega)
      rw [hph] at h1 h2
      have hm : min nb.height curH = min k curH := by omega
      refine ⟨nb', by rw [hm]; exact h1, ?_⟩
      rw [h2, hm, hk, take_succ_of_get (k := k + 1) (by rw [← hk]; exact hnb),
        List.drop_append_of_le_length (by rw [List.length_take]; omega)]
      simp
    · simp only [hlt, if_false]
      have hm : min nb.height curH = nb.height := by omega
      refine ⟨nb, by rw [hm]; exact hnb, ?_⟩
      rw [hm, List.drop_take]
      simp

/-- item 2, uniform form: `alignNew` with the fuel `reorg` passes returns the block of the node's chain at
    height `min b.height curH` and the blocks above it up to `b`, ascending -/
theorem alignNew_min {c : Ctx} (hN : GoodChain c.node.chain) (hinj : IdInj c.node.chain) (curH : Nat)
    {b : Block} (hb : c.node.chain[b.height]? = some b) :
    ∃ nb, c.node.chain[min b.height curH]? = some nb ∧
      alignNew c curH (b.height + 1) b [] =
        .ok (nb, (c.node.chain.take (b.height + 1)).drop (min b.height curH + 1)) := by
  obtain ⟨nb, h1, h2⟩ := alignNew_loop hN hinj curH (b.height + 1) b [] hb (by omega)
  exact ⟨nb, h1, by simpa using h2⟩

/-- item 2 as requested: fuel `b.height + 1` suffices; if `b` is not above `curH` nothing happens, otherwise
    the walk ends at the node's block at `curH` with the blocks above `curH` up to `b` to connect -/
theorem alignNew_spec {c : Ctx} (hN : GoodChain c.node.chain) (hinj : IdInj c.node.chain) (curH : Nat)
    {b : Block} (hb : c.node.chain[b.height]? = some b) :
    ∃ nb tc, alignNew c curH (b.height + 1) b [] = .ok (nb, tc) ∧
      (b.height ≤ curH → nb = b ∧ tc = []) ∧
      (curH < b.height → c.node.chain[curH]? = some nb ∧
        tc = (c.node.chain.take (b.height + 1)).drop (curH + 1)) := by
  obtain ⟨nb, h1, h2⟩ := alignNew_min hN hinj curH hb
  refine ⟨nb, _, h2, ?_, ?_⟩
  · intro hle
    have hm : min b.height curH = b.height := by omega
    rw [hm] at h1 ⊢
    rw [hb] at h1
    exact ⟨(Option.some.inj h1).symm, by rw [List.drop_take]; simp⟩
  · intro hlt
    have hm : min b.height curH = curH := by omega
    rw [hm] at h1 ⊢
    exact ⟨h1, rfl⟩

end MW.Lemmas.Ledger
