/-
  The symbolic keystore model as an abstraction of the byte level, part 12: TOTAL correctness of the byte-level machine.
  On every history whose restore hints are uint32 values, for primitives whose account records fit uint32 (`BoxBound`),
  every byte-level writer SUCCEEDS and the tree represents the symbolic state: `runB_refines`.
-/
import MW.Lemmas.KsRefineName
import MW.Lemmas.KsRefineSecrecy
import MW.Lemmas.KsRefineToy
namespace MW.KsRefine
open MW MW.Model.Secrets MW.Model.KsCodec MW.Model.KsBytes MW.KsCodecL MW.Lemmas.SecretsInv MW.Lemmas.SecretsDB

/-- the BIP0044 account record (two sealed boxes and their length fields) fits the uint32 size arithmetic of
    serializeHDAccountKey -/
def BoxBound (C : BCrypto) (π : PubData) : Prop :=
  ∀ (k k' : Bytes) (K : Key) (s : Sec), 8 + (C.box k (π.plain K)).length + (C.box k' (C.atom s)).length < 4294967296

/-- the invariant of the lockstep run -/
structure Inv (C : BCrypto) (π : PubData) (st : St) (t : Tree) : Prop where
  rep : Rep C (pubValsOf π st.wal) st.db t
  bound : BoundOk st
  name : Nm st
  shape : ShapeOk st

theorem create_ok_fresh {st : St} {w : String} {p : Pass} {b : Nat} (h : (create st w p b).2 = .ok) :
    (AMap.get st.idents w).isSome = false := by
  unfold create at h
  split at h
  · simp at h
  · rename_i hn; simpa using hn

theorem aid_none_of_wal {st : St} (h : Nm st) {w : String} (hw : AMap.get st.wal w = none) : AMap.get st.db (w, .aid) = none := by
  cases hg : AMap.get st.db (w, .aid) with
  | none => rfl
  | some v =>
    have := h.1 w (by rw [hg]; rfl)
    rw [hw] at this; cases this

/-- a stored parameter pair concretises to an 88-byte block -/
theorem stored_params_ne (C : BCrypto) (L : Laws C) (pv : Bytes) {params : Term} {p : Pass} {k : Term}
    (hs : Stored params = true) (hd : deriveKey params p = some k) : bytesOf C pv params ≠ [] := by
  unfold deriveKey at hd
  split at hd
  · cases hd
  · split at hd
    · rename_i salt digest
      dsimp only at hd
      split at hd
      · rename_i hh
        subst hh
        cases salt with
        | rnd n =>
          have hwf : (Params.mk (C.salt n) (C.sha (C.kdf (C.salt n) (C.atom (.pass p)))) C.N C.R C.P).wf = true := by
            have := L.cost
            simp [Params.wf, L.salt_len, L.sha_len, MW.Gen.KsCodec.snaclKeySize, this]
          obtain ⟨bs, hm, _⟩ := unmarshal_marshal _ hwf
          have hl := marshal_length _ _ hm
          simp only [bytesOf, pairBytes, passT, hm, Option.getD_some]
          intro e; rw [e] at hl; simp at hl
        | _ => simp [Stored] at hs
      · cases hd
    · cases hd

/-- the install case: the side conditions of `install_refines` hold in the lockstep run -/
theorem install_total (C : BCrypto) (L : Laws C) (π : PubData) (hbb : BoxBound C π) (st st' : St) (t : Tree) (w e : String) (p : Pass)
    (nExt nInt : Nat) (privParams mkPriv mkPubParams mkPub : Term) (kPub : Nat)
    (h : Rep C (pubValsOf π st.wal) st.db t)
    (hwal : st'.wal = AMap.put st.wal w (⟨e, p, nExt, nInt⟩, {}))
    (hE : nExt ≤ 4294967296) (hI : nInt ≤ 4294967296)
    (hpriv : ∀ pv, bytesOf C pv privParams ≠ []) (hpub : ∀ pv, bytesOf C pv mkPubParams ≠ [])
    (hfresh : AMap.get st.db (w, .aid) = none) :
    ∃ t', initAcctBucketB t (acctInOf C (pubValsOf π st'.wal) π.coin w e p nExt nInt privParams mkPriv mkPubParams mkPub
      kPub (kPub + 1) (kPub + 2)) = .ok t' := by
  have hfmt : PubFmt (pubValsOf π st'.wal) w π.coin nExt nInt := by rw [hwal]; exact pubValsOf_fmt π st.wal w _ _
  have hfr : ∀ K, (∀ en ∈ acctEntries w e p nExt nInt privParams mkPriv mkPubParams mkPub kPub (kPub + 1) (kPub + 2), en.1 ≠ K) →
      pubValsOf π st'.wal K = pubValsOf π st.wal K := by
    intro K hK
    rw [hwal]
    apply pubValsOf_put
    · exact fun e' => hK ((w, .exNum), .pub "n") (by simp [acctEntries, scopeEntries]) e'.symm
    · exact fun e' => hK ((w, .inNum), .pub "n") (by simp [acctEntries, scopeEntries]) e'.symm
  have hrow : 8 + (C.box (C.atom (.key kPub)) (pubValsOf π st'.wal (w, .acct 1))).length +
      (C.box (C.atom (.key (kPub + 1))) (C.atom (.acctPriv e p))).length < 4294967296 := by
    have := hbb (C.atom (.key kPub)) (C.atom (.key (kPub + 1))) (w, .acct 1) (.acctPriv e p)
    simpa [pubValsOf] using this
  obtain ⟨t', h1, _⟩ := install_refines C L (pubValsOf π st.wal) (pubValsOf π st'.wal) st.db t π.coin w e p nExt nInt privParams mkPriv
    mkPubParams mkPub kPub (kPub + 1) (kPub + 2) h hfmt hfr hE hI (hpriv _) (hpub _) hrow hfresh
  exact ⟨t', h1⟩

/-- STEP, total: in the invariant every byte-level step succeeds -/
theorem stepB_total (C : BCrypto) (L : Laws C) (π : PubData) (hbb : BoxBound C π) (st : St) (t : Tree) (op : Op) (hop : OpOk op)
    (hi : Inv C π st t) : ∃ t', stepB C π st t op = .ok t' := by
  have h := hi.rep
  cases op with
  | create w p b =>
    rcases create_eff st w p b with ⟨hok, hdb, hwal, hpp⟩ | ⟨hno, _, _⟩
    · have hfresh : AMap.get st.db (w, .aid) = none := by
        apply aid_none_of_wal hi.name
        cases hw : AMap.get st.wal w with
        | none => rfl
        | some v =>
          have := hi.name.2.1 w (by rw [hw]; rfl)
          rw [create_ok_fresh hok] at this; cases this
      obtain ⟨t', ht'⟩ := install_total C L π hbb st (create st w p b).1 t w w p 0 0 (paramsT (st.nonce + 1) p)
        (masterKey (st.nonce + 1) p) (paramsT st.nonce st.pubPass) (masterKey st.nonce st.pubPass) (st.nonce + 2) h hwal
        (by omega) (by omega) (fun pv => paramsT_ne C L pv _ _) (fun pv => paramsT_ne C L pv _ _) hfresh
      refine ⟨t', ?_⟩
      simp only [stepB, step, hok, installB, hwal, AMap.get_put, if_true, hpp]
      rw [← hwal]; exact ht'
    · refine ⟨t, ?_⟩
      simp only [stepB, step]
      cases ho : (create st w p b).2 <;> first | rfl | exact absurd ho hno
  | newAddr w =>
    rcases newAddr_eff st w with ⟨hok, r, a, hw, hgap, hdb, hwal⟩ | ⟨hno, _, _⟩
    · obtain ⟨r0, a0, hw0, hrest⟩ := newAddr_refines C L (pubValsOf π st.wal) (pubValsOf π (newAddr st w).1.wal) st t w h hok
      rw [hw] at hw0
      cases hw0
      obtain ⟨t', h1, _⟩ := hrest (by rw [hwal]; simp [pubValsOf, AMap.get_put])
        (by
          intro K hK1 _
          rw [hwal]
          by_cases hK2 : K = (w, .inNum)
          · subst hK2; simp [pubValsOf, AMap.get_put, hw]
          · exact pubValsOf_put π st.wal w _ K hK1 hK2)
      exact ⟨t', by simp only [stepB, step, hok, hw]; exact h1⟩
    · refine ⟨t, ?_⟩
      simp only [stepB, step]
      cases ho : (newAddr st w).2 <;> first | rfl | exact absurd ho hno
  | importKS k p =>
    rcases importKS_eff st k p with ⟨hok, x, e, mk, hx, hmk, hdb, hwal, hpp⟩ | ⟨hno, _, _⟩
    · have hxb : x.nExt ≤ 4294967296 ∧ x.nInt ≤ 4294967296 := hi.bound.2.2 (k, x) (get_mem hx)
      have he : (if x.nExt = 0 then 1 else x.nExt) ≤ 4294967296 := by split <;> omega
      have hst : Stored x.privParams = true := hi.shape.2 (k, x) (get_mem hx) x.privParams (by simp [Export.terms])
      obtain ⟨_, _, _, _, _, hwn, _⟩ := importKS_ok_db hok
      have hx' := hx
      obtain ⟨x2, e2, mk2, hx2, _, hwn2, _⟩ := importKS_ok_db hok
      rw [hx] at hx2
      cases hx2
      obtain ⟨t', ht'⟩ := install_total C L π hbb st (importKS st k p).1 t x.wallet e p _ x.nInt x.privParams mk
        (paramsT st.nonce st.pubPass) (masterKey st.nonce st.pubPass) (st.nonce + 1) h hwal he hxb.2
        (fun pv => stored_params_ne C L pv hst hmk) (fun pv => paramsT_ne C L pv _ _) (aid_none_of_wal hi.name hwn2)
      refine ⟨t', ?_⟩
      simp only [stepB, step, hok, hx, installB, hwal, AMap.get_put, if_true, hpp, hmk, Option.getD_some]
      rw [← hwal]; exact ht'
    · refine ⟨t, ?_⟩
      simp only [stepB, step]
      cases ho : (importKS st k p).2 <;> first | rfl | exact absurd ho hno
  | importMn w p src ext int =>
    rcases importMn_eff st w p src ext int with ⟨name, e, hok, hdb, hwal, hpp⟩ | ⟨hno, _, _⟩
    · have hop' : ext ≤ 4294967296 ∧ int ≤ 4294967296 := hop
      have he : (if ext = 0 then 1 else ext) ≤ 4294967296 := by split <;> omega
      have hwn : AMap.get st.wal name = none := by
        rcases importMn_db st w p src ext int with hno | ⟨e', name', hn, hwn, _⟩
        · exact absurd hok (hno name)
        · rw [hok] at hn; cases hn; exact hwn
      obtain ⟨t', ht'⟩ := install_total C L π hbb st (importMn st w p src ext int).1 t name e p _ int (paramsT (st.nonce + 1) p)
        (masterKey (st.nonce + 1) p) (paramsT st.nonce st.pubPass) (masterKey st.nonce st.pubPass) (st.nonce + 2) h hwal he hop'.2
        (fun pv => paramsT_ne C L pv _ _) (fun pv => paramsT_ne C L pv _ _) (aid_none_of_wal hi.name hwn)
      refine ⟨t', ?_⟩
      simp only [stepB, step, hok, installB, hwal, AMap.get_put, if_true, hpp]
      rw [← hwal]; exact ht'
    · refine ⟨t, ?_⟩
      simp only [stepB, step]
      cases ho : (importMn st w p src ext int).2 <;> first | rfl | exact absurd ho (hno _)
  | remove w p =>
    simp only [stepB, step]
    cases (remove st w p).2 <;> exact ⟨_, rfl⟩
  | chpub o n =>
    by_cases hok : (chpub st o n).2 = .ok
    · obtain ⟨t', h1, _⟩ := chpub_refines C L (pubValsOf π st.wal) st t o n h hok
      exact ⟨t', by simp only [stepB, step, hok]; exact h1⟩
    · refine ⟨t, ?_⟩
      simp only [stepB, step]
      cases ho : (chpub st o n).2 <;> first | rfl | exact absurd ho hok
  | exportKS w p k => exact ⟨t, rfl⟩
  | mnemonic w p => exact ⟨t, rfl⟩
  | chpriv w o n => exact ⟨t, rfl⟩
  | signHash w b i p => exact ⟨t, rfl⟩
  | ksSign w b i p => exact ⟨t, rfl⟩
  | ksClear => exact ⟨t, rfl⟩
  | restart p => exact ⟨t, rfl⟩

theorem inv_step (C : BCrypto) (L : Laws C) (π : PubData) (st : St) (t t' : Tree) (op : Op) (hop : OpOk op) (hi : Inv C π st t)
    (hrun : stepB C π st t op = .ok t') : Inv C π (step st op).1 t' :=
  ⟨stepB_sound C L π st t t' op hop hi.bound hi.rep hrun, step_b hi.bound op hop, step_nm hi.name op, step_st hi.shape op⟩

theorem inv_init (C : BCrypto) (π : PubData) : Inv C π {} (fun _ => []) :=
  ⟨rep_empty C _, init_b, init_nm, init_st⟩

/-- RUN, total: the byte-level machine refines the symbolic machine over whole histories -/
theorem runB_total (C : BCrypto) (L : Laws C) (π : PubData) (hbb : BoxBound C π) (ops : List Op) : ∀ (st : St) (t : Tree),
    (∀ o ∈ ops, OpOk o) → Inv C π st t → ∃ t', runB C π st t ops = .ok t' ∧ Inv C π (run st ops) t' := by
  induction ops with
  | nil => intro st t _ hi; exact ⟨t, rfl, hi⟩
  | cons o os ih =>
    intro st t hops hi
    obtain ⟨t1, h1⟩ := stepB_total C L π hbb st t o (hops o List.mem_cons_self) hi
    obtain ⟨t', h2, hi'⟩ := ih (step st o).1 t1 (fun o' ho' => hops o' (List.mem_cons_of_mem _ ho'))
      (inv_step C L π st t t1 o (hops o List.mem_cons_self) hi h1)
    refine ⟨t', by simp only [runB, h1]; exact h2, ?_⟩
    simpa [run] using hi'

/-- THE BYTE-LEVEL MACHINE REFINES THE SYMBOLIC MACHINE: from the empty database, on every history (restore hints within
    uint32), the byte-level run succeeds and its tree represents the symbolic state under that state's public valuation -/
theorem runB_refines (C : BCrypto) (L : Laws C) (π : PubData) (hbb : BoxBound C π) (ops : List Op) (hops : ∀ o ∈ ops, OpOk o) :
    ∃ t, runB C π {} (fun _ => []) ops = .ok t ∧ Rep C (pubValsOf π (run {} ops).wal) (run {} ops).db t := by
  obtain ⟨t, h1, hi⟩ := runB_total C L π hbb ops {} (fun _ => []) hops (inv_init C π)
  exact ⟨t, h1, hi.rep⟩

/-- NO_CLEAR_SECRET for the tree the byte-level machine builds: under independence for the final state's public valuation,
    the run succeeds and no value of its tree contains the encoding of an atomic secret -/
theorem runB_no_secret (C : BCrypto) (L : Laws C) (π : PubData) (hbb : BoxBound C π) (ops : List Op) (hops : ∀ o ∈ ops, OpOk o)
    (hind : Indep C (pubValsOf π (run {} ops).wal)) :
    ∃ t, runB C π {} (fun _ => []) ops = .ok t ∧
      ∀ p kb v, tget t (p, kb) = some v → ∀ s : Sec, ¬ (C.atom s <:+: v) := by
  obtain ⟨t, h1, h2⟩ := runB_refines C L π hbb ops hops
  exact ⟨t, h1, fun p kb v hv s => no_secret_bytes L hind ops h2 hv s⟩

-- ------------------------------------------------------------------ the toy instance meets the hypotheses

namespace Toy

def πtoy : PubData := { coin := 297, plain := fun _ => [1] }

theorem toy_boxBound : BoxBound toy πtoy := by
  intro k k' K s
  rw [toy_box_len, toy_box_len]; decide

def demo2 : List Op := [.create "W1" demoPass 128, .newAddr "W1"]

theorem demo2_ok : ∀ o ∈ demo2, OpOk o := by
  intro o ho
  simp only [demo2, List.mem_cons, List.not_mem_nil, or_false] at ho
  rcases ho with rfl | rfl <;> trivial

theorem demo2_wal : (run {} demo2).wal = [("W1", (⟨"W1", demoPass, 1, 0⟩, {}))] := by decide

theorem demo2_clean : Clean (pubValsOf πtoy (run {} demo2).wal) := by
  intro K
  obtain ⟨w, k⟩ := K
  rw [demo2_wal]
  by_cases hw : "W1" = w
  · subst hw
    cases k <;> simp only [pubValsOf, πtoy, AMap.get_cons, AMap.get_nil, if_true] <;> decide
  · cases k <;> simp only [pubValsOf, πtoy, AMap.get_cons, AMap.get_nil, hw, if_false] <;> decide

theorem demo2_indep : Indep toy (pubValsOf πtoy (run {} demo2).wal) := toy_indep _ demo2_clean

end Toy

end MW.KsRefine
