/-
  C09: `notify_refines` — gluing the MODEL side of a notification (`Notify.trace_run`: the store `processBlock` returns is
  the store of the run of `stepH` over  n × disconnect ++ connects) with the SPECIFICATION side (`Compose.notify_compose`:
  ONE `onChainMoved (c0 ++ old) (c0 ++ new)` has the members of the block-by-block composition).
    dreach_run_sp / creach_run_sp   the specification component of that run IS `connFold (discFold …)` (index plumbing)
    PendRel.mem_congr / credRel_mem_congr   both relations only depend on the MEMBERS of the pending list
    trace_refines / notify_refines  after the notification the model store represents (`PendRel`, `CredRel`, `Inv`)
                                    the pending list after ONE `onChainMoved`, the chain `c0 ++ bs`
-/
import MW.Lemmas.PendHistNotify
import MW.Lemmas.PendHistCompose
namespace MW.Lemmas.PendHist.NotifySpec
open MW MW.Model.Ledger MW.Spec.Pending MW.Lemmas.LedgerPending MW.Lemmas.Ledger MW.Lemmas.PendHist
open MW.Lemmas.PendHist.Cred MW.Lemmas.PendHist.CredRb MW.Lemmas.PendHist.Notify MW.Lemmas.PendHist.Compose

-- ------------------------------------------------------------------ the specification component of the run

theorem snoc_of_length_succ {α : Type} (l : List α) (n : Nat) (h : l.length = n + 1) :
    ∃ o x, l = o ++ [x] ∧ o.length = n := by
  have hne : l ≠ [] := by intro h0; rw [h0] at h; cases h
  refine ⟨l.dropLast, l.getLast hne, (List.dropLast_concat_getLast hne).symm, ?_⟩
  rw [List.length_dropLast, h]; rfl

/-- the disconnect events of the run move the specification through `discFold` -/
theorem dreach_run_sp {rank : TxId → Nat} {E : HEnv} {nd : Node} :
    ∀ {h : Nat} {s sm : Store} {n : Nat}, DReachFrom (E.ctx nd) h s sm n →
    ∀ w : HW, w.node = nd → w.s = s → HInv rank E w → h + 1 = w.sp.chain.length →
      (∀ x ∈ worldsH E w (List.replicate n .disconnect), HOK rank E x.1 x.2) →
      ∀ c0 old, w.sp.chain = c0 ++ old → old.length = n →
      (runH E w (List.replicate n .disconnect)).sp =
        { chain := c0, pend := (discFold E.env c0 old (c0 ++ old, w.sp.pend)).2 } := by
  intro h s sm n d
  induction d with
  | refl =>
    intro w _ _ _ _ _ c0 old hch hlen
    have : old = [] := List.eq_nil_of_length_eq_zero hlen
    subst this
    rw [List.append_nil] at hch
    show w.sp = _
    cases hsp : w.sp with
    | mk ch pd => rw [hsp] at hch; simp only at hch; subst hch; rfl
  | @step h s s1 s' n hd _ ih =>
    intro w hn hs H hlen hD c0 old hch holdlen
    have D := hD (w, .disconnect) (by simp [List.replicate_succ, worldsH])
    obtain ⟨b, hl⟩ := getLast?_of_length w.sp.chain h hlen
    have hsplit : w.sp.chain = w.sp.chain.dropLast ++ [b] := split_last _ b hl
    obtain ⟨hc0, _, hHt, _, _⟩ := D _ b hsplit
    have hbh : b.height = w.sp.chain.dropLast.length := hHt _ b (by simp)
    have hlen2 : w.sp.chain.length = w.sp.chain.dropLast.length + 1 := by
      conv => lhs; rw [hsplit]
      simp
    have hpos : 0 < w.sp.chain.dropLast.length := List.length_pos_iff.2 hc0
    have hbh' : b.height = h := by omega
    have hd' : disconnectBlock (E.ctx w.node) w.s b.height = .ok s1 := by rw [hn, hs, hbh']; exact hd
    have hst : stepH E w .disconnect =
        { w with s := s1, sp := Spec.Pending.step w.sp (.moved E.env w.sp.chain.dropLast) } := by
      simp only [stepH, hl, hd']
    have H1 := hinv_step H .disconnect D
    have hrun : runH E w (List.replicate (n + 1) .disconnect) =
        runH E (stepH E w .disconnect) (List.replicate n .disconnect) := by
      rw [List.replicate_succ]; rfl
    obtain ⟨o, b', hob, holen⟩ := snoc_of_length_succ old n holdlen
    subst hob
    have hdl : w.sp.chain.dropLast = c0 ++ o := by
      rw [hch, ← List.append_assoc, List.dropLast_concat]
    rw [hrun, discFold_snoc]
    have := ih (stepH E w .disconnect) (by rw [hst]; exact hn) (by rw [hst]) H1
      (by rw [hst]; show h - 1 + 1 = w.sp.chain.dropLast.length; omega)
      (fun x hx => hD x (by rw [List.replicate_succ]; simp only [worldsH, List.mem_cons]; exact Or.inr hx))
      c0 o (by rw [hst]; exact hdl) holen
    rw [this, hst]
    show _ = ({ chain := c0, pend := (discFold E.env c0 o (c0 ++ o, onChainMoved E.env (c0 ++ (o ++ [b'])) (c0 ++ o) w.sp.pend)).2 } : Spec.Pending.S)
    have hdl' : (c0 ++ (o ++ [b'])).dropLast = c0 ++ o := by rw [← hch]; exact hdl
    simp only [Spec.Pending.step, hch, hdl']

theorem connFold_cons (e : Spec.Pending.Env) (c0 : List Block) (b : Block) (bs : List Block) (init : List Block × List Tx) :
    connFold e c0 (b :: bs) init =
      connFold e (c0 ++ [b]) bs (c0 ++ [b], onChainMoved e init.1 (c0 ++ [b]) init.2) := by
  unfold connFold
  rw [List.length_cons, List.range_succ_eq_map, List.foldl_cons, List.foldl_map]
  have h0 : (b :: bs).take (0 + 1) = [b] := rfl
  rw [h0]
  apply foldl_congr_mem
  intro a k _
  have : c0 ++ (b :: bs).take (k + 1 + 1) = c0 ++ [b] ++ bs.take (k + 1) := by
    rw [List.take_succ_cons, List.append_assoc]; rfl
  simp only [Nat.succ_eq_add_one, this]

/-- the connect events of the run move the specification through `connFold` -/
theorem creach_run_sp {rank : TxId → Nat} {E : HEnv} {nd : Node} {ready : List Wid} :
    ∀ {s s' : Store} {bs : List Block}, CReachL (E.ctx nd) ready s s' bs →
    ∀ w : HW, w.node = nd → w.s = s → ready = readyWallets w.s E.wallets → HInv rank E w →
      (∀ x ∈ worldsH E w (bs.map .connect), HOK rank E x.1 x.2) →
      (runH E w (bs.map .connect)).sp =
        { chain := w.sp.chain ++ bs, pend := (connFold E.env w.sp.chain bs (w.sp.chain, w.sp.pend)).2 } := by
  intro s s' bs d
  induction d with
  | refl =>
    intro w _ _ _ _ _
    show w.sp = _
    rw [List.append_nil]
    rfl
  | @step s s1 s' bs b conf hf _ ih =>
    intro w hn hs hr H hD
    have D := hD (w, .connect b) (by simp [worldsH])
    have hf' : filterBlock (E.ctx w.node) w.s (readyWallets w.s E.wallets) b = .ok (s1, conf) := by
      rw [hn, hs, ← hs, ← hr, hs]; exact hf
    have hst : stepH E w (.connect b) =
        { w with s := s1, sp := Spec.Pending.step w.sp (.moved E.env (w.sp.chain ++ [b])) } := by
      simp only [stepH, hf']
    have H1 := hinv_step H (.connect b) D
    obtain ⟨⟨rest, hnode⟩, hvalid, hheight, hok, hsrcB⟩ := D
    obtain ⟨_, i2, _⟩ := connect_step_inv rank E w.node w.s s1 w.sp.chain rest b w.sp.pend conf H.inv H.ar H.ne
      hnode hvalid hheight H.rel H.cons H.sidx H.nocb H.relv H.srcP hok hsrcB hf'
    have hrun : runH E w ((b :: bs).map .connect) = runH E (stepH E w (.connect b)) (bs.map .connect) := rfl
    rw [hrun, connFold_cons]
    have := ih (stepH E w (.connect b)) (by rw [hst]; exact hn) (by rw [hst])
      (by rw [hst]; show ready = readyWallets s1 E.wallets; rw [i2, hr]) H1
      (fun x hx => hD x (by simp only [List.map_cons, worldsH, List.mem_cons]; exact Or.inr hx))
    rw [this, hst]
    simp only [Spec.Pending.step, List.append_assoc, List.singleton_append]


-- ------------------------------------------------------------------ the relations only read the members

theorem pendRel_mem_congr {rank : TxId → Nat} {s : Store} {L L' : List Tx} (h : PendRel rank s L)
    (hm : ∀ t, t ∈ L ↔ t ∈ L') (hnd : (L'.map (·.id)).Nodup) : PendRel rank s L' :=
  ⟨h.wf, fun id t => by rw [h.ids, hm], hnd⟩

theorem credRel_mem_congr {e : Spec.Pending.Env} {s : Store} {L L' : List Tx} (h : CredRel e s L)
    (hm : ∀ t, t ∈ L ↔ t ∈ L') : CredRel e s L' := by
  refine ⟨fun id j cr hg => ?_, fun t ht => h.ccomplete t ((hm t).2 ht), fun w b id j hg => ?_,
    fun t ht => h.gcomplete t ((hm t).2 ht)⟩
  · obtain ⟨t, ht, r⟩ := h.csound id j cr hg
    exact ⟨t, (hm t).1 ht, r⟩
  · obtain ⟨t, ht, r⟩ := h.gsound w b id j hg
    exact ⟨t, (hm t).1 ht, r⟩

/-- the events of a notification are no receive events: `HOK` is the full domain `HOKf` for them -/
theorem hokf_of_notify {rank : TxId → Nat} {E : HEnv} (w : HW) (n : Nat) (bs : List Block)
    (hD : ∀ x ∈ worldsH E w (notifyEvs n bs), HOK rank E x.1 x.2) :
    ∀ x ∈ worldsH E w (notifyEvs n bs), HOKf rank E x.1 x.2 := by
  intro x hx
  have := hD x hx
  have hev : x.2 ∈ notifyEvs n bs := Notify.mem_worldsH_ev E _ w x hx
  obtain ⟨xw, xe⟩ := x
  cases xe with
  | node nd => exact this
  | vol v => exact this
  | recv t =>
    exfalso
    unfold notifyEvs at hev
    rcases List.mem_append.1 hev with h1 | h1
    · have := List.eq_of_mem_replicate h1; cases this
    · obtain ⟨_, _, h2⟩ := List.mem_map.1 h1; cases h2
  | connect b => exact this
  | disconnect => exact this

theorem stepH_node (E : HEnv) (w : HW) (ev : HEv) (h : ∀ nd, ev ≠ .node nd) : (stepH E w ev).node = w.node := by
  cases ev with
  | node nd => exact absurd rfl (h nd)
  | vol v => rfl
  | recv t => rfl
  | connect b =>
    cases hf : filterBlock (E.ctx w.node) w.s (readyWallets w.s E.wallets) b <;> simp only [stepH, hf]
  | disconnect =>
    cases hl : w.sp.chain.getLast? with
    | none => simp only [stepH, hl]
    | some b =>
      cases hd : disconnectBlock (E.ctx w.node) w.s b.height <;> simp only [stepH, hl, hd]

theorem runH_node (E : HEnv) : ∀ (evs : List HEv) (w : HW), (∀ ev ∈ evs, ∀ nd, ev ≠ .node nd) →
    (runH E w evs).node = w.node := by
  intro evs
  induction evs with
  | nil => intro w _; rfl
  | cons ev evs ih =>
    intro w h
    show (runH E (stepH E w ev) evs).node = _
    rw [ih _ (fun e he => h e (List.mem_cons_of_mem _ he)), stepH_node E w ev (h ev List.mem_cons_self)]

theorem notifyEvs_no_node (n : Nat) (bs : List Block) : ∀ ev ∈ notifyEvs n bs, ∀ nd, ev ≠ .node nd := by
  intro ev hev nd hc
  subst hc
  unfold notifyEvs at hev
  rcases List.mem_append.1 hev with h1 | h1
  · have := List.eq_of_mem_replicate h1; cases this
  · obtain ⟨_, _, h2⟩ := List.mem_map.1 h1; cases h2

-- ------------------------------------------------------------------ NOTIFY REFINES ONE `onChainMoved`

/-- THE TRACE REFINES ONE MOVE.  World satisfying `HInvC`, follower's best block = the wallet's tip, wallet chain
    `c0 ++ old`; a trace of `old.length` disconnects and the connects of `bs` that ends in the store `s'`; the events inside
    the domain `HOK`; the move inside `NotifyDom` (fork point `c0`).  Then `s'` holds the books of `c0 ++ bs`, and its pending
    buckets represent the pending list after ONE `onChainMoved (c0 ++ old) (c0 ++ bs)`. -/
theorem trace_refines {rank : TxId → Nat} {E : HEnv} (w : HW) (H : HInvC rank E w)
    (hbest : w.v.best.height + 1 = w.sp.chain.length) {sm s' : Store} {n : Nat} {bs : List Block}
    (hd : DReachFrom (E.ctx w.node) w.v.best.height w.s sm n)
    (hc : CReachL (E.ctx w.node) (readyWallets sm E.wallets) sm s' bs)
    (c0 old : List Block) (hch : w.sp.chain = c0 ++ old) (hlen : old.length = n)
    (hD : ∀ x ∈ worldsH E w (notifyEvs n bs), HOK rank E x.1 x.2)
    (hN : NotifyDom E.env c0 old bs w.sp.pend) :
    Inv (E.ctx w.node) s' (c0 ++ bs) ∧
    PendRel rank s' (onChainMoved E.env (c0 ++ old) (c0 ++ bs) w.sp.pend) ∧
    CredRel E.env s' (onChainMoved E.env (c0 ++ old) (c0 ++ bs) w.sp.pend) := by
  have HC := hinvc_run_full (notifyEvs n bs) w H (hokf_of_notify w n bs hD)
  obtain ⟨hs', _⟩ := trace_run w H.inv hbest hd hc hD
  -- the specification component of the run
  have hD' := hD
  unfold notifyEvs at hD'
  rw [worldsH_append] at hD'
  have hD1 : ∀ x ∈ worldsH E w (List.replicate n .disconnect), HOK rank E x.1 x.2 :=
    fun x hx => hD' x (List.mem_append_left _ hx)
  obtain ⟨e1, e2, H1⟩ := dreach_run hd w rfl rfl H.inv hbest hD1
  have sp1 := dreach_run_sp hd w rfl rfl H.inv hbest hD1 c0 old hch hlen
  have sp2 := creach_run_sp hc _ e2 e1 (by rw [e1]) H1 (fun x hx => hD' x (List.mem_append_right _ hx))
  have hW : runH E w (notifyEvs n bs) = runH E (runH E w (List.replicate n .disconnect)) (bs.map .connect) := by
    unfold notifyEvs; rw [runH_append]
  have hpair : discFold E.env c0 old (c0 ++ old, w.sp.pend) =
      (c0, (discFold E.env c0 old (c0 ++ old, w.sp.pend)).2) :=
    Prod.ext (discFold_fst E.env c0 old w.sp.pend hN.disc) rfl
  have hsp : (runH E w (notifyEvs n bs)).sp =
      { chain := c0 ++ bs,
        pend := (connFold E.env c0 bs (discFold E.env c0 old (c0 ++ old, w.sp.pend))).2 } := by
    rw [hW, sp2, sp1, hpair]
  have hmem : ∀ t, t ∈ (runH E w (notifyEvs n bs)).sp.pend ↔
      t ∈ onChainMoved E.env (c0 ++ old) (c0 ++ bs) w.sp.pend := by
    intro t
    rw [hsp]
    exact (notify_compose E.env c0 old bs w.sp.pend hN t).symm
  have hinv := HC.inv.inv
  rw [hs'] at hinv
  have hnode : (runH E w (notifyEvs n bs)).node = w.node := runH_node E _ w (notifyEvs_no_node n bs)
  rw [hnode, hsp] at hinv
  have hrel := HC.inv.rel
  have hcr := HC.cred
  rw [hs'] at hrel hcr
  exact ⟨hinv, pendRel_mem_congr hrel hmem (notify_one_shot_nodup E.env c0 old bs w.sp.pend hN),
    credRel_mem_congr hcr hmem⟩


/-- **NOTIFY REFINES ONE `onChainMoved`.**  A successful `processBlock` (direct extension or reorganisation) from a world
    satisfying `HInvC` whose follower's best block is the wallet's tip determines `n` (blocks disconnected) and `bs` (blocks
    connected); for the decomposition `c0 ++ old` of the wallet's chain with `old` its last `n` blocks: when the events of the
    notification are inside the domain `HOK` of `pending_refines` and the move is inside `NotifyDom`, the store the
    notification returns holds the books of `c0 ++ bs` and its pending buckets represent (`PendRel`, `CredRel`) the pending
    list after ONE `Spec.Pending.onChainMoved (c0 ++ old) (c0 ++ bs)` — what the driver's specification applies -/
theorem notify_refines {rank : TxId → Nat} {E : HEnv} (w : HW) (H : HInvC rank E w)
    (hbest : w.v.best.height + 1 = w.sp.chain.length) (b : Block) (s' : Store) (v' : Vol)
    (h : processBlock (E.ctx w.node) w.s w.v b = (s', v', true)) :
    ∃ n bs, ∀ c0 old, w.sp.chain = c0 ++ old → old.length = n →
      (∀ x ∈ worldsH E w (notifyEvs n bs), HOK rank E x.1 x.2) → NotifyDom E.env c0 old bs w.sp.pend →
      Inv (E.ctx w.node) s' (c0 ++ bs) ∧
      PendRel rank s' (onChainMoved E.env (c0 ++ old) (c0 ++ bs) w.sp.pend) ∧
      CredRel E.env s' (onChainMoved E.env (c0 ++ old) (c0 ++ bs) w.sp.pend) := by
  obtain ⟨sm, n, bs, hd, hc⟩ := processBlock_trace_h (E.ctx w.node) w.s s' w.v v' b h
  exact ⟨n, bs, fun c0 old hch hlen hD hN => trace_refines w H hbest hd hc c0 old hch hlen hD hN⟩

end MW.Lemmas.PendHist.NotifySpec
