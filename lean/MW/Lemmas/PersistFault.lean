/-
  Helper lemmas for C18: every operation of MW.Model.Persist under a storage fault at ANY call index.
-/
import MW.Lemmas.PersistOp
import MW.Spec.Persist
import Mathlib.Tactic.SplitIfs
namespace MW.Lemmas.PersistFault
open MW MW.Model.Ledger MW.Model.Persist MW.Spec.Persist MW.Lemmas.PersistOp

-- ------------------------------------------------------------------ association maps

theorem erase_of_get_none {K V : Type} [DecidableEq K] (m : AMap.T K V) (k : K) (h : AMap.get m k = none) :
    AMap.erase m k = m := by
  induction m with
  | nil => rfl
  | cons a m ih =>
    rw [AMap.get_cons] at h
    by_cases ha : a.1 = k
    · simp [ha] at h
    · simp only [ha, if_false] at h
      unfold AMap.erase at ih ⊢
      simp [List.filter, ha, ih h]

theorem erase_put_fresh {K V : Type} [DecidableEq K] (m : AMap.T K V) (k : K) (v : V) (h : AMap.get m k = none) :
    AMap.erase (AMap.put m k v) k = m := by
  unfold AMap.put
  have : AMap.erase ((k, v) :: AMap.erase m k) k = AMap.erase (AMap.erase m k) k := by
    unfold AMap.erase; simp [List.filter]
  rw [this, erase_of_get_none m k h, erase_of_get_none m k h]

theorem insertAddr_idem (l : List (Nat × Addr)) (x : Nat × Addr) :
    insertAddr (insertAddr l x) x = insertAddr l x := by
  unfold insertAddr
  by_cases h : l.contains x = true
  · have e : (if l.contains x = true then l else l ++ [x]) = l := if_pos h
    rw [e]; exact e
  · have e : (if l.contains x = true then l else l ++ [x]) = l ++ [x] := if_neg h
    have h' : (l ++ [x]).contains x = true := by simp
    rw [e]; exact if_pos h'

theorem insertAddr_fresh (l : List (Nat × Addr)) (x : Nat × Addr) (h : l.contains x = false) :
    insertAddr l x = l ++ [x] := by
  unfold insertAddr; rw [h]; simp

-- ------------------------------------------------------------------ single-Update operations without volatile effects in the body

/-- processConnectedBlock (direct extension AND reorganisation) under a fault at any call index:
    either the fault index lies beyond the operation (then it is the fault-free run), or the
    operation fails and store and volatile state are exactly what they were. -/
theorem block_fault (env : Env) (n : Nat) (b : Block) (j : Nat) (P : PStore) (V : PVol) :
    (opBlock env n b).run (some j) P V = (opBlock env n b).run none P V ∨
    ((opBlock env n b).run (some j) P V).ok = false ∧ ((opBlock env n b).run (some j) P V).P = P ∧
      ((opBlock env n b).run (some j) P V).V = V := by
  rcases run_single_fault n _ (opBlock env n b) rfl j P V with h | ⟨h1, h2, h3⟩
  · exact Or.inl h.1
  · refine Or.inr ⟨h1, h2, ?_⟩
    rcases h3 with h3 | ⟨P', V', hact, h3⟩
    · simpa [opBlock] using h3
    · rw [h3]
      simp only [opBlock] at hact ⊢
      split at hact
      · simp at hact
      · simp at hact; exact hact.2.symm

theorem addUnmined_fault (n : Nat) (tr : TxRec) (j : Nat) (P : PStore) (V : PVol) :
    (opAddUnmined n tr).run (some j) P V = (opAddUnmined n tr).run none P V ∨
    ((opAddUnmined n tr).run (some j) P V).ok = false ∧ ((opAddUnmined n tr).run (some j) P V).P = P ∧
      ((opAddUnmined n tr).run (some j) P V).V = V := by
  rcases run_single_fault n _ (opAddUnmined n tr) rfl j P V with h | ⟨h1, h2, h3⟩
  · exact Or.inl h.1
  · refine Or.inr ⟨h1, h2, ?_⟩
    rcases h3 with h3 | ⟨P', V', hact, h3⟩
    · simpa [opAddUnmined] using h3
    · rw [h3]
      simp only [opAddUnmined] at hact ⊢
      split at hact
      · simp at hact
      · simp at hact; exact hact.2.symm

theorem removeMark_fault (n : Nat) (w : Wid) (j : Nat) (P : PStore) (V : PVol) :
    (opRemoveMark n w).run (some j) P V = (opRemoveMark n w).run none P V ∨
    ((opRemoveMark n w).run (some j) P V).ok = false ∧ ((opRemoveMark n w).run (some j) P V).P = P ∧
      ((opRemoveMark n w).run (some j) P V).V = V := by
  rcases run_single_fault n _ (opRemoveMark n w) rfl j P V with h | ⟨h1, h2, h3⟩
  · exact Or.inl h.1
  · refine Or.inr ⟨h1, h2, ?_⟩
    rcases h3 with h3 | ⟨P', V', hact, h3⟩
    · simpa [opRemoveMark] using h3
    · rw [h3]
      simp only [opRemoveMark] at hact ⊢
      split at hact
      · simp at hact
      · split at hact
        · simp at hact
        · simp at hact; exact hact.2.symm

theorem remove1_fault (n : Nat) (w : Wid) (j : Nat) (P : PStore) (V : PVol) :
    (opRemove1 n w).run (some j) P V = (opRemove1 n w).run none P V ∨
    ((opRemove1 n w).run (some j) P V).ok = false ∧ ((opRemove1 n w).run (some j) P V).P = P ∧
      ((opRemove1 n w).run (some j) P V).V = V := by
  rcases run_single_fault n _ (opRemove1 n w) rfl j P V with h | ⟨h1, h2, h3⟩
  · exact Or.inl h.1
  · refine Or.inr ⟨h1, h2, ?_⟩
    rcases h3 with h3 | ⟨P', V', hact, h3⟩
    · simpa [opRemove1] using h3
    · rw [h3]
      simp only [opRemove1] at hact ⊢
      simp at hact; exact hact.2.symm

theorem fastForward_fault (n : Nat) (bm : BlockMeta) (j : Nat) (P : PStore) (V : PVol) :
    (opFastForward n bm).run (some j) P V = (opFastForward n bm).run none P V ∨
    ((opFastForward n bm).run (some j) P V).ok = false ∧ ((opFastForward n bm).run (some j) P V).P = P ∧
      ((opFastForward n bm).run (some j) P V).V = V := by
  rcases run_single_fault n _ (opFastForward n bm) rfl j P V with h | ⟨h1, h2, h3⟩
  · exact Or.inl h.1
  · refine Or.inr ⟨h1, h2, ?_⟩
    rcases h3 with h3 | ⟨P', V', hact, h3⟩
    · simpa [opFastForward] using h3
    · rw [h3]
      simp only [opFastForward] at hact ⊢
      split at hact
      · simp at hact
      · simp at hact; exact hact.2.symm

/-- the unconfirmed-transaction path under a fault at any call index -/
theorem recvTx_fault (env : Env) (nR nW : Nat) (tx : Tx) (j : Nat) (P : PStore) (V : PVol) :
    (Model.Persist.recvTx env nR nW (some j) tx P V).ok = false →
    (Model.Persist.recvTx env nR nW (some j) tx P V).P = P ∧ (Model.Persist.recvTx env nR nW (some j) tx P V).V = V := by
  intro h
  unfold Model.Persist.recvTx at h ⊢
  simp only at h ⊢
  split_ifs at h ⊢ with h1 h2
  · exact ⟨rfl, rfl⟩
  · generalize hf : filterTxRel (ctxOf env V) P.led tx false [] (readyWallets P.led (ctxOf env V).wallets) = fr at h ⊢
    cases fr with
    | error e => exact ⟨rfl, rfl⟩
    | ok o =>
      cases o with
      | none => simp at h
      | some tr =>
        simp only [Option.map] at h ⊢
        rcases addUnmined_fault nW tr (j - nR) P V with he | ⟨_, h2', h3'⟩
        · -- beyond the operation: the fault-free Update; a failure of it is an ordinary error
          rw [he] at h ⊢
          have hs := run_single_none nW _ (opAddUnmined nW tr) rfl P V
          rw [hs] at h ⊢
          cases ha : addRelevantUnmined P.led tr with
          | error e => simp [ha, opAddUnmined]
          | ok s' => simp [ha] at h
        · exact ⟨h2', h3'⟩

-- ------------------------------------------------------------------ exactness for ANY failure (fault or ordinary error)

theorem block_fail_exact (env : Env) (n : Nat) (b : Block) (f : Option Nat) (P : PStore) (V : PVol)
    (h : ((opBlock env n b).run f P V).ok = false) :
    ((opBlock env n b).run f P V).P = P ∧ ((opBlock env n b).run f P V).V = V := by
  refine run_single_fail_exact n _ (opBlock env n b) rfl (fun _ _ _ => rfl) ?_ f P V h
  intro P V P' V' ha
  split at ha
  · simp at ha
  · simp at ha; exact ha.2.symm

theorem addUnmined_fail_exact (n : Nat) (tr : TxRec) (f : Option Nat) (P : PStore) (V : PVol)
    (h : ((opAddUnmined n tr).run f P V).ok = false) :
    ((opAddUnmined n tr).run f P V).P = P ∧ ((opAddUnmined n tr).run f P V).V = V := by
  refine run_single_fail_exact n _ (opAddUnmined n tr) rfl (fun _ _ _ => rfl) ?_ f P V h
  intro P V P' V' ha
  split at ha
  · simp at ha
  · simp at ha; exact ha.2.symm

theorem removeMark_fail_exact (n : Nat) (w : Wid) (f : Option Nat) (P : PStore) (V : PVol)
    (h : ((opRemoveMark n w).run f P V).ok = false) :
    ((opRemoveMark n w).run f P V).P = P ∧ ((opRemoveMark n w).run f P V).V = V := by
  refine run_single_fail_exact n _ (opRemoveMark n w) rfl (fun _ _ _ => rfl) ?_ f P V h
  intro P V P' V' ha
  split at ha
  · simp at ha
  · split at ha
    · simp at ha
    · simp at ha; exact ha.2.symm

theorem remove1_fail_exact (n : Nat) (w : Wid) (f : Option Nat) (P : PStore) (V : PVol)
    (h : ((opRemove1 n w).run f P V).ok = false) :
    ((opRemove1 n w).run f P V).P = P ∧ ((opRemove1 n w).run f P V).V = V := by
  refine run_single_fail_exact n _ (opRemove1 n w) rfl (fun _ _ _ => rfl) ?_ f P V h
  intro P V P' V' ha
  simp at ha; exact ha.2.symm

theorem fastForward_fail_exact (n : Nat) (bm : BlockMeta) (f : Option Nat) (P : PStore) (V : PVol)
    (h : ((opFastForward n bm).run f P V).ok = false) :
    ((opFastForward n bm).run f P V).P = P ∧ ((opFastForward n bm).run f P V).V = V := by
  refine run_single_fail_exact n _ (opFastForward n bm) rfl (fun _ _ _ => rfl) ?_ f P V h
  intro P V P' V' ha
  split at ha
  · simp at ha
  · simp at ha; exact ha.2.symm

-- ------------------------------------------------------------------ CreateWallet

/-- CreateWallet under a fault at any call index: a failed attempt restores the store AND the
    volatile state exactly — the keystore cached by NewKeystore is evicted again (no phantom
    wallet). `hdom`: the name is cached iff it is stored (part of KeyCoh). -/
theorem create_fault_exact (nA nB nC : Nat) (w : Wid) (j : Nat) (P : PStore) (V : PVol)
    (hdom : (AMap.get V.keys w).isSome = (AMap.get P.ks w).isSome)
    (h : ((opCreate nA nB nC w).run (some j) P V).ok = false) :
    ((opCreate nA nB nC w).run (some j) P V).P = P ∧ ((opCreate nA nB nC w).run (some j) P V).V = V := by
  refine ⟨run_fail_store _ _ _ _ h, ?_⟩
  unfold Op.run at h ⊢
  simp only [opCreate, runPhases] at h ⊢
  by_cases hs : (AMap.get P.ks w).isSome = true
  · -- duplicate: NewKeystore fails before anything is cached
    split_ifs at h ⊢ <;> simp_all
  · have hfresh : AMap.get V.keys w = none := by
      cases hv : AMap.get V.keys w with
      | none => rfl
      | some c => rw [hv] at hdom; simp at hdom; simp [hdom] at hs
    have he := erase_put_fresh V.keys w ({} : KsRec) hfresh
    split_ifs at h ⊢ <;> simp_all
    split_ifs at h ⊢ <;> simp_all

-- ------------------------------------------------------------------ KeyCoh under cache updates

theorem keyCoh_put (env : Env) (P : PStore) (V : PVol) (w : Wid) (r c' : KsRec)
    (hc : KeyCoh env P V) (hr : AMap.get P.ks w = some r)
    (ha : c'.addrs = r.addrs ∨ c'.addrs = insertAddr r.addrs (r.next, env.derive w r.next))
    (hn : c'.next = r.next ∨ c'.next = r.next + 1) :
    KeyCoh env P { V with keys := AMap.put V.keys w c' } := by
  refine ⟨?_, ?_⟩
  · intro w'
    simp only [AMap.get_put]
    by_cases hw : w = w'
    · subst hw; simp [hr]
    · simp [hw]; exact hc.1 w'
  · intro w' r' c hr' hc'
    simp only [AMap.get_put] at hc'
    by_cases hw : w = w'
    · subst hw
      simp at hc'
      subst hc'
      rw [hr] at hr'
      cases hr'
      exact ⟨ha, hn⟩
    · simp [hw] at hc'
      exact hc.2 w' r' c hr' hc'

theorem keyCoh_of_eq (env : Env) (P : PStore) (V V' : PVol) (hk : V'.keys = V.keys) (hc : KeyCoh env P V) :
    KeyCoh env P V' := by
  unfold KeyCoh at hc ⊢; rw [hk]; exact hc

-- ------------------------------------------------------------------ NewAddress

theorem getLast_snoc {α : Type} (l : List α) (a : α) : (l ++ [a]).getLast? = some a := by simp

/-- NewAddress under a fault at any call index -/
theorem newAddr_fault_coh (env : Env) (nA nB nC : Nat) (stk : Bool) (j : Nat) (P : PStore) (V : PVol)
    (hc : KeyCoh env P V)
    (h : ((opNewAddr env nA nB nC stk).run (some j) P V).ok = false) :
    ((opNewAddr env nA nB nC stk).run (some j) P V).P = P ∧
    KeyCoh env P ((opNewAddr env nA nB nC stk).run (some j) P V).V ∧
    ((opNewAddr env nA nB nC stk).run (some j) P V).V.led = V.led ∧
    ((opNewAddr env nA nB nC stk).run (some j) P V).V.cur = V.cur := by
  refine ⟨run_fail_store _ _ _ _ h, ?_⟩
  unfold Op.run at h ⊢
  simp only [opNewAddr, runPhases] at h ⊢
  cases hcur : V.cur with
  | none =>
    simp only [hcur] at h ⊢
    split_ifs at h ⊢ <;> simp_all
  | some w =>
    cases hr : AMap.get P.ks w with
    | none =>
      simp only [hcur, hr] at h ⊢
      split_ifs at h ⊢ <;> simp_all
    | some r =>
      have hsome : (AMap.get V.keys w).isSome = true := by rw [hc.1 w, hr]; rfl
      cases hk : AMap.get V.keys w with
      | none => rw [hk] at hsome; simp at hsome
      | some c =>
        have hcw := hc.2 w r c hr hk
        simp only [hcur, hr, hk, AMap.get_put, if_true, getLast_snoc, Option.bind] at h ⊢
        have ha1 : insertAddr c.addrs (r.next, env.derive w r.next) = r.addrs ∨
            insertAddr c.addrs (r.next, env.derive w r.next) = insertAddr r.addrs (r.next, env.derive w r.next) := by
          rcases hcw.1 with e | e
          · right; rw [e]
          · right; rw [e, insertAddr_idem]
        have k1 : ∀ V' : PVol, V'.keys = AMap.put V.keys w { next := c.next, addrs := insertAddr c.addrs (r.next, env.derive w r.next) } →
            KeyCoh env P V' := by
          intro V' hV'
          have := keyCoh_put env P V w r { next := c.next, addrs := insertAddr c.addrs (r.next, env.derive w r.next) } hc hr ha1 hcw.2
          exact keyCoh_of_eq env P _ V' (by rw [hV']) this
        have k2 : ∀ V' : PVol, V'.keys = AMap.put (AMap.put V.keys w { next := c.next, addrs := insertAddr c.addrs (r.next, env.derive w r.next) })
              w { next := r.next + 1, addrs := insertAddr c.addrs (r.next, env.derive w r.next) } →
            KeyCoh env P V' := by
          intro V' hV'
          have h1 := k1 { V with keys := AMap.put V.keys w { next := c.next, addrs := insertAddr c.addrs (r.next, env.derive w r.next) } } rfl
          have := keyCoh_put env P _ w r { next := r.next + 1, addrs := insertAddr c.addrs (r.next, env.derive w r.next) } h1 hr ha1 (Or.inr rfl)
          exact keyCoh_of_eq env P _ V' (by rw [hV']) this
        split_ifs at h ⊢
        all_goals (try (simp at h))
        all_goals simp
        all_goals first
          | exact ⟨hc, hcur⟩
          | exact k1 _ rfl
          | exact k2 _ rfl
          | (split_ifs at h ⊢ with hj
             simp; exact k2 _ rfl)

-- ------------------------------------------------------------------ final removal step

theorem keyCoh_reload (env : Env) (P : PStore) (V V' : PVol) (w : Wid) (r : KsRec)
    (hc : KeyCoh env P V) (hr : AMap.get P.ks w = some r)
    (hV : V'.keys = AMap.put (AMap.erase V.keys w) w r) : KeyCoh env P V' := by
  refine ⟨?_, ?_⟩
  · intro w'
    rw [hV]
    simp only [AMap.get_put, AMap.get_erase]
    by_cases hw : w = w'
    · subst hw; simp [hr]
    · simp [hw]; exact hc.1 w'
  · intro w' r' c hr' hc'
    rw [hV] at hc'
    simp only [AMap.get_put, AMap.get_erase] at hc'
    by_cases hw : w = w'
    · subst hw
      simp at hc'
      subst hc'
      rw [hr] at hr'
      cases hr'
      exact ⟨Or.inl rfl, Or.inl rfl⟩
    · simp [hw] at hc'
      exact hc.2 w' r' c hr' hc'

/-- the final removal step under a fault at any call index -/
theorem removeFinal_fault_coh (env : Env) (nA nB : Nat) (w : Wid) (j : Nat) (P : PStore) (V : PVol)
    (hc : KeyCoh env P V)
    (h : ((opRemoveFinal nA nB w).run (some j) P V).ok = false) :
    ((opRemoveFinal nA nB w).run (some j) P V).P = P ∧
    KeyCoh env P ((opRemoveFinal nA nB w).run (some j) P V).V ∧
    ((opRemoveFinal nA nB w).run (some j) P V).V.led = V.led := by
  refine ⟨run_fail_store _ _ _ _ h, ?_⟩
  unfold Op.run at h ⊢
  simp only [opRemoveFinal, runPhases] at h ⊢
  cases hr : AMap.get P.ks w with
  | none =>
    have hk : AMap.get V.keys w = none := by
      have := hc.1 w; rw [hr] at this
      cases hv : AMap.get V.keys w with
      | none => rfl
      | some c => rw [hv] at this; simp at this
    simp only [hr, hk] at h ⊢
    split_ifs at h ⊢ <;> simp_all
  | some r =>
    have hsome : (AMap.get V.keys w).isSome = true := by rw [hc.1 w, hr]; rfl
    cases hk : AMap.get V.keys w with
    | none => rw [hk] at hsome; simp at hsome
    | some c =>
      simp only [hr, hk, AMap.get_erase] at h ⊢
      split_ifs at h ⊢
      all_goals (try (simp at h))
      all_goals simp
      all_goals first
        | exact hc
        | (split <;> simp_all; done)
        | (have he : AMap.get (AMap.erase V.keys w) w = none := by rw [AMap.get_erase]; simp
           split_ifs at h ⊢ <;>
             (simp only [he]; exact ⟨keyCoh_reload env P V _ w r hc hr rfl, trivial⟩))

-- ------------------------------------------------------------------ repeated faults, retry

/-- attempts that all fail and each restore the volatile state exactly leave it unchanged -/
theorem attempts_exact (o : Op) (P : PStore)
    (hex : ∀ j V, (o.run (some j) P V).ok = false → (o.run (some j) P V).V = V) :
    ∀ (js : List Nat) (V : PVol), allFail o js P V = true → attempts o js P V = V := by
  intro js
  induction js with
  | nil => intro V _; rfl
  | cons j js ih =>
    intro V h
    simp only [allFail, Bool.and_eq_true, Bool.not_eq_true'] at h
    have h1 := hex j V h.1
    unfold attempts
    simp only [List.foldl]
    have h2 := h.2
    rw [h1] at h2 ⊢
    exact ih V h2

/-- an invariant of the volatile state kept by every failed attempt holds after all of them -/
theorem attempts_inv (o : Op) (P : PStore) (I : PVol → Prop)
    (hstep : ∀ j V, I V → (o.run (some j) P V).ok = false → I (o.run (some j) P V).V) :
    ∀ (js : List Nat) (V : PVol), I V → allFail o js P V = true → I (attempts o js P V) := by
  intro js
  induction js with
  | nil => intro V hi _; exact hi
  | cons j js ih =>
    intro V hi h
    simp only [allFail, Bool.and_eq_true, Bool.not_eq_true'] at h
    unfold attempts
    simp only [List.foldl]
    exact ih _ (hstep j V hi h.1) h.2

/-- fault-free NewAddress in closed form -/
theorem newAddr_none (env : Env) (nA nB nC : Nat) (stk : Bool) (P : PStore) (V : PVol) (w : Wid) (r c : KsRec)
    (hcur : V.cur = some w) (hr : AMap.get P.ks w = some r) (hk : AMap.get V.keys w = some c) :
    ((opNewAddr env nA nB nC stk).run none P V).ok = true ∧
    ((opNewAddr env nA nB nC stk).run none P V).P =
      { led := { P.led with addrs := AMap.put P.led.addrs (w, stk, env.derive w r.next) 0 },
        ks := AMap.put P.ks w { next := r.next + 1, addrs := r.addrs ++ [(r.next, env.derive w r.next)] } } ∧
    AMap.get ((opNewAddr env nA nB nC stk).run none P V).V.keys w =
      some { next := r.next + 1, addrs := insertAddr c.addrs (r.next, env.derive w r.next) } := by
  unfold Op.run
  simp only [opNewAddr, runPhases]
  simp [hcur, hr, hk, AMap.get_put, getLast_snoc]

/-- BestInv only looks at the follower part of the volatile state -/
theorem bestInv_of_led (P : PStore) (V V' : PVol) (h : V'.led = V.led) (hb : BestInv P V) : BestInv P V' := by
  unfold BestInv at hb ⊢; rw [h]; exact hb

/-- NewAddress keeps the index sequence of every wallet gap-free and duplicate-free -/
theorem newAddr_ksSeq (env : Env) (nA nB nC : Nat) (stk : Bool) (P : PStore) (V : PVol) (w : Wid) (r c : KsRec)
    (hcur : V.cur = some w) (hr : AMap.get P.ks w = some r) (hk : AMap.get V.keys w = some c)
    (hs : KsSeq P) : KsSeq ((opNewAddr env nA nB nC stk).run none P V).P := by
  rw [(newAddr_none env nA nB nC stk P V w r c hcur hr hk).2.1]
  intro w' r' hr'
  simp only [AMap.get_put] at hr'
  by_cases hw : w = w'
  · subst hw
    simp at hr'
    subst hr'
    simp [List.range_succ, hs w r hr]
  · simp [hw] at hr'
    exact hs w' r' hr'

end MW.Lemmas.PersistFault
