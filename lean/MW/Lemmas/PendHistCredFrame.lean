/-
  C09 history-level refinement, the PENDING-CREDIT bucket (`mc`) and the UNMINED-DEPOSIT bucket (unmined game
  history), part 1: what the purge / confirm operations do to them.

  `CFrX own ex a a'` ("credit frame", `ex` = the ids still under work): going from `a` to `a'`
     pend      no pending record appears or changes,
     credSub / gameSub   no record of the two buckets appears,
     cred / game         the records of a transaction that is still pending in `a'` are untouched,
     gone      a transaction that was pending and is not any more has none of its records left:
               no pending credit at any of its output indexes, no deposit record of any of its staking / binding
               outputs that pay an owned address.
  `CFr own = CFrX own (fun _ => False)`.  Instances: `removeConflict` (any fuel), `killSpenders`, `dsLoop`,
  `removeDoubleSpends`, `purgeSpenders` and its fold.  The confirm operation `unpendMined` erases the pending
  credits of the confirmed transaction but NOT its deposit records (AddCredits does, `gameOne`): `CFrX` with
  that id excepted; the exception is discharged after `addCredits` (PendHistCredConnect).
-/
import MW.Lemmas.PendHistPurge
namespace MW.Lemmas.PendHist.Cred
open MW MW.Model.Ledger MW.Lemmas.LedgerPending

/-- the deposit-record key of output `j` of `t`, when it is a staking / binding output paying an owned address -/
def GameOut (own : Own) (t : Tx) (j : Nat) (w : Wid) (b : Bool) : Prop :=
  ∃ o ch, t.outs[j]? = some o ∧ (o.cls.isStaking || o.cls.isBinding) = true ∧ AMap.get own o.addr = some (w, ch) ∧
    b = o.cls.isBinding

structure CFrX (own : Own) (ex : TxId → Prop) (a a' : Store) : Prop where
  pend : ∀ id t, AMap.get a'.pending id = some t → AMap.get a.pending id = some t
  credSub : ∀ k, AMap.get a.pendCred k = none → AMap.get a'.pendCred k = none
  gameSub : ∀ k, AMap.get a.pendGame k = none → AMap.get a'.pendGame k = none
  cred : ∀ id j, ¬ ex id → (AMap.get a'.pending id).isSome = true →
    AMap.get a'.pendCred (id, j) = AMap.get a.pendCred (id, j)
  game : ∀ w b id j, ¬ ex id → (AMap.get a'.pending id).isSome = true →
    AMap.get a'.pendGame (w, b, id, j) = AMap.get a.pendGame (w, b, id, j)
  gone : ∀ t, ¬ ex t.id → AMap.get a.pending t.id = some t → AMap.get a'.pending t.id = none →
    (∀ j, j < t.outs.length → AMap.get a'.pendCred (t.id, j) = none) ∧
    (∀ j w b, GameOut own t j w b → AMap.get a'.pendGame (w, b, t.id, j) = none)

abbrev CFr (own : Own) := CFrX own (fun _ => False)

theorem CFrX.refl (own : Own) (ex : TxId → Prop) (a : Store) : CFrX own ex a a :=
  ⟨fun _ _ h => h, fun _ h => h, fun _ h => h, fun _ _ _ _ => rfl, fun _ _ _ _ _ _ => rfl,
    fun t _ h1 h2 => by rw [h1] at h2; cases h2⟩

theorem CFrX.weaken {own : Own} {ex ex' : TxId → Prop} {a a' : Store} (h : CFrX own ex a a')
    (hsub : ∀ id, ex id → ex' id) : CFrX own ex' a a' :=
  ⟨h.pend, h.credSub, h.gameSub, fun id j hn => h.cred id j (fun he => hn (hsub id he)),
    fun w b id j hn => h.game w b id j (fun he => hn (hsub id he)),
    fun t hn => h.gone t (fun he => hn (hsub _ he))⟩

theorem CFrX.trans {own : Own} {ex : TxId → Prop} {a b c : Store} (h1 : CFrX own ex a b) (h2 : CFrX own ex b c) :
    CFrX own ex a c := by
  refine ⟨fun id t h => h1.pend id t (h2.pend id t h), fun k h => h2.credSub k (h1.credSub k h),
    fun k h => h2.gameSub k (h1.gameSub k h), ?_, ?_, ?_⟩
  · intro id j hn hp
    have hb : (AMap.get b.pending id).isSome = true := by
      cases hg : AMap.get c.pending id with
      | none => rw [hg] at hp; cases hp
      | some t => rw [h2.pend id t hg]; rfl
    rw [h2.cred id j hn hp, h1.cred id j hn hb]
  · intro w bb id j hn hp
    have hb : (AMap.get b.pending id).isSome = true := by
      cases hg : AMap.get c.pending id with
      | none => rw [hg] at hp; cases hp
      | some t => rw [h2.pend id t hg]; rfl
    rw [h2.game w bb id j hn hp, h1.game w bb id j hn hb]
  · intro t hn ha hc
    cases hb : AMap.get b.pending t.id with
    | none =>
      obtain ⟨g1, g2⟩ := h1.gone t hn ha hb
      exact ⟨fun j hj => h2.credSub _ (g1 j hj), fun j w bb hg => h2.gameSub _ (g2 j w bb hg)⟩
    | some t' =>
      have : t' = t := by have := h1.pend _ _ hb; rw [ha] at this; cases this; rfl
      subst this
      exact h2.gone t' hn hb hc

/-- closing an exception: the excepted transaction is gone and clean -/
theorem CFrX.close {own : Own} {a a' : Store} {tx : Tx} (h : CFrX own (fun id => id = tx.id) a a')
    (hroot : ∀ t, AMap.get a.pending tx.id = some t → t = tx)
    (hgone : AMap.get a'.pending tx.id = none)
    (hc : ∀ j, j < tx.outs.length → AMap.get a'.pendCred (tx.id, j) = none)
    (hg : ∀ j w b, GameOut own tx j w b → AMap.get a'.pendGame (w, b, tx.id, j) = none) : CFr own a a' := by
  refine ⟨h.pend, h.credSub, h.gameSub, ?_, ?_, ?_⟩
  · intro id j _ hp
    apply h.cred id j _ hp
    intro he; rw [he, hgone] at hp; cases hp
  · intro w b id j _ hp
    apply h.game w b id j _ hp
    intro he; rw [he, hgone] at hp; cases hp
  · intro t _ ha hn
    by_cases he : t.id = tx.id
    · have : t = tx := hroot t (by rw [← he]; exact ha)
      subst this
      exact ⟨hc, hg⟩
    · exact h.gone t he ha hn

-- ------------------------------------------------------------------ primitive steps

theorem cfr_of_eq (own : Own) (ex : TxId → Prop) {a a' : Store} (h1 : a'.pending = a.pending)
    (h2 : a'.pendCred = a.pendCred) (h3 : a'.pendGame = a.pendGame) : CFrX own ex a a' :=
  ⟨fun id t h => by rw [← h1]; exact h, fun k h => by rw [h2]; exact h, fun k h => by rw [h3]; exact h,
    fun _ _ _ _ => by rw [h2], fun _ _ _ _ _ _ => by rw [h3],
    fun t _ ha hn => by rw [h1, ha] at hn; cases hn⟩

theorem cfrx_eraseCred (own : Own) (a : Store) (x : TxId) (i : Nat) :
    CFrX own (fun id => id = x) a { a with pendCred := AMap.erase a.pendCred (x, i) } := by
  refine ⟨fun _ _ h => h, fun k h => ?_, fun _ h => h, fun id j hn _ => ?_, fun _ _ _ _ _ _ => rfl,
    fun t _ ha hn => by rw [ha] at hn; cases hn⟩
  · show AMap.get (AMap.erase a.pendCred (x, i)) k = none
    rw [AMap.get_erase]; split <;> simp [h]
  · show AMap.get (AMap.erase a.pendCred (x, i)) (id, j) = _
    rw [AMap.get_erase]
    have : ¬ (x, i) = (id, j) := fun he => hn (Prod.mk.inj he).1.symm
    rw [if_neg this]

theorem cfrx_erasePending (own : Own) (a : Store) (x : TxId) :
    CFrX own (fun id => id = x) a { a with pending := AMap.erase a.pending x } := by
  refine ⟨fun id t h => ?_, fun _ h => h, fun _ h => h, fun _ _ _ _ => rfl, fun _ _ _ _ _ _ => rfl,
    fun t hn ha hg => ?_⟩
  · have h' : AMap.get (AMap.erase a.pending x) id = some t := h
    rw [AMap.get_erase] at h'
    split at h'
    · cases h'
    · exact h'
  · have h' : AMap.get (AMap.erase a.pending x) t.id = none := hg
    rw [AMap.get_erase, if_neg (fun he => hn he.symm), ha] at h'
    cases h'

/-- removeUnminedGameHistory only erases records of that transaction … -/
theorem rugh_other (own : Own) (s : Store) (tx : Tx) (k : Wid × Bool × TxId × Nat) (hk : k.2.2.1 ≠ tx.id) :
    AMap.get (removeUnminedGameHistory own s tx).pendGame k = AMap.get s.pendGame k := by
  unfold removeUnminedGameHistory
  apply foldIdx_inv (fun (a : Store) => AMap.get a.pendGame k = AMap.get s.pendGame k) _ _ _ _ rfl
  intro a i o ha
  split
  · split
    · rename_i w ch _
      show AMap.get (AMap.erase a.pendGame _) k = _
      rw [AMap.get_erase, if_neg, ha]
      intro he; apply hk; rw [← he]
    · exact ha
  · exact ha

/-- … and erases the record of each of its staking / binding outputs that pay an owned address -/
theorem rugh_erased (own : Own) (tx : TxId) : ∀ (os : List Out) (n : Nat) (s : Store) (j : Nat) (o : Out) (w : Wid) (ch : Bool),
    os[j]? = some o → (o.cls.isStaking || o.cls.isBinding) = true → AMap.get own o.addr = some (w, ch) →
    AMap.get (foldIdx (fun s i o =>
      if o.cls.isStaking || o.cls.isBinding then
        match AMap.get own o.addr with
        | some (w, _) => { s with pendGame := AMap.erase s.pendGame (w, o.cls.isBinding, tx, i) }
        | none => s
      else s) os n s).pendGame (w, o.cls.isBinding, tx, n + j) = none := by
  intro os
  induction os with
  | nil => intro n s j o w ch h; simp at h
  | cons x os ih =>
    intro n s j o w ch hj hcls hown
    rw [show foldIdx _ (x :: os) n s = foldIdx _ os (n + 1) _ from rfl]
    cases j with
    | zero =>
      simp only [List.getElem?_cons_zero, Option.some.injEq] at hj
      subst hj
      -- erased now, stays erased
      apply foldIdx_inv (fun (a : Store) => AMap.get a.pendGame (w, x.cls.isBinding, tx, n + 0) = none)
      · simp only [hcls, if_true, hown]
        show AMap.get (AMap.erase s.pendGame _) _ = none
        rw [AMap.get_erase]; simp
      · intro a i o' ha
        split
        · split
          · show AMap.get (AMap.erase a.pendGame _) _ = none
            rw [AMap.get_erase]; split
            · rfl
            · exact ha
          · exact ha
        · exact ha
    | succ j =>
      simp only [List.getElem?_cons_succ] at hj
      rw [show n + (j + 1) = n + 1 + j by omega]
      exact ih (n + 1) _ j o w ch hj hcls hown

theorem rugh_gameOut (own : Own) (s : Store) (tx : Tx) (j : Nat) (w : Wid) (b : Bool) (h : GameOut own tx j w b) :
    AMap.get (removeUnminedGameHistory own s tx).pendGame (w, b, tx.id, j) = none := by
  obtain ⟨o, ch, ho, hcls, hown, hb⟩ := h
  subst hb
  have := rugh_erased own tx.id tx.outs 0 s j o w ch ho hcls hown
  rw [Nat.zero_add] at this
  exact this

theorem cfrx_rugh (own : Own) (s : Store) (tx : Tx) :
    CFrX own (fun id => id = tx.id) s (removeUnminedGameHistory own s tx) := by
  have hf := removeUnminedGameHistory_frame own s tx
  simp only [exceptGame, Prod.mk.injEq] at hf
  obtain ⟨h1, _, h3, _⟩ := hf
  refine ⟨fun id t h => by rw [← h1]; exact h, fun k h => by rw [h3]; exact h,
    fun k h => removeUnminedGameHistory_game own s tx k h, fun _ _ _ _ => by rw [h3],
    fun w b id j hn _ => rugh_other own s tx (w, b, id, j) hn, fun t _ ha hn => by rw [h1, ha] at hn; cases hn⟩

-- ------------------------------------------------------------------ removeConflict and the loops

theorem sub_killSpenders (own : Own) (n : Nat) (a : Store) (l : List TxId) : Sub (killSpenders own n a l) a :=
  killSpenders_inv (fun b => Sub b a) own n (fun b t hb => (removeConflict_sub own n b t).trans hb) a l (Sub.refl a)

/-- a loop over the output indexes that erases the pending credit of index `i` in round `i` and never adds one -/
theorem range_erased (x : TxId) (f : Store → Nat → Store)
    (h1 : ∀ a i, AMap.get (f a i).pendCred (x, i) = none)
    (h2 : ∀ a i k, AMap.get a.pendCred k = none → AMap.get (f a i).pendCred k = none) :
    ∀ (n : Nat) (a : Store) (j : Nat), j < n → AMap.get ((List.range n).foldl f a).pendCred (x, j) = none := by
  intro n
  induction n with
  | zero => intro a j hj; omega
  | succ n ih =>
    intro a j hj
    rw [List.range_succ, List.foldl_append]
    simp only [List.foldl]
    by_cases hjn : j = n
    · subst hjn; exact h1 _ _
    · exact h2 _ _ _ (ih a j (by omega))

theorem killSpenders_cfr_of (own : Own) (n : Nat)
    (ih : ∀ s tx, KeyId s → AMap.get s.pending tx.id = some tx → CFr own s (removeConflict own n s tx))
    (a : Store) (hk : KeyId a) (l : List TxId) : CFr own a (killSpenders own n a l) := by
  have : CFr own a (killSpenders own n a l) ∧ Sub (killSpenders own n a l) a := by
    unfold killSpenders
    apply foldl_inv (fun x => CFr own a x ∧ Sub x a) _ _ _ ⟨CFrX.refl _ _ _, Sub.refl a⟩
    intro x sp _ ⟨hx, hs⟩
    split
    · rename_i sptx hsp
      have hkx : KeyId x := hk.mono hs
      have hid : sptx.id = sp := hkx sp sptx hsp
      exact ⟨hx.trans (ih x sptx hkx (by rw [hid]; exact hsp)), (removeConflict_sub own n x sptx).trans hs⟩
    · exact ⟨hx, hs⟩
  exact this.1

theorem removeConflict_cfr (own : Own) : ∀ fuel s tx, KeyId s → AMap.get s.pending tx.id = some tx →
    CFr own s (removeConflict own fuel s tx) := by
  intro fuel
  induction fuel with
  | zero => intro s tx _ _; exact CFrX.refl _ _ _
  | succ n ih =>
    intro s tx hk hroot
    rw [removeConflict_succ]
    -- the loop over the outputs
    have hloop : CFrX own (fun id => id = tx.id) s ((List.range tx.outs.length).foldl (killOut own n tx.id) s) ∧
        Sub ((List.range tx.outs.length).foldl (killOut own n tx.id) s) s := by
      apply foldl_inv (fun x => CFrX own (fun id => id = tx.id) s x ∧ Sub x s) _ _ _ ⟨CFrX.refl _ _ _, Sub.refl s⟩
      intro x i _ ⟨hx, hs⟩
      have hkx : KeyId x := hk.mono hs
      have h1 := (killSpenders_cfr_of own n ih x hkx ((AMap.get x.pendIns (tx.id, i)).getD [])).weaken
        (ex' := fun id => id = tx.id) (fun _ h => h.elim)
      have h2 := cfrx_eraseCred own (killSpenders own n x ((AMap.get x.pendIns (tx.id, i)).getD [])) tx.id i
      exact ⟨hx.trans (h1.trans h2), ((sub_eraseCred _ _).trans (sub_killSpenders own n x _)).trans hs⟩
    obtain ⟨hl, hsl⟩ := hloop
    have hcl : ∀ j, j < tx.outs.length →
        AMap.get ((List.range tx.outs.length).foldl (killOut own n tx.id) s).pendCred (tx.id, j) = none := by
      apply range_erased tx.id (killOut own n tx.id)
      · intro a i
        show AMap.get (AMap.erase _ (tx.id, i)) (tx.id, i) = none
        rw [AMap.get_erase]; simp
      · intro a i k hkn
        exact ((sub_eraseCred _ _).trans (sub_killSpenders own n a _)).cred k hkn
    -- the three final steps
    have hfr := removeUnminedInputsOf_frame ((List.range tx.outs.length).foldl (killOut own n tx.id) s) tx
    simp only [exceptIns, Prod.mk.injEq] at hfr
    have h3 : CFrX own (fun id => id = tx.id) _ (removeUnminedInputsOf ((List.range tx.outs.length).foldl (killOut own n tx.id) s) tx) :=
      cfr_of_eq own _ hfr.1 hfr.2.1 hfr.2.2.1
    have h4 := cfrx_rugh own (removeUnminedInputsOf ((List.range tx.outs.length).foldl (killOut own n tx.id) s) tx) tx
    have h5 := cfrx_erasePending own (removeUnminedGameHistory own
      (removeUnminedInputsOf ((List.range tx.outs.length).foldl (killOut own n tx.id) s) tx) tx) tx.id
    have hall := hl.trans (h3.trans (h4.trans h5))
    apply hall.close
    · intro t ht; rw [hroot] at ht; cases ht; rfl
    · show AMap.get (AMap.erase _ tx.id) tx.id = none
      rw [AMap.get_erase]; simp
    · intro j hj
      show AMap.get (removeUnminedGameHistory own _ tx).pendCred (tx.id, j) = none
      exact h4.credSub _ (h3.credSub _ (hcl j hj))
    · intro j w b hg
      exact rugh_gameOut own _ tx j w b hg

theorem killSpenders_cfr (own : Own) (n : Nat) (a : Store) (hk : KeyId a) (l : List TxId) :
    CFr own a (killSpenders own n a l) :=
  killSpenders_cfr_of own n (removeConflict_cfr own n) a hk l

theorem dsLoop_cfr (own : Own) (n : Nat) (a : Store) (hk : KeyId a) (ins : List Inp) :
    CFr own a (dsLoop own n a ins) ∧ Sub (dsLoop own n a ins) a := by
  unfold dsLoop
  apply foldl_inv (fun x => CFr own a x ∧ Sub x a) _ _ _ ⟨CFrX.refl _ _ _, Sub.refl a⟩
  intro x i _ ⟨hx, hs⟩
  exact ⟨hx.trans (killSpenders_cfr own n x (hk.mono hs) _), (sub_killSpenders own n x _).trans hs⟩

theorem removeDoubleSpends_cfr (own : Own) (a : Store) (hk : KeyId a) (tr : TxRec) :
    CFr own a (removeDoubleSpends own a tr) := by
  rw [removeDoubleSpends_eq]
  have hfr := deleteUnminedInputs_frame (dsLoop own (a.pending.length + 1) a tr.tx.ins) tr.tx
  simp only [exceptIns, Prod.mk.injEq] at hfr
  exact (dsLoop_cfr own _ a hk tr.tx.ins).1.trans (cfr_of_eq own _ hfr.1 hfr.2.1 hfr.2.2.1)

theorem purgeSpenders_cfr (own : Own) (a : Store) (hk : KeyId a) (op : TxId × Nat) :
    CFr own a (purgeSpenders own a op) ∧ Sub (purgeSpenders own a op) a := by
  rw [purgeSpenders_eq']
  apply foldl_inv (fun x => CFr own a x ∧ Sub x a) _ _ _ ⟨CFrX.refl _ _ _, Sub.refl a⟩
  intro x sp _ ⟨hx, hs⟩
  split
  · rename_i dtx hsp
    have hkx : KeyId x := hk.mono hs
    have hid : dtx.id = sp := hkx sp dtx hsp
    exact ⟨hx.trans (removeConflict_cfr own _ x dtx hkx (by rw [hid]; exact hsp)),
      (removeConflict_sub own _ x dtx).trans hs⟩
  · exact ⟨hx, hs⟩

theorem purgeFold_cfr (own : Own) : ∀ (rem : List (TxId × Nat)) (a : Store), KeyId a →
    CFr own a (rem.foldl (purgeSpenders own) a) := by
  intro rem
  induction rem with
  | nil => intro a _; exact CFrX.refl _ _ _
  | cons op rem ih =>
    intro a hk
    obtain ⟨h1, h2⟩ := purgeSpenders_cfr own a hk op
    exact h1.trans (ih _ (hk.mono h2))

/-- the confirm operation: the confirmed transaction loses its pending credits, its deposit records stay until
    AddCredits — it is the exception -/
theorem unpendMined_cfrx (own : Own) (a : Store) (tx : Tx) :
    CFrX own (fun id => id = tx.id) a (unpendMined a tx) := by
  unfold unpendMined
  split
  · obtain ⟨f1, _, f3, _⟩ := deleteUnminedCredits_frame a tx
    have h1 : CFrX own (fun id => id = tx.id) a (deleteUnminedCredits a tx) := by
      refine ⟨fun id t h => by rw [← f1]; exact h, fun k h => ?_, fun k h => by rw [f3]; exact h,
        fun id j hn _ => ?_, fun _ _ _ _ _ _ => by rw [f3], fun t _ ha hn => by rw [f1, ha] at hn; cases hn⟩
      · rw [deleteUnminedCredits_cred]; split
        · rfl
        · exact h
      · rw [deleteUnminedCredits_cred, if_neg]
        intro he; exact hn he.1
    exact h1.trans (cfrx_erasePending own _ tx.id)
  · exact CFrX.refl _ _ _

theorem confirmPending_cfrx (own : Own) (a : Store) (hk : KeyId a) (tr : TxRec) :
    CFrX own (fun id => id = tr.tx.id) a (confirmPending own a tr) := by
  unfold confirmPending
  exact (unpendMined_cfrx own a tr.tx).trans
    ((removeDoubleSpends_cfr own _ (hk.mono (sub_unpendMined a tr.tx)) tr).weaken (fun _ h => h.elim))

end MW.Lemmas.PendHist.Cred
