/-
  Lemmas for the byte-level keystore codecs, part 2: the concrete records of keystore/db.go and the snacl
  parameters, as instances of the generic interpreter over the GENERATED tables (MW.Gen.KsCodec).
-/
import MW.Lemmas.KsCodecGen
namespace MW.KsCodecL
open MW MW.Model.KsCodec
open MW.Gen.KsCodec (Item Codec snaclMarshal snaclUnmarshal snaclKeySize snaclMarshalOffsets snaclUnmarshalOffsets
  snaclIntFieldsAreInt64 uint32ToBytes u32ReadersShape u32WritersShape versionShape prefixScanShape accountInfoShape
  internalFirstShape accountMASS)

/-! ### only the shape of a table matters (field names differ between an encoder and its decoder) -/

def shape : Item → Nat × Nat
  | .u8 _ => (0, 1)
  | .le _ w => (1, w)
  | .raw _ w => (2, w)
  | .lp _ w => (3, w)

def shapes (is : List Item) : List (Nat × Nat) := is.map shape

theorem shape_eq {i j : Item} (h : shape i = shape j) :
    (∀ v, encodeItem i v = encodeItem j v) ∧ (∀ v, itemFits i v = itemFits j v) := by
  cases i <;> cases j <;> simp [shape] at h <;> (try subst h) <;>
    (constructor <;> intro v <;> cases v <;> simp [encodeItem, itemFits])

theorem encodeItems_congr {is js : List Item} (h : shapes is = shapes js) (vs : List Val) :
    encodeItems is vs = encodeItems js vs ∧ fitsAll is vs = fitsAll js vs := by
  induction is generalizing js vs with
  | nil =>
    cases js with
    | nil => exact ⟨rfl, rfl⟩
    | cons _ _ => simp [shapes] at h
  | cons i is ih =>
    cases js with
    | nil => simp [shapes] at h
    | cons j js =>
      simp only [shapes, List.map_cons, List.cons.injEq] at h
      obtain ⟨e1, e2⟩ := shape_eq h.1
      cases vs with
      | nil => exact ⟨rfl, rfl⟩
      | cons v vs =>
        obtain ⟨h1, h2⟩ := ih (js := js) h.2 vs
        simp only [encodeItems, fitsAll, e1 v, e2 v, h1, h2, and_self]

theorem decodeItems_congr {is js : List Item} (h : shapes is = shapes js) (bs : Bytes) :
    decodeItems is bs = decodeItems js bs := by
  induction is generalizing js bs with
  | nil =>
    cases js with
    | nil => rfl
    | cons _ _ => simp [shapes] at h
  | cons i is ih =>
    cases js with
    | nil => simp [shapes] at h
    | cons j js =>
      simp only [shapes, List.map_cons, List.cons.injEq] at h
      have ih' := fun bs => ih (js := js) h.2 bs
      have h1 := h.1
      cases i <;> cases j <;> simp [shape] at h1 <;> (try subst h1) <;>
        simp only [decodeItems, ih']

theorem minBytes_congr {is js : List Item} (h : shapes is = shapes js) :
    minBytes is = minBytes js ∧ hasLp is = hasLp js := by
  induction is generalizing js with
  | nil =>
    cases js with
    | nil => exact ⟨rfl, rfl⟩
    | cons _ _ => simp [shapes] at h
  | cons i is ih =>
    cases js with
    | nil => simp [shapes] at h
    | cons j js =>
      simp only [shapes, List.map_cons, List.cons.injEq] at h
      obtain ⟨h1, h2⟩ := ih (js := js) h.2
      have h0 := h.1
      cases i <;> cases j <;> simp [shape] at h0 <;> (try subst h0) <;> simp [minBytes, hasLp, h1, h2]

theorem encodeItems_some_of_fits (is : List Item) (vs : List Val) (hf : fitsAll is vs = true) :
    ∃ bs, encodeItems is vs = some bs := by
  induction is generalizing vs with
  | nil =>
    cases vs with
    | nil => exact ⟨[], rfl⟩
    | cons _ _ => simp [fitsAll] at hf
  | cons i is ih =>
    cases vs with
    | nil => simp [fitsAll] at hf
    | cons v vs =>
      simp only [fitsAll, Bool.and_eq_true] at hf
      obtain ⟨r, hr⟩ := ih vs hf.2
      have : ∃ a, encodeItem i v = some a := by
        cases i <;> cases v <;> simp [itemFits] at hf <;> simp [encodeItem, hf.1]
      obtain ⟨a, ha⟩ := this
      exact ⟨a ++ r, by simp [encodeItems, ha, hr]⟩

/-- the guard of a decoder is consistent with its own table -/
def guardOk (c : Codec) : Bool :=
  if c.exact then !hasLp c.items && c.minLen == minBytes c.items else decide (c.minLen ≤ minBytes c.items)

/-- decode ∘ encode = id across an encoder table and a decoder table of the same shape -/
theorem decode_encode (enc dec : Codec) (hs : shapes enc.items = shapes dec.items) (hg : guardOk dec = true)
    (vs : List Val) (bs : Bytes) (hf : fitsAll enc.items vs = true) (he : encodeItems enc.items vs = some bs) :
    decode dec bs = .ok vs := by
  obtain ⟨hmin, hlp⟩ := encodeItems_length_ge enc.items vs bs he
  obtain ⟨hm, hl⟩ := minBytes_congr hs
  have hdec := decodeItems_encodeItems' enc.items vs bs hf he
  rw [decodeItems_congr hs] at hdec
  unfold decode
  unfold guardOk at hg
  by_cases hx : dec.exact = true
  · simp only [hx, if_true, Bool.and_eq_true, Bool.not_eq_true', beq_iff_eq] at hg
    have : bs.length = dec.minLen := by rw [hg.2, ← hm]; exact hlp (by rw [hl]; exact hg.1)
    simp [hx, this, hdec, Except.map]
  · simp only [hx, Bool.false_eq_true, if_false, decide_eq_true_eq] at hg
    have : ¬ bs.length < dec.minLen := by omega
    simp [hx, this, hdec, Except.map]

theorem decode_ok {c : Codec} {bs : Bytes} {vs : List Val} (h : decode c bs = .ok vs) :
    ∃ rest, decodeItems c.items bs = .ok (vs, rest) := by
  unfold decode at h
  by_cases hg : (if c.exact then bs.length ≠ c.minLen else bs.length < c.minLen)
  · rw [if_pos hg] at h; cases h
  · rw [if_neg hg] at h
    cases hi : decodeItems c.items bs with
    | error e => rw [hi] at h; simp [Except.map] at h
    | ok p =>
      rw [hi] at h
      simp only [Except.map, Except.ok.injEq] at h
      exact ⟨p.2, by rw [← h]⟩

/-! ### what the generated tables must look like for the typed wrappers (checked against today's source) -/

/-- what today's generated tables must look like -/
def TablesShape : Prop :=
    shapes snaclMarshal.items = shapes snaclUnmarshal.items ∧
    shapes snaclMarshal.items = [(2, snaclKeySize), (2, 32), (1, 8), (1, 8), (1, 8)] ∧
    snaclMarshalOffsets = snaclUnmarshalOffsets ∧
    snaclMarshal.minLen = minBytes snaclMarshal.items ∧ guardOk snaclUnmarshal = true ∧
    snaclIntFieldsAreInt64 = true ∧
    shapes MW.Gen.KsCodec.serializeAccountRow.items = shapes MW.Gen.KsCodec.deserializeAccountRow.items ∧
    shapes MW.Gen.KsCodec.serializeAccountRow.items = [(0, 1), (3, 4)] ∧ guardOk MW.Gen.KsCodec.deserializeAccountRow = true ∧
    shapes MW.Gen.KsCodec.serializeHDAccountKey.items = shapes MW.Gen.KsCodec.deserializeHDAccountKey.items ∧
    shapes MW.Gen.KsCodec.serializeHDAccountKey.items = [(3, 4), (3, 4)] ∧ guardOk MW.Gen.KsCodec.deserializeHDAccountKey = true ∧
    shapes MW.Gen.KsCodec.putEncryptedPubKey.items = shapes MW.Gen.KsCodec.fetchEncryptedPubKey.items ∧
    shapes MW.Gen.KsCodec.putEncryptedPubKey.items = [(1, 4), (1, 4)] ∧ guardOk MW.Gen.KsCodec.fetchEncryptedPubKey = true ∧
    shapes uint32ToBytes.items = [(1, 4)] ∧ guardOk uint32ToBytes = true ∧
    shapes MW.Gen.KsCodec.putVersion.items = [(0, 1)] ∧
    (u32ReadersShape && u32WritersShape && versionShape && prefixScanShape && accountInfoShape && internalFirstShape) = true ∧
    accountMASS = 0 ∧
    -- field names and order as read from the source (a swap of two same-width fields changes these)
    snaclMarshal.items = [.raw "Salt" 32, .raw "Digest" 32, .le "N" 8, .le "R" 8, .le "P" 8] ∧
    snaclUnmarshal.items = [.raw "Salt" 32, .raw "Digest" 32, .le "N" 8, .le "R" 8, .le "P" 8] ∧
    snaclMarshalOffsets = [0, 32, 64, 72, 80] ∧
    MW.Gen.KsCodec.serializeAccountRow.items = [.u8 "acctType", .lp "rawData" 4] ∧
    MW.Gen.KsCodec.deserializeAccountRow.items = [.u8 "acctType", .lp "rawData" 4] ∧
    MW.Gen.KsCodec.serializeHDAccountKey.items = [.lp "encryptedPubKey" 4, .lp "encryptedPrivKey" 4] ∧
    MW.Gen.KsCodec.deserializeHDAccountKey.items = [.lp "pubKeyEncrypted" 4, .lp "privKeyEncrypted" 4] ∧
    MW.Gen.KsCodec.putEncryptedPubKey.items = [.le "branch" 4, .le "index" 4] ∧
    MW.Gen.KsCodec.fetchEncryptedPubKey.items = [.le "branch" 4, .le "index" 4]

theorem tables_shape : TablesShape := by unfold TablesShape; decide

/-! ### little-endian uint32 values (account usage, coin type, child counters) -/

theorem u32Bytes_eq (n : Nat) : u32Bytes n = leBytes 4 n := by
  simp [u32Bytes, uint32ToBytes, encodeItems, encodeItem]

theorem u32Of_u32Bytes (n : Nat) : u32Of (u32Bytes n) = .ok (n % 4294967296) := by
  rw [u32Bytes_eq]
  have h := decodeItems_encodeItems' [.le "number" 4] [.n (n % 4294967296)] (leBytes 4 (n % 4294967296))
    (by simp [fitsAll, itemFits]; omega) (by simp [encodeItems, encodeItem])
  have e : leBytes 4 (n % 4294967296) = leBytes 4 n := by
    have := leBytes_ofLE (leBytes 4 n)
    rw [leBytes_length, ofLE_leBytes] at this
    exact this
  rw [e] at h
  simp [u32Of, decode, uint32ToBytes, h, Except.map]

theorem u32Of_u32Bytes_of_lt {n : Nat} (h : n < 4294967296) : u32Of (u32Bytes n) = .ok n := by
  rw [u32Of_u32Bytes, Nat.mod_eq_of_lt h]

theorem u32Of_short (bs : Bytes) (h : bs.length < 4) : u32Of bs = .error .panic := by
  simp [u32Of, decode, uint32ToBytes, decodeItems, h, Except.map]

theorem u32Of_long (bs : Bytes) (h : 4 ≤ bs.length) : u32Of bs = .ok (ofLE (bs.take 4)) := by
  have : ¬ bs.length < 4 := by omega
  simp [u32Of, decode, uint32ToBytes, decodeItems, this, Except.map]

theorem u32Bytes_length (n : Nat) : (u32Bytes n).length = 4 := by rw [u32Bytes_eq, leBytes_length]

theorem u32Bytes_ne_nil (n : Nat) : u32Bytes n ≠ [] := by
  intro h; have := u32Bytes_length n; rw [h] at this; simp at this

/-- the counter encoding is strictly monotone on uint32 (so is its decoding): order of stored counters = order of indexes -/
theorem u32_monotone {a b : Nat} (ha : a < 4294967296) (hb : b < 4294967296) :
    a < b ↔ ofLE (u32Bytes a) < ofLE (u32Bytes b) := by
  rw [u32Bytes_eq, u32Bytes_eq, ofLE_leBytes_of_lt (by simpa using ha), ofLE_leBytes_of_lt (by simpa using hb)]

theorem u32Bytes_inj {a b : Nat} (ha : a < 4294967296) (hb : b < 4294967296) (h : u32Bytes a = u32Bytes b) : a = b := by
  rw [u32Bytes_eq, u32Bytes_eq] at h
  exact leBytes_inj (by simpa using ha) (by simpa using hb) h

/-- beyond the width the encoding wraps: 2^32 is stored as 0 -/
theorem u32Bytes_wraps (n : Nat) : u32Bytes (n + 4294967296) = u32Bytes n := by
  rw [u32Bytes_eq, u32Bytes_eq]; exact leBytes_wraps 4 n

/-! ### account row -/

theorem serializeAccountRow_eq (t : Nat) (raw : Bytes) :
    serializeAccountRow t raw = UInt8.ofNat (t % 256) :: (leBytes 4 raw.length ++ raw) := by
  simp [serializeAccountRow, MW.Gen.KsCodec.serializeAccountRow, encodeItems, encodeItem]

theorem deserialize_serializeAccountRow (t : Nat) (raw : Bytes) (ht : t < 256) (hr : raw.length < 4294967296) :
    deserializeAccountRow (serializeAccountRow t raw) = .ok (t, raw) := by
  have hf : fitsAll MW.Gen.KsCodec.serializeAccountRow.items [.n t, .b raw] = true := by
    simp [MW.Gen.KsCodec.serializeAccountRow, fitsAll, itemFits, ht]; omega
  obtain ⟨bs, he⟩ := encodeItems_some_of_fits _ _ hf
  have hd := decode_encode MW.Gen.KsCodec.serializeAccountRow MW.Gen.KsCodec.deserializeAccountRow (by decide) (by decide) _ bs hf he
  simp [serializeAccountRow, he, deserializeAccountRow, hd]

theorem deserializeAccountRow_short (bs : Bytes) (h : bs.length < 5) : deserializeAccountRow bs = .error .malformed := by
  have := decode_short MW.Gen.KsCodec.deserializeAccountRow (by decide) bs (by simpa [MW.Gen.KsCodec.deserializeAccountRow] using h)
  simp [deserializeAccountRow, this]

/-- the overflow case: a payload of 2^32 bytes or more is written with a truncated length and reads back
    as its prefix of `length mod 2^32` bytes – never as itself -/
theorem accountRow_overflow (t : Nat) (raw : Bytes) (ht : t < 256) :
    deserializeAccountRow (serializeAccountRow t raw) = .ok (t, raw.take (raw.length % 4294967296)) := by
  have hk : raw.length % 4294967296 < 4294967296 := Nat.mod_lt _ (by decide)
  have hlen : (raw.take (raw.length % 4294967296)).length = raw.length % 4294967296 := by
    rw [List.length_take]; exact Nat.min_eq_left (Nat.mod_le _ _)
  have e : leBytes 4 raw.length = leBytes 4 (raw.length % 4294967296) := by
    have := leBytes_ofLE (leBytes 4 raw.length)
    rw [leBytes_length, ofLE_leBytes] at this
    exact this.symm
  have hf : fitsAll [Item.u8 "acctType", .lp "rawData" 4] [.n t, .b (raw.take (raw.length % 4294967296))] = true := by
    simp only [fitsAll, itemFits, hlen, Bool.and_true, Bool.and_eq_true, decide_eq_true_eq]
    exact ⟨ht, by simpa using hk⟩
  have he : encodeItems [Item.u8 "acctType", .lp "rawData" 4] [.n t, .b (raw.take (raw.length % 4294967296))] =
      some (UInt8.ofNat (t % 256) :: (leBytes 4 (raw.length % 4294967296) ++ raw.take (raw.length % 4294967296))) := by
    simp only [encodeItems, encodeItem, hlen]; simp
  have hd := decodeItems_encodeItems _ _ _ (raw.drop (raw.length % 4294967296)) hf he
  have hb : serializeAccountRow t raw =
      UInt8.ofNat (t % 256) :: (leBytes 4 (raw.length % 4294967296) ++ raw.take (raw.length % 4294967296)) ++
        raw.drop (raw.length % 4294967296) := by
    rw [serializeAccountRow_eq, e]; simp
  have hg : ¬ (serializeAccountRow t raw).length < 5 := by rw [serializeAccountRow_eq]; simp
  rw [← hb] at hd
  simp [deserializeAccountRow, decode, MW.Gen.KsCodec.deserializeAccountRow, hg, hd, Except.map]

theorem accountRow_overflow_breaks (t : Nat) (raw : Bytes) (ht : t < 256) (hr : 4294967296 ≤ raw.length) :
    deserializeAccountRow (serializeAccountRow t raw) ≠ .ok (t, raw) := by
  rw [accountRow_overflow t raw ht]
  intro h
  simp only [Except.ok.injEq, Prod.mk.injEq, true_and] at h
  have := congrArg List.length h
  rw [List.length_take] at this
  have hk : raw.length % 4294967296 < 4294967296 := Nat.mod_lt _ (by decide)
  omega

/-- whatever deserializeAccountRow accepts is a serialization followed by ignored bytes -/
theorem deserializeAccountRow_sound (bs : Bytes) (t : Nat) (raw : Bytes) (h : deserializeAccountRow bs = .ok (t, raw)) :
    ∃ rest, bs = serializeAccountRow t raw ++ rest ∧ t < 256 ∧ raw.length < 4294967296 := by
  unfold deserializeAccountRow at h
  cases hd : decode MW.Gen.KsCodec.deserializeAccountRow bs with
  | error e => simp [hd] at h
  | ok vs =>
    rw [hd] at h
    obtain ⟨rest, hi⟩ := decode_ok hd
    obtain ⟨enc, he, hb, hf⟩ := decodeItems_sound _ bs vs rest hi
    obtain ⟨t', raw', rfl⟩ : ∃ t' raw', vs = [.n t', .b raw'] := by
      simp only [MW.Gen.KsCodec.deserializeAccountRow] at hf
      rcases vs with _ | ⟨v1, _ | ⟨v2, _ | ⟨v3, _⟩⟩⟩ <;> simp [fitsAll] at hf
      cases v1 <;> cases v2 <;> simp [itemFits] at hf
      exact ⟨_, _, rfl⟩
    simp only [Except.ok.injEq, Prod.mk.injEq] at h
    obtain ⟨h1, h2⟩ := h; subst h1; subst h2
    simp only [MW.Gen.KsCodec.deserializeAccountRow, fitsAll, itemFits, Bool.and_true, Bool.and_eq_true,
      decide_eq_true_eq] at hf
    refine ⟨rest, ?_, hf.1, by simpa using hf.2⟩
    have : serializeAccountRow t' raw' = enc := by
      simp only [serializeAccountRow]
      rw [(encodeItems_congr (js := MW.Gen.KsCodec.deserializeAccountRow.items) (by decide) _).1, he]; rfl
    rw [this, hb]

/-! ### BIP0044 account record -/

theorem deserialize_serializeHDAccountKey (pub priv : Bytes) (h : 8 + pub.length + priv.length < 4294967296) :
    ∃ raw, serializeHDAccountKey pub priv = some raw ∧ deserializeHDAccountKey raw = .ok (pub, priv) ∧
      raw = leBytes 4 pub.length ++ pub ++ (leBytes 4 priv.length ++ priv) := by
  have hf : fitsAll MW.Gen.KsCodec.serializeHDAccountKey.items [.b pub, .b priv] = true := by
    simp [MW.Gen.KsCodec.serializeHDAccountKey, fitsAll, itemFits]; omega
  obtain ⟨bs, he⟩ := encodeItems_some_of_fits _ _ hf
  have hd := decode_encode MW.Gen.KsCodec.serializeHDAccountKey MW.Gen.KsCodec.deserializeHDAccountKey (by decide) (by decide) _ bs hf he
  refine ⟨bs, by simp [serializeHDAccountKey, h, he], by simp [deserializeHDAccountKey, hd], ?_⟩
  simp [MW.Gen.KsCodec.serializeHDAccountKey, encodeItems, encodeItem] at he
  rw [← he]; simp

theorem deserializeHDAccountKey_short (raw : Bytes) (h : raw.length < 8) : deserializeHDAccountKey raw = .error .malformed := by
  have := decode_short MW.Gen.KsCodec.deserializeHDAccountKey (by decide) raw (by simpa [MW.Gen.KsCodec.deserializeHDAccountKey] using h)
  simp [deserializeHDAccountKey, this]

/-- a declared key length that exceeds the record is a run-time panic in Go, not an error value
    (only a damaged database can contain it) -/
theorem deserializeHDAccountKey_panics : deserializeHDAccountKey [9, 0, 0, 0, 1, 2, 3, 4] = .error .panic := by decide

theorem deserializeAccountRow_panics : deserializeAccountRow [0, 4, 0, 0, 0, 1, 2, 3] = .error .panic := by decide

/-! ### public-key index keys -/

theorem pubKeyKey_eq (b i : Nat) : pubKeyKey b i = leBytes 4 b ++ leBytes 4 i := by
  simp [pubKeyKey, MW.Gen.KsCodec.putEncryptedPubKey, encodeItems, encodeItem]

theorem pubKeyPath_pubKeyKey (b i : Nat) (hb : b < 4294967296) (hi : i < 4294967296) :
    pubKeyPath (pubKeyKey b i) = .ok (b, i) := by
  have hf : fitsAll MW.Gen.KsCodec.putEncryptedPubKey.items [.n b, .n i] = true := by
    simp [MW.Gen.KsCodec.putEncryptedPubKey, fitsAll, itemFits]; omega
  obtain ⟨bs, he⟩ := encodeItems_some_of_fits _ _ hf
  have hd := decode_encode MW.Gen.KsCodec.putEncryptedPubKey MW.Gen.KsCodec.fetchEncryptedPubKey (by decide) (by decide) _ bs hf he
  simp [pubKeyKey, he, pubKeyPath, hd]

/-- distinct (branch, index) pairs get distinct keys: one stored key per issued address -/
theorem pubKeyKey_inj {b i b' i' : Nat} (hb : b < 4294967296) (hi : i < 4294967296) (hb' : b' < 4294967296)
    (hi' : i' < 4294967296) (h : pubKeyKey b i = pubKeyKey b' i') : b = b' ∧ i = i' := by
  have h1 := pubKeyPath_pubKeyKey b i hb hi
  rw [h, pubKeyPath_pubKeyKey b' i' hb' hi'] at h1
  simp only [Except.ok.injEq, Prod.mk.injEq] at h1
  exact ⟨h1.1.symm, h1.2.symm⟩

/-- the overflow case: index 2^32 + i would overwrite the key of index i -/
theorem pubKeyKey_overflow_collides (b i : Nat) : pubKeyKey b (i + 4294967296) = pubKeyKey b i := by
  rw [pubKeyKey_eq, pubKeyKey_eq]; congr 1; exact leBytes_wraps 4 i

theorem pubKeyKey_length (b i : Nat) : (pubKeyKey b i).length = 8 := by simp [pubKeyKey_eq]

theorem pubKeyPath_short (k : Bytes) (h : k.length < 8) : pubKeyPath k = .error .panic := by
  simp only [pubKeyPath, decode, MW.Gen.KsCodec.fetchEncryptedPubKey, decodeItems]
  by_cases h4 : k.length < 4
  · simp [h4, Except.map]
  · have : k.length - 4 < 4 := by omega
    simp [h4, this, Except.map]

/-! ### snacl parameters -/

theorem i64_u64 (i : Int) (h1 : -9223372036854775808 ≤ i) (h2 : i < 9223372036854775808) : i64 (u64 i) = i := by
  unfold i64 u64
  split <;> omega

theorem u64_lt (i : Int) : u64 i < 18446744073709551616 := by unfold u64; omega

theorem i64_range (u : Nat) (h : u < 18446744073709551616) :
    -9223372036854775808 ≤ i64 u ∧ i64 u < 9223372036854775808 ∧ u64 (i64 u) = u := by
  unfold i64 u64
  split <;> omega

/-- outside the 64-bit range the conversion pair is not the identity (Go's `int` cannot hold such a value) -/
theorem i64_u64_overflow : i64 (u64 9223372036854775808) = -9223372036854775808 := by decide

theorem params_fits (p : Params) (h : p.wf = true) : fitsAll snaclMarshal.items p.vals = true := by
  simp only [Params.wf, Bool.and_eq_true, decide_eq_true_eq] at h
  obtain ⟨⟨⟨⟨⟨⟨⟨hs, hd⟩, _⟩, _⟩, _⟩, _⟩, _⟩, _⟩ := h
  have h1 := u64_lt p.N
  have h2 := u64_lt p.R
  have h3 := u64_lt p.P
  simp only [snaclMarshal, Params.vals, fitsAll, itemFits, Bool.and_true, Bool.and_eq_true, decide_eq_true_eq]
  simp only [snaclKeySize] at hs
  refine ⟨hs, hd, ?_, ?_, ?_⟩ <;> simpa

/-- SecretKey.Marshal writes exactly 88 bytes … -/
theorem marshal_length (p : Params) (bs : Bytes) (h : marshal p = some bs) : bs.length = 88 := by
  have := (encodeItems_length_ge snaclMarshal.items p.vals bs h).2 (by decide)
  rw [this]; decide

/-- … and Unmarshal gives the parameters back: Unmarshal ∘ Marshal = id on every value a Go `Parameters` can hold -/
theorem unmarshal_marshal (p : Params) (h : p.wf = true) :
    ∃ bs, marshal p = some bs ∧ unmarshal bs = .ok p := by
  have hf := params_fits p h
  obtain ⟨bs, he⟩ := encodeItems_some_of_fits _ _ hf
  have hd := decode_encode snaclMarshal snaclUnmarshal (by decide) (by decide) _ bs hf he
  refine ⟨bs, he, ?_⟩
  simp only [Params.wf, Bool.and_eq_true, decide_eq_true_eq] at h
  obtain ⟨⟨⟨⟨⟨⟨⟨_, _⟩, n1⟩, n2⟩, r1⟩, r2⟩, p1⟩, p2⟩ := h
  simp only [unmarshal, hd, Params.vals, i64_u64 _ n1 n2, i64_u64 _ r1 r2, i64_u64 _ p1 p2]

/-- Unmarshal rejects EVERY byte string whose length is not 88 … -/
theorem unmarshal_wrong_length (bs : Bytes) (h : bs.length ≠ 88) : unmarshal bs = .error .malformed := by
  have := decode_exact_length snaclUnmarshal (by decide) bs (by simpa [snaclUnmarshal] using h)
  simp [unmarshal, this]

/-- … and accepts every string of that length (N, r, p are not validated here; scrypt refuses bad ones later),
    returning well-formed parameters that marshal back to the same bytes: a bijection on 88-byte strings -/
theorem unmarshal_total (bs : Bytes) (h : bs.length = 88) :
    ∃ p, unmarshal bs = .ok p ∧ p.wf = true ∧ marshal p = some bs := by
  obtain ⟨vs, hv, hf⟩ := decodeItems_fixed_ok snaclUnmarshal.items (by decide) bs (by rw [h]; decide)
  have hdrop : bs.drop (minBytes snaclUnmarshal.items) = [] := by
    apply List.drop_eq_nil_of_le; rw [h]; decide
  rw [hdrop] at hv
  obtain ⟨enc, he, hb, _⟩ := decodeItems_sound _ bs vs [] hv
  simp only [List.append_nil] at hb
  subst hb
  obtain ⟨s, d, n, r, q, rfl⟩ : ∃ s d n r q, vs = [.b s, .b d, .n n, .n r, .n q] := by
    simp only [snaclUnmarshal] at hf
    rcases vs with _ | ⟨v1, _ | ⟨v2, _ | ⟨v3, _ | ⟨v4, _ | ⟨v5, _ | ⟨v6, _⟩⟩⟩⟩⟩⟩ <;> simp [fitsAll] at hf
    cases v1 <;> cases v2 <;> cases v3 <;> cases v4 <;> cases v5 <;> simp [itemFits] at hf
    exact ⟨_, _, _, _, _, rfl⟩
  simp only [snaclUnmarshal, fitsAll, itemFits, Bool.and_true, Bool.and_eq_true, decide_eq_true_eq] at hf
  obtain ⟨hs, hd, hn, hr, hq⟩ := hf
  have hn' : n < 18446744073709551616 := by simpa using hn
  have hr' : r < 18446744073709551616 := by simpa using hr
  have hq' : q < 18446744073709551616 := by simpa using hq
  obtain ⟨a1, a2, a3⟩ := i64_range n hn'
  obtain ⟨b1, b2, b3⟩ := i64_range r hr'
  obtain ⟨c1, c2, c3⟩ := i64_range q hq'
  refine ⟨⟨s, d, i64 n, i64 r, i64 q⟩, ?_, ?_, ?_⟩
  · have hdc : decode snaclUnmarshal bs = .ok [.b s, .b d, .n n, .n r, .n q] := by
      unfold decode; rw [hv]; simp [snaclUnmarshal, h, Except.map]
    simp [unmarshal, hdc]
  · simp only [Params.wf, snaclKeySize, hs, hd, a1, a2, b1, b2, c1, c2, decide_true, Bool.and_self]
  · simp only [marshal, Params.vals, a3, b3, c3]
    rw [(encodeItems_congr (js := snaclUnmarshal.items) (by decide) _).1, he]

/-- the overflow case, concretely: N = 2^63 marshals, and unmarshals as −2^63 -/
theorem marshal_overflow_breaks :
    ∃ p bs, marshal p = some bs ∧ p.wf = false ∧ unmarshal bs ≠ .ok p :=
  ⟨⟨List.replicate 32 0, List.replicate 32 0, 9223372036854775808, 8, 1⟩, _, rfl, by decide, by decide⟩

end MW.KsCodecL
