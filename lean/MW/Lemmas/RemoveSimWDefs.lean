/-
  C08, reorganisations BELOW the floor between two removal steps — definitions.

  `MW.Lemmas.RemoveSim.Sub` asks the wallet-keyed buckets (unspent index, deposit records, balances, address records) of
  the ghost store `g` (the store as it would be had no removal step run) and of the real store `s` to be EQUAL.  When a
  block connected before the first removal step is disconnected, Rollback skips on the real store what the step deleted,
  and the entries keyed by the removed wallet `w` diverge (stale entries, deleted by the finishing step).
    `SubW`   = `Sub` with the entries keyed by `w` free, plus what a rollback below the floor needs:
               `debGone` (a debit goes only together with its credit) and `blocks` (what a removal step does to the
               block records: the transactions dropped from a record have no tx record left).
-/
import MW.Lemmas.RemoveSimRb
import MW.Lemmas.RemoveKeep
namespace MW.Lemmas.RemoveSimW
open MW MW.Model.Ledger MW.Model.Remove MW.Lemmas.Ledger MW.Lemmas.LedgerWFCred MW.Lemmas.RemoveSim MW.Lemmas.RemoveChar

/-- block record `r` of the real store at height `h` against the ghost's `rg`: the ghost's transactions filtered; a
    transaction that was dropped has no tx record (under the recorded block) in the real store `s` -/
def BlkRel (s : Store) (h : Nat) : Option (BlkId × List TxId) → Option (BlkId × List TxId) → Prop
  | none, r => r = none
  | some (bh, txs), r => ∃ p : TxId → Bool,
      (∀ id, p id = false → AMap.get s.txrecs (id, ⟨h, bh⟩) = none) ∧
      (r = some (bh, txs.filter p) ∨ (r = none ∧ ∀ id ∈ txs, p id = false))

/-- `s` is `g` minus some credits paying `addrs` (each with its debit), some tx records, the block records trimmed
    accordingly; the buckets keyed by wallet id agree OFF `w`; the sync table and the status map are identical -/
structure SubW (w : Wid) (addrs : List Addr) (g s : Store) : Prop where
  unspent : ∀ k : Wid × TxId × Nat, k.1 ≠ w → AMap.get s.unspent k = AMap.get g.unspent k
  game : ∀ k : GameKey, k.wallet ≠ w → AMap.get s.game k = AMap.get g.game k
  adr : ∀ k : Wid × Bool × Addr, k.1 ≠ w → AMap.get s.addrs k = AMap.get g.addrs k
  balance : ∀ w', w' ≠ w → AMap.get s.balance w' = AMap.get g.balance w'
  sync : s.sync = g.sync
  syncedTo : s.syncedTo = g.syncedTo
  status : s.status = g.status
  credits : ∀ k, AMap.get s.credits k = AMap.get g.credits k ∨
    (AMap.get s.credits k = none ∧ ∃ cr, AMap.get g.credits k = some cr ∧ addrs.contains cr.sh = true)
  debits : ∀ k, AMap.get s.debits k = AMap.get g.debits k ∨ AMap.get s.debits k = none
  debGone : ∀ dk d, AMap.get g.debits dk = some d → AMap.get s.debits dk = none → AMap.get s.credits d.2 = none
  txrecs : ∀ k, AMap.get s.txrecs k = AMap.get g.txrecs k ∨ AMap.get s.txrecs k = none
  blocks : ∀ h, BlkRel s h (AMap.get g.blocks h) (AMap.get s.blocks h)

/-- ghost-side consistency used by the removal steps: a spent credit has its debit, pointing back at it -/
def GhostDeb (g : Store) : Prop :=
  ∀ ck cr dk, AMap.get g.credits ck = some cr → spKey cr = some dk → ∃ amt, AMap.get g.debits dk = some (amt, ck)

/-- ghost-side consistency: a tx record lies under the block record of its height -/
def GhostBlk (g : Store) : Prop :=
  ∀ k loc, AMap.get g.txrecs k = some loc → ∃ txs, AMap.get g.blocks k.2.height = some (k.2.hash, txs)

theorem blkRel_refl (s : Store) (h : Nat) : BlkRel s h (AMap.get s.blocks h) (AMap.get s.blocks h) := by
  cases e : AMap.get s.blocks h with
  | none => rfl
  | some r =>
    obtain ⟨bh, txs⟩ := r
    exact ⟨fun _ => true, (fun _ h => by cases h), Or.inl (by rw [List.filter_eq_self.2 (fun _ _ => rfl)])⟩

theorem SubW.refl (w : Wid) (addrs : List Addr) (s : Store) : SubW w addrs s s :=
  ⟨fun _ _ => rfl, fun _ _ => rfl, fun _ _ => rfl, fun _ _ => rfl, rfl, rfl, rfl, fun _ => Or.inl rfl,
    fun _ => Or.inl rfl, (fun _ _ h1 h2 => by rw [h1] at h2; cases h2), fun _ => Or.inl rfl, blkRel_refl s⟩

end MW.Lemmas.RemoveSimW
