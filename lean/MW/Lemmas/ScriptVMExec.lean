/-
  C03 round 4, helper lemmas part 2: symbolic execution of MW.Model.ScriptVM on the wallet's own scripts
  (1-of-1 redeem script, signature push, the CHECKSEQUENCEVERIFY prelude of staking / binding outputs).
-/
import MW.Lemmas.ScriptVMParse
import MW.Lemmas.ScriptClassify
namespace MW.Lemmas.ScriptVMExec
open MW MW.Model.Script MW.Model.ScriptVM MW.Lemmas.ScriptVMParse

variable (P : Prims) (ctx : Ctx P)

/-! ### numbers -/

theorem popInt_one (s : Stack) : popInt ([1] :: s) = .ok (1, s) := by
  simp [popInt, pop, makeNum, Gen.Vm.defaultScriptNumLen, Model.Script.leNat, toI64, bind, Except.bind, pure, Except.pure]

theorem numBytes_one : numBytes 1 = [1] := by decide

theorem asBool_fromBool (b : Bool) : asBool (fromBool b) = b := by cases b <;> rfl

theorem leBytes8_last (v : Nat) : (Spec.Script.leBytes 8 v).getLast? = some (UInt8.ofNat (v / 72057594037927936 % 256)) := by
  simp [Spec.Script.leBytes, Nat.div_div_eq_div_mul]

theorem leNat_leBytes8 (v : Nat) (hv : v < 2 ^ 64) : Model.Script.leNat (Spec.Script.leBytes 8 v) = v := by
  rw [MW.Lemmas.ScriptClassify.leNat_eq, MW.Lemmas.ScriptBuild.leNat_leBytes]
  exact Nat.mod_eq_of_lt (by simpa using hv)

/-- an 8-byte little-endian number below 2^63 read back as a script number (limit 9 bytes) -/
theorem makeNum_leBytes8 (v : Nat) (hv : v < 2 ^ 63) : makeNum (Spec.Script.leBytes 8 v) 9 = .ok (v : Int) := by
  unfold makeNum
  have hlen : (Spec.Script.leBytes 8 v).length = 8 := MW.Lemmas.ScriptBuild.leBytes_length 8 v
  have htop : ¬ ((UInt8.ofNat (v / 72057594037927936 % 256)).toNat / 128 % 2 = 1) := by
    simp [UInt8.toNat_ofNat']
    have : v < 9223372036854775808 := by simpa using hv
    omega
  have htake : (Spec.Script.leBytes 8 v).take 8 = Spec.Script.leBytes 8 v := List.take_of_length_le (by omega)
  have hv64 : v < 2 ^ 64 := Nat.lt_trans hv (by decide)
  simp only [hlen, leBytes8_last, htop, htake, leNat_leBytes8 v hv64]
  have h1 : v % 2 ^ 64 = v := Nat.mod_eq_of_lt hv64
  simp [toI64, h1, hv]

/-! ### single opcodes on an executing branch (states written out field by field, so that the lemmas rewrite) -/

/-- a direct data push (OP_DATA_1 … OP_DATA_75) -/
theorem execOp_data (w : Bool) (p : Pop) (rest : List Pop) (ds as : Stack) (n : Nat) (sub : List Pop)
    (h1 : 1 ≤ p.op.toNat) (h2 : p.op.toNat ≤ 75) (hd : p.data.length ≤ 520) :
    execOp P ctx w p rest ⟨ds, as, [], n, sub⟩ = .ok ⟨p.data :: ds, as, [], n, sub⟩ := by
  have e1 : isDisabled p.op.toNat = false := by
    simp [isDisabled]; omega
  have e2 : alwaysIllegal p.op.toNat = false := by
    simp [alwaysIllegal]; omega
  have e3 : ¬ p.op.toNat > 96 := by omega
  have e4 : ¬ p.data.length > Gen.Vm.maxScriptElementSize := by simp [Gen.Vm.maxScriptElementSize]; omega
  have e5 : handlerOf p.op.toNat = .pushData := by
    unfold handlerOf
    have : p.op.toNat ≠ 0 := by omega
    have : p.op.toNat ≤ 78 := by omega
    simp [*]
  simp [execOp, e1, e2, e3, e4, St.branchExecuting, dispatch, e5, pure, Except.pure]

/-- OP_0 -/
theorem execOp_zero (w : Bool) (rest : List Pop) (ds as : Stack) (n : Nat) (sub : List Pop) :
    execOp P ctx w ⟨0, []⟩ rest ⟨ds, as, [], n, sub⟩ = .ok ⟨[] :: ds, as, [], n, sub⟩ := by
  simp [execOp, isDisabled, alwaysIllegal, Gen.Vm.maxScriptElementSize, St.branchExecuting, dispatch, handlerOf,
    pure, Except.pure]

/-- OP_1 -/
theorem execOp_one (w : Bool) (rest : List Pop) (ds as : Stack) (n : Nat) (sub : List Pop) :
    execOp P ctx w ⟨0x51, []⟩ rest ⟨ds, as, [], n, sub⟩ = .ok ⟨[1] :: ds, as, [], n, sub⟩ := by
  simp [execOp, isDisabled, alwaysIllegal, Gen.Vm.maxScriptElementSize, St.branchExecuting, dispatch, handlerOf,
    pure, Except.pure, pushNum, numBytes_one]

/-- OP_DROP -/
theorem execOp_drop (w : Bool) (rest : List Pop) (x : Bytes) (ds as : Stack) (n : Nat) (sub : List Pop) (hn : n < 201) :
    execOp P ctx w ⟨0x75, []⟩ rest ⟨x :: ds, as, [], n, sub⟩ = .ok ⟨ds, as, [], n + 1, sub⟩ := by
  have : ¬ 201 < n + 1 := by omega
  simp [execOp, isDisabled, alwaysIllegal, Gen.Vm.maxOpsPerScript, this, St.branchExecuting, dispatch, handlerOf,
    pure, Except.pure, bind, Except.bind, dropN, pop]

/-! ### 1-of-1 CHECKMULTISIG -/

/-- what the signature loop of OP_CHECKMULTISIG computes for one key and one signature -/
def sig1 (w : Bool) (script : List Pop) (pk full : Bytes) : R Bool :=
  if full.isEmpty then .ok false else
  let ht := (full.getLast?.getD 0).toNat
  let sig := full.dropLast
  match checkHashType ht with
  | .error e => .error e
  | .ok _ =>
    match checkSigEncoding sig with
    | .error e => .error e
    | .ok _ =>
      match P.parseSig sig with
      | none => .ok false
      | some s =>
        match checkPubKeyEncoding w pk with
        | .error e => .error e
        | .ok _ =>
          match P.parsePK pk with
          | none => .ok false
          | some k => .ok (P.verify k (ctx.sighash (unparse script) ht) s)

theorem multiSigLoop_1of1 (w : Bool) (script : List Pop) (pk full : Bytes) :
    multiSigLoop P ctx w script [pk] [{ raw := full }] = sig1 P ctx w script pk full := by
  unfold sig1
  by_cases he : full.isEmpty
  · simp [multiSigLoop, he]
  · simp only [multiSigLoop, he]
    simp only [List.length_cons, List.length_nil, Nat.lt_irrefl, if_false, Bool.not_false, if_true, bind, Except.bind,
      pure, Except.pure, Bool.false_eq_true]
    cases checkHashType (full.getLast?.getD 0).toNat with
    | error e => rfl
    | ok u =>
      cases checkSigEncoding full.dropLast with
      | error e => rfl
      | ok u2 =>
        simp only []
        cases hs : P.parseSig full.dropLast with
        | none => simp [multiSigLoop]
        | some s =>
          simp only []
          cases checkPubKeyEncoding w pk with
          | error e => rfl
          | ok u3 =>
            simp only []
            cases P.parsePK pk with
            | none => simp [multiSigLoop]
            | some k =>
              simp only []
              cases P.verify k (ctx.sighash (unparse script) (full.getLast?.getD 0).toNat) s <;> simp [multiSigLoop]

/-- OP_CHECKMULTISIG on the stack `1 <pk> 1 <sig>` (top first) -/
theorem opCheckMultiSig_1of1 (w : Bool) (pk full : Bytes) (s as : Stack) (n : Nat) (sub : List Pop) (hn : n + 1 ≤ 201) :
    opCheckMultiSig P ctx w ⟨[1] :: pk :: [1] :: full :: s, as, [], n, sub⟩ =
      (match sig1 P ctx w (if !w then removeOpcodeByData sub full else sub) pk full with
       | .error e => .error e
       | .ok b => if !b && !full.isEmpty then .error .nullFail
                  else .ok (b, ⟨s, as, [], n + 1, sub⟩)) := by
  have h201 : ¬ 201 < n + 1 := by omega
  simp only [opCheckMultiSig, popInt_one, bind, Except.bind, int32Of]
  simp only [Gen.Vm.maxPubKeysPerMultiSig, Gen.Vm.maxOpsPerScript]
  simp [popMany, pop, bind, Except.bind, pure, Except.pure, popInt_one, int32Of, h201, multiSigLoop_1of1]
  cases sig1 P ctx w (if w = false then removeOpcodeByData sub full else sub) pk full with
  | error e => rfl
  | ok b => cases b <;> simp

/-- OP_CHECKMULTISIG as an opcode -/
theorem execOp_cms_1of1 (w : Bool) (pk full : Bytes) (s as : Stack) (n : Nat) (sub rest : List Pop) (hn : n + 2 ≤ 201) :
    execOp P ctx w ⟨0xae, []⟩ rest ⟨[1] :: pk :: [1] :: full :: s, as, [], n, sub⟩ =
      (match sig1 P ctx w (if !w then removeOpcodeByData sub full else sub) pk full with
       | .error e => .error e
       | .ok b => if !b && !full.isEmpty then .error .nullFail
                  else .ok ⟨fromBool b :: s, as, [], n + 2, sub⟩) := by
  have h201 : ¬ 201 < n + 1 := by omega
  have h := opCheckMultiSig_1of1 P ctx w pk full s as (n + 1) sub (by omega)
  simp only [execOp, isDisabled, alwaysIllegal, Gen.Vm.maxOpsPerScript]
  simp [h201, St.branchExecuting, dispatch, handlerOf, bind, Except.bind, pure, Except.pure, h]
  cases sig1 P ctx w (if w = false then removeOpcodeByData sub full else sub) pk full with
  | error e => rfl
  | ok b => cases b <;> by_cases he : full = [] <;> simp [he]

/-- the whole redeem script `OP_1 <pk> OP_1 OP_CHECKMULTISIG` on a stack holding the signature -/
theorem runScript_redeem (pk full : Bytes) (hl : pk.length = 33) (n : Nat) (sub : List Pop) :
    runScript P ctx true (redeemOps pk) ⟨[full], [], [], n, sub⟩ =
      (match sig1 P ctx true (redeemOps pk) pk full with
       | .error e => .error e
       | .ok b => if !b && !full.isEmpty then .error .nullFail
                  else .ok ⟨[fromBool b], [], [], 2, redeemOps pk⟩) := by
  have hpk : (⟨0x21, pk⟩ : Pop).data.length ≤ 520 := by simp [hl]
  unfold runScript
  rw [show redeemOps pk = [⟨0x51, []⟩, ⟨0x21, pk⟩, ⟨0x51, []⟩, ⟨0xae, []⟩] from rfl]
  simp only [runOps]
  rw [execOp_one]
  simp only [List.length_cons, List.length_nil, Gen.Vm.maxStackSize]
  rw [execOp_data P ctx true ⟨0x21, pk⟩ _ _ _ _ _ (by show 1 ≤ (0x21 : UInt8).toNat; decide) (by show (0x21 : UInt8).toNat ≤ 75; decide) hpk]
  simp only [List.length_cons, List.length_nil]
  rw [execOp_one]
  simp only [List.length_cons, List.length_nil]
  rw [execOp_cms_1of1 P ctx true pk full [] [] 0 _ _ (by decide)]
  simp only [Bool.not_true, Bool.false_eq_true, if_false]
  cases sig1 P ctx true [⟨0x51, []⟩, ⟨0x21, pk⟩, ⟨0x51, []⟩, ⟨0xae, []⟩] pk full with
  | error e => rfl
  | ok b => cases b <;> by_cases he : full = [] <;> simp [he]

/-! ### the CHECKSEQUENCEVERIFY prelude -/

/-- what `<lock> OP_CHECKSEQUENCEVERIFY` checks of the input's sequence number -/
def csvCheck (lock : Nat) : R Unit :=
  if ctx.seq / Gen.Vm.sequenceLockTimeDisabled % 2 = 1 then .error .fmtSeqDisabled
  else verifyLockTime (seqMasked ctx.seq) Gen.Vm.sequenceLockTimeIsSeconds (seqMasked lock)

theorem execOp_csv (w : Bool) (lock : Nat) (hl : lock < 2 ^ 63) (rest : List Pop) (ds as : Stack) (n : Nat) (sub : List Pop)
    (hn : n < 201) :
    execOp P ctx w ⟨0xb2, []⟩ rest ⟨Spec.Script.leBytes 8 lock :: ds, as, [], n, sub⟩ =
      (match csvCheck P ctx lock with
       | .error e => .error e
       | .ok _ => .ok ⟨Spec.Script.leBytes 8 lock :: ds, as, [], n + 1, sub⟩) := by
  have h201 : ¬ 201 < n + 1 := by omega
  have hnd : ¬ (lock / Gen.Vm.sequenceLockTimeDisabled % 2 = 1) := by
    have : lock < 9223372036854775808 := by simpa using hl
    simp [Gen.Vm.sequenceLockTimeDisabled]; omega
  simp only [execOp, isDisabled, alwaysIllegal, Gen.Vm.maxOpsPerScript]
  simp [h201, St.branchExecuting, dispatch, handlerOf, opCSV, peek, makeNum_leBytes8 lock hl, bind, Except.bind, pure,
    Except.pure, hnd, csvCheck]
  by_cases hs : ctx.seq / Gen.Vm.sequenceLockTimeDisabled % 2 = 1
  · simp [hs]
  · simp [hs]
    cases verifyLockTime (seqMasked ctx.seq) Gen.Vm.sequenceLockTimeIsSeconds (seqMasked lock) <;> rfl

theorem runScript_csv (w : Bool) (lock : Nat) (hl : lock < 2 ^ 63) (n : Nat) (sub : List Pop) :
    runScript P ctx w (csvScript lock) ⟨[], [], [], n, sub⟩ =
      (match csvCheck P ctx lock with
       | .error e => .error e
       | .ok _ => .ok ⟨[], [], [], 2, csvScript lock⟩) := by
  have hlen : (Spec.Script.leBytes 8 lock).length = 8 := MW.Lemmas.ScriptBuild.leBytes_length 8 lock
  have hd : (⟨8, Spec.Script.leBytes 8 lock⟩ : Pop).data.length ≤ 520 := by simp [hlen]
  unfold runScript
  rw [show csvScript lock = [⟨8, Spec.Script.leBytes 8 lock⟩, ⟨0xb2, []⟩, ⟨0x75, []⟩] from by
    simp [csvScript, MW.Lemmas.ScriptBuild.leEnc_eq]]
  simp only [runOps]
  rw [execOp_data P ctx w ⟨8, Spec.Script.leBytes 8 lock⟩ _ _ _ _ _ (by show 1 ≤ (8 : UInt8).toNat; decide)
    (by show (8 : UInt8).toNat ≤ 75; decide) hd]
  simp only [List.length_cons, List.length_nil, Gen.Vm.maxStackSize]
  rw [execOp_csv P ctx w lock hl _ _ _ _ _ (by decide)]
  cases csvCheck P ctx lock with
  | error e => rfl
  | ok u =>
    simp only [List.length_cons, List.length_nil]
    rw [execOp_drop P ctx w _ _ _ _ _ _ (by decide)]
    simp

/-- the signature script: one direct push -/
theorem runScript_sigPush (w : Bool) (full : Bytes) (h1 : 1 ≤ full.length) (h2 : full.length ≤ 75) (n : Nat) (sub : List Pop) :
    runScript P ctx w [⟨UInt8.ofNat full.length, full⟩] ⟨[], [], [], n, sub⟩ =
      .ok ⟨[full], [], [], 0, [⟨UInt8.ofNat full.length, full⟩]⟩ := by
  have hn : (UInt8.ofNat full.length).toNat = full.length := by
    simp [UInt8.toNat_ofNat']; omega
  unfold runScript
  simp only [runOps]
  rw [execOp_data P ctx w ⟨UInt8.ofNat full.length, full⟩ _ _ _ _ _ (by show 1 ≤ (UInt8.ofNat full.length).toNat; omega)
    (by show (UInt8.ofNat full.length).toNat ≤ 75; omega) (by show full.length ≤ 520; omega)]
  simp [Gen.Vm.maxStackSize]

end MW.Lemmas.ScriptVMExec
