/-
  Lemmas for the byte-level keystore codecs, part 5: for TODAY's generated tables the table-driven model equals the
  hand-written format spec (MW.Spec.KsCodec), on every input.
-/
import MW.Lemmas.KsCodecJson
import MW.Spec.KsCodec
namespace MW.KsCodecL
open MW MW.Model.KsCodec
open MW.Gen.KsCodec (snaclMarshal snaclUnmarshal uint32ToBytes)

theorem marshal_eq_spec (p : Params) (hs : p.salt.length = 32) (hd : p.digest.length = 32) :
    marshal p = some (Spec.KsCodec.marshal p) := by
  simp [marshal, snaclMarshal, Params.vals, encodeItems, encodeItem, hs, hd, Spec.KsCodec.marshal]

theorem unmarshal_eq_spec (bs : Bytes) : Spec.KsCodec.ofExcept (unmarshal bs) = Spec.KsCodec.unmarshal bs := by
  by_cases h : bs.length = 88
  · simp [unmarshal, decode, snaclUnmarshal, decodeItems, h, Except.map, Spec.KsCodec.unmarshal,
      Spec.KsCodec.ofExcept, List.drop_drop]
  · simp [unmarshal_wrong_length bs h, Spec.KsCodec.unmarshal, h, Spec.KsCodec.ofExcept]

theorem u32Bytes_eq_spec (n : Nat) : u32Bytes n = Spec.KsCodec.u32 n := u32Bytes_eq n

theorem u32Of_eq_spec (bs : Bytes) : Spec.KsCodec.ofExcept (u32Of bs) = Spec.KsCodec.readU32 bs := by
  by_cases h : bs.length < 4
  · simp [u32Of_short bs h, Spec.KsCodec.readU32, h, Spec.KsCodec.ofExcept]
  · simp [u32Of_long bs (by omega), Spec.KsCodec.readU32, h, Spec.KsCodec.ofExcept]

theorem serializeAccountRow_eq_spec (t : Nat) (raw : Bytes) : serializeAccountRow t raw = Spec.KsCodec.accountRow t raw :=
  serializeAccountRow_eq t raw

theorem deserializeAccountRow_eq_spec (bs : Bytes) :
    Spec.KsCodec.ofExcept (deserializeAccountRow bs) = Spec.KsCodec.readAccountRow bs := by
  cases bs with
  | nil => simp [deserializeAccountRow, decode, MW.Gen.KsCodec.deserializeAccountRow, Spec.KsCodec.readAccountRow,
      Spec.KsCodec.ofExcept]
  | cons t r =>
    by_cases h5 : r.length + 1 < 5
    · have : (t :: r).length < 5 := by simpa using h5
      simp [deserializeAccountRow_short _ this, Spec.KsCodec.readAccountRow, h5, Spec.KsCodec.ofExcept]
    · have h4 : ¬ r.length < 4 := by omega
      by_cases hn : r.length - 4 < ofLE (r.take 4)
      · simp [deserializeAccountRow, decode, MW.Gen.KsCodec.deserializeAccountRow, decodeItems, h5, h4, hn, Except.map,
          Spec.KsCodec.readAccountRow, Spec.KsCodec.ofExcept]
      · simp [deserializeAccountRow, decode, MW.Gen.KsCodec.deserializeAccountRow, decodeItems, h5, h4, hn, Except.map,
          Spec.KsCodec.readAccountRow, Spec.KsCodec.ofExcept]

theorem serializeHDAccountKey_eq_spec (pub priv : Bytes) (h : 8 + pub.length + priv.length < 4294967296) :
    serializeHDAccountKey pub priv = some (Spec.KsCodec.hdRecord pub priv) := by
  obtain ⟨raw, h1, _, h3⟩ := deserialize_serializeHDAccountKey pub priv h
  rw [h1, h3]; rfl

theorem deserializeHDAccountKey_eq_spec (bs : Bytes) :
    Spec.KsCodec.ofExcept (deserializeHDAccountKey bs) = Spec.KsCodec.readHdRecord bs := by
  by_cases h8 : bs.length < 8
  · simp [deserializeHDAccountKey_short _ h8, Spec.KsCodec.readHdRecord, h8, Spec.KsCodec.ofExcept]
  · have h4 : ¬ bs.length < 4 := by omega
    by_cases c1 : bs.length - 4 < ofLE (bs.take 4)
    · simp [deserializeHDAccountKey, decode, MW.Gen.KsCodec.deserializeHDAccountKey, decodeItems,
        Spec.KsCodec.readHdRecord, h8, h4, c1, Except.map, Spec.KsCodec.ofExcept]
    · by_cases c2 : bs.length - (4 + ofLE (bs.take 4)) < 4
      · simp [deserializeHDAccountKey, decode, MW.Gen.KsCodec.deserializeHDAccountKey, decodeItems,
          Spec.KsCodec.readHdRecord, h8, h4, c1, c2, Except.map, Spec.KsCodec.ofExcept]
      · by_cases c3 : bs.length - (4 + ofLE (bs.take 4) + 4) < ofLE (List.take 4 (List.drop (4 + ofLE (bs.take 4)) bs))
        · simp [deserializeHDAccountKey, decode, MW.Gen.KsCodec.deserializeHDAccountKey, decodeItems,
            Spec.KsCodec.readHdRecord, h8, h4, c1, c2, c3, Except.map, Spec.KsCodec.ofExcept]
        · simp [deserializeHDAccountKey, decode, MW.Gen.KsCodec.deserializeHDAccountKey, decodeItems,
            Spec.KsCodec.readHdRecord, h8, h4, c1, c2, c3, Except.map, Spec.KsCodec.ofExcept]

theorem pubKeyKey_eq_spec (b i : Nat) : pubKeyKey b i = Spec.KsCodec.indexKey b i := pubKeyKey_eq b i

end MW.KsCodecL
