/-
  C09 history-level refinement, the pending-credit and unmined-deposit buckets, part 4: THE HISTORIES.
  `HInvC` = `HInv` + the credit relation `CredRel`.  Inside the domain `HOKc` every event preserves it:
    recv        proved (`recv_cred`); the former hypothesis `RecvDom.residue` is now a CONSEQUENCE of the relation
                (`RecvDomC` = `RecvDom` without it),
    connect     proved (`connect_cred`: filterBlock is a credit frame),
    node / vol  nothing changes,
    disconnect  PARTIAL: the purge at the end of Rollback is a credit frame (`purgeFold_cfr`), but that the per-record
                loop of Rollback re-creates the records of the un-confirmed transactions from the mined credit table
                (amount / class / script hash of C01's books) is NOT proved: `HOKc` asks for the relation after each
                disconnect step as an explicit hypothesis.
  (Round 6: the disconnect step IS proved — MW/Lemmas/PendHistCredRollback.lean, `disconnect_cred`; `HOKf` there is the
   domain without that hypothesis and `hinvc_run_full` the history theorem.  `HOKc` / `hinvc_run` are kept: every history
   inside `HOKf` is inside `HOKc`, `hokc_of_full`.)
-/
import MW.Lemmas.PendHistCredConnect
namespace MW.Lemmas.PendHist.Cred
open MW MW.Model.Ledger MW.Spec.Pending MW.Lemmas.LedgerPending MW.Lemmas.Ledger

/-- DOMAIN of a receive step WITHOUT the residue clause -/
structure RecvDomC (rank : TxId → Nat) (E : HEnv) (w : HW) (t : Tx) : Prop where
  valid : ChainValid E.own w.sp.chain
  known : E.src t.id = some t
  srcN : ∀ i ∈ t.ins, ∀ p, w.node.fetchTx i.tx = some p → E.src i.tx = some p
  idx : ∀ i ∈ t.ins, ∀ p, E.src i.tx = some p → i.idx < p.outs.length
  rank : ∀ i ∈ t.ins, rank i.tx < rank t.id
  nobb : filterTxRel (E.ctx w.node) w.s t false [] (readyWallets w.s E.wallets) ≠ .error .bothBinding
  seen : w.v.mempool.contains t.id = true → hasId w.sp.pend t.id = true ∨ onChain w.sp.chain t.id = true
  fresh : w.v.mempool.contains t.id = false → hasId w.sp.pend t.id = false → onChain w.sp.chain t.id = false
  noconf : conflictedBy w.sp.chain t = false

/-- the residue clause is a theorem -/
theorem RecvDomC.full {rank : TxId → Nat} {E : HEnv} {w : HW} {t : Tx} (D : RecvDomC rank E w t)
    (hc : CredRel E.env w.s w.sp.pend) : RecvDom rank E w t :=
  ⟨D.valid, D.known, D.srcN, D.idx, D.rank, D.nobb, D.seen, D.fresh, D.noconf,
    fun h _ j => (hc.residue t.id h).1 j⟩

/-- DOMAIN of an event for the credit relation -/
def HOKc (rank : TxId → Nat) (E : HEnv) (w : HW) : HEv → Prop
  | .recv t => RecvDomC rank E w t
  | .disconnect => HOK rank E w .disconnect ∧
      CredRel E.env (stepH E w .disconnect).s (stepH E w .disconnect).sp.pend    -- a theorem since Round 6: see the header
  | ev => HOK rank E w ev

structure HInvC (rank : TxId → Nat) (E : HEnv) (w : HW) : Prop where
  inv : HInv rank E w
  cred : CredRel E.env w.s w.sp.pend

theorem hinvc_step {rank : TxId → Nat} {E : HEnv} {w : HW} (H : HInvC rank E w) (ev : HEv) (D : HOKc rank E w ev) :
    HInvC rank E (stepH E w ev) := by
  cases ev with
  | node n => exact ⟨hinv_step H.inv (.node n) trivial, H.cred⟩
  | vol v => exact ⟨hinv_step H.inv (.vol v) trivial, H.cred⟩
  | recv t =>
    have D' : RecvDom rank E w t := RecvDomC.full D H.cred
    have H' := hinv_recv H.inv t D'
    refine ⟨H', ?_⟩
    have hid : ∀ t0, AMap.get w.s.pending t.id = some t0 → t0 = t := by
      intro t0 h0
      obtain ⟨h1, h2⟩ := (H.inv.rel.ids _ _).1 h0
      have := H.inv.srcP t0 h1
      rw [h2, D.known] at this
      cases this; rfl
    exact recv_cred rank E.env (E.ctx w.node) w.s w.v w.sp.chain w.sp.pend t H.inv.rel H.cred rfl H.inv.ar hid H'.rel
  | connect b =>
    have H' := hinv_connect H.inv b D
    refine ⟨H', ?_⟩
    obtain ⟨⟨rest, hnode⟩, hvalid, hheight, hok, hsrcB⟩ := D
    cases hf : filterBlock (E.ctx w.node) w.s (readyWallets w.s E.wallets) b with
    | error e =>
      have : stepH E w (.connect b) = w := by simp only [stepH, hf]
      rw [this]; exact H.cred
    | ok r =>
      obtain ⟨s', conf⟩ := r
      have hst : stepH E w (.connect b) =
          { w with s := s', sp := Spec.Pending.step w.sp (.moved E.env (w.sp.chain ++ [b])) } := by
        simp only [stepH, hf]
      have hvb : ChainValid E.own (w.sp.chain ++ [b]) := by
        have : ChainValid E.own ((w.sp.chain ++ [b]) ++ rest) := by
          rw [List.append_assoc, List.singleton_append, ← hnode]; exact hvalid
        exact chainValid_prefix this
      have hnorec := inv_norec (b := b) H.inv.inv (show ChainValid (E.ctx w.node).own (w.sp.chain ++ [b]) from hvb)
      have hrel' := H'.rel
      rw [hst] at hrel' ⊢
      exact connect_cred rank E.env (E.ctx w.node) w.s s' w.sp.chain b w.sp.pend (readyWallets w.s E.wallets) conf hf
        H.inv.ne rfl H.inv.ar hnorec H.inv.rel H.cred hok hrel'
  | disconnect => exact ⟨hinv_disconnect H.inv D.1, D.2⟩

theorem hinvc_run {rank : TxId → Nat} {E : HEnv} : ∀ (evs : List HEv) (w : HW), HInvC rank E w →
    (∀ x ∈ worldsH E w evs, HOKc rank E x.1 x.2) → HInvC rank E (runH E w evs) := by
  intro evs
  induction evs with
  | nil => intro w H _; exact H
  | cons ev evs ih =>
    intro w H hD
    have h1 := hinvc_step H ev (hD (w, ev) (by simp [worldsH]))
    exact ih _ h1 (fun x hx => hD x (by simp [worldsH, hx]))

-- ------------------------------------------------------------------ the observable forms

theorem mem_pendingCredits (e : Spec.Pending.Env) (P : List Tx) (id : TxId) (j amt : Nat) :
    (id, j, amt) ∈ pendingCredits e P ↔ ∃ t ∈ P, t.id = id ∧ ∃ o, t.outs[j]? = some o ∧ ownedOut e o = true ∧ o.amt = amt := by
  unfold pendingCredits
  simp only [List.mem_flatMap, List.mem_filterMap, List.mem_zipIdx_iff_getElem?, Prod.exists]
  constructor
  · rintro ⟨t, ht, o, i, hoi, hif⟩
    split at hif
    · rename_i hown
      simp only [Option.some.injEq, Prod.mk.injEq] at hif
      obtain ⟨h1, h2, h3⟩ := hif
      subst h2
      exact ⟨t, ht, h1, o, hoi, hown, h3⟩
    · cases hif
  · rintro ⟨t, ht, h1, o, ho, hown, h3⟩
    exact ⟨t, ht, o, j, ho, by simp [hown, h1, h3]⟩

/-- the raw dump `pcred` (transaction, index, amount) of the model IS `pendingCredits` of the specification -/
theorem CredRel.pcred {e : Spec.Pending.Env} {s : Store} {P : List Tx} (h : CredRel e s P) (hnd : (P.map (·.id)).Nodup)
    (id : TxId) (j amt : Nat) :
    (∃ cr, AMap.get s.pendCred (id, j) = some cr ∧ cr.amt = amt) ↔ (id, j, amt) ∈ pendingCredits e P := by
  rw [mem_pendingCredits]
  constructor
  · rintro ⟨cr, hg, ha⟩
    obtain ⟨t, ht, hid, o, ho, hown, hc⟩ := h.csound id j cr hg
    exact ⟨t, ht, hid, o, ho, hown, by rw [← hc.1, ha]⟩
  · rintro ⟨t, ht, hid, o, ho, hown, ha⟩
    have := h.ccomplete t ht j o ho hown
    cases hg : AMap.get s.pendCred (t.id, j) with
    | none => rw [hg] at this; cases this
    | some cr =>
      obtain ⟨t', ht', hid', o', ho', _, hc'⟩ := h.csound t.id j cr hg
      have : t' = t := eq_of_id hnd ht' ht hid'
      subst this
      rw [ho] at ho'; cases ho'
      exact ⟨cr, by rw [← hid]; exact hg, by rw [hc'.1, ha]⟩

/-- "the coins it creates are not counted as confirmed": no output of a spec-pending transaction is in the unspent
    index (hence in no balance, no coin listing) -/
theorem pending_not_unspent {rank : TxId → Nat} {E : HEnv} {w : HW} (H : HInv rank E w)
    (hV : ChainValid E.own w.sp.chain) (t : Tx) (ht : t ∈ w.sp.pend) (wl : Wid) (j : Nat) :
    AMap.get w.s.unspent (wl, t.id, j) = none := by
  cases hg : AMap.get w.s.unspent (wl, t.id, j) with
  | none => rfl
  | some x =>
    have := inv_unspent_onChain H.inv (show ChainValid (E.ctx w.node).own w.sp.chain from hV) wl t.id j (by rw [hg]; rfl)
    rw [(H.cons t ht).1] at this; cases this

/-- "when it confirms it becomes an ordinary ledger entry exactly once": after a successful connect of a block that
    contains the spec-pending transaction `t`, `t` is in neither pending set, none of its records is left in the
    pending-credit and unmined-deposit buckets, and each of its owned outputs has its (one: the key is the
    outpoint with the block) mined credit under that block -/
theorem confirm_once_hist {rank : TxId → Nat} {E : HEnv} {w : HW} (H : HInvC rank E w) (b : Block)
    (D : HOK rank E w (.connect b)) (r : Store × List TxId)
    (hf : filterBlock (E.ctx w.node) w.s (readyWallets w.s E.wallets) b = .ok r)
    (t : Tx) (_ht : t ∈ w.sp.pend) (htb : t ∈ b.txs) :
    t ∉ (stepH E w (.connect b)).sp.pend ∧
    AMap.get (stepH E w (.connect b)).s.pending t.id = none ∧
    (∀ j, AMap.get (stepH E w (.connect b)).s.pendCred (t.id, j) = none) ∧
    (∀ wl bb j, AMap.get (stepH E w (.connect b)).s.pendGame (wl, bb, t.id, j) = none) ∧
    (∀ j o, t.outs[j]? = some o → ownedOut E.env o = true →
      (AMap.get (stepH E w (.connect b)).s.credits ⟨t.id, ⟨b.height, b.id⟩, j⟩).isSome = true) := by
  have HC := hinvc_step H (.connect b) D
  obtain ⟨⟨rest, hnode⟩, hvalid, _, _, _⟩ := D
  have hvb : ChainValid E.own (w.sp.chain ++ [b]) := by
    have : ChainValid E.own ((w.sp.chain ++ [b]) ++ rest) := by
      rw [List.append_assoc, List.singleton_append, ← hnode]; exact hvalid
    exact chainValid_prefix this
  have hst : stepH E w (.connect b) =
      { w with s := r.1, sp := Spec.Pending.step w.sp (.moved E.env (w.sp.chain ++ [b])) } := by
    simp only [stepH, hf]
  have hpend : (stepH E w (.connect b)).sp.pend = settle (w.sp.chain ++ [b]) [] w.sp.pend := by
    rw [hst]; exact onChainMoved_connect E.env w.sp.chain b w.sp.pend
  have hchain : (stepH E w (.connect b)).sp.chain = w.sp.chain ++ [b] := by rw [hst]; rfl
  have hon : onChain (w.sp.chain ++ [b]) t.id = true :=
    (onChain_iff _ _).2 ⟨b, List.mem_append_right _ List.mem_cons_self, t, htb, rfl⟩
  have hnot : ∀ t', t' ∈ (stepH E w (.connect b)).sp.pend → t'.id ≠ t.id := by
    intro t' ht' hid
    rw [hpend] at ht'
    have ha := alive0_of_mem_settle ht'
    unfold alive0 at ha
    rw [hid, hon] at ha
    simp at ha
  have hhas : hasId (stepH E w (.connect b)).sp.pend t.id = false := (hasId_false_iff _ _).2 hnot
  refine ⟨fun hin => hnot t hin rfl, ?_, (HC.cred.residue t.id hhas).1, (HC.cred.residue t.id hhas).2, ?_⟩
  · have := HC.inv.rel.hasId t.id
    rw [hhas] at this
    cases hg : AMap.get (stepH E w (.connect b)).s.pending t.id with
    | none => rfl
    | some x => rw [hg] at this; cases this
  · intro j o ho hown
    have hI := HC.inv.inv
    rw [hchain] at hI
    rw [ownedOut_eq] at hown
    exact inv_cb_credits hI (show ChainValid (E.ctx (stepH E w (.connect b)).node).own (w.sp.chain ++ [b]) from hvb)
      t htb j o ho hown

end MW.Lemmas.PendHist.Cred
