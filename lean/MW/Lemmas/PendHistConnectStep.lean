/-
  C09 history-level refinement, model side, part 4: THE CONNECT STEP — `filterBlock` on the next block refines
  `Spec.Pending.onChainMoved c (c ++ [b])` (trace of filterBlock: PendHistTrace; set-level argument: PendHistConnect).
-/
import MW.Lemmas.PendHistTrace
import MW.Lemmas.PendHistConnect
namespace MW.Lemmas.PendHist
open MW MW.Model.Ledger MW.Spec.Pending MW.Lemmas.LedgerPending

theorem mem_unrelatedTxs (txs : List Tx) (recs : List TxRec) (t : Tx) :
    t ∈ unrelatedTxs txs recs ↔ t ∈ txs ∧ t.cb = false ∧ ∀ tr ∈ recs, tr.tx.id ≠ t.id := by
  unfold unrelatedTxs
  simp only [List.mem_filter, Bool.and_eq_true, Bool.not_eq_true', List.any_eq_false, decide_eq_true_eq]

/-- THE CONNECT STEP.  Store-level hypotheses (both follow from the mined-side invariant of C01, see
    PendHistBridge): the block has no transaction record yet (`hnorec`); the relevance records cover every
    transaction of the block that is pending (`hcover`: a pending transaction is relevant). -/
theorem connect_step (rank : TxId → Nat) (e : Env) (ctx : Ctx) (s s' : Store) (c : List Block) (b : Block)
    (P : List Tx) (ready : List Wid) (conf : List TxId)
    (h : filterBlock ctx s ready b = .ok (s', conf)) (hne : ready.isEmpty = false)
    (hnorec : ∀ u ∈ b.txs, AMap.get s.txrecs (u.id, ⟨b.height, b.id⟩) = none)
    (hcover : ∀ recs, filterTxs ctx s ready b.id b.txs [] 0 [] = .ok recs →
      ∀ u ∈ b.txs, hasId P u.id = true → ∃ tr ∈ recs, tr.tx = u)
    (hrel : PendRel rank s P) (hcons : Consistent c P) (hidx : IdxOK P) (hnocb : ∀ t ∈ P, t.cb = false)
    (hok : ConnOK c b P) :
    PendRel rank s' (onChainMoved e c (c ++ [b]) P) := by
  obtain ⟨recs, s1, hf, hsl, hreach, hp1, hp2⟩ := filterBlock_trace ctx s s' ready b conf h hne hnorec hok.bnd
  have hrecb : ∀ tr ∈ recs, tr.tx ∈ b.txs := fun tr htr => hsl.subset (List.mem_map.2 ⟨tr, htr, rfl⟩)
  have hK1 := KInv.reach rank ctx.own hreach (KInv.init hrel.wf) (by
    intro tr htr t ht
    obtain ⟨h1, h2⟩ := (hrel.ids _ _).1 ht
    exact (hok.ident tr.tx (hrecb tr htr) t h1 h2.symm).symm)
  have hK2 := KInv.unrelated rank ctx.own (unrelatedTxs b.txs recs) hK1 (by
    intro t ht
    obtain ⟨h1, _, h3⟩ := (mem_unrelatedTxs _ _ _).1 ht
    cases hg : AMap.get s.pending t.id with
    | none => rfl
    | some x =>
      exfalso
      have hh : hasId P t.id = true := by rw [hrel.hasId, hg]; rfl
      obtain ⟨tr, htr, heq⟩ := hcover recs hf t h1 hh
      exact h3 tr htr (by rw [heq]))
  have hK3 := hK2.silent hp1 hp2
  rw [onChainMoved_connect]
  refine hK3.final hrel hcons hidx hnocb hok ?_ ?_
  · intro u hu
    simp only [List.nil_append, List.mem_append, List.mem_map] at hu
    rcases hu with ⟨tr, htr, rfl⟩ | hu
    · exact hrecb tr htr
    · exact ((mem_unrelatedTxs _ _ _).1 hu).1
  · intro u hu hcb
    simp only [List.nil_append, List.mem_append, List.mem_map]
    by_cases hex : ∃ tr ∈ recs, tr.tx.id = u.id
    · obtain ⟨tr, htr, hid⟩ := hex
      exact Or.inl ⟨tr, htr, eq_of_id hok.bnd (hrecb tr htr) hu hid⟩
    · exact Or.inr ((mem_unrelatedTxs _ _ _).2 ⟨hu, hcb, fun tr htr hid => hex ⟨tr, htr, hid⟩⟩)

end MW.Lemmas.PendHist
