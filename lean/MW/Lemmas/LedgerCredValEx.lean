/-
  Non-vacuity for MW.Lemmas.LedgerCredVal: a concrete valid chain whose books hold a SPENT credit with the value the
  lemma predicts.
-/
import MW.Lemmas.LedgerCredVal
import MW.Lemmas.LedgerD2Ex
namespace MW.Lemmas.Ledger.CredVal
open MW MW.Model.Ledger MW.Spec.Chain MW.Spec.Books MW.Lemmas.Ledger

def exC1 : Tx := ⟨"C1", true, [], [⟨"A1", 500, .std⟩]⟩
def exC2 : Tx := ⟨"C2", true, [], [⟨"X1", 100, .std⟩]⟩
def exT1 : Tx := ⟨"T1", false, [⟨"C1", 0, 0⟩], [⟨"A1", 10, .std⟩, ⟨"X1", 490, .std⟩]⟩
def exChain : List Block := [⟨"G", "", 0, []⟩, ⟨"B1", "G", 1, [exC1]⟩, ⟨"B2", "B1", 2, [exC2, exT1]⟩]

theorem exChain_ok : ChainValid d2Own exChain ∧
    (bookOf { cbMaturity := 1 } d2Own exChain).credits ⟨"C1", ⟨1, "B1"⟩, 0⟩ =
      some { minedCreditOf { cbMaturity := 1 } true ⟨0, ⟨"A1", 500, .std⟩, "W1", false⟩ with
        spent := true, spentBy := some ⟨"T1", ⟨2, "B2"⟩, 0⟩ } := by decide

/-- and the un-spent one: output 0 of T1 -/
theorem exChain_unspent :
    (bookOf { cbMaturity := 1 } d2Own exChain).credits ⟨"T1", ⟨2, "B2"⟩, 0⟩ =
      some (minedCreditOf { cbMaturity := 1 } false ⟨0, ⟨"A1", 10, .std⟩, "W1", false⟩) := by decide

end MW.Lemmas.Ledger.CredVal
