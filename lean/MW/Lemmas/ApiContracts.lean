/-
  C19, the CONTRACTS of code outside the anchored files (`call f outs ens` nodes of MW.Model.Api).

  1. `callsOf` / `invokesOf` list the call nodes / invoked table positions of a skeleton; `fault_inv` inverts
     `run` for EVERY program table, oracle and budget: a run that ends in `Fault.contract g` passed a call node
     of `g` (in the statement or in a body of the table) in a state where the oracle's answer broke that
     node's contract; a run that ends in `Fault.unknownFn f` invoked a position the table does not define.
  2. `Holds O c`: the oracle meets the contract of call node `c` in every state. `no_contract_fault`: if the
     oracle meets every contract of callee `g` then no run ends in `Fault.contract g`.
  3. `progCalls`: the call nodes of MW.Model.Api.prog (all bodies); `prog_calls_sub`: every call node of a
     defined position is in that list.
  Core Lean only (no Mathlib).
-/
import MW.Model.Api
namespace MW.Lemmas.ApiContracts
open MW.Model.Api

abbrev CallNode := String × List Var × List Clause

/-- the call nodes of a skeleton -/
def callsOf : Stmt → List CallNode
  | .seq a b => callsOf a ++ callsOf b
  | .call f o e => [(f, o, e)]
  | .ite _ t e => callsOf t ++ callsOf e
  | .loop _ _ _ b => callsOf b
  | .iter _ _ _ b => callsOf b
  | .scope b => callsOf b
  | _ => []

/-- the table positions a skeleton invokes -/
def invokesOf : Stmt → List Nat
  | .seq a b => invokesOf a ++ invokesOf b
  | .invoke f => [f]
  | .ite _ t e => invokesOf t ++ invokesOf e
  | .loop _ _ _ b => invokesOf b
  | .iter _ _ _ b => invokesOf b
  | .scope b => invokesOf b
  | _ => []

/-- the answer of the oracle at `σ` meets the contract of the call node -/
def HoldsAt (O : Oracle) (c : CallNode) (σ : State) : Prop :=
  c.2.2.all (·.eval (setMany σ c.2.1 (O c.1 σ))) = true

/-- the oracle meets the contract of the call node in every state -/
def Holds (O : Oracle) (c : CallNode) : Prop := ∀ σ, HoldsAt O c σ

/-- `c` occurs in the statement or in a body of the table -/
def Occurs (P : Prog) (s : Stmt) (c : CallNode) : Prop :=
  c ∈ callsOf s ∨ ∃ f body, P f = some body ∧ c ∈ callsOf body

/-- position `f` is invoked by the statement or by a body of the table -/
def Invoked (P : Prog) (s : Stmt) (f : Nat) : Prop :=
  f ∈ invokesOf s ∨ ∃ g body, P g = some body ∧ f ∈ invokesOf body

/-- what a fault other than a panic / the budget says about the run -/
def FaultWhy (P : Prog) (O : Oracle) (s : Stmt) : Fault → Prop
  | .contract g => ∃ c, Occurs P s c ∧ c.1 = g ∧ ∃ τ, ¬ HoldsAt O c τ
  | .unknownFn f => Invoked P s f ∧ P f = none
  | _ => True

theorem FaultWhy.mono {P : Prog} {O : Oracle} {s t : Stmt} (hc : ∀ c, c ∈ callsOf s → c ∈ callsOf t)
    (hi : ∀ f, f ∈ invokesOf s → f ∈ invokesOf t) {e : Fault} (h : FaultWhy P O s e) : FaultWhy P O t e := by
  cases e with
  | contract g =>
    obtain ⟨c, hoc, hg, hτ⟩ := h
    exact ⟨c, hoc.elim (fun h => Or.inl (hc c h)) Or.inr, hg, hτ⟩
  | unknownFn f => exact ⟨h.1.elim (fun h => Or.inl (hi f h)) Or.inr, h.2⟩
  | panic k t => trivial
  | fuel => trivial

/-- a fault inside a body of the table is a fault of any statement run over that table -/
theorem FaultWhy.ofBody {P : Prog} {O : Oracle} {s body : Stmt} {f : Nat} (hf : P f = some body) {e : Fault}
    (h : FaultWhy P O body e) : FaultWhy P O s e := by
  cases e with
  | contract g =>
    obtain ⟨c, hoc, hg, hτ⟩ := h
    exact ⟨c, Or.inr (hoc.elim (fun h => ⟨f, body, hf, h⟩) id), hg, hτ⟩
  | unknownFn g => exact ⟨Or.inr (h.1.elim (fun h => ⟨f, body, hf, h⟩) id), h.2⟩
  | panic k t => trivial
  | fuel => trivial

/-- INVERSION of `run` for faults (every table, oracle, budget, statement, state) -/
theorem fault_inv (P : Prog) (O : Oracle) : ∀ (n : Nat) (s : Stmt) (σ : State) (e : Fault),
    run P O n s σ = .error e → FaultWhy P O s e := by
  intro n
  induction n with
  | zero => intro s σ e h; simp only [run, Except.error.injEq] at h; subst h; trivial
  | succ n ih =>
    intro s σ e h
    cases s with
    | skip => simp [run] at h
    | ret => simp [run] at h
    | set x a => simp [run] at h
    | site k t req =>
      cases req with
      | none => simp [run] at h
      | some a =>
        simp only [run] at h
        split at h
        · simp at h
        · simp only [Except.error.injEq] at h; subst h; trivial
    | call f outs ens =>
      simp only [run] at h
      split at h
      · simp at h
      · rename_i hc
        simp only [Except.error.injEq] at h; subst h
        exact ⟨(f, outs, ens), Or.inl (by simp [callsOf]), rfl, σ, hc⟩
    | seq a b =>
      simp only [run] at h
      split at h
      · exact (ih b _ e h).mono (fun c hc => by simp [callsOf, hc]) (fun f hf => by simp [invokesOf, hf])
      · exact (ih a σ e h).mono (fun c hc => by simp [callsOf, hc]) (fun f hf => by simp [invokesOf, hf])
    | ite c t el =>
      simp only [run] at h
      split at h
      · exact (ih t σ e h).mono (fun c hc => by simp [callsOf, hc]) (fun f hf => by simp [invokesOf, hf])
      · exact (ih el σ e h).mono (fun c hc => by simp [callsOf, hc]) (fun f hf => by simp [invokesOf, hf])
    | loop i cnt inv body =>
      simp only [run] at h
      exact (ih _ σ e h).mono (fun c hc => by simpa [callsOf] using hc) (fun f hf => by simpa [invokesOf] using hf)
    | iter i cnt k body =>
      simp only [run] at h
      split at h
      · split at h
        · exact (ih _ _ e h).mono (fun c hc => by simpa [callsOf] using hc) (fun f hf => by simpa [invokesOf] using hf)
        · exact (ih body _ e h).mono (fun c hc => by simpa [callsOf] using hc) (fun f hf => by simpa [invokesOf] using hf)
      · simp at h
    | invoke f =>
      simp only [run] at h
      split at h
      · rename_i hn
        simp only [Except.error.injEq] at h; subst h
        exact ⟨Or.inl (by simp [invokesOf]), hn⟩
      · rename_i body hb
        split at h
        · simp at h
        · exact FaultWhy.ofBody hb (ih body σ e h)
    | scope body =>
      simp only [run] at h
      split at h
      · simp at h
      · exact (ih body σ e h).mono (fun c hc => by simpa [callsOf] using hc) (fun f hf => by simpa [invokesOf] using hf)

/-- if the oracle meets every contract written for callee `g` (in the statement and in every body of the
    table) then no run ends in `Fault.contract g` -/
theorem no_contract_fault (P : Prog) (O : Oracle) (s : Stmt) (g : String)
    (h : ∀ c, Occurs P s c → c.1 = g → Holds O c) (n : Nat) (σ : State) :
    run P O n s σ ≠ .error (.contract g) := by
  intro hr
  obtain ⟨c, hoc, hg, τ, hτ⟩ := fault_inv P O n s σ _ hr
  exact hτ (h c hoc hg τ)

/-- if the table defines every position that is invoked then no run ends in `Fault.unknownFn` -/
theorem no_unknownFn (P : Prog) (O : Oracle) (s : Stmt) (h : ∀ f, Invoked P s f → (P f).isSome = true)
    (n : Nat) (σ : State) (f : Nat) : run P O n s σ ≠ .error (.unknownFn f) := by
  intro hr
  obtain ⟨hi, hn⟩ := fault_inv P O n s σ _ hr
  have := h f hi
  rw [hn] at this
  cases this

-- ------------------------------------------------------------------ reading the answer back

theorem setMany_other (x : Var) : ∀ (outs : List Var) (σ : State) (ans : List Nat), x ∉ outs →
    setMany σ outs ans x = σ x := by
  intro outs
  induction outs with
  | nil => intro σ ans _; cases ans <;> rfl
  | cons y ys ih =>
    intro σ ans hx
    have hxy : x ≠ y := fun h => hx (h ▸ List.mem_cons_self)
    have hys : x ∉ ys := fun h => hx (List.mem_cons_of_mem _ h)
    cases ans with
    | nil => simp only [setMany]; rw [ih _ _ hys]; simp [State.set, hxy]
    | cons a as => simp only [setMany]; rw [ih _ _ hys]; simp [State.set, hxy]

/-- pairwise distinct result variables receive the numbers of the answer in order (0 where it is short) -/
theorem setMany_get : ∀ (outs : List Var) (σ : State) (ans : List Nat), outs.Nodup →
    ∀ (k : Nat) (hk : k < outs.length), setMany σ outs ans outs[k] = ans.getD k 0 := by
  intro outs
  induction outs with
  | nil => intro σ ans _ k hk; cases hk
  | cons y ys ih =>
    intro σ ans hnd k hk
    have hy : y ∉ ys := (List.nodup_cons.1 hnd).1
    have hys : ys.Nodup := (List.nodup_cons.1 hnd).2
    cases k with
    | zero =>
      cases ans with
      | nil => simp only [setMany, List.getElem_cons_zero]; rw [setMany_other y ys _ _ hy]; simp [State.set]
      | cons a as => simp only [setMany, List.getElem_cons_zero]; rw [setMany_other y ys _ _ hy]; simp [State.set]
    | succ k =>
      have hk' : k < ys.length := by simpa using hk
      cases ans with
      | nil => simp only [setMany, List.getElem_cons_succ]; rw [ih _ _ hys k hk']; simp
      | cons a as => simp only [setMany, List.getElem_cons_succ]; rw [ih _ _ hys k hk']; simp

/-- the commonest contract, `err == nil → result != nil` with outs = result :: err :: … : it holds when the
    answer has a non-zero first number whenever its second number is 0 -/
theorem holds_onOk_first (O : Oracle) (f : String) (x e : Var) (rest : List Var) (hnd : (x :: e :: rest).Nodup)
    (h : ∀ σ, (O f σ).getD 1 0 = 0 → (O f σ).getD 0 0 ≠ 0) : Holds O (f, x :: e :: rest, onOk e [.nz x]) := by
  intro σ
  have hx := setMany_get (x :: e :: rest) σ (O f σ) hnd 0 (by simp)
  have he := setMany_get (x :: e :: rest) σ (O f σ) hnd 1 (by simp)
  simp only [List.getElem_cons_zero, List.getElem_cons_succ] at hx he
  have h' := h σ
  generalize (O f σ).getD 0 0 = a at hx h'
  generalize (O f σ).getD 1 0 = b at he h'
  simp only [HoldsAt, onOk, List.map_cons, List.map_nil, List.all_cons, List.all_nil, Bool.and_true, Clause.eval,
    Atom.eval, hx, he]
  by_cases h0 : b = 0
  · have := h' h0; simp [h0, this]
  · simp [h0]

-- ------------------------------------------------------------------ the table of MW.Model.Api

/-- every call node of the model (all hand-written bodies, in table order of `bodies`) -/
def progCalls : List CallNode := bodies.flatMap (fun p => callsOf p.2)

/-- every position the model invokes -/
def progInvokes : List Nat := bodies.flatMap (fun p => invokesOf p.2)

theorem lookupFn_mem : ∀ (l : List (Nat × Stmt)) (f : Nat) (s : Stmt), lookupFn l f = some s → (f, s) ∈ l := by
  intro l
  induction l with
  | nil => intro f s h; simp [lookupFn] at h
  | cons p r ih =>
    intro f s h
    obtain ⟨g, t⟩ := p
    simp only [lookupFn] at h
    split at h
    · rename_i hg
      simp only [Option.some.injEq] at h
      have : g = f := by simpa using hg
      subst this; subst h
      exact List.mem_cons_self
    · exact List.mem_cons_of_mem _ (ih f s h)

/-- a body of `prog` is a hand-written body or the empty skeleton -/
theorem prog_body {f : Nat} {body : Stmt} (h : prog f = some body) : (f, body) ∈ bodies ∨ body = .skip := by
  unfold prog at h
  split at h
  · rename_i s hs
    simp only [Option.some.injEq] at h; subst h
    exact Or.inl (lookupFn_mem _ _ _ hs)
  · split at h
    · simp only [Option.some.injEq] at h; exact Or.inr h.symm
    · cases h

theorem prog_calls_sub {f : Nat} {body : Stmt} (h : prog f = some body) {c : CallNode} (hc : c ∈ callsOf body) :
    c ∈ progCalls := by
  rcases prog_body h with hb | hb
  · exact List.mem_flatMap.2 ⟨(f, body), hb, hc⟩
  · subst hb; simp [callsOf] at hc

theorem prog_invokes_sub {f : Nat} {body : Stmt} (h : prog f = some body) {g : Nat} (hg : g ∈ invokesOf body) :
    g ∈ progInvokes := by
  rcases prog_body h with hb | hb
  · exact List.mem_flatMap.2 ⟨(f, body), hb, hg⟩
  · subst hb; simp [invokesOf] at hg

/-- a call node met by a run of `invoke r` over `prog` is one of `progCalls` -/
theorem occurs_prog {r : Nat} {c : CallNode} (h : Occurs prog (.invoke r) c) : c ∈ progCalls := by
  rcases h with h | ⟨f, body, hf, hc⟩
  · simp [callsOf] at h
  · exact prog_calls_sub hf hc

end MW.Lemmas.ApiContracts
