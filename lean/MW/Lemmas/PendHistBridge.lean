/-
  C09, HISTORY-LEVEL REFINEMENT: bridging lemmas from the C01 invariant `Inv` (the mined buckets of the store are
  the tables of the books of the wallet's chain) to the facts the pending-side theorems need.
-/
import MW.Lemmas.LedgerMain
import MW.Lemmas.PendHistDefs
namespace MW.Lemmas.PendHist
open MW MW.Model.Ledger MW.Spec.Chain MW.Spec.Books MW.Lemmas.Ledger

/-- the occurrence of a transaction of a block -/
theorem occ_of_mem_block {b : Block} {u : Tx} (hu : u ∈ b.txs) :
    ∃ oc ∈ occsOfBlock b, oc.t = u ∧ oc.bm = ⟨b.height, b.id⟩ := by
  obtain ⟨m, hm⟩ := List.getElem?_of_mem hu
  exact ⟨⟨⟨b.height, b.id⟩, 0 + m, u⟩, occsFrom_mem_of_get hm, rfl, rfl⟩

/-- an occurrence of a chain is a transaction of a block of the chain -/
theorem occ_block {chain : List Block} {oc : Occ} (h : oc ∈ occs chain) :
    ∃ b ∈ chain, oc.t ∈ b.txs ∧ oc.bm = ⟨b.height, b.id⟩ := by
  obtain ⟨b, hb, hoc⟩ := mem_occs.1 h
  obtain ⟨m, hm, -, hbm⟩ := mem_occsFrom.1 hoc
  exact ⟨b, hb, List.mem_of_getElem? hm, hbm⟩

/-- the ids of a valid list of occurrences are fresh w.r.t. what came before -/
theorem validFrom_fresh {own : Own} {P rest : List Occ} (hV : ValidFrom own P rest) :
    ∀ oc ∈ rest, oc.t.id ∉ idsOf P := by
  induction rest generalizing P with
  | nil => intro oc h; cases h
  | cons x rest ih =>
    intro oc hoc
    rcases List.mem_cons.1 hoc with rfl | h
    · exact hV.1.1
    · intro hin
      exact ih hV.2 oc h (by unfold idsOf at *; rw [List.map_append]; exact List.mem_append_left _ hin)

/-- BR1: no transaction record of a block that is not yet connected -/
theorem inv_norec {c : Ctx} {s : Store} {chain : List Block} {b : Block} (hI : Inv c s chain)
    (hV : ChainValid c.own (chain ++ [b])) :
    ∀ u ∈ b.txs, AMap.get s.txrecs (u.id, ⟨b.height, b.id⟩) = none := by
  intro u hu
  have hG := glob_bookOf (p := c.p) (chainValid_prefix hV)
  obtain ⟨oc, hoc, ht, -⟩ := occ_of_mem_block hu
  have hfresh := validFrom_fresh (validFrom_tip hV) oc hoc
  rw [ht] at hfresh
  rw [hI.agree.txrecs]
  cases h : (bookOf c.p c.own chain).txrecs (u.id, ⟨b.height, b.id⟩) with
  | none => rfl
  | some loc => exact absurd (hG.txrecIds (u.id, ⟨b.height, b.id⟩) (by rw [h]; rfl)) hfresh

/-- BR4: the unspent index only holds outputs of transactions of the chain -/
theorem inv_unspent_onChain {c : Ctx} {s : Store} {chain : List Block} (hI : Inv c s chain)
    (hV : ChainValid c.own chain) :
    ∀ w id j, (AMap.get s.unspent (w, id, j)).isSome = true → MW.Spec.Pending.onChain chain id = true := by
  intro w id j h
  rw [hI.agree.unspent] at h
  cases hl : lookupU (bookOf c.p c.own chain).L id j with
  | none => rw [hl] at h; cases h
  | some u =>
    have hmem : u ∈ (bookOf c.p c.own chain).L := List.mem_of_find?_eq_some hl
    have hat : UCoin.at id j u = true := List.find?_some hl
    have hid : u.tx = id := by unfold UCoin.at at hat; simp at hat; exact hat.1
    obtain ⟨⟨oc, hoc, hoid, -⟩, -⟩ := ((glob_bookOf (p := c.p) hV).mem u).1 hmem
    obtain ⟨b, hb, ht, -⟩ := occ_block hoc
    exact (onChain_iff chain id).2 ⟨b, hb, oc.t, ht, hoid.trans hid⟩

/-- BR3b: every owned output of a transaction of the tip block has a credit -/
theorem inv_cb_credits {c : Ctx} {s : Store} {chain : List Block} {b : Block} (hI : Inv c s (chain ++ [b]))
    (hV : ChainValid c.own (chain ++ [b])) :
    ∀ u ∈ b.txs, ∀ j o, u.outs[j]? = some o → (ownerOf c.own o).isSome = true →
      (AMap.get s.credits ⟨u.id, ⟨b.height, b.id⟩, j⟩).isSome = true := by
  intro u hu j o ho hown
  obtain ⟨oc, hoc, ht, hbm⟩ := occ_of_mem_block hu
  have hmem : oc ∈ occs (chain ++ [b]) := mem_occs.2 ⟨b, by simp, hoc⟩
  have := (glob_bookOf (p := c.p) hV).credAll oc hmem j o (by rw [ht]; exact ho) hown
  rw [ht, hbm] at this
  rw [hI.agree.credits]
  exact this

end MW.Lemmas.PendHist
