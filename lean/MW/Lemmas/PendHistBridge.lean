/-
  C09, HISTORY-LEVEL REFINEMENT: bridging lemmas from the C01 invariant `Inv` (the mined buckets of the store are
  the tables of the books of the wallet's chain) to the facts the pending-side theorems need.
-/
import MW.Lemmas.LedgerMain
import MW.Lemmas.PendHistDefs
namespace MW.Lemmas.PendHist
open MW MW.Model.Ledger MW.Spec.Chain MW.Spec.Books MW.Lemmas.Ledger

/-- the occurrence of a transaction of a block -/
theorem occ_of_mem_block {b : Block} {u : Tx} (hu : u ∈ b.txs) :
    ∃ oc ∈ occsOfBlock b, oc.t = u ∧ oc.bm = ⟨b.height, b.id⟩ := by
  obtain ⟨m, hm⟩ := List.getElem?_of_mem hu
  exact ⟨⟨⟨b.height, b.id⟩, 0 + m, u⟩, occsFrom_mem_of_get hm, rfl, rfl⟩

/-- an occurrence of a chain is a transaction of a block of the chain -/
theorem occ_block {chain : List Block} {oc : Occ} (h : oc ∈ occs chain) :
    ∃ b ∈ chain, oc.t ∈ b.txs ∧ oc.bm = ⟨b.height, b.id⟩ := by
  obtain ⟨b, hb, hoc⟩ := mem_occs.1 h
  obtain ⟨m, hm, -, hbm⟩ := mem_occsFrom.1 hoc
  exact ⟨b, hb, List.mem_of_getElem? hm, hbm⟩

/-- the ids of a valid list of occurrences are fresh w.r.t. what came before -/
theorem validFrom_fresh {own : Own} {P rest : List Occ} (hV : ValidFrom own P rest) :
    ∀ oc ∈ rest, oc.t.id ∉ idsOf P := by
  induction rest generalizing P with
  | nil => intro oc h; cases h
  | cons x rest ih =>
    intro oc hoc
    rcases List.mem_cons.1 hoc with rfl | h
    · exact hV.1.1
    · intro hin
      exact ih hV.2 oc h (by unfold idsOf at *; rw [List.map_append]; exact List.mem_append_left _ hin)

/-- BR1: no transaction record of a block that is not yet connected -/
theorem inv_norec {c : Ctx} {s : Store} {chain : List Block} {b : Block} (hI : Inv c s chain)
    (hV : ChainValid c.own (chain ++ [b])) :
    ∀ u ∈ b.txs, AMap.get s.txrecs (u.id, ⟨b.height, b.id⟩) = none := by
  intro u hu
  have hG := glob_bookOf (p := c.p) (chainValid_prefix hV)
  obtain ⟨oc, hoc, ht, -⟩ := occ_of_mem_block hu
  have hfresh := validFrom_fresh (validFrom_tip hV) oc hoc
  rw [ht] at hfresh
  rw [hI.agree.txrecs]
  cases h : (bookOf c.p c.own chain).txrecs (u.id, ⟨b.height, b.id⟩) with
  | none => rfl
  | some loc => exact absurd (hG.txrecIds (u.id, ⟨b.height, b.id⟩) (by rw [h]; rfl)) hfresh

/-- BR4: the unspent index only holds outputs of transactions of the chain -/
theorem inv_unspent_onChain {c : Ctx} {s : Store} {chain : List Block} (hI : Inv c s chain)
    (hV : ChainValid c.own chain) :
    ∀ w id j, (AMap.get s.unspent (w, id, j)).isSome = true → MW.Spec.Pending.onChain chain id = true := by
  intro w id j h
  rw [hI.agree.unspent] at h
  cases hl : lookupU (bookOf c.p c.own chain).L id j with
  | none => rw [hl] at h; cases h
  | some u =>
    have hmem : u ∈ (bookOf c.p c.own chain).L := List.mem_of_find?_eq_some hl
    have hat : UCoin.at id j u = true := List.find?_some hl
    have hid : u.tx = id := by unfold UCoin.at at hat; simp at hat; exact hat.1
    obtain ⟨⟨oc, hoc, hoid, -⟩, -⟩ := ((glob_bookOf (p := c.p) hV).mem u).1 hmem
    obtain ⟨b, hb, ht, -⟩ := occ_block hoc
    exact (onChain_iff chain id).2 ⟨b, hb, oc.t, ht, hoid.trans hid⟩

/-- BR3b: every owned output of a transaction of the tip block has a credit -/
theorem inv_cb_credits {c : Ctx} {s : Store} {chain : List Block} {b : Block} (hI : Inv c s (chain ++ [b]))
    (hV : ChainValid c.own (chain ++ [b])) :
    ∀ u ∈ b.txs, ∀ j o, u.outs[j]? = some o → (ownerOf c.own o).isSome = true →
      (AMap.get s.credits ⟨u.id, ⟨b.height, b.id⟩, j⟩).isSome = true := by
  intro u hu j o ho hown
  obtain ⟨oc, hoc, ht, hbm⟩ := occ_of_mem_block hu
  have hmem : oc ∈ occs (chain ++ [b]) := mem_occs.2 ⟨b, by simp, hoc⟩
  have := (glob_bookOf (p := c.p) hV).credAll oc hmem j o (by rw [ht]; exact ho) hown
  rw [ht, hbm] at this
  rw [hI.agree.credits]
  exact this

-- ------------------------------------------------------------------ BR2: connect, the relevance records

/-- `t` pays an owned address, or (not a coinbase) spends an owned output of a transaction among `txs` -/
def RelAmong (own : Own) (txs : List Tx) (t : Tx) : Prop :=
  (∃ o ∈ t.outs, (ownerOf own o).isSome = true) ∨
  (t.cb = false ∧ ∃ i ∈ t.ins, ∃ p ∈ txs, p.id = i.tx ∧ ∃ o, p.outs[i.idx]? = some o ∧ (ownerOf own o).isSome = true)

def chainTxs (chain : List Block) : List Tx := chain.flatMap (·.txs)

/-- the same over occurrences -/
def RelOcc (own : Own) (Q : List Occ) (t : Tx) : Prop :=
  (∃ o ∈ t.outs, (ownerOf own o).isSome = true) ∨
  (t.cb = false ∧ ∃ i ∈ t.ins, ∃ q ∈ Q, q.t.id = i.tx ∧ ∃ o, q.t.outs[i.idx]? = some o ∧ (ownerOf own o).isSome = true)

theorem mem_chainTxs {chain : List Block} {t : Tx} : t ∈ chainTxs chain ↔ ∃ oc ∈ occs chain, oc.t = t := by
  unfold chainTxs
  rw [List.mem_flatMap]
  constructor
  · rintro ⟨b, hb, ht⟩
    obtain ⟨oc, hoc, h1, -⟩ := occ_of_mem_block ht
    exact ⟨oc, mem_occs.2 ⟨b, hb, hoc⟩, h1⟩
  · rintro ⟨oc, hoc, rfl⟩
    obtain ⟨b, hb, ht, -⟩ := occ_block hoc
    exact ⟨b, hb, ht⟩

theorem relAmong_iff_relOcc {own : Own} {chain : List Block} {t : Tx} :
    RelAmong own (chainTxs chain) t ↔ RelOcc own (occs chain) t := by
  unfold RelAmong RelOcc
  constructor
  · rintro (h | ⟨hcb, i, hi, p, hp, hid, o, ho, hown⟩)
    · exact Or.inl h
    · obtain ⟨q, hq, rfl⟩ := mem_chainTxs.1 hp
      exact Or.inr ⟨hcb, i, hi, q, hq, hid, o, ho, hown⟩
  · rintro (h | ⟨hcb, i, hi, q, hq, hid, o, ho, hown⟩)
    · exact Or.inl h
    · exact Or.inr ⟨hcb, i, hi, q.t, mem_chainTxs.2 ⟨q, hq, rfl⟩, hid, o, ho, hown⟩

/-- a valid transaction that is relevant w.r.t. the transactions around it touches the running books -/
theorem touches_of_relOcc {own : Own} {P Q : List Occ} {B : Book} {oc : Occ} (hG : Glob own P B)
    (hV : OccValid own P oc) (hsub : ∀ q ∈ P, q ∈ Q) (hn : (idsOf Q).Nodup) (hR : RelOcc own Q oc.t) :
    touches own B oc.t = true := by
  unfold touches
  rcases hR with ⟨o, ho, hown⟩ | ⟨hcb, i, hi, q, hq, hid, o, ho, hown⟩
  · rw [Bool.or_eq_true]; right
    exact List.any_eq_true.2 ⟨o, ho, hown⟩
  · rw [Bool.or_eq_true]; left
    rw [hcb]
    simp only [Bool.not_false, Bool.true_and]
    refine List.any_eq_true.2 ⟨i, hi, ?_⟩
    obtain ⟨o', ho'⟩ := Option.isSome_iff_exists.1 (hV.2.1 hcb i hi)
    obtain ⟨oc0, h0, hid0, hout0⟩ := srcOut_some_find ho'
    have hq0 : q = oc0 := occ_eq_of_id hn hq (hsub oc0 h0) (hid.trans hid0.symm)
    subst hq0
    rw [ho] at hout0
    have hoo : o = o' := by simpa using hout0
    subst hoo
    obtain ⟨wc, hwc⟩ := Option.isSome_iff_exists.1 hown
    obtain ⟨k, hk⟩ := List.getElem?_of_mem hi
    have hc : CreatedIn own P ⟨wc.1, i.tx, i.idx, q.bm, q.t.cb, o, wc.2⟩ :=
      ⟨q, h0, hid, ho, hwc, rfl, rfl⟩
    rw [char_hit_of_created hG hV hc hcb hk rfl]
    rfl

/-- the records cover every relevant transaction -/
theorem matches_cover {p : Params} {own : Own} :
    ∀ (ocs : List Occ) (P : List Occ) (B : Book) (recs : List TxRec),
      Matches p own B ocs recs → Glob own P B → ValidFrom own P ocs →
      ∀ oc ∈ ocs, RelOcc own (P ++ ocs) oc.t → ∃ tr ∈ recs, tr.tx = oc.t := by
  intro ocs
  induction ocs with
  | nil => intro P B recs _ _ _ oc h; cases h
  | cons x rest ih =>
    intro P B recs hM hG hV oc hoc hR
    have hn : (idsOf (P ++ x :: rest)).Nodup := (glob_fold (p := p) hG hV).idsNodup
    obtain ⟨hV1, hV2⟩ := hV
    have hG' := glob_step (p := p) hG hV1
    unfold Matches at hM
    have hassoc : (P ++ [x]) ++ rest = P ++ x :: rest := by simp
    rcases List.mem_cons.1 hoc with rfl | hoc'
    · have ht : touches own B oc.t = true :=
        touches_of_relOcc hG hV1 (fun q hq => List.mem_append_left _ hq) hn hR
      simp only [ht, if_true] at hM
      obtain ⟨tr, recs', hrecs, hok, -⟩ := hM
      exact ⟨tr, by rw [hrecs]; exact List.mem_cons_self .., hok.1⟩
    · by_cases ht : touches own B x.t = true
      · simp only [ht, if_true] at hM
        obtain ⟨tr, recs', hrecs, -, hM'⟩ := hM
        obtain ⟨tr', h1, h2⟩ := ih _ _ recs' hM' hG' hV2 oc hoc' (by rw [hassoc]; exact hR)
        exact ⟨tr', by rw [hrecs]; exact List.mem_cons_of_mem _ h1, h2⟩
      · simp only [ht] at hM
        exact ih _ _ recs hM hG' hV2 oc hoc' (by rw [hassoc]; exact hR)

/-- BR2: the relevance records of `filterTxs` cover every transaction of the block that pays an owned address
    or spends an owned output of the chain (including the block itself) -/
theorem inv_cover {c : Ctx} {s : Store} {chain rest : List Block} {b : Block} {ready : List Wid} {recs : List TxRec}
    (hI : Inv c s chain) (hnode : c.node.chain = chain ++ b :: rest) (hvalid : ChainValid c.own c.node.chain)
    (hAR : AllReady c.own ready)
    (hf : filterTxs c s ready b.id b.txs [] 0 [] = .ok recs) :
    ∀ u ∈ b.txs, RelAmong c.own (chainTxs (chain ++ [b])) u → ∃ tr ∈ recs, tr.tx = u := by
  have hvc : ChainValid c.own chain :=
    chainValid_prefix (a := chain) (b := b :: rest) (by rw [← hnode]; exact hvalid)
  have hG := glob_bookOf (p := c.p) hvc
  have F : FilterCtx c s ready chain rest b (bookOf c.p c.own chain) :=
    ⟨hnode, hvalid, hAR, hG, fun k h => by rw [hI.agree.credits k]; exact h⟩
  have hVb := F.valid_block
  obtain ⟨recs', hf', hM⟩ := filterTxs_block F hVb
  rw [hf] at hf'
  have hrr : recs = recs' := by injection hf'
  subst hrr
  intro u hu hR
  obtain ⟨oc, hoc, ht, -⟩ := occ_of_mem_block hu
  rw [relAmong_iff_relOcc, occs_append, occs_singleton] at hR
  obtain ⟨tr, h1, h2⟩ := matches_cover _ _ _ _ hM hG hVb oc hoc (by rw [ht]; exact hR)
  exact ⟨tr, h1, h2.trans ht⟩

-- ------------------------------------------------------------------ BR3: disconnect, the records of the tip block

/-- the ids `touchIds` lists: the transactions that touch the running books -/
theorem mem_touchIds {p : Params} {own : Own} {ocs : List Occ} {id : TxId} :
    ∀ {B : Book}, id ∈ touchIds p own B ocs ↔
      ∃ pre oc post, ocs = pre ++ oc :: post ∧ touches own (pre.foldl (applyOcc p own) B) oc.t = true ∧
        oc.t.id = id := by
  induction ocs with
  | nil =>
    intro B
    simp [touchIds]
  | cons x rest ih =>
    intro B
    simp only [touchIds, List.mem_append]
    constructor
    · rintro (h | h)
      · by_cases ht : touches own B x.t = true
        · rw [if_pos ht, List.mem_singleton] at h
          exact ⟨[], x, rest, rfl, ht, h.symm⟩
        · rw [if_neg ht] at h; cases h
      · obtain ⟨pre, oc, post, hs, ht, hid⟩ := ih.1 h
        exact ⟨x :: pre, oc, post, by rw [hs]; rfl, ht, hid⟩
    · rintro ⟨pre, oc, post, hs, ht, hid⟩
      cases pre with
      | nil =>
        simp only [List.nil_append, List.cons.injEq] at hs
        obtain ⟨rfl, -⟩ := hs
        left
        simp only [List.foldl_nil] at ht
        rw [if_pos ht, hid]; exact List.mem_singleton.2 rfl
      | cons y pre =>
        simp only [List.cons_append, List.cons.injEq] at hs
        obtain ⟨rfl, hs⟩ := hs
        right
        exact ih.2 ⟨pre, oc, post, hs, ht, hid⟩

theorem touchIds_sublist {p : Params} {own : Own} {ocs : List Occ} :
    ∀ {B : Book}, (touchIds p own B ocs).Sublist (idsOf ocs) := by
  induction ocs with
  | nil => intro B; simp [touchIds, idsOf]
  | cons x rest ih =>
    intro B
    unfold idsOf at ih ⊢
    simp only [touchIds, List.map_cons]
    by_cases ht : touches own B x.t = true
    · rw [if_pos ht]; exact List.Sublist.cons_cons _ ih
    · rw [if_neg ht]; exact List.Sublist.cons _ ih

/-- the running books inside a valid run -/
theorem glob_split {p : Params} {own : Own} {P pre post : List Occ} {oc : Occ} {B : Book} (hG : Glob own P B)
    (hV : ValidFrom own P (pre ++ oc :: post)) :
    Glob own (P ++ pre) (pre.foldl (applyOcc p own) B) ∧ OccValid own (P ++ pre) oc := by
  obtain ⟨h1, h2⟩ := validFrom_append.1 hV
  exact ⟨glob_fold (p := p) hG h1, h2.1⟩

/-- a transaction that touches the running books is relevant w.r.t. the transactions before it -/
theorem relOcc_of_touches {own : Own} {P : List Occ} {B : Book} {t : Tx} (hG : Glob own P B)
    (ht : touches own B t = true) : RelOcc own P t := by
  unfold touches at ht
  rw [Bool.or_eq_true] at ht
  rcases ht with h | h
  · right
    rw [Bool.and_eq_true] at h
    obtain ⟨hcb, h⟩ := h
    obtain ⟨i, hi, hl⟩ := List.any_eq_true.1 h
    obtain ⟨u, hu⟩ := Option.isSome_iff_exists.1 hl
    obtain ⟨⟨oc0, h0, hid, hout, hown, -, -⟩, -, htx, hidx, -⟩ := char_hit_created hG hu
    refine ⟨by simpa using hcb, i, hi, oc0, h0, hid.trans htx, u.out, by rw [← hidx]; exact hout, by rw [hown]; rfl⟩
  · left
    obtain ⟨o, ho, hown⟩ := List.any_eq_true.1 h
    exact ⟨o, ho, hown⟩

theorem RelOcc.mono {own : Own} {Q Q' : List Occ} {t : Tx} (hsub : ∀ q ∈ Q, q ∈ Q') (h : RelOcc own Q t) :
    RelOcc own Q' t := by
  rcases h with h | ⟨hcb, i, hi, q, hq, rest⟩
  · exact Or.inl h
  · exact Or.inr ⟨hcb, i, hi, q, hsub q hq, rest⟩

/-- the touching transactions of a valid run are exactly the relevant ones -/
theorem touchIds_iff_relOcc {p : Params} {own : Own} {P ocs : List Occ} {B : Book} (hG : Glob own P B)
    (hV : ValidFrom own P ocs) {oc : Occ} (hoc : oc ∈ ocs) :
    oc.t.id ∈ touchIds p own B ocs ↔ RelOcc own (P ++ ocs) oc.t := by
  have hn : (idsOf (P ++ ocs)).Nodup := (glob_fold (p := p) hG hV).idsNodup
  constructor
  · intro h
    obtain ⟨pre, oc', post, hs, ht, hid⟩ := mem_touchIds.1 h
    subst hs
    have hoc' : oc' ∈ P ++ (pre ++ oc' :: post) := List.mem_append_right _ (by simp)
    have he : oc' = oc := occ_eq_of_id hn hoc' (List.mem_append_right _ hoc) hid
    subst he
    obtain ⟨hG', -⟩ := glob_split (p := p) hG hV
    refine RelOcc.mono ?_ (relOcc_of_touches hG' ht)
    intro q hq
    rcases List.mem_append.1 hq with h1 | h1
    · exact List.mem_append_left _ h1
    · exact List.mem_append_right _ (List.mem_append_left _ h1)
  · intro hR
    obtain ⟨pre, post, hs⟩ := List.append_of_mem hoc
    subst hs
    obtain ⟨hG', hV'⟩ := glob_split (p := p) hG hV
    have ht : touches own (pre.foldl (applyOcc p own) B) oc.t = true := by
      refine touches_of_relOcc hG' hV' ?_ hn hR
      intro q hq
      rcases List.mem_append.1 hq with h1 | h1
      · exact List.mem_append_left _ h1
      · exact List.mem_append_right _ (List.mem_append_left _ h1)
    exact mem_touchIds.2 ⟨pre, oc, post, rfl, ht, rfl⟩

/-- BR3a: the block record of the tip block lists exactly the relevant transactions of the block, each with a
    transaction record that locates it in the block file; no block record iff no relevant transaction -/
theorem inv_tip_records {c : Ctx} {s : Store} {chain : List Block} {b : Block} (hI : Inv c s (chain ++ [b]))
    (hV : ChainValid c.own (chain ++ [b])) (hH : HeightsOK (chain ++ [b]))
    (hk : AMap.get c.node.known b.id = some b) :
    (∃ ids, AMap.get s.blocks b.height = some (b.id, ids) ∧ ids.Nodup ∧
      (∀ id ∈ ids, ∃ loc t, AMap.get s.txrecs (id, ⟨b.height, b.id⟩) = some loc ∧
          c.node.txByFileLoc loc = some t ∧ t.id = id ∧ t ∈ b.txs) ∧
      (∀ t ∈ b.txs, t.id ∈ ids ↔ RelAmong c.own (chainTxs (chain ++ [b])) t)) ∨
    (AMap.get s.blocks b.height = none ∧ ∀ t ∈ b.txs, ¬ RelAmong c.own (chainTxs (chain ++ [b])) t) := by
  have hvc : ChainValid c.own chain := chainValid_prefix hV
  have hG := glob_bookOf (p := c.p) hvc
  have hVb := validFrom_tip hV
  have hGall := glob_bookOf (p := c.p) hV
  have hblk := hI.agree.blocks b.height
  rw [bookOf_blocks_snoc c.p c.own chain b hH] at hblk
  -- the iff, for the list of touching ids
  have hiff : ∀ t ∈ b.txs, t.id ∈ touchIds c.p c.own (bookOf c.p c.own chain) (occsOfBlock b) ↔
      RelAmong c.own (chainTxs (chain ++ [b])) t := by
    intro t ht
    obtain ⟨oc, hoc, hoct, -⟩ := occ_of_mem_block ht
    have := touchIds_iff_relOcc (p := c.p) hG hVb hoc
    rw [hoct] at this
    rw [this, relAmong_iff_relOcc, occs_append, occs_singleton]
  cases hids : touchIds c.p c.own (bookOf c.p c.own chain) (occsOfBlock b) with
  | nil =>
    right
    rw [hids] at hblk
    refine ⟨hblk, ?_⟩
    intro t ht hR
    have := (hiff t ht).2 hR
    rw [hids] at this
    cases this
  | cons id0 ids0 =>
    left
    rw [hids] at hblk
    refine ⟨id0 :: ids0, hblk, ?_, ?_, ?_⟩
    · rw [← hids]
      have hn := hGall.idsNodup
      rw [occs_append, occs_singleton] at hn
      unfold idsOf at hn
      rw [List.map_append, List.nodup_append] at hn
      exact List.Sublist.nodup touchIds_sublist hn.2.1
    · intro id hid
      rw [← hids] at hid
      obtain ⟨pre, oc, post, hs, ht, hoid⟩ := mem_touchIds.1 hid
      have hoc : oc ∈ occsOfBlock b := by rw [hs]; simp
      obtain ⟨hbm, hloc⟩ := occFacts_of_known hk oc hoc
      obtain ⟨m, hm, -, -⟩ := mem_occsFrom.1 hoc
      refine ⟨(oc.bm.hash, oc.ti), oc.t, ?_, hloc, hoid, List.mem_of_getElem? hm⟩
      rw [hI.agree.txrecs, bookOf_txrecs_iff hV]
      refine ⟨occs chain ++ pre, oc, post, ?_, ?_, by rw [hoid, hbm], rfl⟩
      · rw [occs_append, occs_singleton, hs, List.append_assoc]
      · rw [List.foldl_append]; exact ht
    · rw [← hids]; exact hiff

end MW.Lemmas.PendHist
