/- helper lemma for C17(b): what a passed table check means -/
import MW.Model.Locks
namespace MW.Lemmas.Locks
open MW.Model.Locks

/-- lockset discipline ⇒ no conflicting unordered pair in the role model: if the (boolean) check of a
    table succeeds, then any two accesses of the table to the same field, at least one of them a write,
    either hold a common mutex (exclusively on at least one side) or are ordered – by goroutine creation
    (init), by running on the same single goroutine, or by the suspend/resume hand-shake – in every
    combination of roles that can reach them. -/
theorem tableOk_sound (t : List Access) (h : tableOk t = true) (a b : Access) (ha : a ∈ t) (hb : b ∈ t)
    (hc : conflicting a b = true) :
    commonLock a b = true ∨ ∀ ra ∈ a.roles, ∀ rb ∈ b.roles, unordered a b ra rb = false := by
  unfold tableOk at h
  have h1 := List.all_eq_true.1 h a ha
  have h2 := List.all_eq_true.1 h1 b hb
  unfold pairOk at h2
  simp only [Bool.or_eq_true, Bool.not_eq_true'] at h2
  rcases h2 with (h2 | h2) | h2
  · rw [hc] at h2; exact absurd h2 (by decide)
  · exact Or.inl h2
  · right
    intro ra hra rb hrb
    have h3 := List.all_eq_true.1 h2 ra hra
    have h4 := List.all_eq_true.1 h3 rb hrb
    simpa using h4

end MW.Lemmas.Locks
