/-
  C06 deepening (round 5), part 4: A CRASH INSIDE A REMOVAL WINDOW AT ANY POINT (quiet or not).  The follower may lag
  or sit on a stale branch: Start's resync step and catch-up loop are handler steps on the relaxed state
  (`crash_reaches_p2w`), `initTaskChan` queues the removal again (`requeue_removed`).  Hypothesis: Start succeeds
  (C08 leaves open whether the follower can fail on stale entries of the wallet being removed; at a quiet point Start
  is a no-op on the store and succeeds: `crash_quiet_store`).
-/
import MW.Lemmas.Deepen5Start
import MW.Lemmas.Deepen5Events
namespace MW.Lemmas.Deepen5
open MW MW.Model.Ledger MW.Model.Persist MW.Spec.Persist MW.Spec.Chain MW.Spec.Books MW.Lemmas.Ledger
  MW.Lemmas.PersistOp MW.Lemmas.PersistFault MW.Lemmas.PersistCrash MW.Lemmas.Deepen3 MW.Lemmas.Deepen4

theorem JRW_crash {cfg : Cfg} {G : Block} (E : StaticOK cfg.st G) {x : SysQ} {k : Skel} {w : Wid} (hJ : JRW cfg G x k w)
    (hok : (Model.Persist.crash (envAt cfg.st k.chain) cfg.n x.P).ok = true) :
    JRW cfg G (stepQ cfg.st cfg.n true x .crash) k w ∧ (stepQ cfg.st cfg.n true x .crash).queue = [] := by
  rcases hJ with hM | ⟨hQ, hgone, hnA⟩
  · obtain ⟨hc, hks, hkeys, hnW, hnA, ⟨r, hr, hrne⟩, htask, ⟨X, g, kk, hX, hP, hv, hpre, hq0⟩, hqk, hql, hN, hcur, hoth,
      ⟨w0, hw0, hw0m⟩⟩ := hM
    have h1 : stepQ cfg.st cfg.n true x .crash =
        { x with queue := [], P := (Model.Persist.crash (envAt cfg.st k.chain) cfg.n x.P).P,
                 V := (Model.Persist.crash (envAt cfg.st k.chain) cfg.n x.P).V } := by
      simp only [stepQ, if_true, hc]
    rw [h1]
    have hS := static_of (cfg := cfg) hX hnA hnW hr hrne k.chain
    have hrne' : (readyWallets x.P.led (walletsOf k.ks)).isEmpty = false := by
      have : (readyWallets x.P.led (walletsOf k.ks)).contains w0 = true := mem_readyWallets.2 ⟨hw0m, hoth w0 hw0m hw0⟩
      cases hr' : readyWallets x.P.led (walletsOf k.ks) with
      | nil => rw [hr'] at this; cases this
      | cons _ _ => rfl
    obtain ⟨c1, c2, ⟨g', k', c3⟩, c4, c5, c6⟩ := crash_reaches_p2w E hN hX cfg.n hks hS hP hrne' hok
    have hflag : AMap.get (Model.Persist.crash (envAt cfg.st k.chain) cfg.n x.P).P.led.status w = some ⟨none, true⟩ := by
      rw [c3.sub.status]; exact c3.ghost.flag
    refine ⟨Or.inl ⟨hc, c1, c2, hnW, hnA, ⟨r, hr, hrne⟩, ?_, ⟨k.chain, g', k', hN, c3, c4, ⟨k.chain, hcur, List.prefix_refl _⟩,
      fun _ => rfl⟩, (fun y hy => by cases hy), (fun h => absurd rfl h), hN, hcur, ?_, ⟨w0, hw0, hw0m⟩⟩, rfl⟩
    · show (Model.Persist.crash (envAt cfg.st k.chain) cfg.n x.P).V.tasks.contains (.rem w) = true
      rw [c5]
      exact List.contains_iff_mem.2 (requeue_removed _ w ⟨none, true⟩ (amap_mem_of_get hflag) rfl)
    · intro w' hw' hne
      show readyB (Model.Persist.crash (envAt cfg.st k.chain) cfg.n x.P).P.led w' = true
      rw [readyB_of_readyWallets c6 w']; exact hoth w' hw' hne
  · obtain ⟨hJ', hq', _⟩ := JQ_crash E cfg.n hQ
    refine ⟨Or.inr ⟨hJ', ?_, hnA⟩, hq'⟩
    have h1 : (stepQ cfg.st cfg.n true x .crash).P = (Model.Persist.crash (envAt cfg.st x.chain) cfg.n x.P).P := by
      simp only [stepQ, if_true]
    rw [h1]
    have hf := (frame_crash (envAt cfg.st x.chain) cfg.n x.P).1.led.rem w
    unfold remD at hf
    rw [hgone] at hf
    exact Option.isNone_iff_eq_none.1 hf

end MW.Lemmas.Deepen5
