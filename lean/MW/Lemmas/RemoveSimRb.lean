/-
  C08, the ROLLBACK counterpart of `filterBlock_sim`: disconnecting the tip block on the ghost store and on the
  real store (= ghost minus some records of the wallet being removed).  `disconnectBlock_sim` (the tip has a block
  record) and `disconnectBlock_sim_none` (it has none: no mined bucket but the balances / sync table moves).
-/
import MW.Lemmas.RemoveSim
namespace MW.Lemmas.RemoveSim
open MW MW.Model.Ledger MW.Lemmas.Ledger MW.Lemmas.LedgerWFCred

-- ------------------------------------------------------------------ loops: two runs side by side (indexed)

theorem foldIdxM_sim {α β : Type} (R : β → β → Prop) (f f' : β → Nat → α → M β) (l : List α)
    (hstep : ∀ b c i a b', a ∈ l → R b c → f b i a = .ok b' → ∃ c', f' c i a = .ok c' ∧ R b' c')
    {i : Nat} {b c b' : β} (hR : R b c) (h : foldIdxM f l i b = .ok b') :
    ∃ c', foldIdxM f' l i c = .ok c' ∧ R b' c' := by
  induction l generalizing i b c with
  | nil => cases h; exact ⟨c, rfl, hR⟩
  | cons a l ih =>
    rw [foldIdxM_cons] at h
    obtain ⟨b1, h1, h2⟩ := M_bind_ok h
    obtain ⟨c1, hc1, hR1⟩ := hstep b c i a b1 (List.mem_cons_self ..) hR h1
    obtain ⟨c', hc', hR'⟩ := ih (fun b c i a' b' ha' => hstep b c i a' b' (List.mem_cons_of_mem _ ha')) hR1 h2
    refine ⟨c', ?_, hR'⟩
    rw [foldIdxM_cons, hc1]; exact hc'

-- ------------------------------------------------------------------ erasing on both sides

section tab
variable {K V : Type} [DecidableEq K]

theorem SubT.erase {gi si : AMap.T K V} (h : SubT gi si) (k : K) : SubT (AMap.erase gi k) (AMap.erase si k) := by
  intro k'
  rw [AMap.get_erase, AMap.get_erase]
  by_cases hk : k = k'
  · simp [hk]
  · simp only [hk, if_false]; exact h k'

theorem TabP.erase {isNew : K → Prop} {g0 s0 gi si : AMap.T K V} (h : TabP isNew g0 s0 gi si) {k : K}
    (hk : isNew k) : TabP isNew g0 s0 (AMap.erase gi k) (AMap.erase si k) := by
  constructor
  · intro k' hk'
    rw [AMap.get_erase, AMap.get_erase]
    by_cases e : k = k'
    · simp [e]
    · simp only [e, if_false]; exact h.new k' hk'
  · intro k' hk'
    have e : ¬ k = k' := fun e => hk' (e ▸ hk)
    rw [AMap.get_erase]; simp only [e, if_false]; exact h.frame k' hk'
  · intro k' hk'
    have e : ¬ k = k' := fun e => hk' (e ▸ hk)
    rw [AMap.get_erase]; simp only [e, if_false]; exact h.gframe k' hk'

end tab

-- ------------------------------------------------------------------ the credit bucket during a rollback

/-- `g0`, `s0`: the credit buckets when the rollback starts; `gi`, `si`: now.  Rollback erases credits under the
    block being rolled back and rewrites (unspends) credits it finds through that block's debits. -/
structure RbCredP (addrs : List Addr) (bm : BlockMeta) (g0 s0 gi si : AMap.T CredKey Credit) : Prop where
  sub : ∀ k, AMap.get si k = AMap.get gi k ∨
    (AMap.get si k = none ∧ ∃ cr, AMap.get gi k = some cr ∧ addrs.contains cr.sh = true)
  new : ∀ k, k.blk = bm → AMap.get si k = AMap.get gi k
  old : ∀ k, k.blk ≠ bm → (AMap.get gi k = AMap.get g0 k ∧ AMap.get si k = AMap.get s0 k) ∨
    (∃ c0 c1, AMap.get s0 k = some c0 ∧ AMap.get g0 k = some c0 ∧ addrs.contains c0.sh = false ∧
      AMap.get si k = AMap.get gi k ∧ AMap.get gi k = some c1 ∧ c1.sh = c0.sh)
  newc : ∀ k cr, k.blk = bm → AMap.get gi k = some cr → addrs.contains cr.sh = true → AMap.get g0 k = some cr
  orig : ∀ k cr, AMap.get gi k = some cr → ∃ cr0, AMap.get g0 k = some cr0 ∧ cr0.sh = cr.sh

theorem RbCredP.erase {addrs : List Addr} {bm : BlockMeta} {g0 s0 gi si : AMap.T CredKey Credit}
    (h : RbCredP addrs bm g0 s0 gi si) {k : CredKey} (hk : k.blk = bm) :
    RbCredP addrs bm g0 s0 (AMap.erase gi k) (AMap.erase si k) := by
  constructor
  · intro k'
    rw [AMap.get_erase, AMap.get_erase]
    by_cases e : k = k'
    · simp [e]
    · simp only [e, if_false]; exact h.sub k'
  · intro k' hk'
    rw [AMap.get_erase, AMap.get_erase]
    by_cases e : k = k'
    · simp [e]
    · simp only [e, if_false]; exact h.new k' hk'
  · intro k' hk'
    have e : ¬ k = k' := fun e => hk' (e ▸ hk)
    rw [AMap.get_erase, AMap.get_erase]; simp only [e, if_false]; exact h.old k' hk'
  · intro k' cr hk' hcr
    rw [AMap.get_erase] at hcr
    by_cases e : k = k'
    · simp [e] at hcr
    · simp only [e, if_false] at hcr; exact h.newc k' cr hk' hcr
  · intro k' cr hcr
    rw [AMap.get_erase] at hcr
    by_cases e : k = k'
    · simp [e] at hcr
    · simp only [e, if_false] at hcr; exact h.orig k' cr hcr

theorem RbCredP.put {addrs : List Addr} {bm : BlockMeta} {g0 s0 gi si : AMap.T CredKey Credit}
    (h : RbCredP addrs bm g0 s0 gi si) {k : CredKey} {v c : Credit} (hv : addrs.contains v.sh = false)
    (hgc : AMap.get gi k = some c) (hsc : AMap.get si k = some c) (hsh : c.sh = v.sh) :
    RbCredP addrs bm g0 s0 (AMap.put gi k v) (AMap.put si k v) := by
  constructor
  · intro k'
    rw [AMap.get_put, AMap.get_put]
    by_cases e : k = k'
    · simp [e]
    · simp only [e, if_false]; exact h.sub k'
  · intro k' hk'
    rw [AMap.get_put, AMap.get_put]
    by_cases e : k = k'
    · simp [e]
    · simp only [e, if_false]; exact h.new k' hk'
  · intro k' hk'
    rw [AMap.get_put, AMap.get_put]
    by_cases e : k = k'
    · subst e
      rw [if_pos rfl, if_pos rfl]
      right
      rcases h.old k hk' with ⟨e1, e2⟩ | ⟨c0, c1, a1, a2, a3, _, a5, a6⟩
      · refine ⟨c, v, ?_, ?_, ?_, rfl, rfl, hsh.symm⟩
        · rw [← e2]; exact hsc
        · rw [← e1]; exact hgc
        · rw [hsh]; exact hv
      · refine ⟨c0, v, a1, a2, a3, rfl, rfl, ?_⟩
        rw [a5] at hgc
        cases hgc
        rw [← hsh]; exact a6
    · simp only [e, if_false]; exact h.old k' hk'
  · intro k' cr hk' hcr hp
    rw [AMap.get_put] at hcr
    by_cases e : k = k'
    · simp only [e, if_true, Option.some.injEq] at hcr
      rw [← hcr, hv] at hp; cases hp
    · simp only [e, if_false] at hcr; exact h.newc k' cr hk' hcr hp
  · intro k' cr hcr
    rw [AMap.get_put] at hcr
    by_cases e : k = k'
    · simp only [e, if_true, Option.some.injEq] at hcr
      subst e
      obtain ⟨cr0, a1, a2⟩ := h.orig k c hgc
      exact ⟨cr0, a1, by rw [a2, hsh, hcr]⟩
    · simp only [e, if_false] at hcr; exact h.orig k' cr hcr

-- ------------------------------------------------------------------ the loop invariant of a rollback

/-- `g`, `s`: ghost and real store when the rollback of block `bm` starts; `gi`, `si`: now -/
structure RbInv (addrs : List Addr) (bm : BlockMeta) (g s gi si : Store) : Prop where
  unspent : si.unspent = gi.unspent
  game : si.game = gi.game
  balance : si.balance = gi.balance
  sync : si.sync = gi.sync
  syncedTo : si.syncedTo = gi.syncedTo
  status : si.status = gi.status
  adr : si.addrs = gi.addrs
  cred : RbCredP addrs bm g.credits s.credits gi.credits si.credits
  debS : SubT gi.debits si.debits
  deb : TabP (fun k : CredKey => k.blk = bm) g.debits s.debits gi.debits si.debits
  debO : ∀ k d, AMap.get gi.debits k = some d → AMap.get g.debits k = some d
  txS : SubT gi.txrecs si.txrecs
  tx : TabP (fun k : TxId × BlockMeta => k.2 = bm) g.txrecs s.txrecs gi.txrecs si.txrecs
  blk : TabP (fun h : Nat => h = bm.height) g.blocks s.blocks gi.blocks si.blocks

variable {addrs : List Addr} {bm : BlockMeta} {g s gi si : Store}

theorem rbInv_init (hSub : Sub addrs g s) (hN : NewEq bm g s) : RbInv addrs bm g s g s := by
  refine ⟨hSub.unspent, hSub.game, hSub.balance, hSub.sync, hSub.syncedTo, hSub.status, hSub.addrs,
    ⟨hSub.credits, ?_, fun _ _ => Or.inl ⟨rfl, rfl⟩, fun _ _ _ h _ => h, fun _ cr h => ⟨cr, h, rfl⟩⟩,
    hSub.debits, ⟨?_, fun _ _ => rfl, fun _ _ => rfl⟩, fun _ _ h => h,
    hSub.txrecs, ⟨?_, fun _ _ => rfl, fun _ _ => rfl⟩, ⟨?_, fun _ _ => rfl, fun _ _ => rfl⟩⟩
  · intro k hk; cases k; cases hk; exact hN.credits _ _
  · intro k hk; cases k; cases hk; exact hN.debits _ _
  · intro k hk; cases k; cases hk; exact hN.txrecs _
  · intro k hk; cases hk; exact hN.blocks

theorem RbInv.minedEq {gi' si' : Store} (h : RbInv addrs bm g s gi si) (hg : MinedEq gi gi') (hs : MinedEq si si') :
    RbInv addrs bm g s gi' si' := by
  constructor
  · rw [hs.unspent, hg.unspent]; exact h.unspent
  · rw [hs.game, hg.game]; exact h.game
  · rw [hs.balance, hg.balance]; exact h.balance
  · rw [hs.sync, hg.sync]; exact h.sync
  · rw [hs.syncedTo, hg.syncedTo]; exact h.syncedTo
  · rw [hs.status, hg.status]; exact h.status
  · rw [hs.addrs, hg.addrs]; exact h.adr
  · rw [hs.credits, hg.credits]; exact h.cred
  · rw [hs.debits, hg.debits]; exact h.debS
  · rw [hs.debits, hg.debits]; exact h.deb
  · rw [hg.debits]; exact h.debO
  · rw [hs.txrecs, hg.txrecs]; exact h.txS
  · rw [hs.txrecs, hg.txrecs]; exact h.tx
  · rw [hs.blocks, hg.blocks]; exact h.blk

/-- the same function applied to the unspent index / the deposit records / the address records of both -/
theorem RbInv.withUnspent (h : RbInv addrs bm g s gi si) (f : AMap.T (Wid × TxId × Nat) BlockMeta → AMap.T (Wid × TxId × Nat) BlockMeta) :
    RbInv addrs bm g s { gi with unspent := f gi.unspent } { si with unspent := f si.unspent } :=
  ⟨by show f si.unspent = f gi.unspent; rw [h.unspent], h.game, h.balance, h.sync, h.syncedTo, h.status, h.adr,
    h.cred, h.debS, h.deb, h.debO, h.txS, h.tx, h.blk⟩

theorem RbInv.withGame (h : RbInv addrs bm g s gi si) (f : AMap.T GameKey Unit → AMap.T GameKey Unit) :
    RbInv addrs bm g s { gi with game := f gi.game } { si with game := f si.game } :=
  ⟨h.unspent, by show f si.game = f gi.game; rw [h.game], h.balance, h.sync, h.syncedTo, h.status, h.adr,
    h.cred, h.debS, h.deb, h.debO, h.txS, h.tx, h.blk⟩

theorem RbInv.withAddrs (h : RbInv addrs bm g s gi si)
    (f : AMap.T (Wid × Bool × Addr) Nat → AMap.T (Wid × Bool × Addr) Nat) :
    RbInv addrs bm g s { gi with addrs := f gi.addrs } { si with addrs := f si.addrs } :=
  ⟨h.unspent, h.game, h.balance, h.sync, h.syncedTo, h.status, by show f si.addrs = f gi.addrs; rw [h.adr],
    h.cred, h.debS, h.deb, h.debO, h.txS, h.tx, h.blk⟩

theorem RbInv.eraseCredit (h : RbInv addrs bm g s gi si) {k : CredKey} (hk : k.blk = bm) :
    RbInv addrs bm g s { gi with credits := AMap.erase gi.credits k } { si with credits := AMap.erase si.credits k } :=
  ⟨h.unspent, h.game, h.balance, h.sync, h.syncedTo, h.status, h.adr, h.cred.erase hk, h.debS, h.deb, h.debO,
    h.txS, h.tx, h.blk⟩

theorem RbInv.putCredit (h : RbInv addrs bm g s gi si) {k : CredKey} {v c : Credit}
    (hv : addrs.contains v.sh = false) (hgc : AMap.get gi.credits k = some c) (hsc : AMap.get si.credits k = some c)
    (hsh : c.sh = v.sh) :
    RbInv addrs bm g s { gi with credits := AMap.put gi.credits k v } { si with credits := AMap.put si.credits k v } :=
  ⟨h.unspent, h.game, h.balance, h.sync, h.syncedTo, h.status, h.adr, h.cred.put hv hgc hsc hsh, h.debS, h.deb,
    h.debO, h.txS, h.tx, h.blk⟩

theorem RbInv.eraseDebit (h : RbInv addrs bm g s gi si) {k : CredKey} (hk : k.blk = bm) :
    RbInv addrs bm g s { gi with debits := AMap.erase gi.debits k } { si with debits := AMap.erase si.debits k } := by
  refine ⟨h.unspent, h.game, h.balance, h.sync, h.syncedTo, h.status, h.adr, h.cred, h.debS.erase k, h.deb.erase hk,
    ?_, h.txS, h.tx, h.blk⟩
  intro k' d hd
  show AMap.get g.debits k' = some d
  have hd' : AMap.get (AMap.erase gi.debits k) k' = some d := hd
  rw [AMap.get_erase] at hd'
  by_cases e : k = k'
  · simp [e] at hd'
  · simp only [e, if_false] at hd'; exact h.debO k' d hd'

theorem RbInv.eraseTxrec (h : RbInv addrs bm g s gi si) (id : TxId) :
    RbInv addrs bm g s { gi with txrecs := AMap.erase gi.txrecs (id, bm) }
      { si with txrecs := AMap.erase si.txrecs (id, bm) } :=
  ⟨h.unspent, h.game, h.balance, h.sync, h.syncedTo, h.status, h.adr, h.cred, h.debS, h.deb, h.debO,
    h.txS.erase _, h.tx.erase rfl, h.blk⟩

theorem RbInv.eraseBlock (h : RbInv addrs bm g s gi si) :
    RbInv addrs bm g s { gi with blocks := AMap.erase gi.blocks bm.height }
      { si with blocks := AMap.erase si.blocks bm.height } :=
  ⟨h.unspent, h.game, h.balance, h.sync, h.syncedTo, h.status, h.adr, h.cred, h.debS, h.deb, h.debO,
    h.txS, h.tx, h.blk.erase rfl⟩

/-- the pair of working states: same working balances, stores related -/
def RbR (addrs : List Addr) (bm : BlockMeta) (g s : Store) (gb sb : Store × Bals) : Prop :=
  sb.2 = gb.2 ∧ RbInv addrs bm g s gb.1 sb.1
local macro "mined_rfl" : term => `(⟨rfl, rfl, rfl, rfl, rfl, rfl, rfl, rfl, rfl, rfl, rfl⟩)

-- ------------------------------------------------------------------ Rollback, function by function

theorem rbInv_rollbackAddr (h : RbInv addrs bm g s gi si) (w : Wid) (o : Out) (ch : Nat) :
    RbInv addrs bm g s (rollbackAddr gi w o ch) (rollbackAddr si w o ch) := by
  unfold rollbackAddr
  dsimp only
  have e : AMap.get si.addrs (w, o.cls.isStaking, o.addr) = AMap.get gi.addrs (w, o.cls.isStaking, o.addr) := by
    rw [h.adr]
  rw [e]
  cases AMap.get gi.addrs (w, o.cls.isStaking, o.addr) with
  | none => exact h
  | some x =>
    dsimp only
    split
    · exact h.withAddrs (fun a => AMap.put a (w, o.cls.isStaking, o.addr) 0)
    · exact h

theorem rollbackOwnedOut_sim {id : TxId} {blk : BlockMeta} {i : Nat} {o : Out} {w : Wid} {gb sb gb' : Store × Bals}
    (h : RbR addrs bm g s gb sb) (hg : rollbackOwnedOut id blk gb i o w = .ok gb') :
    ∃ sb', rollbackOwnedOut id blk sb i o w = .ok sb' ∧ RbR addrs bm g s gb' sb' := by
  obtain ⟨gi, bals⟩ := gb
  obtain ⟨si, bals'⟩ := sb
  obtain ⟨hb, h⟩ := h
  dsimp only at hb h
  subst hb
  unfold rollbackOwnedOut at hg ⊢
  dsimp only at hg ⊢
  have e : AMap.get si.unspent (w, id, i) = AMap.get gi.unspent (w, id, i) := by rw [h.unspent]
  rw [e]
  split at hg
  · rename_i hx
    rw [if_pos hx]
    split at hg
    · cases hg
    · rename_i hy
      rw [if_neg hy]
      cases hg
      exact ⟨_, rfl, rfl, rbInv_rollbackAddr (h.withUnspent (fun u => AMap.erase u (w, id, i))) _ _ _⟩
  · rename_i hx
    rw [if_neg hx]
    cases hg
    exact ⟨_, rfl, rfl, rbInv_rollbackAddr h _ _ _⟩

theorem rollbackCbOut_sim {c : Ctx} {id : TxId} {i : Nat} {o : Out} {ga sa ga' : (Store × Bals) × List (TxId × Nat)}
    (h : RbR addrs bm g s ga.1 sa.1) (hg : rollbackCbOut c id bm ga i o = .ok ga') :
    ∃ sa', rollbackCbOut c id bm sa i o = .ok sa' ∧ RbR addrs bm g s ga'.1 sa'.1 := by
  obtain ⟨⟨gi, bals⟩, gl⟩ := ga
  obtain ⟨⟨si, bals'⟩, sl⟩ := sa
  obtain ⟨hb, h⟩ := h
  dsimp only at hb h
  subst hb
  unfold rollbackCbOut at hg ⊢
  dsimp only at hg ⊢
  rw [h.cred.new ⟨id, bm, i⟩ rfl]
  cases hc : AMap.get gi.credits ⟨id, bm, i⟩ with
  | none => rw [hc] at hg; cases hg; exact ⟨_, rfl, rfl, h⟩
  | some cr =>
    rw [hc] at hg
    dsimp only at hg ⊢
    split at hg
    · cases hg
    rename_i hraw
    rw [if_neg hraw]
    have h1 := h.eraseCredit (k := ⟨id, bm, i⟩) rfl
    cases ho : AMap.get c.own o.addr with
    | none => rw [ho] at hg; cases hg; exact ⟨_, rfl, rfl, h1⟩
    | some wc =>
      obtain ⟨w, ch⟩ := wc
      rw [ho] at hg
      dsimp only at hg ⊢
      obtain ⟨gb1, h2, h3⟩ := M_bind_ok hg
      obtain ⟨sb1, hs2, hR⟩ := rollbackOwnedOut_sim
        (gb := ({ gi with credits := AMap.erase gi.credits ⟨id, bm, i⟩ }, bals'))
        (sb := ({ si with credits := AMap.erase si.credits ⟨id, bm, i⟩ }, bals')) ⟨rfl, h1⟩ h2
      rw [hs2]
      simp only [M_ok_bind]
      split at h3
      · rename_i hgm
        rw [if_pos hgm]
        cases h3
        exact ⟨_, rfl, hR.1, hR.2.withGame (fun m => AMap.erase m ⟨w, o.cls.isBinding, false, id, bm.height, i⟩)⟩
      · rename_i hgm
        rw [if_neg hgm]
        cases h3
        exact ⟨_, rfl, hR⟩

theorem rollbackOut_sim {c : Ctx} {id : TxId} {i : Nat} {o : Out} {gb sb gb' : Store × Bals}
    (h : RbR addrs bm g s gb sb) (hg : rollbackOut c id bm gb i o = .ok gb') :
    ∃ sb', rollbackOut c id bm sb i o = .ok sb' ∧ RbR addrs bm g s gb' sb' := by
  obtain ⟨gi, bals⟩ := gb
  obtain ⟨si, bals'⟩ := sb
  obtain ⟨hb, h⟩ := h
  dsimp only at hb h
  subst hb
  unfold rollbackOut at hg ⊢
  dsimp only at hg ⊢
  rw [h.cred.new ⟨id, bm, i⟩ rfl]
  cases hc : AMap.get gi.credits ⟨id, bm, i⟩ with
  | none => rw [hc] at hg; cases hg; exact ⟨_, rfl, rfl, h⟩
  | some cr =>
    rw [hc] at hg
    dsimp only at hg ⊢
    split at hg
    · cases hg
    rename_i hraw
    rw [if_neg hraw]
    have h1 : RbInv addrs bm g s
        { gi with credits := AMap.erase gi.credits ⟨id, bm, i⟩,
                  pendCred := AMap.put gi.pendCred (id, i) { cr with spentBy := none } }
        { si with credits := AMap.erase si.credits ⟨id, bm, i⟩,
                  pendCred := AMap.put si.pendCred (id, i) { cr with spentBy := none } } :=
      (h.eraseCredit (k := ⟨id, bm, i⟩) rfl).minedEq mined_rfl mined_rfl
    cases ho : AMap.get c.own o.addr with
    | none => rw [ho] at hg; cases hg; exact ⟨_, rfl, rfl, h1⟩
    | some wc =>
      obtain ⟨w, ch⟩ := wc
      rw [ho] at hg
      dsimp only at hg ⊢
      obtain ⟨gb1, h2, h3⟩ := M_bind_ok hg
      obtain ⟨sb1, hs2, hR⟩ := rollbackOwnedOut_sim
        (gb := ({ gi with credits := AMap.erase gi.credits ⟨id, bm, i⟩,
                          pendCred := AMap.put gi.pendCred (id, i) { cr with spentBy := none } }, bals'))
        (sb := ({ si with credits := AMap.erase si.credits ⟨id, bm, i⟩,
                          pendCred := AMap.put si.pendCred (id, i) { cr with spentBy := none } }, bals'))
        ⟨rfl, h1⟩ h2
      rw [hs2]
      simp only [M_ok_bind]
      split at h3
      · rename_i hgm
        rw [if_pos hgm]
        cases h3
        refine ⟨_, rfl, hR.1, ?_⟩
        exact (hR.2.withGame (fun m => AMap.erase m ⟨w, o.cls.isBinding, false, id, bm.height, i⟩)).minedEq
          mined_rfl mined_rfl
      · rename_i hgm
        rw [if_neg hgm]
        cases h3
        exact ⟨_, rfl, hR⟩
theorem rollbackIn_sim {c : Ctx} {id : TxId} {cur : Nat} {i : Inp} {gb sb gb' : Store × Bals}
    (hdeb : ∀ id i d cr, AMap.get g.debits ⟨id, bm, i⟩ = some d → AMap.get g.credits d.2 = some cr →
      addrs.contains cr.sh = false)
    (h : RbR addrs bm g s gb sb) (hg : rollbackIn c id bm gb cur i = .ok gb') :
    ∃ sb', rollbackIn c id bm sb cur i = .ok sb' ∧ RbR addrs bm g s gb' sb' := by
  obtain ⟨gi, bals⟩ := gb
  obtain ⟨si, bals'⟩ := sb
  obtain ⟨hb, h⟩ := h
  dsimp only at hb h
  subst hb
  unfold rollbackIn at hg ⊢
  dsimp only at hg ⊢
  rw [h.deb.new ⟨id, bm, cur⟩ rfl]
  have h0 : RbInv addrs bm g s { gi with pendIns := putPendIn gi.pendIns (i.tx, i.idx) id }
      { si with pendIns := putPendIn si.pendIns (i.tx, i.idx) id } := h.minedEq mined_rfl mined_rfl
  cases hd : AMap.get gi.debits ⟨id, bm, cur⟩ with
  | none => rw [hd] at hg; cases hg; exact ⟨_, rfl, rfl, h0⟩
  | some d =>
    obtain ⟨amt, ck⟩ := d
    rw [hd] at hg
    dsimp only at hg ⊢
    have h1 := h0.eraseDebit (k := ⟨id, bm, cur⟩) rfl
    cases hcr : AMap.get gi.credits ck with
    | none => rw [hcr] at hg; cases hg
    | some cr =>
      rw [hcr] at hg
      dsimp only at hg
      have hsh : addrs.contains cr.sh = false := by
        obtain ⟨cr0, a1, a2⟩ := h.cred.orig ck cr hcr
        rw [← a2]
        exact hdeb id cur (amt, ck) cr0 (h.debO _ _ hd) a1
      have hsc : AMap.get si.credits ck = some cr := by
        rcases h.cred.sub ck with e | ⟨_, cr1, e1, e2⟩
        · rw [e]; exact hcr
        · rw [hcr] at e1; cases e1; rw [hsh] at e2; cases e2
      rw [hsc]
      dsimp only
      have h2 := h1.putCredit (k := ck) (v := { cr with spent := false, spentBy := none }) (c := cr) hsh hcr hsc rfl
      cases ho : AMap.get c.own cr.sh with
      | none => rw [ho] at hg; cases hg; exact ⟨_, rfl, rfl, h2⟩
      | some wc =>
        obtain ⟨w, ch⟩ := wc
        rw [ho] at hg
        dsimp only at hg ⊢
        have h3 := h2.withUnspent (fun u => AMap.put u (w, i.tx, i.idx) ck.blk)
        split at hg
        · rename_i hcl
          rw [if_pos hcl]
          have e : AMap.get si.game ⟨w, cr.cls = .binding, true, i.tx, ck.blk.height, i.idx⟩ =
              AMap.get gi.game ⟨w, cr.cls = .binding, true, i.tx, ck.blk.height, i.idx⟩ := by rw [h.game]
          rw [e]
          split at hg
          · cases hg
          · rename_i hgm
            rw [if_neg hgm]
            cases hg
            exact ⟨_, rfl, rfl, h3.withGame (fun m => AMap.put (AMap.erase m
              ⟨w, cr.cls = .binding, true, i.tx, ck.blk.height, i.idx⟩)
              ⟨w, cr.cls = .binding, false, i.tx, ck.blk.height, i.idx⟩ ())⟩
        · rename_i hcl
          rw [if_neg hcl]
          cases hg
          exact ⟨_, rfl, rfl, h3⟩
theorem rollbackTx_sim {c : Ctx} {bals : Bals} {id : TxId} {r : Store × Bals × List (TxId × Nat)}
    (hdeb : ∀ id i d cr, AMap.get g.debits ⟨id, bm, i⟩ = some d → AMap.get g.credits d.2 = some cr →
      addrs.contains cr.sh = false)
    (h : RbInv addrs bm g s gi si) (hg : rollbackTx c gi bals bm id = .ok r) :
    ∃ r', rollbackTx c si bals bm id = .ok r' ∧ r'.2.1 = r.2.1 ∧ RbInv addrs bm g s r.1 r'.1 := by
  unfold rollbackTx at hg ⊢
  rw [h.tx.new (id, bm) rfl]
  cases ht : AMap.get gi.txrecs (id, bm) with
  | none => rw [ht] at hg; cases hg; exact ⟨_, rfl, rfl, h⟩
  | some loc =>
    rw [ht] at hg
    dsimp only at hg ⊢
    cases hl : c.node.txByFileLoc loc with
    | none => rw [hl] at hg; cases hg
    | some tx =>
      rw [hl] at hg
      dsimp only at hg ⊢
      have h1 := h.eraseTxrec id
      by_cases hcb : tx.cb = true
      · rw [if_pos hcb] at hg ⊢
        obtain ⟨ga, h2, h3⟩ := M_bind_ok hg
        obtain ⟨sa, hs2, hR⟩ := foldIdxM_sim
          (fun (ga sa : (Store × Bals) × List (TxId × Nat)) => RbR addrs bm g s ga.1 sa.1)
          (rollbackCbOut c id bm) (rollbackCbOut c id bm) tx.outs
          (fun _ _ _ _ _ _ hR hf => rollbackCbOut_sim hR hf)
          (b := (({ gi with txrecs := AMap.erase gi.txrecs (id, bm) }, bals), []))
          (c := (({ si with txrecs := AMap.erase si.txrecs (id, bm) }, bals), [])) ⟨rfl, h1⟩ h2
        rw [hs2]
        cases h3
        exact ⟨_, rfl, hR.1, hR.2⟩
      · rw [if_neg hcb] at hg ⊢
        obtain ⟨gb1, h2, h3⟩ := M_bind_ok hg
        obtain ⟨gb2, h4, h5⟩ := M_bind_ok h3
        cases h5
        have h1' : RbInv addrs bm g s
            { gi with txrecs := AMap.erase gi.txrecs (id, bm), pending := AMap.put gi.pending id tx }
            { si with txrecs := AMap.erase si.txrecs (id, bm), pending := AMap.put si.pending id tx } :=
          h1.minedEq mined_rfl mined_rfl
        obtain ⟨sb1, hs2, hR1⟩ := foldIdxM_sim (RbR addrs bm g s) (rollbackIn c id bm) (rollbackIn c id bm) tx.ins
          (fun _ _ _ _ _ _ hR hf => rollbackIn_sim hdeb hR hf)
          (b := ({ gi with txrecs := AMap.erase gi.txrecs (id, bm), pending := AMap.put gi.pending id tx }, bals))
          (c := ({ si with txrecs := AMap.erase si.txrecs (id, bm), pending := AMap.put si.pending id tx }, bals))
          ⟨rfl, h1'⟩ h2
        obtain ⟨sb2, hs4, hR2⟩ := foldIdxM_sim (RbR addrs bm g s) (rollbackOut c id bm) (rollbackOut c id bm) tx.outs
          (fun _ _ _ _ _ _ hR hf => rollbackOut_sim hR hf) hR1 h4
        rw [hs2]
        simp only [M_ok_bind]
        rw [hs4]
        exact ⟨_, rfl, hR2.1, hR2.2⟩

/-- accumulators of Rollback's outer loop: same working balances and heights, stores related -/
def RbA (addrs : List Addr) (bm : BlockMeta) (g s : Store) (ga sa : RbAcc) : Prop :=
  sa.bals = ga.bals ∧ sa.heights = ga.heights ∧ RbInv addrs bm g s ga.s sa.s

/-- one block record, the tip's: `bm = ⟨cur, bh⟩` for the recorded hash -/
theorem rollbackBlockAt_sim {c : Ctx} {ga sa ga' : RbAcc} {bh : BlkId} {txs : List TxId}
    (hdeb : ∀ id i d cr, AMap.get g.debits ⟨id, bm, i⟩ = some d → AMap.get g.credits d.2 = some cr →
      addrs.contains cr.sh = false)
    (hrec : AMap.get ga.s.blocks bm.height = some (bh, txs)) (hbh : bm.hash = bh)
    (h : RbA addrs bm g s ga sa) (hg : rollbackBlockAt c ga bm.height = .ok ga') :
    ∃ sa', rollbackBlockAt c sa bm.height = .ok sa' ∧ RbA addrs bm g s ga' sa' ∧
      ga'.heights = ga.heights ++ [bm.height] := by
  obtain ⟨hb, hh, h⟩ := h
  unfold rollbackBlockAt at hg ⊢
  rw [h.blk.new bm.height rfl, hrec]
  rw [hrec] at hg
  dsimp only at hg ⊢
  have hbm : (⟨bm.height, bh⟩ : BlockMeta) = bm := by cases bm; cases hbh; rfl
  rw [hbm] at hg ⊢
  have key := foldlM_sim
    (fun ga sa => RbA addrs bm g s ga sa ∧ True)
    (fun (a : RbAcc) id => do
      let (s', bals', rem) ← rollbackTx c a.s a.bals bm id
      pure { a with s := s', bals := bals', cb := a.cb ++ rem })
    (fun (a : RbAcc) id => do
      let (s', bals', rem) ← rollbackTx c a.s a.bals bm id
      pure { a with s := s', bals := bals', cb := a.cb ++ rem }) txs.reverse
    (by
      intro a a' id b' _ hR hf
      obtain ⟨⟨e1, e2, hI⟩, _⟩ := hR
      obtain ⟨r, q1, q2⟩ := M_bind_ok hf
      obtain ⟨r', q3, q4, q5⟩ := rollbackTx_sim hdeb hI q1
      cases q2
      refine ⟨{ a' with s := r'.1, bals := r'.2.1, cb := a'.cb ++ r'.2.2 }, ?_, ⟨q4, e2, q5⟩, trivial⟩
      rw [e1, q3]
      rfl)
    (b := { ga with heights := ga.heights ++ [bm.height] })
    (c := { sa with heights := sa.heights ++ [bm.height] })
    ⟨⟨hb, by show sa.heights ++ _ = ga.heights ++ _; rw [hh], h⟩, trivial⟩ hg
  obtain ⟨sa', k1, ⟨k2, _⟩⟩ := key
  refine ⟨sa', k1, k2, ?_⟩
  exact foldlM_preserves (fun (a : RbAcc) => a.heights = ga.heights ++ [bm.height]) _ _
    (by
      intro a id a' _ ha hf
      obtain ⟨r, _, q2⟩ := M_bind_ok hf
      cases q2
      exact ha) rfl hg
theorem tip_heights (h : Nat) : (List.range (h + 1 - h)).map (fun k => h - k) = [h] := by
  rw [Nat.add_sub_cancel_left]; rfl

theorem rollback_sim {c : Ctx} {g1 : Store} {bh : BlkId} {txs : List TxId}
    (hdeb : ∀ id i d cr, AMap.get g.debits ⟨id, bm, i⟩ = some d → AMap.get g.credits d.2 = some cr →
      addrs.contains cr.sh = false)
    (hSub : Sub addrs g s) (hN : NewEq bm g s) (hsy : g.syncedTo = bm.height)
    (hrec : AMap.get g.blocks bm.height = some (bh, txs)) (hbh : bm.hash = bh)
    (hg : rollback c g bm.height = .ok g1) :
    ∃ s1, rollback c s bm.height = .ok s1 ∧ RbInv addrs bm g s g1 s1 := by
  unfold rollback at hg ⊢
  rw [hSub.syncedTo]
  rw [hsy, tip_heights] at hg ⊢
  dsimp only at hg ⊢
  obtain ⟨ga, h1, h2⟩ := M_bind_ok hg
  rw [List.foldlM_cons] at h1
  obtain ⟨ga', h1a, h1b⟩ := M_bind_ok h1
  cases h1b
  obtain ⟨sa, hs1, ⟨hb, hh, hI⟩, hhe⟩ := rollbackBlockAt_sim (c := c) hdeb (ga := { s := g, bals := g.balance })
    (sa := { s := s, bals := s.balance }) hrec hbh ⟨hSub.balance, rfl, rbInv_init hSub hN⟩ h1a
  cases h2
  rw [List.foldlM_cons, hs1]
  simp only [M_ok_bind, List.foldlM_nil]
  refine ⟨_, rfl, ?_⟩
  rw [hh, hhe]
  have hE := hI.eraseBlock
  have hP := hE.minedEq
    (minedEq_foldl (purgeSpenders c.own) ga.cb _ (fun s op _ => minedEq_purgeSpenders c.own s op))
    (minedEq_foldl (purgeSpenders c.own) sa.cb _ (fun s op _ => minedEq_purgeSpenders c.own s op))
  refine ⟨hP.unspent, hP.game, ?_, hP.sync, hP.syncedTo, hP.status, hP.adr, hP.cred, hP.debS, hP.deb, hP.debO,
    hP.txS, hP.tx, hP.blk⟩
  show mergeBalances sa.bals _ = mergeBalances ga.bals _
  rw [hb]
  exact congrArg _ hP.balance
-- ------------------------------------------------------------------ disconnectBlock

/-- the simulation for the tip block, with the whole invariant as conclusion -/
theorem disconnectBlock_rbInv {c : Ctx} {g' : Store} {h : Nat} {bh : BlkId} {txs : List TxId}
    (hSub : Sub addrs g s) (hh : g.syncedTo = h) (h0 : h ≠ 0)
    (hrec : AMap.get g.blocks h = some (bh, txs)) (hN : NewEq ⟨h, bh⟩ g s)
    (hdeb : ∀ id i d cr, AMap.get g.debits ⟨id, ⟨h, bh⟩, i⟩ = some d → AMap.get g.credits d.2 = some cr →
      addrs.contains cr.sh = false)
    (hg : disconnectBlock c g h = .ok g') :
    ∃ s', disconnectBlock c s h = .ok s' ∧ RbInv addrs ⟨h, bh⟩ g s g' s' := by
  unfold disconnectBlock at hg ⊢
  rw [if_neg h0] at hg ⊢
  rw [hSub.syncedTo]
  have hlt : ¬ h > g.syncedTo := by rw [hh]; exact Nat.lt_irrefl h
  rw [if_neg hlt] at hg ⊢
  obtain ⟨g1, h1, h2⟩ := M_bind_ok hg
  cases h2
  obtain ⟨s1, hs1, hI⟩ := rollback_sim (bm := ⟨h, bh⟩) (c := c) hdeb hSub hN hh hrec rfl h1
  rw [hs1]
  refine ⟨_, rfl, ?_⟩
  refine ⟨hI.unspent, hI.game, hI.balance, ?_, ?_, ?_, hI.adr, hI.cred, hI.debS, hI.deb, hI.debO, hI.txS, hI.tx,
    hI.blk⟩
  · show (resetSyncedTo s1 (h - 1)).sync = (resetSyncedTo g1 (h - 1)).sync
    unfold resetSyncedTo
    dsimp only
    rw [hI.sync, hI.syncedTo]
  · show (resetSyncedTo s1 (h - 1)).syncedTo = (resetSyncedTo g1 (h - 1)).syncedTo
    unfold resetSyncedTo
    dsimp only
    rw [hI.syncedTo]
  · show List.map _ s1.status = List.map _ g1.status
    rw [hI.status]

/-- ROLLBACK SIMULATION: disconnecting the tip block `⟨h, bh⟩` (the one with a block record) succeeds on the real
    store whenever it does on the ghost, and the result is again "ghost minus the same records" -/
theorem disconnectBlock_sim {addrs : List Addr} {c : Ctx} {g s g' : Store} {h : Nat} {bh : BlkId} {txs : List TxId}
    (hSub : Sub addrs g s) (hng : KeysNodup g.credits) (hns : KeysNodup s.credits)
    (hh : g.syncedTo = h) (h0 : h ≠ 0)
    (hrec : AMap.get g.blocks h = some (bh, txs)) (hN : NewEq ⟨h, bh⟩ g s)
    (hdeb : ∀ id i d cr, AMap.get g.debits ⟨id, ⟨h, bh⟩, i⟩ = some d → AMap.get g.credits d.2 = some cr →
      addrs.contains cr.sh = false)
    (hg : disconnectBlock c g h = .ok g') :
    ∃ s', disconnectBlock c s h = .ok s' ∧ Sub addrs g' s' ∧ KeysNodup s'.credits ∧ KeysNodup g'.credits ∧
      NewEq ⟨h, bh⟩ g' s' ∧ AMap.get s'.blocks h = AMap.get g'.blocks h ∧
      (∀ k, k.2 ≠ ⟨h, bh⟩ → AMap.get s'.txrecs k = AMap.get s.txrecs k) ∧
      (∀ h', h' ≠ h → AMap.get s'.blocks h' = AMap.get s.blocks h') ∧
      (∀ k, k.blk ≠ ⟨h, bh⟩ → AMap.get s'.debits k = AMap.get s.debits k) ∧
      (∀ k, k.2 ≠ ⟨h, bh⟩ → AMap.get g'.txrecs k = AMap.get g.txrecs k) ∧
      (∀ h', h' ≠ h → AMap.get g'.blocks h' = AMap.get g.blocks h') ∧
      (∀ k, k.blk ≠ ⟨h, bh⟩ → AMap.get g'.debits k = AMap.get g.debits k) ∧
      (∀ k, k.blk ≠ ⟨h, bh⟩ → AMap.get s'.credits k = AMap.get s.credits k ∨
        (∃ c0, AMap.get s.credits k = some c0 ∧ AMap.get g.credits k = some c0 ∧ addrs.contains c0.sh = false ∧
          AMap.get s'.credits k = AMap.get g'.credits k)) ∧
      (∀ k cr, k.blk ≠ ⟨h, bh⟩ → AMap.get g.credits k = some cr → addrs.contains cr.sh = true →
        AMap.get g'.credits k = some cr) ∧
      (∀ k cr, AMap.get g'.credits k = some cr → addrs.contains cr.sh = true → AMap.get g.credits k = some cr) := by
  obtain ⟨s', hs, hI⟩ := disconnectBlock_rbInv hSub hh h0 hrec hN hdeb hg
  refine ⟨s', hs,
    ⟨hI.unspent, hI.game, hI.balance, hI.sync, hI.syncedTo, hI.status, hI.cred.sub, hI.debS, hI.txS, hI.adr⟩,
    cn_disconnectBlock hns hs, cn_disconnectBlock hng hg,
    ⟨fun id => hI.tx.new (id, _) rfl, hI.blk.new _ rfl, fun id i => hI.cred.new ⟨id, _, i⟩ rfl,
      fun id i => hI.deb.new ⟨id, _, i⟩ rfl⟩, hI.blk.new _ rfl,
    hI.tx.frame, hI.blk.frame, hI.deb.frame, hI.tx.gframe, hI.blk.gframe, hI.deb.gframe, ?_, ?_, ?_⟩
  · intro k hk
    rcases hI.cred.old k hk with ⟨_, e⟩ | ⟨c0, _, a1, a2, a3, a4, _, _⟩
    · exact Or.inl e
    · exact Or.inr ⟨c0, a1, a2, a3, a4⟩
  · intro k cr hb hk hsh
    rcases hI.cred.old k hb with ⟨e, _⟩ | ⟨c0, _, _, a2, a3, _, _, _⟩
    · rw [e]; exact hk
    · rw [hk] at a2; cases a2; rw [hsh] at a3; cases a3
  · intro k cr hk hsh
    by_cases hb : k.blk = ⟨h, bh⟩
    · exact hI.cred.newc k cr hb hk hsh
    · rcases hI.cred.old k hb with ⟨e, _⟩ | ⟨c0, c1, _, _, a3, _, a5, a6⟩
      · rw [← e]; exact hk
      · rw [hk] at a5; cases a5; rw [a6, a3] at hsh; cases hsh

/-- the tip has no block record: Rollback finds nothing to undo, only the balances are rewritten (with the same
    values) and the sync table / status map move — identically on both stores; every other mined bucket stays -/
theorem disconnectBlock_sim_none {addrs : List Addr} {c : Ctx} {g s g' : Store} {h : Nat}
    (hSub : Sub addrs g s) (hh : g.syncedTo = h) (h0 : h ≠ 0)
    (hrec : AMap.get g.blocks h = none) (hblk : AMap.get s.blocks h = AMap.get g.blocks h)
    (hg : disconnectBlock c g h = .ok g') :
    ∃ s', disconnectBlock c s h = .ok s' ∧ Sub addrs g' s' ∧
      s'.credits = s.credits ∧ s'.debits = s.debits ∧ s'.txrecs = s.txrecs ∧ s'.blocks = s.blocks ∧
      g'.credits = g.credits ∧ g'.debits = g.debits ∧ g'.txrecs = g.txrecs ∧ g'.blocks = g.blocks := by
  have hrs : AMap.get s.blocks h = none := by rw [hblk, hrec]
  have key : ∀ st : Store, st.syncedTo = h → AMap.get st.blocks h = none →
      rollback c st h = .ok { st with balance := mergeBalances st.balance st.balance } := by
    intro st e1 e2
    have e : rollbackBlockAt c { s := st, bals := st.balance } h = .ok { s := st, bals := st.balance } := by
      unfold rollbackBlockAt
      dsimp only
      rw [e2]
      rfl
    unfold rollback
    rw [e1, tip_heights]
    dsimp only
    rw [List.foldlM_cons, e]
    simp only [M_ok_bind, List.foldlM_nil, M_pure_eq, List.foldl_nil]
    rw [e1]
  unfold disconnectBlock at hg ⊢
  rw [if_neg h0] at hg ⊢
  rw [hSub.syncedTo]
  have hlt : ¬ h > g.syncedTo := by rw [hh]; exact Nat.lt_irrefl h
  rw [if_neg hlt] at hg ⊢
  rw [key g hh hrec] at hg
  rw [key s (hSub.syncedTo.trans hh) hrs]
  cases hg
  refine ⟨_, rfl, ?_, rfl, rfl, rfl, rfl, rfl, rfl, rfl, rfl⟩
  refine ⟨hSub.unspent, hSub.game, ?_, ?_, ?_, ?_, hSub.credits, hSub.debits, hSub.txrecs, hSub.addrs⟩
  · show mergeBalances s.balance s.balance = mergeBalances g.balance g.balance
    rw [hSub.balance]
  · show (resetSyncedTo { s with balance := _ } (h - 1)).sync = (resetSyncedTo { g with balance := _ } (h - 1)).sync
    unfold resetSyncedTo
    dsimp only
    rw [hSub.sync, hSub.syncedTo]
  · show (resetSyncedTo { s with balance := _ } (h - 1)).syncedTo =
      (resetSyncedTo { g with balance := _ } (h - 1)).syncedTo
    unfold resetSyncedTo
    dsimp only
    rw [hSub.syncedTo]
  · show List.map _ s.status = List.map _ g.status
    rw [hSub.status]

end MW.Lemmas.RemoveSim
