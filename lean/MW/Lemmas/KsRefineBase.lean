/-
  The symbolic keystore model (MW.Model.Secrets) as an abstraction of the byte level (MW.Model.KsBytes), part 1:
  the laws of the byte-level primitives, "last write wins" for both stores, location / abstraction of keys, the
  representation relation `Rep` and its generic preservation theorem.
-/
import MW.Model.KsBytes
import MW.Lemmas.KsCodecDb
import MW.Lemmas.SecretsDB
namespace MW.KsRefine
open MW MW.Model.Secrets MW.Model.KsCodec MW.Model.KsBytes MW.KsCodecL

/-- what the refinement needs of the primitives (nothing about secrecy yet): sizes the snacl codec accepts, sealed boxes
    are never empty (ldb refuses empty values), the wallet naming is a bijection between symbolic names and non-empty ids -/
structure Laws (C : BCrypto) : Prop where
  salt_len : ∀ n, (C.salt n).length = 32
  sha_len : ∀ x, (C.sha x).length = 32
  cost : -9223372036854775808 ≤ C.N ∧ C.N < 9223372036854775808 ∧ -9223372036854775808 ≤ C.R ∧
    C.R < 9223372036854775808 ∧ -9223372036854775808 ≤ C.P ∧ C.P < 9223372036854775808
  box_ne : ∀ k p, C.box k p ≠ []
  id_ne : ∀ w, C.walletId w ≠ []
  name_id : ∀ w, C.nameOf (C.walletId w) = some w
  id_name : ∀ b w, C.nameOf b = some w → C.walletId w = b

-- ------------------------------------------------------------------ last write wins

section lastW
variable {α β : Type} [DecidableEq α]

/-- the value of the last write to `a` in a write list -/
def lastW : List (α × β) → α → Option β
  | [], _ => none
  | x :: xs, a => (lastW xs a).or (if x.1 = a then some x.2 else none)

theorem lastW_append (xs ys : List (α × β)) (a : α) : lastW (xs ++ ys) a = (lastW ys a).or (lastW xs a) := by
  induction xs with
  | nil => simp [lastW]
  | cons x xs ih => simp only [List.cons_append, lastW, ih, Option.or_assoc]

theorem lastW_none_iff (xs : List (α × β)) (a : α) : lastW xs a = none ↔ ∀ x ∈ xs, x.1 ≠ a := by
  induction xs with
  | nil => simp [lastW]
  | cons x xs ih =>
    simp only [lastW, Option.or_eq_none_iff, ih, List.mem_cons, forall_eq_or_imp]
    constructor
    · rintro ⟨h1, h2⟩; exact ⟨by simpa using h2, h1⟩
    · rintro ⟨h1, h2⟩; exact ⟨h2, by simp [h1]⟩

theorem lastW_mem {xs : List (α × β)} {a : α} {v : β} (h : lastW xs a = some v) : (a, v) ∈ xs := by
  induction xs with
  | nil => simp [lastW] at h
  | cons x xs ih =>
    simp only [lastW] at h
    cases hx : lastW xs a with
    | some v' =>
      rw [hx] at h; simp at h; subst h
      exact List.mem_cons_of_mem _ (ih hx)
    | none =>
      rw [hx] at h
      by_cases hxa : x.1 = a
      · simp [hxa] at h; subst h; subst hxa; exact List.mem_cons_self
      · simp [hxa] at h

/-- mapping the keys injectively (on the keys that occur and the key asked for) and the values pointwise -/
theorem lastW_map {γ δ : Type} [DecidableEq γ] (f : α → γ) (g : α → β → δ) (xs : List (α × β)) (a : α)
    (hinj : ∀ x ∈ xs, f x.1 = f a → x.1 = a) :
    lastW (xs.map (fun x => (f x.1, g x.1 x.2))) (f a) = (lastW xs a).map (g a) := by
  induction xs with
  | nil => simp [lastW]
  | cons x xs ih =>
    simp only [List.map_cons, lastW]
    rw [ih (fun y hy => hinj y (List.mem_cons_of_mem _ hy))]
    cases lastW xs a with
    | some v => simp
    | none =>
      by_cases hxa : x.1 = a
      · simp [hxa]
      · have : ¬ f x.1 = f a := fun h => hxa (hinj x List.mem_cons_self h)
        simp [hxa, this]

end lastW

theorem get_putAll_lastW (es : List (Key × Term)) : ∀ (db : DB) (K : Key),
    AMap.get (putAll db es) K = (lastW es K).or (AMap.get db K) := by
  induction es with
  | nil => intro db K; simp [putAll, lastW]
  | cons e es ih =>
    intro db K
    rw [MW.Lemmas.SecretsDB.putAll_cons, ih, AMap.get_put]
    simp only [lastW]
    cases lastW es K <;> by_cases h : e.1 = K <;> simp [h]

-- ------------------------------------------------------------------ the byte tree

theorem set_same (t : Tree) (p : BPath) (b : Bucket) : (t.set p b) p = b := by simp [Tree.set]
theorem set_other (t : Tree) {p q : BPath} (b : Bucket) (h : q ≠ p) : (t.set p b) q = t q := by simp [Tree.set, h]

theorem tget_tins (t : Tree) (l l' : BPath × Bytes) (v : Bytes) (hl : l.2 ≠ []) :
    tget (tins t l v) l' = if l' = l then some v else tget t l' := by
  obtain ⟨p, k⟩ := l
  obtain ⟨p', k'⟩ := l'
  unfold tget tins
  by_cases hp : p' = p
  · subst hp
    simp only [set_same, bget_insert _ _ _ _ hl, Prod.mk.injEq, true_and]
  · have : ¬ ((p', k') = (p, k)) := fun h => hp (Prod.mk.inj h).1
    simp only [set_other _ _ hp, this, if_false]

theorem tget_tinsAll (ws : List ((BPath × Bytes) × Bytes)) (hk : ∀ x ∈ ws, x.1.2 ≠ []) :
    ∀ (t : Tree) (l : BPath × Bytes), tget (tinsAll t ws) l = (lastW ws l).or (tget t l) := by
  induction ws with
  | nil => intro t l; simp [tinsAll, lastW]
  | cons x xs ih =>
    intro t l
    have h1 := ih (fun y hy => hk y (List.mem_cons_of_mem _ hy)) (tins t x.1 x.2) l
    simp only [tinsAll, List.foldl_cons] at h1 ⊢
    rw [h1, tget_tins _ _ _ _ (hk x List.mem_cons_self)]
    simp only [lastW]
    by_cases h : x.1 = l
    · subst h; cases lastW xs x.1 <;> simp
    · have h' : ¬ l = x.1 := fun e => h e.symm
      cases lastW xs l <;> simp [h, h']

theorem tinsAll_append (t : Tree) (xs ys : List ((BPath × Bytes) × Bytes)) :
    tinsAll t (xs ++ ys) = tinsAll (tinsAll t xs) ys := by simp [tinsAll]

/-- a Put through `onB` that the bucket accepts is an insertion -/
theorem onB_bput (t : Tree) (p : BPath) {k v : Bytes} (hk : k ≠ []) (hv : v ≠ []) :
    onB t p (fun b => bput b k v) = .ok (tins t (p, k) v) := by
  simp [onB, bput_ok _ hk hv, tins, Except.map]

-- ------------------------------------------------------------------ locations

/-- the symbolic keys that have a byte location of their own: account 1 only (another account number may alias a name:
    `account_key_aliases_kver`), branch and index below 2^32 (beyond, keys collide: `pubKeyKey_overflow_collides`) -/
def KeyOk : KeyName → Prop
  | .acct n => n = 1
  | .pubk b i => b < 4294967296 ∧ i < 4294967296
  | _ => True

instance (k : KeyName) : Decidable (KeyOk k) := by cases k <;> simp only [KeyOk] <;> infer_instance

theorem genName_dbName : ∀ k ∈ fixedKeys, KeyName.dbName k = some (genName k) := by decide

theorem fixedOfBytes_key : ∀ k ∈ fixedKeys, fixedOfBytes (key (genName k)) = some k := by decide

theorem fixedOfBytes_acct1 : fixedOfBytes (u32Bytes 1) = none := by decide

theorem fixedOfBytes_sound {kb : Bytes} {k : KeyName} (h : fixedOfBytes kb = some k) : k ∈ fixedKeys ∧ key (genName k) = kb := by
  unfold fixedOfBytes at h
  exact ⟨List.mem_of_find?_eq_some h, by simpa using List.find?_some h⟩

theorem loc_fixed (C : BCrypto) (w : String) : ∀ k ∈ fixedKeys, loc C (w, k) = (.acct (C.walletId w), key (genName k)) := by
  intro k hk
  simp only [fixedKeys, List.mem_cons, List.not_mem_nil, or_false] at hk
  rcases hk with rfl | rfl | rfl | rfl | rfl | rfl | rfl | rfl | rfl | rfl | rfl | rfl | rfl | rfl <;> rfl

theorem loc_key_ne (C : BCrypto) (L : Laws C) (K : Key) (hK : KeyOk K.2) : (loc C K).2 ≠ [] := by
  obtain ⟨w, k⟩ := K
  cases k <;> simp only [loc] <;> first
    | exact L.id_ne w
    | exact u32Bytes_ne_nil _
    | decide
    | exact fun h => by have := congrArg List.length h; simp [pubKeyKey_length] at this

theorem unloc_loc (C : BCrypto) (L : Laws C) (K : Key) (hK : KeyOk K.2) : unloc C (loc C K).1 (loc C K).2 = some K := by
  obtain ⟨w, k⟩ := K
  have hfix : ∀ k ∈ fixedKeys, unloc C (loc C (w, k)).1 (loc C (w, k)).2 = some (w, k) := by
    intro k hk
    rw [loc_fixed C w k hk]
    simp [unloc, L.name_id, unlocKey, fixedOfBytes_key k hk]
  cases k with
  | acct n =>
    have : n = 1 := hK
    subst this
    simp [loc, unloc, L.name_id, unlocKey, fixedOfBytes_acct1, MW.Gen.Keystore.walletUsage]
  | pubk b i =>
    obtain ⟨hb, hi⟩ : b < 4294967296 ∧ i < 4294967296 := hK
    simp only [loc, unloc, L.name_id, Option.bind_some, pubKeyKey_length, if_true]
    rw [pubKeyKey_eq]
    have h4 : (leBytes 4 b).length = 4 := by simp
    rw [List.take_left' h4, List.drop_left' h4, ofLE_leBytes_of_lt (by omega), ofLE_leBytes_of_lt (by omega)]
  | aid => simp [loc, unloc, L.name_id]
  | _ => exact hfix _ (by decide)

theorem unloc_sound (C : BCrypto) (L : Laws C) {p : BPath} {kb : Bytes} {K : Key} (h : unloc C p kb = some K) :
    loc C K = (p, kb) ∧ KeyOk K.2 := by
  cases p with
  | aid =>
    simp only [unloc, Option.map_eq_some_iff] at h
    obtain ⟨w, hw, rfl⟩ := h
    exact ⟨by simp [loc, L.id_name _ _ hw], trivial⟩
  | acct id =>
    simp only [unloc, Option.bind_eq_some_iff, Option.map_eq_some_iff] at h
    obtain ⟨w, hw, k, hk, rfl⟩ := h
    have hid := L.id_name _ _ hw
    unfold unlocKey at hk
    cases hf : fixedOfBytes kb with
    | some k' =>
      rw [hf] at hk
      cases hk
      obtain ⟨hm, hkey⟩ := fixedOfBytes_sound hf
      refine ⟨by rw [loc_fixed C w k hm, hid, hkey], ?_⟩
      simp only [fixedKeys, List.mem_cons, List.not_mem_nil, or_false] at hm
      rcases hm with rfl | rfl | rfl | rfl | rfl | rfl | rfl | rfl | rfl | rfl | rfl | rfl | rfl | rfl <;> trivial
    | none =>
      rw [hf] at hk
      simp only at hk
      split at hk
      · rename_i he
        cases hk
        exact ⟨by simp [loc, hid, he, MW.Gen.Keystore.walletUsage], rfl⟩
      · cases hk
  | pub id =>
    simp only [unloc, Option.bind_eq_some_iff] at h
    obtain ⟨w, hw, hk⟩ := h
    have hid := L.id_name _ _ hw
    split at hk
    · rename_i hlen
      cases hk
      have h4 : (kb.take 4).length = 4 := by simp [hlen]
      have h4' : (kb.drop 4).length = 4 := by simp [hlen]
      refine ⟨?_, ?_⟩
      · simp only [loc, hid, pubKeyKey_eq, Prod.mk.injEq, true_and]
        have e1 := leBytes_ofLE (kb.take 4)
        have e2 := leBytes_ofLE (kb.drop 4)
        rw [h4] at e1
        rw [h4'] at e2
        rw [e1, e2, List.take_append_drop]
      · have b1 := ofLE_lt (kb.take 4)
        have b2 := ofLE_lt (kb.drop 4)
        rw [h4] at b1
        rw [h4'] at b2
        exact ⟨by omega, by omega⟩
    · cases hk

/-- two representable keys with the same byte location are the same key -/
theorem loc_inj (C : BCrypto) (L : Laws C) {K K' : Key} (hK : KeyOk K.2) (hK' : KeyOk K'.2) (h : loc C K = loc C K') : K = K' := by
  have h1 := unloc_loc C L K hK
  rw [h, unloc_loc C L K' hK'] at h1
  exact (Option.some.inj h1).symm

-- ------------------------------------------------------------------ the representation relation

/-- the byte tree `t` REPRESENTS the symbolic database `db` under the public valuation ρ: at every byte location the
    tree holds exactly the concretisation of the term the symbolic store holds at the abstracted key (nothing at
    locations that abstract to no key), and every symbolic key has a location of its own -/
def Rep (C : BCrypto) (ρ : PubVal) (db : DB) (t : Tree) : Prop :=
  (∀ p kb, tget t (p, kb) = (unloc C p kb).bind (fun K => (AMap.get db K).map (valBytes C ρ K))) ∧
  (∀ K, (AMap.get db K).isSome → KeyOk K.2)

theorem rep_empty (C : BCrypto) (ρ : PubVal) : Rep C ρ [] (fun _ => []) := by
  refine ⟨fun p kb => ?_, fun K h => by simp [AMap.get] at h⟩
  cases h : unloc C p kb <;> simp [tget, bget, KV.SMap.get, AMap.get]

/-- reading through the representation -/
theorem rep_get {C : BCrypto} (L : Laws C) {ρ : PubVal} {db : DB} {t : Tree} (h : Rep C ρ db t) (K : Key) (hK : KeyOk K.2) :
    tget t (loc C K) = (AMap.get db K).map (valBytes C ρ K) := by
  have := h.1 (loc C K).1 (loc C K).2
  rw [unloc_loc C L K hK] at this
  simpa using this

/-- SYM_WRITE_REFINES_BYTES, generic form.  A symbolic write list `es` and a byte write list `ws` such that the last byte
    write at the location of every representable key is the concretisation of the last symbolic write to that key, the
    byte writes hit only locations of written symbolic keys, and the public valuation changes only at written keys:
    the tree after the byte writes represents the database after the symbolic writes. -/
theorem rep_writes {C : BCrypto} (L : Laws C) {ρ ρ' : PubVal} {db : DB} {t : Tree}
    (es : List (Key × Term)) (ws : List ((BPath × Bytes) × Bytes))
    (h : Rep C ρ db t)
    (hρ : ∀ K, (∀ e ∈ es, e.1 ≠ K) → ρ' K = ρ K)
    (hok : ∀ e ∈ es, KeyOk e.1.2)
    (hlast : ∀ K, KeyOk K.2 → lastW ws (loc C K) = (lastW es K).map (valBytes C ρ' K))
    (hloc : ∀ x ∈ ws, ∃ e ∈ es, x.1 = loc C e.1) :
    Rep C ρ' (putAll db es) (tinsAll t ws) := by
  have hk : ∀ x ∈ ws, x.1.2 ≠ [] := by
    intro x hx
    obtain ⟨e, he, hxe⟩ := hloc x hx
    rw [hxe]
    exact loc_key_ne C L e.1 (hok e he)
  refine ⟨fun p kb => ?_, fun K hK => ?_⟩
  · rw [tget_tinsAll ws hk, h.1 p kb]
    cases hu : unloc C p kb with
    | none =>
      have : lastW ws (p, kb) = none := by
        rw [lastW_none_iff]
        intro x hx hxe
        obtain ⟨e, he, hxl⟩ := hloc x hx
        have := unloc_loc C L e.1 (hok e he)
        rw [← hxl, hxe] at this
        simp only at this
        rw [hu] at this
        cases this
      simp [this]
    | some K =>
      obtain ⟨hl, hKok⟩ := unloc_sound C L hu
      rw [← hl, hlast K hKok]
      simp only [Option.bind_some]
      rw [get_putAll_lastW]
      cases hw : lastW es K with
      | some v => simp
      | none =>
        have : ρ' K = ρ K := hρ K ((lastW_none_iff es K).mp hw)
        have hv : valBytes C ρ' K = valBytes C ρ K := by funext x; simp only [valBytes, this]
        simp [hv]
  · rw [get_putAll_lastW] at hK
    cases hw : lastW es K with
    | some v => exact hok _ (lastW_mem hw)
    | none => rw [hw] at hK; exact h.2 K (by simpa using hK)

end MW.KsRefine
