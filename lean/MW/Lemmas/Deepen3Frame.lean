/-
  C06 deepening (round 3), part 1: FRAME LEMMAS for arbitrary stores — `TxStore.Rollback` and everything it
  calls never write the height table (`sync`) or the synced-to height; only `resetSyncedTo` (in
  `disconnectBlock`) and `putSyncedTo` (last statement of `filterBlock`) do.  No hypothesis on the store:
  importing / removed wallets, stores outside C01's invariant.
-/
import MW.Lemmas.PersistCrash
import MW.Lemmas.LedgerFrame
namespace MW.Lemmas.Deepen3
open MW MW.Model.Ledger MW.Model.Persist MW.Spec.Persist MW.Lemmas.Ledger

/-- the follower's part of the store that only `putSyncedTo` / `resetSyncedTo` may write -/
def sp (s : Store) : AMap.T Nat BlkId × Nat := (s.sync, s.syncedTo)

theorem sp_of_mined {s s' : Store} (h : MinedEq s s') : sp s' = sp s := by
  unfold sp; rw [h.sync, h.syncedTo]

theorem sp_rollbackAddr (s : Store) (w : Wid) (o : Out) (h : Nat) : sp (rollbackAddr s w o h) = sp s := by
  unfold rollbackAddr
  dsimp only
  split
  · split <;> rfl
  · rfl

theorem sp_rollbackOwnedOut (id : TxId) (blk : BlockMeta) (sb sb' : Store × Bals) (i : Nat) (o : Out) (w : Wid)
    (h : rollbackOwnedOut id blk sb i o w = .ok sb') : sp sb'.1 = sp sb.1 := by
  unfold rollbackOwnedOut at h
  split at h
  · split at h
    · cases h
    · cases h
      exact sp_rollbackAddr _ w o blk.height
  · cases h
    exact sp_rollbackAddr _ w o blk.height

theorem sp_rollbackCbOut (c : Ctx) (id : TxId) (blk : BlockMeta) (acc acc' : (Store × Bals) × List (TxId × Nat))
    (i : Nat) (o : Out) (h : rollbackCbOut c id blk acc i o = .ok acc') : sp acc'.1.1 = sp acc.1.1 := by
  unfold rollbackCbOut at h
  dsimp only at h
  split at h
  · cases h; rfl
  · split at h
    · cases h
    · split at h
      · cases h; rfl
      · simp only [bind, Except.bind] at h
        split at h
        · cases h
        · rename_i sb1 hsb
          have h1 := sp_rollbackOwnedOut _ _ _ _ _ _ _ hsb
          split at h <;> cases h <;> exact h1

theorem sp_rollbackIn (c : Ctx) (id : TxId) (blk : BlockMeta) (sb sb' : Store × Bals) (cur : Nat) (i : Inp)
    (h : rollbackIn c id blk sb cur i = .ok sb') : sp sb'.1 = sp sb.1 := by
  unfold rollbackIn at h
  dsimp only at h
  repeat' (split at h)
  all_goals first
    | (cases h; done)
    | (cases h; rfl)

theorem sp_rollbackOut (c : Ctx) (id : TxId) (blk : BlockMeta) (sb sb' : Store × Bals) (i : Nat) (o : Out)
    (h : rollbackOut c id blk sb i o = .ok sb') : sp sb'.1 = sp sb.1 := by
  unfold rollbackOut at h
  dsimp only at h
  split at h
  · cases h; rfl
  · split at h
    · cases h
    · split at h
      · cases h; rfl
      · simp only [bind, Except.bind] at h
        split at h
        · cases h
        · rename_i sb1 hsb
          have h1 := sp_rollbackOwnedOut _ _ _ _ _ _ _ hsb
          split at h <;> cases h <;> exact h1


/-- a monadic indexed loop whose body keeps a projection keeps it -/
theorem foldIdxM_frame {α β γ : Type} (f : β → Nat → α → M β) (g : β → γ)
    (hf : ∀ b i a b', f b i a = .ok b' → g b' = g b) :
    ∀ (l : List α) (i : Nat) (b b' : β), foldIdxM f l i b = .ok b' → g b' = g b := by
  intro l
  induction l with
  | nil => intro i b b' h; cases h; rfl
  | cons a l ih =>
    intro i b b' h
    unfold foldIdxM at h
    simp only [bind, Except.bind] at h
    split at h
    · cases h
    · rename_i b1 hb1
      exact (ih _ _ _ h).trans (hf _ _ _ _ hb1)

theorem foldlM_frame {α β γ : Type} (f : β → α → M β) (g : β → γ)
    (hf : ∀ b a b', f b a = .ok b' → g b' = g b) :
    ∀ (l : List α) (b b' : β), l.foldlM f b = .ok b' → g b' = g b := by
  intro l
  induction l with
  | nil => intro b b' h; cases h; rfl
  | cons a l ih =>
    intro b b' h
    rw [List.foldlM_cons] at h
    simp only [bind, Except.bind] at h
    split at h
    · cases h
    · rename_i b1 hb1
      exact (ih _ _ h).trans (hf _ _ _ hb1)

theorem sp_rollbackTx (c : Ctx) (s : Store) (bals : Bals) (blk : BlockMeta) (id : TxId)
    (r : Store × Bals × List (TxId × Nat)) (h : rollbackTx c s bals blk id = .ok r) : sp r.1 = sp s := by
  unfold rollbackTx at h
  split at h
  · cases h; rfl
  · split at h
    · cases h
    · dsimp only at h
      split at h
      · simp only [bind, Except.bind] at h
        split at h
        · cases h
        · rename_i r1 hr1
          cases h
          exact foldIdxM_frame (rollbackCbOut c id blk) (fun a => sp a.1.1)
            (fun b i a b' hb => sp_rollbackCbOut c id blk b b' i a hb) _ _ _ _ hr1
      · simp only [bind, Except.bind] at h
        split at h
        · cases h
        · rename_i sb1 hsb1
          split at h
          · cases h
          · rename_i sb2 hsb2
            cases h
            have h1 := foldIdxM_frame (rollbackIn c id blk) (fun a => sp a.1)
              (fun b i a b' hb => sp_rollbackIn c id blk b b' i a hb) _ _ _ _ hsb1
            have h2 := foldIdxM_frame (rollbackOut c id blk) (fun a => sp a.1)
              (fun b i a b' hb => sp_rollbackOut c id blk b b' i a hb) _ _ _ _ hsb2
            exact h2.trans h1

theorem sp_rollbackBlockAt (c : Ctx) (acc acc' : RbAcc) (cur : Nat) (h : rollbackBlockAt c acc cur = .ok acc') :
    sp acc'.s = sp acc.s := by
  unfold rollbackBlockAt at h
  split at h
  · cases h; rfl
  · have := foldlM_frame _ (fun (a : RbAcc) => sp a.s) ?_ _ _ _ h
    · exact this
    intro a id a' ha
    simp only [bind, Except.bind] at ha
    split at ha
    · cases ha
    · rename_i r hr
      obtain ⟨s', bals', rem⟩ := r
      cases ha
      exact sp_rollbackTx c _ _ _ _ _ hr

theorem sp_foldl {α : Type} (f : Store → α → Store) (hf : ∀ s a, sp (f s a) = sp s) (l : List α) (s : Store) :
    sp (l.foldl f s) = sp s := by
  induction l generalizing s with
  | nil => rfl
  | cons a l ih => rw [List.foldl_cons, ih, hf]

/-- TxStore.Rollback never writes the height table or the synced-to height — for ANY store -/
theorem sp_rollback (c : Ctx) (s s' : Store) (height : Nat) (h : rollback c s height = .ok s') : sp s' = sp s := by
  unfold rollback at h
  simp only [bind, Except.bind] at h
  split at h
  · cases h
  · rename_i acc hacc
    cases h
    have h1 : sp acc.s = sp s :=
      foldlM_frame (rollbackBlockAt c) (fun (a : RbAcc) => sp a.s) (fun b a b' hb => sp_rollbackBlockAt c b b' a hb) _ _ _ hacc
    have h2 : sp (acc.heights.foldl (fun s h => { s with blocks := AMap.erase s.blocks h }) acc.s) = sp acc.s :=
      sp_foldl (fun s h => { s with blocks := AMap.erase s.blocks h }) (fun _ _ => rfl) _ _
    have h3 := sp_foldl (purgeSpenders c.own) (fun s a => sp_of_mined (minedEq_purgeSpenders c.own s a)) acc.cb
      (acc.heights.foldl (fun s h => { s with blocks := AMap.erase s.blocks h }) acc.s)
    exact (h3.trans h2).trans h1

/-- disconnectBlock of the synced tip moves synced-to down by exactly one — for ANY store -/
theorem disconnectBlock_syncedTo (c : Ctx) (s s' : Store) (height : Nat) (h : disconnectBlock c s height = .ok s')
    (hs : s.syncedTo = height) : s'.syncedTo = height - 1 ∧ height ≠ 0 := by
  unfold disconnectBlock at h
  split at h
  · cases h
  · rename_i h0
    split at h
    · omega
    · simp only [bind, Except.bind] at h
      split at h
      · cases h
      · rename_i s1 hs1
        cases h
        have := sp_rollback c s s1 height hs1
        have h1 : s1.syncedTo = s.syncedTo := congrArg Prod.snd this
        refine ⟨?_, h0⟩
        show (resetSyncedTo s1 (height - 1)).syncedTo = height - 1
        unfold resetSyncedTo
        simp only
        rw [h1, hs, if_pos (by omega)]

/-- reorg step 2a, any store: synced-to follows the loop counter -/
theorem disconnectDown_syncedTo (c : Ctx) (nbH : Nat) : ∀ (fuel : Nat) (s : Store) (curH : Nat) (rolled : List Nat)
    (s' : Store) (curH' : Nat) (rolled' : List Nat),
    disconnectDown c nbH fuel s curH rolled = .ok (s', curH', rolled') → s.syncedTo = curH → curH - nbH ≤ fuel →
    s'.syncedTo = curH' ∧ curH' = min curH nbH := by
  intro fuel
  induction fuel with
  | zero =>
    intro s curH rolled s' curH' rolled' h hs hf
    cases h
    exact ⟨hs, by omega⟩
  | succ fuel ih =>
    intro s curH rolled s' curH' rolled' h hs hf
    unfold disconnectDown at h
    split at h
    · rename_i hgt
      simp only [bind, Except.bind] at h
      split at h
      · cases h
      · rename_i s1 hs1
        obtain ⟨h1, h0⟩ := disconnectBlock_syncedTo c s s1 curH hs1 hs
        obtain ⟨h2, h3⟩ := ih s1 (curH - 1) _ s' curH' rolled' h h1 (by omega)
        exact ⟨h2, by omega⟩
    · cases h
      exact ⟨hs, by omega⟩


-- ------------------------------------------------------------------ the loops of reorg, for arbitrary stores

theorem getLast?_cons_ne {α : Type} (a : α) {l : List α} (h : l ≠ []) : (a :: l).getLast? = l.getLast? := by
  cases l with
  | nil => exact absurd rfl h
  | cons b t => rw [List.getLast?_cons_cons]

/-- reorg step 1: the list of blocks to connect only grows at the front; the block the caller announced stays
    the LAST one of (block reached :: blocks to connect) -/
theorem alignNew_last (c : Ctx) (curH : Nat) : ∀ (fuel : Nat) (nb : Block) (tc : List Block) (nb' : Block)
    (tc' : List Block), alignNew c curH fuel nb tc = .ok (nb', tc') →
    (nb' :: tc').getLast? = (nb :: tc).getLast? ∧ tc.length ≤ tc'.length ∧
    (tc'.length = tc.length → nb' = nb ∧ (fuel = 0 ∨ ¬ curH < nb.height)) := by
  intro fuel
  induction fuel with
  | zero =>
    intro nb tc nb' tc' h
    cases h
    exact ⟨rfl, Nat.le_refl _, fun _ => ⟨rfl, Or.inl rfl⟩⟩
  | succ fuel ih =>
    intro nb tc nb' tc' h
    unfold alignNew at h
    split at h
    · split at h
      · cases h
      · rename_i pb _
        obtain ⟨h1, h2, _⟩ := ih pb (nb :: tc) nb' tc' h
        rw [List.getLast?_cons_cons] at h1
        simp only [List.length_cons] at h2
        exact ⟨h1, by omega, fun he => by omega⟩
    · rename_i hlt
      cases h
      exact ⟨rfl, Nat.le_refl _, fun _ => ⟨rfl, Or.inr hlt⟩⟩

/-- reorg step 3: after connecting a non-empty list the store is synced to its LAST block -/
theorem connectAll_last (c : Ctx) (ready : List Wid) : ∀ (tc : List Block) (s : Store) (added : List (Nat × List TxId))
    (s' : Store) (added' : List (Nat × List TxId)) (X : Block),
    connectAll c ready tc s added = .ok (s', added') → tc.getLast? = some X →
    s'.syncedTo = X.height ∧ AMap.get s'.sync X.height = some X.id := by
  intro tc
  induction tc with
  | nil => intro s added s' added' X _ hX; cases hX
  | cons b rest ih =>
    intro s added s' added' X h hX
    unfold connectAll at h
    simp only [bind, Except.bind] at h
    split at h
    · cases h
    · rename_i r hr
      obtain ⟨s1, conf⟩ := r
      by_cases hrest : rest = []
      · subst hrest
        unfold connectAll at h
        cases h
        simp only [List.getLast?_singleton, Option.some.injEq] at hX
        subst hX
        exact MW.Lemmas.PersistCrash.filterBlock_spec c s _ ready b conf hr
      · rw [getLast?_cons_ne b hrest] at hX
        exact ih _ _ _ _ X h hX

/-- reorg step 2b: the lock-step walk keeps the announced block last -/
theorem walkBack_last (c : Ctx) : ∀ (fuel : Nat) (w w' : Walk) (done : Bool), walkBack c fuel w = .ok (w', done) →
    (w'.tail :: w'.tc).getLast? = (w.tail :: w.tc).getLast? := by
  intro fuel
  induction fuel with
  | zero => intro w w' done h; cases h; rfl
  | succ fuel ih =>
    intro w w' done h
    unfold walkBack at h
    split at h
    · simp only [bind, Except.bind] at h
      split at h
      · cases h
      · split at h
        · cases h
        · split at h
          · cases h
          · split at h
            · cases h
            · have := ih _ _ _ h
              simp only [List.getLast?_cons_cons] at this
              exact this
    · cases h; rfl

/-- reorg step 2, any store whose synced-to is the follower's tip height: either something is left to connect
    and the announced block is its last element, or nothing is — then the store is untouched (duplicate of the
    tip) or sits, synced, on the announced block's id at the lower of the two heights -/
theorem reorgDisconnect_spec (c : Ctx) (s : Store) (best : BlockMeta) (nb : Block) (tc : List Block)
    (s1 : Store) (rolled : List Nat) (tc1 : List Block) (X : Block)
    (h : reorgDisconnect c s best nb tc = .ok (s1, rolled, tc1))
    (hs : s.syncedTo = best.height) (hX : (nb :: tc).getLast? = some X) :
    (tc1 ≠ [] ∧ tc1.getLast? = some X) ∨
    (tc1 = [] ∧ tc = [] ∧ ((best.hash = nb.id ∧ s1 = s) ∨
      (AMap.get s1.sync s1.syncedTo = some nb.id ∧ s1.syncedTo = min best.height nb.height))) := by
  have keep : ∀ (sx : Store), tc1 = tc → ((best.hash = nb.id ∧ sx = s) ∨
      (AMap.get sx.sync sx.syncedTo = some nb.id ∧ sx.syncedTo = min best.height nb.height)) →
      (tc1 ≠ [] ∧ tc1.getLast? = some X) ∨
      (tc1 = [] ∧ tc = [] ∧ ((best.hash = nb.id ∧ sx = s) ∨
        (AMap.get sx.sync sx.syncedTo = some nb.id ∧ sx.syncedTo = min best.height nb.height))) := by
    intro sx he hc
    by_cases ht : tc = []
    · exact Or.inr ⟨he.trans ht, ht, hc⟩
    · rw [getLast?_cons_ne nb ht] at hX
      exact Or.inl ⟨by rw [he]; exact ht, by rw [he]; exact hX⟩
  unfold reorgDisconnect at h
  split at h
  · rename_i hid
    cases h
    exact keep s rfl (Or.inl ⟨hid, rfl⟩)
  · simp only [bind, Except.bind] at h
    split at h
    · cases h
    · rename_i r hr
      obtain ⟨sd, curH, rolledD⟩ := r
      obtain ⟨hd1, hd2⟩ := disconnectDown_syncedTo c nb.height _ _ _ _ _ _ _ hr hs (by omega)
      dsimp only at h
      split at h
      · cases h
      · rename_i bh hbh
        split at h
        · rename_i hbn
          cases h
          refine keep s1 rfl (Or.inr ⟨?_, ?_⟩)
          · rw [hd1, hbh, hbn]
          · rw [hd1, hd2]
        · split at h
          · cases h
          · split at h
            · cases h
            · split at h
              · cases h
              · rename_i wd hwd
                obtain ⟨w, done⟩ := wd
                dsimp only at h
                split at h
                · cases h
                · split at h
                  · cases h
                  · cases h
                    have := walkBack_last c _ _ _ _ hwd
                    simp only at this
                    exact Or.inl ⟨by simp, by rw [this]; exact hX⟩

/-- THE REORGANISATION PATH, ANY STORE: a successful `reorg` leaves the store synced to the announced block —
    height and id in the height table — provided the store was synced to the follower's tip and an id does not
    name two heights (`hid`: only needed when the announced block IS the tip, i.e. a duplicate notification) -/
theorem reorg_sync_spec (c : Ctx) (s s' : Store) (best : BlockMeta) (b : Block) (ro : List Nat)
    (ad : List (Nat × List TxId)) (h : reorg c s best b = .ok (s', ro, ad))
    (hs : s.syncedTo = best.height) (hsync : AMap.get s.sync s.syncedTo = some best.hash)
    (hid : b.id = best.hash → b.height = best.height) :
    s'.syncedTo = b.height ∧ AMap.get s'.sync b.height = some b.id := by
  unfold reorg at h
  simp only [bind, Except.bind] at h
  split at h
  · cases h
  · rename_i r1 hr1
    obtain ⟨nb, tc⟩ := r1
    obtain ⟨ha1, _, ha3⟩ := alignNew_last c best.height _ _ _ _ _ hr1
    simp only [List.getLast?_singleton] at ha1
    dsimp only at h
    split at h
    · cases h
    · rename_i r2 hr2
      obtain ⟨s1, rolled, tc1⟩ := r2
      dsimp only at h
      split at h
      · cases h
      · rename_i r3 hr3
        obtain ⟨s3, added⟩ := r3
        cases h
        rcases reorgDisconnect_spec c s best nb tc _ _ tc1 b hr2 hs ha1 with ⟨_, hl⟩ | ⟨ht1, ht, hc⟩
        · exact connectAll_last c _ tc1 _ [] _ _ b hr3 hl
        · subst ht1
          unfold connectAll at hr3
          cases hr3
          subst ht
          obtain ⟨hnb, hfu⟩ := ha3 rfl
          subst hnb
          have hge : ¬ best.height < nb.height := by
            rcases hfu with h0 | h0
            · omega
            · exact h0
          rcases hc with ⟨hh, he⟩ | ⟨hg, hm⟩
          · subst he
            have := hid hh.symm
            exact ⟨by rw [hs, this], by rw [this, ← hs, hsync, hh]⟩
          · have hmm : min best.height nb.height = nb.height := by omega
            rw [hmm] at hm
            exact ⟨hm, by rw [← hm]; exact hg⟩

-- ------------------------------------------------------------------ pinv_block for arbitrary stores

/-- `pinv_block_full` with the one hypothesis it needs: EVERY successful block operation — direct extension,
    reorganisation with any number of disconnects and connects, stale or duplicate notification — on ANY store
    (importing or removed wallets, no ledger invariant assumed) keeps BestInv and SyncWf. `hid` says that the
    announced block, if it carries the id of the follower's tip, has the tip's height (an id names one block). -/
theorem block_any_bestInv (env : Env) (n : Nat) (b : Block) (P : PStore) (V : PVol) (hB : BestInv P V)
    (hid : b.id = V.led.best.hash → b.height = V.led.best.height)
    (hok : ((opBlock env n b).run none P V).ok = true) :
    BestInv ((opBlock env n b).run none P V).P ((opBlock env n b).run none P V).V ∧
    SyncWf ((opBlock env n b).run none P V).P := by
  by_cases hp : b.prev = V.led.best.hash
  · exact MW.Lemmas.PersistCrash.block_extend_bestInv env n b P V hp hok
  · rw [MW.Lemmas.PersistCrash.block_none] at hok ⊢
    cases hb : blockTx (ctxOf env V) P.led V.led.best b with
    | error e => simp [hb] at hok
    | ok r =>
      obtain ⟨s', ro, ad⟩ := r
      have hr : reorg (ctxOf env V) P.led V.led.best b = .ok (s', ro, ad) := by
        unfold blockTx at hb
        rw [if_neg hp] at hb
        exact hb
      have sp := reorg_sync_spec _ _ _ _ _ _ _ hr hB.1.symm hB.2 hid
      refine ⟨⟨?_, ?_⟩, ?_⟩
      · simp [MW.Lemmas.PersistCrash.volAfterBlock_best, sp.1]
      · simp [MW.Lemmas.PersistCrash.volAfterBlock_best, sp.1, sp.2]
      · unfold SyncWf; simp [sp.1, sp.2]

/-- WHY `hid` IS NEEDED: the statement without it is FALSE in the model. A "notification" whose id is the
    follower's tip id but whose height field is lower takes the reorganisation path, finds nothing to do, succeeds,
    and the tip copy takes the announced height while the store stays where it was. (In the real system a block
    hash determines the header, hence the height; the model's blocks are records with independent fields.) -/
def cexP : PStore := { led := { sync := [(1, "B1"), (0, "G")], syncedTo := 1 } }
def cexV : PVol := { led := { best := ⟨1, "B1"⟩ } }
def cexB : Block := ⟨"B1", "zz", 0, []⟩

theorem cex_bestInv : BestInv cexP cexV := ⟨rfl, rfl⟩
theorem cex_ok : ((opBlock {} 1 cexB).run none cexP cexV).ok = true := by decide
theorem cex_breaks : ¬ BestInv ((opBlock {} 1 cexB).run none cexP cexV).P ((opBlock {} 1 cexB).run none cexP cexV).V := by
  intro h
  have h1 := h.1
  revert h1
  decide

end MW.Lemmas.Deepen3
