/-
  Helper lemmas for C09, part 2: `Listed` (the spender index as a relation), the "only shrinks" relation
  `Sub`, and what the primitive pending-side operations do to them.
-/
import MW.Lemmas.LedgerPendingBase
namespace MW.Lemmas.LedgerPending
open MW MW.Model.Ledger

/-- `id` is recorded as a pending spender of outpoint `op` (bucket `mi`) -/
def Listed (s : Store) (op : TxId × Nat) (id : TxId) : Prop :=
  ∃ l, AMap.get s.pendIns op = some l ∧ id ∈ l

/-- transaction `t` has an input spending outpoint `op` -/
def Spends (t : Tx) (op : TxId × Nat) : Prop := ∃ i ∈ t.ins, (i.tx, i.idx) = op

/-- the mined buckets (everything the purge must not touch) -/
def minedOf (s : Store) :=
  (s.credits, s.unspent, s.debits, s.balance, s.txrecs, s.blocks, s.sync, s.syncedTo, s.status, s.addrs, s.game)

/-- `s'` is `s` with some pending transactions, spender-list members, pending credits and pending deposit
    records erased — nothing added, no mined bucket touched -/
structure Sub (s' s : Store) : Prop where
  pend : ∃ p, s'.pending = AMap.scan s.pending p
  ins : ∀ op id, Listed s' op id → Listed s op id
  cred : ∀ k, AMap.get s.pendCred k = none → AMap.get s'.pendCred k = none
  game : ∀ k, AMap.get s.pendGame k = none → AMap.get s'.pendGame k = none
  mined : minedOf s' = minedOf s

theorem Sub.refl (s : Store) : Sub s s :=
  ⟨⟨fun _ => true, (scan_true _).symm⟩, fun _ _ h => h, fun _ h => h, fun _ h => h, rfl⟩

theorem Sub.trans {a b c : Store} (h₁ : Sub a b) (h₂ : Sub b c) : Sub a c := by
  obtain ⟨p, hp⟩ := h₁.pend
  obtain ⟨q, hq⟩ := h₂.pend
  refine ⟨⟨fun k => q k && p k, ?_⟩, fun op id h => h₂.ins _ _ (h₁.ins _ _ h), fun k h => h₁.cred _ (h₂.cred _ h),
    fun k h => h₁.game _ (h₂.game _ h), h₁.mined.trans h₂.mined⟩
  rw [hp, hq, scan_scan]

/-- a pending transaction of the smaller store is the same pending transaction of the bigger one -/
theorem Sub.pending_some {s' s : Store} (h : Sub s' s) {id : TxId} {t : Tx}
    (hg : AMap.get s'.pending id = some t) : AMap.get s.pending id = some t := by
  obtain ⟨p, hp⟩ := h.pend
  rw [hp, get_scan] at hg
  by_cases hpk : p id <;> simp [hpk] at hg
  exact hg

theorem Sub.pending_none {s' s : Store} (h : Sub s' s) {id : TxId}
    (hg : AMap.get s.pending id = none) : AMap.get s'.pending id = none := by
  obtain ⟨p, hp⟩ := h.pend
  rw [hp, get_scan]
  by_cases hpk : p id <;> simp [hpk, hg]

/-- … and if it is still there, it is unchanged -/
theorem Sub.pending_same {s' s : Store} (h : Sub s' s) {id : TxId} {t : Tx}
    (hs : AMap.get s.pending id = some t) :
    AMap.get s'.pending id = some t ∨ AMap.get s'.pending id = none := by
  obtain ⟨p, hp⟩ := h.pend
  rw [hp, get_scan]
  by_cases hpk : p id <;> simp [hpk, hs]

theorem Sub.length_le {s' s : Store} (h : Sub s' s) : s'.pending.length ≤ s.pending.length := by
  obtain ⟨p, hp⟩ := h.pend
  rw [hp]; exact scan_length_le _ _

-- ------------------------------------------------------------------ primitive operations

theorem sub_erasePending (s : Store) (id : TxId) : Sub { s with pending := AMap.erase s.pending id } s :=
  ⟨⟨_, erase_eq_scan _ _⟩, fun _ _ h => h, fun _ h => h, fun _ h => h, rfl⟩

theorem sub_eraseCred (s : Store) (k : TxId × Nat) : Sub { s with pendCred := AMap.erase s.pendCred k } s := by
  refine ⟨⟨fun _ => true, (scan_true _).symm⟩, fun _ _ h => h, fun k' h => ?_, fun _ h => h, rfl⟩
  show AMap.get (AMap.erase s.pendCred k) k' = none
  rw [AMap.get_erase]; by_cases hk : k = k' <;> simp [hk, h]

theorem sub_eraseGame (s : Store) (k : Wid × Bool × TxId × Nat) :
    Sub { s with pendGame := AMap.erase s.pendGame k } s := by
  refine ⟨⟨fun _ => true, (scan_true _).symm⟩, fun _ _ h => h, fun _ h => h, fun k' h => ?_, rfl⟩
  show AMap.get (AMap.erase s.pendGame k) k' = none
  rw [AMap.get_erase]; by_cases hk : k = k' <;> simp [hk, h]

/-- one step of removeUnminedInputsOf -/
def rmSpender (id : TxId) (s : Store) (i : Inp) : Store :=
  match AMap.get s.pendIns (i.tx, i.idx) with
  | some (x :: xs) =>
    if ((x :: xs).filter (fun sp => sp ≠ id)).isEmpty then { s with pendIns := AMap.erase s.pendIns (i.tx, i.idx) }
    else { s with pendIns := AMap.put s.pendIns (i.tx, i.idx) ((x :: xs).filter (fun sp => sp ≠ id)) }
  | _ => s

theorem removeUnminedInputsOf_eq (s : Store) (tx : Tx) :
    removeUnminedInputsOf s tx = tx.ins.foldl (rmSpender tx.id) s := rfl

/-- the other buckets of a store, for frame statements about operations on the spender index -/
def exceptIns (s : Store) := (s.pending, s.pendCred, s.pendGame, minedOf s)

theorem rmSpender_frame (id : TxId) (s : Store) (i : Inp) : exceptIns (rmSpender id s i) = exceptIns s := by
  unfold rmSpender
  split
  · split <;> rfl
  · rfl

theorem rmSpender_listed (id : TxId) (s : Store) (i : Inp) (op : TxId × Nat) (x : TxId) :
    Listed (rmSpender id s i) op x ↔ Listed s op x ∧ ¬ (op = (i.tx, i.idx) ∧ x = id) := by
  unfold rmSpender Listed
  split
  · rename_i y ys hget
    by_cases hop : (i.tx, i.idx) = op
    · subst hop
      split
      · rename_i hemp
        simp only [AMap.get_erase, if_true]
        constructor
        · rintro ⟨l, hl, _⟩; cases hl
        · rintro ⟨⟨l, hl, hx⟩, hne⟩
          rw [hget] at hl; cases hl
          have hxid : x ≠ id := fun h => hne (by simp [h])
          have : x ∈ (y :: ys).filter (fun sp => sp ≠ id) := by
            rw [List.mem_filter]; exact ⟨hx, by simpa using hxid⟩
          rw [List.isEmpty_iff] at hemp
          rw [hemp] at this; cases this
      · simp only [AMap.get_put, if_true]
        constructor
        · rintro ⟨l, hl, hx⟩
          cases hl
          rw [List.mem_filter] at hx
          refine ⟨⟨_, hget, hx.1⟩, fun h => ?_⟩
          have := hx.2; simp [h.2] at this
        · rintro ⟨⟨l, hl, hx⟩, hne⟩
          rw [hget] at hl; cases hl
          have hxid : x ≠ id := fun h => hne (by simp [h])
          exact ⟨_, rfl, by rw [List.mem_filter]; exact ⟨hx, by simpa using hxid⟩⟩
    · have hne : ¬ (op = (i.tx, i.idx) ∧ x = id) := fun h => hop h.1.symm
      split
      · simp only [AMap.get_erase, hop, if_false]; simp [hne]
      · simp only [AMap.get_put, hop, if_false]; simp [hne]
  · rename_i hnot
    constructor
    · rintro ⟨l, hl, hx⟩
      refine ⟨⟨l, hl, hx⟩, fun h => ?_⟩
      rw [h.1] at hl
      cases l with
      | nil => cases hx
      | cons y ys => exact hnot y ys hl
    · exact fun h => h.1

theorem removeUnminedInputsOf_frame (s : Store) (tx : Tx) :
    exceptIns (removeUnminedInputsOf s tx) = exceptIns s := by
  rw [removeUnminedInputsOf_eq]
  exact foldl_inv (fun (a : Store) => exceptIns a = exceptIns s) _ _ _ rfl
    (fun a x _ ha => (rmSpender_frame _ a x).trans ha)

/-- removeUnminedInputsOf removes exactly the memberships of `tx.id` under the outpoints `tx` spends -/
theorem removeUnminedInputsOf_listed (s : Store) (tx : Tx) (op : TxId × Nat) (x : TxId) :
    Listed (removeUnminedInputsOf s tx) op x ↔ Listed s op x ∧ ¬ (x = tx.id ∧ Spends tx op) := by
  rw [removeUnminedInputsOf_eq]
  unfold Spends
  generalize tx.ins = l
  induction l generalizing s with
  | nil => simp
  | cons i l ih =>
    simp only [List.foldl]
    rw [ih, rmSpender_listed]
    constructor
    · rintro ⟨⟨h1, h2⟩, h3⟩
      refine ⟨h1, fun h => ?_⟩
      obtain ⟨hx, j, hj, hop⟩ := h
      rcases List.mem_cons.mp hj with rfl | hj
      · exact h2 ⟨hop.symm, hx⟩
      · exact h3 ⟨hx, j, hj, hop⟩
    · rintro ⟨h1, h2⟩
      refine ⟨⟨h1, fun h => h2 ⟨h.2, i, by simp, h.1.symm⟩⟩, fun h => ?_⟩
      obtain ⟨hx, j, hj, hop⟩ := h
      exact h2 ⟨hx, j, by simp [hj], hop⟩

theorem sub_removeUnminedInputsOf (s : Store) (tx : Tx) : Sub (removeUnminedInputsOf s tx) s := by
  have hf := removeUnminedInputsOf_frame s tx
  simp only [exceptIns, Prod.mk.injEq] at hf
  obtain ⟨h1, h2, h3, h4⟩ := hf
  exact ⟨⟨fun _ => true, by rw [h1, scan_true]⟩, fun op id h => ((removeUnminedInputsOf_listed s tx op id).mp h).1,
    fun k h => by rw [h2]; exact h, fun k h => by rw [h3]; exact h, h4⟩

/-- the other buckets, for frame statements about removeUnminedGameHistory -/
def exceptGame (s : Store) := (s.pending, s.pendIns, s.pendCred, minedOf s)

theorem removeUnminedGameHistory_frame (own : Own) (s : Store) (tx : Tx) :
    exceptGame (removeUnminedGameHistory own s tx) = exceptGame s := by
  unfold removeUnminedGameHistory
  apply foldIdx_inv (fun (a : Store) => exceptGame a = exceptGame s) _ _ _ _ rfl
  intro a i o ha
  split
  · split
    · exact ha
    · exact ha
  · exact ha

theorem removeUnminedGameHistory_game (own : Own) (s : Store) (tx : Tx) (k : Wid × Bool × TxId × Nat)
    (h : AMap.get s.pendGame k = none) : AMap.get (removeUnminedGameHistory own s tx).pendGame k = none := by
  unfold removeUnminedGameHistory
  apply foldIdx_inv (fun (a : Store) => AMap.get a.pendGame k = none) _ _ _ _ h
  intro a i o ha
  split
  · split
    · show AMap.get (AMap.erase a.pendGame _) k = none
      rw [AMap.get_erase]; split <;> simp [ha]
    · exact ha
  · exact ha

theorem sub_removeUnminedGameHistory (own : Own) (s : Store) (tx : Tx) :
    Sub (removeUnminedGameHistory own s tx) s := by
  have hf := removeUnminedGameHistory_frame own s tx
  simp only [exceptGame, Prod.mk.injEq] at hf
  obtain ⟨h1, h2, h3, h4⟩ := hf
  refine ⟨⟨fun _ => true, by rw [h1, scan_true]⟩, fun op id h => ?_, fun k h => by rw [h3]; exact h,
    fun k h => removeUnminedGameHistory_game own s tx k h, h4⟩
  unfold Listed at *; rw [h2] at h; exact h

end MW.Lemmas.LedgerPending
