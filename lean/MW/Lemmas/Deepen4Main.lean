/-
  C06 deepening (round 4), part 5: `crash_equiv_tasks` and `resumption_anywhere_full`.

  The invariant `JT` of a history with background tasks: outside a task window round 3's `JQ`, inside an import
  window `JI` (C07's joined invariant for the chain the store follows), inside a removal window `JR` (C08's `Mid`, or
  `JQ` for the table without the wallet once the finishing iteration has run); always: what the run has queued is a
  suffix of what the run that never stops has queued.  Every event keeps it, in the crashing run and in the run that
  never stops.
-/
import MW.Lemmas.Deepen4Removal
import MW.Lemmas.Deepen4Keys
import MW.Lemmas.Deepen4CredNodup
import MW.Lemmas.Deepen4RemKeys
import MW.Lemmas.Deepen4RemPend
namespace MW.Lemmas.Deepen4
open MW MW.Model.Ledger MW.Model.Persist MW.Spec.Persist MW.Spec.Chain MW.Spec.Books MW.Lemmas.Ledger
  MW.Lemmas.PersistOp MW.Lemmas.PersistFault MW.Lemmas.PersistCrash MW.Lemmas.Deepen3 MW.Lemmas.ImportJoin

def Phase (cfg : Cfg) (G : Block) (x : SysQ) (k : SkelT) : Prop :=
  match k.busy with
  | none => JQ cfg.st G x k.base
  | some (.imp w) => JI cfg G x k.base w
  | some (.rem w) => JR cfg G x k.base w

/-- THE INVARIANT of a history with background tasks -/
structure JT (cfg : Cfg) (G : Block) (x : SysQ) (k : SkelT) : Prop where
  short : ∀ c ∈ k.base.hist, c.length + cfg.batch < 2 ^ 64
  qsuf : x.queue <:+ k.queue
  credN : KeysNodup x.P.led.credits
  phase : Phase cfg G x k

/-- the one hypothesis on the STATE (not on the skeleton): C08's open follower invariant `pendOff` at the moment
    RemoveWallet is called -/
def guardEv (_cfg : Cfg) (x : SysQ) : EvT → Prop
  | .removeMark _ => RemGuard x.P
  | _ => True

def GuardT (cfg : Cfg) (cr : Bool) : SysQ → List EvT → Prop
  | _, [] => True
  | x, ev :: evs => guardEv cfg x ev ∧ GuardT cfg cr (stepT cfg cr x ev) evs

-- ------------------------------------------------------------------ the queue

theorem stepT_queue (cfg : Cfg) (cr : Bool) (x : SysQ) (ev : EvT) :
    (stepT cfg cr x ev).queue =
      match ev with
      | .q e => (stepQ cfg.st cfg.n cr x e).queue
      | _ => x.queue := by
  cases ev with
  | q e => rfl
  | importStart w r => rfl
  | importStep w => simp only [stepT]; split <;> rfl
  | removeMark w => rfl
  | removeStep w => simp only [stepT]; split <;> rfl
  | importDrain w fuel =>
    simp only [stepT]
    split
    · split <;> rfl
    · rfl
  | removeDrain w =>
    simp only [stepT]
    split
    · split <;> rfl
    · rfl

theorem skStepT_queue (cfg : Cfg) (k : SkelT) (ev : EvT) :
    (skStepT cfg k ev).queue = match ev with
      | .q e => queueStep k.queue e
      | _ => k.queue := by
  cases ev <;> rfl

/-- one round-3 event keeps "my queue is a suffix of the queue of the run that never stops" -/
theorem qsuf_stepQ (st : Static) (n : Nat) (cr : Bool) (x : SysQ) (q : List Block) (e : EvQ) (h : x.queue <:+ q) :
    (stepQ st n cr x e).queue <:+ queueStep q e := by
  rw [stepQ_queue]
  cases e with
  | extend b => obtain ⟨s, hs⟩ := h; exact ⟨s, by simp only [queueStep]; rw [← hs, List.append_assoc]⟩
  | reorgTo m bs => obtain ⟨s, hs⟩ := h; exact ⟨s, by simp only [queueStep]; rw [← hs, List.append_assoc]⟩
  | handle => exact suffix_tail h
  | create w => exact h
  | newAddr w stk => exact h
  | recvTx tx => exact h
  | crash =>
    cases cr with
    | true => exact List.nil_suffix
    | false => exact h

theorem short_skStep (cfg : Cfg) (k : Skel) (e : EvQ) (h : ∀ c ∈ k.hist, c.length + cfg.batch < 2 ^ 64)
    (hs : ShortOK cfg k e) : ∀ c ∈ (skStep cfg.st k e).hist, c.length + cfg.batch < 2 ^ 64 := by
  cases e with
  | extend b =>
    intro c hc
    rcases List.mem_append.1 hc with h1 | h1
    · exact h c h1
    · rw [List.mem_singleton.1 h1]; exact hs
  | reorgTo m bs =>
    intro c hc
    rcases List.mem_append.1 hc with h1 | h1
    · exact h c h1
    · rw [List.mem_singleton.1 h1]; exact hs
  | handle => exact h
  | create w => simp only [skStep]; split <;> exact h
  | newAddr w stk => simp only [skStep]; split <;> exact h
  | recvTx tx => exact h
  | crash => exact h

-- ------------------------------------------------------------------ every event keeps the invariant

theorem JT_step {cfg : Cfg} {G : Block} (E : StaticOK cfg.st G) (hG : G.txs = []) (hb : cfg.batch > 0)
    (hl : cfg.limit > 0) (cr : Bool) {x : SysQ} {k : SkelT} (ev : EvT) (hJ : JT cfg G x k) (hok : StepOKT cfg G k ev) (hg : guardEv cfg x ev) :
    JT cfg G (stepT cfg cr x ev) (skStepT cfg k ev) := by
  obtain ⟨hshort, hqs, hcn, hph⟩ := hJ
  have hcn' := credNodup_stepT cfg cr x ev hcn
  cases ev with
  | q e =>
    obtain ⟨hS, hsh, hwin⟩ := hok
    refine ⟨short_skStep cfg k.base e hshort hsh, qsuf_stepQ cfg.st cfg.n cr x k.queue e hqs, hcn', ?_⟩
    unfold Phase at hph ⊢
    show match k.busy with
      | none => JQ cfg.st G (stepQ cfg.st cfg.n cr x e) (skStep cfg.st k.base e)
      | some (.imp w) => JI cfg G (stepQ cfg.st cfg.n cr x e) (skStep cfg.st k.base e) w
      | some (.rem w) => JR cfg G (stepQ cfg.st cfg.n cr x e) (skStep cfg.st k.base e) w
    cases hbusy : k.busy with
    | none =>
      rw [hbusy] at hph
      exact JQ_step E cfg.n cr e hph hS
    | some t =>
      cases t with
      | imp w =>
        rw [hbusy] at hph
        simp only at hph ⊢
        cases e with
        | extend b => exact JI_extend cr b hph hS
        | reorgTo m bs => exact JI_reorgTo cr m bs hph hS
        | handle => exact JI_handle E cr hph
        | create w' => exact JI_create cr w' hph
        | newAddr w' stk =>
          have hne : w' ≠ w := by have := hwin; simp only [WindowOK, hbusy] at this; exact this
          exact JI_newAddr cr w' stk hph hne hS
        | recvTx tx => exact JI_recvTx cr tx hph
        | crash =>
          cases cr with
          | false => exact hph
          | true => exact (JI_crash E hph).1
      | rem w =>
        rw [hbusy] at hph
        simp only at hph ⊢
        cases e with
        | extend b => exact JR_node E cr (.extend b) (Or.inl ⟨b, rfl⟩) hph hS
        | reorgTo m bs => exact JR_node E cr (.reorgTo m bs) (Or.inr ⟨m, bs, rfl⟩) hph hS
        | handle => have := hwin; simp only [WindowOK, hbusy] at this
        | create w' =>
          have hne : w' ≠ w := by have := hwin; simp only [WindowOK, hbusy] at this; exact this
          exact JR_create cr w' hph hne
        | newAddr w' stk =>
          have hne : w' ≠ w := by have := hwin; simp only [WindowOK, hbusy] at this; exact this
          exact JR_newAddr cr w' stk hph hne hS
        | recvTx tx =>
          have hfr : ∀ c ∈ k.base.hist, tx.id ∉ idsOf (occs c) := by
            have := hwin; simp only [WindowOK, hbusy] at this; exact this
          exact JR_recvTx cr tx hph hfr
        | crash =>
          cases cr with
          | false => exact hph
          | true =>
            have hkq : k.queue = [] := by have := hwin; simp only [WindowOK, hbusy] at this; exact this
            have hxq : x.queue = [] := by rw [hkq] at hqs; exact List.suffix_nil.1 hqs
            exact (JR_crash E hph hxq).1
  | importStart w r =>
    obtain ⟨hbusy, hfresh, hne, hKN, hval⟩ := hok
    have hq : (stepT cfg cr x (.importStart w r)).queue = x.queue := rfl
    refine ⟨hshort, by rw [hq]; exact hqs, hcn', ?_⟩
    unfold Phase at hph ⊢
    rw [hbusy] at hph
    exact JQ_importStart (cr := cr) hG w r hph hfresh hne hKN hval
  | importStep w =>
    have hbusy : k.busy = some (.imp w) := hok
    have hq := stepT_queue cfg cr x (.importStep w)
    refine ⟨hshort, by rw [hq]; exact hqs, hcn', ?_⟩
    unfold Phase at hph ⊢
    show match k.busy with
      | none => JQ cfg.st G (stepT cfg cr x (.importStep w)) k.base
      | some (.imp w') => JI cfg G (stepT cfg cr x (.importStep w)) k.base w'
      | some (.rem w') => JR cfg G (stepT cfg cr x (.importStep w)) k.base w'
    rw [hbusy] at hph ⊢
    exact JI_importStep E hb cr hph hshort
  | removeMark w =>
    obtain ⟨hbusy, ⟨r, hr, hrne⟩, hoth⟩ := hok
    have hq : (stepT cfg cr x (.removeMark w)).queue = x.queue := rfl
    refine ⟨hshort, by rw [hq]; exact hqs, hcn', ?_⟩
    unfold Phase at hph ⊢
    rw [hbusy] at hph
    have hJQ : JQ cfg.st G x k.base := hph
    exact Or.inl (JQ_removeMark (k := k.base) cr w hJQ (by rw [hr]; rfl)
      (fun r' hr' => by rw [hr] at hr'; cases hr'; exact hrne) hoth hcn hg)
  | removeStep w =>
    have hbusy : k.busy = some (.rem w) := hok
    have hq := stepT_queue cfg cr x (.removeStep w)
    refine ⟨hshort, by rw [hq]; exact hqs, hcn', ?_⟩
    unfold Phase at hph ⊢
    show match k.busy with
      | none => JQ cfg.st G (stepT cfg cr x (.removeStep w)) k.base
      | some (.imp w') => JI cfg G (stepT cfg cr x (.removeStep w)) k.base w'
      | some (.rem w') => JR cfg G (stepT cfg cr x (.removeStep w)) k.base w'
    rw [hbusy] at hph ⊢
    exact JR_removeStep cr hph
  | importDrain w fuel =>
    obtain ⟨hbusy, hkq, hfuel⟩ := hok
    have hq := stepT_queue cfg cr x (.importDrain w fuel)
    have hxq : x.queue = [] := by rw [hkq] at hqs; exact List.suffix_nil.1 hqs
    refine ⟨hshort, by rw [hq]; exact hqs, hcn', ?_⟩
    unfold Phase at hph ⊢
    rw [hbusy] at hph
    exact JI_drain E hb cr fuel hph hshort hxq hfuel
  | removeDrain w =>
    have hbusy : k.busy = some (.rem w) := hok
    have hq := stepT_queue cfg cr x (.removeDrain w)
    refine ⟨hshort, by rw [hq]; exact hqs, hcn', ?_⟩
    unfold Phase at hph ⊢
    rw [hbusy] at hph
    exact JR_removeDrain hl cr hph

/-- the invariant along every history -/
theorem JT_run {cfg : Cfg} {G : Block} (E : StaticOK cfg.st G) (hG : G.txs = []) (hb : cfg.batch > 0)
    (hl : cfg.limit > 0) (cr : Bool) :
    ∀ (evs : List EvT) (x : SysQ) (k : SkelT), JT cfg G x k → RunOKT cfg G k evs → GuardT cfg cr x evs →
      JT cfg G (runT cfg cr x evs) (skRunT cfg k evs) := by
  intro evs
  induction evs with
  | nil => intro x k hJ _ _; exact hJ
  | cons ev evs ih =>
    intro x k hJ hR hg
    rw [runT_cons, skRunT_cons]
    exact ih _ _ (JT_step E hG hb hl cr ev hJ hR.1 hg.1) hR.2 hg.2

/-- what the crashing run has queued is always a suffix of what the run that never stops has queued -/
theorem queue_suffixT (cfg : Cfg) : ∀ (evs : List EvT) (x1 x2 : SysQ), x1.queue <:+ x2.queue →
    (runT cfg true x1 evs).queue <:+ (runT cfg false x2 evs).queue := by
  intro evs
  induction evs with
  | nil => intro x1 x2 h; exact h
  | cons ev evs ih =>
    intro x1 x2 h
    rw [runT_cons, runT_cons]
    apply ih
    rw [stepT_queue, stepT_queue]
    cases ev with
    | q e =>
      show (stepQ cfg.st cfg.n true x1 e).queue <:+ (stepQ cfg.st cfg.n false x2 e).queue
      rw [stepQ_queue, stepQ_queue]
      cases e with
      | extend b => obtain ⟨s, hs⟩ := h; exact ⟨s, by simp only; rw [← hs, List.append_assoc]⟩
      | reorgTo m bs => obtain ⟨s, hs⟩ := h; exact ⟨s, by simp only; rw [← hs, List.append_assoc]⟩
      | handle => exact suffix_tail h
      | create w => exact h
      | newAddr w stk => exact h
      | recvTx tx => exact h
      | crash => exact List.nil_suffix
    | importStart w r => exact h
    | importStep w => exact h
    | removeMark w => exact h
    | removeStep w => exact h
    | importDrain w fuel => exact h
    | removeDrain w => exact h

-- ------------------------------------------------------------------ quiet points

/-- outside a task window, with nothing queued: the books of the node's chain, the tip copy at the node's tip -/
theorem JQ_quiet {st : Static} {G : Block} {x : SysQ} {k : Skel} (hJ : JQ st G x k) (hq : x.queue = []) :
    Ledger.Inv ((lenv st k.ks).ctx k.chain) x.P.led k.chain ∧ x.V.led.best = tipMeta k.chain ∧ x.chain = k.chain ∧
    x.P.ks = k.ks ∧ x.V.keys = k.ks ∧ KeysOK k.ks x.P.led := by
  obtain ⟨hc, hks, hkeys, ⟨S, ⟨hI, hv, _, _, _, _, hq0, _⟩, _⟩, _, _, hK⟩ := hJ
  have hSe : S = x.chain := hq0 hq
  subst hSe
  refine ⟨?_, ?_, hc, hks, hkeys, hK⟩
  · rw [← hc]; exact hI
  · rw [← hc]; exact hv

/-- two wallets that hold the books of the same chain for the same keystore table agree on everything confirmed -/
theorem quiet_agree {st : Static} {G : Block} {x1 x2 : SysQ} {k : Skel} (h1 : JQ st G x1 k) (h2 : JQ st G x2 k)
    (hq1 : x1.queue = []) (hq2 : x2.queue = []) :
    x1.chain = x2.chain ∧ x1.P.ks = x2.P.ks ∧ x1.V.keys = x2.V.keys ∧
    AMap.Equiv x1.P.led.credits x2.P.led.credits ∧ AMap.Equiv x1.P.led.unspent x2.P.led.unspent ∧
    AMap.Equiv x1.P.led.debits x2.P.led.debits ∧ AMap.Equiv x1.P.led.game x2.P.led.game ∧
    AMap.Equiv x1.P.led.txrecs x2.P.led.txrecs ∧ AMap.Equiv x1.P.led.blocks x2.P.led.blocks ∧
    AMap.Equiv x1.P.led.sync x2.P.led.sync ∧ x1.P.led.syncedTo = x2.P.led.syncedTo ∧
    x1.V.led.best = x2.V.led.best ∧
    (∀ w ∈ walletsOf x2.P.ks, AMap.get x1.P.led.balance w = AMap.get x2.P.led.balance w ∧
      readyB x1.P.led w = true ∧ readyB x2.P.led w = true) := by
  obtain ⟨hI1, hv1, hc1, hks1, hkeys1, hK1⟩ := JQ_quiet h1 hq1
  obtain ⟨hI2, hv2, hc2, hks2, hkeys2, hK2⟩ := JQ_quiet h2 hq2
  obtain ⟨a, b, c, d, f, g, h, i⟩ := inv_functional hI1 hI2
  refine ⟨hc1.trans hc2.symm, hks1.trans hks2.symm, hkeys1.trans hkeys2.symm, a, b, c, d, f, g, h, i,
    hv1.trans hv2.symm, fun w hw => ?_⟩
  rw [hks2] at hw
  have r1 := hK1.ready w hw
  have r2 := hK2.ready w hw
  have b1 := hI1.bal w (mem_readyWallets.2 ⟨hw, r1⟩)
  have b2 := hI2.bal w (mem_readyWallets.2 ⟨hw, r2⟩)
  exact ⟨b1.trans b2.symm, r1, r2⟩

-- ------------------------------------------------------------------ crash_equiv_tasks

/-- CRASH_EQUIV_TASKS.  One history `evs` of round-3 events (node extends / reorganises to any branch, handler steps,
    CreateWallet, NewAddress, unconfirmed transactions, `crash`) AND task events — ImportWallet, batches of the
    rescan, RemoveWallet, iterations of the removal, the worker running its task to the end — run twice from the
    same state: with every crash executed (`Model.Persist.crash`: store kept, volatile state rebuilt, notification
    queue lost, the real Start with resync, catch-up and `initTaskChan`) and with the crashes ignored.  The worker
    runs a task only when it is in its queue, so after a crash it runs it only because Start queued it again.
    If every task window of the history has been closed (no task pending) and the run that never stops has no
    notification pending, then neither has the crashing run, and the two hold the same keystore buckets and key cache,
    the same tip copy and synced-to height, extensionally equal confirmed buckets and equal balances; every wallet is
    ready in both.  Coverage of the interleavings: `StepOKT` / `WindowOK` (one task at a time — the code refuses a
    second one with ErrTooManyTask; inside an import window crashes ANYWHERE, reorganisations, batches against a moved
    node, handler steps for any queued notification, stale ones included, CreateWallet, NewAddress of the other
    wallets; inside a removal window crashes while no notification is pending, CreateWallet, NewAddress of the other
    wallets, unconfirmed transactions that are in no chain the node has had — and no handler steps); the state
    hypothesis of a removal: `guardEv`. -/
theorem crash_equiv_tasks {cfg : Cfg} {G : Block} (E : StaticOK cfg.st G) (hG : G.txs = []) (hb : cfg.batch > 0)
    (hl : cfg.limit > 0) (evs : List EvT) (x0 : SysQ) (k0 : SkelT) (hJ : JT cfg G x0 k0) (hR : RunOKT cfg G k0 evs)
    (hg1 : GuardT cfg true x0 evs) (hg2 : GuardT cfg false x0 evs)
    (hidle : (skRunT cfg k0 evs).busy = none) (hq : (runT cfg false x0 evs).queue = []) :
    (runT cfg true x0 evs).queue = [] ∧
    (runT cfg true x0 evs).chain = (runT cfg false x0 evs).chain ∧
    (runT cfg true x0 evs).P.ks = (runT cfg false x0 evs).P.ks ∧
    (runT cfg true x0 evs).V.keys = (runT cfg false x0 evs).V.keys ∧
    AMap.Equiv (runT cfg true x0 evs).P.led.credits (runT cfg false x0 evs).P.led.credits ∧
    AMap.Equiv (runT cfg true x0 evs).P.led.unspent (runT cfg false x0 evs).P.led.unspent ∧
    AMap.Equiv (runT cfg true x0 evs).P.led.debits (runT cfg false x0 evs).P.led.debits ∧
    AMap.Equiv (runT cfg true x0 evs).P.led.game (runT cfg false x0 evs).P.led.game ∧
    AMap.Equiv (runT cfg true x0 evs).P.led.txrecs (runT cfg false x0 evs).P.led.txrecs ∧
    AMap.Equiv (runT cfg true x0 evs).P.led.blocks (runT cfg false x0 evs).P.led.blocks ∧
    AMap.Equiv (runT cfg true x0 evs).P.led.sync (runT cfg false x0 evs).P.led.sync ∧
    (runT cfg true x0 evs).P.led.syncedTo = (runT cfg false x0 evs).P.led.syncedTo ∧
    (runT cfg true x0 evs).V.led.best = (runT cfg false x0 evs).V.led.best ∧
    (∀ w ∈ walletsOf (runT cfg false x0 evs).P.ks,
      AMap.get (runT cfg true x0 evs).P.led.balance w = AMap.get (runT cfg false x0 evs).P.led.balance w ∧
      readyB (runT cfg true x0 evs).P.led w = true ∧ readyB (runT cfg false x0 evs).P.led w = true) := by
  have hqC : (runT cfg true x0 evs).queue = [] := by
    have := queue_suffixT cfg evs x0 x0 (List.suffix_refl _)
    rw [hq] at this
    exact List.suffix_nil.1 this
  have h1 := (JT_run E hG hb hl true evs x0 k0 hJ hR hg1).phase
  have h2 := (JT_run E hG hb hl false evs x0 k0 hJ hR hg2).phase
  unfold Phase at h1 h2
  rw [hidle] at h1 h2
  exact ⟨hqC, quiet_agree h1 h2 hqC hq⟩

/-- every crash of such a history finds a wallet on which Start succeeds — stated for histories that end inside an
    import window (outside: round 3's `crash_start_ok`) -/
theorem crash_start_ok_import {cfg : Cfg} {G : Block} (E : StaticOK cfg.st G) (hG : G.txs = []) (hb : cfg.batch > 0)
    (hl : cfg.limit > 0) (evs : List EvT) (x0 : SysQ) (k0 : SkelT) (hJ : JT cfg G x0 k0) (hR : RunOKT cfg G k0 evs)
    (hg1 : GuardT cfg true x0 evs) (w : Wid) (hbusy : (skRunT cfg k0 evs).busy = some (.imp w)) :
    (Model.Persist.crash (envAt cfg.st (runT cfg true x0 evs).chain) cfg.n (runT cfg true x0 evs).P).ok = true := by
  have h1 := (JT_run E hG hb hl true evs x0 k0 hJ hR hg1).phase
  unfold Phase at h1
  rw [hbusy] at h1
  exact (JI_crash E h1).2.2

theorem skRunT_append (cfg : Cfg) (k : SkelT) (l₁ l₂ : List EvT) :
    skRunT cfg k (l₁ ++ l₂) = skRunT cfg (skRunT cfg k l₁) l₂ := by
  unfold skRunT; rw [List.foldl_append]

/-- the hypotheses on a history split along any cut -/
theorem runOKT_append {cfg : Cfg} {G : Block} : ∀ (l₁ l₂ : List EvT) (k : SkelT),
    RunOKT cfg G k (l₁ ++ l₂) ↔ RunOKT cfg G k l₁ ∧ RunOKT cfg G (skRunT cfg k l₁) l₂ := by
  intro l₁
  induction l₁ with
  | nil => intro l₂ k; exact ⟨fun h => ⟨trivial, h⟩, fun h => h.2⟩
  | cons e l ih =>
    intro l₂ k
    show StepOKT cfg G k e ∧ RunOKT cfg G (skStepT cfg k e) (l ++ l₂) ↔
      (StepOKT cfg G k e ∧ RunOKT cfg G (skStepT cfg k e) l) ∧ RunOKT cfg G (skRunT cfg (skStepT cfg k e) l) l₂
    rw [ih l₂ (skStepT cfg k e)]
    exact ⟨fun h => ⟨⟨h.1, h.2.1⟩, h.2.2⟩, fun h => ⟨h.1.1, h.1.2, h.2⟩⟩

theorem guardT_append {cfg : Cfg} {cr : Bool} : ∀ (l₁ l₂ : List EvT) (x : SysQ),
    GuardT cfg cr x (l₁ ++ l₂) ↔ GuardT cfg cr x l₁ ∧ GuardT cfg cr (runT cfg cr x l₁) l₂ := by
  intro l₁
  induction l₁ with
  | nil => intro l₂ x; exact ⟨fun h => ⟨trivial, h⟩, fun h => h.2⟩
  | cons e l ih =>
    intro l₂ x
    show guardEv cfg x e ∧ GuardT cfg cr (stepT cfg cr x e) (l ++ l₂) ↔
      (guardEv cfg x e ∧ GuardT cfg cr (stepT cfg cr x e) l) ∧ GuardT cfg cr (runT cfg cr (stepT cfg cr x e) l) l₂
    rw [ih l₂ (stepT cfg cr x e)]
    exact ⟨fun h => ⟨⟨h.1, h.2.1⟩, h.2.2⟩, fun h => ⟨h.1.1, h.1.2, h.2⟩⟩

-- ------------------------------------------------------------------ quiet points inside an open window

/-- no task is pending in this state: the wallet of the open window (if any) is finished according to the STORE -/
def IdleAt (x : SysQ) : Option Task → Prop
  | none => True
  | some (.imp w) => importDone x.P w = true
  | some (.rem w) => removeDone x.P w = true

/-- the skeleton with the window closed -/
def closedBase (k : SkelT) : Skel :=
  match k.busy with
  | some (.rem w) => { k.base with ks := AMap.erase k.base.ks w }
  | _ => k.base

/-- nothing queued, no task pending (window closed or not): round 3's invariant holds -/
theorem phase_idle_JQ {cfg : Cfg} {G : Block} {x : SysQ} {k : SkelT} (hph : Phase cfg G x k) (hq : x.queue = [])
    (hidle : IdleAt x k.busy) : JQ cfg.st G x (closedBase k) := by
  unfold Phase at hph
  unfold closedBase
  cases hb : k.busy with
  | none => rw [hb] at hph; exact hph
  | some t =>
    cases t with
    | imp w =>
      rw [hb] at hph hidle
      exact JI_done_JQ hph hq hidle
    | rem w =>
      rw [hb] at hph hidle
      rcases hph with hM | hD
      · obtain ⟨stt, hst, _⟩ := hM.flagged
        have : removeDone x.P w = true := hidle
        unfold removeDone at this; rw [hst] at this; cases this
      · exact hD.jq

/-- CRASH_EQUIV_TASKS at ANY quiet point — also inside a task window that the history has not closed: whenever the run
    that never stops has nothing queued and in BOTH runs the wallet of the open window is finished according to the
    store (no task pending), the two runs agree on everything confirmed.  (That the crashing run is finished when the
    other one is cannot be concluded: at the same event index the two may be at different points of the rescan.) -/
theorem crash_equiv_tasks_quiet {cfg : Cfg} {G : Block} (E : StaticOK cfg.st G) (hG : G.txs = []) (hb : cfg.batch > 0)
    (hl : cfg.limit > 0) (evs : List EvT) (x0 : SysQ) (k0 : SkelT) (hJ : JT cfg G x0 k0) (hR : RunOKT cfg G k0 evs)
    (hg1 : GuardT cfg true x0 evs) (hg2 : GuardT cfg false x0 evs)
    (hidle1 : IdleAt (runT cfg true x0 evs) (skRunT cfg k0 evs).busy)
    (hidle2 : IdleAt (runT cfg false x0 evs) (skRunT cfg k0 evs).busy)
    (hq : (runT cfg false x0 evs).queue = []) :
    (runT cfg true x0 evs).queue = [] ∧
    (runT cfg true x0 evs).chain = (runT cfg false x0 evs).chain ∧
    (runT cfg true x0 evs).P.ks = (runT cfg false x0 evs).P.ks ∧
    (runT cfg true x0 evs).V.keys = (runT cfg false x0 evs).V.keys ∧
    AMap.Equiv (runT cfg true x0 evs).P.led.credits (runT cfg false x0 evs).P.led.credits ∧
    AMap.Equiv (runT cfg true x0 evs).P.led.unspent (runT cfg false x0 evs).P.led.unspent ∧
    AMap.Equiv (runT cfg true x0 evs).P.led.debits (runT cfg false x0 evs).P.led.debits ∧
    AMap.Equiv (runT cfg true x0 evs).P.led.game (runT cfg false x0 evs).P.led.game ∧
    AMap.Equiv (runT cfg true x0 evs).P.led.txrecs (runT cfg false x0 evs).P.led.txrecs ∧
    AMap.Equiv (runT cfg true x0 evs).P.led.blocks (runT cfg false x0 evs).P.led.blocks ∧
    AMap.Equiv (runT cfg true x0 evs).P.led.sync (runT cfg false x0 evs).P.led.sync ∧
    (runT cfg true x0 evs).P.led.syncedTo = (runT cfg false x0 evs).P.led.syncedTo ∧
    (runT cfg true x0 evs).V.led.best = (runT cfg false x0 evs).V.led.best ∧
    (∀ w ∈ walletsOf (runT cfg false x0 evs).P.ks,
      AMap.get (runT cfg true x0 evs).P.led.balance w = AMap.get (runT cfg false x0 evs).P.led.balance w ∧
      readyB (runT cfg true x0 evs).P.led w = true ∧ readyB (runT cfg false x0 evs).P.led w = true) := by
  have hqC : (runT cfg true x0 evs).queue = [] := by
    have := queue_suffixT cfg evs x0 x0 (List.suffix_refl _)
    rw [hq] at this
    exact List.suffix_nil.1 this
  have h1 := phase_idle_JQ (JT_run E hG hb hl true evs x0 k0 hJ hR hg1).phase hqC hidle1
  have h2 := phase_idle_JQ (JT_run E hG hb hl false evs x0 k0 hJ hR hg2).phase hq hidle2
  exact ⟨hqC, quiet_agree h1 h2 hqC hq⟩

/-- a crash DURING Start inside an import window: every intermediate state of Start (`SInvJ`) is a state from which
    boot + Start succeed and reach the node's whole chain -/
theorem crash_during_start_ij {st : Static} {G : Block} (E : StaticOK st G) {ks : AMap.T Wid KsRec}
    {chain : List Block} (hN : ChainOK (lenv st ks) G chain) (n : Nat) {w : Wid} {s0 : Store} {h : Nat}
    {P : PStore} {V : PVol} (hS : SInvJ st ks chain w s0 h P V) (hKN : KeysNodup (ownOf ks)) (hw : w ∈ walletsOf ks) :
    (Model.Persist.crash (envAt st chain) n P).ok = true ∧
    IJ ((lenv st ks).ctx chain) w (Model.Persist.crash (envAt st chain) n P).P.led chain ∧
    (Model.Persist.crash (envAt st chain) n P).V.led.best = tipMeta chain ∧
    (Model.Persist.crash (envAt st chain) n P).V.tasks = requeue (Model.Persist.crash (envAt st chain) n P).P := by
  have := crash_reaches_ij E hN (hN.take h) n hS.pks hKN hw hS.ij
  exact ⟨this.1, this.2.2.2.1, this.2.2.2.2.1, this.2.2.2.2.2.1⟩

end MW.Lemmas.Deepen4
