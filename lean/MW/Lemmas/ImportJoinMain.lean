/-
  C07 stage 1 with other wallets in the instance, part 6 — the two ends of the rescan.
  `scanJ_fresh`: at the import moment (the other wallets' books for the whole chain in the store, balance 0 for the
  restored wallet, genesis block without transactions) the joined scan invariant holds at cursor 0.
  `scanJ_tip_inv`: the joined scan invariant at the tip IS C01's invariant `Inv` for the FULL keystore table
  ("join of the halves = books of the table": ImportJoinFin).
-/
import MW.Lemmas.ImportJoinScan
import MW.Lemmas.ImportJoinFin
namespace MW.Lemmas.ImportJoin
open MW MW.Model.Ledger MW.Model.Import MW.Spec.Chain MW.Spec.Books MW.Lemmas.Ledger MW.Lemmas.RemoveBooks
open MW.Lemmas.ImportExact

/-- the import moment -/
theorem scanJ_fresh {c : Ctx} {w : Wid} {s : Store} (hKN : KeysNodup c.own) (hC : ChainOK c)
    (hI : Inv { c with own := ownR c.own w } s c.node.chain)
    {G : Block} (hG : c.node.chain[0]? = some G) (hGt : G.txs = []) (hb : AMap.get s.balance w = some 0) :
    ScanJ c w s 0 := by
  have hOr := ownR_sub hKN w
  have hVr : ChainValid (ownR c.own w) c.node.chain := chainValid_sub hOr hC.valid
  have hbook : bookOf c.p (ownW c.own w) (c.node.chain.take (0 + 1)) = {} := by
    rw [take_succ_block hG]
    unfold bookOf occs
    simp [occsOfBlock, hGt, occsFrom]
  have hA := hI.agree
  refine ⟨?_, ?_, ?_, ?_, fun w' _ hr => hI.bal w' hr, hI.sync, hI.syncedTo⟩
  · rw [hbook]
    constructor
    · intro w' tx idx
      rw [hA.unspent]
      show _ = ((lookupU ((bookOf c.p (ownR c.own w) c.node.chain).L ++ []) tx idx).filter _).map _
      rw [List.append_nil]
    · intro k; rw [hA.credits]; exact (orE_none_right _).symm
    · intro k; rw [hA.debits]; exact (orE_none_right _).symm
    · intro k; rw [hA.game]; exact (orE_none_right _).symm
    · intro k; rw [hA.txrecs]; exact (orE_none_right _).symm
  · intro h
    rw [hA.blocks, blocks_eq_blockRecOf c.p (ownR c.own w) c.node.chain hVr hC.heights h]
    apply blockRecOf_congr
    intro key
    unfold hasRec
    rw [hA.txrecs]
  · intro k loc hl
    rw [hA.txrecs] at hl
    obtain ⟨P₁, oc, P₂, hsp, _, hk, hloc⟩ := txrec_occ hVr hl
    exact ⟨oc, by rw [hsp]; simp, hk, hloc⟩
  · rw [hbook, hb]; rfl

/-- the joined scan invariant at the tip is C01's invariant for the full keystore table -/
theorem scanJ_tip_inv {c : Ctx} {w : Wid} {s : Store} {k : Nat} (hKN : KeysNodup c.own) (hC : ChainOK c)
    (hS : ScanJ c w s k) (hk : k + 1 = c.node.chain.length) :
    Inv c s c.node.chain := by
  have hOr := ownR_sub hKN w
  have hOw := ownW_sub hKN w
  have ht : c.node.chain.take (k + 1) = c.node.chain := List.take_of_length_le (by omega)
  have hA := hS.agree
  have hBl := hS.bal
  rw [ht] at hA hBl
  refine ⟨⟨?_, ?_, ?_, ?_, ?_, ?_⟩, ?_, hS.sync, hS.syncedTo⟩
  · intro w' tx idx
    rw [hA.unspent, join_lookup (p := c.p) hOr hOw hC.valid]
  · intro key; rw [hA.credits, join_credits (p := c.p) hOr hOw hC.valid]
  · intro key; rw [hA.debits, join_debits (p := c.p) hOr hOw hC.valid]
  · intro key; rw [hA.game, join_game (p := c.p) hOr hOw hC.valid]
  · intro key; rw [hA.txrecs, join_txrecs (p := c.p) hOr hOw hC.valid]
  · intro h
    rw [hS.blocks h, blocks_eq_blockRecOf c.p c.own c.node.chain hC.valid hC.heights h]
    apply blockRecOf_congr
    intro key
    unfold hasRec
    rw [hA.txrecs, join_txrecs (p := c.p) hOr hOw hC.valid]
  · intro w' hw'
    by_cases hww : w' = w
    · rw [hww, hBl, join_total_w (p := c.p) hOw]
    · rw [← join_total_r (p := c.p) (chain := c.node.chain) hOr w' hww]
      exact hS.balR w' hww hw'

end MW.Lemmas.ImportJoin
