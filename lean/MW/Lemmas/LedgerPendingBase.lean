/-
  Helper lemmas for C09 (pending part of MW.Model.Ledger), part 1: association-map facts and the
  "only shrinks" relation `Sub` between stores: every operation of the conflict purge (removeConflict,
  removeDoubleSpends, purgeSpenders, unpendMined …) only erases pending transactions, pending credits,
  pending deposit records and spender-list members, and touches no mined bucket.
-/
import MW.Model.Ledger
set_option linter.unusedSectionVars false
namespace MW.Lemmas.LedgerPending
open MW MW.Model.Ledger

-- ------------------------------------------------------------------ AMap

section amap
variable {K V : Type} [DecidableEq K]

theorem get_scan (m : AMap.T K V) (p : K → Bool) (k : K) :
    AMap.get (AMap.scan m p) k = if p k then AMap.get m k else none := by
  induction m with
  | nil => simp [AMap.scan, AMap.get]
  | cons a m ih =>
    unfold AMap.scan at *
    by_cases hp : p a.1
    · simp only [List.filter, hp]
      rw [AMap.get_cons, AMap.get_cons, ih]
      by_cases hk : a.1 = k
      · subst hk; simp [hp]
      · simp [hk]
    · simp only [List.filter, hp]
      rw [ih, AMap.get_cons]
      by_cases hk : a.1 = k
      · subst hk; simp [hp]
      · simp [hk]

theorem erase_eq_scan (m : AMap.T K V) (k : K) :
    AMap.erase m k = AMap.scan m (fun a => !decide (a = k)) := rfl

omit [DecidableEq K] in
theorem scan_scan (m : AMap.T K V) (p q : K → Bool) :
    AMap.scan (AMap.scan m p) q = AMap.scan m (fun k => p k && q k) := by
  unfold AMap.scan
  rw [List.filter_filter]
  congr 1
  funext a
  exact Bool.and_comm _ _

omit [DecidableEq K] in
theorem scan_true (m : AMap.T K V) : AMap.scan m (fun _ => true) = m := by
  unfold AMap.scan; simp

omit [DecidableEq K] in
theorem scan_length_le (m : AMap.T K V) (p : K → Bool) : (AMap.scan m p).length ≤ m.length := by
  unfold AMap.scan; exact List.length_filter_le _ _

theorem mem_of_get {m : AMap.T K V} {k : K} {v : V} (h : AMap.get m k = some v) : (k, v) ∈ m := by
  induction m with
  | nil => simp [AMap.get] at h
  | cons a m ih =>
    rw [AMap.get_cons] at h
    by_cases hk : a.1 = k
    · simp [hk] at h
      have : a = (k, v) := by cases a; simp_all
      simp [this]
    · simp [hk] at h
      exact List.mem_cons_of_mem _ (ih h)

/-- counting argument behind the fuel of `removeConflict`: restricting the map and strengthening the
    predicate strictly lowers the count when some entry satisfies the weak but not the strong predicate -/
theorem count_le (m : AMap.T K V) (p : K → Bool) (q q' : K → Bool)
    (himp : ∀ k, q k = true → q' k = true) :
    (AMap.scan m p).countP (fun e => q e.1) ≤ m.countP (fun e => q' e.1) := by
  induction m with
  | nil => simp [AMap.scan]
  | cons a m ih =>
    unfold AMap.scan at *
    have hi := himp a.1
    rw [List.countP_cons]
    cases hpv : p a.1
    · rw [List.filter_cons_of_neg (by simp [hpv])]; omega
    · rw [List.filter_cons_of_pos (by simp [hpv]), List.countP_cons]
      cases hqv : q a.1 <;> cases hq'v : q' a.1 <;> simp_all <;> omega

theorem count_lt (m : AMap.T K V) (p : K → Bool) (q q' : K → Bool)
    (himp : ∀ k, q k = true → q' k = true) (k₀ : K) (v₀ : V) (hmem : (k₀, v₀) ∈ m)
    (hq' : q' k₀ = true) (hq : q k₀ = false) :
    (AMap.scan m p).countP (fun e => q e.1) < m.countP (fun e => q' e.1) := by
  induction m with
  | nil => cases hmem
  | cons a m ih =>
    have hle := count_le m p q q' himp
    have hi := himp a.1
    unfold AMap.scan at *
    rw [List.countP_cons]
    rcases List.mem_cons.mp hmem with h | h
    · subst h
      cases hpv : p k₀
      · rw [List.filter_cons_of_neg (by simp [hpv])]; simp [hq']; omega
      · rw [List.filter_cons_of_pos (by simp [hpv]), List.countP_cons]; simp [hq', hq]; omega
    · have := ih h
      cases hpv : p a.1
      · rw [List.filter_cons_of_neg (by simp [hpv])]; omega
      · rw [List.filter_cons_of_pos (by simp [hpv]), List.countP_cons]
        cases hqv : q a.1 <;> cases hq'v : q' a.1 <;> simp_all <;> omega

theorem countP_le_length (m : AMap.T K V) (q : K × V → Bool) : m.countP q ≤ m.length := List.countP_le_length

end amap

-- ------------------------------------------------------------------ folds with an invariant

theorem foldl_inv {α β : Type} (Inv : β → Prop) (f : β → α → β) (l : List α) (b : β)
    (h0 : Inv b) (hstep : ∀ a, ∀ x ∈ l, Inv a → Inv (f a x)) : Inv (l.foldl f b) := by
  induction l generalizing b with
  | nil => exact h0
  | cons x l ih =>
    simp only [List.foldl]
    apply ih
    · exact hstep b x (by simp) h0
    · intro a y hy ha; exact hstep a y (by simp [hy]) ha

/-- two folds that agree step by step on the states satisfying an invariant -/
theorem foldl_congr_inv {α β : Type} (Inv : β → Prop) (f g : β → α → β) (l : List α) (b : β)
    (h0 : Inv b) (hstep : ∀ a, ∀ x ∈ l, Inv a → f a x = g a x ∧ Inv (g a x)) :
    l.foldl f b = l.foldl g b ∧ Inv (l.foldl g b) := by
  induction l generalizing b with
  | nil => exact ⟨rfl, h0⟩
  | cons x l ih =>
    simp only [List.foldl]
    have h1 := hstep b x (by simp) h0
    rw [h1.1]
    apply ih
    · exact h1.2
    · intro a y hy ha; exact hstep a y (by simp [hy]) ha

theorem foldIdx_inv {α β : Type} (Inv : β → Prop) (f : β → Nat → α → β) (l : List α) (n : Nat) (b : β)
    (h0 : Inv b) (hstep : ∀ a i x, Inv a → Inv (f a i x)) : Inv (foldIdx f l n b) := by
  induction l generalizing b n with
  | nil => exact h0
  | cons x l ih => exact ih _ _ (hstep b n x h0)

end MW.Lemmas.LedgerPending
