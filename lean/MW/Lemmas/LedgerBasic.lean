/-
  Helper lemmas for the ledger proofs (C01/C10): association maps, the indexed folds of the model,
  pointwise tables, the ledger list of the books.
-/
import MW.Model.Ledger
import MW.Spec.Chain
import MW.Spec.Books
namespace MW.Lemmas.Ledger
open MW MW.Model.Ledger MW.Spec.Chain MW.Spec.Books

-- ------------------------------------------------------------------ association maps

section amap
variable {K V : Type} [DecidableEq K]

theorem get_filter_key (m : AMap.T K V) (p : K → Bool) (k : K) :
    AMap.get (m.filter (fun e => p e.1)) k = if p k then AMap.get m k else none := by
  induction m with
  | nil => simp [AMap.get]
  | cons a m ih =>
    by_cases hp : p a.1
    · simp only [List.filter, hp]
      rw [AMap.get_cons, AMap.get_cons, ih]
      by_cases hk : a.1 = k
      · subst hk; simp [hp]
      · simp [hk]
    · simp only [List.filter, hp]
      rw [ih, AMap.get_cons]
      by_cases hk : a.1 = k
      · subst hk; simp [hp]
      · simp [hk]

theorem get_mergeBalances (bals m : Bals) (k : Wid) :
    AMap.get (mergeBalances bals m) k = match AMap.get bals k with | some v => some v | none => AMap.get m k := by
  induction bals with
  | nil => simp [mergeBalances, AMap.get]
  | cons a bals ih =>
    unfold mergeBalances at *
    simp only [List.foldr]
    rw [AMap.get_put, AMap.get_cons, ih]
    by_cases hk : a.1 = k <;> simp [hk]

/-- keys of an association map are pairwise distinct -/
def KeysNodup (m : AMap.T K V) : Prop := (m.map (·.1)).Nodup

theorem keysNodup_erase {m : AMap.T K V} (h : KeysNodup m) (k : K) : KeysNodup (AMap.erase m k) := by
  unfold KeysNodup AMap.erase at *
  exact (List.Nodup.sublist (List.Sublist.map _ List.filter_sublist) h)

theorem not_mem_keys_erase (m : AMap.T K V) (k : K) : k ∉ (AMap.erase m k).map (·.1) := by
  unfold AMap.erase
  intro h
  rcases List.mem_map.1 h with ⟨a, ha, rfl⟩
  have := (List.mem_filter.1 ha).2
  simp at this

theorem keysNodup_put {m : AMap.T K V} (h : KeysNodup m) (k : K) (v : V) : KeysNodup (AMap.put m k v) := by
  unfold AMap.put KeysNodup
  simp only [List.map_cons, List.nodup_cons]
  exact ⟨not_mem_keys_erase m k, keysNodup_erase h k⟩

theorem mem_iff_get_of_nodup {m : AMap.T K V} (h : KeysNodup m) (k : K) (v : V) :
    (k, v) ∈ m ↔ AMap.get m k = some v := by
  induction m with
  | nil => simp [AMap.get]
  | cons a m ih =>
    unfold KeysNodup at h
    simp only [List.map_cons, List.nodup_cons] at h
    rw [AMap.get_cons]
    by_cases hk : a.1 = k
    · simp only [hk, if_true, List.mem_cons]
      constructor
      · rintro (h1 | h1)
        · rw [← h1]
        · exfalso; apply h.1; rw [hk]; exact List.mem_map.2 ⟨(k, v), h1, rfl⟩
      · intro h1
        left
        cases a with
        | mk a1 a2 => simp only [Option.some.injEq] at h1 hk; rw [hk, h1]
    · simp only [hk, if_false, List.mem_cons]
      rw [← ih h.2]
      constructor
      · rintro (h1 | h1)
        · exfalso; apply hk; rw [← h1]
        · exact h1
      · intro h1; right; exact h1

end amap

-- ------------------------------------------------------------------ tables

@[simp] theorem upd_apply {K V : Type} [DecidableEq K] (f : K → V) (k k' : K) (v : V) :
    upd f k v k' = if k = k' then v else f k' := rfl

-- ------------------------------------------------------------------ Except

@[simp] theorem M_pure_bind {α β : Type} (a : α) (f : α → M β) : (pure a >>= f) = f a := rfl
@[simp] theorem M_ok_bind {α β : Type} (a : α) (f : α → M β) : (Except.ok a >>= f) = f a := rfl
@[simp] theorem M_error_bind {α β : Type} (e : Err) (f : α → M β) : ((Except.error e : M α) >>= f) = Except.error e := rfl
@[simp] theorem M_throw_bind {α β : Type} (e : Err) (f : α → M β) : ((throw e : M α) >>= f) = Except.error e := rfl
@[simp] theorem M_pure_eq {α : Type} (a : α) : (pure a : M α) = Except.ok a := rfl
@[simp] theorem M_throw_eq {α : Type} (e : Err) : (throw e : M α) = Except.error e := rfl

-- ------------------------------------------------------------------ indexed folds

@[simp] theorem foldIdx_nil {α β : Type} (f : β → Nat → α → β) (i : Nat) (b : β) : foldIdx f [] i b = b := rfl
@[simp] theorem foldIdx_cons {α β : Type} (f : β → Nat → α → β) (a : α) (as : List α) (i : Nat) (b : β) :
    foldIdx f (a :: as) i b = foldIdx f as (i + 1) (f b i a) := rfl
@[simp] theorem foldIdxM_nil {α β : Type} (f : β → Nat → α → M β) (i : Nat) (b : β) :
    foldIdxM f [] i b = Except.ok b := rfl
theorem foldIdxM_cons {α β : Type} (f : β → Nat → α → M β) (a : α) (as : List α) (i : Nat) (b : β) :
    foldIdxM f (a :: as) i b = (f b i a >>= fun b' => foldIdxM f as (i + 1) b') := rfl

/-- an indexed fold whose steps never change the accumulator -/
theorem foldIdx_id {α β : Type} (f : β → Nat → α → β) (as : List α) (i : Nat) (b : β)
    (h : ∀ b i a, a ∈ as → f b i a = b) : foldIdx f as i b = b := by
  induction as generalizing i b with
  | nil => rfl
  | cons a as ih =>
    rw [foldIdx_cons, h b i a (List.mem_cons_self ..)]
    exact ih _ _ (fun b i a' ha => h b i a' (List.mem_cons_of_mem _ ha))

-- ------------------------------------------------------------------ the ledger list of the books

def keyU (u : UCoin) : TxId × Nat := (u.tx, u.idx)

/-- at most one entry per outpoint -/
def KeysOK (L : List UCoin) : Prop := (L.map keyU).Nodup

theorem at_iff (tx : TxId) (idx : Nat) (u : UCoin) : UCoin.at tx idx u = true ↔ u.tx = tx ∧ u.idx = idx := by
  simp [UCoin.at]

theorem lookupU_some {L : List UCoin} {tx : TxId} {idx : Nat} {u : UCoin} (h : lookupU L tx idx = some u) :
    u ∈ L ∧ u.tx = tx ∧ u.idx = idx := by
  unfold lookupU at h
  exact ⟨List.mem_of_find?_eq_some h, (at_iff tx idx u).1 (List.find?_some h)⟩

theorem lookupU_none {L : List UCoin} {tx : TxId} {idx : Nat} (h : lookupU L tx idx = none) :
    ∀ u ∈ L, ¬ (u.tx = tx ∧ u.idx = idx) := by
  unfold lookupU at h
  intro u hu hk
  have := List.find?_eq_none.1 h u hu
  exact this ((at_iff tx idx u).2 hk)

theorem lookupU_of_mem {L : List UCoin} (hk : KeysOK L) {u : UCoin} (hu : u ∈ L) :
    lookupU L u.tx u.idx = some u := by
  induction L with
  | nil => cases hu
  | cons a L ih =>
    unfold KeysOK at hk
    simp only [List.map_cons, List.nodup_cons] at hk
    unfold lookupU
    rw [List.find?_cons]
    by_cases ha : UCoin.at u.tx u.idx a = true
    · rw [ha]
      rcases List.mem_cons.1 hu with h1 | h1
      · rw [h1]
      · exfalso
        apply hk.1
        have := (at_iff _ _ _).1 ha
        have hkey : keyU a = keyU u := by unfold keyU; rw [this.1, this.2]
        rw [hkey]; exact List.mem_map.2 ⟨u, h1, rfl⟩
    · have ha' : UCoin.at u.tx u.idx a = false := by simpa using ha
      rw [ha']
      rcases List.mem_cons.1 hu with h1 | h1
      · exfalso; apply ha; rw [h1]; exact (at_iff _ _ _).2 ⟨rfl, rfl⟩
      · exact ih hk.2 h1

theorem lookupU_filter (L : List UCoin) (a : TxId) (b : Nat) (tx : TxId) (idx : Nat) :
    lookupU (L.filter (fun u' => !UCoin.at a b u')) tx idx =
      if a = tx ∧ b = idx then none else lookupU L tx idx := by
  induction L with
  | nil => simp [lookupU]
  | cons u L ih =>
    by_cases hu : UCoin.at a b u = true
    · simp only [List.filter, hu, Bool.not_true]
      rw [ih]
      have hu' := (at_iff _ _ _).1 hu
      by_cases hk : a = tx ∧ b = idx
      · simp [hk]
      · simp only [hk, if_false]
        unfold lookupU
        rw [List.find?_cons]
        have : UCoin.at tx idx u = false := by
          apply Bool.eq_false_iff.2
          intro h
          have := (at_iff _ _ _).1 h
          apply hk; rw [← hu'.1, ← hu'.2]; exact this
        rw [this]
    · have hu' : UCoin.at a b u = false := by simpa using hu
      simp only [List.filter, hu', Bool.not_false]
      unfold lookupU at *
      rw [List.find?_cons, List.find?_cons, ih]
      by_cases hk : a = tx ∧ b = idx
      · have : UCoin.at tx idx u = false := by rw [← hk.1, ← hk.2]; exact hu'
        simp [hk, this]
      · simp [hk]

theorem lookupU_append_single (L : List UCoin) (u : UCoin) (tx : TxId) (idx : Nat) :
    lookupU (L ++ [u]) tx idx =
      match lookupU L tx idx with
      | some x => some x
      | none => if u.tx = tx ∧ u.idx = idx then some u else none := by
  unfold lookupU
  rw [List.find?_append]
  cases h : List.find? (UCoin.at tx idx) L with
  | some x => simp
  | none =>
    simp only [Option.none_or, List.find?_cons, List.find?_nil]
    by_cases hk : u.tx = tx ∧ u.idx = idx
    · simp [hk, (at_iff tx idx u).2 hk]
    · have : UCoin.at tx idx u = false := by
        apply Bool.eq_false_iff.2; intro h'; exact hk ((at_iff _ _ _).1 h')
      simp [hk, this]

theorem keysOK_filter {L : List UCoin} (h : KeysOK L) (p : UCoin → Bool) : KeysOK (L.filter p) := by
  unfold KeysOK at *
  exact List.Nodup.sublist (List.Sublist.map _ List.filter_sublist) h

theorem keysOK_append_single {L : List UCoin} (h : KeysOK L) (u : UCoin) (hn : lookupU L u.tx u.idx = none) :
    KeysOK (L ++ [u]) := by
  unfold KeysOK at *
  rw [List.map_append, List.nodup_append]
  refine ⟨h, by simp, ?_⟩
  intro a ha b hb
  simp only [List.map_cons, List.map_nil, List.mem_singleton] at hb
  rcases List.mem_map.1 ha with ⟨x, hx, rfl⟩
  rw [hb]
  intro hkey
  unfold keyU at hkey
  simp only [Prod.mk.injEq] at hkey
  exact lookupU_none hn x hx hkey

/-- what wallet `w` owns in the ledger list -/
def totalU (L : List UCoin) (w : Wid) : Nat := ((L.filter (fun u => decide (u.wallet = w))).map (·.out.amt)).sum

theorem total_map_toSCoin (L : List UCoin) (w : Wid) : total (L.map UCoin.toSCoin) w = totalU L w := by
  unfold total coinsOfWallet totalU
  induction L with
  | nil => rfl
  | cons u L ih =>
    simp only [List.map_cons, List.filter_cons]
    by_cases hw : u.wallet = w
    · have h1 : (UCoin.toSCoin u).wallet = w := hw
      simp only [h1, hw, decide_true, if_true, List.map_cons, List.sum_cons, ih]
      rfl
    · have h1 : ¬ (UCoin.toSCoin u).wallet = w := hw
      simp only [h1, hw, decide_false]
      exact ih

theorem totalU_append_single (L : List UCoin) (u : UCoin) (w : Wid) :
    totalU (L ++ [u]) w = totalU L w + (if u.wallet = w then u.out.amt else 0) := by
  unfold totalU
  rw [List.filter_append, List.map_append, List.sum_append]
  by_cases hw : u.wallet = w <;> simp [hw]

theorem amt_le_totalU {L : List UCoin} {u : UCoin} (hu : u ∈ L) : u.out.amt ≤ totalU L u.wallet := by
  unfold totalU
  induction L with
  | nil => cases hu
  | cons a L ih =>
    rcases List.mem_cons.1 hu with h1 | h1
    · rw [← h1]; simp
    · have := ih h1
      by_cases hw : a.wallet = u.wallet
      · simp only [List.filter_cons, hw, decide_true, if_true, List.map_cons, List.sum_cons]; omega
      · simp only [List.filter_cons, hw, decide_false]; exact this

theorem totalU_remove {L : List UCoin} (hk : KeysOK L) {u : UCoin} (hu : u ∈ L) (w : Wid) :
    totalU (L.filter (fun u' => !UCoin.at u.tx u.idx u')) w =
      totalU L w - (if u.wallet = w then u.out.amt else 0) := by
  induction L with
  | nil => cases hu
  | cons a L ih =>
    unfold KeysOK at hk
    simp only [List.map_cons, List.nodup_cons] at hk
    rcases List.mem_cons.1 hu with h1 | h1
    · -- the head is the coin: the tail has no entry at this outpoint
      subst h1
      have hat : UCoin.at u.tx u.idx u = true := (at_iff _ _ _).2 ⟨rfl, rfl⟩
      have htail : L.filter (fun u' => !UCoin.at u.tx u.idx u') = L := by
        apply List.filter_eq_self.2
        intro x hx
        have : ¬ (UCoin.at u.tx u.idx x = true) := by
          intro h
          have h' := (at_iff _ _ _).1 h
          apply hk.1
          have : keyU x = keyU u := by unfold keyU; rw [h'.1, h'.2]
          rw [← this]; exact List.mem_map.2 ⟨x, hx, rfl⟩
        simpa using this
      simp only [List.filter_cons, hat, Bool.not_true]
      rw [show (if false = true then u :: List.filter (fun u' => !UCoin.at u.tx u.idx u') L
            else List.filter (fun u' => !UCoin.at u.tx u.idx u') L) = L from by simpa using htail]
      unfold totalU
      by_cases hw : u.wallet = w
      · simp only [List.filter_cons, hw, decide_true, if_true, List.map_cons, List.sum_cons]; omega
      · simp [hw]
    · have hne : UCoin.at u.tx u.idx a = false := by
        apply Bool.eq_false_iff.2
        intro h
        have h' := (at_iff _ _ _).1 h
        apply hk.1
        have : keyU a = keyU u := by unfold keyU; rw [h'.1, h'.2]
        rw [this]; exact List.mem_map.2 ⟨u, h1, rfl⟩
      have ih' := ih hk.2 h1
      simp only [List.filter_cons, hne, Bool.not_false, if_true]
      unfold totalU at *
      by_cases hw : a.wallet = w
      · simp only [List.filter_cons, hw, decide_true, if_true, List.map_cons, List.sum_cons]
        rw [ih']
        have hle : (if u.wallet = w then u.out.amt else 0) ≤
            ((L.filter (fun u => decide (u.wallet = w))).map (·.out.amt)).sum := by
          by_cases hu' : u.wallet = w
          · simp only [hu', if_true]
            have := amt_le_totalU h1
            unfold totalU at this
            rw [hu'] at this; exact this
          · simp [hu']
        omega
      · simp only [List.filter_cons, hw, decide_false]
        exact ih'

end MW.Lemmas.Ledger
