/- C20 liveness: corollaries that combine the running side (ProtoLive) and the stop side (ProtoStop) -/
import MW.Lemmas.ProtoLive
import MW.Lemmas.ProtoStop
namespace MW.Lemmas.ProtoLive2
open MW.Model.Proto MW.Lemmas.Proto MW.Spec.Live MW.Lemmas.ProtoLive MW.Lemmas.ProtoStop

section run
variable {c : Cfg} {run : Nat → St} {ls : Nat → Option Label}

/-- either no stop is ever requested, or from some instant on quit is closed -/
theorem quit_cases (hr : IsRun c run ls) : (∀ i, (run i).quit = false) ∨ ∃ T, ∀ j, T ≤ j → (run j).quit = true := by
  by_cases h : ∃ T, (run T).quit = true
  · obtain ⟨T, hT⟩ := h
    exact Or.inr ⟨T, run_quit hr hT⟩
  · refine Or.inl fun i => ?_
    cases hq : (run i).quit with
    | false => rfl
    | true => exact absurd ⟨i, hq⟩ h

/-- LIFE CYCLE. No global "no stop" hypothesis: in a fair run with bounded task rounds and an API that is quiet
    after the stop request, every block announced and every task accepted by instant `i` is processed / finished
    at some later instant – or a stop has been requested, and then the run reaches the final state with the
    database closed. -/
theorem life_cycle (hc : c.busy < c.cap) (B : Nat → Nat) (hr : IsRun c run ls) (hf : FairRun c run ls)
    (hbud : ∀ i t, (obs run ls i).used t ≤ B t) (hapi : ∀ j, (run j).quit = true → ls j ≠ some .aPush) (i : Nat) :
    ((∃ j, i ≤ j ∧ (obs run ls i).annB ≤ (obs run ls j).procB) ∧
     (∀ k, k < (obs run ls i).next → ∃ j, i ≤ j ∧ k ∈ (obs run ls j).fin)) ∨
    ∃ j, i ≤ j ∧ Final (run j) ∧ (run j).dbOpen = false := by
  rcases quit_cases hr with hnq | ⟨T, hT⟩
  · have h := progress_run hc B hr hf hnq hbud
    exact Or.inl ⟨h.1 i, h.2.2.1 i⟩
  · obtain ⟨j, hj, h⟩ := stop_live hc hr hf.weak hapi (max i T) (hT _ (Nat.le_max_right i T))
    exact Or.inr ⟨j, Nat.le_trans (Nat.le_max_left i T) hj, h⟩

theorem obs_succ (run : Nat → St) (ls : Nat → Option Label) (i : Nat) :
    obs run ls (i + 1) = match ls i with
      | none => obs run ls i
      | some l => gstep l (run i) (obs run ls i) := rfl

/-- the four counters move by at most one per step, as the labels say -/
theorem counters_step (run : Nat → St) (ls : Nat → Option Label) (i : Nat) :
    (obs run ls (i + 1)).procB = (obs run ls i).procB + (if ls i = some .hDoneBlk then 1 else 0) ∧
    (obs run ls (i + 1)).procT = (obs run ls i).procT + (if ls i = some .hDoneTx then 1 else 0) ∧
    (obs run ls (i + 1)).annB = (obs run ls i).annB + (if ls i = some .eBlk then 1 else 0) ∧
    (obs run ls (i + 1)).annT = (obs run ls i).annT + (if ls i = some .eTx then 1 else 0) := by
  rw [obs_succ]
  cases hl : ls i with
  | none => simp
  | some l => simp [gstep_procB, gstep_procT, gstep_annB, gstep_annT]

/-- when the producers are quiet from `i0` on, the follower's queues drain and stay empty (the situation the
    round-3 formulation had in mind: `followerWork = 0`) -/
theorem follower_drains (hc : c.busy < c.cap) (hr : IsRun c run ls) (hf : FairRun c run ls)
    (hnq : ∀ i, (run i).quit = false) (i0 : Nat)
    (hquiet : ∀ j, i0 ≤ j → ls j ≠ some .eBlk ∧ ls j ≠ some .eTx) :
    ∃ j, i0 ≤ j ∧ ∀ j', j ≤ j' → followerWork (run j') = 0 := by
  have hp := follower_run hc hr hf hnq
  obtain ⟨j1, hj1, hb⟩ := hp.1 i0
  obtain ⟨j2, hj2, ht⟩ := hp.2 i0
  have hann : ∀ d, (obs run ls (i0 + d)).annB = (obs run ls i0).annB ∧ (obs run ls (i0 + d)).annT = (obs run ls i0).annT := by
    intro d
    induction d with
    | zero => exact ⟨rfl, rfl⟩
    | succ d ih =>
      have h := counters_step run ls (i0 + d)
      have hq := hquiet (i0 + d) (by omega)
      rw [show i0 + (d + 1) = i0 + d + 1 from rfl, h.2.2.1, h.2.2.2, if_neg hq.1, if_neg hq.2]
      exact ih
  have hmono : ∀ a d, (obs run ls a).procB ≤ (obs run ls (a + d)).procB ∧ (obs run ls a).procT ≤ (obs run ls (a + d)).procT := by
    intro a d
    induction d with
    | zero => exact ⟨Nat.le_refl _, Nat.le_refl _⟩
    | succ d ih =>
      have h := counters_step run ls (a + d)
      rw [show a + (d + 1) = a + d + 1 from rfl, h.1, h.2.1]
      omega
  refine ⟨max j1 j2, by omega, fun j' hj' => ?_⟩
  have hx := exec_xinv hc (exec_of_run hr) j'
  have hB := hx.blkC
  have hT := hx.txC
  obtain ⟨d, rfl⟩ := Nat.exists_eq_add_of_le (show i0 ≤ j' by omega)
  obtain ⟨d1, hd1⟩ := Nat.exists_eq_add_of_le (show j1 ≤ i0 + d by omega)
  obtain ⟨d2, hd2⟩ := Nat.exists_eq_add_of_le (show j2 ≤ i0 + d by omega)
  have m1 := (hmono j1 d1).1
  have m2 := (hmono j2 d2).2
  rw [← hd1] at m1
  rw [← hd2] at m2
  have ha := hann d
  dsimp only at hB hT
  unfold followerWork
  cases hhp : (run (i0 + d)).hp <;> simp [hhp] at hB hT ⊢ <;> omega

end run

end MW.Lemmas.ProtoLive2
