/-
  LedBytes, Round 7 — histories on the byte store with the CONCRETE handler and chain-level hypotheses only.
  `JP Bd`          C01's step invariant `J` with one more clause: the chain `S` whose books the wallet holds satisfies `Bd`
                   (a predicate on chains closed under `take (n+1)` and true of every chain the node has: the size bounds).
  `JP_step`        every event preserves it (the proof of `J_step` with the extra clause).
  `runWB_bounded`  the run of the concrete byte-level handler `pbBOf Hs` abstracts to the run of the ledger model, event by
                   event, for any history whose node chains are well formed and satisfy `Bd` — given (`hSim`) that the two
                   primitives simulate at `PdInv` / `PfInv` states and (`hOK`) that handler steps from `J` states only make
                   such calls.  No hypothesis "along the run" is left.
-/
import MW.Lemmas.LedBytesTrace
import MW.Lemmas.LedgerHistory2
namespace MW.LedBytes
open MW MW.Gen.Codec MW.Model.TxmgrCodec MW.TxmgrCodec MW.Model.Ledger MW.Spec.Chain MW.Spec.Books MW.Lemmas.Ledger
open MW.Lemmas.Ledger.Trace

-- ------------------------------------------------------------------ the step invariant with a chain predicate

/-- `J` (LedgerHistory) + `Bd S` -/
def JP (Bd : List Block → Prop) (e : Lemmas.Ledger.Env) (G : Block) (w : World) : Prop :=
  ∃ S, Inv (e.ctx w.chain) w.s S ∧ w.v.best = tipMeta S ∧ ChainOK e G S ∧
    AllReady e.own (readyWallets w.s e.wallets) ∧ (readyWallets w.s e.wallets).isEmpty = false ∧
    (∀ b ∈ w.queue, AMap.get e.known b.id = some b) ∧
    (w.queue = [] → S = w.chain) ∧ (w.queue ≠ [] → w.queue.getLast? = w.chain.getLast?) ∧ Bd S

theorem JP.toJ {Bd : List Block → Prop} {e : Lemmas.Ledger.Env} {G : Block} {w : World} (h : JP Bd e G w) : J e G w := by
  obtain ⟨S, h1, h2, h3, h4, h5, h6, h7, h8, _⟩ := h
  exact ⟨S, h1, h2, h3, h4, h5, h6, h7, h8⟩

theorem JP_node {Bd : List Block → Prop} {e : Lemmas.Ledger.Env} {G : Block} {w : World} {N' bs : List Block}
    (hJ : JP Bd e G w) (hN' : ChainOK e G N') (hbs : bs ≠ []) (hsub : ∀ x ∈ bs, x ∈ N')
    (hlast : N'.getLast? = bs.getLast?) : JP Bd e G { w with chain := N', queue := w.queue ++ bs } := by
  obtain ⟨S, hI, hv, hS, hAR, hne, hq, _, _, hB⟩ := hJ
  refine ⟨S, (inv_env_chain e _ _).1 hI, hv, hS, hAR, hne, ?_, ?_, ?_, hB⟩
  · intro b hb
    rcases List.mem_append.1 hb with h | h
    · exact hq b h
    · exact hN'.known b (hsub b h)
  · intro h
    exact absurd (List.append_eq_nil_iff.1 h).2 hbs
  · intro _
    show (w.queue ++ bs).getLast? = N'.getLast?
    rw [hlast, getLast?_append_ne hbs]

theorem JP_handle {Bd : List Block → Prop} (hBt : ∀ T n, Bd T → Bd (T.take (n + 1))) {e : Lemmas.Ledger.Env} {G : Block}
    (E : EnvHyp e G) {w : World} {b : Block} {q : List Block}
    (hJ : JP Bd e G w) (hN : ChainOK e G w.chain) (hBN : Bd w.chain) (hqueue : w.queue = b :: q) :
    JP Bd e G (stepW e w .handle) ∧ ∀ ws, readyWallets (stepW e w .handle).s ws = readyWallets w.s ws := by
  rw [stepW_handle_cons hqueue]
  obtain ⟨S, hI, hv, hS, hAR, hne, hq, hq0, hq1, hB⟩ := hJ
  have H := reorgHyp_of hN hS
  have hbk : AMap.get e.known b.id = some b := hq b (by rw [hqueue]; exact List.mem_cons_self)
  have hgen := hgen_of E hS hbk
  have hqk : ∀ x ∈ q, AMap.get e.known x.id = some x :=
    fun x hx => hq x (by rw [hqueue]; exact List.mem_cons_of_mem _ hx)
  have hlastN : (b :: q).getLast? = w.chain.getLast? := by
    rw [← hqueue]; exact hq1 (by rw [hqueue]; simp)
  by_cases hqe : q = []
  · subst hqe
    rw [List.getLast?_singleton] at hlastN
    obtain ⟨hb, hlen⟩ := hN.good.getLast_at hlastN.symm
    obtain ⟨s', v', h1, h2, _, h4, h5⟩ :=
      processBlock_reaches H (v := w.v) hI hb hv hgen hAR hne
    have htk : w.chain.take (b.height + 1) = w.chain := by rw [hlen, List.take_length]
    change (e.ctx w.chain).node.chain.take (b.height + 1) = _ at htk
    rw [htk] at h2 h4
    rw [h1]
    refine ⟨⟨w.chain, h2, h4, hN, ?_, ?_, fun (x : Block) (hx : x ∈ []) => (by cases hx), fun _ => rfl,
      fun h => absurd rfl h, hBN⟩, h5⟩
    · show AllReady e.own (readyWallets s' e.wallets)
      rw [h5]; exact hAR
    · show (readyWallets s' e.wallets).isEmpty = false
      rw [h5]; exact hne
  · have hinj : IdInj (b :: (S ++ (e.ctx w.chain).node.chain)) :=
      idInj_of_known (known := e.known) (fun x hx => by
        rcases List.mem_cons.1 hx with h | h
        · rw [h]; exact hbk
        · rcases List.mem_append.1 h with h | h
          · exact hS.known x h
          · exact hN.known x h)
    have hlastq : q.getLast? = w.chain.getLast? := by
      rw [← hlastN]
      cases q with
      | nil => exact absurd rfl hqe
      | cons a t => rw [List.getLast?_cons_cons]
    obtain ⟨s', v', ok, h1, hcase⟩ := processBlock_total H (v := w.v) hinj hI hv hgen hAR hne
    rw [h1]
    rcases hcase with ⟨_, rfl, rfl⟩ | ⟨_, hvb, hr, hcase⟩
    · exact ⟨⟨S, hI, hv, hS, hAR, hne, hqk, fun h => absurd h hqe, fun _ => hlastq, hB⟩, fun _ => rfl⟩
    · have hAR' : AllReady e.own (readyWallets s' e.wallets) := by rw [hr]; exact hAR
      have hne' : (readyWallets s' e.wallets).isEmpty = false := by rw [hr]; exact hne
      rcases hcase with ⟨hb, hI'⟩ | ⟨hb, hI'⟩
      · exact ⟨⟨_, hI', by rw [hvb]; exact (tipMeta_take hN.good hb).symm, hN.take _, hAR', hne', hqk,
          fun h => absurd h hqe, fun _ => hlastq, hBt _ _ hBN⟩, hr⟩
      · exact ⟨⟨_, hI', by rw [hvb]; exact (tipMeta_take hS.good hb).symm, hS.take _, hAR', hne', hqk,
          fun h => absurd h hqe, fun _ => hlastq, hBt _ _ hB⟩, hr⟩

theorem JP_step {Bd : List Block → Prop} (hBt : ∀ T n, Bd T → Bd (T.take (n + 1))) {e : Lemmas.Ledger.Env} {G : Block}
    (E : EnvHyp e G) {w : World} (ev : Ev) (hJ : JP Bd e G w)
    (hN : ChainOK e G w.chain) (hBN : Bd w.chain) (hN' : ChainOK e G (stepW e w ev).chain) (hev : EvOK ev) :
    JP Bd e G (stepW e w ev) := by
  cases ev with
  | extend b =>
    exact JP_node (bs := [b]) hJ hN' (by simp) (fun x hx => by
      rw [List.mem_singleton.1 hx]; exact List.mem_append_right _ List.mem_cons_self)
      (by show (w.chain ++ [b]).getLast? = _; simp)
  | reorgTo k bs =>
    have hbs : bs ≠ [] := hev
    exact JP_node (bs := bs) hJ hN' hbs (fun x hx => List.mem_append_right _ hx)
      (by show (w.chain.take (w.chain.length - k) ++ bs).getLast? = _
          rw [getLast?_append_ne hbs])
  | handle =>
    cases hq : w.queue with
    | nil =>
      have : stepW e w .handle = w := by simp only [stepW, hq]
      rw [this]; exact hJ
    | cons b q => exact (JP_handle hBt E hJ hN hBN hq).1

-- ------------------------------------------------------------------ the concrete handler along a history

/-- THE CONCRETE BYTE-LEVEL processConnectedBlock: `processBlockB` over `disconnectBlockB` / `filterBlockB` / the sync bucket
    / bucket `ws`, with the environment `Hs chain` of the node being at `chain` -/
def pbBOf {E : MW.LedBytes.Env} {e : Lemmas.Ledger.Env} (Hs : ∀ chain : List Block, HEnv E (e.ctx chain)) : PbB :=
  fun chain bs v b => processBlockB (rawPrims (Hs chain)) bs v b

/-- the height of the follower's tip under the invariant -/
theorem best_lt_of_bounds {p : Params} {own : Own} {S : List Block} (hg : GoodChain S) (hB : ChainBounds p own S) :
    (tipMeta S).height < collisionHeight := by
  obtain ⟨x, hx, ht⟩ := tipMeta_good hg
  have := hB.height
  have hc : (2 : Nat) ^ 62 < collisionHeight := by decide
  rw [ht]
  show S.length - 1 < collisionHeight
  omega

variable {E : MW.LedBytes.Env} {e : Lemmas.Ledger.Env} {G : Block}

/-- ONE EVENT on the byte store, from a world whose abstraction satisfies `JP ChainBounds` -/
theorem stepWB_bounded (Hs : ∀ chain : List Block, HEnv E (e.ctx chain))
    (hSim : ∀ chain, HeightsOK chain → SimAt (Hs chain) (PdInv (e.ctx chain)) (PfInv (e.ctx chain)))
    (hOK : ∀ (N S : List Block) (s : Store) (v : Vol) (b : Block), ChainOK e G N → ChainOK e G S → Inv (e.ctx N) s S →
      v.best = tipMeta S → AMap.get e.known b.id = some b → AllReady e.own (readyWallets s e.wallets) →
      (readyWallets s e.wallets).isEmpty = false → ChainBounds e.p e.own S → ChainBounds e.p e.own N →
      processOK (e.ctx N) (PdInv (e.ctx N)) (PfInv (e.ctx N)) s v b)
    (hFit : ∀ chain, (∀ x ∈ chain, AMap.get e.known x.id = some x) → ∀ id x, AMap.get e.known id = some x →
      BlkFit (Hs chain) x)
    (w : WorldB) (hC : CanonS E w.bs) (hJ : JP (ChainBounds e.p e.own) e G (absW E w))
    (hN : ChainOK e G w.chain) (hBN : ChainBounds e.p e.own w.chain) (ev : Ev) :
    absW E (stepWB (pbBOf Hs) w ev) = stepW e (absW E w) ev ∧ CanonS E (stepWB (pbBOf Hs) w ev).bs := by
  cases ev with
  | extend b => exact ⟨rfl, hC⟩
  | reorgTo k bs => exact ⟨rfl, hC⟩
  | handle =>
    cases hq : w.queue with
    | nil =>
      have e1 : stepWB (pbBOf Hs) w .handle = w := by simp only [stepWB, hq]
      have e2 : stepW e (absW E w) .handle = absW E w := by simp only [stepW, absW, hq]
      rw [e1, e2]; exact ⟨rfl, hC⟩
    | cons b q =>
      obtain ⟨S, hI, hv, hS, hAR, hne, hqk, _, _, hB⟩ := hJ
      have hbk : AMap.get e.known b.id = some b := hqk b (by show b ∈ w.queue; rw [hq]; exact List.mem_cons_self)
      have hok := hOK w.chain S (absStore E w.bs) w.v b hN hS hI hv hbk hAR hne hB hBN
      have hbest : w.v.best.height < collisionHeight := by
        have : w.v.best = tipMeta S := hv
        rw [this]; exact best_lt_of_bounds hS.good hB
      obtain ⟨h1, h2, h3⟩ := processBlock_on_bytes_tr (Hs w.chain) (hSim w.chain hN.good.heights)
        (fun x hx => hFit w.chain hN.known x.id x (hN.known x hx)) hC hbest (hFit w.chain hN.known b.id b hbk) hok
      have e1 : stepWB (pbBOf Hs) w .handle
          = { w with queue := q, bs := (pbBOf Hs w.chain w.bs w.v b).1, v := (pbBOf Hs w.chain w.bs w.v b).2.1 } := by
        simp only [stepWB, hq]
      have e2 : stepW e (absW E w) .handle
          = { absW E w with queue := q, s := (processBlock (e.ctx w.chain) (absStore E w.bs) w.v b).1,
                            v := (processBlock (e.ctx w.chain) (absStore E w.bs) w.v b).2.1 } := by
        simp only [stepW, absW, hq]
      rw [e1, e2]
      refine ⟨?_, h3⟩
      simp only [absW]
      show _ = ({ chain := w.chain, queue := q, s := _, v := _ } : World)
      unfold pbBOf
      rw [h1, h2]

/-- THE RUN of the concrete handler abstracts to the run of the ledger model -/
theorem runWB_bounded (EH : EnvHyp e G) (Hs : ∀ chain : List Block, HEnv E (e.ctx chain))
    (hSim : ∀ chain, HeightsOK chain → SimAt (Hs chain) (PdInv (e.ctx chain)) (PfInv (e.ctx chain)))
    (hOK : ∀ (N S : List Block) (s : Store) (v : Vol) (b : Block), ChainOK e G N → ChainOK e G S → Inv (e.ctx N) s S →
      v.best = tipMeta S → AMap.get e.known b.id = some b → AllReady e.own (readyWallets s e.wallets) →
      (readyWallets s e.wallets).isEmpty = false → ChainBounds e.p e.own S → ChainBounds e.p e.own N →
      processOK (e.ctx N) (PdInv (e.ctx N)) (PfInv (e.ctx N)) s v b)
    (hFit : ∀ chain, (∀ x ∈ chain, AMap.get e.known x.id = some x) → ∀ id x, AMap.get e.known id = some x →
      BlkFit (Hs chain) x) :
    ∀ (evs : List Ev) (w : WorldB), CanonS E w.bs → JP (ChainBounds e.p e.own) e G (absW E w) →
      (∀ ch ∈ chainsOf e (absW E w) evs, ChainOK e G ch ∧ ChainBounds e.p e.own ch) → (∀ ev ∈ evs, EvOK ev) →
      absW E (runWB (pbBOf Hs) w evs) = runW e (absW E w) evs ∧ CanonS E (runWB (pbBOf Hs) w evs).bs := by
  intro evs
  induction evs with
  | nil => intro w hC _ _ _; exact ⟨rfl, hC⟩
  | cons ev evs ih =>
    intro w hC hJ hch hev
    have hN := hch _ (chainsOf_head_mem e (absW E w) (ev :: evs))
    have hch' : ∀ ch ∈ chainsOf e (stepW e (absW E w) ev) evs, ChainOK e G ch ∧ ChainBounds e.p e.own ch :=
      fun ch h => hch ch (List.mem_cons_of_mem _ h)
    have hN' := hch' _ (chainsOf_head_mem e _ evs)
    obtain ⟨s1, s2⟩ := stepWB_bounded Hs hSim hOK hFit w hC hJ hN.1 hN.2 ev
    have hJ' := JP_step (Bd := ChainBounds e.p e.own) (fun T n h => ChainBounds.take h (n + 1)) EH ev hJ hN.1 hN.2 hN'.1 (hev ev List.mem_cons_self)
    rw [← s1] at hJ' hch'
    obtain ⟨i1, i2⟩ := ih (stepWB (pbBOf Hs) w ev) s2 hJ' hch' (fun x hx => hev x (List.mem_cons_of_mem _ hx))
    refine ⟨?_, i2⟩
    show absW E (runWB (pbBOf Hs) (stepWB (pbBOf Hs) w ev) evs) = runW e (stepW e (absW E w) ev) evs
    rw [i1, s1]

end MW.LedBytes
