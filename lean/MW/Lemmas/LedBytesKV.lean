/-
  LedBytes, part 0 — the link to L1 (C11): a bucket of the key/value SPECIFICATION `MW.Spec.KV.DB` (the database that
  `MW.Props.C11.kv_refines` proves masswallet/db/ldb/leveldb.go implements) read as a byte-keyed association list, and
  its Get / Put / Delete / GetByPrefix as `AMap.get / put / erase / scan` on that list — literally for the writes and
  the point read, up to the order of the result for the prefix read (the specification returns it sorted, the code in
  Go-map order inside a write transaction).  `MW.LedBytes.BStore` is fourteen such lists.
-/
import MW.Base.AMap
import MW.Spec.KV
import MW.Lemmas.KvSort
namespace MW.LedBytes
open MW MW.KV MW.Spec.KV

/-- the entries of bucket `p`, in the order of the specification's finite map -/
def bucketOf (d : DB) (p : Path) : AMap.T Bytes Bytes :=
  (d.data.filter (fun e => e.1.1 == p)).map (fun e => (e.1.2, e.2))

theorem bucketOf_data_cons (b : DB) (x : (Path × Bytes) × Bytes) (p : Path) :
    bucketOf { b with data := x :: b.data } p
      = if x.1.1 = p then (x.1.2, x.2) :: bucketOf b p else bucketOf b p := by
  unfold bucketOf
  by_cases h : x.1.1 = p <;> simp [h]

/-- **Get** -/
theorem get_bucketOf (d : DB) (p : Path) (k : Bytes) : d.get p k = AMap.get (bucketOf d p) k := by
  unfold DB.get bucketOf AMap.get
  induction d.data with
  | nil => rfl
  | cons x r ih =>
    obtain ⟨⟨q, k'⟩, v⟩ := x
    simp only [List.find?_cons, List.filter_cons]
    by_cases hq : q = p
    · subst hq
      by_cases hk : k' = k
      · subst hk; simp
      · have : ((q, k') == (q, k)) = false := by simp [hk]
        simp only [this, beq_self_eq_true, if_true, List.map_cons, List.find?_cons, hk, decide_false]
        exact ih
    · have : ((q, k') == (p, k)) = false := by simp [hq]
      have hq' : (q == p) = false := by simp [hq]
      simp only [this, hq', Bool.false_eq_true, if_false]
      exact ih

theorem filter_ne_bucketOf (data : List ((Path × Bytes) × Bytes)) (p : Path) (k : Bytes) :
    ((data.filter (fun e => e.1 != (p, k))).filter (fun e => e.1.1 == p)).map (fun e => (e.1.2, e.2))
      = AMap.erase ((data.filter (fun e => e.1.1 == p)).map (fun e => (e.1.2, e.2))) k := by
  unfold AMap.erase
  induction data with
  | nil => rfl
  | cons x r ih =>
    obtain ⟨⟨q, k'⟩, v⟩ := x
    by_cases hq : q = p
    · by_cases hk : k' = k
      · subst hq; subst hk; simpa [List.filter_cons] using ih
      · have h1 : ((q, k') != (p, k)) = true := by simp [hk]
        subst hq
        simp only [List.filter_cons, h1, if_true, beq_self_eq_true, List.map_cons, hk, decide_false, Bool.not_false]
        rw [ih]
    · have h1 : ((q, k') != (p, k)) = true := by simp [hq]
      have hq' : (q == p) = false := by simp [hq]
      simp only [List.filter_cons, h1, if_true, hq', Bool.false_eq_true, if_false]
      exact ih

theorem filter_ne_other (data : List ((Path × Bytes) × Bytes)) (p q : Path) (k : Bytes) (h : q ≠ p) :
    (data.filter (fun e => e.1 != (p, k))).filter (fun e => e.1.1 == q) = data.filter (fun e => e.1.1 == q) := by
  rw [List.filter_filter]
  apply List.filter_congr
  intro x _
  obtain ⟨⟨q', k'⟩, v⟩ := x
  by_cases hq : q' = q
  · subst hq; simp [h]
  · simp [hq]

/-- **Put**: on an existing bucket, with the non-empty key and value the driver insists on, the specification's Put is
    `AMap.put` on the bucket's list and leaves every other bucket and the bucket set alone -/
theorem put_bucketOf (d : DB) (p : Path) (k v : Bytes) (hb : d.has p = true) (hk : k ≠ []) (hv : v ≠ []) :
    (d.put false p k v).1 = Obs.ok ∧
    bucketOf (d.put false p k v).2 p = AMap.put (bucketOf d p) k v ∧
    (∀ q, q ≠ p → bucketOf (d.put false p k v).2 q = bucketOf d q) ∧
    (d.put false p k v).2.buckets = d.buckets := by
  have hk' : (k.length == 0) = false := by cases k <;> simp_all
  have hv' : (v.length == 0) = false := by cases v <;> simp_all
  simp only [DB.put, hb, Bool.not_true, Bool.false_eq_true, if_false, hk', hv']
  refine ⟨trivial, ?_, ?_, trivial⟩
  · simp only [bucketOf, List.filter_cons, beq_self_eq_true, if_true, List.map_cons, AMap.put]
    rw [filter_ne_bucketOf]
  · intro q hq
    have hq' : (p == q) = false := by simp [Ne.symm hq]
    simp only [bucketOf, List.filter_cons, hq', Bool.false_eq_true, if_false]
    rw [filter_ne_other _ _ _ _ hq]

/-- **Delete** -/
theorem del_bucketOf (d : DB) (p : Path) (k : Bytes) (hb : d.has p = true) :
    (d.del false p k).1 = Obs.ok ∧
    bucketOf (d.del false p k).2 p = AMap.erase (bucketOf d p) k ∧
    (∀ q, q ≠ p → bucketOf (d.del false p k).2 q = bucketOf d q) ∧
    (d.del false p k).2.buckets = d.buckets := by
  simp only [DB.del, hb, Bool.not_true, Bool.false_eq_true, if_false]
  refine ⟨trivial, ?_, ?_, trivial⟩
  · simp only [bucketOf]; rw [filter_ne_bucketOf]
  · intro q hq
    simp only [bucketOf]; rw [filter_ne_other _ _ _ _ hq]

/-- **GetByPrefix**: the specification's answer has exactly the members of `AMap.scan` on the bucket's list -/
theorem pfx_bucketOf (d : DB) (p : Path) (pfx : Bytes) (e : Bytes × Bytes) :
    e ∈ (d.bucketEntries p).filter (fun e => pfx.isPrefixOf e.1) ↔
    e ∈ AMap.scan (bucketOf d p) (fun b => pfx.isPrefixOf b) := by
  simp only [DB.bucketEntries, AMap.scan, List.mem_filter, mem_sortBy, bucketOf]

end MW.LedBytes
