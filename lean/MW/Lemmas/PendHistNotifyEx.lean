/-
  Non-vacuity of `notify_run` / `trace_run`: a REORGANISING notification.  After the history of PendHistCredEx up to the
  connect of B2 (wallet chain G-B1-B2, T1 confirmed in B2, T2 pending) the follower's best block is B2, the node
  reorganises to G-B1-B2x (B2x empty) and notifies B2x: `processBlock` disconnects B2 (height 2 = the tip) and connects
  B2x.  The trace is exhibited (n = 1, bs = [B2x]), both events are inside the domain `HOK`, and the run of `stepH`
  ends in the store the notification returns: T1 and T2 pending on both sides, T1's pending credit re-created.
-/
import MW.Lemmas.PendHistNotify
import MW.Lemmas.PendHistCredEx
namespace MW.Lemmas.PendHist.Notify
open MW MW.Model.Ledger MW.Spec.Pending MW.Lemmas.LedgerPending MW.Lemmas.Ledger MW.Lemmas.PendHist
open MW.Lemmas.PendHist.Cred MW.Lemmas.PendHist.CredRb

def exB2x : Block := ⟨"B2x", "B1", 2, []⟩
def exN3 : Node := { chain := [exG, exB1, exB2x], known := exKnown ++ [("B2x", exB2x)] }
/-- the world before the notification: wallet chain G-B1-B2, follower's best block B2, node already on G-B1-B2x -/
def exV : HW := stepH exE (stepH exE exW5 (.vol { best := ⟨2, "B2"⟩ })) (.node exN3)
def exEvsV : List HEv := exEvs ++ [.vol { best := ⟨2, "B2"⟩ }, .node exN3]

theorem exHInvC0L : HInvC exRankH exE exW0 :=
  ⟨exHInv0, ⟨fun _ _ _ h => (by cases h), fun _ h => (by cases h), fun _ _ _ _ h => (by cases h), fun _ h => (by cases h)⟩⟩

theorem exV_run : runH exE exW0 exEvsV = exV := rfl

theorem exHInvCV : HInvC exRankH exE exV := by
  rw [← exV_run]
  refine hinvc_run_full _ _ exHInvC0L ?_
  intro x hx
  unfold exEvsV at hx
  rw [worldsH_append] at hx
  rcases List.mem_append.1 hx with hx | hx
  · have h := exDomain x hx
    have hev := mem_worldsH_ev exE exEvs exW0 x hx
    obtain ⟨xw, xe⟩ := x
    cases xe with
    | node n => exact h
    | vol v => exact h
    | recv t =>
      have h' : RecvDom exRankH exE xw t := h
      exact ⟨h'.valid, h'.known, h'.srcN, h'.idx, h'.rank, h'.nobb, h'.seen, h'.fresh, h'.noconf⟩
    | connect b => exact h
    | disconnect => simp [exEvs] at hev
  · have hev := mem_worldsH_ev exE _ _ x hx
    obtain ⟨xw, xe⟩ := x
    cases xe with
    | node n => exact trivial
    | vol v => exact trivial
    | recv t => simp at hev
    | connect b => simp at hev
    | disconnect => simp at hev

theorem exBestV : exV.v.best.height + 1 = exV.sp.chain.length := by decide

/-- the notification succeeds -/
theorem exNotifyOk : (processBlock (exE.ctx exV.node) exV.s exV.v exB2x).2.2 = true := by decide

def exS6 : Store := match disconnectBlock (exE.ctx exV.node) exV.s 2 with | .ok s => s | .error _ => exV.s
def exS7 : Store :=
  match filterBlock (exE.ctx exV.node) exS6 (readyWallets exS6 exE.wallets) exB2x with | .ok r => r.1 | .error _ => exS6

theorem exDisc6 : disconnectBlock (exE.ctx exV.node) exV.s 2 = .ok exS6 := by
  unfold exS6
  cases h : disconnectBlock (exE.ctx exV.node) exV.s 2 with
  | ok s => rfl
  | error e =>
    have : (match disconnectBlock (exE.ctx exV.node) exV.s 2 with | .ok _ => true | .error _ => false) = true := by decide
    rw [h] at this; cases this

theorem exConn7 : ∃ conf, filterBlock (exE.ctx exV.node) exS6 (readyWallets exS6 exE.wallets) exB2x = .ok (exS7, conf) := by
  unfold exS7
  cases h : filterBlock (exE.ctx exV.node) exS6 (readyWallets exS6 exE.wallets) exB2x with
  | ok r => exact ⟨r.2, rfl⟩
  | error e =>
    have : (match filterBlock (exE.ctx exV.node) exS6 (readyWallets exS6 exE.wallets) exB2x with
      | .ok _ => true | .error _ => false) = true := by decide
    rw [h] at this; cases this

/-- THE TRACE of the notification: one disconnect at height 2 = `v.best.height`, then the connect of B2x -/
theorem exTraceD : DReachFrom (exE.ctx exV.node) exV.v.best.height exV.s exS6 1 :=
  DReachFrom.step exDisc6 DReachFrom.refl

theorem exTraceC : CReachL (exE.ctx exV.node) (readyWallets exS6 exE.wallets) exS6 exS7 [exB2x] := by
  obtain ⟨conf, h⟩ := exConn7
  exact CReachL.step exB2x conf h CReachL.refl

theorem exChainV : exV.sp.chain = [exG, exB1] ++ [exB2] := by rfl
theorem exPendV : exV.sp.pend = [exT2] := by decide

theorem exDV1 : HOK exRankH exE exV .disconnect := by
  intro c0 b hsplit
  rw [exChainV] at hsplit
  obtain ⟨h1, h2⟩ := List.append_inj' hsplit rfl
  have hb : b = exB2 := by simpa using h2.symm
  subst h1; subst hb
  rw [exPendV]
  refine ⟨by decide, by decide, ?_, by rfl, exDisc⟩
  intro i x hx
  match i, hx with
  | 0, hx => cases hx; rfl
  | 1, hx => cases hx; rfl
  | 2, hx => cases hx; rfl
  | _ + 3, hx => cases hx

def exV1 : HW := stepH exE exV .disconnect

theorem exDV2 : HOK exRankH exE exV1 (.connect exB2x) :=
  ⟨⟨[], rfl⟩, (by decide), rfl,
    ⟨(by decide), (by decide), (by decide), fun _ h => (by cases h), (by decide)⟩,
    (by unfold SrcChain; decide)⟩

theorem exDomainV : ∀ x ∈ worldsH exE exV (notifyEvs 1 [exB2x]), HOK exRankH exE x.1 x.2 := by
  intro x hx
  have : x = (exV, .disconnect) ∨ x = (exV1, .connect exB2x) := by
    simpa [worldsH, notifyEvs, exV1] using hx
  rcases this with rfl | rfl
  · exact exDV1
  · exact exDV2

/-- the run of `stepH` over the two events ends in the store of the trace, with `HInv` -/
theorem exRunV : (runH exE exV (notifyEvs 1 [exB2x])).s = exS7 ∧ HInv exRankH exE (runH exE exV (notifyEvs 1 [exB2x])) :=
  trace_run exV exHInvCV.inv exBestV exTraceD exTraceC exDomainV

/-- … which is the store `processBlock` returns; after it T1 (un-confirmed) and T2 are pending on both sides and the
    pending credit of T1's owned output is back -/
theorem exRunV_obs :
    ((processBlock (exE.ctx exV.node) exV.s exV.v exB2x).1.pending.map (·.1),
     (runH exE exV (notifyEvs 1 [exB2x])).s.pending.map (·.1),
     (runH exE exV (notifyEvs 1 [exB2x])).sp.pend.map (·.id),
     (runH exE exV (notifyEvs 1 [exB2x])).s.pendCred.map (fun e => (e.1, e.2.amt))) =
    (["T1", "T2"], ["T1", "T2"], ["T2", "T1"], [(("T1", 0), 10)]) := by decide

end MW.Lemmas.PendHist.Notify
