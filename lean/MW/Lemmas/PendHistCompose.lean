/-
  C09, specification side of a reorganising notification: ONE `onChainMoved old new` versus the block-by-block
  composition of single-block moves (what `pending_refines` / `notify_is_run` use).

    settle_extend      settle (c ++ n) [] (settle c d X)  has the members of  settle (c ++ n) d X
                       (first settle against a prefix of the chain, then against the whole chain = settle once)
    settle_shrink      settle c o (settle (c ++ o) [b] Y ++ Z)  has the members of  settle c (o ++ [b]) (Y ++ Z)
                       (disconnect the tip block first, then the blocks below = disconnect all at once)
  both through `Lost` (PendHistSpec.mem_settle).  The side conditions are facts a valid chain gives (`VOK`: a candidate
  that is on the longer chain is not conflicted by it, spends no coinbase of a disconnected block and has its parents
  on it; a transaction of a lower block does not spend the coinbase of a higher one and has its parents on the chain).
-/
import MW.Lemmas.PendHistSpec
namespace MW.Lemmas.PendHist.Compose
open MW MW.Model.Ledger MW.Spec.Pending MW.Lemmas.PendHist

theorem lost_mem {c d : List Block} {X : List Tx} {t : Tx} (h : Lost c d X t) : t ∈ X := by
  cases h <;> assumption

theorem alive0_false_iff (c d : List Block) (t : Tx) :
    alive0 c d t = false ↔ onChain c t.id = true ∨ conflictedBy c t = true ∨ orphanedBy d t = true := by
  unfold alive0
  cases onChain c t.id <;> cases conflictedBy c t <;> cases orphanedBy d t <;> simp

theorem orphanedBy_append (d d' : List Block) (t : Tx) :
    orphanedBy (d ++ d') t = (orphanedBy d t || orphanedBy d' t) := by
  unfold orphanedBy; rw [List.any_append]

/-- `Lost` is monotone in the candidates and in the disconnected blocks -/
theorem lost_mono {c d d' : List Block} {X Y : List Tx} (hX : ∀ x ∈ X, x ∈ Y)
    (hd : ∀ t, orphanedBy d t = true → orphanedBy d' t = true) {t : Tx} (h : Lost c d X t) : Lost c d' Y t := by
  induction h with
  | base hc ha =>
    refine Lost.base (hX _ hc) ?_
    rw [alive0_false_iff] at ha ⊢
    rcases ha with h | h | h
    · exact Or.inl h
    · exact Or.inr (Or.inl h)
    · exact Or.inr (Or.inr (hd _ h))
  | step i hc hi hp hid hoc _ ih => exact Lost.step i (hX _ hc) hi (hX _ hp) hid hoc ih

/-- `settle` only depends on the MEMBERS of the candidate list -/
theorem mem_settle_congr {c d : List Block} {X Y : List Tx} (hX : (X.map (·.id)).Nodup) (hY : (Y.map (·.id)).Nodup)
    (h : ∀ x, x ∈ X ↔ x ∈ Y) (t : Tx) : t ∈ settle c d X ↔ t ∈ settle c d Y := by
  rw [mem_settle c d X hX, mem_settle c d Y hY, h t]
  constructor
  · rintro ⟨h1, h2⟩; exact ⟨h1, fun hl => h2 (lost_mono (fun x hx => (h x).2 hx) (fun _ hh => hh) hl)⟩
  · rintro ⟨h1, h2⟩; exact ⟨h1, fun hl => h2 (lost_mono (fun x hx => (h x).1 hx) (fun _ hh => hh) hl)⟩

/-- nothing is lost when the candidates are consistent with the chain and no block left it -/
theorem not_lost_of_consistent {c : List Block} {X : List Tx} (hc : Consistent c X) (t : Tx) : ¬ Lost c [] X t := by
  intro h
  induction h with
  | base hm ha =>
    obtain ⟨h1, h2⟩ := hc _ hm
    rw [alive0_false_iff, h1, h2, orphanedBy_nil] at ha
    simp at ha
  | step _ _ _ _ _ _ _ ih => exact ih

theorem mem_settle_consistent {c : List Block} {X : List Tx} (hnd : (X.map (·.id)).Nodup) (hc : Consistent c X)
    (t : Tx) : t ∈ settle c [] X ↔ t ∈ X := by
  rw [mem_settle c [] X hnd]
  exact ⟨fun h => h.1, fun h => ⟨h, not_lost_of_consistent hc t⟩⟩

-- ------------------------------------------------------------------ extending the chain

/-- what a valid chain `c2` gives for the candidates `X` (and the disconnected blocks `d`) -/
def VOK (c2 d : List Block) (X : List Tx) : Prop :=
  ∀ p ∈ X, onChain c2 p.id = true →
    conflictedBy c2 p = false ∧ orphanedBy d p = false ∧ ∀ i ∈ p.ins, onChain c2 i.tx = true

/-- a candidate lost against the prefix `c1` for another reason than being on it is not on the longer chain -/
theorem lost_not_later {c1 n d : List Block} {X : List Tx} (hV : VOK (c1 ++ n) d X) {p : Tx}
    (h : Lost c1 d X p) (hn : onChain c1 p.id = false) : onChain (c1 ++ n) p.id = false := by
  induction h with
  | @base p hc ha =>
    cases hon : onChain (c1 ++ n) p.id with
    | false => rfl
    | true =>
      exfalso
      obtain ⟨v1, v2, _⟩ := hV p hc hon
      rw [alive0_false_iff] at ha
      rcases ha with h | h | h
      · rw [hn] at h; cases h
      · rw [conflictedBy_append, h] at v1; cases v1
      · rw [v2] at h; cases h
  | @step t p i hc hi hp hid hoc _ ih =>
    cases hon : onChain (c1 ++ n) t.id with
    | false => rfl
    | true =>
      exfalso
      obtain ⟨_, _, v3⟩ := hV t hc hon
      have := ih (by rw [hid]; exact hoc)
      rw [hid, v3 i hi] at this; cases this

theorem lost_extend {c1 n d : List Block} {X : List Tx} (hV : VOK (c1 ++ n) d X) {t : Tx}
    (h : Lost c1 d X t) : Lost (c1 ++ n) d X t := by
  induction h with
  | base hc ha =>
    refine Lost.base hc ?_
    rw [alive0_false_iff] at ha ⊢
    rcases ha with h | h | h
    · exact Or.inl (by rw [onChain_append, h]; rfl)
    · exact Or.inr (Or.inl (by rw [conflictedBy_append, h]; rfl))
    · exact Or.inr (Or.inr h)
  | @step t p i hc hi hp hid hoc hl ih =>
    refine Lost.step i hc hi hp hid ?_ ih
    have := lost_not_later hV hl (by rw [hid]; exact hoc)
    rw [← hid]; exact this

theorem lost_split {c1 n d : List Block} {X S : List Tx} (hS : ∀ x, x ∈ S ↔ x ∈ X ∧ ¬ Lost c1 d X x) {t : Tx}
    (h : Lost (c1 ++ n) d X t) : Lost c1 d X t ∨ Lost (c1 ++ n) [] S t := by
  induction h with
  | @base t hc ha =>
    by_cases hl : Lost c1 d X t
    · exact Or.inl hl
    · rw [alive0_false_iff] at ha
      rcases ha with h | h | h
      · exact Or.inr (Lost.base ((hS t).2 ⟨hc, hl⟩) ((alive0_false_iff _ _ _).2 (Or.inl h)))
      · exact Or.inr (Lost.base ((hS t).2 ⟨hc, hl⟩) ((alive0_false_iff _ _ _).2 (Or.inr (Or.inl h))))
      · exact absurd (Lost.base hc ((alive0_false_iff _ _ _).2 (Or.inr (Or.inr h)))) hl
  | @step t p i hc hi hp hid hoc _ ih =>
    have hoc1 : onChain c1 i.tx = false := by
      rw [onChain_append] at hoc
      cases h : onChain c1 i.tx with
      | false => rfl
      | true => rw [h] at hoc; cases hoc
    rcases ih with h | h
    · exact Or.inl (Lost.step i hc hi hp hid hoc1 h)
    · by_cases hl : Lost c1 d X t
      · exact Or.inl hl
      · exact Or.inr (Lost.step i ((hS t).2 ⟨hc, hl⟩) hi (lost_mem h) hid hoc h)

/-- SETTLE AGAINST A PREFIX FIRST, THEN AGAINST THE WHOLE CHAIN = SETTLE ONCE (members) -/
theorem settle_extend (c1 n d : List Block) (X : List Tx) (hnd : (X.map (·.id)).Nodup) (hV : VOK (c1 ++ n) d X)
    (t : Tx) : t ∈ settle (c1 ++ n) [] (settle c1 d X) ↔ t ∈ settle (c1 ++ n) d X := by
  have hS : ∀ x, x ∈ settle c1 d X ↔ x ∈ X ∧ ¬ Lost c1 d X x := mem_settle c1 d X hnd
  rw [mem_settle (c1 ++ n) [] _ (settle_nodup c1 d X hnd), mem_settle (c1 ++ n) d X hnd, hS]
  constructor
  · rintro ⟨⟨h1, h2⟩, h3⟩
    exact ⟨h1, fun hl => (lost_split hS hl).elim h2 h3⟩
  · rintro ⟨h1, h2⟩
    exact ⟨⟨h1, fun hl => h2 (lost_extend hV hl)⟩,
      fun hl => h2 (lost_mono (fun x hx => ((hS x).1 hx).1) (fun _ hh => by rw [orphanedBy_nil] at hh; cases hh) hl)⟩

-- ------------------------------------------------------------------ shrinking the chain

/-- DISCONNECT THE TIP BLOCK FIRST, THEN THE BLOCKS BELOW = DISCONNECT ALL AT ONCE (members).  `Y` = the candidates of
    the first step (pending ++ the un-confirmed transactions of `b`), `Z` = the transactions of the blocks `o` that come
    back in the second step -/
theorem settle_shrink (c o : List Block) (b : Block) (Y Z : List Tx) (hnd : ((Y ++ Z).map (·.id)).Nodup)
    (hY : ∀ y ∈ Y, onChain (c ++ o) y.id = false) (hYc : ∀ y ∈ Y, conflictedBy (c ++ o) y = false)
    (hZ1 : ∀ z ∈ Z, orphanedBy [b] z = false)
    (hZ2 : ∀ z ∈ Z, ∀ i ∈ z.ins, onChain (c ++ o) i.tx = true) (t : Tx) :
    t ∈ settle c o (settle (c ++ o) [b] Y ++ Z) ↔ t ∈ settle c (o ++ [b]) (Y ++ Z) := by
  have hndY : (Y.map (·.id)).Nodup := by
    rw [List.map_append] at hnd; exact (List.nodup_append.1 hnd).1
  have hdis : ∀ x, x ∈ Y → x ∈ Z → False := by
    intro x h1 h2
    rw [List.map_append] at hnd
    exact (List.nodup_append.1 hnd).2.2 _ (List.mem_map.2 ⟨x, h1, rfl⟩) _ (List.mem_map.2 ⟨x, h2, rfl⟩) rfl
  have hS : ∀ x, x ∈ settle (c ++ o) [b] Y ↔ x ∈ Y ∧ ¬ Lost (c ++ o) [b] Y x := mem_settle _ _ Y hndY
  have hsub : ∀ x ∈ settle (c ++ o) [b] Y ++ Z, x ∈ Y ++ Z := by
    intro x hx
    rcases List.mem_append.1 hx with hx | hx
    · exact List.mem_append_left _ ((hS x).1 hx).1
    · exact List.mem_append_right _ hx
  have hnd1 : ((settle (c ++ o) [b] Y ++ Z).map (·.id)).Nodup :=
    List.Nodup.sublist (((settle_sublist _ _ Y).append (List.Sublist.refl Z)).map _) hnd
  have hoc_c : ∀ id, onChain (c ++ o) id = false → onChain c id = false := by
    intro id h
    rw [onChain_append] at h
    cases h1 : onChain c id with
    | false => rfl
    | true => rw [h1] at h; cases h
  -- lost in the first step ⇒ lost at once
  have k1 : ∀ x, Lost (c ++ o) [b] Y x → Lost c (o ++ [b]) (Y ++ Z) x := by
    intro x hl
    induction hl with
    | base hc ha =>
      refine Lost.base (List.mem_append_left _ hc) ?_
      rw [alive0_false_iff] at ha ⊢
      rcases ha with h | h | h
      · rw [hY _ hc] at h; cases h
      · rw [hYc _ hc] at h; cases h
      · exact Or.inr (Or.inr (by rw [orphanedBy_append, h, Bool.or_true]))
    | step i hc hi hp hid hoc _ ih =>
      exact Lost.step i (List.mem_append_left _ hc) hi (List.mem_append_left _ hp) hid (hoc_c _ hoc) ih
  -- lost in the second step ⇒ lost at once
  have k2 : ∀ x, Lost c o (settle (c ++ o) [b] Y ++ Z) x → Lost c (o ++ [b]) (Y ++ Z) x :=
    fun x hl => lost_mono hsub (fun _ hh => by rw [orphanedBy_append, hh]; rfl) hl
  -- lost at once ⇒ lost in one of the two steps
  have k3 : ∀ x, Lost c (o ++ [b]) (Y ++ Z) x →
      (x ∈ Y ∧ Lost (c ++ o) [b] Y x) ∨ Lost c o (settle (c ++ o) [b] Y ++ Z) x := by
    intro x hl
    induction hl with
    | @base x hc ha =>
      rw [alive0_false_iff, orphanedBy_append, Bool.or_eq_true] at ha
      rcases List.mem_append.1 hc with hy | hz
      · by_cases hl1 : Lost (c ++ o) [b] Y x
        · exact Or.inl ⟨hy, hl1⟩
        · have xS : x ∈ settle (c ++ o) [b] Y ++ Z := List.mem_append_left _ ((hS x).2 ⟨hy, hl1⟩)
          rcases ha with h | h | h | h
          · exact Or.inr (Lost.base xS ((alive0_false_iff _ _ _).2 (Or.inl h)))
          · exact Or.inr (Lost.base xS ((alive0_false_iff _ _ _).2 (Or.inr (Or.inl h))))
          · exact Or.inr (Lost.base xS ((alive0_false_iff _ _ _).2 (Or.inr (Or.inr h))))
          · exact Or.inl ⟨hy, Lost.base hy ((alive0_false_iff _ _ _).2 (Or.inr (Or.inr h)))⟩
      · have xS : x ∈ settle (c ++ o) [b] Y ++ Z := List.mem_append_right _ hz
        rcases ha with h | h | h | h
        · exact Or.inr (Lost.base xS ((alive0_false_iff _ _ _).2 (Or.inl h)))
        · exact Or.inr (Lost.base xS ((alive0_false_iff _ _ _).2 (Or.inr (Or.inl h))))
        · exact Or.inr (Lost.base xS ((alive0_false_iff _ _ _).2 (Or.inr (Or.inr h))))
        · rw [hZ1 x hz] at h; cases h
    | @step x p i hc hi hp hid hoc _ ih =>
      rcases ih with ⟨hpY, hlp⟩ | hl2
      · rcases List.mem_append.1 hc with hy | hz
        · exact Or.inl ⟨hy, Lost.step i hy hi hpY hid (by rw [← hid]; exact hY p hpY) hlp⟩
        · exfalso
          have h1 := hZ2 x hz i hi
          rw [← hid, hY p hpY] at h1; cases h1
      · rcases List.mem_append.1 hc with hy | hz
        · by_cases hl1 : Lost (c ++ o) [b] Y x
          · exact Or.inl ⟨hy, hl1⟩
          · exact Or.inr (Lost.step i (List.mem_append_left _ ((hS x).2 ⟨hy, hl1⟩)) hi (lost_mem hl2) hid hoc hl2)
        · exact Or.inr (Lost.step i (List.mem_append_right _ hz) hi (lost_mem hl2) hid hoc hl2)
  rw [mem_settle c o _ hnd1, mem_settle c (o ++ [b]) (Y ++ Z) hnd]
  constructor
  · rintro ⟨hm, hnl⟩
    refine ⟨hsub t hm, fun hl => ?_⟩
    rcases k3 t hl with ⟨hy, hl1⟩ | hl2
    · rcases List.mem_append.1 hm with h | h
      · exact ((hS t).1 h).2 hl1
      · exact hdis t hy h
    · exact hnl hl2
  · rintro ⟨hm, hnl⟩
    refine ⟨?_, fun hl => hnl (k2 t hl)⟩
    rcases List.mem_append.1 hm with h | h
    · exact List.mem_append_left _ ((hS t).2 ⟨h, fun hl => hnl (k1 t hl)⟩)
    · exact List.mem_append_right _ h


-- ------------------------------------------------------------------ the two folds of the block-by-block composition

/-- the disconnect phase: the blocks of `old` leave the chain one by one, tip first -/
def discFold (e : Env) (c0 old : List Block) (init : List Block × List Tx) : List Block × List Tx :=
  (List.range old.length).foldl (fun (cp : List Block × List Tx) k =>
    (c0 ++ old.take (old.length - k - 1), onChainMoved e cp.1 (c0 ++ old.take (old.length - k - 1)) cp.2)) init

/-- the connect phase: the blocks of `new` join the chain one by one -/
def connFold (e : Env) (c0 new : List Block) (init : List Block × List Tx) : List Block × List Tx :=
  (List.range new.length).foldl (fun (cp : List Block × List Tx) k =>
    (c0 ++ new.take (k + 1), onChainMoved e cp.1 (c0 ++ new.take (k + 1)) cp.2)) init

/-- the un-confirmed transactions of the blocks `bs` -/
def backOf (e : Env) (bs : List Block) : List Tx := (bs.flatMap (·.txs)).filter (fun t => !t.cb && relevant e t)

theorem foldl_congr_mem {α β : Type} (f g : β → α → β) : ∀ (l : List α) (a : β), (∀ a, ∀ x ∈ l, f a x = g a x) →
    l.foldl f a = l.foldl g a := by
  intro l
  induction l with
  | nil => intro a _; rfl
  | cons x l ih =>
    intro a h
    simp only [List.foldl_cons]
    rw [h a x List.mem_cons_self]
    exact ih _ (fun a y hy => h a y (List.mem_cons_of_mem _ hy))

theorem connFold_snoc (e : Env) (c0 n : List Block) (b : Block) (init : List Block × List Tx) :
    connFold e c0 (n ++ [b]) init =
      (c0 ++ (n ++ [b]), onChainMoved e (connFold e c0 n init).1 (c0 ++ (n ++ [b])) (connFold e c0 n init).2) := by
  unfold connFold
  rw [List.length_append, List.length_singleton, List.range_succ, List.foldl_append]
  simp only [List.foldl_cons, List.foldl_nil]
  have hfold : (List.range n.length).foldl (fun (cp : List Block × List Tx) k =>
      (c0 ++ (n ++ [b]).take (k + 1), onChainMoved e cp.1 (c0 ++ (n ++ [b]).take (k + 1)) cp.2)) init =
      (List.range n.length).foldl (fun (cp : List Block × List Tx) k =>
      (c0 ++ n.take (k + 1), onChainMoved e cp.1 (c0 ++ n.take (k + 1)) cp.2)) init := by
    apply foldl_congr_mem
    intro a k hk
    have hk' : k + 1 ≤ n.length := by have := List.mem_range.1 hk; omega
    rw [List.take_append_of_le_length hk']
  rw [hfold]
  have : (n ++ [b]).take (n.length + 1) = n ++ [b] := by
    rw [List.take_of_length_le]; simp
  rw [this]

theorem discFold_snoc (e : Env) (c0 o : List Block) (b : Block) (init : List Block × List Tx) :
    discFold e c0 (o ++ [b]) init = discFold e c0 o (c0 ++ o, onChainMoved e init.1 (c0 ++ o) init.2) := by
  unfold discFold
  rw [List.length_append, List.length_singleton, List.range_succ_eq_map, List.foldl_cons, List.foldl_map]
  have h0 : (o ++ [b]).take (o.length + 1 - 0 - 1) = o := by
    rw [show o.length + 1 - 0 - 1 = o.length by omega, List.take_left']; rfl
  rw [h0]
  apply foldl_congr_mem
  intro a k _
  have : (o ++ [b]).take (o.length + 1 - (k + 1) - 1) = o.take (o.length - k - 1) := by
    rw [show o.length + 1 - (k + 1) - 1 = o.length - k - 1 by omega, List.take_append_of_le_length (by omega)]
  simp only [Nat.succ_eq_add_one, this]

/-- THE CONNECT PHASE = ONE SETTLE (members) -/
theorem connFold_settle (e : Env) (c0 : List Block) (X : List Tx) :
    ∀ (rn : List Block) (Q : List Tx) (init : List Block × List Tx), init.1 = c0 → init.2 = Q →
      (Q.map (·.id)).Nodup → (∀ q ∈ Q, q ∈ X) → Consistent c0 Q →
      (∀ k, k ≤ rn.length → VOK (c0 ++ rn.reverse.take k) [] X) →
      (connFold e c0 rn.reverse init).1 = c0 ++ rn.reverse ∧
      ((connFold e c0 rn.reverse init).2.map (·.id)).Nodup ∧
      ∀ t, t ∈ (connFold e c0 rn.reverse init).2 ↔ t ∈ settle (c0 ++ rn.reverse) [] Q := by
  intro rn
  induction rn with
  | nil =>
    intro Q init h1 h2 hnd _ hcons _
    simp only [List.reverse_nil, List.append_nil]
    refine ⟨h1, by show (init.2.map _).Nodup; rw [h2]; exact hnd, fun t => ?_⟩
    show t ∈ init.2 ↔ _
    rw [h2, mem_settle_consistent hnd hcons]
  | cons b rn ih =>
    intro Q init h1 h2 hnd hsub hcons hV
    obtain ⟨i1, i2, i3⟩ := ih Q init h1 h2 hnd hsub hcons (fun k hk => by
      have := hV k (by simp; omega)
      rw [List.reverse_cons, List.take_append_of_le_length (by simpa using hk)] at this
      exact this)
    rw [List.reverse_cons, connFold_snoc, i1]
    refine ⟨rfl, ?_, fun t => ?_⟩
    · show ((onChainMoved e _ _ _).map _).Nodup
      rw [← List.append_assoc, onChainMoved_connect]
      exact settle_nodup _ _ _ i2
    · show t ∈ onChainMoved e _ _ _ ↔ _
      rw [← List.append_assoc, onChainMoved_connect]
      have hVk := hV (rn.length + 1) (by simp)
      rw [List.reverse_cons, List.take_of_length_le (by simp), ← List.append_assoc] at hVk
      have hVQ : VOK (c0 ++ rn.reverse ++ [b]) [] Q := fun p hp => hVk p (hsub p hp)
      rw [mem_settle_congr (c := c0 ++ rn.reverse ++ [b]) (d := []) i2 (settle_nodup _ _ _ hnd) i3 t]
      exact settle_extend (c0 ++ rn.reverse) [b] [] Q hnd hVQ t


-- ------------------------------------------------------------------ the disconnect phase

theorem backOf_append (e : Env) (a b : List Block) : backOf e (a ++ b) = backOf e a ++ backOf e b := by
  unfold backOf; rw [List.flatMap_append, List.filter_append]

theorem backOf_single (e : Env) (b : Block) : backOf e [b] = b.txs.filter (fun t => !t.cb && relevant e t) := by
  unfold backOf; simp

theorem mem_backOf {e : Env} {bs : List Block} {t : Tx} (h : t ∈ backOf e bs) :
    t ∈ bs.flatMap (·.txs) ∧ t.cb = false := by
  unfold backOf at h
  obtain ⟨h1, h2⟩ := List.mem_filter.1 h
  simp only [Bool.and_eq_true, Bool.not_eq_true'] at h2
  exact ⟨h1, h2.1⟩

theorem backOf_sublist (e : Env) (bs : List Block) : (backOf e bs).Sublist (bs.flatMap (·.txs)) := List.filter_sublist

/-- what the disconnect phase needs of the old branch (facts of a valid chain + the pending list is consistent with it) -/
structure DiscAll (e : Env) (c0 old : List Block) (P : List Tx) : Prop where
  nd : ((P ++ old.flatMap (·.txs)).map (·.id)).Nodup
  cons : Consistent (c0 ++ old) P
  split : ∀ o b r, old = o ++ b :: r →
    (∀ x ∈ c0 ++ o, x.id ≠ b.id) ∧
    (∀ t ∈ b.txs, onChain (c0 ++ o) t.id = false ∧ conflictedBy (c0 ++ o) t = false) ∧
    (∀ z ∈ o.flatMap (·.txs), orphanedBy [b] z = false ∧
      (z.cb = false → ∀ i ∈ z.ins, onChain (c0 ++ o) i.tx = true))

theorem false_of_or_false {a b : Bool} (h : (a || b) = false) : a = false := by
  cases a <;> simp_all

/-- THE DISCONNECT PHASE = ONE SETTLE (members) -/
theorem discFold_settle (e : Env) (c0 : List Block) : ∀ (ro : List Block) (P : List Tx),
    DiscAll e c0 ro.reverse P →
    (discFold e c0 ro.reverse (c0 ++ ro.reverse, P)).1 = c0 ∧
    ((discFold e c0 ro.reverse (c0 ++ ro.reverse, P)).2.map (·.id)).Nodup ∧
    ∀ t, t ∈ (discFold e c0 ro.reverse (c0 ++ ro.reverse, P)).2 ↔
      t ∈ settle c0 ro.reverse (P ++ backOf e ro.reverse) := by
  intro ro
  induction ro with
  | nil =>
    intro P D
    have hnd : (P.map (·.id)).Nodup := by simpa using D.nd
    have hc : Consistent c0 P := by simpa using D.cons
    simp only [List.reverse_nil, List.append_nil]
    refine ⟨rfl, hnd, fun t => ?_⟩
    show t ∈ P ↔ t ∈ settle c0 [] (P ++ backOf e [])
    rw [show backOf e [] = [] from rfl, List.append_nil, mem_settle_consistent hnd hc]
  | cons b ro ih =>
    intro P D
    rw [List.reverse_cons] at D ⊢
    generalize ro.reverse = o at D ih ⊢
    obtain ⟨hb, hbt, hz⟩ := D.split o b [] rfl
    have hflat : (o ++ [b]).flatMap (·.txs) = o.flatMap (·.txs) ++ b.txs := by simp
    have hndAll : ((P ++ (o.flatMap (·.txs) ++ b.txs)).map (·.id)).Nodup := by rw [← hflat]; exact D.nd
    have hperm : ((P ++ b.txs) ++ o.flatMap (·.txs)).Perm (P ++ (o.flatMap (·.txs) ++ b.txs)) := by
      rw [List.append_assoc]
      exact List.Perm.append_left _ List.perm_append_comm
    have hndPBO : (((P ++ b.txs) ++ o.flatMap (·.txs)).map (·.id)).Nodup := (hperm.map _).nodup_iff.2 hndAll
    have hPb : ∀ t ∈ b.txs, hasId P t.id = false := by
      intro t ht
      rw [hasId_false_iff]
      intro x hx hid
      rw [List.map_append, List.map_append] at hndPBO
      exact (List.nodup_append.1 (List.nodup_append.1 hndPBO).1).2.2 _ (List.mem_map.2 ⟨x, hx, rfl⟩) _
        (List.mem_map.2 ⟨t, ht, rfl⟩) hid
    have hP1 : onChainMoved e (c0 ++ (o ++ [b])) (c0 ++ o) P = settle (c0 ++ o) [b] (P ++ backOf e [b]) := by
      rw [← List.append_assoc, onChainMoved_disconnect e (c0 ++ o) b P hb, backOf_single]
      congr 2
      apply List.filter_congr
      intro t ht
      rw [hPb t ht]; simp
    rw [discFold_snoc]
    simp only []
    rw [hP1]
    have hsubY : (P ++ backOf e [b]).Sublist (P ++ b.txs) := by
      rw [backOf_single]; exact (List.Sublist.refl P).append List.filter_sublist
    have hndY : ((P ++ backOf e [b]).map (·.id)).Nodup :=
      List.Nodup.sublist (hsubY.map _) (by
        rw [List.map_append] at hndPBO; exact (List.nodup_append.1 hndPBO).1)
    have hndYZ : (((P ++ backOf e [b]) ++ backOf e o).map (·.id)).Nodup :=
      List.Nodup.sublist ((hsubY.append (backOf_sublist e o)).map _) hndPBO
    have hcons1 : Consistent (c0 ++ o) (settle (c0 ++ o) [b] (P ++ backOf e [b])) := settle_consistent _ _ _ hndY
    have D1 : DiscAll e c0 o (settle (c0 ++ o) [b] (P ++ backOf e [b])) := by
      refine ⟨?_, hcons1, ?_⟩
      · exact List.Nodup.sublist ((((settle_sublist _ _ _).trans hsubY).append (List.Sublist.refl _)).map _) hndPBO
      · intro o1 b1 r1 h1
        exact D.split o1 b1 (r1 ++ [b]) (by rw [h1]; simp)
    obtain ⟨j1, j2, j3⟩ := ih _ D1
    refine ⟨j1, j2, fun t => ?_⟩
    rw [j3]
    have hY : ∀ y ∈ P ++ backOf e [b], onChain (c0 ++ o) y.id = false ∧ conflictedBy (c0 ++ o) y = false := by
      intro y hy
      rcases List.mem_append.1 hy with hy | hy
      · obtain ⟨g1, g2⟩ := D.cons y hy
        rw [← List.append_assoc, onChain_append] at g1
        rw [← List.append_assoc, conflictedBy_append] at g2
        exact ⟨false_of_or_false g1, false_of_or_false g2⟩
      · rw [backOf_single] at hy
        exact hbt y (List.mem_filter.1 hy).1
    rw [settle_shrink c0 o b (P ++ backOf e [b]) (backOf e o) hndYZ (fun y hy => (hY y hy).1) (fun y hy => (hY y hy).2)
      (fun z hzz => (hz z (mem_backOf hzz).1).1) (fun z hzz => (hz z (mem_backOf hzz).1).2 (mem_backOf hzz).2) t]
    refine mem_settle_congr hndYZ ?_ (fun x => ?_) t
    · exact List.Nodup.sublist (((List.Sublist.refl P).append (backOf_sublist e (o ++ [b]))).map _) D.nd
    · rw [backOf_append]
      simp only [List.mem_append]
      constructor
      · rintro ((h | h) | h)
        · exact Or.inl h
        · exact Or.inr (Or.inr h)
        · exact Or.inr (Or.inl h)
      · rintro (h | h | h)
        · exact Or.inl (Or.inl h)
        · exact Or.inr h
        · exact Or.inl (Or.inr h)


-- ------------------------------------------------------------------ ONE MOVE = THE COMPOSITION

theorem left_fork (c0 old new : List Block) (hf : ∀ x ∈ old, ∀ y ∈ c0 ++ new, y.id ≠ x.id) :
    left (c0 ++ old) (c0 ++ new) = old := by
  unfold left
  rw [List.filter_append]
  have h1 : c0.filter (fun b => !(c0 ++ new).any (fun b' => decide (b'.id = b.id))) = [] := by
    rw [List.filter_eq_nil_iff]
    intro x hx
    simp only [Bool.not_eq_true', Bool.not_eq_false]
    rw [List.any_eq_true]
    exact ⟨x, List.mem_append_left _ hx, by simp⟩
  have h2 : old.filter (fun b => !(c0 ++ new).any (fun b' => decide (b'.id = b.id))) = old := by
    rw [List.filter_eq_self]
    intro x hx
    simp only [Bool.not_eq_true']
    rw [List.any_eq_false]
    intro y hy
    simpa using hf x hx y hy
  rw [h1, h2]; rfl

/-- DOMAIN of a reorganising move from `c0 ++ old` to `c0 ++ new` (`c0` = the common part up to the FORK POINT), all
    clauses facts of two valid branches, a pending list consistent with the old one, and per-block coinbases -/
structure NotifyDom (e : Env) (c0 old new : List Block) (P : List Tx) : Prop where
  disc : DiscAll e c0 old P
  /-- `c0` is the fork point: no block of the old branch is on the new chain -/
  fork : ∀ x ∈ old, ∀ y ∈ c0 ++ new, y.id ≠ x.id
  /-- every prefix of the new chain is valid w.r.t. the candidates: a candidate that is on it is not conflicted by it,
      spends no coinbase of the old branch, and has its parents on it -/
  vok : ∀ k, k ≤ new.length → VOK (c0 ++ new.take k) old (P ++ backOf e old)

/-- **ONE `onChainMoved old new` HAS THE MEMBERS OF THE BLOCK-BY-BLOCK COMPOSITION** (disconnect the old branch tip first,
    then connect the new one) -/
theorem notify_compose (e : Env) (c0 old new : List Block) (P : List Tx) (D : NotifyDom e c0 old new P) (t : Tx) :
    t ∈ onChainMoved e (c0 ++ old) (c0 ++ new) P ↔
      t ∈ (connFold e c0 new (discFold e c0 old (c0 ++ old, P))).2 := by
  have hndU : ((P ++ backOf e old).map (·.id)).Nodup :=
    List.Nodup.sublist (((List.Sublist.refl P).append (backOf_sublist e old)).map _) D.disc.nd
  have hPo : ∀ x ∈ old.flatMap (·.txs), hasId P x.id = false := by
    intro x hx
    rw [hasId_false_iff]
    intro y hy hid
    have := D.disc.nd
    rw [List.map_append] at this
    exact (List.nodup_append.1 this).2.2 _ (List.mem_map.2 ⟨y, hy, rfl⟩) _ (List.mem_map.2 ⟨x, hx, rfl⟩) hid
  have hone : onChainMoved e (c0 ++ old) (c0 ++ new) P = settle (c0 ++ new) old (P ++ backOf e old) := by
    unfold onChainMoved
    simp only [left_fork c0 old new D.fork]
    congr 2
    unfold backOf
    apply List.filter_congr
    intro x hx
    rw [hPo x hx]; simp
  obtain ⟨d1, d2, d3⟩ := discFold_settle e c0 old.reverse P (by rw [List.reverse_reverse]; exact D.disc)
  rw [List.reverse_reverse] at d1 d2 d3
  have hsubQ : ∀ q ∈ (discFold e c0 old (c0 ++ old, P)).2, q ∈ P ++ backOf e old :=
    fun q hq => (settle_sublist _ _ _).subset ((d3 q).1 hq)
  have hconsQ : Consistent c0 (discFold e c0 old (c0 ++ old, P)).2 :=
    fun q hq => settle_consistent c0 old _ hndU q ((d3 q).1 hq)
  have hV0 : ∀ k, k ≤ new.reverse.length → VOK (c0 ++ new.reverse.reverse.take k) [] (P ++ backOf e old) := by
    intro k hk p hp hon
    rw [List.reverse_reverse] at hon ⊢
    obtain ⟨v1, _, v3⟩ := D.vok k (by simpa using hk) p hp hon
    exact ⟨v1, rfl, v3⟩
  obtain ⟨_, _, c3⟩ := connFold_settle e c0 (P ++ backOf e old) new.reverse _ _ d1 rfl d2 hsubQ hconsQ hV0
  rw [List.reverse_reverse] at c3
  rw [hone, c3, mem_settle_congr (c := c0 ++ new) (d := []) d2 (settle_nodup _ _ _ hndU) d3 t]
  have hVall := D.vok new.length (Nat.le_refl _)
  rw [List.take_length] at hVall
  exact (settle_extend c0 new old (P ++ backOf e old) hndU hVall t).symm


/-- inside `NotifyDom` the result of the one-shot move has distinct ids -/
theorem notify_one_shot_nodup (e : Env) (c0 old new : List Block) (P : List Tx) (D : NotifyDom e c0 old new P) :
    ((onChainMoved e (c0 ++ old) (c0 ++ new) P).map (·.id)).Nodup := by
  have hPo : ∀ x ∈ old.flatMap (·.txs), hasId P x.id = false := by
    intro x hx
    rw [hasId_false_iff]
    intro y hy hid
    have := D.disc.nd
    rw [List.map_append] at this
    exact (List.nodup_append.1 this).2.2 _ (List.mem_map.2 ⟨y, hy, rfl⟩) _ (List.mem_map.2 ⟨x, hx, rfl⟩) hid
  have hone : onChainMoved e (c0 ++ old) (c0 ++ new) P = settle (c0 ++ new) old (P ++ backOf e old) := by
    unfold onChainMoved
    simp only [left_fork c0 old new D.fork]
    congr 2
    unfold backOf
    apply List.filter_congr
    intro x hx
    rw [hPo x hx]; simp
  rw [hone]
  exact settle_nodup _ _ _ (List.Nodup.sublist (((List.Sublist.refl P).append (backOf_sublist e old)).map _) D.disc.nd)

/-- the chain component of the disconnect phase -/
theorem discFold_fst (e : Env) (c0 old : List Block) (P : List Tx) (D : DiscAll e c0 old P) :
    (discFold e c0 old (c0 ++ old, P)).1 = c0 := by
  have := (discFold_settle e c0 old.reverse P (by rw [List.reverse_reverse]; exact D)).1
  rw [List.reverse_reverse] at this
  exact this

end MW.Lemmas.PendHist.Compose
