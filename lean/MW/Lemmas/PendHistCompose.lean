/-
  C09, specification side of a reorganising notification: ONE `onChainMoved old new` versus the block-by-block
  composition of single-block moves (what `pending_refines` / `notify_is_run` use).

    settle_extend      settle (c ++ n) [] (settle c d X)  has the members of  settle (c ++ n) d X
                       (first settle against a prefix of the chain, then against the whole chain = settle once)
    settle_shrink      settle c o (settle (c ++ o) [b] Y ++ Z)  has the members of  settle c (o ++ [b]) (Y ++ Z)
                       (disconnect the tip block first, then the blocks below = disconnect all at once)
  both through `Lost` (PendHistSpec.mem_settle).  The side conditions are facts a valid chain gives (`VOK`: a candidate
  that is on the longer chain is not conflicted by it, spends no coinbase of a disconnected block and has its parents
  on it; a transaction of a lower block does not spend the coinbase of a higher one and has its parents on the chain).
-/
import MW.Lemmas.PendHistSpec
namespace MW.Lemmas.PendHist.Compose
open MW MW.Model.Ledger MW.Spec.Pending MW.Lemmas.PendHist

theorem lost_mem {c d : List Block} {X : List Tx} {t : Tx} (h : Lost c d X t) : t ∈ X := by
  cases h <;> assumption

theorem alive0_false_iff (c d : List Block) (t : Tx) :
    alive0 c d t = false ↔ onChain c t.id = true ∨ conflictedBy c t = true ∨ orphanedBy d t = true := by
  unfold alive0
  cases onChain c t.id <;> cases conflictedBy c t <;> cases orphanedBy d t <;> simp

theorem orphanedBy_append (d d' : List Block) (t : Tx) :
    orphanedBy (d ++ d') t = (orphanedBy d t || orphanedBy d' t) := by
  unfold orphanedBy; rw [List.any_append]

/-- `Lost` is monotone in the candidates and in the disconnected blocks -/
theorem lost_mono {c d d' : List Block} {X Y : List Tx} (hX : ∀ x ∈ X, x ∈ Y)
    (hd : ∀ t, orphanedBy d t = true → orphanedBy d' t = true) {t : Tx} (h : Lost c d X t) : Lost c d' Y t := by
  induction h with
  | base hc ha =>
    refine Lost.base (hX _ hc) ?_
    rw [alive0_false_iff] at ha ⊢
    rcases ha with h | h | h
    · exact Or.inl h
    · exact Or.inr (Or.inl h)
    · exact Or.inr (Or.inr (hd _ h))
  | step i hc hi hp hid hoc _ ih => exact Lost.step i (hX _ hc) hi (hX _ hp) hid hoc ih

/-- `settle` only depends on the MEMBERS of the candidate list -/
theorem mem_settle_congr {c d : List Block} {X Y : List Tx} (hX : (X.map (·.id)).Nodup) (hY : (Y.map (·.id)).Nodup)
    (h : ∀ x, x ∈ X ↔ x ∈ Y) (t : Tx) : t ∈ settle c d X ↔ t ∈ settle c d Y := by
  rw [mem_settle c d X hX, mem_settle c d Y hY, h t]
  constructor
  · rintro ⟨h1, h2⟩; exact ⟨h1, fun hl => h2 (lost_mono (fun x hx => (h x).2 hx) (fun _ hh => hh) hl)⟩
  · rintro ⟨h1, h2⟩; exact ⟨h1, fun hl => h2 (lost_mono (fun x hx => (h x).1 hx) (fun _ hh => hh) hl)⟩

/-- nothing is lost when the candidates are consistent with the chain and no block left it -/
theorem not_lost_of_consistent {c : List Block} {X : List Tx} (hc : Consistent c X) (t : Tx) : ¬ Lost c [] X t := by
  intro h
  induction h with
  | base hm ha =>
    obtain ⟨h1, h2⟩ := hc _ hm
    rw [alive0_false_iff, h1, h2, orphanedBy_nil] at ha
    simp at ha
  | step _ _ _ _ _ _ _ ih => exact ih

theorem mem_settle_consistent {c : List Block} {X : List Tx} (hnd : (X.map (·.id)).Nodup) (hc : Consistent c X)
    (t : Tx) : t ∈ settle c [] X ↔ t ∈ X := by
  rw [mem_settle c [] X hnd]
  exact ⟨fun h => h.1, fun h => ⟨h, not_lost_of_consistent hc t⟩⟩

-- ------------------------------------------------------------------ extending the chain

/-- what a valid chain `c2` gives for the candidates `X` (and the disconnected blocks `d`) -/
def VOK (c2 d : List Block) (X : List Tx) : Prop :=
  ∀ p ∈ X, onChain c2 p.id = true →
    conflictedBy c2 p = false ∧ orphanedBy d p = false ∧ ∀ i ∈ p.ins, onChain c2 i.tx = true

/-- a candidate lost against the prefix `c1` for another reason than being on it is not on the longer chain -/
theorem lost_not_later {c1 n d : List Block} {X : List Tx} (hV : VOK (c1 ++ n) d X) {p : Tx}
    (h : Lost c1 d X p) (hn : onChain c1 p.id = false) : onChain (c1 ++ n) p.id = false := by
  induction h with
  | @base p hc ha =>
    cases hon : onChain (c1 ++ n) p.id with
    | false => rfl
    | true =>
      exfalso
      obtain ⟨v1, v2, _⟩ := hV p hc hon
      rw [alive0_false_iff] at ha
      rcases ha with h | h | h
      · rw [hn] at h; cases h
      · rw [conflictedBy_append, h] at v1; cases v1
      · rw [v2] at h; cases h
  | @step t p i hc hi hp hid hoc _ ih =>
    cases hon : onChain (c1 ++ n) t.id with
    | false => rfl
    | true =>
      exfalso
      obtain ⟨_, _, v3⟩ := hV t hc hon
      have := ih (by rw [hid]; exact hoc)
      rw [hid, v3 i hi] at this; cases this

theorem lost_extend {c1 n d : List Block} {X : List Tx} (hV : VOK (c1 ++ n) d X) {t : Tx}
    (h : Lost c1 d X t) : Lost (c1 ++ n) d X t := by
  induction h with
  | base hc ha =>
    refine Lost.base hc ?_
    rw [alive0_false_iff] at ha ⊢
    rcases ha with h | h | h
    · exact Or.inl (by rw [onChain_append, h]; rfl)
    · exact Or.inr (Or.inl (by rw [conflictedBy_append, h]; rfl))
    · exact Or.inr (Or.inr h)
  | @step t p i hc hi hp hid hoc hl ih =>
    refine Lost.step i hc hi hp hid ?_ ih
    have := lost_not_later hV hl (by rw [hid]; exact hoc)
    rw [← hid]; exact this

theorem lost_split {c1 n d : List Block} {X S : List Tx} (hS : ∀ x, x ∈ S ↔ x ∈ X ∧ ¬ Lost c1 d X x) {t : Tx}
    (h : Lost (c1 ++ n) d X t) : Lost c1 d X t ∨ Lost (c1 ++ n) [] S t := by
  induction h with
  | @base t hc ha =>
    by_cases hl : Lost c1 d X t
    · exact Or.inl hl
    · rw [alive0_false_iff] at ha
      rcases ha with h | h | h
      · exact Or.inr (Lost.base ((hS t).2 ⟨hc, hl⟩) ((alive0_false_iff _ _ _).2 (Or.inl h)))
      · exact Or.inr (Lost.base ((hS t).2 ⟨hc, hl⟩) ((alive0_false_iff _ _ _).2 (Or.inr (Or.inl h))))
      · exact absurd (Lost.base hc ((alive0_false_iff _ _ _).2 (Or.inr (Or.inr h)))) hl
  | @step t p i hc hi hp hid hoc _ ih =>
    have hoc1 : onChain c1 i.tx = false := by
      rw [onChain_append] at hoc
      cases h : onChain c1 i.tx with
      | false => rfl
      | true => rw [h] at hoc; cases hoc
    rcases ih with h | h
    · exact Or.inl (Lost.step i hc hi hp hid hoc1 h)
    · by_cases hl : Lost c1 d X t
      · exact Or.inl hl
      · exact Or.inr (Lost.step i ((hS t).2 ⟨hc, hl⟩) hi (lost_mem h) hid hoc h)

/-- SETTLE AGAINST A PREFIX FIRST, THEN AGAINST THE WHOLE CHAIN = SETTLE ONCE (members) -/
theorem settle_extend (c1 n d : List Block) (X : List Tx) (hnd : (X.map (·.id)).Nodup) (hV : VOK (c1 ++ n) d X)
    (t : Tx) : t ∈ settle (c1 ++ n) [] (settle c1 d X) ↔ t ∈ settle (c1 ++ n) d X := by
  have hS : ∀ x, x ∈ settle c1 d X ↔ x ∈ X ∧ ¬ Lost c1 d X x := mem_settle c1 d X hnd
  rw [mem_settle (c1 ++ n) [] _ (settle_nodup c1 d X hnd), mem_settle (c1 ++ n) d X hnd, hS]
  constructor
  · rintro ⟨⟨h1, h2⟩, h3⟩
    exact ⟨h1, fun hl => (lost_split hS hl).elim h2 h3⟩
  · rintro ⟨h1, h2⟩
    exact ⟨⟨h1, fun hl => h2 (lost_extend hV hl)⟩,
      fun hl => h2 (lost_mono (fun x hx => ((hS x).1 hx).1) (fun _ hh => by rw [orphanedBy_nil] at hh; cases hh) hl)⟩

-- ------------------------------------------------------------------ shrinking the chain

/-- DISCONNECT THE TIP BLOCK FIRST, THEN THE BLOCKS BELOW = DISCONNECT ALL AT ONCE (members).  `Y` = the candidates of
    the first step (pending ++ the un-confirmed transactions of `b`), `Z` = the transactions of the blocks `o` that come
    back in the second step -/
theorem settle_shrink (c o : List Block) (b : Block) (Y Z : List Tx) (hnd : ((Y ++ Z).map (·.id)).Nodup)
    (hY : ∀ y ∈ Y, onChain (c ++ o) y.id = false) (hYc : ∀ y ∈ Y, conflictedBy (c ++ o) y = false)
    (hZ1 : ∀ z ∈ Z, orphanedBy [b] z = false)
    (hZ2 : ∀ z ∈ Z, ∀ i ∈ z.ins, onChain (c ++ o) i.tx = true) (t : Tx) :
    t ∈ settle c o (settle (c ++ o) [b] Y ++ Z) ↔ t ∈ settle c (o ++ [b]) (Y ++ Z) := by
  have hndY : (Y.map (·.id)).Nodup := by
    rw [List.map_append] at hnd; exact (List.nodup_append.1 hnd).1
  have hdis : ∀ x, x ∈ Y → x ∈ Z → False := by
    intro x h1 h2
    rw [List.map_append] at hnd
    exact (List.nodup_append.1 hnd).2.2 _ (List.mem_map.2 ⟨x, h1, rfl⟩) _ (List.mem_map.2 ⟨x, h2, rfl⟩) rfl
  have hS : ∀ x, x ∈ settle (c ++ o) [b] Y ↔ x ∈ Y ∧ ¬ Lost (c ++ o) [b] Y x := mem_settle _ _ Y hndY
  have hsub : ∀ x ∈ settle (c ++ o) [b] Y ++ Z, x ∈ Y ++ Z := by
    intro x hx
    rcases List.mem_append.1 hx with hx | hx
    · exact List.mem_append_left _ ((hS x).1 hx).1
    · exact List.mem_append_right _ hx
  have hnd1 : ((settle (c ++ o) [b] Y ++ Z).map (·.id)).Nodup :=
    List.Nodup.sublist (((settle_sublist _ _ Y).append (List.Sublist.refl Z)).map _) hnd
  have hoc_c : ∀ id, onChain (c ++ o) id = false → onChain c id = false := by
    intro id h
    rw [onChain_append] at h
    cases h1 : onChain c id with
    | false => rfl
    | true => rw [h1] at h; cases h
  -- lost in the first step ⇒ lost at once
  have k1 : ∀ x, Lost (c ++ o) [b] Y x → Lost c (o ++ [b]) (Y ++ Z) x := by
    intro x hl
    induction hl with
    | base hc ha =>
      refine Lost.base (List.mem_append_left _ hc) ?_
      rw [alive0_false_iff] at ha ⊢
      rcases ha with h | h | h
      · rw [hY _ hc] at h; cases h
      · rw [hYc _ hc] at h; cases h
      · exact Or.inr (Or.inr (by rw [orphanedBy_append, h, Bool.or_true]))
    | step i hc hi hp hid hoc _ ih =>
      exact Lost.step i (List.mem_append_left _ hc) hi (List.mem_append_left _ hp) hid (hoc_c _ hoc) ih
  -- lost in the second step ⇒ lost at once
  have k2 : ∀ x, Lost c o (settle (c ++ o) [b] Y ++ Z) x → Lost c (o ++ [b]) (Y ++ Z) x :=
    fun x hl => lost_mono hsub (fun _ hh => by rw [orphanedBy_append, hh]; rfl) hl
  -- lost at once ⇒ lost in one of the two steps
  have k3 : ∀ x, Lost c (o ++ [b]) (Y ++ Z) x →
      (x ∈ Y ∧ Lost (c ++ o) [b] Y x) ∨ Lost c o (settle (c ++ o) [b] Y ++ Z) x := by
    intro x hl
    induction hl with
    | @base x hc ha =>
      rw [alive0_false_iff, orphanedBy_append, Bool.or_eq_true] at ha
      rcases List.mem_append.1 hc with hy | hz
      · by_cases hl1 : Lost (c ++ o) [b] Y x
        · exact Or.inl ⟨hy, hl1⟩
        · have xS : x ∈ settle (c ++ o) [b] Y ++ Z := List.mem_append_left _ ((hS x).2 ⟨hy, hl1⟩)
          rcases ha with h | h | h | h
          · exact Or.inr (Lost.base xS ((alive0_false_iff _ _ _).2 (Or.inl h)))
          · exact Or.inr (Lost.base xS ((alive0_false_iff _ _ _).2 (Or.inr (Or.inl h))))
          · exact Or.inr (Lost.base xS ((alive0_false_iff _ _ _).2 (Or.inr (Or.inr h))))
          · exact Or.inl ⟨hy, Lost.base hy ((alive0_false_iff _ _ _).2 (Or.inr (Or.inr h)))⟩
      · have xS : x ∈ settle (c ++ o) [b] Y ++ Z := List.mem_append_right _ hz
        rcases ha with h | h | h | h
        · exact Or.inr (Lost.base xS ((alive0_false_iff _ _ _).2 (Or.inl h)))
        · exact Or.inr (Lost.base xS ((alive0_false_iff _ _ _).2 (Or.inr (Or.inl h))))
        · exact Or.inr (Lost.base xS ((alive0_false_iff _ _ _).2 (Or.inr (Or.inr h))))
        · rw [hZ1 x hz] at h; cases h
    | @step x p i hc hi hp hid hoc _ ih =>
      rcases ih with ⟨hpY, hlp⟩ | hl2
      · rcases List.mem_append.1 hc with hy | hz
        · exact Or.inl ⟨hy, Lost.step i hy hi hpY hid (by rw [← hid]; exact hY p hpY) hlp⟩
        · exfalso
          have h1 := hZ2 x hz i hi
          rw [← hid, hY p hpY] at h1; cases h1
      · rcases List.mem_append.1 hc with hy | hz
        · by_cases hl1 : Lost (c ++ o) [b] Y x
          · exact Or.inl ⟨hy, hl1⟩
          · exact Or.inr (Lost.step i (List.mem_append_left _ ((hS x).2 ⟨hy, hl1⟩)) hi (lost_mem hl2) hid hoc hl2)
        · exact Or.inr (Lost.step i (List.mem_append_right _ hz) hi (lost_mem hl2) hid hoc hl2)
  rw [mem_settle c o _ hnd1, mem_settle c (o ++ [b]) (Y ++ Z) hnd]
  constructor
  · rintro ⟨hm, hnl⟩
    refine ⟨hsub t hm, fun hl => ?_⟩
    rcases k3 t hl with ⟨hy, hl1⟩ | hl2
    · rcases List.mem_append.1 hm with h | h
      · exact ((hS t).1 h).2 hl1
      · exact hdis t hy h
    · exact hnl hl2
  · rintro ⟨hm, hnl⟩
    refine ⟨?_, fun hl => hnl (k2 t hl)⟩
    rcases List.mem_append.1 hm with h | h
    · exact List.mem_append_left _ ((hS t).2 ⟨h, fun hl => hnl (k1 t hl)⟩)
    · exact List.mem_append_right _ h

end MW.Lemmas.PendHist.Compose
