/-
  White space (C13): properties of the model of strings.Fields / strings.TrimSpace / strings.Join.

  * `fields_joinSpace`     fields (w₁ ␣ w₂ ␣ … ␣ wₙ) = [w₁,…,wₙ]  for words without white-space start bytes
  * `fields_respaced`      the same for ANY re-spacing (leading / trailing / repeated white-space runes of
                           any kind, ASCII or not)
  * `fields_trimSpace`     fields (trimSpace s) = fields s   for every byte string s
  Table facts are complete `decide` checks over the generated table of white-space rune encodings.
-/
import MW.Model.Bip39
import MW.Spec.Bip39
import Mathlib.Tactic.Ring
namespace MW.Lemmas.Bip39Fields
open MW MW.B39 MW.Model.Bip39

/-! ### facts about the table of white-space encodings -/

/-- no encoding is empty -/
theorem runes_nonempty : spaceRunes.all (fun r => !r.isEmpty) = true := by decide

/-- no encoding is a proper prefix of another -/
theorem runes_prefix_free :
    spaceRunes.all (fun r => spaceRunes.all (fun r' => !(r'.isPrefixOf r) || r' == r)) = true := by decide

/-- a byte that is not the first byte of an encoding never starts an encoding -/
theorem runes_tail_not_start :
    spaceRunes.all (fun p => (p.drop 1).all (fun c => spaceRunes.all (fun r => r.head? != some c))) = true := by
  decide

theorem space_mem : [32] ∈ spaceRunes := by decide

/-- `b` is not the first byte of any white-space encoding -/
def plainByte (b : UInt8) : Bool := spaceRunes.all (fun r => r.head? != some b)

/-- a non-empty word none of whose bytes starts a white-space encoding -/
def plainWord (w : Bytes) : Bool := !w.isEmpty && w.all plainByte

set_option maxRecDepth 100000 in
theorem lower_plain_nat : ∀ n, n < 256 → 97 ≤ n → n ≤ 122 → plainByte (UInt8.ofNat n) = true := by
  decide

theorem lower_plain (b : UInt8) (h1 : 97 ≤ b.toNat) (h2 : b.toNat ≤ 122) : plainByte b = true := by
  have := lower_plain_nat b.toNat b.toNat_lt h1 h2
  simpa using this

theorem rune_ne_nil {r : Bytes} (h : r ∈ spaceRunes) : r ≠ [] := by
  have := List.all_eq_true.mp runes_nonempty r h
  intro e; subst e; simp at this

theorem rune_prefix_eq {r r' : Bytes} (h : r ∈ spaceRunes) (h' : r' ∈ spaceRunes) (hp : r' <+: r) : r' = r := by
  have := List.all_eq_true.mp (List.all_eq_true.mp runes_prefix_free r h) r' h'
  simp only [Bool.or_eq_true, Bool.not_eq_true', beq_iff_eq] at this
  rcases this with h1 | h1
  · rw [← List.isPrefixOf_iff_prefix] at hp; rw [hp] at h1; cases h1
  · exact h1

/-! ### spaceWidth -/

theorem spaceWidth_plain (b : UInt8) (rest : Bytes) (h : plainByte b = true) : spaceWidth (b :: rest) = 0 := by
  unfold spaceWidth
  have : spaceRunes.find? (fun r => r.isPrefixOf (b :: rest)) = none := by
    rw [List.find?_eq_none]
    intro r hr hp
    have hne := rune_ne_nil hr
    cases r with
    | nil => exact hne rfl
    | cons c r' =>
      have := List.all_eq_true.mp h _ hr
      simp only [List.head?_cons, bne_iff_ne, ne_eq, Option.some.injEq] at this
      simp only [List.isPrefixOf, Bool.and_eq_true, beq_iff_eq] at hp
      exact this hp.1
  rw [this]

theorem spaceWidth_rune (r rest : Bytes) (h : r ∈ spaceRunes) : spaceWidth (r ++ rest) = r.length := by
  unfold spaceWidth
  cases hf : spaceRunes.find? (fun r' => r'.isPrefixOf (r ++ rest)) with
  | none =>
    rw [List.find?_eq_none] at hf
    exact absurd (List.isPrefixOf_iff_prefix.mpr (List.prefix_append r rest)) (hf r h)
  | some r' =>
    have hm := List.mem_of_find?_eq_some hf
    have hp0 : r'.isPrefixOf (r ++ rest) = true := List.find?_some (p := fun x : Bytes => x.isPrefixOf (r ++ rest)) hf
    have hp := List.isPrefixOf_iff_prefix.mp hp0
    rcases List.prefix_or_prefix_of_prefix hp (List.prefix_append r rest) with h1 | h1
    · rw [rune_prefix_eq h hm h1]
    · rw [← rune_prefix_eq hm h h1]

theorem spaceWidth_le (s : Bytes) : spaceWidth s ≤ s.length := by
  unfold spaceWidth
  cases hf : spaceRunes.find? (fun r' => r'.isPrefixOf s) with
  | none => simp
  | some r' =>
    have hp0 : r'.isPrefixOf s = true := List.find?_some (p := fun x : Bytes => x.isPrefixOf s) hf
    exact (List.isPrefixOf_iff_prefix.mp hp0).length_le

/-- a white-space rune at the head: the string is that rune followed by the rest -/
theorem spaceWidth_pos (s : Bytes) (w : Nat) (h : spaceWidth s = w + 1) :
    ∃ r, r ∈ spaceRunes ∧ r.length = w + 1 ∧ s = r ++ s.drop (w + 1) := by
  unfold spaceWidth at h
  cases hf : spaceRunes.find? (fun r' => r'.isPrefixOf s) with
  | none => rw [hf] at h; cases h
  | some r' =>
    rw [hf] at h
    simp only at h
    refine ⟨r', List.mem_of_find?_eq_some hf, h, ?_⟩
    have hp0 : r'.isPrefixOf s = true := List.find?_some (p := fun x : Bytes => x.isPrefixOf s) hf
    have hp := List.isPrefixOf_iff_prefix.mp hp0
    rw [← h]; exact (List.prefix_iff_eq_append.mp hp).symm

/-! ### fieldsAux -/

theorem fieldsAux_cons_zero (b : UInt8) (rest cur : Bytes) :
    fieldsAux (b :: rest) 0 cur =
      if spaceWidth (b :: rest) = 0 then fieldsAux rest 0 (cur ++ [b])
      else flush cur ++ fieldsAux rest (spaceWidth (b :: rest) - 1) [] := by
  rw [fieldsAux]
  split
  · rename_i h; simp [h]
  · rename_i w h; simp [h]

theorem fieldsAux_skip : ∀ (x rest cur : Bytes), fieldsAux (x ++ rest) x.length cur = fieldsAux rest 0 cur := by
  intro x
  induction x with
  | nil => intro rest cur; rfl
  | cons c x ih => intro rest cur; simp only [List.cons_append, List.length_cons, fieldsAux]; exact ih rest cur

theorem fieldsAux_rune (r rest cur : Bytes) (h : r ∈ spaceRunes) :
    fieldsAux (r ++ rest) 0 cur = flush cur ++ fieldsAux rest 0 [] := by
  have hw := spaceWidth_rune r rest h
  cases r with
  | nil => exact absurd rfl (rune_ne_nil h)
  | cons c r' =>
    simp only [List.cons_append] at hw ⊢
    rw [fieldsAux_cons_zero, hw]
    simp only [List.length_cons, Nat.add_one_ne_zero, ↓reduceIte, Nat.add_sub_cancel]
    rw [fieldsAux_skip]

theorem fieldsAux_plain : ∀ (w rest cur : Bytes), w.all plainByte = true →
    fieldsAux (w ++ rest) 0 cur = fieldsAux rest 0 (cur ++ w) := by
  intro w
  induction w with
  | nil => intro rest cur _; simp
  | cons b w ih =>
    intro rest cur h
    simp only [List.all_cons, Bool.and_eq_true] at h
    simp only [List.cons_append]
    rw [fieldsAux_cons_zero, spaceWidth_plain b _ h.1]
    simp only [↓reduceIte]
    rw [ih rest (cur ++ [b]) h.2]; simp

/-- a concatenation of white-space runes -/
inductive SpaceRun : Bytes → Prop where
  | nil : SpaceRun []
  | cons (r s : Bytes) : r ∈ spaceRunes → SpaceRun s → SpaceRun (r ++ s)

theorem fieldsAux_run (s : Bytes) (hs : SpaceRun s) (rest : Bytes) :
    fieldsAux (s ++ rest) 0 [] = fieldsAux rest 0 [] := by
  induction hs with
  | nil => rfl
  | cons r s hr _ ih => rw [List.append_assoc, fieldsAux_rune _ _ _ hr, ih]; rfl

theorem fieldsAux_run_flush (s : Bytes) (hs : SpaceRun s) (hne : s ≠ []) (rest cur : Bytes) (hc : cur ≠ []) :
    fieldsAux (s ++ rest) 0 cur = cur :: fieldsAux rest 0 [] := by
  cases hs with
  | nil => exact absurd rfl hne
  | cons r s' hr hs' =>
    rw [List.append_assoc, fieldsAux_rune _ _ _ hr, fieldsAux_run s' hs']
    cases cur with
    | nil => exact absurd rfl hc
    | cons c cs => rfl

theorem plainWord_ne_nil {w : Bytes} (h : plainWord w = true) : w ≠ [] := by
  intro e; subst e; simp [plainWord] at h

theorem plainWord_all {w : Bytes} (h : plainWord w = true) : w.all plainByte = true := by
  simp only [plainWord, Bool.and_eq_true] at h; exact h.2

/-! ### strings.Join then strings.Fields -/

theorem fields_joinSpace_aux : ∀ (ws : List Bytes), (∀ w ∈ ws, plainWord w = true) →
    fieldsAux (joinSpace ws) 0 [] = ws := by
  intro ws
  induction ws with
  | nil => intro _; rfl
  | cons w ws ih =>
    intro h
    have hw := h w (List.mem_cons_self)
    cases ws with
    | nil =>
      simp only [joinSpace]
      have := fieldsAux_plain w [] [] (plainWord_all hw)
      simp only [List.append_nil, List.nil_append] at this
      rw [this]
      simp only [fieldsAux, flush]
      have := plainWord_ne_nil hw
      cases w with
      | nil => exact absurd rfl this
      | cons _ _ => rfl
    | cons w' ws' =>
      simp only [joinSpace, List.append_assoc]
      rw [fieldsAux_plain w _ [] (plainWord_all hw), List.nil_append]
      have h32 : fieldsAux ([32] ++ joinSpace (w' :: ws')) 0 w = flush w ++ fieldsAux (joinSpace (w' :: ws')) 0 [] :=
        fieldsAux_rune [32] _ w space_mem
      rw [h32, ih (fun x hx => h x (List.mem_cons_of_mem _ hx))]
      have := plainWord_ne_nil hw
      cases w with
      | nil => exact absurd rfl this
      | cons _ _ => rfl

/-- `strings.Fields(strings.Join(words, " ")) = words` -/
theorem fields_joinSpace (ws : List Bytes) (h : ∀ w ∈ ws, plainWord w = true) : fields (joinSpace ws) = ws :=
  fields_joinSpace_aux ws h

theorem joinSpace_eq_spec : ∀ ws : List Bytes, joinSpace ws = Spec.Bip39.joinSpaces ws := by
  intro ws
  induction ws with
  | nil => rfl
  | cons w ws ih =>
    cases ws with
    | nil => rfl
    | cons w' ws' => simp only [joinSpace, Spec.Bip39.joinSpaces, ih]

/-! ### arbitrary re-spacing -/

/-- words each followed by its separator -/
def body (ps : List (Bytes × Bytes)) : Bytes := ps.flatMap (fun p => p.1 ++ p.2)

/-- every word is plain, every separator is a run of white-space runes, non-empty between two words -/
def WellSpaced : List (Bytes × Bytes) → Prop
  | [] => True
  | [(w, sep)] => plainWord w = true ∧ SpaceRun sep
  | (w, sep) :: p :: rest => plainWord w = true ∧ SpaceRun sep ∧ sep ≠ [] ∧ WellSpaced (p :: rest)

theorem fieldsAux_body : ∀ (ps : List (Bytes × Bytes)), WellSpaced ps → fieldsAux (body ps) 0 [] = ps.map (·.1) := by
  intro ps
  induction ps with
  | nil => intro _; rfl
  | cons p ps ih =>
    intro h
    obtain ⟨w, sep⟩ := p
    cases ps with
    | nil =>
      obtain ⟨hw, hs⟩ := h
      simp only [body, List.flatMap_cons, List.flatMap_nil, List.append_nil, List.map_cons, List.map_nil]
      rw [fieldsAux_plain w sep [] (plainWord_all hw), List.nil_append]
      have hne := plainWord_ne_nil hw
      by_cases he : sep = []
      · subst he
        cases w with
        | nil => exact absurd rfl hne
        | cons _ _ => rfl
      · have := fieldsAux_run_flush sep hs he [] w hne
        simp only [List.append_nil] at this
        rw [this]; rfl
    | cons p' ps' =>
      obtain ⟨hw, hs, hne, hrest⟩ := h
      have e : body ((w, sep) :: p' :: ps') = w ++ (sep ++ body (p' :: ps')) := by
        simp [body, List.flatMap_cons]
      rw [e, fieldsAux_plain w _ [] (plainWord_all hw), List.nil_append,
        fieldsAux_run_flush sep hs hne _ w (plainWord_ne_nil hw), ih hrest]
      rfl

/-- RE-SPACING IS IRRELEVANT: any leading white space, then the words each followed by white space
    (at least one rune between two words, possibly nothing after the last) splits into the words. -/
theorem fields_respaced (lead : Bytes) (ps : List (Bytes × Bytes)) (hl : SpaceRun lead) (h : WellSpaced ps) :
    fields (lead ++ body ps) = ps.map (·.1) := by
  unfold fields
  rw [fieldsAux_run lead hl, fieldsAux_body ps h]

/-! ### strings.TrimSpace is invisible to strings.Fields -/

theorem fields_rune_append (r rest : Bytes) (h : r ∈ spaceRunes) : fields (r ++ rest) = fields rest := by
  unfold fields; rw [fieldsAux_rune _ _ _ h]; rfl

theorem fields_trimLeftAux : ∀ (f : Nat) (s : Bytes), fields (trimLeftAux f s) = fields s := by
  intro f
  induction f with
  | zero => intro s; rfl
  | succ f ih =>
    intro s
    rw [trimLeftAux]
    split
    · rfl
    · rename_i w hw
      obtain ⟨r, hr, hl, hs⟩ := spaceWidth_pos s w hw
      rw [ih]
      conv_rhs => rw [hs]
      rw [fields_rune_append _ _ hr]

/-- appending a white-space rune does not change what a white-space rune inside `x` looks like:
    no encoding can straddle the boundary (its later bytes are never first bytes of an encoding) -/
theorem isPrefixOf_append_rune (p x r : Bytes) (hp : p ∈ spaceRunes) (hr : r ∈ spaceRunes) (hx : x ≠ []) :
    p.isPrefixOf (x ++ r) = p.isPrefixOf x := by
  apply Bool.eq_iff_iff.mpr
  rw [List.isPrefixOf_iff_prefix, List.isPrefixOf_iff_prefix]
  constructor
  · intro h
    by_cases hle : p.length ≤ x.length
    · exact List.prefix_of_prefix_length_le h (List.prefix_append x r) hle
    · exfalso
      have hxp : x <+: p := List.prefix_of_prefix_length_le (List.prefix_append x r) h (by omega)
      obtain ⟨q, hq⟩ := hxp
      subst hq
      have hqr : q <+: r := (List.prefix_append_right_inj x).mp h
      have hqne : q ≠ [] := by intro e; subst e; simp at hle
      cases q with
      | nil => exact hqne rfl
      | cons c q' =>
        cases x with
        | nil => exact hx rfl
        | cons x0 x' =>
          have hc : c ∈ ((x0 :: x') ++ c :: q').drop 1 := by simp
          have h3 := List.all_eq_true.mp (List.all_eq_true.mp
            (List.all_eq_true.mp runes_tail_not_start _ hp) c hc) r hr
          obtain ⟨t, ht⟩ := hqr
          subst ht
          simp at h3
  · intro h
    exact h.trans (List.prefix_append x r)

theorem find?_congr' {α : Type} (p q : α → Bool) : ∀ (l : List α), (∀ x ∈ l, p x = q x) →
    l.find? p = l.find? q := by
  intro l
  induction l with
  | nil => intro _; rfl
  | cons a l ih =>
    intro h
    simp only [List.find?_cons, h a List.mem_cons_self]
    rw [ih (fun x hx => h x (List.mem_cons_of_mem _ hx))]

theorem spaceWidth_append_rune (x r : Bytes) (hr : r ∈ spaceRunes) (hx : x ≠ []) :
    spaceWidth (x ++ r) = spaceWidth x := by
  unfold spaceWidth
  have : spaceRunes.find? (fun p => p.isPrefixOf (x ++ r)) = spaceRunes.find? (fun p => p.isPrefixOf x) := by
    apply find?_congr'
    intro p hp
    exact isPrefixOf_append_rune p x r hp hr hx
  rw [this]

theorem fieldsAux_append_rune (r : Bytes) (hr : r ∈ spaceRunes) : ∀ (a : Bytes) (skip : Nat) (cur : Bytes),
    skip ≤ a.length → fieldsAux (a ++ r) skip cur = fieldsAux a skip cur := by
  intro a
  induction a with
  | nil =>
    intro skip cur h
    have : skip = 0 := by simpa using h
    subst this
    have := fieldsAux_rune r [] cur hr
    simp only [List.append_nil] at this
    simp only [List.nil_append]
    rw [this]; simp [fieldsAux, flush]
  | cons b a ih =>
    intro skip cur h
    cases skip with
    | succ k =>
      simp only [List.cons_append, fieldsAux]
      exact ih k cur (by simpa using h)
    | zero =>
      simp only [List.cons_append]
      rw [fieldsAux_cons_zero, fieldsAux_cons_zero]
      have hw : spaceWidth (b :: (a ++ r)) = spaceWidth (b :: a) := by
        have := spaceWidth_append_rune (b :: a) r hr (by simp)
        simpa using this
      rw [hw]
      split
      · exact ih 0 _ (by simp)
      · have hle := spaceWidth_le (b :: a)
        simp only [List.length_cons] at hle
        rw [ih _ _ (by omega)]

theorem fields_append_rune (a r : Bytes) (hr : r ∈ spaceRunes) : fields (a ++ r) = fields a :=
  fieldsAux_append_rune r hr a 0 [] (by simp)

theorem spaceWidthEnd_pos (s : Bytes) (w : Nat) (h : spaceWidthEnd s = w + 1) :
    ∃ r, r ∈ spaceRunes ∧ s = s.take (s.length - (w + 1)) ++ r := by
  unfold spaceWidthEnd at h
  cases hf : spaceRunes.find? (fun r' => r'.isSuffixOf s) with
  | none => rw [hf] at h; cases h
  | some r' =>
    rw [hf] at h
    simp only at h
    refine ⟨r', List.mem_of_find?_eq_some hf, ?_⟩
    have hp0 : r'.isSuffixOf s = true := List.find?_some (p := fun x : Bytes => x.isSuffixOf s) hf
    have hp := List.isSuffixOf_iff_suffix.mp hp0
    rw [← h]; exact (List.suffix_iff_eq_append.mp hp).symm

theorem fields_trimRightAux : ∀ (f : Nat) (s : Bytes), fields (trimRightAux f s) = fields s := by
  intro f
  induction f with
  | zero => intro s; rfl
  | succ f ih =>
    intro s
    rw [trimRightAux]
    split
    · rfl
    · rename_i w hw
      obtain ⟨r, hr, hs⟩ := spaceWidthEnd_pos s w hw
      rw [ih]
      conv_rhs => rw [hs]
      rw [fields_append_rune _ _ hr]

/-- `strings.Fields(strings.TrimSpace(s)) = strings.Fields(s)` -/
theorem fields_trimSpace (s : Bytes) : fields (trimSpace s) = fields s := by
  unfold trimSpace
  simp only
  rw [fields_trimRightAux, fields_trimLeftAux]

end MW.Lemmas.Bip39Fields
