/-
  C06 deepening (round 4), part 4: THE REMOVAL WINDOW.  `JR`: between RemoveWallet (`removeMark`) and the end of the
  worker's removal the store is in C08's in-progress invariant `Mid` for the chain it follows (every mined bucket
  between the books for the full keystore table and the books for the table without `w`), the wallet is flagged,
  the removal is QUEUED — or the finishing iteration has run and round 3's invariant `JQ` holds for the table without
  `w`.  Events covered inside the window: node events, iterations of the removal, process crashes while no notification
  is pending (Start is then a no-op on the store and `initTaskChan` queues the removal again), the drain (which
  terminates: `removeLoop_total`).
  Not covered (C08 has no theorem for them): follower steps on a partly deleted wallet — hence no `handle`, and no
  crash with a non-empty catch-up, inside a removal window.
-/
import MW.Lemmas.Deepen4Remove
import MW.Lemmas.Deepen4RemTotal
import MW.Lemmas.Deepen4Import
namespace MW.Lemmas.Deepen4
open MW MW.Model.Ledger MW.Model.Persist MW.Spec.Persist MW.Spec.Chain MW.Spec.Books MW.Lemmas.Ledger
  MW.Lemmas.PersistOp MW.Lemmas.PersistFault MW.Lemmas.PersistCrash MW.Lemmas.Deepen3 MW.Lemmas.ImportJoin

/-- the removal of `w` is in progress -/
structure JRmid (cfg : Cfg) (G : Block) (x : SysQ) (k : Skel) (w : Wid) : Prop where
  chain : x.chain = k.chain
  ks : x.P.ks = k.ks
  keys : x.V.keys = k.ks
  nodupW : (walletsOf k.ks).Nodup
  nodupA : KeysNodup (ownOf k.ks)
  stored : ∃ r, AMap.get k.ks w = some r ∧ r.addrs ≠ []
  flagged : ∃ stt, AMap.get x.P.led.status w = some stt ∧ stt.removed = true
  task : x.V.tasks.contains (.rem w) = true
  fol : ∃ X, ChainOK (lenv cfg.st k.ks) G X ∧
    MW.Lemmas.RemoveInv.Mid ((lenv cfg.st k.ks).ctx k.chain) w (addrsOf k.ks w) (ownOf (AMap.erase k.ks w)) x.P.led X ∧
    x.V.led.best = tipMeta X ∧ (∃ c ∈ k.hist, X <+: c) ∧ (x.queue = [] → X = k.chain)
  qknown : ∀ b ∈ x.queue, AMap.get cfg.st.known b.id = some b
  qlast : x.queue ≠ [] → x.queue.getLast? = k.chain.getLast?
  chainOK : ChainOK (lenv cfg.st k.ks) G k.chain
  cur : k.chain ∈ k.hist
  others : ∀ w' ∈ walletsOf k.ks, w' ≠ w → readyB x.P.led w' = true
  other : ∃ w', w' ≠ w ∧ w' ∈ walletsOf k.ks

/-- the finishing iteration has run (the window is not closed yet) -/
structure JRdone (cfg : Cfg) (G : Block) (x : SysQ) (k : Skel) (w : Wid) : Prop where
  jq : JQ cfg.st G x { k with ks := AMap.erase k.ks w }
  gone : AMap.get x.P.led.status w = none
  nodupA : KeysNodup (ownOf k.ks)

def JR (cfg : Cfg) (G : Block) (x : SysQ) (k : Skel) (w : Wid) : Prop := JRmid cfg G x k w ∨ JRdone cfg G x k w

theorem mid_node {c : Ctx} (n' : Node) {w : Wid} {addrs : List Addr} {own' : Own} {s : Store} {X : List Block}
    (h : MW.Lemmas.RemoveInv.Mid c w addrs own' s X) : MW.Lemmas.RemoveInv.Mid { c with node := n' } w addrs own' s X :=
  ⟨h.nodup, h.credits, h.debits, h.debitsW, h.unspent, h.game, h.txrecs, h.txrecsW, h.blocks, h.bal, h.sync, h.syncedTo,
    h.pendOff⟩

-- ------------------------------------------------------------------ a crash while nothing is pending

/-- what boot reconstructs from a store whose height table is that of `S` -/
theorem boot_best_sync {P : PStore} {S : List Block} (hsync : ∀ h, AMap.get P.led.sync h = syncOf S h)
    (hlen : P.led.syncedTo + 1 = S.length) (hG : GoodChain S) : (bootVol P).led.best = tipMeta S := by
  obtain ⟨x, hx, ht⟩ := tipMeta_good hG
  have hpos := hG.length_pos
  have he : P.led.syncedTo = S.length - 1 := by omega
  have hs : AMap.get P.led.sync P.led.syncedTo = some x.id := by
    rw [hsync, syncOf, he, hx]; rfl
  have hb : (bootVol P).led.best = ⟨P.led.syncedTo, x.id⟩ := by
    simp [bootVol, hs]
  rw [hb, ht, he]

/-- a crash of a wallet that follows the node's whole chain: Start changes nothing in the store, the volatile state
    is what boot reconstructs, and `initTaskChan` has queued the unfinished tasks -/
theorem crash_quiet_store (st : Static) {chain : List Block} {P : PStore} (hG : GoodChain chain)
    (hsync : ∀ h, AMap.get P.led.sync h = syncOf chain h) (hlen : P.led.syncedTo + 1 = chain.length) (n : Nat) :
    Model.Persist.crash (envAt st chain) n P = ⟨true, P, { bootVol P with tasks := requeue P }, 0 + 1⟩ := by
  have hpos := hG.length_pos
  have hq : (envAt st chain).node.tipHeight = P.led.syncedTo := by
    show chain.length - 1 = P.led.syncedTo
    omega
  have hlt : P.led.syncedTo < chain.length := by omega
  have ht : tipOnB (envAt st chain) P = true := by
    unfold tipOnB
    have hb : (envAt st chain).node.blockAt P.led.syncedTo = some (chain[P.led.syncedTo]'hlt) :=
      List.getElem?_eq_getElem hlt
    rw [hb, hsync, syncOf, List.getElem?_eq_getElem hlt]
    simp
  unfold Model.Persist.crash
  rw [start_quiet _ n P hq ht]

-- ------------------------------------------------------------------ RemoveWallet opens the window

/-- what is asked of the store at the moment RemoveWallet is called (C08's open follower invariant `pendOff`): no
    unmined credit belongs to a transaction of the chain the store follows — stated for every chain the height table
    describes.  (C08's other hypothesis, one credit entry per key, is an invariant of the histories:
    `MW.Lemmas.Deepen4CredNodup`.) -/
def RemGuard (P : PStore) : Prop :=
  ∀ X, (∀ h, AMap.get P.led.sync h = syncOf X h) → ∀ e ∈ P.led.pendCred, e.1.1 ∉ idsOf (occs X)

theorem JQ_removeMark {cfg : Cfg} {G : Block} (cr : Bool) {x : SysQ} {k : Skel} (w : Wid) (hJ : JQ cfg.st G x k)
    (hw : (AMap.get k.ks w).isSome = true) (hne : ∀ r, AMap.get k.ks w = some r → r.addrs ≠ [])
    (hoth : ∃ w', w' ≠ w ∧ w' ∈ walletsOf k.ks) (hn : KeysNodup x.P.led.credits) (hg : RemGuard x.P) :
    JRmid cfg G (stepT cfg cr x (.removeMark w)) k w := by
  obtain ⟨hc, hks, hkeys, ⟨S, hJS, c, hcm, hSc⟩, hN, hcur, hK⟩ := hJ
  obtain ⟨hI, hv, hS, hAR, hnr, hq, hq0, hq1⟩ := hJS
  obtain ⟨r, hr⟩ := Option.isSome_iff_exists.1 hw
  have hwm : w ∈ walletsOf k.ks := by
    have := amap_mem_of_get hr
    exact List.mem_map.2 ⟨(w, r), this, rfl⟩
  have hrdy := hK.ready w hwm
  -- the flag is accepted: the wallet is ready
  have hok : ((opRemoveMark cfg.n w).run none x.P x.V).ok = true := by
    rw [removeMark_closed]
    unfold readyB at hrdy
    cases hst : AMap.get x.P.led.status w with
    | none => rw [hst] at hrdy; cases hrdy
    | some stt =>
      rw [hst] at hrdy
      simp only [Bool.and_eq_true, Option.isNone_iff_eq_none] at hrdy
      simp [hrdy.1]
  have H := remHyp_of (chain := k.chain) hS hK.nodupA hK.nodupW hr (hne r hr)
  have hI' : Ledger.Inv ((lenv cfg.st k.ks).ctx k.chain) x.P.led S := by
    have : Ledger.Inv ((lenv cfg.st k.ks).ctx x.chain) x.P.led S := hI
    rw [hc] at this; exact this
  obtain ⟨stt, hst, _, e1, e2, hM, hO, _⟩ := removeMark_run_mid H cfg.n x.V hI' hn (hg S hI.sync) hok
  have h1 : stepT cfg cr x (.removeMark w) =
      { x with P := ((opRemoveMark cfg.n w).run none x.P x.V).P, V := ((opRemoveMark cfg.n w).run none x.P x.V).V } := rfl
  rw [h1]
  refine ⟨hc, by rw [e1]; exact hks, by rw [e2]; exact hkeys, hK.nodupW, hK.nodupA, ⟨r, hr, hne r hr⟩, ?_, ?_,
    ⟨S, hS, hM, by rw [e2]; exact hv, ⟨c, hcm, hSc⟩, fun h => (hq0 h).trans hc⟩, hq, (fun h => by rw [← hc]; exact hq1 h), hN,
    hcur, ?_, hoth⟩
  · refine ⟨{ stt with removed := true }, ?_, rfl⟩
    rw [e1]
    show AMap.get (AMap.put x.P.led.status w { stt with removed := true }) w = _
    rw [AMap.get_put, if_pos rfl]
  · rw [e2]
    show (x.V.tasks ++ [Task.rem w]).contains (.rem w) = true
    simp
  · intro w' hw' hne'
    rw [hO w' hne']; exact hK.ready w' hw'

-- ------------------------------------------------------------------ node events

theorem JRmid_nodeMove {cfg : Cfg} {G : Block} {x : SysQ} {k : Skel} {w : Wid} (hJ : JRmid cfg G x k w)
    (N' bs : List Block) (hbs : bs ≠ []) (hN' : ChainOK (lenv cfg.st k.ks) G N') (hsub : ∀ b ∈ bs, b ∈ N')
    (hlast : N'.getLast? = bs.getLast?) :
    JRmid cfg G { x with chain := N', queue := x.queue ++ bs } { k with chain := N', hist := k.hist ++ [N'] } w := by
  obtain ⟨hc, hks, hkeys, hnW, hnA, hrec, hfl, htask, ⟨X, hX, hM, hv, ⟨c, hcm, hXc⟩, _⟩, hqk, _, hN, hcur, hoth, hother⟩ := hJ
  refine ⟨rfl, hks, hkeys, hnW, hnA, hrec, hfl, htask, ⟨X, hX, ?_, hv, ⟨c, List.mem_append_left _ hcm, hXc⟩, ?_⟩, ?_, ?_, hN',
    List.mem_append_right _ (List.mem_singleton.2 rfl), hoth, hother⟩
  · show MW.Lemmas.RemoveInv.Mid ((lenv cfg.st k.ks).ctx N') w _ _ x.P.led X
    rw [ctx_node cfg.st k.ks k.chain N']
    exact mid_node _ hM
  · intro h
    exact absurd (List.append_eq_nil_iff.1 h).2 hbs
  · intro b hb
    rcases List.mem_append.1 hb with h | h
    · exact hqk b h
    · exact hN'.known b (hsub b h)
  · intro _
    show (x.queue ++ bs).getLast? = N'.getLast?
    rw [hlast, getLast?_append_ne hbs]

/-- a node event (extension / reorganisation to any branch) inside a removal window -/
theorem JR_node {cfg : Cfg} {G : Block} (E : StaticOK cfg.st G) (cr : Bool) {x : SysQ} {k : Skel} {w : Wid} (ev : EvQ)
    (hev : (∃ b, ev = .extend b) ∨ (∃ m bs, ev = .reorgTo m bs)) (hJ : JR cfg G x k w)
    (hok : StepOK cfg.st G k ev) :
    JR cfg G (stepQ cfg.st cfg.n cr x ev) (skStep cfg.st k ev) w := by
  rcases hJ with hM | ⟨hQ, hgone, hnA⟩
  · left
    rcases hev with ⟨b, rfl⟩ | ⟨m, bs, rfl⟩
    · have h1 : stepQ cfg.st cfg.n cr x (.extend b) = { x with chain := k.chain ++ [b], queue := x.queue ++ [b] } := by
        simp only [stepQ, hM.chain]
      rw [h1]
      exact JRmid_nodeMove hM (k.chain ++ [b]) [b] (by simp) hok
        (fun y hy => by rw [List.mem_singleton.1 hy]; exact List.mem_append_right _ List.mem_cons_self) (by simp)
    · have h1 : stepQ cfg.st cfg.n cr x (.reorgTo m bs) =
          { x with chain := k.chain.take (k.chain.length - m) ++ bs, queue := x.queue ++ bs } := by
        simp only [stepQ, hM.chain]
      rw [h1]
      exact JRmid_nodeMove hM _ bs hok.1 hok.2 (fun y hy => List.mem_append_right _ hy) (getLast?_append_ne hok.1)
  · right
    rcases hev with ⟨b, rfl⟩ | ⟨m, bs, rfl⟩
    · have hok' : StepOK cfg.st G { k with ks := AMap.erase k.ks w } (.extend b) := chainOK_erase hnA w hok
      have := JQ_nodeOrHandle E cfg.n cr (.extend b) (.extend b) (Or.inr (Or.inl ⟨b, rfl, rfl⟩)) hQ hok'
      exact ⟨this, hgone, hnA⟩
    · have hok' : StepOK cfg.st G { k with ks := AMap.erase k.ks w } (.reorgTo m bs) := ⟨hok.1, chainOK_erase hnA w hok.2⟩
      have := JQ_nodeOrHandle E cfg.n cr (.reorgTo m bs) (.reorgTo m bs) (Or.inr (Or.inr ⟨m, bs, rfl, rfl⟩)) hQ hok'
      exact ⟨this, hgone, hnA⟩

-- ------------------------------------------------------------------ a crash inside the window (nothing pending)

theorem JR_crash {cfg : Cfg} {G : Block} (E : StaticOK cfg.st G) {x : SysQ} {k : Skel} {w : Wid} (hJ : JR cfg G x k w)
    (hq : x.queue = []) :
    JR cfg G (stepQ cfg.st cfg.n true x .crash) k w ∧ (stepQ cfg.st cfg.n true x .crash).queue = [] := by
  rcases hJ with hM | ⟨hQ, hgone, hnA⟩
  · obtain ⟨hc, hks, hkeys, hnW, hnA, hrec, ⟨stt, hst, hrm⟩, htask, ⟨X, hX, hM, hv, hpre, hq0⟩, hqk, hql, hN, hcur, hoth, hother⟩ := hM
    have hXe : X = k.chain := hq0 hq
    subst hXe
    have hcr := crash_quiet_store cfg.st hN.good hM.sync hM.syncedTo cfg.n (P := x.P)
    have h1 : stepQ cfg.st cfg.n true x .crash = { x with queue := [], V := { bootVol x.P with tasks := requeue x.P } } := by
      simp only [stepQ, if_true, hc, hcr]
    rw [h1]
    refine ⟨Or.inl ⟨hc, hks, hks, hnW, hnA, hrec, ⟨stt, hst, hrm⟩, ?_, ⟨k.chain, hN, hM, boot_best_sync hM.sync hM.syncedTo hN.good,
      hpre, fun _ => rfl⟩, (fun y hy => by cases hy), (fun h => absurd rfl h), hN, hcur, hoth, hother⟩, rfl⟩
    exact List.contains_iff_mem.2 (requeue_removed x.P w stt (amap_mem_of_get hst) hrm)
  · obtain ⟨S, hJS, _⟩ := hQ.js
    have hSe : S = x.chain := hJS.2.2.2.2.2.2.1 hq
    have hI := hJS.1
    have hgood : GoodChain x.chain := by rw [hQ.chain]; exact hQ.chainOK.good
    rw [hSe] at hI
    have hcr := crash_quiet_store cfg.st hgood hI.sync hI.syncedTo cfg.n (P := x.P)
    obtain ⟨hJ', hq', _⟩ := JQ_crash E cfg.n hQ
    refine ⟨Or.inr ⟨hJ', ?_, hnA⟩, hq'⟩
    have h1 : (stepQ cfg.st cfg.n true x .crash).P = x.P := by
      simp only [stepQ, if_true, hcr]
    rw [h1]; exact hgone

-- ------------------------------------------------------------------ the worker

/-- the end of a removal, whoever reached it: round 3's invariant for the table without `w` -/
theorem remDone_JQ {cfg : Cfg} {G : Block} {x : SysQ} {k : Skel} {w : Wid} (hM : JRmid cfg G x k w) {X : List Block}
    (hX : ChainOK (lenv cfg.st k.ks) G X) (hv : x.V.led.best = tipMeta X) (hpre : ∃ c ∈ k.hist, X <+: c)
    (hq0 : x.queue = [] → X = k.chain) {P' : PStore} {V' : PVol}
    (hD : RemDone cfg.st k.ks w k.chain X x.P P' V') (hbest : V'.led.best = x.V.led.best) :
    JRdone cfg G { x with P := P', V := V' } k w := by
  obtain ⟨hc, hks, hkeys, hnW, hnA, hrec, hfl, htask, _, hqk, hql, hN, hcur, hoth, ⟨w0, hw0, hw0m⟩⟩ := hM
  have hr0 : readyB P'.led w0 = true := by rw [hD.others w0 hw0]; exact hoth w0 hw0m hw0
  have hw0e : w0 ∈ walletsOf (AMap.erase k.ks w) := mem_walletsOf_erase.2 ⟨hw0m, hw0⟩
  refine ⟨⟨hc, hD.pks, hD.vkeys, ⟨X, ⟨?_, hbest.trans hv, chainOK_erase hnA w hX, hD.allReady, ?_, hqk, ?_, (fun h => by show x.queue.getLast? = x.chain.getLast?; rw [hc]; exact hql h)⟩, hpre⟩,
    chainOK_erase hnA w hN, hcur, walletsOf_erase_nodup hnW w, keysNodup_ownOf_erase hnA w, ?_⟩, hD.gone, hnA⟩
  · show Ledger.Inv ((lenv cfg.st (AMap.erase k.ks w)).ctx x.chain) P'.led X
    rw [hc]; exact hD.inv
  · show (readyWallets P'.led (walletsOf (AMap.erase k.ks w))).isEmpty = false
    have : (readyWallets P'.led (walletsOf (AMap.erase k.ks w))).contains w0 = true := mem_readyWallets.2 ⟨hw0e, hr0⟩
    cases hr : readyWallets P'.led (walletsOf (AMap.erase k.ks w)) with
    | nil => rw [hr] at this; cases this
    | cons _ _ => rfl
  · intro h
    exact (hq0 h).trans hc.symm
  · intro w' hw'
    obtain ⟨hm, hne⟩ := mem_walletsOf_erase.1 hw'
    show readyB P'.led w' = true
    rw [hD.others w' hne]; exact hoth w' hm hne

theorem others_owner {ks : AMap.T Wid KsRec} {s : Store} {w : Wid}
    (hoth : ∀ w' ∈ walletsOf ks, w' ≠ w → readyB s w' = true) :
    ∀ a w' ch, AMap.get (ownOf ks) a = some (w', ch) → w' ≠ w → readyB s w' = true :=
  fun _ w' _ hg hne => hoth w' (own_wallet_mem (amap_mem_of_get hg)).1 hne

/-- ONE ITERATION of the removal -/
theorem JR_removeStep {cfg : Cfg} {G : Block} (cr : Bool) {x : SysQ} {k : Skel} {w : Wid} (hJ : JR cfg G x k w) :
    JR cfg G (stepT cfg cr x (.removeStep w)) k w := by
  rcases hJ with hM | ⟨hQ, hgone, hnA⟩
  · have hM0 := hM
    obtain ⟨hc, hks, hkeys, hnW, hnA, ⟨r, hr, hrne⟩, ⟨stt, hst, hrm⟩, htask, ⟨X, hX, hMid, hv, hpre, hq0⟩, hqk, hql, hN, hcur, hoth, hother⟩ := hM
    have hnd : removeDone x.P w = false := by unfold removeDone; rw [hst]; rfl
    have H := remHyp_of (chain := k.chain) hX hnA hnW hr hrne
    obtain ⟨sA, sB, sC⟩ := removeStep_mid (r := r) cfg.limit cfg.n hks hkeys hr H hMid hst (others_owner hoth) _ rfl
    have h1 : stepT cfg cr x (.removeStep w) =
        { x with P := ((opRemoveStep cfg.limit cfg.n (envAt cfg.st k.chain) w (addrsOf x.V.keys w)).run none x.P x.V).P,
                 V := if ((opRemoveStep cfg.limit cfg.n (envAt cfg.st k.chain) w (addrsOf x.V.keys w)).run none x.P x.V).ok &&
                        removeDone ((opRemoveStep cfg.limit cfg.n (envAt cfg.st k.chain) w (addrsOf x.V.keys w)).run none x.P x.V).P w
                      then dropTask ((opRemoveStep cfg.limit cfg.n (envAt cfg.st k.chain) w (addrsOf x.V.keys w)).run none x.P x.V).V (.rem w)
                      else ((opRemoveStep cfg.limit cfg.n (envAt cfg.st k.chain) w (addrsOf x.V.keys w)).run none x.P x.V).V } := by
      simp only [stepT, htask, hnd, Bool.not_false, Bool.and_self, if_true, hc]
    rw [h1]
    cases hok : ((opRemoveStep cfg.limit cfg.n (envAt cfg.st k.chain) w (addrsOf x.V.keys w)).run none x.P x.V).ok with
    | false =>
      obtain ⟨p1, p2⟩ := sA hok
      simp only [Bool.false_and, Bool.false_eq_true, if_false]
      rw [p1, p2]
      exact Or.inl hM0
    | true =>
      cases hdn : removeDone ((opRemoveStep cfg.limit cfg.n (envAt cfg.st k.chain) w (addrsOf x.V.keys w)).run none x.P x.V).P w with
      | false =>
        obtain ⟨q1, q2, q3, q4, q5, q6⟩ := sB hok hdn
        simp only [Bool.and_false, Bool.false_eq_true, if_false]
        refine Or.inl ⟨hc, q1, q2, hnW, hnA, ⟨r, hr, hrne⟩, ⟨stt, by rw [q6]; exact hst, hrm⟩, by rw [q3]; exact htask,
          ⟨X, hX, q5, q4.trans hv, hpre, hq0⟩, hqk, hql, hN, hcur, ?_, hother⟩
        intro w' hw' hne
        show readyB ((opRemoveStep cfg.limit cfg.n (envAt cfg.st k.chain) w (addrsOf x.V.keys w)).run none x.P x.V).P.led w' = true
        rw [readyB_status (s := x.P.led) (by rw [q6])]; exact hoth w' hw' hne
      | true =>
        obtain ⟨d1, _, d3⟩ := sC hok hdn
        simp only [Bool.and_self, if_true]
        exact Or.inr (remDone_JQ hM0 hX hv hpre hq0
          (V' := dropTask ((opRemoveStep cfg.limit cfg.n (envAt cfg.st k.chain) w (addrsOf x.V.keys w)).run none x.P x.V).V (.rem w))
          ⟨d1.pks, d1.vkeys, d1.gone, d1.inv, d1.allReady, d1.others⟩ d3)
  · have hnd : removeDone x.P w = true := by unfold removeDone; rw [hgone]; rfl
    have h1 : stepT cfg cr x (.removeStep w) = x := by
      simp only [stepT, hnd, Bool.not_true, Bool.and_false, Bool.false_eq_true, if_false]
    rw [h1]
    exact Or.inr ⟨hQ, hgone, hnA⟩

theorem left_le_length (s : Store) (addrs : List Addr) : MW.Lemmas.RemoveProgress.left s addrs ≤ s.credits.length := by
  unfold MW.Lemmas.RemoveProgress.left
  exact List.length_filter_le _ _

/-- REMOVEDRAIN closes the window: the worker's loop completes (`removeLoop_total`: under `Mid` no iteration fails and
    every non-finishing one deletes a credit of the wallet) and ends in round 3's invariant for the table without `w` -/
theorem JR_removeDrain {cfg : Cfg} {G : Block} (hl : cfg.limit > 0) (cr : Bool) {x : SysQ} {k : Skel} {w : Wid}
    (hJ : JR cfg G x k w) :
    JQ cfg.st G (stepT cfg cr x (.removeDrain w)) { k with ks := AMap.erase k.ks w } := by
  rcases hJ with hM | ⟨hQ, hgone, hnA⟩
  · have hM0 := hM
    obtain ⟨hc, hks, hkeys, hnW, hnA, ⟨r, hr, hrne⟩, ⟨stt, hst, hrm⟩, htask, ⟨X, hX, hMid, hv, hpre, hq0⟩, hqk, hql, hN, hcur, hoth, hother⟩ := hM
    have hnd : removeDone x.P w = false := by unfold removeDone; rw [hst]; rfl
    have hg : (x.V.tasks.contains (.rem w) && !removeDone x.P w) = true := by rw [htask, hnd]; rfl
    have H := remHyp_of (chain := k.chain) hX hnA hnW hr hrne
    have hsome := removeLoop_total (r := r) cfg.limit cfg.n hl hr H (x.P.led.credits.length + 1) (V := x.V) hks hkeys hMid hst
      (Nat.lt_succ_of_le (left_le_length _ _))
    obtain ⟨⟨P', V'⟩, hl'⟩ := Option.isSome_iff_exists.1 hsome
    obtain ⟨d1, _, d3⟩ := removeLoop_done (r := r) cfg.limit cfg.n hr H _ hks hkeys hMid hst (others_owner hoth) hl'
    have h1 : stepT cfg cr x (.removeDrain w) = { x with P := P', V := dropTask V' (.rem w) } := by
      simp only [stepT, hg, if_true, hc, hkeys, hl']
    rw [h1]
    exact (remDone_JQ hM0 hX hv hpre hq0 (V' := dropTask V' (.rem w))
      ⟨d1.pks, d1.vkeys, d1.gone, d1.inv, d1.allReady, d1.others⟩ d3).jq
  · have hnd : removeDone x.P w = true := by unfold removeDone; rw [hgone]; rfl
    have h1 : stepT cfg cr x (.removeDrain w) = x := by
      simp only [stepT, hnd, Bool.not_true, Bool.and_false, Bool.false_eq_true, if_false]
    rw [h1]
    exact hQ

end MW.Lemmas.Deepen4
