/-
  The books of a chain (Spec/Books.lean) against the spec ledger (Spec/Chain.lean) and the global
  invariant `Glob` (LedgerValid.lean):
    bookOf_L      the ledger component of the books IS the spec ledger (unconditional)
    pointwise characterisations of the folds of `applyOcc` (spend / create / deposit / record)
-/
import MW.Lemmas.LedgerValid
namespace MW.Lemmas.Ledger
open MW MW.Model.Ledger MW.Spec.Chain MW.Spec.Books

-- ------------------------------------------------------------------ the steps of applyOcc on `L`

/-- `spendB` always filters the outpoint out of the ledger list (a miss filters nothing) -/
theorem spendB_L (p : Params) (t : Tx) (bm : BlockMeta) (B : Book) (k : Nat) (i : Inp) :
    (spendB p t bm B k i).L = B.L.filter (fun u' => !UCoin.at i.tx i.idx u') := by
  unfold spendB
  cases h : lookupU B.L i.tx i.idx with
  | some u => rfl
  | none =>
    simp only
    symm
    apply List.filter_eq_self.2
    intro u hu
    unfold lookupU at h
    have := List.find?_eq_none.1 h u hu
    simpa using this

theorem spendB_txrecs (p : Params) (t : Tx) (bm : BlockMeta) (B : Book) (k : Nat) (i : Inp) :
    (spendB p t bm B k i).txrecs = B.txrecs := by
  unfold spendB
  cases h : lookupU B.L i.tx i.idx <;> rfl

/-- the spend fold removes exactly the outpoints of the inputs -/
theorem spendFold_L (p : Params) (t : Tx) (bm : BlockMeta) (is : List Inp) (k : Nat) (B : Book) :
    (foldIdx (spendB p t bm) is k B).L =
      B.L.filter (fun u => !(is.any (fun i => UCoin.at i.tx i.idx u))) := by
  induction is generalizing k B with
  | nil => exact (List.filter_eq_self.2 (by simp)).symm
  | cons i is ih =>
    rw [foldIdx_cons, ih, spendB_L, List.filter_filter]
    apply List.filter_congr
    intro u _
    simp only [List.any_cons, Bool.not_or]
    rw [Bool.and_comm]

theorem spendFold_txrecs (p : Params) (t : Tx) (bm : BlockMeta) (is : List Inp) (k : Nat) (B : Book) :
    (foldIdx (spendB p t bm) is k B).txrecs = B.txrecs := by
  induction is generalizing k B with
  | nil => rfl
  | cons i is ih => rw [foldIdx_cons, ih, spendB_txrecs]

/-- the coin an owned output becomes -/
def mkU (own : Own) (t : Tx) (bm : BlockMeta) (oj : Out × Nat) : Option UCoin :=
  (ownerOf own oj.1).map (fun wc => ⟨wc.1, t.id, oj.2, bm, t.cb, oj.1, wc.2⟩)

theorem createB_L (p : Params) (own : Own) (t : Tx) (bm : BlockMeta) (B : Book) (j : Nat) (o : Out) :
    (createB p own t bm B j o).L = B.L ++ (mkU own t bm (o, j)).toList := by
  unfold createB mkU
  cases h : ownerOf own o with
  | none => simp
  | some wc => rfl

theorem createB_txrecs (p : Params) (own : Own) (t : Tx) (bm : BlockMeta) (B : Book) (j : Nat) (o : Out) :
    (createB p own t bm B j o).txrecs = B.txrecs := by
  unfold createB
  cases h : ownerOf own o <;> rfl

/-- the create fold appends exactly the owned outputs, in order -/
theorem createFold_L (p : Params) (own : Own) (t : Tx) (bm : BlockMeta) (os : List Out) (j : Nat) (B : Book) :
    (foldIdx (createB p own t bm) os j B).L = B.L ++ (os.zipIdx j).filterMap (mkU own t bm) := by
  induction os generalizing j B with
  | nil => simp
  | cons o os ih =>
    rw [foldIdx_cons, ih, createB_L, List.zipIdx_cons, List.filterMap_cons, List.append_assoc]
    cases h : mkU own t bm (o, j) <;> simp

theorem createFold_txrecs (p : Params) (own : Own) (t : Tx) (bm : BlockMeta) (os : List Out) (j : Nat) (B : Book) :
    (foldIdx (createB p own t bm) os j B).txrecs = B.txrecs := by
  induction os generalizing j B with
  | nil => rfl
  | cons o os ih => rw [foldIdx_cons, ih, createB_txrecs]

theorem depositB_same (own : Own) (t : Tx) (bm : BlockMeta) (B : Book) (j : Nat) (o : Out) :
    (depositB own t bm B j o).L = B.L ∧ (depositB own t bm B j o).credits = B.credits ∧
    (depositB own t bm B j o).txrecs = B.txrecs := by
  unfold depositB
  cases h : ownerOf own o with
  | none => exact ⟨rfl, rfl, rfl⟩
  | some wc =>
    simp only
    split <;> exact ⟨rfl, rfl, rfl⟩

theorem depositFold_same (own : Own) (t : Tx) (bm : BlockMeta) (os : List Out) (j : Nat) (B : Book) :
    (foldIdx (depositB own t bm) os j B).L = B.L ∧ (foldIdx (depositB own t bm) os j B).credits = B.credits ∧
    (foldIdx (depositB own t bm) os j B).txrecs = B.txrecs := by
  induction os generalizing j B with
  | nil => exact ⟨rfl, rfl, rfl⟩
  | cons o os ih =>
    rw [foldIdx_cons]
    obtain ⟨h1, h2, h3⟩ := ih (j + 1) (depositB own t bm B j o)
    obtain ⟨g1, g2, g3⟩ := depositB_same own t bm B j o
    exact ⟨h1.trans g1, h2.trans g2, h3.trans g3⟩

/-- the first step of `applyOcc`: record the transaction if it touches the books -/
def recStep (own : Own) (B : Book) (oc : Occ) : Book := if touches own B oc.t then recordB B oc else B

theorem recStep_L (own : Own) (B : Book) (oc : Occ) : (recStep own B oc).L = B.L := by
  unfold recStep; by_cases h : touches own B oc.t = true <;> simp [h, recordB]

theorem recStep_credits (own : Own) (B : Book) (oc : Occ) : (recStep own B oc).credits = B.credits := by
  unfold recStep; by_cases h : touches own B oc.t = true <;> simp [h, recordB]

theorem recStep_txrecs (own : Own) (B : Book) (oc : Occ) (k : TxId × BlockMeta) :
    ((recStep own B oc).txrecs k).isSome = true → (B.txrecs k).isSome = true ∨ k = (oc.t.id, oc.bm) := by
  unfold recStep
  by_cases h : touches own B oc.t = true
  · simp only [h, if_true, recordB, upd_apply]
    by_cases hk : (oc.t.id, oc.bm) = k
    · intro _; exact Or.inr hk.symm
    · simp only [hk, if_false]; exact Or.inl
  · simp only [h]; exact Or.inl

/-- the second step of `applyOcc`: the inputs of a non-coinbase are spent -/
def spendStep (p : Params) (B : Book) (oc : Occ) : Book :=
  if oc.t.cb then B else foldIdx (spendB p oc.t oc.bm) oc.t.ins 0 B

theorem applyOcc_eq (p : Params) (own : Own) (B : Book) (oc : Occ) :
    applyOcc p own B oc =
      foldIdx (depositB own oc.t oc.bm) oc.t.outs 0
        (foldIdx (createB p own oc.t oc.bm) oc.t.outs 0 (spendStep p (recStep own B oc) oc)) := rfl

theorem spendStep_L (p : Params) (B : Book) (oc : Occ) :
    (spendStep p B oc).L =
      if oc.t.cb then B.L else B.L.filter (fun u => !(oc.t.ins.any (fun i => UCoin.at i.tx i.idx u))) := by
  unfold spendStep
  by_cases h : oc.t.cb = true
  · simp [h]
  · simp only [h]; exact spendFold_L ..

theorem spendStep_txrecs (p : Params) (B : Book) (oc : Occ) : (spendStep p B oc).txrecs = B.txrecs := by
  unfold spendStep
  by_cases h : oc.t.cb = true
  · simp [h]
  · simp only [h]; exact spendFold_txrecs ..

/-- the ledger list after one transaction -/
theorem applyOcc_L (p : Params) (own : Own) (B : Book) (oc : Occ) :
    (applyOcc p own B oc).L =
      (if oc.t.cb then B.L else B.L.filter (fun u => !(oc.t.ins.any (fun i => UCoin.at i.tx i.idx u)))) ++
        (oc.t.outs.zipIdx 0).filterMap (mkU own oc.t oc.bm) := by
  rw [applyOcc_eq, (depositFold_same ..).1, createFold_L, spendStep_L, recStep_L]

-- ------------------------------------------------------------------ membership form

theorem at_any_iff (is : List Inp) (u : UCoin) :
    (is.any (fun i => UCoin.at i.tx i.idx u)) = true ↔ (u.tx, u.idx) ∈ is.map opOf := by
  simp only [List.any_eq_true, List.mem_map, opOf, at_iff, Prod.mk.injEq]
  constructor
  · rintro ⟨i, hi, h1, h2⟩; exact ⟨i, hi, h1.symm, h2.symm⟩
  · rintro ⟨i, hi, h1, h2⟩; exact ⟨i, hi, h1.symm, h2.symm⟩

theorem spendFold_mem (p : Params) (t : Tx) (bm : BlockMeta) (is : List Inp) (k : Nat) (B : Book) (u : UCoin) :
    u ∈ (foldIdx (spendB p t bm) is k B).L ↔ (u ∈ B.L ∧ (u.tx, u.idx) ∉ is.map opOf) := by
  rw [spendFold_L, List.mem_filter, ← at_any_iff]
  simp

theorem mkU_eq_some (own : Own) (t : Tx) (bm : BlockMeta) (o : Out) (m : Nat) (u : UCoin) :
    mkU own t bm (o, m) = some u ↔
      (ownerOf own o = some (u.wallet, u.change) ∧ u.tx = t.id ∧ u.idx = m ∧ u.blk = bm ∧ u.cb = t.cb ∧ u.out = o) := by
  unfold mkU
  cases h : ownerOf own o with
  | none => simp
  | some wc =>
    obtain ⟨w, ch⟩ := wc
    obtain ⟨w', tx, idx, blk, cb, out, ch'⟩ := u
    simp only [Option.map_some, Option.some.injEq, UCoin.mk.injEq, Prod.mk.injEq]
    constructor
    · rintro ⟨rfl, rfl, rfl, rfl, rfl, rfl, rfl⟩; exact ⟨⟨rfl, rfl⟩, rfl, rfl, rfl, rfl, rfl⟩
    · rintro ⟨⟨rfl, rfl⟩, rfl, rfl, rfl, rfl, rfl⟩; exact ⟨rfl, rfl, rfl, rfl, rfl, rfl, rfl⟩

theorem createFold_mem (p : Params) (own : Own) (t : Tx) (bm : BlockMeta) (os : List Out) (j : Nat) (B : Book)
    (u : UCoin) :
    u ∈ (foldIdx (createB p own t bm) os j B).L ↔
      (u ∈ B.L ∨ ∃ m o, os[m]? = some o ∧ ownerOf own o = some (u.wallet, u.change) ∧
        u = ⟨u.wallet, t.id, j + m, bm, t.cb, o, u.change⟩) := by
  rw [createFold_L, List.mem_append, List.mem_filterMap]
  apply or_congr Iff.rfl
  constructor
  · rintro ⟨⟨o, m⟩, hm, hu⟩
    obtain ⟨hle, hget⟩ := List.mem_zipIdx_iff_le_and_getElem?_sub.1 hm
    obtain ⟨h1, h2, h3, h4, h5, h6⟩ := (mkU_eq_some ..).1 hu
    refine ⟨m - j, o, hget, h1, ?_⟩
    obtain ⟨w', tx, idx, blk, cb, out, ch'⟩ := u
    simp only at h2 h3 h4 h5 h6 hle
    simp only [UCoin.mk.injEq, true_and]
    exact ⟨h2, by omega, h4, h5, h6, trivial⟩
  · rintro ⟨m, o, hget, h1, hu⟩
    refine ⟨(o, j + m), List.mem_zipIdx_iff_le_and_getElem?_sub.2 ⟨by simp, by simpa using hget⟩, ?_⟩
    rw [mkU_eq_some]
    refine ⟨h1, ?_, ?_, ?_, ?_, ?_⟩ <;> (rw [hu])

/-- zero-based form used for `applyOcc` -/
theorem mem_created_iff (own : Own) (t : Tx) (bm : BlockMeta) (u : UCoin) :
    u ∈ (t.outs.zipIdx 0).filterMap (mkU own t bm) ↔
      (u.tx = t.id ∧ t.outs[u.idx]? = some u.out ∧ ownerOf own u.out = some (u.wallet, u.change) ∧
        u.blk = bm ∧ u.cb = t.cb) := by
  rw [List.mem_filterMap]
  constructor
  · rintro ⟨⟨o, m⟩, hm, hu⟩
    have hget := List.mem_zipIdx_iff_getElem?.1 hm
    obtain ⟨h1, h2, h3, h4, h5, h6⟩ := (mkU_eq_some ..).1 hu
    simp only at hget
    rw [h3, h6]
    exact ⟨h2, hget, h1, h4, h5⟩
  · rintro ⟨h2, hget, h1, h4, h5⟩
    exact ⟨(u.out, u.idx), List.mem_zipIdx_iff_getElem?.2 hget, (mkU_eq_some ..).2 ⟨h1, h2, rfl, h4, h5, rfl⟩⟩

-- ------------------------------------------------------------------ the steps of applyOcc on `credits`

theorem spendB_credits_mono (p : Params) (t : Tx) (bm : BlockMeta) (B : Book) (k : Nat) (i : Inp) (ck : CredKey)
    (h : (B.credits ck).isSome = true) : ((spendB p t bm B k i).credits ck).isSome = true := by
  unfold spendB
  cases hl : lookupU B.L i.tx i.idx with
  | none => exact h
  | some u =>
    simp only [upd_apply]
    by_cases hk : u.credKey = ck
    · simp [hk]
    · simp only [hk, if_false]; exact h

theorem spendB_credits_back (p : Params) (t : Tx) (bm : BlockMeta) (B : Book) (k : Nat) (i : Inp) (ck : CredKey)
    (h : ((spendB p t bm B k i).credits ck).isSome = true) :
    (B.credits ck).isSome = true ∨ ∃ u ∈ B.L, ck = u.credKey := by
  unfold spendB at h
  cases hl : lookupU B.L i.tx i.idx with
  | none => rw [hl] at h; exact Or.inl h
  | some u =>
    rw [hl] at h
    simp only [upd_apply] at h
    by_cases hk : u.credKey = ck
    · exact Or.inr ⟨u, (lookupU_some hl).1, hk.symm⟩
    · simp only [hk, if_false] at h; exact Or.inl h

theorem spendFold_credits_mono (p : Params) (t : Tx) (bm : BlockMeta) (is : List Inp) (k : Nat) (B : Book)
    (ck : CredKey) (h : (B.credits ck).isSome = true) :
    ((foldIdx (spendB p t bm) is k B).credits ck).isSome = true := by
  induction is generalizing k B with
  | nil => exact h
  | cons i is ih => rw [foldIdx_cons]; exact ih _ _ (spendB_credits_mono p t bm B k i ck h)

theorem spendFold_credits_back (p : Params) (t : Tx) (bm : BlockMeta) (is : List Inp) (k : Nat) (B : Book)
    (ck : CredKey) (h : ((foldIdx (spendB p t bm) is k B).credits ck).isSome = true) :
    (B.credits ck).isSome = true ∨ ∃ u ∈ B.L, ck = u.credKey := by
  induction is generalizing k B with
  | nil => exact Or.inl h
  | cons i is ih =>
    rw [foldIdx_cons] at h
    rcases ih _ _ h with h1 | ⟨u, hu, hk⟩
    · exact spendB_credits_back p t bm B k i ck h1
    · rw [spendB_L] at hu
      exact Or.inr ⟨u, (List.mem_filter.1 hu).1, hk⟩

theorem spendStep_credits_mono (p : Params) (B : Book) (oc : Occ) (ck : CredKey)
    (h : (B.credits ck).isSome = true) : ((spendStep p B oc).credits ck).isSome = true := by
  unfold spendStep
  by_cases hc : oc.t.cb = true
  · simp only [hc, if_true]; exact h
  · simp only [hc]; exact spendFold_credits_mono _ _ _ _ _ _ _ h

theorem spendStep_credits_back (p : Params) (B : Book) (oc : Occ) (ck : CredKey)
    (h : ((spendStep p B oc).credits ck).isSome = true) :
    (B.credits ck).isSome = true ∨ ∃ u ∈ B.L, ck = u.credKey := by
  unfold spendStep at h
  by_cases hc : oc.t.cb = true
  · simp only [hc, if_true] at h; exact Or.inl h
  · simp only [hc] at h; exact spendFold_credits_back _ _ _ _ _ _ _ h

theorem createB_credits (p : Params) (own : Own) (t : Tx) (bm : BlockMeta) (B : Book) (j : Nat) (o : Out)
    (ck : CredKey) :
    ((createB p own t bm B j o).credits ck).isSome = true ↔
      ((B.credits ck).isSome = true ∨ ((ownerOf own o).isSome = true ∧ ck = ⟨t.id, bm, j⟩)) := by
  unfold createB
  cases h : ownerOf own o with
  | none => simp
  | some wc =>
    simp only [upd_apply, UCoin.credKey, Option.isSome_some, true_and]
    by_cases hk : (⟨t.id, bm, j⟩ : CredKey) = ck
    · simp [hk]
    · have hk' : ¬ ck = ⟨t.id, bm, j⟩ := fun e => hk e.symm
      simp [hk, hk']

/-- the create fold writes a credit for every owned output and nothing else -/
theorem createFold_credits (p : Params) (own : Own) (t : Tx) (bm : BlockMeta) (os : List Out) (j : Nat) (B : Book)
    (ck : CredKey) :
    ((foldIdx (createB p own t bm) os j B).credits ck).isSome = true ↔
      ((B.credits ck).isSome = true ∨
        ∃ om ∈ os.zipIdx j, (ownerOf own om.1).isSome = true ∧ ck = ⟨t.id, bm, om.2⟩) := by
  induction os generalizing j B with
  | nil => simp
  | cons o os ih =>
    rw [foldIdx_cons, ih, createB_credits, List.zipIdx_cons]
    simp only [List.mem_cons, exists_eq_or_imp, or_assoc]

-- ------------------------------------------------------------------ bookOf_L

theorem mkU_toSCoin (own : Own) (t : Tx) (bm : BlockMeta) (os : List Out) (j : Nat) :
    ((os.zipIdx j).filterMap (mkU own t bm)).map UCoin.toSCoin =
      (os.zipIdx j).filterMap (fun (o, i) =>
        if o.cls = .raw then none else
        match AMap.get own o.addr with
        | some (w, _) => some (⟨w, t.id, i, o.amt, bm.height, t.cb, o.cls, o.addr⟩ : SCoin)
        | none => none) := by
  rw [List.map_filterMap]
  congr 1
  funext ⟨o, i⟩
  unfold mkU ownerOf
  by_cases hr : o.cls = .raw
  · simp [hr]
  · simp only [hr, if_false]
    cases h : AMap.get own o.addr with
    | none => rfl
    | some wc => rfl

theorem applyOcc_L_spec (p : Params) (own : Own) (B : Book) (oc : Occ) :
    (applyOcc p own B oc).L.map UCoin.toSCoin = applyTx own oc.bm.height (B.L.map UCoin.toSCoin) oc.t := by
  rw [applyOcc_L, List.map_append, mkU_toSCoin]
  unfold applyTx ownedOuts
  congr 1
  by_cases h : oc.t.cb = true
  · simp [h]
  · simp only [h]
    rw [List.filter_map]
    congr 1
    apply List.filter_congr
    intro u _
    simp only [Function.comp, UCoin.toSCoin, UCoin.at]
    congr 2
    funext i
    by_cases h1 : i.tx = u.tx <;> by_cases h2 : i.idx = u.idx <;> simp [h1, h2, eq_comm]

theorem occsFrom_fold_L (p : Params) (own : Own) (bm : BlockMeta) (ts : List Tx) (i : Nat) (B : Book) :
    ((occsFrom bm ts i).foldl (applyOcc p own) B).L.map UCoin.toSCoin =
      ts.foldl (applyTx own bm.height) (B.L.map UCoin.toSCoin) := by
  induction ts generalizing i B with
  | nil => rfl
  | cons t ts ih =>
    simp only [occsFrom, List.foldl_cons]
    rw [ih, applyOcc_L_spec]

theorem occs_fold_L (p : Params) (own : Own) (chain : List Block) (B : Book) :
    ((occs chain).foldl (applyOcc p own) B).L.map UCoin.toSCoin =
      chain.foldl (applyBlock own) (B.L.map UCoin.toSCoin) := by
  induction chain generalizing B with
  | nil => rfl
  | cons b chain ih =>
    unfold occs at *
    rw [List.flatMap_cons, List.foldl_append, ih, List.foldl_cons]
    congr 1
    exact occsFrom_fold_L ..

/-- the ledger component of the books IS the spec ledger -/
theorem bookOf_L (p : Params) (own : Own) (chain : List Block) :
    (bookOf p own chain).L.map UCoin.toSCoin = ledgerOf own chain := by
  unfold bookOf ledgerOf
  exact occs_fold_L p own chain {}

end MW.Lemmas.Ledger
