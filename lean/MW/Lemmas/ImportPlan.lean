/-
  Helper lemmas for C07: the plan of a rescan batch (which transactions, in which order) and the cursor
  arithmetic of asyncImport.
-/
import MW.Model.Import
namespace MW.Lemmas.ImportPlan
open MW MW.Model.Ledger MW.Model.Import

-- ------------------------------------------------------------------ heights of a batch

theorem mem_batchHeights (start stop h : Nat) : h ∈ batchHeights start stop ↔ start ≤ h ∧ h ≤ stop := by
  unfold batchHeights
  simp only [List.mem_map, List.mem_range]
  constructor
  · rintro ⟨k, hk, rfl⟩; omega
  · intro ⟨h1, h2⟩; exact ⟨h - start, by omega, by omega⟩

/-- consecutive ranges concatenate: no height is skipped and none is visited twice -/
theorem batchHeights_append (start mid stop : Nat) (h1 : start ≤ mid + 1) (h2 : mid ≤ stop) :
    batchHeights start mid ++ batchHeights (mid + 1) stop = batchHeights start stop := by
  unfold batchHeights
  have e : stop + 1 - start = (mid + 1 - start) + (stop + 1 - (mid + 1)) := by omega
  rw [e, List.range_add, List.map_append, List.map_map]
  congr 1
  apply List.map_congr_left
  intro k _
  simp only [Function.comp]
  omega

theorem batchHeights_empty (start stop : Nat) (h : stop < start) : batchHeights start stop = [] := by
  unfold batchHeights
  have : stop + 1 - start = 0 := by omega
  rw [this]; rfl

theorem batchHeights_sorted (start stop : Nat) : (batchHeights start stop).Pairwise (· < ·) := by
  unfold batchHeights
  rw [List.pairwise_map]
  exact List.Pairwise.imp (fun h => by omega) (List.pairwise_lt_range)

-- ------------------------------------------------------------------ the plan

/-- the plan of consecutive batches is the plan of the whole range (batch boundaries are invisible) -/
theorem plan_append (n : Node) (addrs : List Addr) (start mid stop : Nat) (h1 : start ≤ mid + 1) (h2 : mid ≤ stop) :
    plan n addrs start mid ++ plan n addrs (mid + 1) stop = plan n addrs start stop := by
  unfold plan
  rw [← List.flatMap_append, batchHeights_append start mid stop h1 h2]

theorem plan_empty (n : Node) (addrs : List Addr) (start stop : Nat) (h : stop < start) : plan n addrs start stop = [] := by
  unfold plan; rw [batchHeights_empty start stop h]; rfl

/-- every planned item is a transaction of the node's block at a height of the range, at its block position,
    that touches one of the script hashes -/
theorem plan_sound (n : Node) (addrs : List Addr) (start stop : Nat) (it : Item) (h : it ∈ plan n addrs start stop) :
    start ≤ it.blk.height ∧ it.blk.height ≤ stop ∧
    ∃ b, n.blockAt it.blk.height = some b ∧ it.blk.hash = b.id ∧ b.txs[it.pos]? = some it.tx ∧
      touches n addrs it.blk.height it.tx = true := by
  unfold plan at h
  rw [List.mem_flatMap] at h
  obtain ⟨ht, hmem, hit⟩ := h
  have hr := (mem_batchHeights start stop ht).1 hmem
  cases hb : n.blockAt ht with
  | none => rw [hb] at hit; cases hit
  | some b =>
    rw [hb] at hit
    simp only [List.mem_map] at hit
    obtain ⟨p, hp, rfl⟩ := hit
    unfold relatedAt at hp
    rw [hb] at hp
    simp only [List.mem_map, List.mem_filter] at hp
    obtain ⟨q, ⟨hq, htouch⟩, rfl⟩ := hp
    refine ⟨hr.1, hr.2, b, hb, rfl, ?_, htouch⟩
    have := List.mem_zipIdx hq
    simp only at this ⊢
    have h3 : b.txs[q.2]? = some q.1 := by
      rcases this with ⟨_, hlt, heq⟩
      simp only [Nat.zero_add, Nat.sub_zero] at hlt heq
      rw [List.getElem?_eq_getElem hlt, heq]
    exact h3

/-- … and every such transaction is planned: the plan is complete -/
theorem plan_complete (n : Node) (addrs : List Addr) (start stop h : Nat) (b : Block) (pos : Nat) (tx : Tx)
    (hr : start ≤ h ∧ h ≤ stop) (hb : n.blockAt h = some b) (htx : b.txs[pos]? = some tx)
    (ht : touches n addrs h tx = true) : ⟨⟨h, b.id⟩, pos, tx⟩ ∈ plan n addrs start stop := by
  unfold plan
  rw [List.mem_flatMap]
  refine ⟨h, (mem_batchHeights start stop h).2 hr, ?_⟩
  rw [hb]
  simp only [List.mem_map]
  refine ⟨(pos, tx), ?_, rfl⟩
  unfold relatedAt
  rw [hb]
  simp only [List.mem_map, List.mem_filter]
  refine ⟨(tx, pos), ⟨?_, ht⟩, rfl⟩
  rw [List.mem_zipIdx_iff_getElem?]
  simpa using htx

/-- heights in a plan never decrease: blocks are applied in chain order -/
theorem plan_heights_sorted (n : Node) (addrs : List Addr) (start stop : Nat) :
    ((plan n addrs start stop).map (·.blk.height)).Pairwise (· ≤ ·) := by
  unfold plan
  have key : ∀ (l : List Nat), l.Pairwise (· < ·) →
      ((l.flatMap (fun h => match n.blockAt h with
        | some b => (relatedAt n addrs h).map (fun p => (⟨⟨h, b.id⟩, p.1, p.2⟩ : Item))
        | none => [])).map (·.blk.height)).Pairwise (· ≤ ·) := by
    intro l
    induction l with
    | nil => intro _; simp
    | cons a l ih =>
      intro hs
      rw [List.pairwise_cons] at hs
      simp only [List.flatMap_cons, List.map_append, List.pairwise_append]
      refine ⟨?_, ih hs.2, ?_⟩
      · cases n.blockAt a with
        | none => simp
        | some b =>
          simp only [List.map_map]
          rw [List.pairwise_map]
          exact List.pairwise_of_forall (fun _ _ => Nat.le_refl _)
      · intro x hx y hy
        have hxa : x = a := by
          cases hb : n.blockAt a with
          | none => rw [hb] at hx; simp at hx
          | some b =>
            rw [hb] at hx
            simp only [List.map_map, List.mem_map] at hx
            obtain ⟨_, _, rfl⟩ := hx; rfl
        subst hxa
        simp only [List.mem_map, List.mem_flatMap] at hy
        obtain ⟨it, ⟨h', hh', hit⟩, rfl⟩ := hy
        have : x < h' := hs.1 h' hh'
        cases hb : n.blockAt h' with
        | none => rw [hb] at hit; cases hit
        | some b =>
          rw [hb] at hit
          simp only [List.mem_map] at hit
          obtain ⟨_, _, rfl⟩ := hit
          exact Nat.le_of_lt this
  exact key _ (batchHeights_sorted start stop)

end MW.Lemmas.ImportPlan
