/-
  C01 / LedBytes Round 7 — WHERE the follower calls its two store-writing primitives.
  `processBlock` (ntfnshandler.go processConnectedBlock / reorg) touches the wallet database only through
  disconnectBlock and filterBlock.  The predicates below follow the control structure of the ledger model and say:
  "at every call of disconnectBlock the pair (store, height) satisfies `Pd`, at every call of filterBlock the triple
  (store, ready wallets, block) satisfies `Pf`" — for the calls the run ACTUALLY makes (each continuation is only
  required when the call before it succeeded, with the values the model computes).
  `PdInv` / `PfInv`: the concrete conditions — the store holds the books of a chain `T` (C01's `Inv`), the argument is the
  tip of `T` resp. the next block of the node's chain after `T`, and `T` satisfies the chain-level size bounds `ChainBounds`.
-/
import MW.Lemmas.LedgerHistory
namespace MW.Lemmas.Ledger.Trace
open MW MW.Model.Ledger MW.Spec.Chain MW.Spec.Books MW.Lemmas.Ledger

section OK
variable (c : Ctx) (Pd : Store → Nat → Prop) (Pf : Store → List Wid → Block → Prop)

/-- reorg step 2a -/
def discDownOK (nbH : Nat) : Nat → Store → Nat → Prop
  | 0, _, _ => True
  | fuel + 1, s, curH =>
    curH > nbH → Pd s curH ∧ ∀ s', disconnectBlock c s curH = .ok s' → discDownOK nbH fuel s' (curH - 1)

/-- reorg step 2b -/
def walkBackOK : Nat → Walk → Prop
  | 0, _ => True
  | fuel + 1, w =>
    w.tail.prev ≠ w.prevHash →
      Pd w.s (w.prevH + 1) ∧
      ∀ s', disconnectBlock c w.s (w.prevH + 1) = .ok s' → w.prevH ≠ 0 →
        ∀ ph', AMap.get s'.sync (w.prevH - 1) = some ph' → ∀ pb, c.node.fetchBlock w.tail.prev = some pb →
          walkBackOK fuel { s := s', prevH := w.prevH - 1, prevHash := ph', tail := pb,
                            tc := w.tail :: w.tc, rolled := w.rolled ++ [w.prevH + 1] }

/-- reorg step 3 -/
def connectAllOK (ready : List Wid) : List Block → Store → Prop
  | [], _ => True
  | b :: rest, s => Pf s ready b ∧ ∀ x, filterBlock c s ready b = .ok x → connectAllOK ready rest x.1

/-- reorg step 2 -/
def reorgDisconnectOK (s : Store) (best : BlockMeta) (nb : Block) (tc : List Block) : Prop :=
  best.hash ≠ nb.id →
    discDownOK c Pd nb.height (best.height + 1) s best.height ∧
    ∀ x, disconnectDown c nb.height (best.height + 1) s best.height [] = .ok x →
      ∀ bh, AMap.get x.1.sync x.2.1 = some bh → bh ≠ nb.id → x.2.1 ≠ 0 →
        ∀ ph, AMap.get x.1.sync (x.2.1 - 1) = some ph →
          walkBackOK c Pd (best.height + 2)
            { s := x.1, prevH := x.2.1 - 1, prevHash := ph, tail := nb, tc := tc, rolled := x.2.2 } ∧
          ∀ wd, walkBack c (best.height + 2)
              { s := x.1, prevH := x.2.1 - 1, prevHash := ph, tail := nb, tc := tc, rolled := x.2.2 } = .ok wd →
            wd.2 = true → Pd wd.1.s (wd.1.prevH + 1)

/-- reorg -/
def reorgOK (s : Store) (best : BlockMeta) (newBest : Block) : Prop :=
  ∀ a, alignNew c best.height (newBest.height + 1) newBest [] = .ok a →
    reorgDisconnectOK c Pd s best a.1 a.2 ∧
    ∀ x, reorgDisconnect c s best a.1 a.2 = .ok x →
      connectAllOK c Pf (readyWallets x.1 c.wallets) x.2.2 x.1

/-- processConnectedBlock -/
def processOK (s : Store) (v : Vol) (b : Block) : Prop :=
  if b.prev = v.best.hash then Pf s (readyWallets s c.wallets) b else reorgOK c Pd Pf s v.best b

end OK

-- ------------------------------------------------------------------ the chain-level size bounds

/-- THE SIZE BOUNDS, STATED ON A CHAIN (all are facts about the chain and the keystore view, none about a run):
    * `height`: fewer than 2^62 blocks.  (2^63 would NOT do: the cursor key "syncedto" of the sync bucket is the 8-byte
      key of height 0x73796e636564746f ≈ 2^62.85 < 2^63 — `syncedto_key_collision`.)
    * `supply`: what any prefix of the chain pays a wallet and has not spent is below 2^64 (implied by total supply
      ≤ MaxAmount = 2.06·10^16 < 2^64).
    * `txs`: fewer than 2^32 - 1 transactions in a block (implied by the block size bound). -/
structure ChainBounds (p : Params) (own : Own) (T : List Block) : Prop where
  height : T.length < 2 ^ 62
  supply : ∀ n w, totalU (bookOf p own (T.take n)).L w < 2 ^ 64
  txs : ∀ b ∈ T, b.txs.length + 1 < 2 ^ 32

theorem ChainBounds.take {p : Params} {own : Own} {T : List Block} (h : ChainBounds p own T) (n : Nat) :
    ChainBounds p own (T.take n) where
  height := by have := h.height; rw [List.length_take]; omega
  supply m w := by rw [List.take_take]; exact h.supply _ w
  txs b hb := h.txs b (List.mem_of_mem_take hb)

/-- the condition at a call `disconnectBlock c s h`: either the call is the immediate error exit (`h = 0`), or the store
    holds the books of a chain `T` with at least two blocks whose tip has height `h` -/
def PdInv (c : Ctx) (s : Store) (h : Nat) : Prop :=
  h = 0 ∨ ∃ T b, Inv c s (T ++ [b]) ∧ T ≠ [] ∧ b.height = h ∧ ChainValid c.own (T ++ [b]) ∧ HeightsOK (T ++ [b]) ∧
    AMap.get c.node.known b.id = some b ∧ AllReady c.own (readyWallets s c.wallets) ∧ ChainBounds c.p c.own (T ++ [b])

/-- the condition at a call `filterBlock c s ready b`: the store holds the books of a chain `T`, `ready` is the list of
    ready wallets, and IF the call passes its first check (the node has a block with `b`'s id at `b`'s height) then `b` is
    the next block of the node's chain after `T` -/
def PfInv (c : Ctx) (s : Store) (ready : List Wid) (b : Block) : Prop :=
  ∃ T, Inv c s T ∧ ready = readyWallets s c.wallets ∧ AllReady c.own ready ∧ ready.isEmpty = false ∧
    ChainBounds c.p c.own T ∧
    (∀ oc, c.node.blockAt b.height = some oc → oc.id = b.id →
      ∃ rest, c.node.chain = T ++ b :: rest ∧ b.height = T.length ∧ ChainValid c.own c.node.chain ∧
        ChainBounds c.p c.own (T ++ [b]))

end MW.Lemmas.Ledger.Trace
