/-
  List facts about the transactions of a chain with their positions (`occsFrom`, `occs`), about the
  node lookup `fetchTx` on a chain with pairwise distinct transaction ids, and about `existCreditFromTx`.
  Used by the filter phase (LedgerFilter.lean).
-/
import MW.Lemmas.LedgerGlob2
namespace MW.Lemmas.Ledger
open MW MW.Model.Ledger MW.Spec.Chain MW.Spec.Books

theorem occsFrom_append (bm : BlockMeta) (a b : List Tx) (i : Nat) :
    occsFrom bm (a ++ b) i = occsFrom bm a i ++ occsFrom bm b (i + a.length) := by
  induction a generalizing i with
  | nil => simp [occsFrom]
  | cons t a ih =>
    simp only [List.cons_append, occsFrom, List.length_cons]
    rw [ih, show i + 1 + a.length = i + (a.length + 1) by omega]

theorem occsFrom_length (bm : BlockMeta) (ts : List Tx) (i : Nat) : (occsFrom bm ts i).length = ts.length := by
  induction ts generalizing i with
  | nil => rfl
  | cons t ts ih => simp [occsFrom, ih]

theorem mem_occsFrom {bm : BlockMeta} {ts : List Tx} {i : Nat} {oc : Occ} :
    oc ∈ occsFrom bm ts i ↔ ∃ m, ts[m]? = some oc.t ∧ oc.ti = i + m ∧ oc.bm = bm := by
  induction ts generalizing i with
  | nil => simp [occsFrom]
  | cons t ts ih =>
    simp only [occsFrom, List.mem_cons]
    rw [ih]
    constructor
    · rintro (h | ⟨m, h1, h2, h3⟩)
      · subst h
        exact ⟨0, rfl, rfl, rfl⟩
      · exact ⟨m + 1, by simpa using h1, by omega, h3⟩
    · rintro ⟨m, h1, h2, h3⟩
      cases m with
      | zero =>
        left
        obtain ⟨obm, oti, ot⟩ := oc
        simp only [List.getElem?_cons_zero, Option.some.injEq] at h1
        simp only at h2 h3
        subst h1 h3
        simp [h2]
      | succ m => exact Or.inr ⟨m, by simpa using h1, by omega, h3⟩

/-- every transaction of the list occurs, at its position -/
theorem occsFrom_mem_of_get {bm : BlockMeta} {ts : List Tx} {i m : Nat} {t : Tx} (h : ts[m]? = some t) :
    (⟨bm, i + m, t⟩ : Occ) ∈ occsFrom bm ts i :=
  mem_occsFrom.2 ⟨m, h, rfl, rfl⟩

theorem mem_occs {chain : List Block} {oc : Occ} : oc ∈ occs chain ↔ ∃ b ∈ chain, oc ∈ occsOfBlock b := by
  unfold occs; exact List.mem_flatMap

/-- with pairwise distinct ids, a transaction occurrence is determined by its id -/
theorem occ_eq_of_id {P : List Occ} (hn : (idsOf P).Nodup) {a b : Occ} (ha : a ∈ P) (hb : b ∈ P)
    (h : a.t.id = b.t.id) : a = b := by
  induction P with
  | nil => cases ha
  | cons x P ih =>
    unfold idsOf at hn
    simp only [List.map_cons, List.nodup_cons] at hn
    have hx : ∀ y ∈ P, y.t.id ≠ x.t.id := fun y hy he => hn.1 (he ▸ List.mem_map.2 ⟨y, hy, rfl⟩)
    rcases List.mem_cons.1 ha with rfl | ha'
    · rcases List.mem_cons.1 hb with rfl | hb'
      · rfl
      · exact absurd h.symm (hx b hb')
    · rcases List.mem_cons.1 hb with rfl | hb'
      · exact absurd h (hx a ha')
      · exact ih hn.2 ha' hb'

/-- `findSome?` when every hit gives the same answer and there is a hit -/
theorem findSome?_unique {α β : Type} {l : List α} {f : α → Option β} {x : β}
    (hex : ∃ a ∈ l, (f a).isSome = true) (huniq : ∀ a ∈ l, ∀ y, f a = some y → y = x) :
    l.findSome? f = some x := by
  cases hf : l.findSome? f with
  | none =>
    obtain ⟨a, ha, hs⟩ := hex
    rw [List.findSome?_eq_none_iff.1 hf a ha] at hs
    cases hs
  | some y =>
    obtain ⟨a, ha, hy⟩ := List.exists_of_findSome?_eq_some hf
    rw [huniq a ha y hy]

/-- `FetchTxBySha` returns THE transaction with that id when the ids on the node's chain are distinct -/
theorem fetchTx_of_occ {n : Node} (hn : (idsOf (occs n.chain)).Nodup) {oc : Occ} (h : oc ∈ occs n.chain) :
    n.fetchTx oc.t.id = some oc.t := by
  unfold Node.fetchTx
  obtain ⟨b, hb, hoc⟩ := mem_occs.1 h
  obtain ⟨m, hm, -, -⟩ := mem_occsFrom.1 hoc
  have hmem : oc.t ∈ b.txs := List.mem_of_getElem? hm
  apply findSome?_unique
  · refine ⟨b, List.mem_reverse.2 hb, ?_⟩
    rw [List.find?_isSome]
    exact ⟨oc.t, hmem, by simp⟩
  · intro b' hb' t' ht'
    have hb'' : b' ∈ n.chain := List.mem_reverse.1 hb'
    have ht'mem : t' ∈ b'.txs := List.mem_of_find?_eq_some ht'
    have hid : t'.id = oc.t.id := by simpa using List.find?_some ht'
    obtain ⟨m', hm'⟩ := List.getElem?_of_mem ht'mem
    have hoc' : (⟨⟨b'.height, b'.id⟩, 0 + m', t'⟩ : Occ) ∈ occs n.chain :=
      mem_occs.2 ⟨b', hb'', occsFrom_mem_of_get hm'⟩
    have := occ_eq_of_id hn hoc' h hid
    rw [← this]

/-- a credit under key `ck` is "a credit of transaction `ck.tx`" -/
theorem existCredit_of_get {s : Store} {ck : CredKey} (h : (AMap.get s.credits ck).isSome = true) :
    existCreditFromTx s ck.tx = true := by
  unfold AMap.get at h
  rw [Option.isSome_map, List.find?_isSome] at h
  obtain ⟨e, he, hk⟩ := h
  unfold existCreditFromTx
  rw [List.any_eq_true]
  refine ⟨e, he, ?_⟩
  have : e.1 = ck := by simpa using hk
  simp [this]

end MW.Lemmas.Ledger
