/-
  Lemmas for C14: well-formed keys, String ∘ NewKeyFromString round trip, rejection classes.
-/
import MW.Lemmas.Bip32Ser
namespace MW.Bip32L
open MW MW.GoSlice MW.Model.Bip32 MW.Spec.Bip32

/-- the six fields of a 78-byte payload come back by the slices NewKeyFromString takes -/
theorem split6 (a b c d e f : Bytes) (ha : a.length = 4) (hb : b.length = 1) (hc : c.length = 4)
    (hd : d.length = 4) (he : e.length = 32) :
    (a ++ b ++ c ++ d ++ e ++ f).take 4 = a ∧
    (((a ++ b ++ c ++ d ++ e ++ f).drop 4).take 1 = b) ∧
    (((a ++ b ++ c ++ d ++ e ++ f).drop 5).take 4 = c) ∧
    (((a ++ b ++ c ++ d ++ e ++ f).drop 9).take 4 = d) ∧
    (((a ++ b ++ c ++ d ++ e ++ f).drop 13).take 32 = e) ∧
    ((a ++ b ++ c ++ d ++ e ++ f).drop 45 = f) := by
  refine ⟨?_, ?_, ?_, ?_, ?_, ?_⟩
  · have : a ++ b ++ c ++ d ++ e ++ f = a ++ (b ++ c ++ d ++ e ++ f) := by simp
    rw [this, List.take_left' ha]
  · have : a ++ b ++ c ++ d ++ e ++ f = a ++ (b ++ (c ++ d ++ e ++ f)) := by simp
    rw [this, List.drop_left' ha, List.take_left' hb]
  · have : a ++ b ++ c ++ d ++ e ++ f = (a ++ b) ++ (c ++ (d ++ e ++ f)) := by simp
    rw [this, List.drop_left' (by simp [ha, hb]), List.take_left' hc]
  · have : a ++ b ++ c ++ d ++ e ++ f = (a ++ b ++ c) ++ (d ++ (e ++ f)) := by simp
    rw [this, List.drop_left' (by simp [ha, hb, hc]), List.take_left' hd]
  · have : a ++ b ++ c ++ d ++ e ++ f = (a ++ b ++ c ++ d) ++ (e ++ f) := by simp
    rw [this, List.drop_left' (by simp [ha, hb, hc, hd]), List.take_left' he]
  · exact List.drop_left' (by simp [ha, hb, hc, hd, he])

section
variable {C : CurveOps} {H : HashOps} {N : NetOps} (LC : CurveLaws C) (LH : HashLaws H)
include LC LH

/-- the payload of `String` for a well-formed key -/
def payloadOf (C : CurveOps) (m : XKey) : Bytes :=
  m.version ++ [UInt8.ofNat m.depth] ++ m.parentFP ++ BE.fixed 4 m.childNum ++ m.chainCode ++
    (if m.isPrivate = true then [0] ++ m.key else m.key)

omit LC LH in
theorem payloadOf_length {m : XKey} (w : WF C m) : (payloadOf C m).length = 78 := by
  unfold payloadOf
  cases hp : m.isPrivate with
  | true => simp [w.version, w.parentFP, w.chainCode, (w.priv hp).1]
  | false => simp [w.version, w.parentFP, w.chainCode, (w.pub hp).1]

omit LC LH in
theorem toString_wf {m : XKey} (w : WF C m) :
    Model.Bip32.toString C H m = Model.Base58.encode (payloadOf C m ++ (H.dsha (payloadOf C m)).take 4) := by
  unfold Model.Bip32.toString payloadOf
  cases hp : m.isPrivate with
  | true =>
    have hl := (w.priv hp).1
    simp [hl, paddedAppend, zeros]
  | false =>
    have hl := (w.pub hp).1
    simp [hl, pubKeyBytes, hp]

omit LC in
/-- parsing what `String` printed gives the key back (every well-formed key) -/
theorem string_roundtrip {m : XKey} (w : WF C m) :
    keyFromString C H (Model.Bip32.toString C H m) = .ok m := by
  rw [toString_wf w, keyFromString_eq, Base58L.encode_spec, Base58L.decode_encode_spec]
  have hpl := payloadOf_length w
  have hcs : ((H.dsha (payloadOf C m)).take 4).length = 4 := by
    simp [HashOps.dsha, LH.sha_len]
  have ht : (payloadOf C m ++ (H.dsha (payloadOf C m)).take 4).take 78 = payloadOf C m := List.take_left' hpl
  have hd : (payloadOf C m ++ (H.dsha (payloadOf C m)).take 4).drop 78 = (H.dsha (payloadOf C m)).take 4 :=
    List.drop_left' hpl
  simp only [List.length_append, hpl, hcs, ne_eq, not_true_eq_false, if_false, ht, hd, checksum]
  have hdepth : (UInt8.ofNat m.depth).toNat = m.depth := by
    rw [UInt8.toNat_ofNat']; exact Nat.mod_eq_of_lt (by simpa using w.depth)
  have hnum : BE.ofBytes (BE.fixed 4 m.childNum) = m.childNum := by
    rw [BE.ofBytes_fixed]; exact Nat.mod_eq_of_lt (by simpa using w.childNum)
  obtain ⟨s1, s2, s3, s4, s5, s6⟩ := split6 m.version [UInt8.ofNat m.depth] m.parentFP (BE.fixed 4 m.childNum) m.chainCode
    (if m.isPrivate = true then [0] ++ m.key else m.key) w.version rfl w.parentFP (by simp) w.chainCode
  have s2' : ((payloadOf C m).drop 4).headD 0 = UInt8.ofNat m.depth := by
    rw [← headD_take_one]; unfold payloadOf; rw [s2]; rfl
  unfold payloadOf at s2' ⊢
  simp only [s1, s2', s3, s4, s5, s6, hdepth, hnum]
  cases hp : m.isPrivate with
  | true =>
    obtain ⟨hl, hpos, hlt⟩ := w.priv hp
    have hr : ¬ (BE.ofBytes m.key ≥ C.n ∨ BE.ofBytes m.key = 0) := by omega
    simp only [if_true, List.singleton_append, List.headD_cons, List.drop_succ_cons, List.drop_zero, hr, if_false]
    cases m; simp_all
  | false =>
    obtain ⟨hl, hh, hps⟩ := w.pub hp
    simp only [Bool.false_eq_true, if_false, hh]
    cases hparse : C.parse m.key with
    | none => simp [hparse] at hps
    | some K => cases m; simp_all


/-! ### rejection classes of NewKeyFromString (model level, straight from the definition) -/

omit LC LH in
theorem reject_len (s : Bytes) (h : (Model.Base58.decode s).length ≠ 82) :
    keyFromString C H s = .error .len := by
  unfold keyFromString
  rw [show serializedKeyLen + 4 = 82 from rfl]
  simp [h]

omit LC LH in
theorem reject_checksum (s : Bytes) (hl : (Model.Base58.decode s).length = 82)
    (hc : (Model.Base58.decode s).drop 78 ≠ (H.dsha ((Model.Base58.decode s).take 78)).take 4) :
    keyFromString C H s = .error .checksum := by
  unfold keyFromString
  rw [show serializedKeyLen + 4 = 82 from rfl]
  simp only [hl, ne_eq, not_true_eq_false, if_false, show 82 - 4 = 78 from rfl, hc, not_false_eq_true, if_true]

omit LC LH in
/-- what acceptance implies: 82 bytes, matching checksum, and the key material class that was accepted -/
theorem accept_inv (s : Bytes) (m : XKey) (h : keyFromString C H s = .ok m) :
    ∃ d, Base58.decode? s = some d ∧ d.length = 82 ∧ d.drop 78 = checksum H (d.take 78) ∧
      d.take 78 = payloadOf C m ∧
      m.version.length = 4 ∧ m.depth < 256 ∧ m.parentFP.length = 4 ∧ m.childNum < 2 ^ 32 ∧ m.chainCode.length = 32 ∧
      (m.isPrivate = true → m.key.length = 32 ∧ 0 < BE.ofBytes m.key ∧ BE.ofBytes m.key < C.n) ∧
      (m.isPrivate = false → m.key.length = 33 ∧ m.key.headD 0 ≠ 0 ∧ (C.parse m.key).isSome = true) := by
  rw [keyFromString_eq] at h
  cases hd : Base58.decode? s with
  | none => simp [hd] at h
  | some d =>
    simp only [hd] at h
    by_cases hl : d.length = 82
    · simp only [hl, ne_eq, not_true_eq_false, if_false] at h
      by_cases hc : List.drop 78 d = checksum H (List.take 78 d)
      · simp only [hc, not_true_eq_false, if_false] at h
        refine ⟨d, rfl, hl, hc, ?_⟩
        have hp : (d.take 78).length = 78 := by simp [hl]
        -- reassemble the payload from its slices
        have hsplit : d.take 78 = (d.take 78).take 4 ++ [((d.take 78).drop 4).headD 0] ++ ((d.take 78).drop 5).take 4 ++
            ((d.take 78).drop 9).take 4 ++ ((d.take 78).drop 13).take 32 ++ (d.take 78).drop 45 := by
          generalize d.take 78 = p at hp
          have h1 : p = p.take 4 ++ p.drop 4 := (List.take_append_drop 4 p).symm
          have h2 : p.drop 4 = [(p.drop 4).headD 0] ++ p.drop 5 := by
            cases hq : p.drop 4 with
            | nil => have : (p.drop 4).length = 74 := by simp [hp]
                     rw [hq] at this; simp at this
            | cons a q =>
              have : p.drop 5 = q := by
                have := congrArg (List.drop 1) hq
                simpa [List.drop_drop] using this
              simp [this]
          have h3 : p.drop 5 = (p.drop 5).take 4 ++ p.drop 9 := by
            have := (List.take_append_drop 4 (p.drop 5)).symm
            simpa [List.drop_drop] using this
          have h4 : p.drop 9 = (p.drop 9).take 4 ++ p.drop 13 := by
            have := (List.take_append_drop 4 (p.drop 9)).symm
            simpa [List.drop_drop] using this
          have h5 : p.drop 13 = (p.drop 13).take 32 ++ p.drop 45 := by
            have := (List.take_append_drop 32 (p.drop 13)).symm
            simpa [List.drop_drop] using this
          conv => lhs; rw [h1, h2, h3, h4, h5]
          simp
        have hnumlen : (((d.take 78).drop 9).take 4).length = 4 := by simp [hl]
        have hnum : BE.fixed 4 (BE.ofBytes (((d.take 78).drop 9).take 4)) = ((d.take 78).drop 9).take 4 := by
          have := BE.fixed_ofBytes (((d.take 78).drop 9).take 4)
          rwa [hnumlen] at this
        have hnumlt : BE.ofBytes (((d.take 78).drop 9).take 4) < 2 ^ 32 := by
          have := BE.ofBytes_lt (((d.take 78).drop 9).take 4)
          rw [hnumlen] at this; simpa using this
        by_cases hz : ((d.take 78).drop 45).headD 0 = 0
        · simp only [hz, if_true] at h
          by_cases hr : BE.ofBytes (((d.take 78).drop 45).drop 1) ≥ C.n ∨ BE.ofBytes (((d.take 78).drop 45).drop 1) = 0
          · rw [if_pos hr] at h; cases h
          · simp only [hr, if_false, Except.ok.injEq] at h
            subst h
            have hkd : (d.take 78).drop 45 = [0] ++ ((d.take 78).drop 45).drop 1 := by
              cases hq : (d.take 78).drop 45 with
              | nil => have : ((d.take 78).drop 45).length = 33 := by simp [hl]
                       rw [hq] at this; simp at this
              | cons a q => rw [hq] at hz; simp at hz; simp [hz]
            refine ⟨?_, by simp [hl], BE.u8_lt _, by simp [hl], hnumlt, by simp [hl], ?_, by simp⟩
            · unfold payloadOf
              simp only [if_true, hnum, BE.ofNat_toNat]
              rw [← hkd]; exact hsplit
            · intro _
              refine ⟨by simp [hl], ?_, ?_⟩ <;> dsimp only <;> omega
        · simp only [hz, if_false] at h
          cases hparse : C.parse ((d.take 78).drop 45) with
          | none => simp [hparse] at h
          | some K =>
            simp only [hparse, Except.ok.injEq] at h
            subst h
            refine ⟨?_, by simp [hl], BE.u8_lt _, by simp [hl], hnumlt, by simp [hl], by simp, ?_⟩
            · unfold payloadOf
              simp only [Bool.false_eq_true, if_false, hnum, BE.ofNat_toNat]
              exact hsplit
            · intro _
              exact ⟨by simp [hl], hz, by simp [hparse]⟩
      · simp [hc] at h
    · simp [hl] at h

omit LC LH in
/-- a parsed key is well formed -/
theorem wf_of_parse (s : Bytes) (m : XKey) (h : keyFromString C H s = .ok m) : WF C m := by
  obtain ⟨d, _, _, _, _, h1, h2, h3, h4, h5, h6, h7⟩ := accept_inv s m h
  exact ⟨h1, h2, h3, h4, h5, h6, h7⟩

omit LC LH in
/-- acceptance ⇒ the string carries the serialisation of the returned key and its checksum:
    `String` of the parsed key re-encodes exactly the decoded bytes -/
theorem toString_of_parse (s : Bytes) (m : XKey) (h : keyFromString C H s = .ok m) :
    ∃ d, Base58.decode? s = some d ∧ Model.Bip32.toString C H m = Model.Base58.encode d := by
  obtain ⟨d, hd, hl, hc, hp, h1, h2, h3, h4, h5, h6, h7⟩ := accept_inv s m h
  refine ⟨d, hd, ?_⟩
  rw [toString_wf ⟨h1, h2, h3, h4, h5, h6, h7⟩, ← hp]
  have : (H.dsha (d.take 78)).take 4 = d.drop 78 := by rw [hc]; rfl
  rw [this, List.take_append_drop]


omit LC LH in
/-- the reverse round trip: `String` of a parsed key is the string that was parsed -/
theorem string_of_parse (s : Bytes) (m : XKey) (h : keyFromString C H s = .ok m) :
    Model.Bip32.toString C H m = s := by
  obtain ⟨d, hd, he⟩ := toString_of_parse s m h
  rw [he, Base58L.encode_spec, Base58L.encode_decode_spec s d hd]

omit LC LH in
/-- parsing is injective: two strings that parse to the same key are the same string -/
theorem parse_injective (s s' : Bytes) (m : XKey) (h : keyFromString C H s = .ok m)
    (h' : keyFromString C H s' = .ok m) : s = s' := by
  rw [← string_of_parse s m h, ← string_of_parse s' m h']

/-! ### well-formed model keys are exactly the representations of spec keys -/

omit LH in
theorem wf_of_rep {m : XKey} {x : Spec.Bip32.XKey C.Pt} (hr : Rep C m x) : WF C m := by
  obtain ⟨hv, hd, hdl, hfp, hcn, hcc, ⟨hwv, hwf, hwn, hwc⟩, hkey⟩ := hr
  refine ⟨by rw [hv]; exact hwv, by omega, by rw [hfp]; exact hwf, by omega, by rw [hcc]; exact hwc, ?_, ?_⟩
  · intro hp
    cases hxk : x.key with
    | priv k =>
      rw [hxk] at hkey
      obtain ⟨_, hkb, hkpos, hkn⟩ := hkey
      have hklt : k < 2 ^ 256 := Nat.lt_of_lt_of_le hkn LC.n_le
      rw [hkb, ofBytes_ser256 hklt]
      exact ⟨ser256_length k, hkpos, hkn⟩
    | pub K => rw [hxk] at hkey; rw [hkey.1] at hp; cases hp
  · intro hp
    cases hxk : x.key with
    | priv k => rw [hxk] at hkey; rw [hkey.1] at hp; cases hp
    | pub K =>
      rw [hxk] at hkey
      obtain ⟨_, hkb, hparse⟩ := hkey
      rw [hkb]
      exact ⟨LC.enc_len K, LC.enc_head K, by rw [hparse]; rfl⟩

omit LH in
theorem rep_of_wf {m : XKey} (w : WF C m) : ∃ x : Spec.Bip32.XKey C.Pt, Rep C m x := by
  cases hp : m.isPrivate with
  | true =>
    obtain ⟨hl, hpos, hlt⟩ := w.priv hp
    refine ⟨{ version := m.version, depth := m.depth, parentFP := m.parentFP, childNum := m.childNum,
              chain := m.chainCode, key := .priv (BE.ofBytes m.key) }, rfl, rfl, w.depth, rfl, rfl, rfl,
            ⟨w.version, w.parentFP, w.childNum, w.chainCode⟩, hp, ?_, hpos, hlt⟩
    have := BE.fixed_ofBytes m.key
    rw [hl] at this
    exact this.symm
  | false =>
    obtain ⟨hl, hh, hps⟩ := w.pub hp
    cases hparse : C.parse m.key with
    | none => simp [hparse] at hps
    | some K =>
      have henc := LC.enc_parse _ K hl hparse
      exact ⟨{ version := m.version, depth := m.depth, parentFP := m.parentFP, childNum := m.childNum,
               chain := m.chainCode, key := .pub K }, rfl, rfl, w.depth, rfl, rfl, rfl,
             ⟨w.version, w.parentFP, w.childNum, w.chainCode⟩, hp, henc.symm, by rw [henc]; exact hparse⟩

end
end MW.Bip32L
