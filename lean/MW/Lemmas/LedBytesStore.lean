/-
  LedBytes, part 3 — the byte-level wallet store, its abstraction to `MW.Model.Ledger.Store`, and the commuting
  lemma of every primitive access at store level.

  `BStore`   one byte-keyed association list per bucket of the wallet database (names: MW.Gen.Codec.bucketNames);
             MW.Lemmas.LedBytesKV shows these lists are the buckets of `MW.Spec.KV.DB` (the specification that
             `kv_refines` proves leveldb.go implements) and that `AMap.put / erase / get / scan` on them are its
             Put / Delete / Get / GetByPrefix.
  `absStore` bucket by bucket through the codecs of MW.Lemmas.LedBytesCodecs.
  `CanonS`   every bucket holds images of well-formed records only (true of the empty database; kept by every step).
-/
import MW.Lemmas.LedBytesCodecs
namespace MW.LedBytes
open MW MW.Gen.Codec MW.Model.TxmgrCodec MW.TxmgrCodec MW.Model.Ledger

structure BStore where
  c : AMap.T Bytes Bytes := []      -- bucketCredits
  u : AMap.T Bytes Bytes := []      -- bucketUnspent
  d : AMap.T Bytes Bytes := []      -- bucketDebits
  bal : AMap.T Bytes Bytes := []    -- bucketMinedBalance
  t : AMap.T Bytes Bytes := []      -- bucketTxRecords
  b : AMap.T Bytes Bytes := []      -- bucketBlocks
  sync : AMap.T Bytes Bytes := []   -- syncBucketName (heights and the key "syncedto")
  ws : AMap.T Bytes Bytes := []     -- bucketWalletStatus
  a : AMap.T Bytes Bytes := []      -- bucketAddresses
  lg : AMap.T Bytes Bytes := []     -- bucketGameHistory
  m : AMap.T Bytes Bytes := []      -- bucketUnmined
  mi : AMap.T Bytes Bytes := []     -- bucketUnminedInputs
  mc : AMap.T Bytes Bytes := []     -- bucketUnminedCredits
  LG : AMap.T Bytes Bytes := []     -- bucketUnminedGameHistory

/-- the parameters of the abstraction: names, the node's reading of block-file locations, mass-core's deserializer -/
structure Env where
  N : Names
  loc : TxLocB → BlkId × Nat
  deser : Bytes → Tx

/-- the synced-to cursor: the value under the key "syncedto" of the sync bucket -/
def syncedToOf (sync : AMap.T Bytes Bytes) : Nat := ((AMap.get sync syncedToKey).bind readSyncedTo).getD 0

/-- **the abstraction of the whole store** -/
def absStore (E : Env) (bs : BStore) : Store :=
  { credits := absBucket (cdC E.N) bs.c
    unspent := absBucket (cdU E.N) bs.u
    debits := absBucket (cdD E.N) bs.d
    balance := absBucket (cdBal E.N) bs.bal
    txrecs := absBucket (cdT E.N E.loc) bs.t
    blocks := absBucket (cdB E.N) bs.b
    sync := absBucket (cdSync E.N) (AMap.erase bs.sync syncedToKey)
    syncedTo := syncedToOf bs.sync
    status := absBucket (cdWS E.N) bs.ws
    addrs := absBucket (cdA E.N) bs.a
    game := absBucket (cdG E.N) bs.lg
    pending := absBucket (cdM E.N E.deser) bs.m
    pendIns := absBucket (cdMI E.N) bs.mi
    pendCred := absBucket (cdMC E.N) bs.mc
    pendGame := absBucket (cdUG E.N) bs.LG }

/-- every bucket holds images of well-formed records only -/
structure CanonS (E : Env) (bs : BStore) : Prop where
  c : Canon (cdC E.N) bs.c
  u : Canon (cdU E.N) bs.u
  d : Canon (cdD E.N) bs.d
  bal : Canon (cdBal E.N) bs.bal
  t : Canon (cdT E.N E.loc) bs.t
  b : Canon (cdB E.N) bs.b
  sync : Canon (cdSync E.N) (AMap.erase bs.sync syncedToKey)
  ws : Canon (cdWS E.N) bs.ws
  a : Canon (cdA E.N) bs.a
  lg : Canon (cdG E.N) bs.lg
  m : Canon (cdM E.N E.deser) bs.m
  mi : Canon (cdMI E.N) bs.mi
  mc : Canon (cdMC E.N) bs.mc
  LG : Canon (cdUG E.N) bs.LG

theorem canonS_empty (E : Env) : CanonS E {} :=
  ⟨canon_nil _, canon_nil _, canon_nil _, canon_nil _, canon_nil _, canon_nil _, canon_nil _, canon_nil _, canon_nil _,
   canon_nil _, canon_nil _, canon_nil _, canon_nil _, canon_nil _⟩

/-- the empty database is the empty ledger store -/
theorem absStore_empty (E : Env) : absStore E {} = {} := rfl

-- ------------------------------------------------------------------ the working balances (a Go map[string]Amount)

abbrev BBals := AMap.T Bytes Nat

def absBals (N : Names) (m : BBals) : Bals := m.map (fun e => (N.wal e.1, e.2))

def getBalB (m : BBals) (w : Bytes) : Nat := (AMap.get m w).getD 0

theorem absBals_get (N : Names) (m : BBals) (w : Bytes) : AMap.get (absBals N m) (N.wal w) = AMap.get m w := by
  induction m with
  | nil => rfl
  | cons e m ih =>
    simp only [absBals, List.map_cons] at ih ⊢
    rw [AMap.get_cons, AMap.get_cons, ih]
    by_cases h : e.1 = w
    · simp [h]
    · have : N.wal e.1 ≠ N.wal w := fun he => h (N.wal_inj _ _ he)
      simp [h, this]

theorem getBal_abs (N : Names) (m : BBals) (w : Bytes) : getBal (absBals N m) (N.wal w) = getBalB m w := by
  simp [getBal, getBalB, absBals_get]

theorem absBals_erase (N : Names) (m : BBals) (w : Bytes) :
    absBals N (AMap.erase m w) = AMap.erase (absBals N m) (N.wal w) := by
  induction m with
  | nil => rfl
  | cons e m ih =>
    simp only [absBals, AMap.erase, List.map_cons, List.filter_cons] at ih ⊢
    by_cases h : e.1 = w
    · simp [h, ih]
    · have : N.wal e.1 ≠ N.wal w := fun he => h (N.wal_inj _ _ he)
      simp [h, this, ih]

theorem absBals_put (N : Names) (m : BBals) (w : Bytes) (v : Nat) :
    absBals N (AMap.put m w v) = AMap.put (absBals N m) (N.wal w) v := by
  unfold AMap.put
  rw [← absBals_erase]; rfl

-- ------------------------------------------------------------------ the sync bucket and its cursor

theorem erase_put_comm (m : AMap.T Bytes Bytes) (k k' v : Bytes) (h : k ≠ k') :
    AMap.erase (AMap.put m k v) k' = AMap.put (AMap.erase m k') k v := by
  simp only [AMap.erase, AMap.put, List.filter_cons, h, decide_false, Bool.not_false, if_true, List.filter_filter]
  congr 1
  apply List.filter_congr
  intro x _
  exact Bool.and_comm _ _

theorem erase_erase_comm (m : AMap.T Bytes Bytes) (k k' : Bytes) :
    AMap.erase (AMap.erase m k) k' = AMap.erase (AMap.erase m k') k := by
  simp only [AMap.erase, List.filter_filter]
  apply List.filter_congr
  intro x _
  exact Bool.and_comm _ _

/-- putSyncedBucket at a height whose key is not the name "syncedto": the height table gains the entry, the cursor is
    untouched -/
theorem sync_put_height (E : Env) {sync : AMap.T Bytes Bytes} (hc : Canon (cdSync E.N) (AMap.erase sync syncedToKey))
    {h : Nat} {hash : Bytes} {time : Nat} (hh : h < 256 ^ 8) (hne : keySynced h ≠ syncedToKey)
    (hl : hash.length = 32) (ht : time < 256 ^ 4) :
    absBucket (cdSync E.N) (AMap.erase (AMap.put sync (keySynced h) (valueSynced hash time)) syncedToKey)
      = AMap.put (absBucket (cdSync E.N) (AMap.erase sync syncedToKey)) h (E.N.blk hash) ∧
    syncedToOf (AMap.put sync (keySynced h) (valueSynced hash time)) = syncedToOf sync ∧
    Canon (cdSync E.N) (AMap.erase (AMap.put sync (keySynced h) (valueSynced hash time)) syncedToKey) := by
  rw [erase_put_comm _ _ _ _ hne]
  refine ⟨abs_put (cdSync_laws E.N) hc (k := h) (v := (hash, time)) hh ⟨hl, ht⟩, ?_,
    canon_put hc (k := h) (v := (hash, time)) hh ⟨hl, ht⟩⟩
  unfold syncedToOf
  rw [AMap.get_put]; simp [hne]

/-- the cursor write of putSyncedTo / resetSyncedTo: only the cursor changes -/
theorem sync_put_cursor (sync : AMap.T Bytes Bytes) {h : Nat} (hh : h < 256 ^ 8) :
    AMap.erase (AMap.put sync syncedToKey (valueSyncedTo h)) syncedToKey = AMap.erase sync syncedToKey ∧
    syncedToOf (AMap.put sync syncedToKey (valueSyncedTo h)) = h := by
  constructor
  · simp only [AMap.erase, AMap.put, List.filter_cons, decide_true, Bool.not_true, Bool.false_eq_true, if_false,
      List.filter_filter, Bool.and_self]
  · unfold syncedToOf
    rw [AMap.get_put]
    simp only [if_true, Option.bind_some]
    rw [readSyncedTo_valueSyncedTo h (by simp [Fits, FitsV, wSyncedToValue, Kind.isBytes]; exact hh)]; rfl

/-- fetchSyncedBlock at a height: the byte bucket answers as the height table does -/
theorem sync_get_height (E : Env) {sync : AMap.T Bytes Bytes} (hc : Canon (cdSync E.N) (AMap.erase sync syncedToKey))
    {h : Nat} (hh : h < 256 ^ 8) (hne : keySynced h ≠ syncedToKey) :
    AMap.get (absBucket (cdSync E.N) (AMap.erase sync syncedToKey)) h
      = (AMap.get sync (keySynced h)).bind (fun v => (readSyncedValue v).map (fun x => E.N.blk x.1)) := by
  have h1 := abs_get (cdSync_laws E.N) hc (k := h) hh
  rw [AMap.get_erase] at h1
  have hne' : ¬ syncedToKey = (cdSync E.N).encK h := fun e => hne e.symm
  rw [if_neg hne'] at h1
  exact h1

/-- deleting a height (resetSyncedTo's loop) -/
theorem sync_erase_height (E : Env) {sync : AMap.T Bytes Bytes} (hc : Canon (cdSync E.N) (AMap.erase sync syncedToKey))
    {h : Nat} (hh : h < 256 ^ 8) (hne : keySynced h ≠ syncedToKey) :
    absBucket (cdSync E.N) (AMap.erase (AMap.erase sync (keySynced h)) syncedToKey)
      = AMap.erase (absBucket (cdSync E.N) (AMap.erase sync syncedToKey)) h ∧
    syncedToOf (AMap.erase sync (keySynced h)) = syncedToOf sync := by
  rw [erase_erase_comm]
  refine ⟨abs_erase (cdSync_laws E.N) hc (k := h) hh, ?_⟩
  unfold syncedToOf
  rw [AMap.get_erase]; simp [hne]

end MW.LedBytes
