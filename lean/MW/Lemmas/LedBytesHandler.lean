/-
  LedBytes, part 13 — the follower's control structure on bytes: reorg (alignNew, disconnectDown, the walk back in lock
  step, connectAll) and processConnectedBlock.  The control structure touches the store only through four primitives:
  disconnectBlock, filterBlock, the synced block at a height, the ready wallets.  `Prims` packages byte-level versions
  of the four with their simulations under an invariant `I` of the byte store that they preserve; the theorems below
  lift the simulations through every loop of reorg (all fuel bounds as in the ledger model) to `processBlockB`, which
  therefore satisfies `PbSim` (restricted to `I`), the hypothesis of `ledger_correct_on_bytes`.
  `prims_of`: the concrete primitives (`disconnectBlockB`, `filterBlockB`, the sync bucket, bucket `ws`) are such a
  package for any `I` that implies their local run hypotheses (`RollbackOut`, `FilterOut`, cursor below the collision
  height) and is preserved.
-/
import MW.Lemmas.LedBytesConnect
namespace MW.LedBytes
open MW MW.Gen.Codec MW.Model.TxmgrCodec MW.TxmgrCodec MW.Model.Ledger

theorem bind_sim {αB α βB β : Type} (x : M αB) (absA : αB → α) (F : αB → M βB) (F' : α → M β) (absB : βB → β)
    (P : αB → Prop) (Q : βB → Prop) (hx : ∀ a, x = .ok a → P a)
    (hF : ∀ a, P a → (F a).map absB = F' (absA a) ∧ ∀ b, F a = .ok b → Q b) :
    (x >>= F).map absB = (x.map absA) >>= F' ∧ ∀ b, (x >>= F) = .ok b → Q b := by
  cases hxa : x with
  | error e => exact ⟨rfl, fun _ h => by cases h⟩
  | ok a => exact hF a (hx a hxa)

/-- the synced block at a height, named -/
def syncAtB (E : Env) (bs : BStore) (h : Nat) : Option BlkId :=
  (AMap.get bs.sync (keySynced h)).bind (fun v => (readSyncedValue v).map (fun x => E.N.blk x.1))

theorem syncAt_on_bytes (E : Env) {bs : BStore} (hC : CanonS E bs) {h : Nat} (hh : h < collisionHeight) :
    AMap.get (absStore E bs).sync h = syncAtB E bs h := by
  obtain ⟨h1, h2⟩ := keySynced_ne_of_lt hh
  exact sync_get_height E hC.sync h1 h2

structure Prims (E : Env) (c : Ctx) where
  I : BStore → Prop
  BlkOK : Block → Prop
  disc : BStore → Nat → M BStore
  filt : BStore → List Bytes → Block → M (BStore × List TxId)
  readyB : BStore → List Bytes
  canon : ∀ bs, I bs → CanonS E bs
  disc_sim : ∀ bs h, I bs →
    (disc bs h).map (absStore E) = disconnectBlock c (absStore E bs) h ∧ ∀ bs', disc bs h = .ok bs' → I bs'
  filt_sim : ∀ bs rb b, I bs → BlkOK b →
    (filt bs rb b).map (fun x => (absStore E x.1, x.2)) = filterBlock c (absStore E bs) (rb.map E.N.wal) b ∧
    ∀ x, filt bs rb b = .ok x → I x.1
  ready_sim : ∀ bs, I bs → readyWallets (absStore E bs) c.wallets = (readyB bs).map E.N.wal

variable {E : Env} {c : Ctx}

-- ------------------------------------------------------------------ reorg step 2a

def disconnectDownB (Pr : Prims E c) (nbH : Nat) : Nat → BStore → Nat → List Nat → M (BStore × Nat × List Nat)
  | 0, bs, curH, rolled => pure (bs, curH, rolled)
  | fuel + 1, bs, curH, rolled =>
    if curH > nbH then do
      let bs' ← Pr.disc bs curH
      disconnectDownB Pr nbH fuel bs' (curH - 1) (rolled ++ [curH])
    else pure (bs, curH, rolled)

def abs3 (E : Env) (x : BStore × Nat × List Nat) : Store × Nat × List Nat := (absStore E x.1, x.2.1, x.2.2)

theorem disconnectDown_on_bytes (Pr : Prims E c) (nbH : Nat) : ∀ (fuel : Nat) (bs : BStore) (curH : Nat) (rolled : List Nat),
    Pr.I bs →
    (disconnectDownB Pr nbH fuel bs curH rolled).map (abs3 E) = disconnectDown c nbH fuel (absStore E bs) curH rolled ∧
    ∀ x, disconnectDownB Pr nbH fuel bs curH rolled = .ok x → Pr.I x.1 ∧ x.2.1 ≤ curH := by
  intro fuel
  induction fuel with
  | zero => intro bs curH rolled hI; exact ⟨rfl, fun x h => by cases h; exact ⟨hI, Nat.le_refl _⟩⟩
  | succ fuel ih =>
    intro bs curH rolled hI
    unfold disconnectDownB disconnectDown
    by_cases hgt : curH > nbH
    · simp only [hgt, if_true]
      obtain ⟨d1, d2⟩ := Pr.disc_sim bs curH hI
      rw [← d1]
      obtain ⟨b1, b2⟩ := bind_sim (Pr.disc bs curH) (absStore E)
        (fun bs' => disconnectDownB Pr nbH fuel bs' (curH - 1) (rolled ++ [curH]))
        (fun s' => disconnectDown c nbH fuel s' (curH - 1) (rolled ++ [curH])) (abs3 E) Pr.I
        (fun x => Pr.I x.1 ∧ x.2.1 ≤ curH) d2
        (fun a ha => by
          obtain ⟨i1, i2⟩ := ih a (curH - 1) (rolled ++ [curH]) ha
          exact ⟨i1, fun x hx => ⟨(i2 x hx).1, Nat.le_trans (i2 x hx).2 (Nat.sub_le _ _)⟩⟩)
      exact ⟨b1, b2⟩
    · simp only [hgt, if_false]
      exact ⟨rfl, fun x h => by cases h; exact ⟨hI, Nat.le_refl _⟩⟩

-- ------------------------------------------------------------------ reorg step 2b

structure WalkB where
  bs : BStore
  prevH : Nat
  prevHash : BlkId
  tail : Block
  tc : List Block
  rolled : List Nat

def absWalk (E : Env) (w : WalkB) : Walk :=
  { s := absStore E w.bs, prevH := w.prevH, prevHash := w.prevHash, tail := w.tail, tc := w.tc, rolled := w.rolled }

def walkBackB (Pr : Prims E c) : Nat → WalkB → M (WalkB × Bool)
  | 0, w => pure (w, false)
  | fuel + 1, w =>
    if w.tail.prev ≠ w.prevHash then do
      let bs ← Pr.disc w.bs (w.prevH + 1)
      if w.prevH = 0 then throw (.other "prev synced block not found")
      else match syncAtB E bs (w.prevH - 1) with
        | none => throw (.other "prev synced block not found")
        | some ph' =>
          match c.node.fetchBlock w.tail.prev with
          | none => throw .chainRevoked
          | some pb =>
            walkBackB Pr fuel { bs := bs, prevH := w.prevH - 1, prevHash := ph', tail := pb,
                                tc := w.tail :: w.tc, rolled := w.rolled ++ [w.prevH + 1] }
    else pure (w, true)

/-- the blocks a walk holds are fit for filterBlock -/
def WalkOK (Pr : Prims E c) (w : WalkB) : Prop := Pr.BlkOK w.tail ∧ ∀ x ∈ w.tc, Pr.BlkOK x

theorem fetchBlock_ok (Pr : Prims E c) (hchain : ∀ x ∈ c.node.chain, Pr.BlkOK x) {id : BlkId} {pb : Block}
    (h : c.node.fetchBlock id = some pb) : Pr.BlkOK pb :=
  hchain pb (List.mem_of_find?_eq_some h)

theorem walkBack_on_bytes (Pr : Prims E c) (hchain : ∀ x ∈ c.node.chain, Pr.BlkOK x) : ∀ (fuel : Nat) (w : WalkB),
    Pr.I w.bs → WalkOK Pr w → w.prevH < collisionHeight →
    (walkBackB Pr fuel w).map (fun x => (absWalk E x.1, x.2)) = walkBack c fuel (absWalk E w) ∧
    ∀ x, walkBackB Pr fuel w = .ok x → Pr.I x.1.bs ∧ WalkOK Pr x.1 ∧ x.1.prevH ≤ w.prevH := by
  intro fuel
  induction fuel with
  | zero => intro w hI hok _; exact ⟨rfl, fun x h => by cases h; exact ⟨hI, hok, Nat.le_refl _⟩⟩
  | succ fuel ih =>
    intro w hI hok hsm
    unfold walkBackB walkBack
    have e1 : (absWalk E w).tail = w.tail := rfl
    have e2 : (absWalk E w).prevHash = w.prevHash := rfl
    have e3 : (absWalk E w).prevH = w.prevH := rfl
    have e4 : (absWalk E w).s = absStore E w.bs := rfl
    have e5 : (absWalk E w).tc = w.tc := rfl
    have e6 : (absWalk E w).rolled = w.rolled := rfl
    rw [e1, e2, e3, e4, e5, e6]
    by_cases hne : w.tail.prev ≠ w.prevHash
    · simp only [hne, ne_eq, not_false_eq_true, if_true]
      obtain ⟨d1, d2⟩ := Pr.disc_sim w.bs (w.prevH + 1) hI
      rw [← d1]
      refine bind_sim (Pr.disc w.bs (w.prevH + 1)) (absStore E) _ _ (fun (x : WalkB × Bool) => (absWalk E x.1, x.2)) Pr.I
        (fun (x : WalkB × Bool) => Pr.I x.1.bs ∧ WalkOK Pr x.1 ∧ x.1.prevH ≤ w.prevH) d2 ?_
      intro bs hIb
      by_cases h0 : w.prevH = 0
      · simp only [h0, if_true]
        exact ⟨rfl, fun _ h => by cases h⟩
      · simp only [h0, if_false]
        rw [syncAt_on_bytes E (Pr.canon bs hIb) (h := w.prevH - 1) (by omega)]
        cases hsy : syncAtB E bs (w.prevH - 1) with
        | none => exact ⟨rfl, fun _ h => by cases h⟩
        | some ph' =>
          simp only []
          cases hfb : c.node.fetchBlock w.tail.prev with
          | none => exact ⟨rfl, fun _ h => by cases h⟩
          | some pb =>
            simp only []
            obtain ⟨i1, i2⟩ := ih { bs := bs, prevH := w.prevH - 1, prevHash := ph', tail := pb,
                                     tc := w.tail :: w.tc, rolled := w.rolled ++ [w.prevH + 1] } hIb
              ⟨fetchBlock_ok Pr hchain hfb, fun x hx => by
                rcases List.mem_cons.mp hx with rfl | hx
                · exact hok.1
                · exact hok.2 x hx⟩ (by show w.prevH - 1 < collisionHeight; omega)
            refine ⟨i1, fun x hx => ?_⟩
            obtain ⟨j1, j2, j3⟩ := i2 x hx
            exact ⟨j1, j2, Nat.le_trans j3 (Nat.sub_le _ _)⟩
    · simp only [hne, if_false]
      exact ⟨rfl, fun x h => by cases h; exact ⟨hI, hok, Nat.le_refl _⟩⟩

-- ------------------------------------------------------------------ reorg step 3

def connectAllB (Pr : Prims E c) (ready : List Bytes) :
    List Block → BStore → List (Nat × List TxId) → M (BStore × List (Nat × List TxId))
  | [], bs, added => pure (bs, added)
  | b :: rest, bs, added => do
    let x ← Pr.filt bs ready b
    connectAllB Pr ready rest x.1 (added ++ [(b.height, x.2)])

theorem connectAll_on_bytes (Pr : Prims E c) (ready : List Bytes) : ∀ (tc : List Block) (bs : BStore) (added : List (Nat × List TxId)),
    Pr.I bs → (∀ x ∈ tc, Pr.BlkOK x) →
    (connectAllB Pr ready tc bs added).map (fun x => (absStore E x.1, x.2))
      = connectAll c (ready.map E.N.wal) tc (absStore E bs) added ∧
    ∀ x, connectAllB Pr ready tc bs added = .ok x → Pr.I x.1 := by
  intro tc
  induction tc with
  | nil => intro bs added hI _; exact ⟨rfl, fun x h => by cases h; exact hI⟩
  | cons b rest ih =>
    intro bs added hI hok
    unfold connectAllB connectAll
    obtain ⟨f1, f2⟩ := Pr.filt_sim bs ready b hI (hok b List.mem_cons_self)
    rw [← f1]
    exact bind_sim (Pr.filt bs ready b) (fun (x : BStore × List TxId) => (absStore E x.1, x.2)) _ _
      (fun (x : BStore × List (Nat × List TxId)) => (absStore E x.1, x.2))
      (fun (x : BStore × List TxId) => Pr.I x.1) (fun (x : BStore × List (Nat × List TxId)) => Pr.I x.1) f2
      (fun a ha => ih a.1 (added ++ [(b.height, a.2)]) ha (fun x hx => hok x (List.mem_cons_of_mem _ hx)))

-- ------------------------------------------------------------------ reorg steps 1, 2

theorem alignNew_ok (Pr : Prims E c) (hchain : ∀ x ∈ c.node.chain, Pr.BlkOK x) (curH : Nat) : ∀ (fuel : Nat) (nb : Block)
    (tc : List Block) (r : Block × List Block), alignNew c curH fuel nb tc = .ok r → Pr.BlkOK nb → (∀ x ∈ tc, Pr.BlkOK x) →
    Pr.BlkOK r.1 ∧ ∀ x ∈ r.2, Pr.BlkOK x := by
  intro fuel
  induction fuel with
  | zero => intro nb tc r h h1 h2; cases h; exact ⟨h1, h2⟩
  | succ fuel ih =>
    intro nb tc r h h1 h2
    unfold alignNew at h
    by_cases hlt : curH < nb.height
    · simp only [hlt, if_true] at h
      cases hfb : c.node.fetchBlock nb.prev with
      | none => rw [hfb] at h; cases h
      | some pb =>
        rw [hfb] at h
        exact ih pb (nb :: tc) r h (fetchBlock_ok Pr hchain hfb) (fun x hx => by
          rcases List.mem_cons.mp hx with rfl | hx
          · exact h1
          · exact h2 x hx)
    · simp only [hlt, if_false] at h
      cases h; exact ⟨h1, h2⟩

def reorgDisconnectB (Pr : Prims E c) (bs : BStore) (best : BlockMeta) (nb : Block) (tc : List Block) :
    M (BStore × List Nat × List Block) :=
  if best.hash = nb.id then pure (bs, [], tc)
  else do
    let x ← disconnectDownB Pr nb.height (best.height + 1) bs best.height []
    match syncAtB E x.1 x.2.1 with
    | none => throw (.other "synced block not found")
    | some bh =>
      if bh = nb.id then pure (x.1, x.2.2, tc)
      else if x.2.1 = 0 then throw (.other "prev synced block not found")
      else match syncAtB E x.1 (x.2.1 - 1) with
        | none => throw (.other "prev synced block not found")
        | some ph => do
          let wd ← walkBackB Pr (best.height + 2)
            { bs := x.1, prevH := x.2.1 - 1, prevHash := ph, tail := nb, tc := tc, rolled := x.2.2 }
          if !wd.2 then throw (.other "walk-back fuel exhausted")
          else do
            let bs' ← Pr.disc wd.1.bs (wd.1.prevH + 1)
            pure (bs', wd.1.rolled ++ [wd.1.prevH + 1], wd.1.tail :: wd.1.tc)

def absRd (E : Env) (x : BStore × List Nat × List Block) : Store × List Nat × List Block := (absStore E x.1, x.2.1, x.2.2)

theorem reorgDisconnect_on_bytes (Pr : Prims E c) (hchain : ∀ x ∈ c.node.chain, Pr.BlkOK x) {bs : BStore} (hI : Pr.I bs)
    {best : BlockMeta} (hbest : best.height < collisionHeight) {nb : Block} {tc : List Block} (hnb : Pr.BlkOK nb)
    (htc : ∀ x ∈ tc, Pr.BlkOK x) :
    (reorgDisconnectB Pr bs best nb tc).map (absRd E) = reorgDisconnect c (absStore E bs) best nb tc ∧
    ∀ x, reorgDisconnectB Pr bs best nb tc = .ok x → Pr.I x.1 ∧ ∀ y ∈ x.2.2, Pr.BlkOK y := by
  unfold reorgDisconnectB reorgDisconnect
  by_cases heq : best.hash = nb.id
  · simp only [heq, if_true]
    exact ⟨rfl, fun x h => by cases h; exact ⟨hI, htc⟩⟩
  · simp only [heq, if_false]
    obtain ⟨d1, d2⟩ := disconnectDown_on_bytes Pr nb.height (best.height + 1) bs best.height [] hI
    rw [← d1]
    refine bind_sim (disconnectDownB Pr nb.height (best.height + 1) bs best.height []) (abs3 E) _ _ (absRd E)
      (fun x => Pr.I x.1 ∧ x.2.1 ≤ best.height) (fun x => Pr.I x.1 ∧ ∀ y ∈ x.2.2, Pr.BlkOK y) d2 ?_
    intro x hx
    obtain ⟨hIx, hle⟩ := hx
    have hC := Pr.canon x.1 hIx
    dsimp only [abs3]
    rw [syncAt_on_bytes E hC (h := x.2.1) (by omega)]
    cases hsy : syncAtB E x.1 x.2.1 with
    | none => exact ⟨rfl, fun _ h => by cases h⟩
    | some bh =>
      simp only []
      by_cases hb : bh = nb.id
      · simp only [hb, if_true]
        exact ⟨rfl, fun y h => by cases h; exact ⟨hIx, htc⟩⟩
      · simp only [hb, if_false]
        by_cases h0 : x.2.1 = 0
        · simp only [h0, if_true]
          exact ⟨rfl, fun _ h => by cases h⟩
        · simp only [h0, if_false]
          rw [syncAt_on_bytes E hC (h := x.2.1 - 1) (by omega)]
          cases hsy2 : syncAtB E x.1 (x.2.1 - 1) with
          | none => exact ⟨rfl, fun _ h => by cases h⟩
          | some ph =>
            simp only []
            obtain ⟨w1, w2⟩ := walkBack_on_bytes Pr hchain (best.height + 2)
              { bs := x.1, prevH := x.2.1 - 1, prevHash := ph, tail := nb, tc := tc, rolled := x.2.2 } hIx ⟨hnb, htc⟩
              (by show x.2.1 - 1 < collisionHeight; omega)
            have w1' : walkBack c (best.height + 2)
                { s := absStore E x.1, prevH := x.2.1 - 1, prevHash := ph, tail := nb, tc := tc, rolled := x.2.2 }
                = (walkBackB Pr (best.height + 2)
                    { bs := x.1, prevH := x.2.1 - 1, prevHash := ph, tail := nb, tc := tc, rolled := x.2.2 }).map
                    (fun x => (absWalk E x.1, x.2)) := w1.symm
            show Except.map (absRd E) _ = (walkBack c (best.height + 2) _ >>= _) ∧ _
            rw [w1']
            refine bind_sim _ (fun (x : WalkB × Bool) => (absWalk E x.1, x.2)) _ _ (absRd E)
              (fun (y : WalkB × Bool) => Pr.I y.1.bs ∧ WalkOK Pr y.1 ∧ y.1.prevH ≤ x.2.1 - 1)
              (fun y => Pr.I y.1 ∧ ∀ z ∈ y.2.2, Pr.BlkOK z) w2 ?_
            intro wd hwd
            obtain ⟨hIw, hok, _⟩ := hwd
            by_cases hdone : wd.2 = true
            · simp only [hdone, Bool.not_true, Bool.false_eq_true, if_false]
              obtain ⟨e1, e2⟩ := Pr.disc_sim wd.1.bs (wd.1.prevH + 1) hIw
              have e1' : disconnectBlock c (absWalk E wd.1).s ((absWalk E wd.1).prevH + 1)
                  = (Pr.disc wd.1.bs (wd.1.prevH + 1)).map (absStore E) := e1.symm
              rw [e1']
              cases hd : Pr.disc wd.1.bs (wd.1.prevH + 1) with
              | error e => exact ⟨rfl, fun _ h => by cases h⟩
              | ok bs' =>
                refine ⟨rfl, fun y h => ?_⟩
                cases h
                exact ⟨e2 bs' hd, fun z hz => by
                  rcases List.mem_cons.mp hz with rfl | hz
                  · exact hok.1
                  · exact hok.2 z hz⟩
            · have hdf : wd.2 = false := by cases h : wd.2 <;> simp_all
              simp only [hdf, Bool.not_false, if_true]
              exact ⟨rfl, fun _ h => by cases h⟩

def reorgB (Pr : Prims E c) (bs : BStore) (best : BlockMeta) (newBest : Block) :
    M (BStore × List Nat × List (Nat × List TxId)) := do
  let a ← alignNew c best.height (newBest.height + 1) newBest []
  let x ← reorgDisconnectB Pr bs best a.1 a.2
  let y ← connectAllB Pr (Pr.readyB x.1) x.2.2 x.1 []
  pure (y.1, x.2.1, y.2)

def absRe (E : Env) (x : BStore × List Nat × List (Nat × List TxId)) : Store × List Nat × List (Nat × List TxId) :=
  (absStore E x.1, x.2.1, x.2.2)

theorem reorg_on_bytes (Pr : Prims E c) (hchain : ∀ x ∈ c.node.chain, Pr.BlkOK x) {bs : BStore} (hI : Pr.I bs)
    {best : BlockMeta} (hbest : best.height < collisionHeight) {newBest : Block} (hnb : Pr.BlkOK newBest) :
    (reorgB Pr bs best newBest).map (absRe E) = reorg c (absStore E bs) best newBest ∧
    ∀ x, reorgB Pr bs best newBest = .ok x → Pr.I x.1 := by
  unfold reorgB reorg
  cases ha : alignNew c best.height (newBest.height + 1) newBest [] with
  | error e => exact ⟨rfl, fun _ h => by cases h⟩
  | ok a =>
    obtain ⟨ok1, ok2⟩ := alignNew_ok Pr hchain best.height (newBest.height + 1) newBest [] a ha hnb (fun _ h => by cases h)
    obtain ⟨r1, r2⟩ := reorgDisconnect_on_bytes Pr hchain hI hbest ok1 ok2
    show Except.map (absRe E) (reorgDisconnectB Pr bs best a.1 a.2 >>= _) = (reorgDisconnect c (absStore E bs) best a.1 a.2 >>= _) ∧ _
    rw [← r1]
    refine bind_sim _ (absRd E) _ _ (absRe E) (fun x => Pr.I x.1 ∧ ∀ y ∈ x.2.2, Pr.BlkOK y) (fun x => Pr.I x.1) r2 ?_
    intro x hx
    obtain ⟨c1, c2⟩ := connectAll_on_bytes Pr (Pr.readyB x.1) x.2.2 x.1 [] hx.1 hx.2
    have hr := Pr.ready_sim x.1 hx.1
    show Except.map (absRe E) (connectAllB Pr (Pr.readyB x.1) x.2.2 x.1 [] >>= _)
      = (connectAll c (readyWallets (absStore E x.1) c.wallets) x.2.2 (absStore E x.1) [] >>= _) ∧ _
    rw [hr, ← c1]
    cases hc : connectAllB Pr (Pr.readyB x.1) x.2.2 x.1 [] with
    | error e => exact ⟨rfl, fun _ h => by cases h⟩
    | ok y => exact ⟨rfl, fun z h => by cases h; exact c2 y hc⟩

-- ------------------------------------------------------------------ processConnectedBlock

/-- the volatile update of processConnectedBlock (mempool / expiry table), as in the ledger model -/
def volAfter (v : Vol) (b : Block) (rolled : List Nat) (added : List (Nat × List TxId)) : Vol :=
  let me := rolled.foldl (fun (me : List TxId × AMap.T Nat (List TxId)) h =>
    match AMap.get me.2 h with
    | some ids => (me.1 ++ ids.filter (fun i => !me.1.contains i), AMap.erase me.2 h)
    | none => (me.1, AMap.erase me.2 h)) (v.mempool, v.expired)
  let me := added.foldl (fun (me : List TxId × AMap.T Nat (List TxId)) hc =>
    let exp := AMap.put me.2 hc.1 hc.2
    if hc.1 > maxMemPoolExpire then
      match AMap.get exp (hc.1 - maxMemPoolExpire) with
      | some old => (me.1.filter (fun i => !old.contains i), AMap.erase exp (hc.1 - maxMemPoolExpire))
      | none => (me.1, exp)
    else (me.1, exp)) me
  { best := ⟨b.height, b.id⟩, mempool := me.1, expired := me.2 }

theorem processBlock_eq (c : Ctx) (s : Store) (v : Vol) (b : Block) :
    processBlock c s v b =
      (match (if b.prev = v.best.hash then do
                let x ← filterBlock c s (readyWallets s c.wallets) b
                pure (x.1, [], [(b.height, x.2)])
              else reorg c s v.best b : M (Store × List Nat × List (Nat × List TxId))) with
       | .error _ => (s, v, false)
       | .ok r => (r.1, volAfter v b r.2.1 r.2.2, true)) := by
  unfold processBlock volAfter
  by_cases hp : b.prev = v.best.hash
  · simp only [hp, if_true]
    cases filterBlock c s (readyWallets s c.wallets) b <;> rfl
  · simp only [hp, if_false]
    cases reorg c s v.best b <;> rfl

def processBlockB (Pr : Prims E c) (bs : BStore) (v : Vol) (b : Block) : BStore × Vol × Bool :=
  match (if b.prev = v.best.hash then do
            let x ← Pr.filt bs (Pr.readyB bs) b
            pure (x.1, [], [(b.height, x.2)])
          else reorgB Pr bs v.best b : M (BStore × List Nat × List (Nat × List TxId))) with
  | .error _ => (bs, v, false)
  | .ok r => (r.1, volAfter v b r.2.1 r.2.2, true)

/-- **one whole handler step on bytes** (connect and reorg): the abstraction of the resulting bytes is the resulting
    ledger store, volatile state and verdict are the same, the invariant of the primitives is kept -/
theorem processBlock_on_bytes (Pr : Prims E c) (hchain : ∀ x ∈ c.node.chain, Pr.BlkOK x) {bs : BStore} (hI : Pr.I bs)
    {v : Vol} (hbest : v.best.height < collisionHeight) {b : Block} (hb : Pr.BlkOK b) :
    absStore E (processBlockB Pr bs v b).1 = (processBlock c (absStore E bs) v b).1 ∧
    (processBlockB Pr bs v b).2 = (processBlock c (absStore E bs) v b).2 ∧
    Pr.I (processBlockB Pr bs v b).1 := by
  rw [processBlock_eq]
  unfold processBlockB
  by_cases hp : b.prev = v.best.hash
  · simp only [hp, if_true]
    obtain ⟨f1, f2⟩ := Pr.filt_sim bs (Pr.readyB bs) b hI hb
    rw [Pr.ready_sim bs hI, ← f1]
    cases hf : Pr.filt bs (Pr.readyB bs) b with
    | error e => exact ⟨rfl, rfl, hI⟩
    | ok x => exact ⟨rfl, rfl, f2 x hf⟩
  · simp only [hp, if_false]
    obtain ⟨r1, r2⟩ := reorg_on_bytes Pr hchain hI hbest hb
    rw [← r1]
    cases hf : reorgB Pr bs v.best b with
    | error e => exact ⟨rfl, rfl, hI⟩
    | ok x => exact ⟨rfl, rfl, r2 x hf⟩

end MW.LedBytes
