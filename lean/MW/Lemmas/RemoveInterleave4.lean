/-
  C08, removal INTERLEAVED with follower events — histories whose block events are all TIP EXTENSIONS: the pending-side
  clause `PendOK` the removal steps need is no hypothesis any more (it is part of the invariant `PCI` of
  `MW.Lemmas.RemovePend`), and the start is any state reached by a C09 history.
    `DomE`                            the domain: `RemovePend.EvDom` at every event + the announced node state is
                                      well formed + a restart reports the stored best block.  Nothing at `rem`.
    `remove_interleaved_extensions`   `Phase1` + `PCI` at the start, `DomE` along the history ⟹ C01's invariant for the
                                      table without the wallet after the finishing step
    `remove_interleaved_reachable`    … where the start is a world reached by a C09 history inside its full domain,
                                      in sync with its node, on which RemoveWallet was accepted
    `evDomb` / `evDom_of_check`       `EvDom` by evaluation (for concrete histories)
-/
import MW.Lemmas.RemoveInterleave3
import MW.Lemmas.RemovePend
import MW.Lemmas.RemoveReach2
namespace MW.Lemmas.RemoveInterleave
open MW MW.Model.Ledger MW.Model.Remove MW.Spec.Chain MW.Spec.Books MW.Lemmas.Ledger MW.Lemmas.RemoveProj
  MW.Lemmas.RemoveInv MW.Lemmas.RemoveMain MW.Lemmas.RemoveGlue MW.Lemmas.RemoveFlagged MW.Lemmas.RemovePend
  MW.Lemmas.PendHist MW.Lemmas.PendHist.Cred MW.Lemmas.PendHist.CredRb

-- ------------------------------------------------------------------ the domain

/-- what is asked of an event beyond `RemovePend.EvDom`: an announced node state is a well-formed valid chain from
    the genesis block whose blocks are in the block files; a restarted follower reports the stored best block -/
def EvExtra (c : Ctx) (G : Block) (x : ISt) : IEv → Prop
  | .notify n b => NodeOK c.own G x.node.known n b
  | .restart v => v.best = x.v.best
  | _ => True

/-- the domain of `remove_interleaved_extensions`, along the history (each event at the state it happens in): every
    tip notification EXTENDS the stored chain by the announced block (`EvDom`), unconfirmed transactions are not on
    the chain.  NOTHING is asked at a removal step. -/
def DomE (limit : Nat) (c : Ctx) (w : Wid) (addrs : List Addr) (G : Block) : ISt → List IEv → Prop
  | _, [] => True
  | x, ev :: evs => (EvDom c addrs x ev ∧ EvExtra c G x ev) ∧
    match istep limit c w addrs x ev with
    | none => True
    | some x' => DomE limit c w addrs G x' evs

section
variable {limit : Nat} {c : Ctx} {w : Wid} {addrs : List Addr} {own' : Own} {G : Block}

theorem domP_of_domE : ∀ (evs : List IEv) (x : ISt), DomE limit c w addrs G x evs → DomP limit c w addrs x evs := by
  intro evs
  induction evs with
  | nil => intro _ _; trivial
  | cons ev evs ih =>
    intro x h
    obtain ⟨⟨h1, _⟩, h2⟩ := h
    refine ⟨h1, ?_⟩
    cases hs : istep limit c w addrs x ev with
    | none => trivial
    | some x1 => rw [hs] at h2; exact ih x1 h2

theorem domE_run (hS : Static c w addrs own') (ws' : List Wid) (hws : ∀ y ∈ ws', y ∈ c.wallets) :
    ∀ (evs : List IEv) (started : Bool) (x xe : ISt),
      (started = false → Phase1 c w G x) → (started = true → Phase2 c w addrs own' G x) →
      PCI c addrs x.s x.node.chain →
      DomE limit c w addrs G x evs → irun limit c w addrs x evs = some xe → xe.fin = true →
      Inv { c with own := own', wallets := ws', node := xe.node } xe.s xe.node.chain := by
  intro evs
  induction evs with
  | nil =>
    intro started x xe h1 h2 _ _ h hfin
    simp only [irun, Option.some.injEq] at h
    subst h
    exfalso
    cases started with
    | false => have := (h1 rfl).cf.fin; rw [hfin] at this; cases this
    | true =>
      obtain ⟨_, _, _, _, _, hcf⟩ := h2 rfl
      have := hcf.fin; rw [hfin] at this; cases this
  | cons ev evs ih =>
    intro started x xe h1 h2 hPCI hD h hfin
    obtain ⟨⟨hdom, hextra⟩, hnext⟩ := hD
    simp only [irun] at h
    cases hs : istep limit c w addrs x ev with
    | none => rw [hs] at h; cases h
    | some x1 =>
      rw [hs] at h hnext
      have hnext : DomE limit c w addrs G x1 evs := hnext
      have hPCI1 := pci_istep hPCI hdom hs
      cases ev with
      | rem =>
        have hcore : (x1.fin = false → Phase2 c w addrs own' G x1) ∧
            (x1.fin = true → ∀ ws', (∀ y ∈ ws', y ∈ c.wallets) →
              Inv { c with own := own', wallets := ws', node := x1.node } x1.s x1.node.chain) := by
          cases started with
          | false => exact phase1_rem hS (h1 rfl) hPCI.pendOK hs
          | true => exact phase2_rem hS (h2 rfl) hPCI.pendOK hs
        cases hf1 : x1.fin with
        | false => exact ih true x1 xe (fun h => by cases h) (fun _ => hcore.1 hf1) hPCI1 hnext h hfin
        | true =>
          have := irun_fin hf1 h
          subst this
          exact hcore.2 hf1 ws' hws
      | notify n b =>
        have hN : NodeOK c.own G x.node.known n b := hextra
        obtain ⟨hch, hprev, _⟩ := hdom
        cases started with
        | false =>
          have P1 := h1 rfl
          have hinj : IdInj (x.node.chain ++ n.chain) :=
            idInj_of_known (known := n.known) (fun y hy => by
              rcases List.mem_append.1 hy with hm | hm
              · exact hN.grows _ _ (P1.cf.known y hm)
              · exact hN.known y hm)
          have hg0 : b.height = 0 → b.prev ≠ x.v.best.hash := by
            intro h0
            exfalso
            have hbh : b.height = x.node.chain.length := by
              apply hN.good.heights; rw [hch]; simp
            have hne := P1.cf.good.nonempty
            rw [h0] at hbh
            exact hne (List.eq_nil_of_length_eq_zero hbh.symm)
          obtain ⟨x1', hs', hP'⟩ := phase1_notify (limit := limit) (addrs := addrs) hS.keys P1 hN hinj hg0
          rw [hs] at hs'
          injection hs' with hs'
          subst hs'
          exact ih false x1 xe (fun _ => hP') (fun h => by cases h) hPCI1 hnext h hfin
        | true =>
          obtain ⟨x1', hs', hP'⟩ := phase2_notify_ext (limit := limit) hS (h2 rfl) hN hch hprev
          rw [hs] at hs'
          injection hs' with hs'
          subst hs'
          exact ih true x1 xe (fun h => by cases h) (fun _ => hP') hPCI1 hnext h hfin
      | recv t =>
        cases started with
        | false => exact ih false x1 xe (fun _ => phase1_recv (h1 rfl) hs) (fun h => by cases h) hPCI1 hnext h hfin
        | true => exact ih true x1 xe (fun h => by cases h) (fun _ => phase2_recv (h2 rfl) hs) hPCI1 hnext h hfin
      | restart v =>
        have hv : v.best = x.v.best := hextra
        cases started with
        | false =>
          exact ih false x1 xe (fun _ => phase1_restart hv (h1 rfl) hs) (fun h => by cases h) hPCI1 hnext h hfin
        | true =>
          exact ih true x1 xe (fun h => by cases h) (fun _ => phase2_restart hv (h2 rfl) hs) hPCI1 hnext h hfin

/-- **removal interleaved with a follower that only sees tip extensions**: from a store that follows the chain with `w`
    flagged and satisfies the pending-side invariant `PCI`, any history inside `DomE` — new blocks on top of the stored
    chain, unconfirmed transactions, restarts, removal steps in any order — that ends with the finishing step leaves
    C01's invariant for the table without `w`, on the chain the follower was last told about.  No hypothesis about the
    pending buckets after the start. -/
theorem remove_interleaved_extensions {x0 x : ISt} {evs : List IEv} {ws' : List Wid}
    (hP : Phase1 c w G x0) (hS : Static c w addrs own') (hPCI : PCI c addrs x0.s x0.node.chain)
    (hD : DomE limit c w addrs G x0 evs) (hrun : irun limit c w addrs x0 evs = some x) (hfin : x.fin = true)
    (hws : ∀ y ∈ ws', y ∈ c.wallets) :
    Inv { c with own := own', wallets := ws', node := x.node } x.s x.node.chain :=
  domE_run hS ws' hws evs false x0 x (fun _ => hP) (fun h => by cases h) hPCI hD hrun hfin

end

-- ------------------------------------------------------------------ the start: a state reached by a C09 history

/-- **removal started in a REACHABLE state**: a C09 history inside its full domain `HOKf` from a world satisfying C09's
    invariant (distinct keys in the credit and pending-credit buckets) ends in a world `W` in sync with its node;
    RemoveWallet is accepted for a ready wallet `w`, another wallet stays ready; then any interleaved history inside
    `DomE` that ends with the finishing step leaves C01's invariant for the table without `w`.  The chain facts
    (`hgood` … `hknown`) are not part of C09's invariant and are asked for. -/
theorem remove_interleaved_reachable {rank : TxId → Nat} {E : HEnv} (evs0 : List HEv) (w0 : HW) (H0 : HInvC rank E w0)
    (hn0 : KeysNodup w0.s.credits) (hp0 : KeysNodup w0.s.pendCred)
    (hD0 : ∀ x ∈ worldsH E w0 evs0, HOKf rank E x.1 x.2)
    (W : HW) (hW : W = runH E w0 evs0) (hsync : W.node.chain = W.sp.chain)
    {G : Block} (hgood : GoodChain W.sp.chain) (hvalid : ChainValid E.own W.sp.chain) (hgen : W.sp.chain[0]? = some G)
    (hknown : ∀ y ∈ W.sp.chain, AMap.get W.node.known y.id = some y)
    {q : Nat} {ks : List Wid} {po : Bool} {w : Wid} (hgate : (removeWallet q ks po W.s w).1 = .ok)
    (hrw : (readyWallets W.s E.wallets).contains w = true)
    (hother : ∃ w', w' ≠ w ∧ (readyWallets W.s E.wallets).contains w' = true)
    {addrs : List Addr} {own' : Own} (hS : Static (E.ctx W.node) w addrs own')
    {v : Vol} (hv : v.best = tipMeta W.sp.chain)
    {limit : Nat} {evs : List IEv} {x : ISt} {ws' : List Wid}
    (hD : DomE limit (E.ctx W.node) w addrs G { s := (removeWallet q ks po W.s w).2, v := v, node := W.node } evs)
    (hrun : irun limit (E.ctx W.node) w addrs { s := (removeWallet q ks po W.s w).2, v := v, node := W.node } evs =
      some x)
    (hfin : x.fin = true) (hws : ∀ y ∈ ws', y ∈ E.wallets) :
    Inv { (E.ctx W.node) with own := own', wallets := ws', node := x.node } x.s x.node.chain := by
  have hDc := hokc_of_full evs0 w0 H0 hD0
  have HW := hinvc_run evs0 w0 H0 hDc
  have hnW : KeysNodup (runH E w0 evs0).s.credits := MW.Lemmas.LedgerWFCred.credNodup_runH E evs0 w0 hn0
  have hPCI := pci_reachable evs0 w0 H0 hp0 hDc addrs q ks po w
  rw [← hW] at HW hnW hPCI
  have hKN : KeysNodup (E.ctx W.node).own := hS.keys
  have hFJ : FJ (E.ctx W.node) w (removeWallet q ks po W.s w).2 W.sp.chain :=
    inv_flag_to_fj (c := E.ctx W.node) hKN HW.inv.inv hvalid hgood.heights hgood.nonempty hrw HW.inv.ar hother hgate
  have hcred : (removeWallet q ks po W.s w).2.credits = W.s.credits := by
    obtain ⟨st, _, _, heq⟩ := removeWallet_ok hgate
    rw [heq]
  have hP : Phase1 (E.ctx W.node) w G { s := (removeWallet q ks po W.s w).2, v := v, node := W.node } := by
    refine ⟨?_, ?_, ⟨?_, rfl, ?_, ?_, ?_, ?_⟩⟩
    · show FJ (E.ctx W.node) w (removeWallet q ks po W.s w).2 W.node.chain
      rw [hsync]; exact hFJ
    · show KeysNodup (removeWallet q ks po W.s w).2.credits
      rw [hcred]; exact hnW
    · show v.best = tipMeta W.node.chain
      rw [hsync]; exact hv
    · show GoodChain W.node.chain
      rw [hsync]; exact hgood
    · show ChainValid E.own W.node.chain
      rw [hsync]; exact hvalid
    · show W.node.chain[0]? = some G
      rw [hsync]; exact hgen
    · show ∀ y ∈ W.node.chain, AMap.get W.node.known y.id = some y
      rw [hsync]; exact hknown
  have hPCI' : PCI (E.ctx W.node) addrs (removeWallet q ks po W.s w).2 W.node.chain := by rw [hsync]; exact hPCI
  exact remove_interleaved_extensions hP hS hPCI' hD hrun hfin hws

-- ------------------------------------------------------------------ `EvDom` by evaluation

/-- the pending record under the id of `t`, if any, is `t` -/
def sameb (s : Store) (t : Tx) : Bool :=
  match AMap.get s.pending t.id with
  | none => true
  | some t0 => decide (t0 = t)

theorem same_of_check {s : Store} {t : Tx} (h : sameb s t = true) : ∀ t0, AMap.get s.pending t.id = some t0 → t0 = t := by
  intro t0 h0
  unfold sameb at h
  rw [h0] at h
  simpa using h

/-- `RemovePend.EvDom` as a check (for concrete histories) -/
def evDomb (c : Ctx) (addrs : List Addr) (x : ISt) : IEv → Bool
  | .rem => true
  | .restart _ => true
  | .recv t => !(idsOf (occs x.node.chain)).contains t.id && sameb x.s t
  | .notify _ b =>
    decide (b.prev = x.v.best.hash) &&
    c.own.all (fun e => addrs.contains e.1 || (readyWallets x.s c.wallets).contains e.2.1) &&
    b.txs.all (sameb x.s) &&
    x.s.txrecs.all (fun e => decide (e.1.2 ≠ ⟨b.height, b.id⟩)) &&
    decide ((b.txs.map (·.id)).Nodup)

/-- the check gives `EvDom`; for a notification the equality of the announced chain with the stored chain plus the
    block is asked separately (blocks have no decidable equality) -/
theorem evDom_of_check {c : Ctx} {addrs : List Addr} {x : ISt} {ev : IEv} (h : evDomb c addrs x ev = true)
    (hch : ∀ n b, ev = .notify n b → n.chain = x.node.chain ++ [b]) : EvDom c addrs x ev := by
  cases ev with
  | rem => trivial
  | restart v => trivial
  | recv t =>
    simp only [evDomb, Bool.and_eq_true, Bool.not_eq_true'] at h
    refine ⟨?_, same_of_check h.2⟩
    intro hm
    rw [List.contains_iff_mem.2 hm] at h
    cases h.1
  | notify n b =>
    simp only [evDomb, Bool.and_eq_true, decide_eq_true_eq] at h
    obtain ⟨⟨⟨⟨hprev, hown⟩, hsame⟩, hrec⟩, hnd⟩ := h
    refine ⟨hch n b rfl, hprev, ?_, ?_, ?_, hnd⟩
    · intro a w' ch ha hs
      have hm := MW.Lemmas.LedgerPending.mem_of_get ha
      have := List.all_eq_true.1 hown _ hm
      simp only [hs, Bool.false_or] at this
      exact this
    · intro t' ht'
      exact same_of_check (List.all_eq_true.1 hsame t' ht')
    · intro id
      cases hg : AMap.get x.s.txrecs (id, ⟨b.height, b.id⟩) with
      | none => rfl
      | some loc =>
        have hm := MW.Lemmas.LedgerPending.mem_of_get hg
        have := List.all_eq_true.1 hrec _ hm
        simp at this

end MW.Lemmas.RemoveInterleave
