/-
  LedBytes, part 5 — C01's invariant on the byte store.

  `InvB E c bs chain`: the byte store is canonical and its abstraction satisfies `MW.Lemmas.Ledger.Inv` (holds
  exactly the books of `chain`).  `inv_on_bytes`: any byte-level step that simulates a ledger-model step for which
  C01 proves `Inv` is kept (connect_sound, disconnect_sound, handler_step …) keeps `InvB`.  `invB_*`: what `InvB` says
  about the BYTES — the 8 bytes stored under a ready wallet's id are the big-endian total the chain pays it, the
  36 bytes under the 8-byte height key start with a hash named as the chain's block at that height, the "syncedto"
  cursor is the tip height.
-/
import MW.Lemmas.LedBytesSim
import MW.Lemmas.LedgerInit
namespace MW.LedBytes
open MW MW.Gen.Codec MW.Model.TxmgrCodec MW.TxmgrCodec MW.Model.Ledger MW.Spec.Chain MW.Spec.Books MW.Lemmas.Ledger

def InvB (E : Env) (c : Ctx) (bs : BStore) (chain : List Block) : Prop :=
  CanonS E bs ∧ Inv c (absStore E bs) chain

/-- **transfer**: a simulated step that keeps `Inv` on tuple maps keeps it on the byte store -/
theorem inv_on_bytes {E : Env} {c : Ctx} (fB : BStore → M BStore) (f : Store → M Store)
    (hsim : ∀ bs, CanonS E bs → (fB bs).map (absStore E) = f (absStore E bs) ∧ ∀ bs', fB bs = .ok bs' → CanonS E bs')
    {chain chain' : List Block} (hpres : ∀ s, Inv c s chain → ∃ s', f s = .ok s' ∧ Inv c s' chain')
    (bs : BStore) (h : InvB E c bs chain) : ∃ bs', fB bs = .ok bs' ∧ InvB E c bs' chain' := by
  obtain ⟨s', hs', hI'⟩ := hpres _ h.2
  obtain ⟨h1, h2⟩ := hsim bs h.1
  rw [hs'] at h1
  cases hf : fB bs with
  | error e => rw [hf] at h1; cases h1
  | ok bs' =>
    rw [hf] at h1
    have : absStore E bs' = s' := by
      have : Except.ok (absStore E bs') = (Except.ok s' : M Store) := h1
      exact Except.ok.inj this
    exact ⟨bs', rfl, h2 bs' hf, this ▸ hI'⟩

/-- the balance bytes of a ready wallet -/
theorem invB_balance {E : Env} {c : Ctx} {bs : BStore} {chain : List Block} (h : InvB E c bs chain) {w : Bytes}
    (hw : w.length = 42) (hr : (readyWallets (absStore E bs) c.wallets).contains (E.N.wal w) = true) :
    AMap.get bs.bal w = some (valueBalance (totalU (bookOf c.p c.own chain).L (E.N.wal w))) ∧
    totalU (bookOf c.p c.own chain).L (E.N.wal w) < 256 ^ 8 := by
  have hb := h.2.bal (E.N.wal w) hr
  obtain ⟨v, hv, hnm, hg⟩ := abs_get_inv (cdBal_laws E.N) h.1.bal (k := w) hw hb
  have : v = totalU (bookOf c.p c.own chain).L (E.N.wal w) := hnm
  subst this
  exact ⟨hg, hv⟩

/-- the synced-block bytes at every height of the chain whose key is not the name "syncedto" -/
theorem invB_sync {E : Env} {c : Ctx} {bs : BStore} {chain : List Block} (h : InvB E c bs chain) {ht : Nat}
    (hh : ht < 256 ^ 8) (hne : keySynced ht ≠ syncedToKey) {b : Block} (hb : chain[ht]? = some b) :
    ∃ hash time, AMap.get bs.sync (keySynced ht) = some (valueSynced hash time) ∧ hash.length = 32 ∧
      E.N.blk hash = b.id := by
  have hs := h.2.sync ht
  simp only [syncOf, hb, Option.map_some] at hs
  obtain ⟨v, hv, hnm, hg⟩ := abs_get_inv (cdSync_laws E.N) h.1.sync (k := ht) hh hs
  rw [AMap.get_erase] at hg
  have hne' : ¬ syncedToKey = (cdSync E.N).encK ht := fun e => hne e.symm
  rw [if_neg hne'] at hg
  exact ⟨v.1, v.2, hg, hv.1, hnm⟩

/-- the cursor -/
theorem invB_syncedTo {E : Env} {c : Ctx} {bs : BStore} {chain : List Block} (h : InvB E c bs chain) :
    syncedToOf bs.sync + 1 = chain.length := h.2.syncedTo

end MW.LedBytes
