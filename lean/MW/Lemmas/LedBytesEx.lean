/-
  LedBytes — concrete instances of the hypotheses of Round 6 (non-vacuity): an environment with the Latin-1 naming, a
  keystore knowing one address, byte-level records with their readings, a canonical non-empty store.
-/
import MW.Lemmas.LedBytesFinal
namespace MW.LedBytes.Ex
open MW MW.Gen.Codec MW.Model.TxmgrCodec MW.TxmgrCodec MW.Model.Ledger MW.LedBytes

def h32 (b : UInt8) : Bytes := List.replicate 32 b
def w42 : Bytes := List.replicate 42 0x61
def addrA : Bytes := [0x6d, 0x73, 0x31]

def deserB0 (ser : Bytes) : TxB := ⟨h32 7, false, [⟨h32 1, 0, 0⟩], [⟨addrA, 5, .std⟩], ser⟩
def E0 : Env := ⟨asciiNames, fun l => (stringOfAscii (h32 9), l.txStart), fun ser => (deserB0 ser).nm asciiNames⟩

/-- the keystore: address `ms1` belongs to wallet `aaaa…` -/
def own0 : Own := [(stringOfAscii addrA, (stringOfAscii w42, false))]
def ownA0 (a : Bytes) : Option (Bytes × Bool) := if a = addrA then some (w42, false) else none

theorem ownA0_sim (a : Bytes) : AMap.get own0 (E0.N.adr a) = (ownA0 a).map (fun x => (E0.N.wal x.1, x.2)) := by
  unfold own0 ownA0
  rw [AMap.get_cons]
  by_cases h : a = addrA
  · simp [h, E0, asciiNames]
  · have : stringOfAscii addrA ≠ stringOfAscii a := fun e => h (stringOfAscii_inj _ _ e).symm
    simp [h, this, E0, asciiNames, AMap.get]

def P0 : PendEnv E0 own0 where
  deserB := deserB0
  ownA := ownA0
  deser_sim _ := rfl
  deser_wf _ := ⟨by show (h32 7).length = 32; decide,
    by intro i hi; simp [deserB0] at hi; subst hi; exact ⟨by decide, by decide⟩,
    by show [(⟨h32 1, 0, 0⟩ : InB)].length ≤ 256 ^ 4; decide, by show [(⟨addrA, 5, .std⟩ : OutB)].length ≤ 256 ^ 4; decide⟩
  ownA_sim := ownA0_sim
  ownA_wf a x h := by
    unfold ownA0 at h
    by_cases ha : a = addrA
    · simp [ha] at h; rw [← h]; decide
    · simp [ha] at h

def c0 : Ctx := { p := {}, own := own0, wallets := [stringOfAscii w42], node := {} }

def R0 : RbEnv E0 c0 where
  fetch _ := none
  ownA := ownA0
  ownS := ownA0
  fetch_sim _ := rfl
  fetch_wf _ _ h := by cases h
  ownA_sim := ownA0_sim
  ownS_sim := ownA0_sim
  ownA_wf a x h := P0.ownA_wf a x h
  ownS_wf a x h := P0.ownA_wf a x h

/-- a byte-level record of a mined transaction paying 1000 to the wallet's address, and its reading -/
def relB0 : RelB := ⟨0, w42, false, 1000, .std, addrA, h32 3⟩
def trB0 : TxRecB := ⟨h32 7, false, [⟨h32 1, 0⟩], 1, [], [relB0], ⟨1, 2, 3, 4, 5⟩⟩
def tr0 : TxRec :=
  { tx := ⟨stringOfAscii (h32 7), false, [⟨stringOfAscii (h32 1), 0, 0⟩], [⟨stringOfAscii addrA, 1000, .std⟩]⟩,
    relOut := [relB0.nm asciiNames], loc := (stringOfAscii (h32 9), 4) }

/-- with a naming of script hashes that reads the hash of `ms1` as the address (`RelB.WF.name`) -/
def N1 : Names := { asciiNames with sh := fun h => if h = h32 3 then stringOfAscii addrA else stringOfAscii h }
def E1 : Env := ⟨N1, E0.loc, E0.deser⟩

theorem trB0_wf : trB0.WF E1 where
  hash := by decide
  ins := by intro o ho; simp [trB0] at ho; subst ho; decide
  nOuts := by decide
  relIn := by intro r hr; cases hr
  relOut := by
    intro r hr; simp [trB0] at hr; subst hr
    exact ⟨by decide, by decide, by decide, by decide, by simp [E1, N1, relB0]; rfl⟩
  loc := by decide

theorem trB0_abs : trB0.Abs E1 tr0 := ⟨rfl, rfl, rfl, rfl, rfl, rfl, rfl⟩

/-- the empty database after AddRelevantTx of that record at height 5: a canonical NON-EMPTY byte store exists and the
    byte-level step succeeds -/
theorem step0_ok : ∃ sb', addRelevantMinedB {} (fun bs => bs) trB0 ⟨5, h32 9⟩ 77 ({}, []) = .ok sb' ∧ sb'.1.c.length = 1 ∧
    sb'.1.u.length = 1 ∧ sb'.1.b.length = 1 ∧ sb'.1.t.length = 1 := by
  refine ⟨_, rfl, ?_⟩
  decide

/-- the run hypotheses of Rollback / AddRelevantTx hold on the empty database -/
theorem rollbackOut_empty : RollbackOut R0 {} 1 := by
  intro acc h
  have : acc = { bs := {}, bals := fetchAllBalB [] } := by
    have e : (List.range (syncedToOf ({} : BStore).sync + 1 - 1)).map (fun k => syncedToOf ({} : BStore).sync - k) = [] := by decide
    rw [e] at h
    exact (Except.ok.inj h).symm
  subst this
  refine ⟨?_, ?_, ?_⟩
  · intro e he; simp [fetchAllBalB] at he
  · intro o ho; simp at ho
  · intro x hx; simp at hx

theorem blockRoom_empty (E : Env) (h : Nat) : BlockRoom (absStore E {}) h := by
  intro bh txs hg; cases hg

end MW.LedBytes.Ex
