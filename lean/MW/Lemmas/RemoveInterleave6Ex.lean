/-
  C08, interleaved removal — non-vacuity of `remove_interleaved_above_nopend`: the history of `RemoveInterleave5Ex` with a
  pending transaction in play,
      removal step (floor := 2) · the unconfirmed X4 is delivered (pending, one credit for W1) · B3 on top of chain A
      confirms it · DEPTH-1 REORGANISATION B3 → B3': B3 is rolled back, X4 is pending AGAIN with its credit re-created
      from the mined one · finishing removal step (X4 and W1's pending credit survive)
  is inside `DomF`; nothing is assumed about the pending buckets after the start.
-/
import MW.Lemmas.RemoveInterleave6
import MW.Lemmas.RemoveInterleave5Ex
namespace MW.Lemmas.RemoveInterleave6Ex
open MW MW.Model.Ledger MW.Model.Remove MW.Spec.Chain MW.Spec.Books MW.Lemmas.Ledger MW.Lemmas.RemoveProj
  MW.Lemmas.RemoveInv MW.Lemmas.RemoveMain MW.Lemmas.RemoveInterleave MW.Lemmas.RemoveMidCex MW.Lemmas.RemoveGlue
  MW.Lemmas.RemoveInterleave2Ex MW.Lemmas.RemoveInterleave4Ex MW.Lemmas.RemoveInterleave5Ex MW.Lemmas.RemovePend

def evsG : List IEv := [.rem, .recv x4, .notify nodeE b3, .notify nodeF b3', .rem]

theorem runG3 : (irun 1 ctx "W2" ["A2"] x0 (evsG.take 3)).map
    (fun x => (x.fin, x.v.best.hash, x.s.credits.map (·.1.tx), x.s.pending.length, x.s.pendCred.length)) =
    some (false, "B3", ["X4", "C1", "C3", "C1"], 0, 0) := by decide

/-- after the reorganisation X4 is pending again, with its credit -/
theorem runG4 : (irun 1 ctx "W2" ["A2"] x0 (evsG.take 4)).map
    (fun x => (x.fin, x.v.best.hash, x.s.credits.map (·.1.tx), x.s.pending.map (·.1), x.s.pendCred.map (·.2.sh))) =
    some (false, "B3'", ["C3'", "C1", "C1"], ["X4"], ["A1"]) := by decide

theorem runG5 : (irun 1 ctx "W2" ["A2"] x0 evsG).map
    (fun x => (x.fin, x.v.best.hash, x.s.credits.map (·.1.tx), x.s.pending.map (·.1))) =
    some (true, "B3'", ["C3'", "C1"], ["X4"]) := by decide

theorem factsG :
    (irun 1 ctx "W2" ["A2"] x0 (evsG.take 1)).map (fun x => evDomb ctx ["A2"] x (.recv x4)) = some true ∧
    (irun 1 ctx "W2" ["A2"] x0 (evsG.take 2)).map (fun x => sameAllb x nodeE) = some true ∧
    (irun 1 ctx "W2" ["A2"] x0 (evsG.take 3)).map (fun x => sameAllb x nodeF) = some true := by decide

theorem domG : DomF 1 ctx "W2" ["A2"] g none x0 evsG := by
  obtain ⟨f1, f2, f3⟩ := factsG
  refine ⟨trivial, ?_⟩
  intro x1 h1
  have hn1 : x1.node = nodeA := istep_node h1
  simp only [evsG, List.take, irun, h1, Option.map_some, Option.some.injEq] at f1 f2 f3
  refine ⟨evDom_of_check f1 (fun _ _ h => by cases h), ?_⟩
  intro x2 h2
  have hn2 : x2.node = nodeA := (istep_node h2).trans hn1
  simp only [h2, Option.map_some, Option.some.injEq] at f2 f3
  refine ⟨⟨by rw [hn2]; exact nodeE_ok, by rw [hn2]; exact injAE, (fun h => by cases h), (fun h => by cases h), ?_⟩, ?_⟩
  · intro f hf
    have hf' : (2 : Nat) = f := Option.some.inj hf
    subst hf'
    exact ⟨by rw [hn2]; rfl, sameAll_of_check f2⟩
  intro x3 h3
  have hn3 : x3.node = nodeE := istep_node h3
  simp only [h3, Option.map_some, Option.some.injEq] at f3
  refine ⟨⟨by rw [hn3]; exact nodeF_ok, by rw [hn3]; exact injEF, (fun h => by cases h), (fun h => by cases h), ?_⟩, ?_⟩
  · intro f hf
    have hf' : (2 : Nat) = f := Option.some.inj hf
    subst hf'
    exact ⟨by rw [hn3]; rfl, sameAll_of_check f3⟩
  intro x4' _
  exact ⟨trivial, fun _ _ => trivial⟩

/-- **a pending transaction confirmed, rolled back (pending again) and a removal step: C01's invariant for W1 alone
    on chain A ++ [B3']** — no hypothesis about the pending buckets along the history -/
example (x : ISt) (h : irun 1 ctx "W2" ["A2"] x0 evsG = some x) :
    x.node = nodeF ∧ Inv { ctx with own := own', wallets := ["W1"], node := x.node } x.s x.node.chain := by
  have hr := runG5
  rw [h] at hr
  simp only [Option.map_some, Option.some.injEq, Prod.mk.injEq] at hr
  exact ⟨irun_node evsG x0 x h, remove_interleaved_above_nopend phase1_x0 static pci_x0 domG h hr.1 only_w1⟩

end MW.Lemmas.RemoveInterleave6Ex
