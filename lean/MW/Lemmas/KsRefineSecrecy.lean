/-
  The symbolic keystore model as an abstraction of the byte level, part 7: TRANSFER of C05's `no_clear_secret` to bytes.

  * `stored_opaque` – every byte string in a tree that represents a reachable symbolic database is the concretisation of an
    OPAQUE term of that database (so C05's Dolev–Yao statement speaks about exactly the stored bytes).
  * `frame_of` – the concretisation of an opaque term of one of the three stored layouts is a FRAME: the output of a
    primitive on non-secret material (a sealed box, a salt, a digest, a key derived from public inputs, the public value),
    or the snacl parameter block of such outputs, or the account row of two sealed boxes.  No atom's bytes enter a frame
    outside a sealed box.
  * `no_secret_bytes` – under the INDEPENDENCE assumption (`Indep`: no frame contains the byte encoding of an atomic secret
    as a substring – sealed boxes, salts, digests, public values and the record framing are independent of the secrets) no
    stored byte string contains the encoding of an atomic secret: what the harness's raw scan looks for.
  * the codec links: the snacl parameter block of `paramsT` decodes (real `Unmarshal` model) to salt, digest and cost
    parameters; the account row decodes to its two sealed boxes – the Dolev–Yao projections are the byte decoders.
-/
import MW.Lemmas.KsRefineShape
import MW.Lemmas.SecretsDY
namespace MW.KsRefine
open MW MW.Model.Secrets MW.Model.KsCodec MW.Model.KsBytes MW.KsCodecL MW.Lemmas

/-- outputs of the primitives on non-secret material -/
inductive PrimB (C : BCrypto) (pv : Bytes) : Bytes → Prop
  | box (k p : Bytes) : PrimB C pv (C.box k p)
  | salt (n : Nat) : PrimB C pv (C.salt n)
  | sha (x : Bytes) : PrimB C pv (C.sha x)
  | kdf {a b : Bytes} : PrimB C pv a → PrimB C pv b → PrimB C pv (C.kdf a b)
  | pubv : PrimB C pv pv

/-- the byte strings the keystore stores when nothing secret is outside a sealed box -/
inductive Frame (C : BCrypto) (pv : Bytes) : Bytes → Prop
  | prim {b : Bytes} : PrimB C pv b → Frame C pv b
  | params {a : Bytes} (x : Bytes) : PrimB C pv a → Frame C pv ((marshal ⟨a, C.sha x, C.N, C.R, C.P⟩).getD [])
  | row (k p k' p' : Bytes) : Frame C pv (acctRow (C.box k p) (C.box k' p'))

theorem prim_of (C : BCrypto) (pv : Bytes) : ∀ t : Term, noPair t = true → pubOk t = true → PrimB C pv (bytesOf C pv t)
  | .secret _, _, h => by simp [pubOk] at h
  | .pub _, _, _ => .pubv
  | .rnd n, _, _ => .salt n
  | .enc k t, _, _ => .box _ _
  | .kdf s p, hn, hp => by
    simp only [noPair, pubOk, Bool.and_eq_true] at hn hp
    exact .kdf (prim_of C pv s hn.1 hp.1) (prim_of C pv p hn.2 hp.2)
  | .hash t, _, _ => .sha _
  | .pair _ _, hn, _ => by simp [noPair] at hn

/-- an opaque term of a stored layout concretises to a frame -/
theorem frame_of (C : BCrypto) (pv : Bytes) (t : Term) (hs : Stored t = true) (hp : pubOk t = true) :
    Frame C pv (bytesOf C pv t) := by
  cases t with
  | pair a b =>
    cases b with
    | hash x =>
      cases a with
      | rnd n => simpa [bytesOf, pairBytes] using Frame.params (C := C) (pv := pv) (bytesOf C pv x) (PrimB.salt (C := C) (pv := pv) n)
      | _ => simp [Stored] at hs
    | enc k' t' =>
      cases a with
      | enc k t => simpa [bytesOf, pairBytes] using Frame.row (C := C) (pv := pv) _ _ _ _
      | _ => simp [Stored] at hs
    | _ => simp [Stored] at hs
  | secret s => simp [pubOk] at hp
  | pub s => exact .prim (prim_of C pv _ rfl hp)
  | rnd n => exact .prim (prim_of C pv _ rfl hp)
  | enc k t => exact .prim (.box _ _)
  | kdf s p => exact .prim (prim_of C pv _ (by simpa [Stored] using hs) hp)
  | hash x => exact .prim (.sha _)

/-- INDEPENDENCE (the explicit assumption of the byte-level statement): no frame over the public values of the
    database contains the byte encoding of an atomic secret -/
def Indep (C : BCrypto) (ρ : PubVal) : Prop := ∀ (K : Key) (bs : Bytes), Frame C (ρ K) bs → ∀ s : Sec, ¬ (C.atom s <:+: bs)

/-- every stored byte string is the concretisation of a term of the symbolic database at the abstracted key -/
theorem stored_is_conc {C : BCrypto} (L : Laws C) {ρ : PubVal} {db : DB} {t : Tree} (h : Rep C ρ db t)
    {p : BPath} {kb v : Bytes} (hv : tget t (p, kb) = some v) :
    ∃ K term, unloc C p kb = some K ∧ loc C K = (p, kb) ∧ AMap.get db K = some term ∧ v = valBytes C ρ K term := by
  have := h.1 p kb
  rw [hv] at this
  cases hu : unloc C p kb with
  | none => rw [hu] at this; cases this
  | some K =>
    rw [hu] at this
    simp only [Option.bind_some] at this
    cases hg : AMap.get db K with
    | none => rw [hg] at this; cases this
    | some term =>
      rw [hg] at this
      exact ⟨K, term, rfl, (unloc_sound C L hu).1, hg, by simpa using this⟩

/-- … of an OPAQUE term of a stored layout, in every reachable state -/
theorem stored_opaque {C : BCrypto} (L : Laws C) {ρ : PubVal} (ops : List Op) {t : Tree} (h : Rep C ρ (run {} ops).db t)
    {p : BPath} {kb v : Bytes} (hv : tget t (p, kb) = some v) :
    ∃ K term, unloc C p kb = some K ∧ AMap.get (run {} ops).db K = some term ∧ v = valBytes C ρ K term ∧
      pubOk term = true ∧ Stored term = true := by
  obtain ⟨K, term, hu, _, hg, hval⟩ := stored_is_conc L h hv
  have hm := SecretsInv.get_mem hg
  exact ⟨K, term, hu, hg, hval, (SecretsInv.run_ok ops SecretsInv.init_ok).1 _ hm, (run_st ops init_st).1 _ hm⟩

/-- NO_CLEAR_SECRET at byte level: under independence, no byte string stored under the keystore buckets contains the byte
    encoding of an atomic secret -/
theorem no_secret_bytes {C : BCrypto} (L : Laws C) {ρ : PubVal} (hind : Indep C ρ) (ops : List Op) {t : Tree}
    (h : Rep C ρ (run {} ops).db t) {p : BPath} {kb v : Bytes} (hv : tget t (p, kb) = some v) (s : Sec) :
    ¬ (C.atom s <:+: v) := by
  obtain ⟨K, term, _, _, hval, hp, hs⟩ := stored_opaque L ops h hv
  rw [hval]
  exact hind K _ (frame_of C (ρ K) term hs hp) s

-- ------------------------------------------------------------------ the Dolev–Yao projections are the byte decoders

/-- the parameter pair of a passphrase is the 88-byte snacl block: `Unmarshal` gives back salt, digest and cost parameters -/
theorem paramsT_unmarshal (C : BCrypto) (L : Laws C) (pv : Bytes) (n : Nat) (p : Pass) :
    unmarshal (bytesOf C pv (paramsT n p)) =
      .ok ⟨C.salt n, C.sha (C.kdf (C.salt n) (C.atom (.pass p))), C.N, C.R, C.P⟩ := by
  have hwf : (Params.mk (C.salt n) (C.sha (C.kdf (C.salt n) (C.atom (.pass p)))) C.N C.R C.P).wf = true := by
    have := L.cost
    simp [Params.wf, L.salt_len, L.sha_len, MW.Gen.KsCodec.snaclKeySize, this]
  obtain ⟨bs, hm, hu⟩ := unmarshal_marshal _ hwf
  simpa only [paramsT, masterKey, passT, bytesOf, pairBytes, hm, Option.getD_some] using hu

/-- the account row pair decodes (deserializeAccountRow, deserializeHDAccountKey) to the two sealed boxes -/
theorem acctRow_decodes (a b : Bytes) (h : 8 + a.length + b.length < 4294967296) :
    ∃ raw, deserializeAccountRow (acctRow a b) = .ok (MW.Gen.KsCodec.accountMASS, raw) ∧ deserializeHDAccountKey raw = .ok (a, b) := by
  obtain ⟨raw, hs, hd, hraw⟩ := deserialize_serializeHDAccountKey a b h
  have hrl : raw.length < 4294967296 := by rw [hraw]; simp; omega
  exact ⟨raw, by simpa [acctRow, hs] using deserialize_serializeAccountRow MW.Gen.KsCodec.accountMASS raw (by decide) hrl, hd⟩

end MW.KsRefine
