/-
  C08, removal INTERLEAVED with follower events — reorganisations above the floor WITHOUT the `PendOK` hypothesis at the
  removal steps: the pending-side invariant `PCI` (RemovePend) is carried through the floored reorganisation loops
  together with the two-store invariant `P2F`.
    `disconnect_pend`     the pending records after a disconnect are old ones or transactions of the block
    `blockRecOK_of_p2f` / `credValOK_of_p2f`   what `pci_disconnect` asks, from the in-progress invariant
    `P2P`, `p2p_disc`, `p2p_connect`, `p2p_connSpec`   the combined store-level invariant and its steps
    `phase2_notify_reorg_pci`, `DomF`, `remove_interleaved_above_nopend`
-/
import MW.Lemmas.RemoveInterleave5
import MW.Lemmas.RemoveInterleave4
import MW.Lemmas.RemovePend2
import MW.Lemmas.LedgerCredVal
namespace MW.Lemmas.RemoveInterleave
open MW MW.Model.Ledger MW.Model.Remove MW.Spec.Chain MW.Spec.Books MW.Lemmas.Ledger MW.Lemmas.RemoveProj
  MW.Lemmas.RemoveInv MW.Lemmas.RemoveMain MW.Lemmas.RemoveUpper MW.Lemmas.RemoveJoin MW.Lemmas.RemoveGlue
  MW.Lemmas.RemoveFlagged MW.Lemmas.ImportReorg MW.Lemmas.ImportJoin MW.Lemmas.RemoveBooks MW.Lemmas.RemoveSim
  MW.Lemmas.RemovePend MW.Lemmas.LedgerPending MW.Lemmas.PendHist MW.Lemmas.PendHist.Cred

-- ------------------------------------------------------------------ the pending records after a disconnect

/-- `pci_disconnect` together with: a pending record after the disconnect was pending before or is a transaction of
    the disconnected block (the proof of `pci_disconnect`, keeping `RB.pend`) -/
theorem pci_disconnect_pend {c : Ctx} {addrs : List Addr} {s s' : Store} {Y : List Block} {b : Block}
    (H : PCI c addrs s (Y ++ [b])) (h : disconnectBlock c s b.height = .ok s') (hsync : s.syncedTo = b.height)
    (hblk : BlockRecOK c s b) (hcv : CredValOK c addrs s b) (hids : (idsOf (occs (Y ++ [b]))).Nodup)
    (hbnd : (b.txs.map (·.id)).Nodup) :
    PCI c addrs s' Y ∧
      ∀ id t, AMap.get s'.pending id = some t → AMap.get s.pending id = some t ∨ (t ∈ b.txs ∧ t.id = id) := by
  refine ⟨pci_disconnect H h hsync hblk hcv hids hbnd, ?_⟩
  unfold disconnectBlock at h
  split at h
  · cases h
  · split at h
    · rename_i hgt; rw [hsync] at hgt; exact absurd hgt (Nat.lt_irrefl _)
    · obtain ⟨s1, h1, h2⟩ := M_bind_ok h
      cases h2
      show ∀ id t, AMap.get s1.pending id = some t → _
      unfold rollback at h1
      obtain ⟨acc, h3, h4⟩ := M_bind_ok h1
      cases h4
      have hhs : (List.range (s.syncedTo + 1 - b.height)).map (fun k => s.syncedTo - k) = [b.height] := by
        rw [hsync, Nat.add_sub_cancel_left]; rfl
      rw [hhs, List.foldlM_cons] at h3
      obtain ⟨a1, h5, h6⟩ := M_bind_ok h3
      rw [List.foldlM_nil] at h6
      cases h6
      have R := RB.blockAt hbnd hblk h5
      have hn := pn_rollbackBlockAt (acc := { s := s, bals := s.balance }) H.nodup h5
      have H0 := pci_of_rb H R hn hcv hids
      have e1 : ∀ (l : List Nat) (x : Store),
          (l.foldl (fun s h => { s with blocks := AMap.erase s.blocks h }) x).pending = x.pending ∧
          (l.foldl (fun s h => { s with blocks := AMap.erase s.blocks h }) x).pendCred = x.pendCred := by
        intro l x
        exact foldl_inv (fun (a : Store) => a.pending = x.pending ∧ a.pendCred = x.pendCred) _ _ _ ⟨rfl, rfl⟩
          (fun a y _ ha => ha)
      have H1 := H0.congr (e1 acc.heights acc.s).1 (e1 acc.heights acc.s).2
      have fr := MW.Lemmas.PendHist.Cred.purgeFold_cfr c.own acc.cb
        (acc.heights.foldl (fun s h => { s with blocks := AMap.erase s.blocks h }) acc.s) H1.keyId
      intro id t hg
      have h1' := fr.pend id t hg
      rw [(e1 acc.heights acc.s).1] at h1'
      exact R.pend id t h1'

-- ------------------------------------------------------------------ what `pci_disconnect` asks, from the invariant

section asks
variable {c : Ctx} {w : Wid} {addrs : List Addr} {own' : Own} {Y : List Block} {b : Block} {k : Nat} {g s : Store}

theorem blockRecOK_of_p2f (H : RemHyp c w addrs own' (Y ++ [b])) (hS : ScanJS c w g (Y ++ [b]) k)
    (hSub : Sub addrs g s) (hM : MidC c w addrs own' s (Y ++ [b]) (joinBookK c w own' (Y ++ [b]) k)) :
    BlockRecOK c s b := by
  have hbh : b.height = Y.length := heightsOK_mid H.heights
  have hgetb : (Y ++ [b])[b.height]? = some b := by rw [hbh]; simp
  intro bh txs hrec
  have hb := hM.blocks b.height
  rw [show AMap.get s.blocks b.height = _ from hrec] at hb
  have hid : bh = b.id := blockRecOf_id hgetb hb.symm
  refine ⟨hid, ?_⟩
  intro id _ loc hloc
  have hg : AMap.get g.txrecs (id, ⟨b.height, b.id⟩) = some loc := by
    rcases hSub.txrecs (id, ⟨b.height, b.id⟩) with h | h
    · rw [← h]; exact hloc
    · rw [hloc] at h; cases h
  obtain ⟨oc, hoc, hkey, hl⟩ := hS.txpos _ _ hg
  obtain ⟨b', hb', ht', hbm'⟩ := MW.Lemmas.Ledger.CredVal.occ_in_block hoc
  have e1 : id = oc.t.id := congrArg Prod.fst hkey
  have e2 : (⟨b.height, b.id⟩ : BlockMeta) = oc.bm := congrArg Prod.snd hkey
  have hbb : b' = b := by
    obtain ⟨i, hi⟩ := List.getElem?_of_mem hb'
    have hi' := H.heights i b' hi
    have : b'.height = b.height := by
      have := e2.trans hbm'
      injection this with h1 _
      exact h1.symm
    rw [← hi', this] at hi
    rw [hgetb] at hi
    exact (Option.some.inj hi).symm
  rw [hbb] at ht'
  refine ⟨oc.t, ht', e1.symm, ?_⟩
  rw [hl]
  exact txByFileLoc_of_occ H.known hoc

theorem credValOK_of_p2f (H : RemHyp c w addrs own' (Y ++ [b])) (hKN : KeysNodup c.own)
    (hk : k + 1 ≤ (Y ++ [b]).length)
    (hM : MidC c w addrs own' s (Y ++ [b]) (joinBookK c w own' (Y ++ [b]) k)) : CredValOK c addrs s b := by
  have HU := upperOK_join (k := k) H hKN hk
  have hV' : ChainValid own' (Y ++ [b]) := chainValid_minus H.minus H.valid
  have hn := idsNodup H.valid
  intro t ht i cr hc hsh
  -- the credit is a credit of the joined book, not paying `w`: a credit of the other wallets' books
  have hU : (joinBookK c w own' (Y ++ [b]) k).credits ⟨t.id, ⟨b.height, b.id⟩, i⟩ = some cr := by
    rcases hM.credits ⟨t.id, ⟨b.height, b.id⟩, i⟩ with h | ⟨h, _⟩
    · rw [← h]; exact hc
    · have h' : AMap.get s.credits ⟨t.id, ⟨b.height, b.id⟩, i⟩ = none := h
      rw [hc] at h'; cases h'
  have hnw : isW c.own w cr.sh = false := by rw [← H.managed]; exact hsh
  have hBr : (bookOf c.p own' (Y ++ [b])).credits ⟨t.id, ⟨b.height, b.id⟩, i⟩ = some cr :=
    (HU.minus.credits _ cr).2 ⟨hU, hnw⟩
  have hC := credInv_bookOf (p := c.p) hV'
  obtain ⟨u, hu, hck⟩ := hC.only _ cr hBr
  obtain ⟨cr', hcr', hsh'⟩ := credit_sh_of_created hC hu
  rw [← hck, hBr] at hcr'
  injection hcr' with hcr'
  obtain ⟨oc, hoc, hid, hout, hown, hblk, _⟩ := hu
  have hutx : u.tx = t.id := by have := congrArg CredKey.tx hck; exact this.symm
  have huidx : u.idx = i := by have := congrArg CredKey.idx hck; exact this.symm
  -- the occurrence is `t`
  obtain ⟨oc', hoc', hot', _⟩ := MW.Lemmas.Ledger.CredVal.occ_of_block_tx (chain := Y ++ [b]) (b := b) (by simp) ht
  have hoo : oc = oc' := occ_eq_of_id hn hoc hoc' (by rw [hid, hutx, hot'])
  have hto : oc.t = t := by rw [hoo]; exact hot'
  rw [hto, huidx] at hout
  rw [ownerOf_minus H.minus] at hown
  unfold ownerOf at hown
  by_cases hraw : u.out.cls = .raw
  · simp [hraw] at hown
  · simp only [hraw, if_false] at hown
    cases hg : AMap.get c.own u.out.addr with
    | none => rw [hg] at hown; cases hown
    | some y => exact ⟨u.out, y.1, y.2, hout, by rw [hcr', hsh'], hraw, hg⟩

end asks

-- ------------------------------------------------------------------ the combined store-level invariant

theorem idsOf_occsFrom (bm : BlockMeta) : ∀ (ts : List Tx) (i : Nat), idsOf (occsFrom bm ts i) = ts.map (·.id) := by
  intro ts
  induction ts with
  | nil => intro i; rfl
  | cons t ts ih =>
    intro i
    show (occsFrom bm (t :: ts) i).map (fun oc => oc.t.id) = _
    simp only [occsFrom, List.map_cons]
    have := ih (i + 1)
    unfold idsOf at this
    rw [this]

/-- the ids of the tip block of a chain with pairwise distinct ids are pairwise distinct -/
theorem tip_ids_nodup {Y : List Block} {b : Block} (h : (idsOf (occs (Y ++ [b]))).Nodup) : (b.txs.map (·.id)).Nodup := by
  have hsplit : idsOf (occs (Y ++ [b])) = idsOf (occs Y) ++ idsOf (occs [b]) := by
    rw [occs_append]; unfold idsOf; rw [List.map_append]
  rw [hsplit] at h
  have h2 := (List.nodup_append.1 h).2.1
  have e : idsOf (occs [b]) = b.txs.map (·.id) := by
    show idsOf (List.flatMap occsOfBlock [b]) = _
    simp only [List.flatMap_cons, List.flatMap_nil, List.append_nil]
    exact idsOf_occsFrom _ _ _
  rw [e] at h2
  exact h2

/-- **the combined invariant**: the two-store invariant with a floor, the pending-side invariant, and every pending
    record is an allowed one (`A`: pending when the notification arrived, or a transaction of the stored chain) -/
def P2P (c : Ctx) (w : Wid) (addrs : List Addr) (own' : Own) (fl : Nat) (A : TxId → Tx → Prop) (s : Store)
    (X : List Block) : Prop :=
  P2F c w addrs own' fl s X ∧ PCI c addrs s X ∧ ∀ id t, AMap.get s.pending id = some t → A id t

section loops
variable {c : Ctx} {w : Wid} {addrs : List Addr} {own' : Own} {fl : Nat} {A : TxId → Tx → Prop}

theorem p2p_disc (hS : Static c w addrs own') {Y : List Block} {b : Block} (hV : ChainValid c.own (Y ++ [b]))
    (hH : HeightsOK (Y ++ [b])) (hkn : ∀ y ∈ Y ++ [b], AMap.get c.node.known y.id = some y) {s : Store}
    (hfl : fl < Y.length) (hA : ∀ t ∈ b.txs, A t.id t) (hP : P2P c w addrs own' fl A s (Y ++ [b])) :
    ∃ s', disconnectBlock c s b.height = .ok s' ∧ P2P c w addrs own' fl A s' Y := by
  obtain ⟨hF, hPCI, hAll⟩ := hP
  obtain ⟨s', hd, hF'⟩ := p2f_disc hS hV hH hkn hfl hF
  obtain ⟨g, k, hkfl, _, hG, hSub, hM⟩ := hF
  have H : RemHyp c w addrs own' (Y ++ [b]) := ⟨hS.minus, hS.managed, hS.ne, hV, hH, hkn⟩
  have hbh : b.height = Y.length := heightsOK_mid hH
  have hkX : k + 1 ≤ (Y ++ [b]).length := by rw [List.length_append]; omega
  have hsync : s.syncedTo = b.height := by
    have := hM.syncedTo
    have e : s.syncedTo + 1 = (Y ++ [b]).length := this
    rw [List.length_append] at e
    simp only [List.length_singleton] at e
    omega
  have hids := idsNodup hV
  obtain ⟨hPCI', hpend⟩ := pci_disconnect_pend hPCI hd hsync (blockRecOK_of_p2f H hG.scan hSub hM)
    (credValOK_of_p2f H hS.keys hkX hM) hids (tip_ids_nodup hids)
  refine ⟨s', hd, hF', hPCI', ?_⟩
  intro id t hg
  rcases hpend id t hg with h | ⟨h1, h2⟩
  · exact hAll id t h
  · rw [← h2]; exact hA t h1

theorem p2p_connect (hS : Static c w addrs own') (hgN : GoodChain c.node.chain) (hvN : ChainValid c.own c.node.chain)
    (hknN : ∀ y ∈ c.node.chain, AMap.get c.node.known y.id = some y)
    (hsame : ∀ b' ∈ c.node.chain, ∀ t' ∈ b'.txs, ∀ t, A t'.id t → t = t')
    {s : Store} {h : Nat} {b : Block}
    (hb : c.node.chain[h + 1]? = some b) (hP : P2P c w addrs own' fl A s (c.node.chain.take (h + 1))) :
    ∃ s' conf, filterBlock c s (readyWallets s c.wallets) b = .ok (s', conf) ∧
      P2P c w addrs own' fl A s' (c.node.chain.take (h + 2)) ∧ s'.status = s.status := by
  obtain ⟨hF, hPCI, hAll⟩ := hP
  obtain ⟨s', conf, hfb, hF', hst⟩ := p2f_connect hS hgN hvN hknN hb hF
  obtain ⟨g, k, hkfl, hflX, hG, hSub, hM⟩ := hF
  have hKN := hS.keys
  have e : c.node.chain.take (h + 2) = c.node.chain.take (h + 1) ++ [b] := take_succ_of_get hb
  have hlt : h + 1 < c.node.chain.length := (List.getElem?_eq_some_iff.1 hb).1
  have hlen : (c.node.chain.take (h + 1)).length = h + 1 := by rw [List.length_take]; omega
  have hbh : b.height = (c.node.chain.take (h + 1)).length := by rw [hlen]; exact hgN.heights _ _ hb
  have hbmem : b ∈ c.node.chain := List.mem_of_getElem? hb
  have H : RemHyp c w addrs own' (c.node.chain.take (h + 1)) :=
    ⟨hS.minus, hS.managed, hS.ne, chainValid_take hvN _, heightsOK_take hgN.heights _,
      fun y hy => hknN y (List.mem_of_mem_take hy)⟩
  have hk : k + 1 ≤ (c.node.chain.take (h + 1)).length := by omega
  -- the hypotheses of `pci_connect`
  have hnr : (readyWallets g c.wallets).contains w = false := notReady_of_removed hG.flag rfl
  have hrdy : readyWallets s c.wallets = readyWallets g c.wallets := readyWallets_congr hSub.status c.wallets
  have hready : ∀ a w' ch, AMap.get c.own a = some (w', ch) → addrs.contains a = false →
      (readyWallets s c.wallets).contains w' = true := by
    intro a w' ch ha hs
    rw [hrdy]
    apply hG.allReady a w' ch
    have hsub := ownR_sub hKN w a
    rw [hsub, ha]
    have hww : w' ≠ w := by
      intro e'
      rw [hS.managed] at hs
      unfold isW at hs
      rw [ha] at hs
      simp [e'] at hs
    simp [Option.filter, hww]
  have hfresh : ∀ id, AMap.get s.txrecs (id, ⟨b.height, b.id⟩) = none := by
    intro id
    have hgf := (ghost_fresh H hKN hk hG.scan (bm := ⟨b.height, b.id⟩) hbh).txrecs id
    rcases hSub.txrecs (id, ⟨b.height, b.id⟩) with h1 | h1
    · rw [h1]; exact hgf
    · exact h1
  have hids : (idsOf (occs (c.node.chain.take (h + 1) ++ [b]))).Nodup := by
    rw [← e]; exact idsNodup (chainValid_take hvN _)
  have hPCI' := pci_connect hPCI hfb hready
    (fun t' ht' t hg => hsame b hbmem t' ht' t (hAll _ t hg)) hfresh (tip_ids_nodup hids)
  obtain ⟨fr, _⟩ := filterBlock_pfr c s s' (readyWallets s c.wallets) b conf hfb (fun u _ => hfresh u.id)
    (tip_ids_nodup hids) hPCI.keyId (fun t' ht' t hg => hsame b hbmem t' ht' t (hAll _ t hg))
  refine ⟨s', conf, hfb, ⟨hF', by rw [e]; exact hPCI', fun id t hg => hAll id t (fr.pend id t hg)⟩, hst⟩

theorem p2p_connSpec (hS : Static c w addrs own') (hgN : GoodChain c.node.chain) (hvN : ChainValid c.own c.node.chain)
    (hknN : ∀ y ∈ c.node.chain, AMap.get c.node.known y.id = some y)
    (hsame : ∀ b' ∈ c.node.chain, ∀ t' ∈ b'.txs, ∀ t, A t'.id t → t = t') :
    ConnSpec c (P2P c w addrs own' fl A) (fun _ => True) := by
  have key : ∀ (d : Nat) (s : Store) (f B : Nat) (ready : List Wid) (added : List (Nat × List TxId)), B - f = d → f ≤ B →
      B < c.node.chain.length → P2P c w addrs own' fl A s (c.node.chain.take (f + 1)) → ready = readyWallets s c.wallets →
      ∃ s' added', connectAll c ready ((c.node.chain.take (B + 1)).drop (f + 1)) s added = .ok (s', added') ∧
        P2P c w addrs own' fl A s' (c.node.chain.take (B + 1)) := by
    intro d
    induction d with
    | zero =>
      intro s f B ready added hd hfB _ hI _
      have : f = B := by omega
      subst this
      refine ⟨s, added, ?_, hI⟩
      rw [List.drop_take]; simp [connectAll]
    | succ d ih =>
      intro s f B ready added hd hfB hBl hI hr
      have hx : c.node.chain[f + 1]? = some c.node.chain[f + 1] := List.getElem?_eq_getElem (by omega)
      rw [seg_cons hx (by omega)]
      obtain ⟨s1, conf, hfb, hI1, hst1⟩ := p2p_connect hS hgN hvN hknN hsame hx hI
      obtain ⟨s2, added2, h2, hI2⟩ := ih s1 (f + 1) B ready (added ++ [(c.node.chain[f + 1].height, conf)]) (by omega)
        (by omega) hBl hI1 (by rw [hr]; exact (readyWallets_congr hst1 c.wallets).symm)
      refine ⟨s2, added2, ?_, hI2⟩
      unfold connectAll
      rw [hr, hfb]
      simp only [M_ok_bind]
      rw [← hr]
      exact h2
  intro s f B hfB hBl hI _
  obtain ⟨s', added', h1, h2⟩ := key (B - f) s f B _ [] rfl hfB hBl hI rfl
  exact ⟨s', added', h1, h2, trivial⟩

end loops

-- ------------------------------------------------------------------ the notification, phase 2, with `PCI`

/-- the pending records allowed during a reorganisation handled at state `x`: pending when the notification arrived,
    or a transaction of the stored chain (Rollback re-pends the transactions of the blocks it disconnects) -/
def AllowedAt (x : ISt) (id : TxId) (t : Tx) : Prop :=
  AMap.get x.s.pending id = some t ∨ ∃ b0 ∈ x.node.chain, t ∈ b0.txs ∧ t.id = id

section events
variable {limit : Nat} {c : Ctx} {w : Wid} {addrs : List Addr} {own' : Own} {G : Block} {fl : Nat} {x : ISt}

/-- `phase2_notify_reorg` carrying the pending-side invariant; `hsame`: a transaction of the announced chain whose id
    is that of an allowed pending record IS that record (ids denote transactions) -/
theorem phase2_notify_reorg_pci {n : Node} {b : Block} (hS : Static c w addrs own')
    (hP : Phase2F c w addrs own' G fl x) (hPCI : PCI c addrs x.s x.node.chain)
    (hN : NodeOK c.own G x.node.known n b) (hinj : IdInj (x.node.chain ++ n.chain))
    (hagree : x.node.chain.take (fl + 1) = n.chain.take (fl + 1))
    (hg0 : b.height = 0 → b.prev ≠ x.v.best.hash)
    (hsame : ∀ b' ∈ n.chain, ∀ t' ∈ b'.txs, ∀ t, AllowedAt x t'.id t → t = t') :
    ∃ x', istep limit c w addrs x (.notify n b) = some x' ∧ Phase2F c w addrs own' G fl x' ∧
      PCI c addrs x'.s x'.node.chain := by
  obtain ⟨g, k, hkfl, hfl, hG, hSub, hM, hcf⟩ := hP
  have hS' : Static { c with node := n } w addrs own' := ⟨hS.minus, hS.managed, hS.ne, hS.keys⟩
  have hknX : ∀ y ∈ x.node.chain, AMap.get n.known y.id = some y := fun y hy => hN.grows _ _ (hcf.known y hy)
  have hne : n.chain ≠ [] := hN.good.nonempty
  have hlen : n.chain.length ≠ 0 := fun h => hne (List.eq_nil_of_length_eq_zero h)
  have hlast : n.chain[n.chain.length - 1]? = some b := by rw [← List.getLast?_eq_getElem?]; exact hN.tip
  have hbh : b.height = n.chain.length - 1 := hN.good.heights _ _ hlast
  have hb : n.chain[b.height]? = some b := by rw [hbh]; exact hlast
  have htake : n.chain.take (b.height + 1) = n.chain := List.take_of_length_le (by omega)
  have hfln : fl < n.chain.length := by
    have := congrArg List.length hagree
    rw [List.length_take, List.length_take] at this
    omega
  have hI : P2P { c with node := n } w addrs own' fl (AllowedAt x) x.s x.node.chain :=
    ⟨⟨g, k, hkfl, hfl,
      ⟨scanJS_ctx (c := { c with node := x.node }) rfl rfl rfl hG.scan, hG.flag, hG.allReady, hG.nonempty, hG.nodup⟩,
      sub_of_subG hSub, midU_ctx (c := { c with node := x.node }) rfl rfl rfl hM⟩,
     hPCI.own rfl, fun id t hg => Or.inl hg⟩
  have HF : RIfaceF { c with node := n } x.node.chain fl (P2P { c with node := n } w addrs own' fl (AllowedAt x))
      (fun _ => True) :=
    ⟨hN.good, hcf.good, hinj, hfl, hagree,
      fun {s n' j y} hI hj hy => by
        obtain ⟨⟨_, _, _, _, _, _, hM⟩, _, _⟩ := hI
        have := hM.sync j
        rw [show AMap.get s.sync j = _ from this, syncOf, getElem?_take_of_lt hj, hy]; rfl,
      fun {s j} hflj hjl hI _ => by
        have hx : x.node.chain[j]? = some x.node.chain[j] := List.getElem?_eq_getElem hjl
        have e := take_succ_of_get hx
        have hjh : (x.node.chain[j]).height = j := hcf.good.heights _ _ hx
        rw [e] at hI
        have hV : ChainValid c.own (x.node.chain.take j ++ [x.node.chain[j]]) := by
          rw [← e]; exact chainValid_take hcf.valid _
        have hH : HeightsOK (x.node.chain.take j ++ [x.node.chain[j]]) := by
          rw [← e]; exact heightsOK_take hcf.good.heights _
        have hkn : ∀ y ∈ x.node.chain.take j ++ [x.node.chain[j]], AMap.get n.known y.id = some y := by
          rw [← e]; exact fun y hy => hknX y (List.mem_of_mem_take hy)
        have hlj : fl < (x.node.chain.take j).length := by rw [List.length_take]; omega
        obtain ⟨s', h1, h2⟩ := p2p_disc (c := { c with node := n }) hS' hV hH hkn hlj
          (fun t ht => Or.inr ⟨x.node.chain[j], List.getElem_mem hjl, ht, rfl⟩) hI
        rw [hjh] at h1
        exact ⟨s', h1, h2, trivial⟩⟩
  obtain ⟨s', v', hpb, hI', _, hv', _⟩ := processBlock_reachesIF HF
    (p2p_connSpec (c := { c with node := n }) hS' hN.good hN.valid hN.known hsame) hI hb (by omega) hcf.best
    (by rw [← hcf.best]; exact hg0) trivial
    (by
      intro j hX hj
      have hb' : n.chain[j + 1]? = some b := by rw [← hj]; exact hb
      have hI0 := hI
      rw [hX] at hI0
      obtain ⟨s', conf, hfb, hI', _⟩ :=
        p2p_connect (c := { c with node := n }) hS' hN.good hN.valid hN.known hsame hb' hI0
      exact ⟨s', conf, hfb, hI', trivial⟩)
  rw [htake] at hI' hv'
  obtain ⟨⟨g', k', hk'fl, hfl', hG', hSub', hM'⟩, hPCI', _⟩ := hI'
  refine ⟨{ x with s := s', v := v', node := n }, ?_, ⟨g', k', hk'fl, hfl',
    ⟨by show k' + 1 ≤ n.chain.length; omega, hG'.scan, hG'.flag, hG'.allReady, hG'.nonempty, hG'.nodup⟩,
    subG_of_sub hSub', hM', ⟨hv', hcf.fin, hN.good, hN.valid, hN.genesis, hN.known⟩⟩, hPCI'.own rfl⟩
  simp only [istep, hcf.fin, hpb, Bool.false_eq_true, if_false, if_true]

end events

-- ------------------------------------------------------------------ histories

/-- the domain of `remove_interleaved_above_nopend`, threaded along the history (`fl`: the floor once a removal step has
    run).  NOTHING is asked at a removal step.  Before the first removal step a tip notification must EXTEND the stored
    chain (`RemovePend.EvDom`; reorganisations before the first step are not covered here — `DomC` covers them with
    `PendOK` assumed); after it: any announced chain that agrees with the stored one up to the floor, whose
    transactions are the allowed pending records of the same id (`AllowedAt`).  A delivered transaction is not on the
    chain, and an id already pending denotes it. -/
def DomF (limit : Nat) (c : Ctx) (w : Wid) (addrs : List Addr) (G : Block) : Option Nat → ISt → List IEv → Prop
  | _, _, [] => True
  | fl, x, ev :: evs =>
    (match ev with
      | .rem => True
      | .notify n b => NodeOK c.own G x.node.known n b ∧ IdInj (x.node.chain ++ n.chain) ∧
          (b.height = 0 → b.prev ≠ x.v.best.hash) ∧
          (fl = none → EvDom c addrs x (.notify n b)) ∧
          (∀ f, fl = some f → x.node.chain.take (f + 1) = n.chain.take (f + 1) ∧
            ∀ b' ∈ n.chain, ∀ t' ∈ b'.txs, ∀ t, AllowedAt x t'.id t → t = t')
      | .recv t => EvDom c addrs x (.recv t)
      | .restart v => v.best = x.v.best) ∧
    ∀ x', istep limit c w addrs x ev = some x' → DomF limit c w addrs G (floorAfter fl x ev) x' evs

section
variable {limit : Nat} {c : Ctx} {w : Wid} {addrs : List Addr} {own' : Own} {G : Block}

theorem domF_run (hS : Static c w addrs own') (ws' : List Wid) (hws : ∀ y ∈ ws', y ∈ c.wallets) :
    ∀ (evs : List IEv) (fl : Option Nat) (x xe : ISt), PhaseF c w addrs own' G x fl →
      PCI c addrs x.s x.node.chain →
      DomF limit c w addrs G fl x evs → irun limit c w addrs x evs = some xe → xe.fin = true →
      Inv { c with own := own', wallets := ws', node := xe.node } xe.s xe.node.chain := by
  intro evs
  induction evs with
  | nil =>
    intro fl x xe hP _ _ h hfin
    simp only [irun, Option.some.injEq] at h
    subst h
    have := phaseF_fin hP
    rw [hfin] at this; cases this
  | cons ev evs ih =>
    intro fl x xe hP hPCI hD h hfin
    obtain ⟨hev, hdom⟩ := hD
    simp only [irun] at h
    cases hs : istep limit c w addrs x ev with
    | none => rw [hs] at h; cases h
    | some x1 =>
      rw [hs] at h
      have hdom' := hdom x1 hs
      cases ev with
      | rem =>
        have hPCI1 := pci_istep (ev := .rem) hPCI trivial hs
        have hnode : x1.node = x.node := istep_node hs
        have hcore : (x1.fin = false → PhaseF c w addrs own' G x1 (floorAfter fl x .rem)) ∧
            (x1.fin = true → ∀ ws', (∀ y ∈ ws', y ∈ c.wallets) →
              Inv { c with own := own', wallets := ws', node := x1.node } x1.s x1.node.chain) := by
          cases fl with
          | none =>
            obtain ⟨h1, h2⟩ := phase1_rem hS hP hPCI.pendOK hs
            refine ⟨fun hf => ?_, h2⟩
            have := phase2F_of_phase2 (h1 hf)
            rw [hnode] at this
            exact this
          | some f => exact phase2F_rem hS hP hPCI.pendOK hs
        cases hf1 : x1.fin with
        | false => exact ih _ x1 xe (hcore.1 hf1) hPCI1 hdom' h hfin
        | true =>
          have := irun_fin hf1 h
          subst this
          exact hcore.2 hf1 ws' hws
      | notify n b =>
        obtain ⟨hN, hinj, hg0, hext, hfloor⟩ := hev
        cases fl with
        | none =>
          have hPCI1 := pci_istep hPCI (hext rfl) hs
          obtain ⟨x1', hs', hP'⟩ := phase1_notify (limit := limit) (addrs := addrs) hS.keys hP hN hinj hg0
          rw [hs] at hs'
          injection hs' with hs'
          subst hs'
          exact ih none x1 xe hP' hPCI1 hdom' h hfin
        | some f =>
          obtain ⟨hagree, hsame⟩ := hfloor f rfl
          obtain ⟨x1', hs', hP', hPCI1⟩ :=
            phase2_notify_reorg_pci (limit := limit) hS hP hPCI hN hinj hagree hg0 hsame
          rw [hs] at hs'
          injection hs' with hs'
          subst hs'
          exact ih (some f) x1 xe hP' hPCI1 hdom' h hfin
      | recv t =>
        have hPCI1 := pci_istep hPCI hev hs
        cases fl with
        | none => exact ih none x1 xe (phase1_recv hP hs) hPCI1 hdom' h hfin
        | some f => exact ih (some f) x1 xe (phase2F_recv hP hs) hPCI1 hdom' h hfin
      | restart v =>
        have hPCI1 := pci_istep (ev := .restart v) hPCI trivial hs
        cases fl with
        | none => exact ih none x1 xe (phase1_restart hev hP hs) hPCI1 hdom' h hfin
        | some f => exact ih (some f) x1 xe (phase2F_restart hev hP hs) hPCI1 hdom' h hfin

/-- **removal interleaved with the follower, reorganisations above the floor, no hypothesis about the pending buckets
    after the start**: `remove_interleaved_above` without `PendOK` at the removal steps — it is part of the invariant
    `PCI`, carried through the floored reorganisation loops (`pci_disconnect`, `pci_connect`) -/
theorem remove_interleaved_above_nopend {x0 x : ISt} {evs : List IEv} {ws' : List Wid}
    (hP : Phase1 c w G x0) (hS : Static c w addrs own') (hPCI : PCI c addrs x0.s x0.node.chain)
    (hD : DomF limit c w addrs G none x0 evs) (hrun : irun limit c w addrs x0 evs = some x) (hfin : x.fin = true)
    (hws : ∀ y ∈ ws', y ∈ c.wallets) :
    Inv { c with own := own', wallets := ws', node := x.node } x.s x.node.chain :=
  domF_run hS ws' hws evs none x0 x hP hPCI hD hrun hfin

end

-- ------------------------------------------------------------------ the `AllowedAt` clause by evaluation

/-- the `hsame` clause of `DomF` as a check (for concrete histories) -/
def sameAllb (x : ISt) (n : Node) : Bool :=
  n.chain.all (fun b' => b'.txs.all (fun t' =>
    sameb x.s t' && x.node.chain.all (fun b0 => b0.txs.all (fun t => t.id != t'.id || decide (t = t')))))

theorem sameAll_of_check {x : ISt} {n : Node} (h : sameAllb x n = true) :
    ∀ b' ∈ n.chain, ∀ t' ∈ b'.txs, ∀ t, AllowedAt x t'.id t → t = t' := by
  intro b' hb' t' ht' t hA
  have h1 := List.all_eq_true.1 (List.all_eq_true.1 h b' hb') t' ht'
  rw [Bool.and_eq_true] at h1
  rcases hA with hp | ⟨b0, hb0, ht, hid⟩
  · exact same_of_check h1.1 t hp
  · have h2 := List.all_eq_true.1 (List.all_eq_true.1 h1.2 b0 hb0) t ht
    simp only [hid, bne_self_eq_false, Bool.false_or, decide_eq_true_eq] at h2
    exact h2

end MW.Lemmas.RemoveInterleave
