/-
  C08, removal INTERLEAVED with follower events — reorganisations above the floor WITHOUT the `PendOK` hypothesis at the
  removal steps: the pending-side invariant `PCI` (RemovePend) is carried through the floored reorganisation loops
  together with the two-store invariant `P2F`.
    `disconnect_pend`     the pending records after a disconnect are old ones or transactions of the block
    `blockRecOK_of_p2f` / `credValOK_of_p2f`   what `pci_disconnect` asks, from the in-progress invariant
    `P2P`, `p2p_disc`, `p2p_connect`, `p2p_connSpec`   the combined store-level invariant and its steps
    `phase2_notify_reorg_pci`, `DomF`, `remove_interleaved_above_nopend`
-/
import MW.Lemmas.RemoveInterleave5
import MW.Lemmas.RemoveInterleave4
import MW.Lemmas.RemovePend2
import MW.Lemmas.LedgerCredVal
namespace MW.Lemmas.RemoveInterleave
open MW MW.Model.Ledger MW.Model.Remove MW.Spec.Chain MW.Spec.Books MW.Lemmas.Ledger MW.Lemmas.RemoveProj
  MW.Lemmas.RemoveInv MW.Lemmas.RemoveMain MW.Lemmas.RemoveUpper MW.Lemmas.RemoveJoin MW.Lemmas.RemoveGlue
  MW.Lemmas.RemoveFlagged MW.Lemmas.ImportReorg MW.Lemmas.ImportJoin MW.Lemmas.RemoveBooks MW.Lemmas.RemoveSim
  MW.Lemmas.RemovePend MW.Lemmas.LedgerPending MW.Lemmas.PendHist MW.Lemmas.PendHist.Cred

-- ------------------------------------------------------------------ the pending records after a disconnect

/-- `pci_disconnect` together with: a pending record after the disconnect was pending before or is a transaction of
    the disconnected block (the proof of `pci_disconnect`, keeping `RB.pend`) -/
theorem pci_disconnect_pend {c : Ctx} {addrs : List Addr} {s s' : Store} {Y : List Block} {b : Block}
    (H : PCI c addrs s (Y ++ [b])) (h : disconnectBlock c s b.height = .ok s') (hsync : s.syncedTo = b.height)
    (hblk : BlockRecOK c s b) (hcv : CredValOK c addrs s b) (hids : (idsOf (occs (Y ++ [b]))).Nodup)
    (hbnd : (b.txs.map (·.id)).Nodup) :
    PCI c addrs s' Y ∧
      ∀ id t, AMap.get s'.pending id = some t → AMap.get s.pending id = some t ∨ (t ∈ b.txs ∧ t.id = id) := by
  refine ⟨pci_disconnect H h hsync hblk hcv hids hbnd, ?_⟩
  unfold disconnectBlock at h
  split at h
  · cases h
  · split at h
    · rename_i hgt; rw [hsync] at hgt; exact absurd hgt (Nat.lt_irrefl _)
    · obtain ⟨s1, h1, h2⟩ := M_bind_ok h
      cases h2
      show ∀ id t, AMap.get s1.pending id = some t → _
      unfold rollback at h1
      obtain ⟨acc, h3, h4⟩ := M_bind_ok h1
      cases h4
      have hhs : (List.range (s.syncedTo + 1 - b.height)).map (fun k => s.syncedTo - k) = [b.height] := by
        rw [hsync, Nat.add_sub_cancel_left]; rfl
      rw [hhs, List.foldlM_cons] at h3
      obtain ⟨a1, h5, h6⟩ := M_bind_ok h3
      rw [List.foldlM_nil] at h6
      cases h6
      have R := RB.blockAt hbnd hblk h5
      have hn := pn_rollbackBlockAt (acc := { s := s, bals := s.balance }) H.nodup h5
      have H0 := pci_of_rb H R hn hcv hids
      have e1 : ∀ (l : List Nat) (x : Store),
          (l.foldl (fun s h => { s with blocks := AMap.erase s.blocks h }) x).pending = x.pending ∧
          (l.foldl (fun s h => { s with blocks := AMap.erase s.blocks h }) x).pendCred = x.pendCred := by
        intro l x
        exact foldl_inv (fun (a : Store) => a.pending = x.pending ∧ a.pendCred = x.pendCred) _ _ _ ⟨rfl, rfl⟩
          (fun a y _ ha => ha)
      have H1 := H0.congr (e1 acc.heights acc.s).1 (e1 acc.heights acc.s).2
      have fr := MW.Lemmas.PendHist.Cred.purgeFold_cfr c.own acc.cb
        (acc.heights.foldl (fun s h => { s with blocks := AMap.erase s.blocks h }) acc.s) H1.keyId
      intro id t hg
      have h1' := fr.pend id t hg
      rw [(e1 acc.heights acc.s).1] at h1'
      exact R.pend id t h1'

-- ------------------------------------------------------------------ what `pci_disconnect` asks, from the invariant

section asks
variable {c : Ctx} {w : Wid} {addrs : List Addr} {own' : Own} {Y : List Block} {b : Block} {k : Nat} {g s : Store}

theorem blockRecOK_of_p2f (H : RemHyp c w addrs own' (Y ++ [b])) (hS : ScanJS c w g (Y ++ [b]) k)
    (hSub : Sub addrs g s) (hM : MidC c w addrs own' s (Y ++ [b]) (joinBookK c w own' (Y ++ [b]) k)) :
    BlockRecOK c s b := by
  have hbh : b.height = Y.length := heightsOK_mid H.heights
  have hgetb : (Y ++ [b])[b.height]? = some b := by rw [hbh]; simp
  intro bh txs hrec
  have hb := hM.blocks b.height
  rw [show AMap.get s.blocks b.height = _ from hrec] at hb
  have hid : bh = b.id := blockRecOf_id hgetb hb.symm
  refine ⟨hid, ?_⟩
  intro id _ loc hloc
  have hg : AMap.get g.txrecs (id, ⟨b.height, b.id⟩) = some loc := by
    rcases hSub.txrecs (id, ⟨b.height, b.id⟩) with h | h
    · rw [← h]; exact hloc
    · rw [hloc] at h; cases h
  obtain ⟨oc, hoc, hkey, hl⟩ := hS.txpos _ _ hg
  obtain ⟨b', hb', ht', hbm'⟩ := MW.Lemmas.Ledger.CredVal.occ_in_block hoc
  have e1 : id = oc.t.id := congrArg Prod.fst hkey
  have e2 : (⟨b.height, b.id⟩ : BlockMeta) = oc.bm := congrArg Prod.snd hkey
  have hbb : b' = b := by
    obtain ⟨i, hi⟩ := List.getElem?_of_mem hb'
    have hi' := H.heights i b' hi
    have : b'.height = b.height := by
      have := e2.trans hbm'
      injection this with h1 _
      exact h1.symm
    rw [← hi', this] at hi
    rw [hgetb] at hi
    exact (Option.some.inj hi).symm
  rw [hbb] at ht'
  refine ⟨oc.t, ht', e1.symm, ?_⟩
  rw [hl]
  exact txByFileLoc_of_occ H.known hoc

theorem credValOK_of_p2f (H : RemHyp c w addrs own' (Y ++ [b])) (hKN : KeysNodup c.own)
    (hk : k + 1 ≤ (Y ++ [b]).length)
    (hM : MidC c w addrs own' s (Y ++ [b]) (joinBookK c w own' (Y ++ [b]) k)) : CredValOK c addrs s b := by
  have HU := upperOK_join (k := k) H hKN hk
  have hV' : ChainValid own' (Y ++ [b]) := chainValid_minus H.minus H.valid
  have hn := idsNodup H.valid
  intro t ht i cr hc hsh
  -- the credit is a credit of the joined book, not paying `w`: a credit of the other wallets' books
  have hU : (joinBookK c w own' (Y ++ [b]) k).credits ⟨t.id, ⟨b.height, b.id⟩, i⟩ = some cr := by
    rcases hM.credits ⟨t.id, ⟨b.height, b.id⟩, i⟩ with h | ⟨h, _⟩
    · rw [← h]; exact hc
    · have h' : AMap.get s.credits ⟨t.id, ⟨b.height, b.id⟩, i⟩ = none := h
      rw [hc] at h'; cases h'
  have hnw : isW c.own w cr.sh = false := by rw [← H.managed]; exact hsh
  have hBr : (bookOf c.p own' (Y ++ [b])).credits ⟨t.id, ⟨b.height, b.id⟩, i⟩ = some cr :=
    (HU.minus.credits _ cr).2 ⟨hU, hnw⟩
  have hC := credInv_bookOf (p := c.p) hV'
  obtain ⟨u, hu, hck⟩ := hC.only _ cr hBr
  obtain ⟨cr', hcr', hsh'⟩ := credit_sh_of_created hC hu
  rw [← hck, hBr] at hcr'
  injection hcr' with hcr'
  obtain ⟨oc, hoc, hid, hout, hown, hblk, _⟩ := hu
  have hutx : u.tx = t.id := by have := congrArg CredKey.tx hck; exact this.symm
  have huidx : u.idx = i := by have := congrArg CredKey.idx hck; exact this.symm
  -- the occurrence is `t`
  obtain ⟨oc', hoc', hot', _⟩ := MW.Lemmas.Ledger.CredVal.occ_of_block_tx (chain := Y ++ [b]) (b := b) (by simp) ht
  have hoo : oc = oc' := occ_eq_of_id hn hoc hoc' (by rw [hid, hutx, hot'])
  have hto : oc.t = t := by rw [hoo]; exact hot'
  rw [hto, huidx] at hout
  rw [ownerOf_minus H.minus] at hown
  unfold ownerOf at hown
  by_cases hraw : u.out.cls = .raw
  · simp [hraw] at hown
  · simp only [hraw, if_false] at hown
    cases hg : AMap.get c.own u.out.addr with
    | none => rw [hg] at hown; cases hown
    | some y => exact ⟨u.out, y.1, y.2, hout, by rw [hcr', hsh'], hraw, hg⟩

end asks

end MW.Lemmas.RemoveInterleave
