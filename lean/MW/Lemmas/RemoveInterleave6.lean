/-
  C08, removal INTERLEAVED with follower events — reorganisations above the floor WITHOUT the `PendOK` hypothesis at the
  removal steps: the pending-side invariant `PCI` (RemovePend) is carried through the floored reorganisation loops
  together with the two-store invariant `P2F`.
    `disconnect_pend`     the pending records after a disconnect are old ones or transactions of the block
    `blockRecOK_of_p2f` / `credValOK_of_p2f`   what `pci_disconnect` asks, from the in-progress invariant
    `P2P`, `p2p_disc`, `p2p_connect`, `p2p_connSpec`   the combined store-level invariant and its steps
    `phase2_notify_reorg_pci`, `DomF`, `remove_interleaved_above_nopend`
-/
import MW.Lemmas.RemoveInterleave5
import MW.Lemmas.RemoveInterleave4
import MW.Lemmas.RemovePend2
import MW.Lemmas.LedgerCredVal
namespace MW.Lemmas.RemoveInterleave
open MW MW.Model.Ledger MW.Model.Remove MW.Spec.Chain MW.Spec.Books MW.Lemmas.Ledger MW.Lemmas.RemoveProj
  MW.Lemmas.RemoveInv MW.Lemmas.RemoveMain MW.Lemmas.RemoveUpper MW.Lemmas.RemoveJoin MW.Lemmas.RemoveGlue
  MW.Lemmas.RemoveFlagged MW.Lemmas.ImportReorg MW.Lemmas.ImportJoin MW.Lemmas.RemoveBooks MW.Lemmas.RemoveSim
  MW.Lemmas.RemovePend MW.Lemmas.LedgerPending MW.Lemmas.PendHist MW.Lemmas.PendHist.Cred

-- ------------------------------------------------------------------ the pending records after a disconnect

/-- `pci_disconnect` together with: a pending record after the disconnect was pending before or is a transaction of
    the disconnected block (the proof of `pci_disconnect`, keeping `RB.pend`) -/
theorem pci_disconnect_pend {c : Ctx} {addrs : List Addr} {s s' : Store} {Y : List Block} {b : Block}
    (H : PCI c addrs s (Y ++ [b])) (h : disconnectBlock c s b.height = .ok s') (hsync : s.syncedTo = b.height)
    (hblk : BlockRecOK c s b) (hcv : CredValOK c addrs s b) (hids : (idsOf (occs (Y ++ [b]))).Nodup)
    (hbnd : (b.txs.map (·.id)).Nodup) :
    PCI c addrs s' Y ∧
      ∀ id t, AMap.get s'.pending id = some t → AMap.get s.pending id = some t ∨ (t ∈ b.txs ∧ t.id = id) := by
  refine ⟨pci_disconnect H h hsync hblk hcv hids hbnd, ?_⟩
  unfold disconnectBlock at h
  split at h
  · cases h
  · split at h
    · rename_i hgt; rw [hsync] at hgt; exact absurd hgt (Nat.lt_irrefl _)
    · obtain ⟨s1, h1, h2⟩ := M_bind_ok h
      cases h2
      show ∀ id t, AMap.get s1.pending id = some t → _
      unfold rollback at h1
      obtain ⟨acc, h3, h4⟩ := M_bind_ok h1
      cases h4
      have hhs : (List.range (s.syncedTo + 1 - b.height)).map (fun k => s.syncedTo - k) = [b.height] := by
        rw [hsync, Nat.add_sub_cancel_left]; rfl
      rw [hhs, List.foldlM_cons] at h3
      obtain ⟨a1, h5, h6⟩ := M_bind_ok h3
      rw [List.foldlM_nil] at h6
      cases h6
      have R := RB.blockAt hbnd hblk h5
      have hn := pn_rollbackBlockAt (acc := { s := s, bals := s.balance }) H.nodup h5
      have H0 := pci_of_rb H R hn hcv hids
      have e1 : ∀ (l : List Nat) (x : Store),
          (l.foldl (fun s h => { s with blocks := AMap.erase s.blocks h }) x).pending = x.pending ∧
          (l.foldl (fun s h => { s with blocks := AMap.erase s.blocks h }) x).pendCred = x.pendCred := by
        intro l x
        exact foldl_inv (fun (a : Store) => a.pending = x.pending ∧ a.pendCred = x.pendCred) _ _ _ ⟨rfl, rfl⟩
          (fun a y _ ha => ha)
      have H1 := H0.congr (e1 acc.heights acc.s).1 (e1 acc.heights acc.s).2
      have fr := MW.Lemmas.PendHist.Cred.purgeFold_cfr c.own acc.cb
        (acc.heights.foldl (fun s h => { s with blocks := AMap.erase s.blocks h }) acc.s) H1.keyId
      intro id t hg
      have h1' := fr.pend id t hg
      rw [(e1 acc.heights acc.s).1] at h1'
      exact R.pend id t h1'

-- ------------------------------------------------------------------ what `pci_disconnect` asks, from the invariant

section asks
variable {c : Ctx} {w : Wid} {addrs : List Addr} {own' : Own} {Y : List Block} {b : Block} {k : Nat} {g s : Store}

theorem blockRecOK_of_p2f (H : RemHyp c w addrs own' (Y ++ [b])) (hS : ScanJS c w g (Y ++ [b]) k)
    (hSub : Sub addrs g s) (hM : MidC c w addrs own' s (Y ++ [b]) (joinBookK c w own' (Y ++ [b]) k)) :
    BlockRecOK c s b := by
  have hbh : b.height = Y.length := heightsOK_mid H.heights
  have hgetb : (Y ++ [b])[b.height]? = some b := by rw [hbh]; simp
  intro bh txs hrec
  have hb := hM.blocks b.height
  rw [show AMap.get s.blocks b.height = _ from hrec] at hb
  have hid : bh = b.id := blockRecOf_id hgetb hb.symm
  refine ⟨hid, ?_⟩
  intro id _ loc hloc
  have hg : AMap.get g.txrecs (id, ⟨b.height, b.id⟩) = some loc := by
    rcases hSub.txrecs (id, ⟨b.height, b.id⟩) with h | h
    · rw [← h]; exact hloc
    · rw [hloc] at h; cases h
  obtain ⟨oc, hoc, hkey, hl⟩ := hS.txpos _ _ hg
  obtain ⟨b', hb', ht', hbm'⟩ := MW.Lemmas.Ledger.CredVal.occ_in_block hoc
  have e1 : id = oc.t.id := congrArg Prod.fst hkey
  have e2 : (⟨b.height, b.id⟩ : BlockMeta) = oc.bm := congrArg Prod.snd hkey
  have hbb : b' = b := by
    obtain ⟨i, hi⟩ := List.getElem?_of_mem hb'
    have hi' := H.heights i b' hi
    have : b'.height = b.height := by
      have := e2.trans hbm'
      injection this with h1 _
      exact h1.symm
    rw [← hi', this] at hi
    rw [hgetb] at hi
    exact (Option.some.inj hi).symm
  rw [hbb] at ht'
  refine ⟨oc.t, ht', e1.symm, ?_⟩
  rw [hl]
  exact txByFileLoc_of_occ H.known hoc

theorem credValOK_of_p2f (H : RemHyp c w addrs own' (Y ++ [b])) (hKN : KeysNodup c.own)
    (hk : k + 1 ≤ (Y ++ [b]).length)
    (hM : MidC c w addrs own' s (Y ++ [b]) (joinBookK c w own' (Y ++ [b]) k)) : CredValOK c addrs s b := by
  have HU := upperOK_join (k := k) H hKN hk
  have hV' : ChainValid own' (Y ++ [b]) := chainValid_minus H.minus H.valid
  have hn := idsNodup H.valid
  intro t ht i cr hc hsh
  -- the credit is a credit of the joined book, not paying `w`: a credit of the other wallets' books
  have hU : (joinBookK c w own' (Y ++ [b]) k).credits ⟨t.id, ⟨b.height, b.id⟩, i⟩ = some cr := by
    rcases hM.credits ⟨t.id, ⟨b.height, b.id⟩, i⟩ with h | ⟨h, _⟩
    · rw [← h]; exact hc
    · have h' : AMap.get s.credits ⟨t.id, ⟨b.height, b.id⟩, i⟩ = none := h
      rw [hc] at h'; cases h'
  have hnw : isW c.own w cr.sh = false := by rw [← H.managed]; exact hsh
  have hBr : (bookOf c.p own' (Y ++ [b])).credits ⟨t.id, ⟨b.height, b.id⟩, i⟩ = some cr :=
    (HU.minus.credits _ cr).2 ⟨hU, hnw⟩
  have hC := credInv_bookOf (p := c.p) hV'
  obtain ⟨u, hu, hck⟩ := hC.only _ cr hBr
  obtain ⟨cr', hcr', hsh'⟩ := credit_sh_of_created hC hu
  rw [← hck, hBr] at hcr'
  injection hcr' with hcr'
  obtain ⟨oc, hoc, hid, hout, hown, hblk, _⟩ := hu
  have hutx : u.tx = t.id := by have := congrArg CredKey.tx hck; exact this.symm
  have huidx : u.idx = i := by have := congrArg CredKey.idx hck; exact this.symm
  -- the occurrence is `t`
  obtain ⟨oc', hoc', hot', _⟩ := MW.Lemmas.Ledger.CredVal.occ_of_block_tx (chain := Y ++ [b]) (b := b) (by simp) ht
  have hoo : oc = oc' := occ_eq_of_id hn hoc hoc' (by rw [hid, hutx, hot'])
  have hto : oc.t = t := by rw [hoo]; exact hot'
  rw [hto, huidx] at hout
  rw [ownerOf_minus H.minus] at hown
  unfold ownerOf at hown
  by_cases hraw : u.out.cls = .raw
  · simp [hraw] at hown
  · simp only [hraw, if_false] at hown
    cases hg : AMap.get c.own u.out.addr with
    | none => rw [hg] at hown; cases hown
    | some y => exact ⟨u.out, y.1, y.2, hout, by rw [hcr', hsh'], hraw, hg⟩

end asks

-- ------------------------------------------------------------------ the combined store-level invariant

theorem idsOf_occsFrom (bm : BlockMeta) : ∀ (ts : List Tx) (i : Nat), idsOf (occsFrom bm ts i) = ts.map (·.id) := by
  intro ts
  induction ts with
  | nil => intro i; rfl
  | cons t ts ih =>
    intro i
    show (occsFrom bm (t :: ts) i).map (fun oc => oc.t.id) = _
    simp only [occsFrom, List.map_cons]
    have := ih (i + 1)
    unfold idsOf at this
    rw [this]

/-- the ids of the tip block of a chain with pairwise distinct ids are pairwise distinct -/
theorem tip_ids_nodup {Y : List Block} {b : Block} (h : (idsOf (occs (Y ++ [b]))).Nodup) : (b.txs.map (·.id)).Nodup := by
  have hsplit : idsOf (occs (Y ++ [b])) = idsOf (occs Y) ++ idsOf (occs [b]) := by
    rw [occs_append]; unfold idsOf; rw [List.map_append]
  rw [hsplit] at h
  have h2 := (List.nodup_append.1 h).2.1
  have e : idsOf (occs [b]) = b.txs.map (·.id) := by
    show idsOf (List.flatMap occsOfBlock [b]) = _
    simp only [List.flatMap_cons, List.flatMap_nil, List.append_nil]
    exact idsOf_occsFrom _ _ _
  rw [e] at h2
  exact h2

/-- **the combined invariant**: the two-store invariant with a floor, the pending-side invariant, and every pending
    record is an allowed one (`A`: pending when the notification arrived, or a transaction of the stored chain) -/
def P2P (c : Ctx) (w : Wid) (addrs : List Addr) (own' : Own) (fl : Nat) (A : TxId → Tx → Prop) (s : Store)
    (X : List Block) : Prop :=
  P2F c w addrs own' fl s X ∧ PCI c addrs s X ∧ ∀ id t, AMap.get s.pending id = some t → A id t

section loops
variable {c : Ctx} {w : Wid} {addrs : List Addr} {own' : Own} {fl : Nat} {A : TxId → Tx → Prop}

theorem p2p_disc (hS : Static c w addrs own') {Y : List Block} {b : Block} (hV : ChainValid c.own (Y ++ [b]))
    (hH : HeightsOK (Y ++ [b])) (hkn : ∀ y ∈ Y ++ [b], AMap.get c.node.known y.id = some y) {s : Store}
    (hfl : fl < Y.length) (hA : ∀ t ∈ b.txs, A t.id t) (hP : P2P c w addrs own' fl A s (Y ++ [b])) :
    ∃ s', disconnectBlock c s b.height = .ok s' ∧ P2P c w addrs own' fl A s' Y := by
  obtain ⟨hF, hPCI, hAll⟩ := hP
  obtain ⟨s', hd, hF'⟩ := p2f_disc hS hV hH hkn hfl hF
  obtain ⟨g, k, hkfl, _, hG, hSub, hM⟩ := hF
  have H : RemHyp c w addrs own' (Y ++ [b]) := ⟨hS.minus, hS.managed, hS.ne, hV, hH, hkn⟩
  have hbh : b.height = Y.length := heightsOK_mid hH
  have hkX : k + 1 ≤ (Y ++ [b]).length := by rw [List.length_append]; omega
  have hsync : s.syncedTo = b.height := by
    have := hM.syncedTo
    have e : s.syncedTo + 1 = (Y ++ [b]).length := this
    rw [List.length_append] at e
    simp only [List.length_singleton] at e
    omega
  have hids := idsNodup hV
  obtain ⟨hPCI', hpend⟩ := pci_disconnect_pend hPCI hd hsync (blockRecOK_of_p2f H hG.scan hSub hM)
    (credValOK_of_p2f H hS.keys hkX hM) hids (tip_ids_nodup hids)
  refine ⟨s', hd, hF', hPCI', ?_⟩
  intro id t hg
  rcases hpend id t hg with h | ⟨h1, h2⟩
  · exact hAll id t h
  · rw [← h2]; exact hA t h1

theorem p2p_connect (hS : Static c w addrs own') (hgN : GoodChain c.node.chain) (hvN : ChainValid c.own c.node.chain)
    (hknN : ∀ y ∈ c.node.chain, AMap.get c.node.known y.id = some y)
    (hsame : ∀ b' ∈ c.node.chain, ∀ t' ∈ b'.txs, ∀ t, A t'.id t → t = t')
    {s : Store} {h : Nat} {b : Block}
    (hb : c.node.chain[h + 1]? = some b) (hP : P2P c w addrs own' fl A s (c.node.chain.take (h + 1))) :
    ∃ s' conf, filterBlock c s (readyWallets s c.wallets) b = .ok (s', conf) ∧
      P2P c w addrs own' fl A s' (c.node.chain.take (h + 2)) ∧ s'.status = s.status := by
  obtain ⟨hF, hPCI, hAll⟩ := hP
  obtain ⟨s', conf, hfb, hF', hst⟩ := p2f_connect hS hgN hvN hknN hb hF
  obtain ⟨g, k, hkfl, hflX, hG, hSub, hM⟩ := hF
  have hKN := hS.keys
  have e : c.node.chain.take (h + 2) = c.node.chain.take (h + 1) ++ [b] := take_succ_of_get hb
  have hlt : h + 1 < c.node.chain.length := (List.getElem?_eq_some_iff.1 hb).1
  have hlen : (c.node.chain.take (h + 1)).length = h + 1 := by rw [List.length_take]; omega
  have hbh : b.height = (c.node.chain.take (h + 1)).length := by rw [hlen]; exact hgN.heights _ _ hb
  have hbmem : b ∈ c.node.chain := List.mem_of_getElem? hb
  have H : RemHyp c w addrs own' (c.node.chain.take (h + 1)) :=
    ⟨hS.minus, hS.managed, hS.ne, chainValid_take hvN _, heightsOK_take hgN.heights _,
      fun y hy => hknN y (List.mem_of_mem_take hy)⟩
  have hk : k + 1 ≤ (c.node.chain.take (h + 1)).length := by omega
  -- the hypotheses of `pci_connect`
  have hnr : (readyWallets g c.wallets).contains w = false := notReady_of_removed hG.flag rfl
  have hrdy : readyWallets s c.wallets = readyWallets g c.wallets := readyWallets_congr hSub.status c.wallets
  have hready : ∀ a w' ch, AMap.get c.own a = some (w', ch) → addrs.contains a = false →
      (readyWallets s c.wallets).contains w' = true := by
    intro a w' ch ha hs
    rw [hrdy]
    apply hG.allReady a w' ch
    have hsub := ownR_sub hKN w a
    rw [hsub, ha]
    have hww : w' ≠ w := by
      intro e'
      rw [hS.managed] at hs
      unfold isW at hs
      rw [ha] at hs
      simp [e'] at hs
    simp [Option.filter, hww]
  have hfresh : ∀ id, AMap.get s.txrecs (id, ⟨b.height, b.id⟩) = none := by
    intro id
    have hgf := (ghost_fresh H hKN hk hG.scan (bm := ⟨b.height, b.id⟩) hbh).txrecs id
    rcases hSub.txrecs (id, ⟨b.height, b.id⟩) with h1 | h1
    · rw [h1]; exact hgf
    · exact h1
  have hids : (idsOf (occs (c.node.chain.take (h + 1) ++ [b]))).Nodup := by
    rw [← e]; exact idsNodup (chainValid_take hvN _)
  have hPCI' := pci_connect hPCI hfb hready
    (fun t' ht' t hg => hsame b hbmem t' ht' t (hAll _ t hg)) hfresh (tip_ids_nodup hids)
  obtain ⟨fr, _⟩ := filterBlock_pfr c s s' (readyWallets s c.wallets) b conf hfb (fun u _ => hfresh u.id)
    (tip_ids_nodup hids) hPCI.keyId (fun t' ht' t hg => hsame b hbmem t' ht' t (hAll _ t hg))
  refine ⟨s', conf, hfb, ⟨hF', by rw [e]; exact hPCI', fun id t hg => hAll id t (fr.pend id t hg)⟩, hst⟩

theorem p2p_connSpec (hS : Static c w addrs own') (hgN : GoodChain c.node.chain) (hvN : ChainValid c.own c.node.chain)
    (hknN : ∀ y ∈ c.node.chain, AMap.get c.node.known y.id = some y)
    (hsame : ∀ b' ∈ c.node.chain, ∀ t' ∈ b'.txs, ∀ t, A t'.id t → t = t') :
    ConnSpec c (P2P c w addrs own' fl A) (fun _ => True) := by
  have key : ∀ (d : Nat) (s : Store) (f B : Nat) (ready : List Wid) (added : List (Nat × List TxId)), B - f = d → f ≤ B →
      B < c.node.chain.length → P2P c w addrs own' fl A s (c.node.chain.take (f + 1)) → ready = readyWallets s c.wallets →
      ∃ s' added', connectAll c ready ((c.node.chain.take (B + 1)).drop (f + 1)) s added = .ok (s', added') ∧
        P2P c w addrs own' fl A s' (c.node.chain.take (B + 1)) := by
    intro d
    induction d with
    | zero =>
      intro s f B ready added hd hfB _ hI _
      have : f = B := by omega
      subst this
      refine ⟨s, added, ?_, hI⟩
      rw [List.drop_take]; simp [connectAll]
    | succ d ih =>
      intro s f B ready added hd hfB hBl hI hr
      have hx : c.node.chain[f + 1]? = some c.node.chain[f + 1] := List.getElem?_eq_getElem (by omega)
      rw [seg_cons hx (by omega)]
      obtain ⟨s1, conf, hfb, hI1, hst1⟩ := p2p_connect hS hgN hvN hknN hsame hx hI
      obtain ⟨s2, added2, h2, hI2⟩ := ih s1 (f + 1) B ready (added ++ [(c.node.chain[f + 1].height, conf)]) (by omega)
        (by omega) hBl hI1 (by rw [hr]; exact (readyWallets_congr hst1 c.wallets).symm)
      refine ⟨s2, added2, ?_, hI2⟩
      unfold connectAll
      rw [hr, hfb]
      simp only [M_ok_bind]
      rw [← hr]
      exact h2
  intro s f B hfB hBl hI _
  obtain ⟨s', added', h1, h2⟩ := key (B - f) s f B _ [] rfl hfB hBl hI rfl
  exact ⟨s', added', h1, h2, trivial⟩

end loops

end MW.Lemmas.RemoveInterleave
