/-
  The confirmation arithmetic of the wallet (uint64 subtraction) in the range the follower guarantees.
-/
import MW.Model.Ledger
namespace MW.Lemmas.Ledger
open MW MW.Model.Ledger

/-- `confs` in the range the follower guarantees (coin height ≤ synced height): no wrap-around. -/
theorem confs_of_le (sync height : Nat) (h : height ≤ sync) (hs : sync < 2^63) :
    confs sync height = sync - height + 1 := by
  unfold confs u64
  have h1 : ((sync : Int) - (height : Int) + 1) = ((sync - height + 1 : Nat) : Int) := by omega
  rw [h1]
  have h2 : ((sync - height + 1 : Nat) : Int) % (2^64 : Int) = ((sync - height + 1 : Nat) : Int) := by
    apply Int.emod_eq_of_lt <;> omega
  rw [h2]; simp

end MW.Lemmas.Ledger
