/-
  The MODEL of AmountToString (MW.Model.Amount.format) against the SPEC formatter, for ALL integers.
-/
import MW.Model.Amount
import MW.Lemmas.AmountSpec
namespace MW.Model.Amount
open MW MW.Dec

theorem format_in_range {m : Int} (h0 : 0 ≤ m) (h1 : m ≤ (maxAmount : Int)) :
    format m = .ok (Spec.Amount.format m.toNat) := by
  obtain ⟨n, rfl⟩ := Int.eq_ofNat_of_zero_le h0
  have hpm : perMass = 10 ^ 8 := rfl
  unfold format
  have hg : ¬ ((n : Int) > (maxAmount : Int)) := by omega
  have hl : ¬ ((n : Int) < 0) := by omega
  simp only [hg, hl, if_false, Int.toNat_natCast]
  -- the decimal string of n + 10^8 is the string of q+1 followed by the 8-digit block of r
  have hu : n + perMass = (n / 10 ^ 8 + 1) * 10 ^ 8 + n % 10 ^ 8 := by rw [hpm]; omega
  have hs : render (n + perMass) = render (n / 10 ^ 8 + 1) ++ digitsN 8 (n % 10 ^ 8) := by
    rw [hu]; exact render_mul_pow_add (by omega) 8 _ (Nat.mod_lt _ (by omega))
  have hlen : (render (n + perMass)).length - 8 = (render (n / 10 ^ 8 + 1)).length := by
    rw [hs, List.length_append, digitsN_length]; omega
  rw [hlen, hs, List.take_left' rfl, List.drop_left' rfl, ofDigits_render, Nat.add_sub_cancel,
    Spec.Amount.format_eq]
  by_cases hr : n % 10 ^ 8 = 0
  · rw [if_pos hr, hr, digitsN_zero_right, trimRight0_zeros]
    rfl
  · rw [if_neg hr]
    have hne := Spec.Amount.frac_ne_nil hr (Nat.mod_lt _ (by omega))
    have : (trimRight0 (digitsN 8 (n % 10 ^ 8))).length > 0 := by
      cases h : trimRight0 (digitsN 8 (n % 10 ^ 8)) with
      | nil => exact absurd h hne
      | cons _ _ => simp
    rw [if_pos this]
    simp only [List.append_assoc, List.singleton_append]

end MW.Model.Amount
