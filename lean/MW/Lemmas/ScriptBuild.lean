/-
  C16 helper lemmas, part 4: the script builders produce exactly the byte patterns of MW.Spec.Script,
  and those patterns match the templates they were built for.
-/
import MW.Lemmas.ScriptClassify
namespace MW.Lemmas.ScriptBuild
open MW MW.Model.Script MW.Lemmas.ScriptTok MW.Lemmas.ScriptTemplate MW.Lemmas.ScriptClassify
open MW.Spec.Script (template Template wshScript stakingScript bindingScript legalFrozen leBytes)


theorem addData_small (b : Builder) (d : Bytes) (hb : b.err = none) (hn : 2 ≤ d.length) (h75 : d.length ≤ 75)
    (hs : b.script.length + 1 + d.length ≤ 10000) :
    b.addData d = .ok { b with script := b.script ++ UInt8.ofNat d.length :: d } := by
  unfold Builder.addData canonicalDataSize Builder.addDataRaw
  have h0 : (d.length == 0) = false := beq_eq_false_iff_ne.mpr (by omega)
  have h1 : (d.length == 1) = false := beq_eq_false_iff_ne.mpr (by omega)
  have h76 : d.length < Gen.Script.OP_PUSHDATA1 := by simp [Gen.Script.OP_PUSHDATA1]; omega
  have hsz : ¬ (b.script.length + (1 + d.length) > Gen.Script.maxScriptSize) := by
    simp [Gen.Script.maxScriptSize]; omega
  have hel : ¬ (d.length > Gen.Script.maxScriptElementSize) := by
    simp [Gen.Script.maxScriptElementSize]; omega
  simp [hb, h0, h1, h76, hsz, hel, bind, Except.bind, pure, Except.pure, Gen.Script.OP_DATA_1]

theorem leEnc_eq (k v : Nat) : leEnc k v = leBytes k v := by
  induction k generalizing v with
  | zero => rfl
  | succ k ih => simp [leEnc, leBytes, ih]

theorem leBytes_length (k v : Nat) : (leBytes k v).length = k := by
  induction k generalizing v with
  | zero => rfl
  | succ k ih => simp [leBytes, ih]

theorem addOp0 (op : UInt8) : ({} : Builder).addOp op = { script := [op], err := none } := by
  simp [Builder.addOp, Gen.Script.maxScriptSize]

theorem payToWitnessScriptHashScript_spec (h : Bytes) :
    payToWitnessScriptHashScript h = if h.length = 32 then .ok (wshScript h) else fail .progLen := by
  unfold payToWitnessScriptHashScript
  by_cases hl : h.length = 32
  · have e := addData_small { script := [0], err := none } h rfl (by omega) (by omega) (by simp [hl])
    simp [hl, Gen.Script.witnessV0ScriptHashDataSize, addOp0, e, bind, Except.bind, Builder.result,
      wshScript, pure, Except.pure]
  · simp [hl, Gen.Script.witnessV0ScriptHashDataSize]

theorem isValidFrozenPeriod_iff (f : Nat) : isValidFrozenPeriod f = true ↔ legalFrozen f := by
  unfold isValidFrozenPeriod legalFrozen
  simp [Gen.Script.minFrozenPeriod, Gen.Script.sequenceLockTimeMask, Spec.Script.minFrozenPeriod]
  intro _; exact decide_eq_true_iff

theorem payToStakingScriptHashScript_spec (h : Bytes) (f : Nat) :
    payToStakingScriptHashScript h f =
      if h.length = 32 then (if legalFrozen f then .ok (stakingScript h f) else fail .frozenPeriod)
      else fail .progLen := by
  unfold payToStakingScriptHashScript
  by_cases hl : h.length = 32
  · by_cases hf : legalFrozen f
    · have hv := (isValidFrozenPeriod_iff f).mpr hf
      have e := addData_small { script := [0], err := none } h rfl (by omega) (by omega) (by simp [hl])
      have e2 := addData_small { script := [0] ++ UInt8.ofNat h.length :: h, err := none } (leBytes 8 f) rfl
        (by rw [leBytes_length]; omega) (by rw [leBytes_length]; omega) (by simp [hl, leBytes_length])
      simp [hl, hf, hv, Gen.Script.witnessV0ScriptHashDataSize, addOp0, e, bind, Except.bind, Builder.result,
        stakingScript, pure, Except.pure, leEnc_eq]
      simp [hl] at e2
      simp [e2, leBytes_length]
    · have hv : isValidFrozenPeriod f = false := by
        cases hh : isValidFrozenPeriod f with
        | false => rfl
        | true => exact absurd ((isValidFrozenPeriod_iff f).mp hh) hf
      simp [hl, hf, hv, Gen.Script.witnessV0ScriptHashDataSize]
  · simp [hl, Gen.Script.witnessV0ScriptHashDataSize]

theorem payToBindingScriptHashScript_spec (h t : Bytes) :
    payToBindingScriptHashScript h t =
      if h.length = 32 ∧ (t.length = 20 ∨ t.length = 22) then .ok (bindingScript h t) else fail .progLen := by
  unfold payToBindingScriptHashScript
  by_cases hl : h.length = 32
  · by_cases ht : t.length = 20 ∨ t.length = 22
    · have e := addData_small { script := [0], err := none } h rfl (by omega) (by omega) (by simp [hl])
      have e2 := addData_small { script := [0] ++ UInt8.ofNat h.length :: h, err := none } t rfl
        (by omega) (by omega) (by simp [hl]; omega)
      have c : ¬ (¬ t.length = 20 ∧ ¬ t.length = 22) := by omega
      simp [hl, ht, c, Gen.Script.witnessV0ScriptHashDataSize, Gen.Script.OP_DATA_20, Gen.Script.OP_DATA_22, addOp0,
        e, bind, Except.bind, Builder.result, bindingScript, pure, Except.pure]
      simp [hl] at e2
      simp [e2]
    · have c : (¬ t.length = 20 ∧ ¬ t.length = 22) := by omega
      simp [hl, ht, c, Gen.Script.witnessV0ScriptHashDataSize, Gen.Script.OP_DATA_20, Gen.Script.OP_DATA_22]
  · simp [hl, Gen.Script.witnessV0ScriptHashDataSize]

theorem leNat_leBytes (k v : Nat) : Spec.Script.leNat (leBytes k v) = v % 256 ^ k := by
  induction k generalizing v with
  | zero => simp [leBytes, Spec.Script.leNat, Nat.mod_one]
  | succ k ih =>
    simp only [leBytes, Spec.Script.leNat, ih]
    have : (UInt8.ofNat (v % 256)).toNat = v % 256 := by
      simp [UInt8.toNat_ofNat']
    rw [this, Nat.pow_succ, Nat.mul_comm (256 ^ k) 256, Nat.mod_mul]

theorem template_wshScript (h : Bytes) (hl : h.length = 32) : template (wshScript h) = .wsh h := by
  show template (0 :: 0x20 :: h) = _
  rw [template_cons]
  simp [hl, List.take_of_length_le, List.drop_eq_nil_of_le]

theorem template_stakingScript (h : Bytes) (f : Nat) (hl : h.length = 32) :
    template (stakingScript h f) = .staking h (leBytes 8 f) := by
  show template (0 :: 0x20 :: (h ++ [0x08] ++ leBytes 8 f)) = _
  rw [template_cons]
  have e1 : (h ++ [0x08] ++ leBytes 8 f).take 32 = h := by
    rw [List.append_assoc, List.take_append_of_le_length (by omega)]; simp [List.take_of_length_le, hl]
  have e2 : (h ++ [0x08] ++ leBytes 8 f).drop 32 = 0x08 :: leBytes 8 f := by
    rw [List.append_assoc, ← hl, List.drop_left]; rfl
  simp [hl, leBytes_length, e1, e2]

theorem template_bindingScript (h t : Bytes) (hl : h.length = 32) (ht : t.length = 20 ∨ t.length = 22) :
    template (bindingScript h t) = .binding h t := by
  show template (0 :: 0x20 :: (h ++ [UInt8.ofNat t.length] ++ t)) = _
  rw [template_cons]
  have e1 : (h ++ [UInt8.ofNat t.length] ++ t).take 32 = h := by
    rw [List.append_assoc, List.take_append_of_le_length (by omega)]; simp [List.take_of_length_le, hl]
  have e2 : (h ++ [UInt8.ofNat t.length] ++ t).drop 32 = UInt8.ofNat t.length :: t := by
    rw [List.append_assoc, ← hl, List.drop_left]; rfl
  rcases ht with e | e <;> simp [hl, e1, e2, e]

end MW.Lemmas.ScriptBuild
