/-
  Rollback, assembled (C01 goal 2), part 2:
    rollbackBlockAt_tip   the block record of the tip block `b` of `chain ++ [b]` is rolled back to the books of `chain`
    rollback_tip          `rollback c s b.height` on a store with `Inv c s (chain ++ [b])`
    readyWallets_pullBack the cursor pull-back of `disconnectBlock` keeps the set of ready wallets
    disconnect_sound      `DisconnectSpec c`
-/
import MW.Lemmas.LedgerDisc
namespace MW.Lemmas.Ledger
open MW MW.Model.Ledger MW.Spec.Chain MW.Spec.Books

-- ------------------------------------------------------------------ (c) rollback of the tip block

theorem AgreeM.toR {s : Store} {B : Book} (h : AgreeM s B) : AgreeR s B :=
  ⟨h.unspent, h.credits, h.debits, h.game, h.txrecs⟩

theorem occs_singleton (b : Block) : occs [b] = occsOfBlock b := by
  unfold occs; simp

theorem validFrom_tip {own : Own} {chain : List Block} {b : Block} (hV : ChainValid own (chain ++ [b])) :
    ValidFrom own (occs chain) (occsOfBlock b) := by
  unfold ChainValid at hV
  rw [occs_append, validFrom_append, occs_singleton] at hV
  simpa using hV.2

/-- Rollback's outer-loop iteration at the height of the tip block `b`: the store goes from the books of
    `chain ++ [b]` to the books of `chain` (block records and balances are written back afterwards) -/
theorem rollbackBlockAt_tip {c : Ctx} {ready : List Wid} (hAR : AllReady c.own ready)
    {chain : List Block} {b : Block} (hV : ChainValid c.own (chain ++ [b])) (hH : HeightsOK (chain ++ [b]))
    (hk : AMap.get c.node.known b.id = some b) (acc : RbAcc)
    (hR : AgreeR acc.s (bookOf c.p c.own (chain ++ [b])))
    (hblk : AMap.get acc.s.blocks b.height = (bookOf c.p c.own (chain ++ [b])).blocks b.height)
    (hB : AgreeBal ready acc.bals (bookOf c.p c.own (chain ++ [b]))) :
    ∃ acc', rollbackBlockAt c acc b.height = .ok acc' ∧ AgreeR acc'.s (bookOf c.p c.own chain) ∧
      AgreeBal ready acc'.bals (bookOf c.p c.own chain) ∧ SameRest acc.s acc'.s ∧
      ((acc'.heights = acc.heights ∧ AMap.get acc.s.blocks b.height = none) ∨
        acc'.heights = acc.heights ++ [b.height]) := by
  rw [bookOf_blocks_snoc c.p c.own chain b hH] at hblk
  rw [rollbackBlockAt_eq]
  cases htl : touchIds c.p c.own (bookOf c.p c.own chain) (occsOfBlock b) with
  | nil =>
    rw [htl] at hblk
    have hblk' : AMap.get acc.s.blocks b.height = none := hblk
    have hsame : bookOf c.p c.own (chain ++ [b]) = bookOf c.p c.own chain := by
      rw [bookOf_snoc]; exact touchIds_nil_fold htl
    rw [hsame] at hR hB
    refine ⟨acc, ?_, hR, hB, SameRest.refl _, Or.inl ⟨rfl, hblk'⟩⟩
    simp only [hblk']
    rfl
  | cons x xs =>
    rw [htl] at hblk
    have hblk' : AMap.get acc.s.blocks b.height = some (b.id, x :: xs) := hblk
    simp only [hblk']
    have hVc : ChainValid c.own chain := chainValid_prefix hV
    obtain ⟨hL, hG⟩ := loc_bookOf (p := c.p) hVc
    have hW := locW_bookOf (p := c.p) hVc
    have hGl := glob_bookOf (p := c.p) hVc
    have h2 := glob2_bookOf (p := c.p) hVc
    rw [bookOf_snoc] at hR hB
    obtain ⟨acc', hrun, hR', hB', hS', hH'⟩ :=
      rollbackOccs_fold hAR ⟨b.height, b.id⟩ (occsOfBlock b) hL hG hW hGl h2 (validFrom_tip hV)
        (occFacts_of_known hk) { acc with heights := acc.heights ++ [b.height] } hR hB
    rw [htl] at hrun
    exact ⟨acc', hrun, hR', hB', hS', Or.inr hH'⟩

/-- `TxStore.Rollback(b.height)` on the store of `chain ++ [b]`: mined buckets of `chain`, balances of the
    ready wallets = totals of `chain`; synced-to table and wallet status unchanged -/
theorem rollback_tip {c : Ctx} {s : Store} {chain : List Block} {b : Block}
    (hI : Inv c s (chain ++ [b])) (hV : ChainValid c.own (chain ++ [b])) (hH : HeightsOK (chain ++ [b]))
    (hk : AMap.get c.node.known b.id = some b) (hAR : AllReady c.own (readyWallets s c.wallets)) :
    ∃ s1, rollback c s b.height = .ok s1 ∧ AgreeM s1 (bookOf c.p c.own chain) ∧
      (∀ w, (readyWallets s c.wallets).contains w = true →
        AMap.get s1.balance w = some (totalU (bookOf c.p c.own chain).L w)) ∧
      s1.sync = s.sync ∧ s1.syncedTo = s.syncedTo ∧ s1.status = s.status := by
  have hbh : b.height = chain.length := heightsOK_mid hH
  have hst : s.syncedTo = b.height := by
    have := hI.syncedTo
    simp only [List.length_append, List.length_singleton] at this
    omega
  have hhs : (List.range (s.syncedTo + 1 - b.height)).map (fun k => s.syncedTo - k) = [b.height] := by
    rw [hst, show b.height + 1 - b.height = 1 by omega]
    simp [List.range_succ]
  obtain ⟨acc', hrun, hR', hB', hS', hH'⟩ :=
    rollbackBlockAt_tip hAR hV hH hk { s := s, bals := s.balance } hI.agree.toR (hI.agree.blocks b.height)
      (fun w hw => hI.bal w hw)
  have hblocks0 : (bookOf c.p c.own chain).blocks b.height = none :=
    bookOf_blocks_none c.p c.own chain (heightsOK_prefix hH) b.height (by omega)
  -- the store after the block records of the rolled-back heights are erased
  have herase : ∃ s2, s2 = acc'.heights.foldl (fun s h => { s with blocks := AMap.erase s.blocks h }) acc'.s ∧
      AgreeM s2 (bookOf c.p c.own chain) ∧ s2.sync = s.sync ∧ s2.syncedTo = s.syncedTo ∧ s2.status = s.status ∧
      s2.balance = s.balance := by
    refine ⟨_, rfl, ?_⟩
    have hbl : ∀ k, k ≠ b.height → AMap.get s.blocks k = (bookOf c.p c.own chain).blocks k := by
      intro k hk'
      rw [hI.agree.blocks, bookOf_blocks_snoc_ne c.p c.own chain b k hk']
    rcases hH' with ⟨hH', hnone⟩ | hH'
    · -- no block record at this height
      rw [hH']
      simp only [List.foldl_nil]
      refine ⟨⟨hR'.unspent, hR'.credits, hR'.debits, hR'.game, hR'.txrecs, ?_⟩,
        hS'.sync, hS'.syncedTo, hS'.status, hS'.balance⟩
      intro k
      rw [hS'.blocks]
      by_cases hk' : k = b.height
      · subst hk'; rw [hblocks0]; exact hnone
      · exact hbl k hk'
    · rw [hH']
      simp only [List.nil_append, List.foldl_cons, List.foldl_nil]
      refine ⟨⟨hR'.unspent, hR'.credits, hR'.debits, hR'.game, hR'.txrecs, ?_⟩,
        hS'.sync, hS'.syncedTo, hS'.status, hS'.balance⟩
      intro k
      simp only
      rw [AMap.get_erase, hS'.blocks]
      by_cases hk' : b.height = k
      · subst hk'; simp only [if_true]; exact hblocks0.symm
      · simp only [hk', if_false]; exact hbl k (fun e => hk' e.symm)
  obtain ⟨s2, hs2, hM2, hsy2, hst2, hstat2, hbal2⟩ := herase
  -- the coinbase purge only touches pending buckets
  have hME : MinedEq s2 (acc'.cb.foldl (purgeSpenders c.own) s2) :=
    minedEq_foldl _ _ _ (fun s a _ => minedEq_purgeSpenders c.own s a)
  refine ⟨{ acc'.cb.foldl (purgeSpenders c.own) s2 with
            balance := mergeBalances acc'.bals (acc'.cb.foldl (purgeSpenders c.own) s2).balance }, ?_, ?_, ?_, ?_, ?_, ?_⟩
  · unfold rollback
    rw [hhs]
    simp only [List.foldlM_cons, List.foldlM_nil]
    rw [hrun]
    subst hs2
    rfl
  · refine ⟨?_, ?_, ?_, ?_, ?_, ?_⟩
    · intro w tx idx; simp only; rw [hME.unspent]; exact hM2.unspent w tx idx
    · intro k; simp only; rw [hME.credits]; exact hM2.credits k
    · intro k; simp only; rw [hME.debits]; exact hM2.debits k
    · intro k; simp only; rw [hME.game]; exact hM2.game k
    · intro k; simp only; rw [hME.txrecs]; exact hM2.txrecs k
    · intro k; simp only; rw [hME.blocks]; exact hM2.blocks k
  · intro w hw
    simp only
    rw [get_mergeBalances, hB' w hw]
  · simp only; rw [hME.sync, hsy2]
  · simp only; rw [hME.syncedTo, hst2]
  · simp only; rw [hME.status, hstat2]

-- ------------------------------------------------------------------ (d) disconnectBlock

theorem get_map_entries {K V : Type} [DecidableEq K] (m : AMap.T K V) (f : K × V → K × V)
    (hf : ∀ e, (f e).1 = e.1) (k : K) :
    AMap.get (m.map f) k = (AMap.get m k).map (fun v => (f (k, v)).2) := by
  induction m with
  | nil => rfl
  | cons a m ih =>
    rw [List.map_cons, AMap.get_cons, AMap.get_cons, hf, ih]
    by_cases hk : a.1 = k
    · subst hk; simp
    · simp [hk]

/-- the cursor pull-back of `disconnectBlock` (importing wallets only) -/
def pullBack (n : Nat) (e : Wid × WStatus) : Wid × WStatus :=
  match e.2.synced with
  | some h => if h > n then (e.1, { e.2 with synced := some n }) else e
  | none => e

theorem pullBack_key (n : Nat) (e : Wid × WStatus) : (pullBack n e).1 = e.1 := by
  unfold pullBack
  cases e.2.synced with
  | none => rfl
  | some h => dsimp only; split <;> rfl

/-- pulling the cursors of importing wallets back changes no wallet's readiness -/
theorem readyWallets_map (s : Store) (n : Nat) (ws : List Wid) :
    readyWallets { s with status := s.status.map (pullBack n) } ws = readyWallets s ws := by
  unfold readyWallets
  apply List.filter_congr
  intro w _
  simp only
  rw [get_map_entries _ _ (pullBack_key n)]
  cases hg : AMap.get s.status w with
  | none => rfl
  | some st =>
    simp only [Option.map_some]
    unfold pullBack
    cases hsy : st.synced with
    | none => simp only [hsy]
    | some h =>
      simp only
      split
      · simp
      · simp only [hsy]

theorem resetSyncedTo_one (s : Store) (h : Nat) (hh : h ≠ 0) (hs : s.syncedTo = h) :
    resetSyncedTo s (h - 1) = { s with sync := AMap.erase s.sync h, syncedTo := h - 1 } := by
  unfold resetSyncedTo
  rw [hs, show h - (h - 1) = 1 by omega]
  have : h > h - 1 := by omega
  simp [List.range_succ, this]

/-- DISCONNECTING THE TIP BLOCK of the wallet's chain succeeds and yields the invariant for the chain
    without it; the set of ready wallets does not change. -/
theorem disconnect_sound {c : Ctx} : DisconnectSpec c := by
  intro s chain b hI hne hV hH hk hAR
  have hbh : b.height = chain.length := heightsOK_mid hH
  have hlen : chain.length ≠ 0 := fun h => hne (List.eq_nil_of_length_eq_zero h)
  have h0 : b.height ≠ 0 := by omega
  have hst : s.syncedTo = b.height := by
    have := hI.syncedTo
    simp only [List.length_append, List.length_singleton] at this
    omega
  obtain ⟨s1, hrun, hM1, hbal1, hsy1, hst1, hstat1⟩ := rollback_tip hI hV hH hk hAR
  have hreset := resetSyncedTo_one s1 b.height h0 (hst1.trans hst)
  have hnot : ¬ b.height > s.syncedTo := by omega
  refine ⟨{ resetSyncedTo s1 (b.height - 1) with
            status := (resetSyncedTo s1 (b.height - 1)).status.map (pullBack (b.height - 1)) }, ?_, ?_, ?_⟩
  · unfold disconnectBlock
    simp only [h0, if_false, hnot]
    rw [hrun, M_ok_bind]
    rfl
  · have hready : readyWallets { resetSyncedTo s1 (b.height - 1) with
          status := (resetSyncedTo s1 (b.height - 1)).status.map (pullBack (b.height - 1)) } c.wallets =
        readyWallets s c.wallets := by
      rw [readyWallets_map]
      exact readyWallets_congr (by rw [hreset]; exact hstat1) c.wallets
    refine ⟨?_, ?_, ?_, ?_⟩
    · rw [hreset]
      exact ⟨hM1.unspent, hM1.credits, hM1.debits, hM1.game, hM1.txrecs, hM1.blocks⟩
    · intro w hw
      rw [hready] at hw
      rw [hreset]
      exact hbal1 w hw
    · intro h
      rw [hreset]
      simp only
      rw [AMap.get_erase, hsy1, hI.sync, syncOf_snoc, hbh]
      by_cases hk' : chain.length = h
      · subst hk'; simp only [if_true]; exact (syncOf_ge (Nat.le_refl _)).symm
      · simp only [hk', if_false]
    · rw [hreset]
      simp only
      omega
  · intro ws
    rw [readyWallets_map]
    exact readyWallets_congr (by rw [hreset]; exact hstat1) ws

end MW.Lemmas.Ledger
