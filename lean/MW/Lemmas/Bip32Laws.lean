/-
  The LAWS of the cryptographic parameters that the C14 proofs use – hypotheses of the theorems
  (structures of propositions), never axioms – and a toy instance showing they are satisfiable.
  That btcec / crypto/sha256 / crypto/sha512 / x/crypto/ripemd160 satisfy them is trusted and
  sampled by every correspondence run.
-/
import MW.Base.Bip32Base
import MW.Lemmas.Bip32Num
namespace MW

structure CurveLaws (C : CurveOps) : Prop where
  n_pos : 0 < C.n
  n_le : C.n ≤ 2 ^ 256
  /-- compressed encodings are 33 bytes and start with 02 or 03 (in particular not with 00) -/
  enc_len : ∀ P, (C.enc P).length = 33
  enc_head : ∀ P, (C.enc P).headD 0 ≠ 0
  /-- scalar multiplication of the generator is a homomorphism from (ℤ/n, +) -/
  mulG_add : ∀ a b, C.mulG ((a + b) % C.n) = C.add (C.mulG a) (C.mulG b)
  /-- a·G is the point at infinity exactly for a ≡ 0 (G has order n) -/
  isInf_mulG : ∀ a, C.isInf (C.mulG a) = true ↔ a % C.n = 0
  /-- no finite multiple of G has a zero coordinate (secp256k1 has no point with x = 0 or y = 0) -/
  xyZero_mulG : ∀ a, 0 < a → a < C.n → C.xyZero (C.mulG a) = false
  /-- parsing the compressed encoding of a finite point gives the point back -/
  parse_enc : ∀ P, C.isInf P = false → C.parse (C.enc P) = some P
  /-- a 33-byte string that parses is the compressed encoding of its point -/
  enc_parse : ∀ b P, b.length = 33 → C.parse b = some P → C.enc P = b

structure HashLaws (H : HashOps) : Prop where
  hmac_len : ∀ k d, (H.hmac512 k d).length = 64
  sha_len : ∀ d, (H.sha256 d).length = 32
  rmd_len : ∀ d, (H.ripemd160 d).length = 20

structure NetLaws (N : NetOps) : Prop where
  priv_len : N.privVersion.length = 4
  pub_len : ∀ v w, N.pubVersion v = some w → w.length = 4

namespace Toy

/-- toy group: ℤ/n with generator 1 (n = the real secp256k1 order, any n with 0 < n ≤ 2^256 would do) -/
def n : Nat := 115792089237316195423570985008687907852837564279074904382605163141518161494337
theorem n_pos : 0 < n := by decide
theorem n_le : n ≤ 2 ^ 256 := by decide

def curve : CurveOps where
  Pt := Fin n
  n := n
  mulG a := ⟨a % n, Nat.mod_lt _ n_pos⟩
  add p q := ⟨(p.val + q.val) % n, Nat.mod_lt _ n_pos⟩
  enc p := 2 :: BE.fixed 32 p.val
  parse b :=
    if h : b.length = 33 ∧ b.headD 0 = 2 ∧ BE.ofBytes (b.drop 1) ≠ 0 ∧ BE.ofBytes (b.drop 1) < n
    then some ⟨BE.ofBytes (b.drop 1), h.2.2.2⟩ else none
  xyZero p := p.val == 0
  isInf p := p.val == 0

/-- toy "hashes": the first bytes of the input, zero padded (right lengths, nothing else) -/
def hash : HashOps where
  hmac512 k d := (d ++ k ++ GoSlice.zeros 64).take 64
  sha256 d := (d ++ GoSlice.zeros 32).take 32
  ripemd160 d := (d ++ GoSlice.zeros 20).take 20

def net : NetOps where
  privVersion := [4, 136, 173, 228]
  pubVersion v := if v = [4, 136, 173, 228] then some [4, 136, 178, 30] else none

theorem curveLaws : CurveLaws curve where
  n_pos := n_pos
  n_le := n_le
  enc_len P := by simp [curve]
  enc_head P := by simp [curve]
  mulG_add a b := by
    simp only [curve]
    apply Fin.ext
    simp [Nat.add_mod]
  isInf_mulG a := by simp [curve]
  xyZero_mulG a h0 hn := by
    have hn' : a < n := hn
    simp only [curve, beq_eq_false_iff_ne, ne_eq]
    rw [Nat.mod_eq_of_lt hn']; omega
  parse_enc P hP := by
    have hv : BE.ofBytes (BE.fixed 32 P.val) = P.val := by
      rw [BE.ofBytes_fixed]
      exact Nat.mod_eq_of_lt (Nat.lt_of_lt_of_le P.isLt n_le)
    have hP' : P.val ≠ 0 := by simpa [curve] using hP
    simp only [curve, List.length_cons, BE.fixed_length, List.headD_cons, List.drop_succ_cons, List.drop_zero, hv]
    rw [dif_pos ⟨trivial, trivial, hP', P.isLt⟩]
    rfl
  enc_parse b P hb hp := by
    simp only [curve] at hp ⊢
    split at hp
    · rename_i h
      cases hp
      cases b with
      | nil => simp at hb
      | cons x xs =>
        have hx : x = 2 := by simpa using h.2.1
        have hl : xs.length = 32 := by simpa using hb
        simp only [List.drop_succ_cons, List.drop_zero]
        rw [← hl, BE.fixed_ofBytes, hx]
    · cases hp

theorem hashLaws : HashLaws hash where
  hmac_len k d := by simp [hash, GoSlice.zeros]; omega
  sha_len d := by simp [hash, GoSlice.zeros]
  rmd_len d := by simp [hash, GoSlice.zeros]

theorem netLaws : NetLaws net where
  priv_len := rfl
  pub_len v w h := by
    simp only [net] at h
    split at h
    · cases h; rfl
    · cases h

end Toy
end MW
