/-
  AddCredits, second loop (deposit-history records) ⊑ fold of depositB; the deposits of a transaction
  have their records once both loops are done (`locG_after_outputs`).
-/
import MW.Lemmas.LedgerFold
namespace MW.Lemmas.Ledger
open MW MW.Model.Ledger MW.Spec.Chain MW.Spec.Books

theorem depositB_L (own : Own) (t : Tx) (bm : BlockMeta) (B : Book) (j : Nat) (o : Out) :
    (depositB own t bm B j o).L = B.L ∧ (depositB own t bm B j o).credits = B.credits ∧
    (depositB own t bm B j o).debits = B.debits ∧ (depositB own t bm B j o).txrecs = B.txrecs ∧
    (depositB own t bm B j o).blocks = B.blocks ∧ (depositB own t bm B j o).addrs = B.addrs := by
  unfold depositB
  cases ownerOf own o with
  | none => exact ⟨rfl, rfl, rfl, rfl, rfl, rfl⟩
  | some wc =>
    dsimp only
    split <;> exact ⟨rfl, rfl, rfl, rfl, rfl, rfl⟩

theorem depositFold_L (own : Own) (t : Tx) (bm : BlockMeta) (os : List Out) :
    ∀ (j : Nat) (B : Book),
    (foldIdx (depositB own t bm) os j B).L = B.L ∧ (foldIdx (depositB own t bm) os j B).credits = B.credits ∧
    (foldIdx (depositB own t bm) os j B).debits = B.debits ∧ (foldIdx (depositB own t bm) os j B).txrecs = B.txrecs ∧
    (foldIdx (depositB own t bm) os j B).blocks = B.blocks ∧ (foldIdx (depositB own t bm) os j B).addrs = B.addrs := by
  induction os with
  | nil => intro j B; exact ⟨rfl, rfl, rfl, rfl, rfl, rfl⟩
  | cons o os ih =>
    intro j B
    rw [foldIdx_cons]
    obtain ⟨h1, h2, h3, h4, h5, h6⟩ := ih (j + 1) (depositB own t bm B j o)
    obtain ⟨g1, g2, g3, g4, g5, g6⟩ := depositB_L own t bm B j o
    exact ⟨h1.trans g1, h2.trans g2, h3.trans g3, h4.trans g4, h5.trans g5, h6.trans g6⟩

theorem depositB_game_mono (own : Own) (t : Tx) (bm : BlockMeta) (B : Book) (j : Nat) (o : Out) (gk : GameKey)
    (h : B.game gk = some ()) : (depositB own t bm B j o).game gk = some () := by
  unfold depositB
  cases ownerOf own o with
  | none => exact h
  | some wc =>
    by_cases hd : isDeposit o.cls = true
    · simp only [hd, if_true, upd_apply]
      split
      · rfl
      · exact h
    · simp only [hd]; exact h

theorem depositFold_game_mono (own : Own) (t : Tx) (bm : BlockMeta) (os : List Out) (gk : GameKey) :
    ∀ (j : Nat) (B : Book), B.game gk = some () → (foldIdx (depositB own t bm) os j B).game gk = some () := by
  induction os with
  | nil => intro j B h; exact h
  | cons o os ih =>
    intro j B h
    rw [foldIdx_cons]
    exact ih (j + 1) _ (depositB_game_mono own t bm B j o gk h)

theorem depositFold_game (own : Own) (t : Tx) (bm : BlockMeta) (os : List Out) :
    ∀ (j : Nat) (B : Book) (m : Nat) (o : Out) (w : Wid) (ch : Bool),
      os[m]? = some o → ownerOf own o = some (w, ch) → isDeposit o.cls = true →
      (foldIdx (depositB own t bm) os j B).game ⟨w, o.cls.isBinding, false, t.id, bm.height, j + m⟩ = some () := by
  induction os with
  | nil => intro j B m o w ch h; simp at h
  | cons o' os ih =>
    intro j B m o w ch hm ho hd
    rw [foldIdx_cons]
    cases m with
    | zero =>
      simp only [List.getElem?_cons_zero, Option.some.injEq] at hm
      subst hm
      apply depositFold_game_mono
      unfold depositB
      rw [ho]
      simp [hd]
    | succ m =>
      simp only [List.getElem?_cons_succ] at hm
      have := ih (j + 1) (depositB own t bm B j o') m o w ch hm ho hd
      rw [show j + (m + 1) = j + 1 + m by omega]; exact this

theorem createFold_origin (p : Params) (own : Own) (t : Tx) (bm : BlockMeta) (os : List Out) :
    ∀ (j : Nat) (B : Book) (u : UCoin), u ∈ (foldIdx (createB p own t bm) os j B).L →
      u ∈ B.L ∨ ∃ m o, os[m]? = some o ∧ ownerOf own o = some (u.wallet, u.change) ∧
        u.tx = t.id ∧ u.idx = j + m ∧ u.out = o ∧ u.blk = bm := by
  induction os with
  | nil => intro j B u h; left; exact h
  | cons o' os ih =>
    intro j B u h
    rw [foldIdx_cons] at h
    rcases ih (j + 1) _ u h with h1 | ⟨m, o, hm, ho, h2, h3, h4, h5⟩
    · cases ho' : ownerOf own o' with
      | none => rw [createB_none ho'] at h1; left; exact h1
      | some wc =>
        obtain ⟨w, ch⟩ := wc
        rw [(createB_owned (p := p) (t := t) (bm := bm) (B := B) (j := j) ho').1] at h1
        rcases List.mem_append.1 h1 with h1 | h1
        · left; exact h1
        · simp only [List.mem_singleton] at h1
          right
          refine ⟨0, o', rfl, ?_, ?_, ?_, ?_, ?_⟩ <;> (subst h1; first | exact ho' | rfl)
    · right
      exact ⟨m + 1, o, by simpa using hm, ho, h2, by omega, h4, h5⟩

/-- AddCredits, second loop ⊑ fold depositB -/
theorem depositFold_refines {own : Own} {tr : TxRec} {blk : BlockMeta} (os : List Out) :
    ∀ (j : Nat) (s : Store) (B : Book), Agree s B →
      Agree (((ownedFrom own os j).filter (fun r => r.out.cls.isStaking || r.out.cls.isBinding)).foldl
              (gameOne tr blk) s) (foldIdx (depositB own tr.tx blk) os j B) ∧
      SameSync s (((ownedFrom own os j).filter (fun r => r.out.cls.isStaking || r.out.cls.isBinding)).foldl
              (gameOne tr blk) s) := by
  induction os with
  | nil => intro j s B hR; exact ⟨hR, SameSync.refl s⟩
  | cons o os ih =>
    intro j s B hR
    rw [foldIdx_cons]
    cases ho : ownerOf own o with
    | none =>
      have h1 : ownedFrom own (o :: os) j = ownedFrom own os (j + 1) := by
        conv => lhs; unfold ownedFrom
        rw [ho]; rfl
      have h2 : depositB own tr.tx blk B j o = B := by unfold depositB; rw [ho]
      rw [h1, h2]; exact ih (j + 1) s B hR
    | some wc =>
      obtain ⟨w, ch⟩ := wc
      have h1 : ownedFrom own (o :: os) j = { index := j, out := o, wallet := w, change := ch } :: ownedFrom own os (j + 1) := by
        conv => lhs; unfold ownedFrom
        rw [ho]; rfl
      rw [h1]
      by_cases hd : isDeposit o.cls = true
      · have hd' : (o.cls.isStaking || o.cls.isBinding) = true := by
          unfold isDeposit at hd; rw [Bool.or_comm]; exact hd
        have h2 : depositB own tr.tx blk B j o =
            { B with game := upd B.game ⟨w, o.cls.isBinding, false, tr.tx.id, blk.height, j⟩ (some ()) } := by
          unfold depositB; rw [ho]; simp [hd]
        simp only [List.filter_cons, hd', if_true, List.foldl_cons]
        have hR1 : Agree (gameOne tr blk s { index := j, out := o, wallet := w, change := ch }) (depositB own tr.tx blk B j o) := by
          rw [h2]
          constructor
          · intro a b c; exact hR.unspent a b c
          · intro x; exact hR.credits x
          · intro x; exact hR.debits x
          · intro gk
            simp only [gameOne]
            rw [AMap.get_put, hR.game]; rfl
          · intro x; exact hR.txrecs x
          · intro x; exact hR.blocks x
          · intro x; exact hR.addrs x
        obtain ⟨hA, hS⟩ := ih (j + 1) _ _ hR1
        exact ⟨hA, SameSync.trans (b := gameOne tr blk s { index := j, out := o, wallet := w, change := ch }) ⟨rfl, rfl, rfl, rfl⟩ hS⟩
      · have hd' : (o.cls.isStaking || o.cls.isBinding) = false := by
          unfold isDeposit at hd; rw [Bool.or_comm]; simpa using hd
        have h2 : depositB own tr.tx blk B j o = B := by
          unfold depositB; rw [ho]; simp [hd]
        simp only [List.filter_cons, hd', h2]
        exact ih (j + 1) s B hR

/-- after the credits AND the deposit records of `t`'s outputs every deposit of the ledger has its record -/
theorem locG_after_outputs {p : Params} {own : Own} {t : Tx} {bm : BlockMeta} {B : Book}
    (hG : LocGx t.id B) (hfresh : ∀ j, lookupU B.L t.id j = none) :
    LocG (foldIdx (depositB own t bm) t.outs 0 (foldIdx (createB p own t bm) t.outs 0 B)) := by
  intro u hu hd
  rw [(depositFold_L own t bm t.outs 0 _).1] at hu
  by_cases hne : u.tx = t.id
  · rcases createFold_origin p own t bm t.outs 0 B u hu with h | ⟨m, o, hm, ho, h2, h3, h4, h5⟩
    · exact absurd ⟨hne, rfl⟩ (lookupU_none (hfresh u.idx) u h)
    · have := depositFold_game own t bm t.outs 0 (foldIdx (createB p own t bm) t.outs 0 B) m o u.wallet u.change hm ho
        (by rw [← h4]; exact hd)
      unfold UCoin.gameKey
      rw [h2, h3, h4, h5]; exact this
  · apply depositFold_game_mono
    -- the create fold does not touch `game`, and keeps old coins
    have hgame : ∀ (os : List Out) (j : Nat) (B' : Book), (foldIdx (createB p own t bm) os j B').game = B'.game := by
      intro os
      induction os with
      | nil => intro j B'; rfl
      | cons o os ih =>
        intro j B'
        rw [foldIdx_cons, ih]
        unfold createB
        cases ownerOf own o with
        | none => rfl
        | some wc => rfl
    rw [hgame]
    rcases createFold_origin p own t bm t.outs 0 B u hu with h | ⟨m, o, hm, ho, h2, _⟩
    · exact hG u h hne hd
    · exact absurd h2 hne

end MW.Lemmas.Ledger
