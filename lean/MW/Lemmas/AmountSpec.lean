/-
  Lemmas about the SPEC of C15 (MW.Spec.Amount): which strings it accepts, with which value;
  its formatter; round trip and minimality at spec level.
-/
import MW.Spec.Amount
import MW.Lemmas.DecRender
import MW.Lemmas.DecSplit
namespace MW.Spec.Amount
open MW MW.Dec

/-! ### shape of a byte string relative to the digit prefix -/

theorem takeWhile_isDigit_append {ip : Bytes} (h : ip.all isDigit = true) {c : UInt8} (hc : isDigit c = false)
    (fp : Bytes) : (ip ++ c :: fp).takeWhile isDigit = ip ∧ (ip ++ c :: fp).dropWhile isDigit = c :: fp := by
  induction ip with
  | nil => simp [hc]
  | cons b bs ih =>
    simp only [List.all_cons, Bool.and_eq_true] at h
    have := ih h.2
    simp [h.1, this.1, this.2]

theorem takeWhile_isDigit_all {s : Bytes} (h : s.all isDigit = true) :
    s.takeWhile isDigit = s ∧ s.dropWhile isDigit = [] := by
  induction s with
  | nil => simp
  | cons b bs ih =>
    simp only [List.all_cons, Bool.and_eq_true] at h
    have := ih h.2
    simp [h.1, this.1, this.2]

/-- every byte string is all digits, or a digit prefix followed by a first non-digit byte -/
theorem digit_prefix_cases (s : Bytes) :
    s.all isDigit = true ∨ ∃ ip c fp, s = ip ++ c :: fp ∧ ip.all isDigit = true ∧ isDigit c = false := by
  induction s with
  | nil => left; rfl
  | cons b bs ih =>
    by_cases hb : isDigit b = true
    · rcases ih with h | ⟨ip, c, fp, e, h1, h2⟩
      · left; simp [hb, h]
      · right; exact ⟨b :: ip, c, fp, by rw [e]; rfl, by simp [hb, h1], h2⟩
    · right; exact ⟨[], b, bs, rfl, rfl, by simpa using hb⟩

/-! ### Spec.parse on each shape -/

theorem parse_digits {s : Bytes} (h : s.all isDigit = true) :
    parse s = if s.isEmpty then none else value s [] := by
  unfold parse
  rw [(takeWhile_isDigit_all h).1, (takeWhile_isDigit_all h).2]

theorem parse_point {ip : Bytes} (h : ip.all isDigit = true) (fp : Bytes) :
    parse (ip ++ dot :: fp) =
      if fp.all isDigit && !(ip.isEmpty && fp.isEmpty) then value ip fp else none := by
  unfold parse
  have := takeWhile_isDigit_append h not_isDigit_dot fp
  rw [this.1, this.2]
  simp

theorem parse_other {ip : Bytes} (h : ip.all isDigit = true) {c : UInt8} (hc : isDigit c = false)
    (hd : c ≠ dot) (fp : Bytes) : parse (ip ++ c :: fp) = none := by
  unfold parse
  have := takeWhile_isDigit_append h hc fp
  rw [this.1, this.2]
  simp [hd]

/-- accepted strings have one of the two shapes `i` or `i.f` (with `i.`, `.f` as special cases) -/
theorem parse_some_shape {s : Bytes} {v : Nat} (h : parse s = some v) :
    (s.all isDigit = true ∧ s ≠ [] ∧ value s [] = some v) ∨
    (∃ ip fp, s = ip ++ dot :: fp ∧ ip.all isDigit = true ∧ fp.all isDigit = true ∧
      (ip ≠ [] ∨ fp ≠ []) ∧ value ip fp = some v) := by
  rcases digit_prefix_cases s with hs | ⟨ip, c, fp, e, h1, h2⟩
  · left
    rw [parse_digits hs] at h
    by_cases he : s = []
    · subst he; simp at h
    · refine ⟨hs, he, ?_⟩
      have : s.isEmpty = false := by simpa using he
      simpa [this] using h
  · right
    by_cases hd : c = dot
    · subst hd; subst e
      rw [parse_point h1] at h
      by_cases hc : (fp.all isDigit && !(ip.isEmpty && fp.isEmpty)) = true
      · rw [if_pos hc] at h
        simp only [Bool.and_eq_true, Bool.not_eq_true', Bool.and_eq_false_iff] at hc
        refine ⟨ip, fp, rfl, h1, hc.1, ?_, h⟩
        rcases hc.2 with h3 | h3
        · left; simpa using h3
        · right; simpa using h3
      · rw [if_neg hc] at h; exact absurd h (by simp)
    · subst e; rw [parse_other h1 h2 hd] at h; exact absurd h (by simp)


/-! ### what the spec can never accept -/

theorem parse_none_of_foreign_byte {s : Bytes} {b : UInt8} (hb : b ∈ s) (h1 : isDigit b = false)
    (h2 : b ≠ dot) : parse s = none := by
  cases hp : parse s with
  | none => rfl
  | some v =>
    exfalso
    rcases parse_some_shape hp with ⟨hs, _, _⟩ | ⟨ip, fp, e, hip, hfp, _, _⟩
    · have := List.all_eq_true.mp hs b hb; rw [h1] at this; exact absurd this (by decide)
    · subst e
      rcases List.mem_append.mp hb with h | h
      · have := List.all_eq_true.mp hip b h; rw [h1] at this; exact absurd this (by decide)
      · rcases List.mem_cons.mp h with h | h
        · exact h2 h
        · have := List.all_eq_true.mp hfp b h; rw [h1] at this; exact absurd this (by decide)

theorem parse_none_of_two_points {s : Bytes} (h : 2 ≤ s.count dot) : parse s = none := by
  cases hp : parse s with
  | none => rfl
  | some v =>
    exfalso
    rcases parse_some_shape hp with ⟨hs, _, _⟩ | ⟨ip, fp, e, hip, hfp, _, _⟩
    · rw [count_dot_of_all_isDigit hs] at h; omega
    · subst e
      rw [List.count_append, List.count_cons_self, count_dot_of_all_isDigit hip,
        count_dot_of_all_isDigit hfp] at h
      omega

theorem parse_none_of_no_digit {s : Bytes} (h : ∀ b ∈ s, isDigit b = false) : parse s = none := by
  cases hp : parse s with
  | none => rfl
  | some v =>
    exfalso
    have key : ∀ x : Bytes, x ≠ [] → x.all isDigit = true → (∀ b ∈ x, b ∈ s) → False := by
      intro x hx hall hsub
      cases x with
      | nil => exact hx rfl
      | cons b r =>
        have h1 := List.all_eq_true.mp hall b (by simp)
        rw [h b (hsub b (by simp))] at h1
        exact absurd h1 (by decide)
    rcases parse_some_shape hp with ⟨hs, hne, _⟩ | ⟨ip, fp, e, hip, hfp, hne, _⟩
    · exact key s hne hs (fun _ hb => hb)
    · subst e
      rcases hne with hne | hne
      · exact key ip hne hip (fun b hb => List.mem_append.mpr (Or.inl hb))
      · exact key fp hne hfp (fun b hb => List.mem_append.mpr (Or.inr (List.mem_cons_of_mem _ hb)))

/-! ### Spec.value -/

theorem value_def (ip fp : Bytes) :
    value ip fp =
      if (trimRight0 fp).length > 8 then none
      else if ofDigits ip * 10 ^ 8 + ofDigits (trimRight0 fp) * 10 ^ (8 - (trimRight0 fp).length) ≤ maxAmount
        then some (ofDigits ip * 10 ^ 8 + ofDigits (trimRight0 fp) * 10 ^ (8 - (trimRight0 fp).length))
        else none := rfl

theorem value_eq_some {ip fp : Bytes} {v : Nat} :
    value ip fp = some v ↔
      (trimRight0 fp).length ≤ 8 ∧
      v = ofDigits ip * 10 ^ 8 + ofDigits (trimRight0 fp) * 10 ^ (8 - (trimRight0 fp).length) ∧
      v ≤ maxAmount := by
  unfold value
  by_cases h : (trimRight0 fp).length > 8
  · simp [h]
  · simp only [h, if_false]
    by_cases h2 : ofDigits ip * 10 ^ 8 + ofDigits (trimRight0 fp) * 10 ^ (8 - (trimRight0 fp).length) ≤ maxAmount
    · simp only [h2, if_true, Option.some.injEq]
      constructor
      · intro e; subst e; exact ⟨by omega, rfl, h2⟩
      · intro ⟨_, e, _⟩; exact e.symm
    · simp only [h2, if_false]
      constructor
      · intro e; exact absurd e (by simp)
      · intro ⟨_, e, h3⟩; subst e; exact absurd h3 h2

/-- the fractional contribution is below one MASS -/
theorem frac_lt {x : Bytes} (h : x.all isDigit = true) (hl : x.length ≤ 8) :
    ofDigits x * 10 ^ (8 - x.length) < 10 ^ 8 := by
  have h1 := ofDigits_lt h
  have h2 : 10 ^ 8 = 10 ^ x.length * 10 ^ (8 - x.length) := by
    rw [← Nat.pow_add]; congr 1; omega
  rw [h2]
  exact Nat.mul_lt_mul_of_pos_right h1 (Nat.pow_pos (by omega))

/-- the accepted value is exactly (the rational number written `ip.fp`) × 10^8:
    `v · 10^|fp| = (the integer written ip++fp) · 10^8` -/
theorem value_exact {ip fp : Bytes} {v : Nat} (h : value ip fp = some v) :
    v * 10 ^ fp.length = ofDigits (ip ++ fp) * 10 ^ 8 := by
  rw [value_eq_some] at h
  obtain ⟨hl, hv, _⟩ := h
  have hL := trimRight0_length_le fp
  have hX := ofDigits_trimRight0 fp
  rw [ofDigits_append, ← hX, hv]
  generalize ofDigits (trimRight0 fp) = X
  generalize ofDigits ip = I
  have hP : 10 ^ (8 - (trimRight0 fp).length) * 10 ^ fp.length
      = 10 ^ (fp.length - (trimRight0 fp).length) * 10 ^ 8 := by
    rw [← Nat.pow_add, ← Nat.pow_add]; congr 1; omega
  rw [Nat.add_mul, Nat.add_mul, Nat.mul_assoc X, Nat.mul_assoc X, hP]
  ring

/-! ### Spec.format -/

theorem pad8_eq {r : Nat} (h : r < 10 ^ 8) : pad8 r = digitsN 8 r := by
  unfold pad8
  exact zeros_append_render (by omega) h

theorem format_eq (m : Nat) :
    format m = if m % 10 ^ 8 = 0 then render (m / 10 ^ 8)
               else render (m / 10 ^ 8) ++ dot :: trimRight0 (digitsN 8 (m % 10 ^ 8)) := by
  simp only [format]
  by_cases h : m % 10 ^ 8 = 0
  · rw [if_pos h, if_pos h]
  · rw [if_neg h, if_neg h, pad8_eq (Nat.mod_lt _ (by omega))]
    simp only [List.append_assoc, List.singleton_append]

theorem frac_ne_nil {r : Nat} (h0 : r ≠ 0) (h : r < 10 ^ 8) : trimRight0 (digitsN 8 r) ≠ [] := by
  intro e
  have h1 := eq_zeros_of_trimRight0_nil e
  have h2 := congrArg ofDigits h1
  rw [ofDigits_digitsN, ofDigits_zeros, Nat.mod_eq_of_lt h] at h2
  exact h0 h2

/-- shape of the formatted string: canonical integer part, then nothing or a point and 1–8 digits
    not ending in `'0'` -/
theorem format_structure (m : Nat) :
    ∃ ip fp : Bytes, ip = render (m / 10 ^ 8) ∧ fp = trimRight0 (digitsN 8 (m % 10 ^ 8)) ∧
      fp.all isDigit = true ∧ fp.length ≤ 8 ∧ (∀ init b, fp = init ++ [b] → b ≠ c0) ∧
      ((fp = [] ∧ m % 10 ^ 8 = 0 ∧ format m = ip) ∨ (fp ≠ [] ∧ m % 10 ^ 8 ≠ 0 ∧ format m = ip ++ dot :: fp)) := by
  refine ⟨_, _, rfl, rfl, trimRight0_all (digitsN_all_isDigit _ _), ?_, trimRight0_getLast _, ?_⟩
  · have := trimRight0_length_le (digitsN 8 (m % 10 ^ 8)); rw [digitsN_length] at this; exact this
  · rw [format_eq]
    by_cases h : m % 10 ^ 8 = 0
    · left; rw [h]; exact ⟨by rw [digitsN_zero_right, trimRight0_zeros], rfl, by rw [if_pos rfl]⟩
    · right; exact ⟨frac_ne_nil h (Nat.mod_lt _ (by omega)), h, by rw [if_neg h]⟩

/-- no sign or any other foreign byte, at most one point -/
theorem format_bytes (m : Nat) : (∀ b ∈ format m, isDigit b = true ∨ b = dot) ∧ (format m).count dot ≤ 1 := by
  obtain ⟨ip, fp, hip, _, hfpD, _, _, hcase⟩ := format_structure m
  have hipD : ip.all isDigit = true := by rw [hip]; exact render_all_isDigit _
  rcases hcase with ⟨_, _, e⟩ | ⟨_, _, e⟩
  · rw [e]
    exact ⟨fun b hb => Or.inl (List.all_eq_true.mp hipD b hb), by rw [count_dot_of_all_isDigit hipD]; omega⟩
  · rw [e]
    constructor
    · intro b hb
      rcases List.mem_append.mp hb with h | h
      · exact Or.inl (List.all_eq_true.mp hipD b h)
      · rcases List.mem_cons.mp h with h | h
        · exact Or.inr h
        · exact Or.inl (List.all_eq_true.mp hfpD b h)
    · rw [List.count_append, List.count_cons_self, count_dot_of_all_isDigit hipD,
        count_dot_of_all_isDigit hfpD]

/-- the string starts with a digit (so: no sign, no bare leading point, not empty) -/
theorem format_head_digit (m : Nat) : ∃ d rest, format m = d :: rest ∧ isDigit d = true := by
  obtain ⟨ip, fp, hip, _, _, _, _, hcase⟩ := format_structure m
  have hipD : ip.all isDigit = true := by rw [hip]; exact render_all_isDigit _
  have hne : ip ≠ [] := by rw [hip]; exact render_ne_nil _
  cases hi : ip with
  | nil => exact absurd hi hne
  | cons d r =>
    rw [hi] at hipD
    have hd : isDigit d = true := List.all_eq_true.mp hipD d (by simp)
    rcases hcase with ⟨_, _, e⟩ | ⟨_, _, e⟩
    · exact ⟨d, r, by rw [e, hi], hd⟩
    · exact ⟨d, r ++ dot :: fp, by rw [e, hi]; rfl, hd⟩

/-- no leading zero except a single `0` integer part -/
theorem format_no_leading_zero {m : Nat} {rest : Bytes} (h : format m = c0 :: rest) :
    rest = [] ∨ ∃ r', rest = dot :: r' := by
  obtain ⟨ip, fp, hip, _, _, _, _, hcase⟩ := format_structure m
  rcases hcase with ⟨_, _, e⟩ | ⟨_, _, e⟩
  · rw [e, hip] at h
    exact Or.inl (render_head_c0 h).2
  · rw [e] at h
    cases hi : ip with
    | nil => rw [hi] at hip; exact absurd hip.symm (render_ne_nil _)
    | cons d r =>
      rw [hi] at h hip
      injection h with h1 h2
      subst h1
      have := (render_head_c0 hip.symm).2
      subst this
      exact Or.inr ⟨fp, h2.symm⟩

/-- the string ends with a digit (no bare trailing point), and if it has a point the last digit is not `0` -/
theorem format_last (m : Nat) :
    ∃ init b, format m = init ++ [b] ∧ isDigit b = true ∧ (dot ∈ format m → b ≠ c0) := by
  obtain ⟨ip, fp, hip, _, hfpD, _, hlast, hcase⟩ := format_structure m
  have hipD : ip.all isDigit = true := by rw [hip]; exact render_all_isDigit _
  have hne : ip ≠ [] := by rw [hip]; exact render_ne_nil _
  rcases hcase with ⟨_, _, e⟩ | ⟨hfne, _, e⟩
  · rcases List.eq_nil_or_concat ip with h | ⟨init, b, h⟩
    · exact absurd h hne
    · rw [List.concat_eq_append] at h
      refine ⟨init, b, by rw [e, h], ?_, ?_⟩
      · exact List.all_eq_true.mp hipD b (by rw [h]; simp)
      · intro hd; rw [e] at hd
        exact absurd rfl (ne_dot_of_isDigit (List.all_eq_true.mp hipD dot hd))
  · rcases List.eq_nil_or_concat fp with h | ⟨init, b, h⟩
    · exact absurd h hfne
    · rw [List.concat_eq_append] at h
      refine ⟨ip ++ dot :: init, b, by rw [e, h]; simp, ?_, fun _ => hlast init b h⟩
      exact List.all_eq_true.mp hfpD b (by rw [h]; simp)

/-! ### round trip at spec level -/

theorem parse_format {m : Nat} (hm : m ≤ maxAmount) : parse (format m) = some m := by
  rw [format_eq]
  by_cases h : m % 10 ^ 8 = 0
  · rw [if_pos h, parse_digits (render_all_isDigit _)]
    rw [render_isEmpty]
    simp only [Bool.false_eq_true, if_false]
    rw [value_eq_some]
    refine ⟨by simp [trimRight0_nil], ?_, hm⟩
    rw [ofDigits_render, trimRight0_nil, ofDigits_nil]
    omega
  · rw [if_neg h, parse_point (render_all_isDigit _)]
    have hfp : (trimRight0 (digitsN 8 (m % 10 ^ 8))).all isDigit = true :=
      trimRight0_all (digitsN_all_isDigit _ _)
    rw [hfp, render_isEmpty]
    simp only [Bool.false_and, Bool.not_false, Bool.and_self, if_true]
    rw [value_eq_some, trimRight0_idem]
    have hl := trimRight0_length_le (digitsN 8 (m % 10 ^ 8))
    rw [digitsN_length] at hl
    refine ⟨hl, ?_, hm⟩
    have := ofDigits_trimRight0 (digitsN 8 (m % 10 ^ 8))
    rw [digitsN_length] at this
    rw [ofDigits_render, this, ofDigits_digitsN, Nat.mod_mod]
    omega

/-! ### minimality of the formatted string -/

/-- what the formatter prints for an accepted `ip.fp` -/
theorem format_of_value {ip fp : Bytes} {m : Nat} (hfp : fp.all isDigit = true)
    (hv : value ip fp = some m) :
    format m = if ofDigits (trimRight0 fp) = 0 then render (ofDigits ip)
               else render (ofDigits ip) ++ dot :: trimRight0 fp := by
  rw [value_eq_some] at hv
  obtain ⟨hl, hm, _⟩ := hv
  have hx : (trimRight0 fp).all isDigit = true := trimRight0_all hfp
  have hF := frac_lt hx hl
  generalize hxe : trimRight0 fp = x at *
  have hq : m / 10 ^ 8 = ofDigits ip := by omega
  have hr : m % 10 ^ 8 = ofDigits x * 10 ^ (8 - x.length) := by omega
  rw [format_eq, hq, hr]
  have hpos : 0 < 10 ^ (8 - x.length) := Nat.pow_pos (by omega)
  by_cases h0 : ofDigits x = 0
  · simp [h0]
  · have : ofDigits x * 10 ^ (8 - x.length) ≠ 0 := Nat.mul_ne_zero h0 (by omega)
    rw [if_neg this, if_neg h0]
    have key : digitsN 8 (ofDigits x * 10 ^ (8 - x.length)) = x ++ zeros (8 - x.length) := by
      have := digitsN_mul_pow x.length (8 - x.length) (ofDigits x)
      rw [digitsN_ofDigits hx] at this
      rw [← this]; congr 1; omega
    rw [key, trimRight0_append_zeros, ← hxe, trimRight0_idem]

theorem format_length_le_succ {s : Bytes} {m : Nat} (h : parse s = some m) :
    (format m).length ≤ s.length + 1 ∧ ((∀ rest, s ≠ dot :: rest) → (format m).length ≤ s.length) := by
  rcases parse_some_shape h with ⟨hs, hne, hv⟩ | ⟨ip, fp, e, hip, hfp, hne, hv⟩
  · rw [format_of_value (by rfl) hv]
    have := render_ofDigits_length_le hne hs
    simp [trimRight0_nil, ofDigits_nil]
    omega
  · subst e
    rw [format_of_value hfp hv]
    have hl := trimRight0_length_le fp
    by_cases hipe : ip = []
    · subst hipe
      simp only [ofDigits_nil, render_zero, List.nil_append, List.length_cons]
      constructor
      · split
        · simp
        · simp; omega
      · intro hh; exact absurd rfl (hh fp)
    · have := render_ofDigits_length_le hipe hip
      have : (if ofDigits (trimRight0 fp) = 0 then render (ofDigits ip)
               else render (ofDigits ip) ++ dot :: trimRight0 fp).length ≤ (ip ++ dot :: fp).length := by
        split <;> simp <;> omega
      exact ⟨by omega, fun _ => this⟩


/-- among the accepted spellings that do not start with the point, the formatted string is the ONLY one of
    minimal length -/
theorem format_unique_shortest {s : Bytes} {m : Nat} (h : parse s = some m)
    (hd : ∀ rest, s ≠ dot :: rest) (hl : s.length ≤ (format m).length) : s = format m := by
  rcases parse_some_shape h with ⟨hs, hne, hv⟩ | ⟨ip, fp, e, hip, hfp, hne, hv⟩
  · rw [format_of_value (by rfl) hv] at hl ⊢
    rw [trimRight0_nil, ofDigits_nil, if_pos rfl] at hl ⊢
    have := render_ofDigits_length_le hne hs
    exact (render_ofDigits_eq_of_length hs (by omega)).symm
  · subst e
    have hipe : ip ≠ [] := by
      intro e; subst e; exact hd fp rfl
    have h1 := render_ofDigits_length_le hipe hip
    have h2 := trimRight0_length_le fp
    rw [format_of_value hfp hv] at hl ⊢
    by_cases hz : ofDigits (trimRight0 fp) = 0
    · rw [if_pos hz] at hl
      simp only [List.length_append, List.length_cons] at hl
      omega
    · rw [if_neg hz] at hl ⊢
      simp only [List.length_append, List.length_cons] at hl
      have e1 := render_ofDigits_eq_of_length hip (by omega)
      have e2 : trimRight0 fp = fp := by
        have hdz := trimRight0_decomp fp
        have : fp.length - (trimRight0 fp).length = 0 := by omega
        rw [this] at hdz
        simpa [zeros] using hdz.symm
      rw [e1, e2]

end MW.Spec.Amount
