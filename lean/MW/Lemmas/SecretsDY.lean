/-
  Dolev–Yao lemmas for MW.Model.Secrets: whatever can be derived from a set of terms that "may be
  public" may itself be public; hence no atomic secret is derivable from it.
-/
import MW.Model.Secrets
namespace MW.Lemmas.SecretsDY
open MW MW.Model.Secrets

theorem pubOk_of_derivable {V : List Term} (hV : ∀ t ∈ V, pubOk t = true) :
    ∀ {t : Term}, Derivable V t → pubOk t = true := by
  intro t h
  induction h with
  | ax hm => exact hV _ hm
  | pubC s => rfl
  | rndC n => rfl
  | fst _ ih => simp [pubOk] at ih; exact ih.1
  | snd _ ih => simp [pubOk] at ih; exact ih.2
  | dec _ _ ihc ihk =>
    simp [pubOk] at ihc
    rcases ihc with h | h
    · exact h
    · rw [ihk] at h; exact absurd h (by simp)
  | mkPair _ _ iha ihb => simp [pubOk, iha, ihb]
  | mkEnc _ _ _ iht => simp [pubOk, iht]
  | mkHash _ _ => rfl
  | mkKdf _ _ ihs ihp => simp [pubOk, ihs, ihp]

theorem no_secret_derivable {V : List Term} (hV : ∀ t ∈ V, pubOk t = true) (s : Sec) :
    ¬ Derivable V (.secret s) := by
  intro h
  have := pubOk_of_derivable hV h
  simp [pubOk] at this

/-- a key that may not be public is not derivable -/
theorem key_not_derivable {V : List Term} (hV : ∀ t ∈ V, pubOk t = true) {k : Term} (hk : pubOk k = false) :
    ¬ Derivable V k := by
  intro h
  have := pubOk_of_derivable hV h
  rw [hk] at this; exact absurd this (by simp)

end MW.Lemmas.SecretsDY
