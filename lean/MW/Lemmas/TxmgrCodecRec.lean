/-
  Per-record theorems for the byte codecs of the wallet buckets, instances of the generic lemmas of
  MW.Lemmas.TxmgrCodec on the REGENERATED tables MW.Gen.Codec: every `by decide` below re-checks, against what the
  Go source says today, that the writer's spans tile its buffer (`WFRec`) and that the reader looks exactly where the
  writer wrote (`Agree`).
-/
import MW.Lemmas.TxmgrCodec
namespace MW.TxmgrCodec
open MW MW.Gen.Codec MW.Model.TxmgrCodec

-- ------------------------------------------------------------------ the tables are well-formed

/-- every writer table whose spans are meant to tile the buffer does (spendCredit / unspendRawCredit overwrite a
    carried-over value and appendRawBlockRecord patches a counter: they are handled separately) -/
theorem writers_wf : ([wCanonicalOutPoint, wCanonicalUnspentKey, wExistsRawUnspentCredKey, wKeyCredit, wValueUnspentCredit,
    wValueUnminedCredit, wCreditPrefixHeight, wPutMinedBalance, wKeyDebit, wPutDebit, wValueUnspent, wKeyAddressRecord,
    wValueAddressRecord, wKeyGameHistory, wKeyUnminedGameHistory, wValueUnmined, wKeyTxRecord, wPutTxRecord,
    wTxRecordPrefixHeight, wTxRecordPrefixHeight2, wKeyBlockRecord, wValueBlockRecord, wSyncedKey, wSyncedValue,
    wFetchSyncedKey, wSyncedToValue, wResetSyncedKey, wWalletStatus, wCreditHash, wDebitHash].all WFRec) = true := by decide

/-- reader tables against the writer tables of the same record -/
theorem readers_agree :
    Agree wCanonicalOutPoint rUnminedCreditKey = true ∧ Agree wCanonicalUnspentKey rCanonicalUnspentKey = true ∧
    Agree wKeyCredit rRawCreditKey = true ∧ Agree wKeyDebit rRawCreditKey = true ∧
    Agree wValueUnspentCredit rCreditValue = true ∧ Agree wValueUnminedCredit rCreditValue = true ∧
    Agree wValueUnspentCredit rCreditAmountSpent = true ∧ Agree wValueUnspentCredit rCreditMaturityScriptHash = true ∧
    Agree wValueUnspent rBlockOfUnspent = true ∧ Agree wKeyAddressRecord rAddressKey = true ∧
    Agree wValueAddressRecord rAddressHeight = true ∧ Agree wValueAddressRecord rAddressValue = true ∧
    Agree wKeyTxRecord rTxRecordKey = true ∧ Agree wKeyTxRecord rTxRecordKeyHeight = true ∧
    Agree wPutTxRecord rTxRecordLoc = true ∧ Agree wKeyBlockRecord rBlockRecordKey = true ∧
    Agree wValueBlockRecord rBlockHashFromValue = true ∧ Agree wSyncedValue rSyncedValue = true ∧
    Agree wSyncedToValue rSyncedToValue = true ∧ Agree wSyncedToValue rResetSyncedValue = true ∧
    Agree wWalletStatus rWalletStatusValue = true ∧ Agree wValueUnmined rRawUnmined = true ∧
    Agree wKeyCredit rCreditKeyIndex = true ∧ Agree wKeyCredit rCreditKeyIndexHeight = true := by decide

-- ------------------------------------------------------------------ well-formed records (widths from the tables)

def _root_.MW.Model.TxmgrCodec.OutPointB.WF (o : OutPointB) : Bool := Fits wCanonicalOutPoint.spans o.vals
def _root_.MW.Model.TxmgrCodec.UnspentKeyB.WF (u : UnspentKeyB) : Bool := Fits wCanonicalUnspentKey.spans u.vals
def _root_.MW.Model.TxmgrCodec.CredKeyB.WF (k : CredKeyB) : Bool := Fits wKeyCredit.spans k.vals
def _root_.MW.Model.TxmgrCodec.BlockMetaB.WF (b : BlockMetaB) : Bool := Fits wValueUnspent.spans b.vals
def _root_.MW.Model.TxmgrCodec.TxRecKeyB.WF (k : TxRecKeyB) : Bool := Fits wKeyTxRecord.spans k.vals
def _root_.MW.Model.TxmgrCodec.TxLocB.WF (l : TxLocB) : Bool := Fits wPutTxRecord.spans l.vals
def _root_.MW.Model.TxmgrCodec.AddrKeyB.WF (a : AddrKeyB) : Bool := Fits wKeyAddressRecord.spans a.vals

-- ------------------------------------------------------------------ decode ∘ encode = some

theorem readUnminedCreditKey_canonicalOutPoint (o : OutPointB) (h : o.WF = true) :
    readUnminedCreditKey (canonicalOutPoint o) = some o := by
  have e := decodeBy_encode wCanonicalOutPoint rUnminedCreditKey o.vals (by decide) h (by decide)
  simp only [readUnminedCreditKey, canonicalOutPoint, e]; rfl

theorem readCanonicalUnspentKey_canonicalUnspentKey (u : UnspentKeyB) (h : u.WF = true) :
    readCanonicalUnspentKey (canonicalUnspentKey u) = some ⟨u.hash, u.index⟩ := by
  have e := decodeBy_encode wCanonicalUnspentKey rCanonicalUnspentKey u.vals (by decide) h (by decide)
  simp only [readCanonicalUnspentKey, canonicalUnspentKey, e]; rfl

theorem readRawCreditKey_keyCredit (k : CredKeyB) (h : k.WF = true) : readRawCreditKey (keyCredit k) = some k := by
  have e := decodeBy_encode wKeyCredit rRawCreditKey k.vals (by decide) h (by decide)
  simp only [readRawCreditKey, keyCredit, e]; rfl

theorem readRawCreditKey_keyDebit (k : CredKeyB) (h : Fits wKeyDebit.spans k.vals = true) :
    readRawCreditKey (keyDebit k) = some k := by
  have e := decodeBy_encode wKeyDebit rRawCreditKey k.vals (by decide) h (by decide)
  simp only [readRawCreditKey, keyDebit, e]; rfl

theorem readBlockOfUnspent_valueUnspent (b : BlockMetaB) (h : b.WF = true) :
    readBlockOfUnspent (valueUnspent b) = some b := by
  have e := decodeBy_encode wValueUnspent rBlockOfUnspent b.vals (by decide) h (by decide)
  simp only [readBlockOfUnspent, valueUnspent, e]; rfl

theorem readTxRecordKey_keyTxRecord (k : TxRecKeyB) (h : k.WF = true) :
    readTxRecordKey (keyTxRecord k) = some k.block := by
  have e := decodeBy_encode wKeyTxRecord rTxRecordKey k.vals (by decide) h (by decide)
  simp only [readTxRecordKey, keyTxRecord, e]; rfl

theorem readTxRecordLoc_valueTxRecord (l : TxLocB) (h : l.WF = true) : readTxRecordLoc (valueTxRecord l) = some l := by
  have e := decodeBy_encode wPutTxRecord rTxRecordLoc l.vals (by decide) h (by decide)
  simp only [readTxRecordLoc, valueTxRecord, e]; rfl

theorem readBlockRecordKey_keyBlockRecord (ht : Nat) (h : Fits wKeyBlockRecord.spans [.n ht] = true) :
    readBlockRecordKey (keyBlockRecord ht) = some ht := by
  have e := decodeBy_encode wKeyBlockRecord rBlockRecordKey [.n ht] (by decide) h (by decide)
  simp only [readBlockRecordKey, keyBlockRecord, e]; rfl

theorem readAddressHeight_valueAddressRecord (ht : Nat) (h : Fits wValueAddressRecord.spans [.n ht] = true) :
    readAddressHeight (valueAddressRecord ht) = some ht := by
  have e := decodeBy_encode wValueAddressRecord rAddressHeight [.n ht] (by decide) h (by decide)
  simp only [readAddressHeight, valueAddressRecord, e]; rfl

theorem readAddressKey_keyAddressRecord (a : AddrKeyB) (h : a.WF = true) :
    readAddressKey (encode wKeyAddressRecord a.vals) = some (a.cls, a.addr) := by
  have e := decodeBy_encode wKeyAddressRecord rAddressKey a.vals (by decide) h (by decide)
  simp only [readAddressKey, e]; rfl

theorem readSyncedValue_valueSynced (hash : Bytes) (t : Nat) (h : Fits wSyncedValue.spans [.b hash, .n t] = true) :
    readSyncedValue (valueSynced hash t) = some (hash, t) := by
  have e := decodeBy_encode wSyncedValue rSyncedValue [.b hash, .n t] (by decide) h (by decide)
  simp only [readSyncedValue, valueSynced, e]; rfl

theorem readSyncedTo_valueSyncedTo (ht : Nat) (h : Fits wSyncedToValue.spans [.n ht] = true) :
    readSyncedTo (valueSyncedTo ht) = some ht := by
  have e := decodeBy_encode wSyncedToValue rSyncedToValue [.n ht] (by decide) h (by decide)
  simp only [readSyncedTo, valueSyncedTo, e]; rfl

-- ------------------------------------------------------------------ the pending record

theorem int64OfU64_unixU64 (t : Int) (h1 : -(2 ^ 63 : Int) ≤ t) (h2 : t < 2 ^ 63) : int64OfU64 (unixU64 t) = t := by
  unfold int64OfU64 unixU64
  by_cases hneg : t < 0
  · have e : t % (2 ^ 64 : Int) = t + 2 ^ 64 := by
      rw [Int.emod_def]
      have : t / (2 ^ 64 : Int) = -1 := by omega
      rw [this]; omega
    rw [e]
    have hn : ((t + 2 ^ 64).toNat : Int) = t + 2 ^ 64 := Int.toNat_of_nonneg (by omega)
    split
    · rename_i hlt
      have : ((t + 2 ^ 64).toNat : Int) < 2 ^ 63 := by exact_mod_cast hlt
      omega
    · omega
  · have e : t % (2 ^ 64 : Int) = t := Int.emod_eq_of_lt (by omega) (by omega)
    rw [e]
    have hn : (t.toNat : Int) = t := Int.toNat_of_nonneg (by omega)
    split
    · omega
    · rename_i hge
      have : ¬ ((t.toNat : Int) < 2 ^ 63) := by
        intro hlt; apply hge; exact_mod_cast hlt
      omega

theorem unixU64_lt (t : Int) : unixU64 t < 256 ^ 8 := by
  unfold unixU64
  have h := Int.emod_lt_of_pos t (show (0 : Int) < 2 ^ 64 by decide)
  have h0 := Int.emod_nonneg t (show (2 ^ 64 : Int) ≠ 0 by decide)
  have : ((t % (2 ^ 64 : Int)).toNat : Int) = t % 2 ^ 64 := Int.toNat_of_nonneg h0
  have h256 : (256 ^ 8 : Nat) = 2 ^ 64 := by decide
  rw [h256]
  omega

/-- **the pending record reads back**: what `valueUnmined` writes for ANY serialized transaction and ANY received time
    (an int64 number of seconds), `readRawUnmined` splits into exactly that time and exactly those transaction bytes -/
theorem readRawUnmined_valueUnmined (ser : Bytes) (t : Int) (h1 : -(2 ^ 63 : Int) ≤ t) (h2 : t < 2 ^ 63) :
    readRawUnmined (valueUnmined ser t) = some (t, ser) := by
  have hf : Fits wValueUnmined.spans [.n (unixU64 t), .b ser] = true := by
    have := unixU64_lt t
    simp [Fits, FitsV, wValueUnmined, Kind.isBytes, this]
  have e := decodeBy_encode wValueUnmined rRawUnmined [.n (unixU64 t), .b ser] (by decide) hf (by decide)
  simp only [readRawUnmined, valueUnmined, e]
  show some (int64OfU64 (unixU64 t), ser) = some (t, ser)
  rw [int64OfU64_unixU64 t h1 h2]

-- ------------------------------------------------------------------ injectivity of the keys

theorem keyCredit_inj (k k' : CredKeyB) (h : k.WF = true) (h' : k'.WF = true) (he : keyCredit k = keyCredit k') : k = k' := by
  have := encode_inj wKeyCredit k.vals k'.vals (by decide) h h' he
  cases k with | mk a b c => cases k' with | mk a' b' c' =>
  cases b; cases b'
  simp only [CredKeyB.vals, List.cons.injEq, Val.b.injEq, Val.n.injEq, and_true] at this
  obtain ⟨rfl, rfl, rfl, rfl⟩ := this; rfl

theorem canonicalUnspentKey_inj (u u' : UnspentKeyB) (h : u.WF = true) (h' : u'.WF = true)
    (he : canonicalUnspentKey u = canonicalUnspentKey u') : u = u' := by
  have := encode_inj wCanonicalUnspentKey u.vals u'.vals (by decide) h h' he
  cases u; cases u'
  simp only [UnspentKeyB.vals, List.cons.injEq, Val.b.injEq, Val.n.injEq, and_true] at this
  obtain ⟨rfl, rfl, rfl⟩ := this; rfl

theorem canonicalOutPoint_inj (o o' : OutPointB) (h : o.WF = true) (h' : o'.WF = true)
    (he : canonicalOutPoint o = canonicalOutPoint o') : o = o' := by
  have := encode_inj wCanonicalOutPoint o.vals o'.vals (by decide) h h' he
  cases o; cases o'
  simp only [OutPointB.vals, List.cons.injEq, Val.b.injEq, Val.n.injEq, and_true] at this
  obtain ⟨rfl, rfl⟩ := this; rfl

theorem keyTxRecord_inj (k k' : TxRecKeyB) (h : k.WF = true) (h' : k'.WF = true) (he : keyTxRecord k = keyTxRecord k') : k = k' := by
  have := encode_inj wKeyTxRecord k.vals k'.vals (by decide) h h' he
  cases k with | mk a b => cases k' with | mk a' b' =>
  cases b; cases b'
  simp only [TxRecKeyB.vals, List.cons.injEq, Val.b.injEq, Val.n.injEq, and_true] at this
  obtain ⟨rfl, rfl, rfl⟩ := this; rfl

theorem keyAddressRecord_inj (a a' : AddrKeyB) (h : a.WF = true) (h' : a'.WF = true)
    (he : encode wKeyAddressRecord a.vals = encode wKeyAddressRecord a'.vals) : a = a' := by
  have := encode_inj wKeyAddressRecord a.vals a'.vals (by decide) h h' he
  cases a; cases a'
  simp only [AddrKeyB.vals, List.cons.injEq, Val.b.injEq, Val.n.injEq, and_true] at this
  obtain ⟨rfl, rfl, rfl⟩ := this; rfl

-- ------------------------------------------------------------------ prefix scans

/-- credits of a transaction (getCreditsByTxHash, getLastCreditByTxHashIndexTillHeight: prefix = the 32 hash bytes) -/
theorem scan_credits_by_tx (h : Bytes) (k : CredKeyB) (hh : h.length = 32) (hk : k.WF = true) :
    h.isPrefixOf (keyCredit k) = true ↔ k.hash = h := by
  have hp : Fits (wKeyCredit.spans.take 1) [.b h] = true := by simp [Fits, FitsV, wKeyCredit, Kind.isBytes, hh]
  have := prefix_exact_encode wKeyCredit 1 [.b h] k.vals (by decide) (by decide) hp hk
  have hfl : flat (wKeyCredit.spans.take 1) [.b h] = h := by
    simp [flat, wKeyCredit, spanBytes]; exact List.take_of_length_le (by omega)
  rw [hfl] at this
  rw [keyCredit, this]
  simp [CredKeyB.vals]; exact eq_comm

/-- credits of a transaction in a block height (getCreditsByTxHashHeight: prefix = hash ‖ height) -/
theorem scan_credits_by_tx_height (h : Bytes) (ht : Nat) (k : CredKeyB) (hh : h.length = 32) (hht : ht < 256 ^ 8)
    (hk : k.WF = true) :
    (creditPrefixHeight h ht).isPrefixOf (keyCredit k) = true ↔ k.hash = h ∧ k.block.height = ht := by
  have hp : Fits (wKeyCredit.spans.take 2) [.b h, .n ht] = true := by
    simp [Fits, FitsV, wKeyCredit, Kind.isBytes, hh, hht]
  have hp' : Fits wCreditPrefixHeight.spans [.b h, .n ht] = true := by
    simp [Fits, FitsV, wCreditPrefixHeight, Kind.isBytes, hh, hht]
  have := prefix_exact_encode wKeyCredit 2 [.b h, .n ht] k.vals (by decide) (by decide) hp hk
  have hfl : creditPrefixHeight h ht = flat (wKeyCredit.spans.take 2) [.b h, .n ht] := by
    rw [creditPrefixHeight, encode_eq_flat _ _ (by decide) hp']; rfl
  rw [hfl, keyCredit, this]
  simp [CredKeyB.vals]
  constructor
  · rintro ⟨rfl, rfl⟩; exact ⟨rfl, rfl⟩
  · rintro ⟨rfl, rfl⟩; exact ⟨rfl, rfl⟩

/-- tx records of a transaction at a height (fetchRawTxRecordByTxHashHeight / …ByHashHeight) -/
theorem scan_txrec_by_tx_height (h : Bytes) (ht : Nat) (k : TxRecKeyB) (hh : h.length = 32) (hht : ht < 256 ^ 8)
    (hk : k.WF = true) :
    (txRecordPrefixHeight h ht).isPrefixOf (keyTxRecord k) = true ↔ k.hash = h ∧ k.block.height = ht := by
  have hp : Fits (wKeyTxRecord.spans.take 2) [.b h, .n ht] = true := by
    simp [Fits, FitsV, wKeyTxRecord, Kind.isBytes, hh, hht]
  have hp' : Fits wTxRecordPrefixHeight.spans [.b h, .n ht] = true := by
    simp [Fits, FitsV, wTxRecordPrefixHeight, Kind.isBytes, hh, hht]
  have := prefix_exact_encode wKeyTxRecord 2 [.b h, .n ht] k.vals (by decide) (by decide) hp hk
  have hfl : txRecordPrefixHeight h ht = flat (wKeyTxRecord.spans.take 2) [.b h, .n ht] := by
    rw [txRecordPrefixHeight, encode_eq_flat _ _ (by decide) hp']; rfl
  rw [hfl, keyTxRecord, this]
  simp [TxRecKeyB.vals]
  constructor
  · rintro ⟨rfl, rfl⟩; exact ⟨rfl, rfl⟩
  · rintro ⟨rfl, rfl⟩; exact ⟨rfl, rfl⟩

/-- unspent outputs of a wallet (RemoveUnspentByWalletId: prefix = the 42 id bytes) -/
theorem scan_unspent_by_wallet (w : Bytes) (u : UnspentKeyB) (hw : w.length = 42) (hu : u.WF = true) :
    w.isPrefixOf (canonicalUnspentKey u) = true ↔ u.wallet = w := by
  have hp : Fits (wCanonicalUnspentKey.spans.take 1) [.b w] = true := by
    simp [Fits, FitsV, wCanonicalUnspentKey, Kind.isBytes, hw]
  have := prefix_exact_encode wCanonicalUnspentKey 1 [.b w] u.vals (by decide) (by decide) hp hu
  have hfl : flat (wCanonicalUnspentKey.spans.take 1) [.b w] = w := by
    simp [flat, wCanonicalUnspentKey, spanBytes]; exact List.take_of_length_le (by omega)
  rw [hfl] at this
  rw [canonicalUnspentKey, this]
  simp [UnspentKeyB.vals]; exact eq_comm

/-- addresses of a wallet (fetchAddressesByWalletId / RemoveAddressByWalletId: prefix = the 42 id bytes) -/
theorem scan_addresses_by_wallet (w : Bytes) (a : AddrKeyB) (hw : w.length = 42) (ha : a.WF = true) :
    w.isPrefixOf (encode wKeyAddressRecord a.vals) = true ↔ a.wallet = w := by
  have hp : Fits (wKeyAddressRecord.spans.take 1) [.b w] = true := by
    simp [Fits, FitsV, wKeyAddressRecord, Kind.isBytes, hw]
  have := prefix_exact_encode wKeyAddressRecord 1 [.b w] a.vals (by decide) (by decide) hp ha
  have hfl : flat (wKeyAddressRecord.spans.take 1) [.b w] = w := by
    simp [flat, wKeyAddressRecord, spanBytes]; exact List.take_of_length_le (by omega)
  rw [hfl] at this
  rw [this]
  simp [AddrKeyB.vals]; exact eq_comm

end MW.TxmgrCodec
