/-
  LedBytes, part 2 — the codec of every mined bucket (and of the pending credit / deposit buckets) as a
  `MW.LedBytes.Codec`, built from the table-driven builders / readers of MW.Model.TxmgrCodec, with its laws proved
  from `decodeBy_encode` on the REGENERATED tables (every `by decide` re-checks the tables).

  Names.  The ledger model writes hashes, wallet ids, addresses as symbolic strings; the byte level has 32-byte hashes,
  42-byte wallet ids, address strings, 32-byte script hashes.  `Names` is an injective reading of each kind of byte
  string as a symbolic id (example: hex, `MW.LedBytes.hexNames`).  The abstraction is a function of the BYTES; the
  commuting lemmas quantify over byte-level arguments and name the tuple-level argument `nm… arg`.

  Where the Go code has a reader it is the decoder (readRawCreditKey, readBlockOfUnspent, readCreditValue,
  readCreditSpender, readTxRecordLoc, readAddressHeight, readSyncedValue …); where the code never reads a record back
  as a whole (unspent key: only the outpoint part; balance, address key: by prefix) the decoder is `decodeBy` on the
  WRITER's own table.
-/
import MW.Lemmas.TxmgrCodecRec
import MW.Lemmas.LedBytesAbs
import MW.Model.Ledger
namespace MW.LedBytes
open MW MW.Gen.Codec MW.Model.TxmgrCodec MW.TxmgrCodec MW.Model.Ledger

/-- an injective reading of byte strings as the symbolic ids of the ledger model, one per kind -/
structure Names where
  tx : Bytes → String
  blk : Bytes → String
  wal : Bytes → String
  adr : Bytes → String
  sh : Bytes → String
  tx_inj : ∀ a b, tx a = tx b → a = b
  blk_inj : ∀ a b, blk a = blk b → a = b
  wal_inj : ∀ a b, wal a = wal b → a = b
  adr_inj : ∀ a b, adr a = adr b → a = b

variable (N : Names)

def nmBlk (b : BlockMetaB) : BlockMeta := ⟨b.height, N.blk b.hash⟩
def nmCK (k : CredKeyB) : CredKey := ⟨N.tx k.hash, nmBlk N k.block, k.index⟩
def nmUK (u : UnspentKeyB) : Wid × TxId × Nat := (N.wal u.wallet, N.tx u.hash, u.index)
def nmOP (o : OutPointB) : TxId × Nat := (N.tx o.hash, o.index)
def nmTK (k : TxRecKeyB) : TxId × BlockMeta := (N.tx k.hash, nmBlk N k.block)
def nmAK (a : AddrKeyB) : Wid × Bool × Addr := (N.wal a.wallet, decide (a.cls = 1), N.adr a.addr)
def nmGK (g : GameKeyB) : GameKey := ⟨N.wal g.wallet, g.binding, g.withdrawn, N.tx g.hash, g.height, g.vout⟩
def nmUGK (g : GameKeyB) : Wid × Bool × TxId × Nat := (N.wal g.wallet, g.binding, N.tx g.hash, g.vout)
def nmCls : ClassB → UClass
  | .standard => .standard
  | .staking => .staking
  | .binding => .binding
def nmCredit (x : CreditValB × Option CredKeyB) : Credit :=
  { amt := x.1.amount, spent := x.1.spent, change := x.1.change, cls := nmCls x.1.cls, maturity := x.1.maturity,
    sh := N.sh x.1.scriptHash, spentBy := x.2.map (nmCK N) }

theorem nmBlk_inj {b b' : BlockMetaB} (h : nmBlk N b = nmBlk N b') : b = b' := by
  cases b; cases b'
  simp only [nmBlk, BlockMeta.mk.injEq] at h
  rw [h.1, N.blk_inj _ _ h.2]

theorem nmCK_inj {k k' : CredKeyB} (h : nmCK N k = nmCK N k') : k = k' := by
  cases k; cases k'
  simp only [nmCK, CredKey.mk.injEq] at h
  rw [N.tx_inj _ _ h.1, nmBlk_inj N h.2.1, h.2.2]

-- ------------------------------------------------------------------ decoders by the writer's own table

def decUnspentKey (k : Bytes) : Option UnspentKeyB :=
  match decodeBy wCanonicalUnspentKey k with
  | some [.b w, .b h, .n i] => if k.length = wCanonicalUnspentKey.size then some ⟨w, h, i⟩ else none
  | _ => none

def decTxRecKey (k : Bytes) : Option TxRecKeyB :=
  match decodeBy wKeyTxRecord k with
  | some [.b h, .n ht, .b bh] => some ⟨h, ⟨ht, bh⟩⟩
  | _ => none

def decBalance (v : Bytes) : Option Nat :=
  match decodeBy wPutMinedBalance v with
  | some [.n a] => some a
  | _ => none

def decAddrKey (k : Bytes) : Option AddrKeyB :=
  match decodeBy wKeyAddressRecord k with
  | some [.b w, .n c, .b a] => some ⟨w, c, a⟩
  | _ => none

def decDebitValue (v : Bytes) : Option (Nat × CredKeyB) :=
  match decodeBy wPutDebit v with
  | some [.n a, .b ck] => (readRawCreditKey ck).map (fun k => (a, k))
  | _ => none

def decGameKey (k : Bytes) : Option GameKeyB :=
  match decodeBy wKeyGameHistory k with
  | some [.b w, .n f1, .n f2, .b h, .n ht, .n vo] => some ⟨w, f1 ≠ 0, f2 ≠ 0, h, ht, vo⟩
  | _ => none

def decUGameKey (k : Bytes) : Option GameKeyB :=
  match decodeBy wKeyUnminedGameHistory k with
  | some [.b w, .n f1, .n _, .b h, .n vo] => some ⟨w, f1 ≠ 0, false, h, 0, vo⟩
  | _ => none

def decSyncedKey (k : Bytes) : Option Nat :=
  match decodeBy wSyncedKey k with
  | some [.n h] => some h
  | _ => none

-- ------------------------------------------------------------------ `u`: unspent index

def cdU : Codec UnspentKeyB BlockMetaB (Wid × TxId × Nat) BlockMeta where
  encK := canonicalUnspentKey
  decK := decUnspentKey
  encV := valueUnspent
  decV := readBlockOfUnspent
  wfK u := u.WF = true
  wfV b := b.WF = true
  nmK := nmUK N
  nmV := nmBlk N

theorem decUnspentKey_enc (u : UnspentKeyB) (h : u.WF = true) : decUnspentKey (canonicalUnspentKey u) = some u := by
  have e := decodeBy_encode wCanonicalUnspentKey wCanonicalUnspentKey u.vals (by decide) h (by decide)
  have hl := encode_length_fixed wCanonicalUnspentKey u.vals (by decide) h (by decide)
  simp only [decUnspentKey, canonicalUnspentKey, e, hl]; rfl

theorem cdU_laws : (cdU N).Laws where
  decK_encK u h := by dsimp only [cdU] at h ⊢; exact decUnspentKey_enc u h
  decV_encV b h := by dsimp only [cdU] at h ⊢; exact readBlockOfUnspent_valueUnspent b h
  nmK_inj u u' _ _ h := by
    cases u; cases u'
    simp only [cdU, nmUK, Prod.mk.injEq] at h
    rw [N.wal_inj _ _ h.1, N.tx_inj _ _ h.2.1, h.2.2]

-- ------------------------------------------------------------------ `d`: debits

def _root_.MW.Model.TxmgrCodec.CredKeyB.WFd (k : CredKeyB) : Bool := Fits wKeyDebit.spans k.vals

def cdD : Codec CredKeyB (Nat × CredKeyB) CredKey (Nat × CredKey) where
  encK := keyDebit
  decK := readRawCreditKey
  encV x := valueDebit x.1 (keyCredit x.2)
  decV := decDebitValue
  wfK k := k.WFd = true
  wfV x := x.1 < 256 ^ 8 ∧ x.2.WF = true
  nmK := nmCK N
  nmV x := (x.1, nmCK N x.2)

theorem keyCredit_length (k : CredKeyB) (h : k.WF = true) : (keyCredit k).length = 76 :=
  encode_length_fixed wKeyCredit k.vals (by decide) h (by decide)

theorem decDebitValue_enc (a : Nat) (ck : CredKeyB) (ha : a < 256 ^ 8) (h : ck.WF = true) :
    decDebitValue (valueDebit a (keyCredit ck)) = some (a, ck) := by
  have hf : Fits wPutDebit.spans [.n a, .b (keyCredit ck)] = true := by
    simp [Fits, FitsV, wPutDebit, Kind.isBytes, ha, keyCredit_length ck h]
  have e := decodeBy_encode wPutDebit wPutDebit [.n a, .b (keyCredit ck)] (by decide) hf (by decide)
  simp only [decDebitValue, valueDebit, e]
  show (readRawCreditKey (keyCredit ck)).map (fun k => (a, k)) = some (a, ck)
  rw [readRawCreditKey_keyCredit ck h]; rfl

theorem cdD_laws : (cdD N).Laws where
  decK_encK k h := by dsimp only [cdD] at h ⊢; exact readRawCreditKey_keyDebit k h
  decV_encV x h := by dsimp only [cdD] at h ⊢; exact decDebitValue_enc x.1 x.2 h.1 h.2
  nmK_inj _ _ _ _ h := by dsimp only [cdD] at h; exact nmCK_inj N h

-- ------------------------------------------------------------------ `t`: tx records

/-- `loc`: the node's reading of a block-file location (file, offset, length, tx start, tx length) as the ledger
    model's (block id, position in the block) -/
def cdT (loc : TxLocB → BlkId × Nat) : Codec TxRecKeyB TxLocB (TxId × BlockMeta) (BlkId × Nat) where
  encK := keyTxRecord
  decK := decTxRecKey
  encV := valueTxRecord
  decV := readTxRecordLoc
  wfK k := k.WF = true
  wfV l := l.WF = true
  nmK := nmTK N
  nmV := loc

theorem decTxRecKey_enc (k : TxRecKeyB) (h : k.WF = true) : decTxRecKey (keyTxRecord k) = some k := by
  have e := decodeBy_encode wKeyTxRecord wKeyTxRecord k.vals (by decide) h (by decide)
  simp only [decTxRecKey, keyTxRecord, e]; rfl

theorem cdT_laws (loc : TxLocB → BlkId × Nat) : (cdT N loc).Laws where
  decK_encK k h := by dsimp only [cdT] at h ⊢; exact decTxRecKey_enc k h
  decV_encV l h := by dsimp only [cdT] at h ⊢; exact readTxRecordLoc_valueTxRecord l h
  nmK_inj k k' _ _ h := by
    cases k; cases k'
    simp only [cdT, nmTK, Prod.mk.injEq] at h
    rw [N.tx_inj _ _ h.1, nmBlk_inj N h.2]

-- ------------------------------------------------------------------ `bal`: mined balances

def cdBal : Codec Bytes Nat Wid Nat where
  encK w := w
  decK w := if w.length = 42 then some w else none
  encV := valueBalance
  decV := decBalance
  wfK w := w.length = 42
  wfV a := a < 256 ^ 8
  nmK := N.wal
  nmV a := a

theorem decBalance_enc (a : Nat) (h : a < 256 ^ 8) : decBalance (valueBalance a) = some a := by
  have hf : Fits wPutMinedBalance.spans [.n a] = true := by simp [Fits, FitsV, wPutMinedBalance, Kind.isBytes, h]
  have e := decodeBy_encode wPutMinedBalance wPutMinedBalance [.n a] (by decide) hf (by decide)
  simp only [decBalance, valueBalance, e]; rfl

theorem cdBal_laws : (cdBal N).Laws where
  decK_encK w h := by dsimp only [cdBal] at h ⊢; simp [h]
  decV_encV a h := by dsimp only [cdBal] at h ⊢; exact decBalance_enc a h
  nmK_inj a b _ _ h := by dsimp only [cdBal] at h; exact N.wal_inj a b h

-- ------------------------------------------------------------------ `a`: address records

def cdA : Codec AddrKeyB Nat (Wid × Bool × Addr) Nat where
  encK a := encode wKeyAddressRecord a.vals
  decK := decAddrKey
  encV := valueAddressRecord
  decV := readAddressHeight
  wfK a := a.WF = true ∧ (a.cls = 0 ∨ a.cls = 1)
  wfV h := h < 256 ^ 8
  nmK := nmAK N
  nmV h := h

theorem decAddrKey_enc (a : AddrKeyB) (h : a.WF = true) : decAddrKey (encode wKeyAddressRecord a.vals) = some a := by
  have e := decodeBy_encode wKeyAddressRecord wKeyAddressRecord a.vals (by decide) h (by decide)
  simp only [decAddrKey, e]; rfl

theorem cdA_laws : (cdA N).Laws where
  decK_encK a h := by dsimp only [cdA] at h ⊢; exact decAddrKey_enc a h.1
  decV_encV ht h := by
    dsimp only [cdA] at h ⊢
    exact readAddressHeight_valueAddressRecord ht (by simp [Fits, FitsV, wValueAddressRecord, Kind.isBytes]; exact h)
  nmK_inj a a' h h' he := by
    cases a with | mk w c ad => cases a' with | mk w' c' ad' =>
    simp only [cdA, nmAK, Prod.mk.injEq, decide_eq_decide] at he
    have hc : c = c' := by
      rcases h.2 with h0 | h1 <;> rcases h'.2 with h0' | h1' <;> simp_all
    rw [N.wal_inj _ _ he.1, hc, N.adr_inj _ _ he.2.2]

-- ------------------------------------------------------------------ `lg`, `LG`: deposit history records

def boolNat (b : Bool) : Nat := if b then 1 else 0

def _root_.MW.Model.TxmgrCodec.GameKeyB.valsM (g : GameKeyB) : List Val :=
  [.b g.wallet, .n (boolNat g.binding), .n (boolNat g.withdrawn), .b g.hash, .n g.height, .n g.vout]
def _root_.MW.Model.TxmgrCodec.GameKeyB.valsU (g : GameKeyB) : List Val :=
  [.b g.wallet, .n (boolNat g.binding), .n 0, .b g.hash, .n g.vout]
def _root_.MW.Model.TxmgrCodec.GameKeyB.WFm (g : GameKeyB) : Bool := Fits wKeyGameHistory.spans g.valsM
def _root_.MW.Model.TxmgrCodec.GameKeyB.WFu (g : GameKeyB) : Bool := Fits wKeyUnminedGameHistory.spans g.valsU

theorem keyGameHistory_eq (g : GameKeyB) : keyGameHistory g = encode wKeyGameHistory g.valsM := by
  have hb : ∀ b : Bool, flagByte (bitsAt wKeyGameHistory 42) [b] = boolNat b := by decide
  have hw : ∀ b : Bool, flagByte (bitsAt wKeyGameHistory 43) [b] = boolNat b := by decide
  simp only [keyGameHistory, wKeyGameHistory, GameKeyB.valsM]
  rw [← wKeyGameHistory, hb, hw]

theorem keyUnminedGameHistory_eq (g : GameKeyB) : keyUnminedGameHistory g = encode wKeyUnminedGameHistory g.valsU := by
  have hb : ∀ b : Bool, flagByte (bitsAt wKeyUnminedGameHistory 42) [b] = boolNat b := by decide
  simp only [keyUnminedGameHistory, wKeyUnminedGameHistory, GameKeyB.valsU]
  rw [← wKeyUnminedGameHistory, hb]

def decUnit (v : Bytes) : Option Unit := if v = Model.TxmgrCodec.valueGameHistory then some () else none

def cdG : Codec GameKeyB Unit GameKey Unit where
  encK := keyGameHistory
  decK := decGameKey
  encV _ := Model.TxmgrCodec.valueGameHistory
  decV := decUnit
  wfK g := g.WFm = true
  wfV _ := True
  nmK := nmGK N
  nmV _ := ()

theorem decGameKey_enc (g : GameKeyB) (h : g.WFm = true) : decGameKey (keyGameHistory g) = some g := by
  have e := decodeBy_encode wKeyGameHistory wKeyGameHistory g.valsM (by decide) h (by decide)
  rw [keyGameHistory_eq]
  simp only [decGameKey, e]
  cases g with | mk w b wd hh ht vo => cases b <;> cases wd <;> rfl

theorem cdG_laws : (cdG N).Laws where
  decK_encK g h := by dsimp only [cdG] at h ⊢; exact decGameKey_enc g h
  decV_encV _ _ := by simp [cdG, decUnit]
  nmK_inj g g' _ _ h := by
    cases g; cases g'
    simp only [cdG, nmGK, GameKey.mk.injEq] at h
    obtain ⟨h1, h2, h3, h4, h5, h6⟩ := h
    rw [N.wal_inj _ _ h1, h2, h3, N.tx_inj _ _ h4, h5, h6]

/-- the unmined deposit record: no height, never withdrawn -/
def cdUG : Codec GameKeyB Unit (Wid × Bool × TxId × Nat) Unit where
  encK := keyUnminedGameHistory
  decK := decUGameKey
  encV _ := Model.TxmgrCodec.valueGameHistory
  decV := decUnit
  wfK g := g.WFu = true ∧ g.withdrawn = false ∧ g.height = 0
  wfV _ := True
  nmK := nmUGK N
  nmV _ := ()

theorem decUGameKey_enc (g : GameKeyB) (h : g.WFu = true) (h1 : g.withdrawn = false) (h2 : g.height = 0) :
    decUGameKey (keyUnminedGameHistory g) = some g := by
  have e := decodeBy_encode wKeyUnminedGameHistory wKeyUnminedGameHistory g.valsU (by decide) h (by decide)
  rw [keyUnminedGameHistory_eq]
  simp only [decUGameKey, e]
  cases g with | mk w b wd hh ht vo =>
  simp only at h1 h2; subst h1; subst h2
  cases b <;> rfl

theorem cdUG_laws : (cdUG N).Laws where
  decK_encK g h := by dsimp only [cdUG] at h ⊢; exact decUGameKey_enc g h.1 h.2.1 h.2.2
  decV_encV _ _ := by simp [cdUG, decUnit]
  nmK_inj g g' hg hg' h := by
    cases g with | mk w b wd hh ht vo => cases g' with | mk w' b' wd' hh' ht' vo' =>
    simp only [cdUG, nmUGK, Prod.mk.injEq] at h
    obtain ⟨h1, h2, h3, h4⟩ := h
    have a1 := hg.2.1; have a2 := hg.2.2; have b1 := hg'.2.1; have b2 := hg'.2.2
    simp only at a1 a2 b1 b2
    rw [N.wal_inj _ _ h1, h2, N.tx_inj _ _ h3, h4, a1, a2, b1, b2]

-- ------------------------------------------------------------------ `c`, `mc`: credit values

/-- the flag byte of a credit value: the writer's bits (change, staking, binding: `valueUnspentCredit`) and the spent
    bit `spendCredit` sets; positions from the regenerated tables -/
def flagOf (spent change : Bool) (cls : ClassB) : Nat :=
  match wValueUnspentCredit.spans, wSpendCredit.spans with
  | [_, f, _, _], [_, g, _, _, _, _] =>
    (flagByte (bitsAt wValueUnspentCredit f.off) [change, cls = .staking, cls = .binding]) |||
      (if spent then flagByte (bitsAt wSpendCredit g.off) [true] else 0)
  | _, _ => 0
def credFlag (c : CreditValB) : Nat := flagOf c.spent c.change c.cls

/-- the 45-byte credit value (buckets `c` — unspent — and `mc`) -/
def enc45 (c : CreditValB) : Bytes :=
  encode wValueUnspentCredit [.n c.amount, .n (credFlag c), .n c.maturity, .b c.scriptHash]

/-- the credit value of bucket `c`: 45 bytes while unspent, 121 bytes (spender's debit key appended by `spendCredit`)
    once spent -/
def encCredit (x : CreditValB × Option CredKeyB) : Bytes :=
  match x.2 with
  | none => enc45 x.1
  | some dk => enc45 x.1 ++ keyDebit dk

def decCredit (v : Bytes) : Option (CreditValB × Option CredKeyB) :=
  match readCreditValue v with
  | none => none
  | some c =>
    if c.spent then
      match readCreditSpender v with
      | some dk => (readRawCreditKey dk).map (fun k => (c, some k))
      | none => none
    else if v.length = wValueUnspentCredit.size then some (c, none) else none

def _root_.MW.Model.TxmgrCodec.CreditValB.WF (c : CreditValB) : Prop :=
  c.amount ≤ maxAmount ∧ c.maturity < 256 ^ 4 ∧ c.scriptHash.length = 32

def wfCredit (x : CreditValB × Option CredKeyB) : Prop :=
  x.1.WF ∧ x.1.spent = x.2.isSome ∧ ∀ dk, x.2 = some dk → dk.WFd = true

def cdC : Codec CredKeyB (CreditValB × Option CredKeyB) CredKey Credit where
  encK := keyCredit
  decK := readRawCreditKey
  encV := encCredit
  decV := decCredit
  wfK k := k.WF = true
  wfV := wfCredit
  nmK := nmCK N
  nmV := nmCredit N

/-- unmined credits: outpoint ↦ 45-byte value (the spent flag of a rolled-back credit is kept, no spender) -/
def cdMC : Codec OutPointB CreditValB (TxId × Nat) Credit where
  encK := canonicalOutPoint
  decK := readUnminedCreditKey
  encV := enc45
  decV v := if v.length = wValueUnspentCredit.size then readCreditValue v else none
  wfK o := o.WF = true
  wfV c := c.WF
  nmK := nmOP N
  nmV c := nmCredit N (c, none)

-- ------------------------------------------------------------------ `b`: block records

def _root_.MW.Model.TxmgrCodec.BlockRecB.WF (r : BlockRecB) : Prop :=
  r.hash.length = 32 ∧ r.time < 256 ^ 8 ∧ r.txs ≠ [] ∧ r.txs.length < 256 ^ 4 ∧ ∀ t ∈ r.txs, t.length = 32

def cdB : Codec Nat BlockRecB Nat (BlkId × List TxId) where
  encK := keyBlockRecord
  decK := readBlockRecordKey
  encV r := (blockRecordValue r.hash r.time r.txs).getD []
  decV := readRawBlockRecordValue
  wfK h := h < 256 ^ 8
  wfV r := r.WF
  nmK h := h
  nmV r := (N.blk r.hash, r.txs.map N.tx)

-- ------------------------------------------------------------------ `ws`: wallet status

def decWalletStatus (v : Bytes) : Option (Nat × Nat) :=
  match decodeBy wWalletStatus v with
  | some [.n s, .n f] => some (s, f)
  | _ => none

def nmStatus (x : Nat × Nat) : WStatus :=
  ⟨if x.1 = 2 ^ 64 - 1 then none else some x.1, x.2 &&& walletFlagsRemove ≠ 0⟩

def cdWS : Codec Bytes (Nat × Nat) Wid WStatus where
  encK w := w
  decK w := if w.length = 42 then some w else none
  encV x := valueWalletStatus ⟨[], x.1, x.2⟩
  decV := decWalletStatus
  wfK w := w.length = 42
  wfV x := x.1 < 256 ^ 8 ∧ x.2 < 256
  nmK := N.wal
  nmV := nmStatus

theorem decWalletStatus_enc (x : Nat × Nat) (h1 : x.1 < 256 ^ 8) (h2 : x.2 < 256) :
    decWalletStatus (valueWalletStatus ⟨[], x.1, x.2⟩) = some x := by
  have hf : Fits wWalletStatus.spans [.n x.1, .n x.2] = true := by
    simp [Fits, FitsV, wWalletStatus, Kind.isBytes, h1, h2]
  have e := decodeBy_encode wWalletStatus wWalletStatus [.n x.1, .n x.2] (by decide) hf (by decide)
  simp only [decWalletStatus, valueWalletStatus, e]; rfl

theorem cdWS_laws : (cdWS N).Laws where
  decK_encK w h := by dsimp only [cdWS] at h ⊢; simp [h]
  decV_encV x h := by dsimp only [cdWS] at h ⊢; exact decWalletStatus_enc x h.1 h.2
  nmK_inj a b _ _ h := by dsimp only [cdWS] at h; exact N.wal_inj a b h

-- ------------------------------------------------------------------ `m`: pending transactions

/-- `deser`: mass-core's `MsgTx.SetBytes(…, wire.DB)` followed by the reading of a transaction as the ledger model's
    `Tx` (a parameter: the wire format is mass-core's) -/
def cdM (deser : Bytes → Tx) : Codec Bytes (Int × Bytes) TxId Tx where
  encK h := h
  decK h := if h.length = 32 then some h else none
  encV x := valueUnmined x.2 x.1
  decV := readRawUnmined
  wfK h := h.length = 32
  wfV x := -(2 ^ 63 : Int) ≤ x.1 ∧ x.1 < 2 ^ 63
  nmK := N.tx
  nmV x := deser x.2

theorem cdM_laws (deser : Bytes → Tx) : (cdM N deser).Laws where
  decK_encK w h := by dsimp only [cdM] at h ⊢; simp [h]
  decV_encV x h := by dsimp only [cdM] at h ⊢; exact readRawUnmined_valueUnmined x.2 x.1 h.1 h.2
  nmK_inj a b _ _ h := by dsimp only [cdM] at h; exact N.tx_inj a b h

-- ------------------------------------------------------------------ `mi`: pending inputs (outpoint ↦ spender hashes)

def decHashes (v : Bytes) : Option (List Bytes) :=
  if v.length % blockRecordStride = 0 then some (chunks blockRecordStride (v.length / blockRecordStride) v) else none

def cdMI : Codec OutPointB (List Bytes) (TxId × Nat) (List TxId) where
  encK := canonicalOutPoint
  decK := readUnminedCreditKey
  encV hs := hs.flatten
  decV := decHashes
  wfK o := o.WF = true
  wfV hs := ∀ h ∈ hs, h.length = 32
  nmK := nmOP N
  nmV hs := hs.map N.tx

theorem chunks_flatten (hs : List Bytes) (h : ∀ x ∈ hs, x.length = 32) :
    chunks 32 hs.length hs.flatten = hs ∧ hs.flatten.length = 32 * hs.length := by
  induction hs with
  | nil => exact ⟨rfl, rfl⟩
  | cons a r ih =>
    have ha := h a List.mem_cons_self
    have ih := ih (fun x hx => h x (List.mem_cons_of_mem _ hx))
    constructor
    · simp only [List.length_cons, chunks, List.flatten_cons]
      rw [List.take_left' ha, List.drop_left' ha, ih.1]
    · simp only [List.flatten_cons, List.length_append, List.length_cons, ih.2, ha]; omega

theorem decHashes_enc (hs : List Bytes) (h : ∀ x ∈ hs, x.length = 32) : decHashes hs.flatten = some hs := by
  obtain ⟨h1, h2⟩ := chunks_flatten hs h
  have hs32 : blockRecordStride = 32 := rfl
  simp only [decHashes, hs32, h2, Nat.mul_mod_right, if_true]
  rw [Nat.mul_div_cancel_left _ (by decide : 0 < 32), h1]

theorem nmOP_inj {o o' : OutPointB} (h : nmOP N o = nmOP N o') : o = o' := by
  cases o; cases o'
  simp only [nmOP, Prod.mk.injEq] at h
  rw [N.tx_inj _ _ h.1, h.2]

theorem cdMI_laws : (cdMI N).Laws where
  decK_encK o h := by dsimp only [cdMI] at h ⊢; exact readUnminedCreditKey_canonicalOutPoint o h
  decV_encV hs h := by dsimp only [cdMI] at h ⊢; exact decHashes_enc hs h
  nmK_inj _ _ _ _ h := by dsimp only [cdMI] at h; exact nmOP_inj N h

-- ------------------------------------------------------------------ `sync`: height ↦ block hash (the key "syncedto" aside)

/-- []byte(syncedToName) -/
def syncedToKey : Bytes := ((bucketNames.lookup "syncedToName").getD "syncedto").toList.map (fun c => UInt8.ofNat c.toNat)

def cdSync : Codec Nat (Bytes × Nat) Nat BlkId where
  encK := keySynced
  decK := decSyncedKey
  encV x := valueSynced x.1 x.2
  decV := readSyncedValue
  wfK h := h < 256 ^ 8
  wfV x := x.1.length = 32 ∧ x.2 < 256 ^ 4
  nmK h := h
  nmV x := N.blk x.1

theorem decSyncedKey_enc (ht : Nat) (h : ht < 256 ^ 8) : decSyncedKey (keySynced ht) = some ht := by
  have hf : Fits wSyncedKey.spans [.n ht] = true := by simp [Fits, FitsV, wSyncedKey, Kind.isBytes, h]
  have e := decodeBy_encode wSyncedKey wSyncedKey [.n ht] (by decide) hf (by decide)
  simp only [decSyncedKey, keySynced, e]; rfl

theorem cdSync_laws : (cdSync N).Laws where
  decK_encK ht h := by dsimp only [cdSync] at h ⊢; exact decSyncedKey_enc ht h
  decV_encV x h := by
    dsimp only [cdSync] at h ⊢
    exact readSyncedValue_valueSynced x.1 x.2 (by simp [Fits, FitsV, wSyncedValue, Kind.isBytes, h.1]; exact h.2)
  nmK_inj _ _ _ _ h := h

/-- **the one height whose key IS the name "syncedto"** (both are 8 bytes in the same bucket): at height
    0x73796e636564746f = 8 320 803 159 725 601 903 `putSyncedBucket` and the synced-to cursor share a key.  The
    commuting lemmas of the sync bucket carry the hypothesis `keySynced h ≠ syncedToKey`; this shows it is needed. -/
theorem syncedTo_key_collision : keySynced 0x73796e636564746f = syncedToKey := by decide

-- ------------------------------------------------------------------ a concrete naming (non-vacuity)

theorem charOfByte_toNat (a : UInt8) : (Char.ofNat a.toNat).toNat = a.toNat := by
  have h : a.toNat < 256 := a.toNat_lt
  have hv : a.toNat.isValidChar := Or.inl (by omega)
  simp [Char.ofNat, hv, Char.toNat, Char.ofNatAux]
theorem charOfByte_inj (a b : UInt8) (h : Char.ofNat a.toNat = Char.ofNat b.toNat) : a = b := by
  have := congrArg Char.toNat h
  rw [charOfByte_toNat, charOfByte_toNat] at this
  exact UInt8.toNat_inj.mp this
theorem mapChar_inj (a b : Bytes) (h : a.map (fun b => Char.ofNat b.toNat) = b.map (fun b => Char.ofNat b.toNat)) :
    a = b := by
  induction a generalizing b with
  | nil => cases b <;> simp_all
  | cons x a ih =>
    cases b with
    | nil => simp at h
    | cons y b =>
      simp only [List.map_cons, List.cons.injEq] at h
      rw [charOfByte_inj x y h.1, ih b h.2]
theorem stringOfAscii_inj (a b : Bytes) (h : stringOfAscii a = stringOfAscii b) : a = b :=
  mapChar_inj a b (String.ofList_inj.mp h)

/-- bytes read as Latin-1 text: an injective naming of every kind -/
def asciiNames : Names :=
  ⟨stringOfAscii, stringOfAscii, stringOfAscii, stringOfAscii, stringOfAscii,
   stringOfAscii_inj, stringOfAscii_inj, stringOfAscii_inj, stringOfAscii_inj⟩

end MW.LedBytes
