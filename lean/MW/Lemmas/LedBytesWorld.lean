/-
  LedBytes, part 10 — (a) AddRelevantTx (mined) on bytes with the concrete removeDoubleSpends (`ledger_on_bytes`);
  (b) C01's `ledger_correct` transported to the byte store: a world whose wallet database is a `BStore`, handler steps
  run a byte-level processConnectedBlock `pbB`; for ANY `pbB` that simulates `Model.Ledger.processBlock` (`PbSim`: same
  volatile state and verdict, abstraction of the resulting bytes = the resulting ledger store, canonicity kept) the run
  on bytes abstracts to the run of the ledger model step by step (`runWB_abs`), hence `ledger_correct_on_bytes`:
  when no notification is pending, the bytes decode to exactly the books of the node's best chain.
-/
import MW.Lemmas.LedBytesPend
import MW.Lemmas.LedBytesInv
import MW.Lemmas.LedgerHistory2
namespace MW.LedBytes
open MW MW.Gen.Codec MW.Model.TxmgrCodec MW.TxmgrCodec MW.Model.Ledger MW.Spec.Chain MW.Spec.Books MW.Lemmas.Ledger

-- ------------------------------------------------------------------ (a) AddRelevantTx (mined), removeDoubleSpends included

theorem rdsSim_of_pend {E : Env} {own : Own} (P : PendEnv E own) {trB : TxRecB} {tr : TxRec} (ha : trB.Abs E tr)
    (hw : ∀ o ∈ trB.ins, o.WF = true) : RdsSim E own (removeDoubleSpendsB P trB.ins) tr := by
  intro bs hC
  obtain ⟨h1, h2⟩ := removeDoubleSpends_on_bytes P hC hw
  rw [removeDoubleSpends_ops, ha.ins]
  exact ⟨h1, h2⟩

theorem removeDoubleSpends_tr_on_bytes {E : Env} {own : Own} (P : PendEnv E own) {bs : BStore} (hC : CanonS E bs)
    {ins : List OutPointB} (hw : ∀ o ∈ ins, o.WF = true) (tr : TxRec)
    (hti : tr.tx.ins.map (fun i => (i.tx, i.idx)) = ins.map (nmOP E.N)) :
    absStore E (removeDoubleSpendsB P ins bs) = removeDoubleSpends own (absStore E bs) tr ∧
    CanonS E (removeDoubleSpendsB P ins bs) := by
  rw [removeDoubleSpends_ops, hti]; exact removeDoubleSpends_on_bytes P hC hw

/-- **AddRelevantTx (mined) on bytes**, every bucket access included: block record (create / append), tx record,
    updateMinedBalance, the tx's own pending version, removeDoubleSpends with the recursive removeConflict, AddCredits -/
theorem addRelevantMined_full_on_bytes {E : Env} (p : Params) {own : Own} (P : PendEnv E own) {sb : SB} (hC : CanonS E sb.1)
    {trB : TxRecB} {blk : BlockMetaB} (hw : trB.WF E) (hbh : blk.hash.length = 32) (hbt : blk.height < 256 ^ 8) {time : Nat}
    (htime : time < 256 ^ 8) {tr : TxRec} (ha : trB.Abs E tr) (hroom : BlockRoom (absStore E sb.1) blk.height) :
    (addRelevantMinedB p (removeDoubleSpendsB P trB.ins) trB blk time sb).map (absSB E)
      = addRelevantMined p own (absStore E sb.1) (absBals E.N sb.2) tr (nmBlk E.N blk) ∧
    ∀ sb', addRelevantMinedB p (removeDoubleSpendsB P trB.ins) trB blk time sb = .ok sb' → CanonS E sb'.1 :=
  addRelevantMined_on_bytes E p own hC hw hbh hbt htime ha (rdsSim_of_pend P ha hw.ins) hroom

-- ------------------------------------------------------------------ (b) histories on the byte store

/-- node + notification queue + wallet whose persistent store is the byte-keyed database -/
structure WorldB where
  chain : List Block
  queue : List Block := []
  bs : BStore
  v : Vol

/-- a byte-level processConnectedBlock: (node chain, bytes, volatile state, block) ↦ (bytes, volatile state, verdict) -/
abbrev PbB := List Block → BStore → Vol → Block → BStore × Vol × Bool

/-- `pbB` simulates `Model.Ledger.processBlock` -/
def PbSim (E : MW.LedBytes.Env) (e : Lemmas.Ledger.Env) (pbB : PbB) : Prop :=
  ∀ chain bs v b, CanonS E bs →
    absStore E (pbB chain bs v b).1 = (processBlock (e.ctx chain) (absStore E bs) v b).1 ∧
    (pbB chain bs v b).2 = (processBlock (e.ctx chain) (absStore E bs) v b).2 ∧
    CanonS E (pbB chain bs v b).1

def stepWB (pbB : PbB) (w : WorldB) : Ev → WorldB
  | .extend b => { w with chain := w.chain ++ [b], queue := w.queue ++ [b] }
  | .reorgTo k bs => { w with chain := w.chain.take (w.chain.length - k) ++ bs, queue := w.queue ++ bs }
  | .handle =>
    match w.queue with
    | [] => w
    | b :: q =>
      let r := pbB w.chain w.bs w.v b
      { w with queue := q, bs := r.1, v := r.2.1 }

def runWB (pbB : PbB) (w : WorldB) (evs : List Ev) : WorldB := evs.foldl (stepWB pbB) w

def absW (E : MW.LedBytes.Env) (w : WorldB) : World := { chain := w.chain, queue := w.queue, s := absStore E w.bs, v := w.v }

theorem stepWB_abs {E : MW.LedBytes.Env} {e : Lemmas.Ledger.Env} {pbB : PbB} (hs : PbSim E e pbB) (w : WorldB)
    (hC : CanonS E w.bs) (ev : Ev) :
    absW E (stepWB pbB w ev) = stepW e (absW E w) ev ∧ CanonS E (stepWB pbB w ev).bs := by
  cases ev with
  | extend b => exact ⟨rfl, hC⟩
  | reorgTo k bs => exact ⟨rfl, hC⟩
  | handle =>
    cases hq : w.queue with
    | nil =>
      have e1 : stepWB pbB w .handle = w := by simp only [stepWB, hq]
      have e2 : stepW e (absW E w) .handle = absW E w := by simp only [stepW, absW, hq]
      rw [e1, e2]; exact ⟨rfl, hC⟩
    | cons b q =>
      obtain ⟨h1, h2, h3⟩ := hs w.chain w.bs w.v b hC
      have e1 : stepWB pbB w .handle
          = { w with queue := q, bs := (pbB w.chain w.bs w.v b).1, v := (pbB w.chain w.bs w.v b).2.1 } := by
        simp only [stepWB, hq]
      have e2 : stepW e (absW E w) .handle
          = { absW E w with queue := q, s := (processBlock (e.ctx w.chain) (absStore E w.bs) w.v b).1,
                            v := (processBlock (e.ctx w.chain) (absStore E w.bs) w.v b).2.1 } := by
        simp only [stepW, absW, hq]
      rw [e1, e2]
      refine ⟨?_, h3⟩
      simp only [absW]
      rw [h1, h2]

/-- **the run on bytes abstracts to the run of the ledger model**, event by event -/
theorem runWB_abs {E : MW.LedBytes.Env} {e : Lemmas.Ledger.Env} {pbB : PbB} (hs : PbSim E e pbB) :
    ∀ (evs : List Ev) (w : WorldB), CanonS E w.bs →
      absW E (runWB pbB w evs) = runW e (absW E w) evs ∧ CanonS E (runWB pbB w evs).bs := by
  intro evs
  induction evs with
  | nil => intro w hC; exact ⟨rfl, hC⟩
  | cons ev evs ih =>
    intro w hC
    obtain ⟨h1, h2⟩ := stepWB_abs hs w hC ev
    obtain ⟨i1, i2⟩ := ih (stepWB pbB w ev) h2
    refine ⟨?_, i2⟩
    show absW E (runWB pbB (stepWB pbB w ev) evs) = runW e (stepW e (absW E w) ev) evs
    rw [i1, h1]

/-- **ledger_correct on the byte store**: after ANY finite history of node events interleaved in any order with handler
    steps on the byte database, if no notification is pending the bytes are canonical and decode to exactly the books of
    the node's best chain, and the follower's tip is the node's tip -/
theorem ledger_correct_on_bytes {E : MW.LedBytes.Env} (e : Lemmas.Ledger.Env) (G : Block) {pbB : PbB} (hs : PbSim E e pbB)
    (w0 : WorldB) (evs : List Ev) (H : RunHyp e G (absW E w0) evs)
    (h0 : InvB E (e.ctx w0.chain) w0.bs w0.chain) (hv0 : w0.v.best = tipMeta w0.chain) (hq0 : w0.queue = []) :
    (runWB pbB w0 evs).queue = [] →
      InvB E (e.ctx (runWB pbB w0 evs).chain) (runWB pbB w0 evs).bs (runWB pbB w0 evs).chain ∧
        (runWB pbB w0 evs).v.best = tipMeta (runWB pbB w0 evs).chain := by
  intro hq
  obtain ⟨r1, r2⟩ := runWB_abs hs evs w0 h0.1
  have hq' : (runW e (absW E w0) evs).queue = [] := by rw [← r1]; exact hq
  have := MW.Lemmas.Ledger.ledger_correct e G (absW E w0) evs H h0.2 hv0 hq0 hq'
  rw [← r1] at this
  exact ⟨⟨r2, this.1⟩, this.2⟩

end MW.LedBytes
