/-
  C07 stage 2 with other wallets in the instance, part 3 — interleavings of rescan batches and TIP EXTENSIONS.
  State invariant `XInvJ`: the follower is at the node's tip and either `w` is importing, the store is the join
  `ScanJ` (other wallets' books for the whole chain ⊕ `w`'s books up to its cursor) and every other keystore's wallet
  is ready, or `w` is ready and C01's invariant `Inv` holds for the full keystore table (all wallets ready).
  Preserved by every batch (`importStep_scanJ`, and at the hand-over `scanJ_tip_inv`) and by every tip extension
  (`extend_scanJ` while importing, C01's `connect_sound` afterwards).
-/
import MW.Lemmas.ImportJoinConnect
import MW.Lemmas.ImportJoinMain
namespace MW.Lemmas.ImportJoin
open MW MW.Model.Ledger MW.Model.Import MW.Spec.Chain MW.Spec.Books MW.Lemmas.Ledger MW.Lemmas.RemoveBooks
open MW.Lemmas.ImportExact

/-- the state invariant of stage 2 with other wallets in the instance (`u0`: "the unspent index was well-formed at
    the start", carried along) -/
def XInvJ (u0 : Prop) (p : Params) (own : Own) (wallets : List Wid) (w : Wid) (sys : XSys) : Prop :=
  sys.v.best.height + 1 = sys.node.chain.length ∧ (u0 → KeysNodup sys.s.unspent) ∧
  ((∃ ws k, AMap.get sys.s.status w = some ws ∧ ws.synced = some k ∧ ws.removed = false ∧ k ≤ sys.v.best.height ∧
      ScanJ { p := p, own := own, wallets := wallets, node := sys.node } w sys.s k ∧
      AllReady (ownR own w) (readyWallets sys.s wallets) ∧ (readyWallets sys.s wallets).isEmpty = false) ∨
   (AMap.get sys.s.status w = some ⟨none, false⟩ ∧
      Inv { p := p, own := own, wallets := wallets, node := sys.node } sys.s sys.node.chain ∧
      AllReady own (readyWallets sys.s wallets)))

theorem allReady_others {own : Own} {w : Wid} (hKN : KeysNodup own) {s s' : Store} {wallets : List Wid}
    (hAR : AllReady (ownR own w) (readyWallets s wallets))
    (hst : ∀ w', w' ≠ w → AMap.get s'.status w' = AMap.get s.status w') :
    AllReady (ownR own w) (readyWallets s' wallets) := by
  intro a w' ch ha
  have hne : w' ≠ w := by
    have := ownR_sub hKN w a
    rw [ha] at this
    cases hg : AMap.get own a with
    | none => rw [hg] at this; cases this
    | some x =>
      rw [hg] at this
      by_cases hx : x.1 = w
      · simp [Option.filter, hx] at this
      · simp only [Option.filter, ne_eq, hx, not_false_eq_true, decide_true, if_true, Option.some.injEq] at this
        rw [← this] at hx; exact hx
  rw [ready_contains_congr (hst w' hne)]
  exact hAR a w' ch ha

theorem stepXJ_inv {u0 : Prop} {batch : Nat} (hb : batch > 0) {p : Params} {own : Own} {wallets : List Wid} {w : Wid}
    (hKN : KeysNodup own) (hw : w ∈ wallets) (sys : XSys) (e : XEv)
    (hC : ChainOK { p := p, own := own, wallets := wallets, node := (stepX batch p own wallets w sys e).node })
    (hnb : (stepX batch p own wallets w sys e).node.chain.length + batch < 2 ^ 64)
    (hI : XInvJ u0 p own wallets w sys) : XInvJ u0 p own wallets w (stepX batch p own wallets w sys e) := by
  obtain ⟨hbest, hU, hcase⟩ := hI
  cases e with
  | batch =>
    rcases hcase with ⟨ws, k, hst, hk, hrm, hle, hS, hAR, hne⟩ | ⟨hst, hI, hAR⟩
    · obtain ⟨sy, rm⟩ := ws
      simp only at hk hrm
      subst hk hrm
      have hnode : (stepX batch p own wallets w sys .batch).node = sys.node := by
        unfold stepX; simp only [hst]; split <;> rfl
      rw [hnode] at hC hnb
      obtain ⟨s1, v1, h1, hS1, hst1, hv1, hO1⟩ := importStep_scanJ hb hKN hC hS (List.contains_iff_mem.2 hw) hst rfl hbest hle
        (by omega)
      have hstep : stepX batch p own wallets w sys .batch = { sys with s := s1, v := v1 } := by
        unfold stepX; simp only [hst, h1]
      rw [hstep]
      refine ⟨by show v1.best.height + 1 = _; rw [hv1]; exact hbest, fun h0 => hO1.2.2 (hU h0), ?_⟩
      have hAR1 : AllReady (ownR own w) (readyWallets s1 wallets) := allReady_others hKN hAR hO1.2.1
      by_cases hfin : nextStop batch k sys.v.best.height = sys.v.best.height
      · right
        rw [hfin] at hS1 hst1
        have hdone : AMap.get s1.status w = some ⟨none, false⟩ := by rw [hst1]; simp [statusAfter]
        refine ⟨hdone, scanJ_tip_inv hKN hC hS1 hbest, ?_⟩
        intro a w' ch ha
        by_cases hww : w' = w
        · rw [hww]
          apply (ready_contains_iff s1 wallets w).2
          refine ⟨hw, ?_⟩
          rw [hdone]; rfl
        · apply hAR1 a w' ch
          rw [ownR_sub hKN w a, ha]
          simp [Option.filter, hww]
      · left
        have hle1 : nextStop batch k sys.v.best.height ≤ sys.v.best.height := by unfold nextStop; split <;> omega
        refine ⟨_, nextStop batch k sys.v.best.height, hst1, by simp [statusAfter, hfin], rfl,
          by show _ ≤ v1.best.height; rw [hv1]; exact hle1, hS1, hAR1, ?_⟩
        -- some other wallet is still ready
        cases hrl : readyWallets sys.s wallets with
        | nil => rw [hrl] at hne; cases hne
        | cons w0 rest =>
          have hw0 : (readyWallets sys.s wallets).contains w0 = true := by rw [hrl]; simp
          have hw0ne : w0 ≠ w := by
            intro he
            have := ((ready_contains_iff sys.s wallets w0).1 hw0).2
            rw [he, hst] at this
            simp at this
          have : (readyWallets s1 wallets).contains w0 = true := by
            rw [ready_contains_congr (hO1.2.1 w0 hw0ne)]; exact hw0
          cases hr1 : readyWallets s1 wallets with
          | nil => rw [hr1] at this; cases this
          | cons _ _ => rfl
    · have hstep : stepX batch p own wallets w sys .batch = sys := by
        unfold stepX; simp only [hst]
      rw [hstep]
      exact ⟨hbest, hU, Or.inr ⟨hst, hI, hAR⟩⟩
  | extend b =>
    by_cases hprev : b.prev = sys.v.best.hash
    · have hstep : stepX batch p own wallets w sys (.extend b) =
          { node := { sys.node with chain := sys.node.chain ++ [b] },
            s := (processBlock (extCtx { p := p, own := own, wallets := wallets, node := sys.node } b) sys.s sys.v b).1,
            v := (processBlock (extCtx { p := p, own := own, wallets := wallets, node := sys.node } b) sys.s sys.v b).2.1 } := by
        unfold stepX; simp only [hprev, if_true]; rfl
      rw [hstep] at hC hnb ⊢
      have hC' : ChainOK (extCtx { p := p, own := own, wallets := wallets, node := sys.node } b) := hC
      have hbh := extCtx_heights hC'
      have hlenv : ∀ v' : Vol, v'.best = ⟨b.height, b.id⟩ → v'.best.height + 1 = (sys.node.chain ++ [b]).length := by
        intro v' hv'
        rw [hv']; simp only [List.length_append, List.length_cons, List.length_nil]
        exact congrArg (· + 1) hbh
      rcases hcase with ⟨ws, k, hst, hk, hrm, hle, hS, hAR, hne⟩ | ⟨hst, hI, hAR⟩
      · obtain ⟨s', v', hpb, hv', hS', hst', hU'⟩ :=
          extend_scanJ (c := { p := p, own := own, wallets := wallets, node := sys.node }) hKN hC' hS hst hk
            (by show k + 1 ≤ sys.node.chain.length; omega) hAR hne hprev
        rw [hpb]
        refine ⟨hlenv v' hv', fun h0 => hU' (hU h0),
          Or.inl ⟨ws, k, by show AMap.get s'.status w = _; rw [hst']; exact hst, hk, hrm, ?_, hS', ?_, ?_⟩⟩
        · show k ≤ v'.best.height
          rw [hv']; show k ≤ b.height
          have : b.height = sys.node.chain.length := hbh
          omega
        · show AllReady (ownR own w) (readyWallets s' wallets)
          rw [readyWallets_congr hst']; exact hAR
        · show (readyWallets s' wallets).isEmpty = false
          rw [readyWallets_congr hst']; exact hne
      · -- all wallets ready: C01
        have hI' : Inv (extCtx { p := p, own := own, wallets := wallets, node := sys.node } b) sys.s sys.node.chain :=
          ⟨hI.agree, hI.bal, hI.sync, hI.syncedTo⟩
        have hrne : (readyWallets sys.s wallets).isEmpty = false := by
          have : (readyWallets sys.s wallets).contains w = true := by
            apply (ready_contains_iff sys.s wallets w).2
            refine ⟨hw, ?_⟩
            rw [hst]; rfl
          cases hr1 : readyWallets sys.s wallets with
          | nil => rw [hr1] at this; cases this
          | cons _ _ => rfl
        obtain ⟨s', conf, hfb, hI2, hst2⟩ :=
          connect_sound (c := extCtx { p := p, own := own, wallets := wallets, node := sys.node } b) (s := sys.s)
            (chain := sys.node.chain) (rest := []) (b := b) hI' rfl hC'.valid hbh hAR hrne
        have hpm : processM (extCtx { p := p, own := own, wallets := wallets, node := sys.node } b) sys.s sys.v b =
            .ok (s', [], [(b.height, conf)]) := by
          unfold processM
          simp only [hprev, if_true]
          rw [hfb]
          rfl
        obtain ⟨v', hpb, hv'⟩ := processBlock_of_ok hpm
        rw [hpb]
        refine ⟨hlenv v' hv', fun h0 => wf_filterBlock (hU h0) hfb,
          Or.inr ⟨by show AMap.get s'.status w = _; rw [hst2]; exact hst, hI2, ?_⟩⟩
        show AllReady own (readyWallets s' wallets)
        rw [readyWallets_congr hst2]; exact hAR
    · have hstep : stepX batch p own wallets w sys (.extend b) = sys := by
        unfold stepX; simp only [hprev, if_false]
      rw [hstep]
      exact ⟨hbest, hU, hcase⟩

/-- **stage 2, tip extensions, other wallets in the instance**: the invariant survives every interleaving of batches
    and tip extensions whose final chain is valid -/
theorem foldXJ_inv {u0 : Prop} {batch : Nat} (hb : batch > 0) {p : Params} {own : Own} {wallets : List Wid} {w : Wid}
    (hKN : KeysNodup own) (hw : w ∈ wallets) (evs : List XEv) :
    ∀ (sys : XSys),
      ChainOK { p := p, own := own, wallets := wallets, node := (evs.foldl (stepX batch p own wallets w) sys).node } →
      (evs.foldl (stepX batch p own wallets w) sys).node.chain.length + batch < 2 ^ 64 →
      XInvJ u0 p own wallets w sys → XInvJ u0 p own wallets w (evs.foldl (stepX batch p own wallets w) sys) := by
  induction evs with
  | nil => intro sys _ _ h; exact h
  | cons e evs ih =>
    intro sys hC hnb hI
    rw [List.foldl_cons] at hC hnb ⊢
    obtain ⟨rest, hrest⟩ := foldX_chain batch p own wallets w evs (stepX batch p own wallets w sys e)
    apply ih _ hC hnb
    apply stepXJ_inv hb hKN hw sys e
    · exact chainOK_prefix
        (c := { p := p, own := own, wallets := wallets,
                node := (evs.foldl (stepX batch p own wallets w) (stepX batch p own wallets w sys e)).node })
        (c' := { p := p, own := own, wallets := wallets, node := (stepX batch p own wallets w sys e).node })
        (rest := rest) rfl hrest hC
    · rw [hrest, List.length_append] at hnb; omega
    · exact hI

end MW.Lemmas.ImportJoin
