/-
  C06 deepening (round 4), part 2: THE INVARIANT OF AN IMPORT WINDOW and the event that opens it.

  `JI`: while wallet `w` is being restored (or has just been handed over, before the window is closed), the store
  follows some chain `X` in the sense of C07's joined invariant `IJ` (the ready wallets' books for all of `X`, `w`'s
  books up to its cursor), the tip copy is `X`'s tip, the key cache is exact, every other wallet is ready, and the
  rescan is QUEUED whenever the stored status says "importing".
  `JQ_importStart`: ImportWallet at any moment of a round-3 history (follower lagging or not, on a stale branch or
  not) establishes `JI` — C07's `scanJ_fresh` for the chain the store follows.
-/
import MW.Lemmas.Deepen4World
namespace MW.Lemmas.Deepen4
open MW MW.Model.Ledger MW.Model.Persist MW.Spec.Persist MW.Spec.Chain MW.Spec.Books MW.Lemmas.Ledger
  MW.Lemmas.PersistOp MW.Lemmas.PersistFault MW.Lemmas.PersistCrash MW.Lemmas.Deepen3 MW.Lemmas.ImportJoin

/-- the invariant inside an import window (skeleton `k`: the keystore table already contains `w`) -/
structure JI (cfg : Cfg) (G : Block) (x : SysQ) (k : Skel) (w : Wid) : Prop where
  chain : x.chain = k.chain
  ks : x.P.ks = k.ks
  keys : x.V.keys = k.ks
  wmem : w ∈ walletsOf k.ks
  nodupW : (walletsOf k.ks).Nodup
  nodupA : KeysNodup (ownOf k.ks)
  fol : ∃ X, ChainOK (lenv cfg.st k.ks) G X ∧ IJ ((lenv cfg.st k.ks).ctx k.chain) w x.P.led X ∧
    x.V.led.best = tipMeta X ∧ (∃ c ∈ k.hist, X <+: c) ∧ (x.queue = [] → X = k.chain)
  qknown : ∀ b ∈ x.queue, AMap.get cfg.st.known b.id = some b
  qlast : x.queue ≠ [] → x.queue.getLast? = k.chain.getLast?
  chainOK : ChainOK (lenv cfg.st k.ks) G k.chain
  cur : k.chain ∈ k.hist
  others : ∀ w' ∈ walletsOf k.ks, w' ≠ w → readyB x.P.led w' = true
  task : importDone x.P w = false → x.V.tasks.contains (.imp w) = true

-- ------------------------------------------------------------------ the store part of ImportWallet

theorem importWalletStore_fold (s : Store) (w : Wid) (l : List Addr) :
    let s' := l.foldl (fun s a => { s with addrs := AMap.put s.addrs (w, false, a) 0 }) s
    s'.status = s.status ∧ s'.balance = s.balance ∧ s'.credits = s.credits ∧ s'.unspent = s.unspent ∧
    s'.debits = s.debits ∧ s'.game = s.game ∧ s'.txrecs = s.txrecs ∧ s'.blocks = s.blocks ∧ s'.sync = s.sync ∧
    s'.syncedTo = s.syncedTo := by
  induction l generalizing s with
  | nil => exact ⟨rfl, rfl, rfl, rfl, rfl, rfl, rfl, rfl, rfl, rfl⟩
  | cons a l ih =>
    simp only [List.foldl_cons]
    exact ih _

/-- ImportWallet's store part: balance 0 and status "importing from 0" for `w`, address records; nothing else -/
theorem importWalletStore_spec (s : Store) (w : Wid) (addrs : List Addr) (hne : addrs ≠ []) :
    (Model.Import.importWalletStore s w addrs).status = AMap.put s.status w ⟨some 0, false⟩ ∧
    (Model.Import.importWalletStore s w addrs).balance = AMap.put s.balance w 0 ∧
    (Model.Import.importWalletStore s w addrs).credits = s.credits ∧
    (Model.Import.importWalletStore s w addrs).unspent = s.unspent ∧
    (Model.Import.importWalletStore s w addrs).debits = s.debits ∧
    (Model.Import.importWalletStore s w addrs).game = s.game ∧
    (Model.Import.importWalletStore s w addrs).txrecs = s.txrecs ∧
    (Model.Import.importWalletStore s w addrs).blocks = s.blocks ∧
    (Model.Import.importWalletStore s w addrs).sync = s.sync ∧
    (Model.Import.importWalletStore s w addrs).syncedTo = s.syncedTo := by
  have he : addrs.isEmpty = false := by cases addrs with
    | nil => exact absurd rfl hne
    | cons _ _ => rfl
  unfold Model.Import.importWalletStore
  simp only [he, Bool.false_eq_true, if_false]
  obtain ⟨a, b, c, d, e, f, g, h, i, j⟩ := importWalletStore_fold
    { s with balance := AMap.put s.balance w 0, status := AMap.put s.status w ⟨some 0, false⟩ } w addrs
  exact ⟨a, b, c, d, e, f, g, h, i, j⟩

theorem readyB_status {s s' : Store} {w : Wid} (h : AMap.get s'.status w = AMap.get s.status w) :
    readyB s' w = readyB s w := by
  unfold readyB; rw [h]

-- ------------------------------------------------------------------ the keystore table with the restored keystore

theorem ownOf_put_fresh (ks : AMap.T Wid KsRec) (w : Wid) (r : KsRec) (h : AMap.get ks w = none) :
    ownOf (AMap.put ks w r) = addrEntries w r ++ ownOf ks := by
  unfold AMap.put
  rw [erase_of_get_none ks w h, ownOf_cons]

theorem get_append {K V : Type} [DecidableEq K] (l₁ l₂ : AMap.T K V) (k : K) :
    AMap.get (l₁ ++ l₂) k = (AMap.get l₁ k).orElse (fun _ => AMap.get l₂ k) := by
  induction l₁ with
  | nil => simp [AMap.get]
  | cons e l ih =>
    by_cases he : e.1 = k
    · simp [AMap.get, List.find?, he]
    · simp only [AMap.get] at ih ⊢
      simp only [List.cons_append, List.find?, he, decide_false]
      exact ih

theorem get_addrEntries {w : Wid} {r : KsRec} {a : Addr} {x : Wid × Bool} (h : AMap.get (addrEntries w r) a = some x) :
    x = (w, false) ∧ a ∈ (addrEntries w r).map (·.1) := by
  have hm := amap_mem_of_get h
  unfold addrEntries at hm
  obtain ⟨y, _, hy⟩ := List.mem_map.1 hm
  have : x = (w, false) := (congrArg Prod.snd hy).symm
  refine ⟨this, ?_⟩
  exact List.mem_map.2 ⟨(a, x), amap_mem_of_get h, rfl⟩

/-- the table without the restored keystore reads as the table before ImportWallet -/
theorem ownR_put_fresh {ks : AMap.T Wid KsRec} {w : Wid} {r : KsRec} (h : AMap.get ks w = none)
    (hKN : KeysNodup (ownOf (AMap.put ks w r))) (a : Addr) :
    AMap.get (ownR (ownOf (AMap.put ks w r)) w) a = AMap.get (ownOf ks) a := by
  have hsub := ownR_sub hKN w a
  rw [hsub, ownOf_put_fresh ks w r h, get_append]
  have hnd : ((addrEntries w r ++ ownOf ks).map (·.1)).Nodup := by
    have := hKN; unfold KeysNodup at this; rw [ownOf_put_fresh ks w r h] at this; exact this
  rw [List.map_append, List.nodup_append] at hnd
  have hwn : w ∉ walletsOf ks := by
    have := (amap_get_none_iff (m := ks) (k := w)).1 h
    exact this
  cases h1 : AMap.get (addrEntries w r) a with
  | some x =>
    obtain ⟨hx, hmem⟩ := get_addrEntries h1
    subst hx
    have hno : AMap.get (ownOf ks) a = none := by
      rw [amap_get_none_iff]
      intro hm
      exact hnd.2.2 a hmem a hm rfl
    simp [Option.orElse, Option.filter, hno]
  | none =>
    simp only [Option.orElse]
    cases h2 : AMap.get (ownOf ks) a with
    | none => rfl
    | some y =>
      have hy := (own_wallet_mem (amap_mem_of_get h2)).1
      have : y.1 ≠ w := fun he => hwn (he ▸ hy)
      simp [Option.filter, this]


theorem lookup_own_agree {own' own : Own} (h : ∀ a, AMap.get own' a = AMap.get own a) (ocs : List Occ) :
    OwnAgree own' own ocs := by
  intro oc _ o _
  unfold ownerOf
  rw [h]

theorem allReady_lookup {own' own : Own} (h : ∀ a, AMap.get own' a = AMap.get own a) {ready : List Wid}
    (hA : AllReady own ready) : AllReady own' ready := by
  intro a w ch hg
  rw [h] at hg
  exact hA a w ch hg

-- ------------------------------------------------------------------ ImportWallet opens the window

/-- IMPORTWALLET at any moment of a round-3 history: the joined scan invariant holds at cursor 0 for the chain the
    store follows (C07's `scanJ_fresh`), the rescan is queued -/
theorem JQ_importStart {cfg : Cfg} {G : Block} (hG : G.txs = []) {x : SysQ} {k : Skel} (w : Wid) (r : KsRec)
    (hJ : JQ cfg.st G x k) (hfresh : AMap.get k.ks w = none) (hne : r.addrs ≠ [])
    (hKN : KeysNodup (ownOf (AMap.put k.ks w r)))
    (hval : ∀ c ∈ k.hist, ChainValid (ownOf (AMap.put k.ks w r)) c) :
    JI cfg G (stepT cfg cr x (.importStart w r)) { k with ks := AMap.put k.ks w r } w := by
  obtain ⟨hc, hks, hkeys, ⟨S, hJS, c, hcm, hSc⟩, hN, hcur, hK⟩ := hJ
  obtain ⟨hI, hv, hS, hAR, hnr, hq, hq0, hq1⟩ := hJS
  have haddr : r.addrs.map (·.2) ≠ [] := by
    intro h; exact hne (List.map_eq_nil_iff.1 h)
  have hemp : r.addrs.isEmpty = false := by
    cases hr : r.addrs with
    | nil => exact absurd hr hne
    | cons _ _ => rfl
  have hnone : (AMap.get x.P.ks w).isSome = false := by rw [hks, hfresh]; rfl
  have h1 : stepT cfg cr x (.importStart w r) =
      { x with P := { led := Model.Import.importWalletStore x.P.led w (r.addrs.map (·.2)), ks := AMap.put x.P.ks w r },
               V := { x.V with keys := AMap.put x.V.keys w r, tasks := x.V.tasks ++ [.imp w] } } := by
    simp only [stepT]
    rw [importStart_none]
    simp [hnone, hemp]
  obtain ⟨e1, e2, e3, e4, e5, e6, e7, e8, e9, e10⟩ := importWalletStore_spec x.P.led w _ haddr
  rw [h1]
  have hwn : w ∉ walletsOf k.ks := (amap_get_none_iff (m := k.ks) (k := w)).1 hfresh
  have hwal : walletsOf (AMap.put k.ks w r) = w :: walletsOf k.ks := walletsOf_put_new k.ks w r hfresh
  have hlook := ownR_put_fresh hfresh hKN
  -- status of the others
  have hstO : ∀ w', w' ≠ w → AMap.get (Model.Import.importWalletStore x.P.led w (r.addrs.map (·.2))).status w' =
      AMap.get x.P.led.status w' := by
    intro w' hw'
    rw [e1, AMap.get_put, if_neg (fun h => hw' h.symm)]
  have hstW : AMap.get (Model.Import.importWalletStore x.P.led w (r.addrs.map (·.2))).status w = some ⟨some 0, false⟩ := by
    rw [e1, AMap.get_put, if_pos rfl]
  have hrW : readyB (Model.Import.importWalletStore x.P.led w (r.addrs.map (·.2))) w = false := by
    unfold readyB; rw [hstW]; rfl
  have hready : readyWallets (Model.Import.importWalletStore x.P.led w (r.addrs.map (·.2))) (walletsOf (AMap.put k.ks w r)) =
      readyWallets x.P.led (walletsOf k.ks) := by
    rw [hwal, readyWallets_filter, readyWallets_filter, List.filter_cons, hrW]
    simp only [Bool.false_eq_true, if_false]
    apply List.filter_congr
    intro w' hw'
    exact readyB_status (hstO w' (fun h => hwn (h ▸ hw')))
  -- chains for the larger table
  have hOK : ∀ {ch : List Block}, ChainOK (lenv cfg.st k.ks) G ch → ChainValid (ownOf (AMap.put k.ks w r)) ch →
      ChainOK (lenv cfg.st (AMap.put k.ks w r)) G ch := fun h hv' => ⟨h.good, hv', h.genesis, h.known⟩
  have hSv : ChainValid (ownOf (AMap.put k.ks w r)) S := by
    obtain ⟨t, ht⟩ := hSc
    exact chainValid_prefix (a := S) (b := t) (by rw [ht]; exact hval c hcm)
  have hSok := hOK hS hSv
  have hNok := hOK hN (hval _ hcur)
  -- the invariant of the other wallets for the new store
  have hIr : Ledger.Inv { (lenv cfg.st (AMap.put k.ks w r)).ctx S with own := ownR (ownOf (AMap.put k.ks w r)) w }
      (Model.Import.importWalletStore x.P.led w (r.addrs.map (·.2))) S := by
    have hb : bookOf cfg.st.p (ownR (ownOf (AMap.put k.ks w r)) w) S = bookOf cfg.st.p (ownOf k.ks) S :=
      bookOf_own_congr cfg.st.p (lookup_own_agree hlook _)
    refine ⟨?_, ?_, ?_, ?_⟩
    · show AgreeM _ (bookOf cfg.st.p (ownR (ownOf (AMap.put k.ks w r)) w) S)
      rw [hb]
      have hA := hI.agree
      exact ⟨fun a b c => by rw [e4]; exact hA.unspent a b c, fun a => by rw [e3]; exact hA.credits a,
        fun a => by rw [e5]; exact hA.debits a, fun a => by rw [e6]; exact hA.game a,
        fun a => by rw [e7]; exact hA.txrecs a, fun a => by rw [e8]; exact hA.blocks a⟩
    · intro w' hw'
      show AMap.get _ w' = some (totalU (bookOf cfg.st.p (ownR (ownOf (AMap.put k.ks w r)) w) S).L w')
      rw [hb]
      have hw'' : (readyWallets x.P.led (walletsOf k.ks)).contains w' = true := by rw [← hready]; exact hw'
      have hne' : w' ≠ w := fun h => hwn (h ▸ (mem_readyWallets.1 hw'').1)
      rw [e2, AMap.get_put, if_neg (fun h => hne' h.symm)]
      exact hI.bal w' hw''
    · intro h; rw [e9]; exact hI.sync h
    · rw [e10]; exact hI.syncedTo
  have hScan : ScanJ ((lenv cfg.st (AMap.put k.ks w r)).ctx S) w
      (Model.Import.importWalletStore x.P.led w (r.addrs.map (·.2))) 0 :=
    scanJ_fresh (c := (lenv cfg.st (AMap.put k.ks w r)).ctx S) hKN ⟨hSv, hS.good.heights⟩ hIr hS.genesis hG
      (by rw [e2, AMap.get_put, if_pos rfl])
  have hAR' : AllReady (ownR (ownOf (AMap.put k.ks w r)) w)
      (readyWallets (Model.Import.importWalletStore x.P.led w (r.addrs.map (·.2))) (walletsOf (AMap.put k.ks w r))) := by
    rw [hready]; exact allReady_lookup hlook hAR
  have hnr' : (readyWallets (Model.Import.importWalletStore x.P.led w (r.addrs.map (·.2)))
      (walletsOf (AMap.put k.ks w r))).isEmpty = false := by rw [hready]; exact hnr
  refine ⟨hc, by show AMap.put x.P.ks w r = _; rw [hks], by show AMap.put x.V.keys w r = _; rw [hkeys],
    by rw [hwal]; exact List.mem_cons_self, by rw [hwal]; exact List.nodup_cons.2 ⟨hwn, hK.nodupW⟩, hKN,
    ⟨S, hSok, Or.inl ⟨⟨some 0, false⟩, 0, hstW, rfl, rfl, by have := hS.good.length_pos; omega,
        ⟨hScan.agree, hScan.blocks, hScan.txpos, hScan.bal, hScan.balR, hScan.sync, hScan.syncedTo⟩, hAR',
        hnr'⟩, hv, ⟨c, hcm, hSc⟩, fun h => (hq0 h).trans hc⟩,
    hq, fun h => by rw [← hc]; exact hq1 h, hNok, hcur, ?_, ?_⟩
  · intro w' hw' hne'
    rw [hwal] at hw'
    rcases List.mem_cons.1 hw' with h | h
    · exact absurd h hne'
    · show readyB (Model.Import.importWalletStore x.P.led w (r.addrs.map (·.2))) w' = true
      rw [readyB_status (hstO w' hne')]; exact hK.ready w' h
  · intro _
    show (x.V.tasks ++ [Task.imp w]).contains (.imp w) = true
    simp

end MW.Lemmas.Deepen4
