/-
  Helper lemmas for C04: the invariant of the multi-instance system. Every account bucket, every cache
  entry, in every instance, at every time, holds exactly the keys the spec derives from the bucket's
  secret (mnemonic, private passphrase, network).
-/
import MW.Lemmas.KsRestore
namespace MW.Lemmas.KsSys
open MW MW.Model.Keystore MW.Spec.Keystore MW.Lemmas.KsMgr MW.Lemmas.KsIssue MW.Lemmas.KsRestore

variable {Priv Pub Addr : Type} [DecidableEq Addr]

-- ------------------------------------------------------------------ association-list facts

section AMapFacts
variable {K V : Type} [DecidableEq K]

theorem mem_put {m : AMap.T K V} {k : K} {v : V} {e : K × V} (h : e ∈ AMap.put m k v) :
    e = (k, v) ∨ (e ∈ m ∧ e.1 ≠ k) := by
  unfold AMap.put AMap.erase at h
  rcases List.mem_cons.mp h with h | h
  · exact Or.inl h
  · rw [List.mem_filter] at h
    exact Or.inr ⟨h.1, by simpa using h.2⟩

theorem get_mem {m : AMap.T K V} {k : K} {v : V} (h : AMap.get m k = some v) : (k, v) ∈ m := by
  induction m with
  | nil => simp [AMap.get] at h
  | cons a m ih =>
    rw [AMap.get_cons] at h
    by_cases ha : a.1 = k
    · simp [ha] at h; subst h; subst ha; exact List.mem_cons_self
    · simp [ha] at h; exact List.mem_cons_of_mem _ (ih h)

theorem get_map_val {W : Type} (m : AMap.T K V) (f : K × V → W) (k : K) :
    AMap.get (m.map (fun e => (e.1, f e))) k = (m.find? (fun e => e.1 = k)).map f := by
  induction m with
  | nil => rfl
  | cons a m ih =>
    simp only [List.map_cons]
    rw [AMap.get_cons]
    by_cases ha : a.1 = k
    · simp [ha, List.find?]
    · simp only [ha, if_false, List.find?, decide_false]
      rw [ih]

end AMapFacts

theorem uniq_put {K V : Type} [DecidableEq K] (m : AMap.T K V) (k : K) (v : V)
    (h : ∀ e e', e ∈ m → e' ∈ m → e.1 = e'.1 → e = e') :
    ∀ e e', e ∈ AMap.put m k v → e' ∈ AMap.put m k v → e.1 = e'.1 → e = e' := by
  intro e e' he he' hk
  rcases mem_put he with rfl | ⟨h1, h2⟩
  · rcases mem_put he' with rfl | ⟨h3, h4⟩
    · rfl
    · exact absurd hk.symm h4
  · rcases mem_put he' with rfl | ⟨h3, _⟩
    · exact absurd hk h2
    · exact h e e' h1 h3 hk

-- ------------------------------------------------------------------ goodness

/-- an account bucket is good for its wallet id: identity and every stored key derive from its secret -/
structure RecGood (sch : Scheme Priv Pub Addr) (id : String) (r : Rec Priv Pub) : Prop where
  priv : r.acctPriv = sch.master r.mnemonic r.pass r.coin
  pub : r.acctPub = sch.pubOf r.acctPriv
  id_eq : id = walletId sch r.mnemonic r.pass r.coin
  pubs : ∀ e, e ∈ r.pubs → e.2 = pubAt sch r.mnemonic r.pass r.coin e.1.1 e.1.2

/-- a cache is good for a secret: every entry is the key / address the spec derives at its path -/
structure MgrGood (sch : Scheme Priv Pub Addr) (mn pass : String) (coin : Nat) (m : Mgr Pub Addr) : Prop where
  addrs : ∀ x ma, AMap.get m.addrs x = some ma →
    ma.pub = pubAt sch mn pass coin ma.branch ma.index ∧ ma.addr = sch.addrOf ma.pub ∧ ma.addr = x
  index : ∀ k a, AMap.get m.index k = some a → a = addrAt sch mn pass coin k.1 k.2

structure KSGood (sch : Scheme Priv Pub Addr) (ks : KS Priv Pub Addr) : Prop where
  uniq : ∀ e e', e ∈ ks.recs → e' ∈ ks.recs → e.1 = e'.1 → e = e'
  recs : ∀ e, e ∈ ks.recs → RecGood sch e.1 e.2
  mgrs : ∀ e, e ∈ ks.mgrs → ∀ r, (e.1, r) ∈ ks.recs → MgrGood sch r.mnemonic r.pass r.coin e.2

def SysGood (sch : Scheme Priv Pub Addr) (s : Sys Priv Pub Addr) : Prop :=
  ∀ e, e ∈ s.insts → KSGood sch e.2.ks

-- ------------------------------------------------------------------ caches

theorem mgrGood_empty (sch : Scheme Priv Pub Addr) (mn pass : String) (coin : Nat) :
    MgrGood sch mn pass coin ({} : Mgr Pub Addr) :=
  ⟨fun x ma h => by simp [AMap.get] at h, fun k a h => by simp [AMap.get] at h⟩

theorem mgrGood_add (sch : Scheme Priv Pub Addr) (mn pass : String) (coin : Nat) (m : Mgr Pub Addr)
    (p : Pub) (b i : Nat) (hp : p = pubAt sch mn pass coin b i) (h : MgrGood sch mn pass coin m) :
    MgrGood sch mn pass coin (m.add (mkAddr sch p b i)) := by
  constructor
  · intro x ma hx
    rw [add_addrs] at hx
    by_cases hk : (mkAddr sch p b i : MAddr Pub Addr).addr = x
    · simp [hk] at hx; subst hx; exact ⟨hp, rfl, hk⟩
    · simp [hk] at hx; exact h.addrs x ma hx
  · intro k a hk
    rw [add_index] at hk
    by_cases hkk : ((mkAddr sch p b i : MAddr Pub Addr).branch, (mkAddr sch p b i : MAddr Pub Addr).index) = k
    · simp [hkk] at hk; subst hk; subst hkk; simp [mkAddr, addrAt, hp]
    · simp [hkk] at hk; exact h.index k a hk

theorem mgrGood_hasPriv (sch : Scheme Priv Pub Addr) (mn pass : String) (coin : Nat) (m : Mgr Pub Addr) (f : Bool)
    (h : MgrGood sch mn pass coin m) : MgrGood sch mn pass coin { m with hasPriv := f } := ⟨h.addrs, h.index⟩

theorem mgrGood_load (sch : Scheme Priv Pub Addr) (mn pass : String) (coin : Nat) (pubs : AMap.T (Nat × Nat) Pub)
    (h : ∀ e, e ∈ pubs → e.2 = pubAt sch mn pass coin e.1.1 e.1.2) : MgrGood sch mn pass coin (loadMgr sch pubs) := by
  induction pubs with
  | nil => exact mgrGood_empty sch mn pass coin
  | cons e pubs ih =>
    have : loadMgr sch (e :: pubs) = (loadMgr sch pubs).add (mkAddr sch e.2 e.1.1 e.1.2) := rfl
    rw [this]
    exact mgrGood_add sch mn pass coin _ _ _ _ (h e List.mem_cons_self)
      (ih (fun e' he' => h e' (List.mem_cons_of_mem _ he')))

-- ------------------------------------------------------------------ creating / restoring an account

theorem mem_putRange (b n : Nat) (f : Nat → Pub) (p0 : AMap.T (Nat × Nat) Pub) (e : (Nat × Nat) × Pub)
    (h : e ∈ ((List.range n).map (fun i => (i, f i))).foldl (fun p e => AMap.put p (b, e.1) e.2) p0) :
    e ∈ p0 ∨ ∃ i, e = ((b, i), f i) := by
  induction n with
  | zero => exact Or.inl (by simpa using h)
  | succ n ih =>
    rw [List.range_succ, List.map_append, List.foldl_append] at h
    simp only [List.map_cons, List.map_nil, List.foldl_cons, List.foldl_nil] at h
    rcases mem_put h with h | h
    · exact Or.inr ⟨n, h⟩
    · exact ih h.1

/-- the account bucket createScope writes is good (uses the curve law: the stored branch keys are the
    neutered private branch keys, the spec derives publicly from the account key) -/
theorem recGood_created (sch : Curve Priv Pub Addr) (ks : KS Priv Pub Addr) (mn pass : String)
    (coin hintEx hintIn : Nat) (used : Addr → Bool) (gap fuel : Nat) (id : String) (r : Rec Priv Pub)
    (h : createScope sch.toScheme ks mn pass coin hintEx hintIn used gap fuel = .ok (id, r)) :
    RecGood sch.toScheme id r ∧ r.mnemonic = mn ∧ r.pass = pass ∧ r.coin = coin := by
  have hC := createScope_ok sch.toScheme ks mn pass coin hintEx hintIn used gap fuel id r h
  refine ⟨⟨?_, ?_, ?_, ?_⟩, hC.mnemonic_eq, hC.pass_eq, hC.coin_eq⟩
  · rw [hC.acctPriv_eq, hC.mnemonic_eq, hC.pass_eq, hC.coin_eq]
  · rw [hC.acctPub_eq, hC.acctPriv_eq]
  · rw [hC.id_eq, hC.mnemonic_eq, hC.pass_eq, hC.coin_eq]; rfl
  · intro e he
    -- re-open createScope to see the two folds
    unfold createScope at h
    simp only at h
    by_cases hd : (AMap.get ks.recs (sch.idOf (sch.pubOf (sch.master mn pass coin)))).isSome = true
    · rw [if_pos hd] at h; cases h
    · rw [if_neg hd] at h
      cases hi : restoreBranch sch.toScheme (sch.pubOf (sch.ckdPriv (sch.master mn pass coin) internalBranch)) used gap hintIn fuel with
      | error e => rw [hi] at h; cases h
      | ok ri =>
        obtain ⟨inNum, inPubs⟩ := ri
        rw [hi] at h
        simp only at h
        cases hx : restoreBranch sch.toScheme (sch.pubOf (sch.ckdPriv (sch.master mn pass coin) externalBranch)) used gap hintEx fuel with
        | error e => rw [hx] at h; cases h
        | ok re =>
          obtain ⟨exNum, exPubs⟩ := re
          rw [hx] at h
          simp only [Except.ok.injEq, Prod.mk.injEq] at h
          obtain ⟨_, rfl⟩ := h
          have hl1 := (restoreBranch_ok sch.toScheme _ used gap hintIn fuel inNum inPubs hi).1
          have hl2 := (restoreBranch_ok sch.toScheme _ used gap hintEx fuel exNum exPubs hx).1
          simp only at he
          rw [hl2, hl1] at he
          rcases mem_putRange _ _ _ _ e he with he | ⟨i, rfl⟩
          · rcases mem_putRange _ _ _ _ e he with he | ⟨i, rfl⟩
            · cases he
            · simp only [pubAt, acctPub]; rw [sch.neuter_ckd]
          · simp only [pubAt, acctPub]; rw [sch.neuter_ckd]

theorem ksGood_install (sch : Curve Priv Pub Addr) (ks : KS Priv Pub Addr) (id : String) (r : Rec Priv Pub)
    (hK : KSGood sch.toScheme ks) (hR : RecGood sch.toScheme id r) : KSGood sch.toScheme (ks.install sch.toScheme id r) := by
  constructor
  · exact uniq_put ks.recs id r hK.uniq
  · intro e he
    rcases mem_put he with rfl | ⟨h1, _⟩
    · exact hR
    · exact hK.recs e h1
  · intro e he r' hr'
    rcases mem_put he with rfl | ⟨h1, h2⟩
    · rcases mem_put hr' with h | ⟨_, h4⟩
      · cases h; exact mgrGood_load sch.toScheme _ _ _ _ hR.pubs
      · exact absurd rfl h4
    · rcases mem_put hr' with h | ⟨h3, _⟩
      · cases h; exact absurd rfl h2
      · exact hK.mgrs e h1 r' h3

theorem ksGood_create (sch : Curve Priv Pub Addr) (ks ks' : KS Priv Pub Addr) (mn pass : String)
    (coin hintEx hintIn : Nat) (used : Addr → Bool) (gap fuel : Nat) (id : String) (r : Rec Priv Pub)
    (hK : KSGood sch.toScheme ks)
    (h : createScope sch.toScheme ks mn pass coin hintEx hintIn used gap fuel = .ok (id, r))
    (hks : ks' = ks.install sch.toScheme id r) : KSGood sch.toScheme ks' := by
  subst hks
  exact ksGood_install sch ks id r hK (recGood_created sch ks mn pass coin hintEx hintIn used gap fuel id r h).1

theorem ksGood_newKeystore (sch : Curve Priv Pub Addr) (ks ks' : KS Priv Pub Addr) (mn pass : String) (coin gap : Nat)
    (id : String) (hK : KSGood sch.toScheme ks) (h : newKeystore sch.toScheme ks mn pass coin gap = .ok (ks', id)) :
    KSGood sch.toScheme ks' := by
  unfold newKeystore at h
  split at h
  · cases h
  · cases hc : createScope sch.toScheme ks mn pass coin 0 0 (fun _ => false) gap 1 with
    | error e => rw [hc] at h; cases h
    | ok x =>
      obtain ⟨id0, r⟩ := x
      rw [hc] at h
      simp only [Except.ok.injEq, Prod.mk.injEq] at h
      exact ksGood_create sch ks ks' mn pass coin 0 0 _ gap 1 id0 r hK hc h.1.symm

theorem ksGood_importMnemonic (sch : Curve Priv Pub Addr) (ks ks' : KS Priv Pub Addr) (mn pass : String)
    (coin he hi : Nat) (used : Addr → Bool) (gap fuel : Nat) (id : String) (hK : KSGood sch.toScheme ks)
    (h : importMnemonic sch.toScheme ks mn pass coin he hi used gap fuel = .ok (ks', id)) :
    KSGood sch.toScheme ks' ∧ id = walletId sch.toScheme mn pass coin := by
  unfold importMnemonic at h
  dsimp only at h
  cases hc : createScope sch.toScheme ks mn pass coin (if he = 0 then 1 else he) hi used gap fuel with
  | error e => rw [hc] at h; cases h
  | ok x =>
    obtain ⟨id0, r⟩ := x
    rw [hc] at h
    simp only [Except.ok.injEq, Prod.mk.injEq] at h
    obtain ⟨h1, rfl⟩ := h
    refine ⟨ksGood_create sch ks ks' mn pass coin _ hi used gap fuel id0 r hK hc h1.symm, ?_⟩
    exact (createScope_ok sch.toScheme ks mn pass coin _ hi used gap fuel id0 r hc).id_eq

theorem ksGood_importKeystore (sch : Curve Priv Pub Addr) (ks ks' : KS Priv Pub Addr) (j : Json) (pass : String)
    (coin : Nat) (used : Addr → Bool) (gap fuel : Nat) (id : String) (hK : KSGood sch.toScheme ks)
    (h : importKeystore sch.toScheme ks j pass coin used gap fuel = .ok (ks', id)) :
    KSGood sch.toScheme ks' ∧ id = walletId sch.toScheme j.mnemonic j.pass j.coin := by
  unfold importKeystore at h
  split at h
  · cases h
  · split at h
    · cases h
    · split at h
      · cases h
      · rename_i hcoin _ hpass
        dsimp only at h
        cases hc : createScope sch.toScheme ks j.mnemonic pass coin (if j.ex = 0 then 1 else j.ex) j.inn used gap fuel with
        | error e => rw [hc] at h; cases h
        | ok x =>
          obtain ⟨id0, r⟩ := x
          rw [hc] at h
          simp only [Except.ok.injEq, Prod.mk.injEq] at h
          obtain ⟨h1, rfl⟩ := h
          refine ⟨ksGood_create sch ks ks' j.mnemonic pass coin _ j.inn used gap fuel id0 r hK hc h1.symm, ?_⟩
          have hp : pass = j.pass := by simpa using hpass
          have hco : j.coin = coin := by simpa using hcoin
          rw [(createScope_ok sch.toScheme ks j.mnemonic pass coin _ j.inn used gap fuel id0 r hc).id_eq, hp, hco]
          rfl

-- ------------------------------------------------------------------ issuing

/-- shape of a successful single-address nextAddresses -/
theorem nextAddresses_ok (sch : Scheme Priv Pub Addr) (r r' : Rec Priv Pub) (m : Mgr Pub Addr) (used : Addr → Bool)
    (internal : Bool) (gap : Nat) (mas : List (MAddr Pub Addr))
    (h : nextAddresses sch r m used internal 1 gap = .ok (r', mas)) :
    mas = [mkAddr sch (issuePub sch r m.hasPriv (if internal then internalBranch else externalBranch) (r.next internal))
            (if internal then internalBranch else externalBranch) (r.next internal)] ∧
    r' = { (r.setNext internal (r.next internal + 1)) with
            pubs := AMap.put (r.setNext internal (r.next internal + 1)).pubs
              ((if internal then internalBranch else externalBranch), r.next internal)
              (issuePub sch r m.hasPriv (if internal then internalBranch else externalBranch) (r.next internal)) } := by
  unfold nextAddresses at h
  dsimp only at h
  by_cases c1 : (decide (1 > maxAddrs) || decide (1 + r.next internal > maxAddrs)) = true
  · rw [if_pos c1] at h; cases h
  · rw [if_neg c1] at h
    by_cases c2 : 1 > gap
    · rw [if_pos c2] at h; cases h
    · rw [if_neg c2] at h
      generalize (if (decide (r.next internal ≠ 0) && decide (r.next internal + 1 > gap)) = true then
          windowPass m used (if internal = true then internalBranch else externalBranch)
            (List.range' (r.next internal + 1 - gap - 1) (r.next internal - (r.next internal + 1 - gap - 1)))
        else Except.ok true) = gate at h
      match gate, h with
      | .error e, h => cases h
      | .ok false, h => cases h
      | .ok true, h =>
        simp only [Except.ok.injEq, Prod.mk.injEq, List.range'_one, List.map_cons, List.map_nil, List.foldl_cons,
          List.foldl_nil] at h
        obtain ⟨rfl, rfl⟩ := h
        exact ⟨rfl, rfl⟩

theorem ksGood_next (sch : Curve Priv Pub Addr) (ks ks' : KS Priv Pub Addr) (used : Addr → Bool) (internal : Bool)
    (gap : Nat) (mas : List (MAddr Pub Addr)) (hK : KSGood sch.toScheme ks)
    (h : ksNextAddresses sch.toScheme ks used internal 1 gap = .ok (ks', mas)) :
    KSGood sch.toScheme ks' ∧
    ∃ id r, ks.current = some id ∧ AMap.get ks.recs id = some r ∧
      ∀ ma, ma ∈ mas → ma.pub = pubAt sch.toScheme r.mnemonic r.pass r.coin ma.branch ma.index ∧ ma.addr = sch.addrOf ma.pub := by
  unfold ksNextAddresses at h
  cases hc : ks.current with
  | none => rw [hc] at h; cases h
  | some id =>
    rw [hc] at h
    simp only at h
    cases hr : AMap.get ks.recs id with
    | none => rw [hr] at h; cases h
    | some r =>
      cases hm : AMap.get ks.mgrs id with
      | none => rw [hr, hm] at h; cases h
      | some m =>
        rw [hr, hm] at h
        simp only at h
        have hRG := hK.recs _ (get_mem hr)
        have hMG := hK.mgrs _ (get_mem hm) r (get_mem hr)
        cases hn : nextAddresses sch.toScheme r m used internal 1 gap with
        | error e => rw [hn] at h; cases h
        | ok x =>
          obtain ⟨r', mas'⟩ := x
          rw [hn] at h
          simp only [Except.ok.injEq, Prod.mk.injEq] at h
          obtain ⟨rfl, rfl⟩ := h
          obtain ⟨hmas, hr'⟩ := nextAddresses_ok sch.toScheme r r' m used internal gap mas' hn
          generalize hb : (if internal = true then internalBranch else externalBranch) = b at hmas hr'
          have hp : issuePub sch.toScheme r m.hasPriv b (r.next internal) =
              pubAt sch.toScheme r.mnemonic r.pass r.coin b (r.next internal) := by
            rw [issuePub_eq sch r hRG.pub]
            simp only [pubAt, acctPub]; rw [hRG.pub, hRG.priv]
          have hsec' : (r.setNext internal (r.next internal + 1)).mnemonic = r.mnemonic ∧
              (r.setNext internal (r.next internal + 1)).pass = r.pass ∧
              (r.setNext internal (r.next internal + 1)).coin = r.coin ∧
              (r.setNext internal (r.next internal + 1)).acctPriv = r.acctPriv ∧
              (r.setNext internal (r.next internal + 1)).acctPub = r.acctPub ∧
              (r.setNext internal (r.next internal + 1)).pubs = r.pubs := by
            cases internal <;> simp [Rec.setNext]
          have hsec : r'.mnemonic = r.mnemonic ∧ r'.pass = r.pass ∧ r'.coin = r.coin := by
            rw [hr']; exact ⟨hsec'.1, hsec'.2.1, hsec'.2.2.1⟩
          have hRG' : RecGood sch.toScheme id r' := by
            rw [hr']
            refine ⟨?_, ?_, ?_, ?_⟩
            · simp only [hsec'.1, hsec'.2.1, hsec'.2.2.1, hsec'.2.2.2.1]; exact hRG.priv
            · simp only [hsec'.2.2.2.1, hsec'.2.2.2.2.1]; exact hRG.pub
            · simp only [hsec'.1, hsec'.2.1, hsec'.2.2.1]; exact hRG.id_eq
            · intro e' he'
              simp only [hsec'.1, hsec'.2.1, hsec'.2.2.1]
              simp only [hsec'.2.2.2.2.2] at he'
              rcases mem_put he' with rfl | ⟨h3, _⟩
              · exact hp
              · exact hRG.pubs e' h3
          refine ⟨⟨uniq_put ks.recs id r' hK.uniq, ?_, ?_⟩, id, r, rfl, hr, ?_⟩
          · intro e he
            rcases mem_put he with rfl | ⟨h1, _⟩
            · exact hRG'
            · exact hK.recs e h1
          · intro e he r'' hr''
            rcases mem_put he with rfl | ⟨h1, h2⟩
            · rcases mem_put hr'' with h | ⟨_, h4⟩
              · cases h
                rw [hsec.1, hsec.2.1, hsec.2.2, hmas]
                simp only [updateManaged, List.foldl_cons, List.foldl_nil]
                exact mgrGood_add sch.toScheme _ _ _ m _ _ _ hp hMG
              · exact absurd rfl h4
            · rcases mem_put hr'' with h | ⟨h3, _⟩
              · cases h; exact absurd rfl h2
              · exact hK.mgrs e h1 r'' h3
          · intro ma hma
            rw [hmas] at hma
            simp only [List.mem_cons, List.not_mem_nil, or_false] at hma
            subst hma
            exact ⟨by simpa [mkAddr] using hp, rfl⟩

-- ------------------------------------------------------------------ restart, passphrase change, key loading

theorem ksGood_open (sch : Curve Priv Pub Addr) (ks ks' : KS Priv Pub Addr) (pp : String)
    (hK : KSGood sch.toScheme ks) (h : openKS sch.toScheme ks.recs pp = .ok ks') : KSGood sch.toScheme ks' := by
  unfold openKS at h
  split at h
  · cases h
  · simp only [Except.ok.injEq] at h
    subst h
    refine ⟨hK.uniq, hK.recs, ?_⟩
    intro e he r hr
    simp only [List.mem_map] at he
    obtain ⟨e0, he0, rfl⟩ := he
    simp only at hr ⊢
    have := hK.uniq (e0.1, r) e0 hr he0 rfl
    have hr2 : r = e0.2 := congrArg Prod.snd this
    subst hr2
    exact mgrGood_load sch.toScheme _ _ _ _ (hK.recs _ he0).pubs

theorem ksGood_chPub (sch : Curve Priv Pub Addr) (ks ks' : KS Priv Pub Addr) (old new : String)
    (hK : KSGood sch.toScheme ks) (h : changePubPass ks old new = .ok ks') : KSGood sch.toScheme ks' := by
  unfold changePubPass at h
  split at h
  · cases h
  · split at h
    · cases h
    · split at h
      · cases h
      · split at h
        · cases h
        · simp only [Except.ok.injEq] at h
          subst h
          refine ⟨?_, ?_, ?_⟩
          · intro e e' he he' hk
            simp only [List.mem_map] at he he'
            obtain ⟨a, ha, rfl⟩ := he
            obtain ⟨a', ha', rfl⟩ := he'
            have := hK.uniq a a' ha ha' hk
            subst this; rfl
          · intro e he
            simp only [List.mem_map] at he
            obtain ⟨a, ha, rfl⟩ := he
            have hg := hK.recs a ha
            exact ⟨hg.priv, hg.pub, hg.id_eq, hg.pubs⟩
          · intro e he r hr
            simp only [List.mem_map] at hr
            obtain ⟨a, ha, hae⟩ := hr
            have h1 : a.1 = e.1 := congrArg Prod.fst hae
            have h2 := congrArg Prod.snd hae
            simp only at h2
            have hg := hK.mgrs e he a.2 (by rw [← h1]; exact ha)
            rw [← h2]; exact hg

theorem ksGood_loadPriv (sch : Curve Priv Pub Addr) (ks ks' : KS Priv Pub Addr) (id pass : String)
    (hK : KSGood sch.toScheme ks) (h : loadPriv ks id pass = .ok ks') : KSGood sch.toScheme ks' := by
  unfold loadPriv at h
  cases hr : AMap.get ks.recs id with
  | none => rw [hr] at h; cases h
  | some r =>
    cases hm : AMap.get ks.mgrs id with
    | none => rw [hr, hm] at h; cases h
    | some m =>
      rw [hr, hm] at h
      simp only at h
      split at h
      · cases h
      · simp only [Except.ok.injEq] at h
        subst h
        refine ⟨hK.uniq, hK.recs, ?_⟩
        intro e he r' hr'
        rcases mem_put he with rfl | ⟨h1, _⟩
        · exact mgrGood_hasPriv sch.toScheme _ _ _ m true (hK.mgrs _ (get_mem hm) r' hr')
        · exact hK.mgrs e h1 r' hr'

theorem ksGood_clearPriv (sch : Curve Priv Pub Addr) (ks : KS Priv Pub Addr)
    (hK : KSGood sch.toScheme ks) : KSGood sch.toScheme (clearPriv ks) := by
  refine ⟨hK.uniq, hK.recs, ?_⟩
  intro e he r hr
  simp only [clearPriv, List.mem_map] at he
  obtain ⟨a, ha, rfl⟩ := he
  exact mgrGood_hasPriv sch.toScheme _ _ _ a.2 false (hK.mgrs a ha r hr)

theorem ksGood_use (sch : Curve Priv Pub Addr) (ks ks' : KS Priv Pub Addr) (id : String)
    (hK : KSGood sch.toScheme ks) (h : useKeystore ks id = .ok ks') : KSGood sch.toScheme ks' := by
  unfold useKeystore at h
  split at h
  · simp only [Except.ok.injEq] at h; subst h; exact ⟨hK.uniq, hK.recs, hK.mgrs⟩
  · cases h

theorem ksGood_empty (sch : Curve Priv Pub Addr) (pp : String) :
    KSGood sch.toScheme ({ pubPass := pp } : KS Priv Pub Addr) := by
  refine ⟨?_, ?_, ?_⟩
  · intro e e' he; exact absurd he List.not_mem_nil
  · intro e he; exact absurd he List.not_mem_nil
  · intro e he; exact absurd he List.not_mem_nil

-- ------------------------------------------------------------------ the system

theorem sysGood_onInst (sch : Curve Priv Pub Addr) (s : Sys Priv Pub Addr) (i : Nat)
    (f : Inst Priv Pub Addr → Inst Priv Pub Addr) (hS : SysGood sch.toScheme s)
    (hf : ∀ x, KSGood sch.toScheme x.ks → KSGood sch.toScheme (f x).ks) : SysGood sch.toScheme (s.onInst i f) := by
  unfold Sys.onInst
  cases hg : AMap.get s.insts i with
  | none => exact hS
  | some x =>
    intro e he
    rcases mem_put he with rfl | ⟨h1, _⟩
    · exact hf x (hS _ (get_mem hg))
    · exact hS e h1

/-- every operation keeps every instance good -/
theorem sysGood_step (sch : Curve Priv Pub Addr) (s : Sys Priv Pub Addr) (op : Op Addr)
    (hS : SysGood sch.toScheme s) : SysGood sch.toScheme (s.step sch.toScheme op) := by
  cases op with
  | boot i coin pp =>
    simp only [Sys.step]
    split
    · exact hS
    · intro e he
      rcases mem_put he with rfl | ⟨h1, _⟩
      · exact ksGood_empty sch pp
      · exact hS e h1
  | create i mn pass =>
    apply sysGood_onInst sch s i _ hS
    intro x hx
    cases hn : newKeystore sch.toScheme x.ks mn pass x.coin x.gap with
    | error e => simpa [hn] using hx
    | ok r => obtain ⟨ks', id⟩ := r; simpa [hn] using ksGood_newKeystore sch x.ks ks' mn pass x.coin x.gap id hx hn
  | use i id =>
    apply sysGood_onInst sch s i _ hS
    intro x hx
    cases hn : useKeystore x.ks id with
    | error e => simpa [hn] using hx
    | ok ks' => simpa [hn] using ksGood_use sch x.ks ks' id hx hn
  | newAddr i =>
    apply sysGood_onInst sch s i _ hS
    intro x hx
    cases hn : ksNextAddresses sch.toScheme x.ks x.used false 1 x.gap with
    | error e => simpa [hn] using hx
    | ok r => obtain ⟨ks', mas⟩ := r; simpa [hn] using (ksGood_next sch x.ks ks' x.used false x.gap mas hx hn).1
  | «export» i id pass =>
    simp only [Sys.step]
    cases AMap.get s.insts i with
    | none => exact hS
    | some x =>
      simp only
      cases exportKeystore x.ks id pass with
      | error e => exact hS
      | ok j => exact hS
  | importKs i file pass =>
    simp only [Sys.step]
    cases s.files[file]? with
    | none => exact hS
    | some j =>
      apply sysGood_onInst sch s i _ hS
      intro x hx
      cases hn : importKeystore sch.toScheme x.ks j pass x.coin x.used x.gap s.fuel with
      | error e => simpa [hn] using hx
      | ok r => obtain ⟨ks', id⟩ := r; simpa [hn] using (ksGood_importKeystore sch x.ks ks' j pass x.coin x.used x.gap s.fuel id hx hn).1
  | importMn i mn pass he hi =>
    apply sysGood_onInst sch s i _ hS
    intro x hx
    cases hn : importMnemonic sch.toScheme x.ks mn pass x.coin he hi x.used x.gap s.fuel with
    | error e => simpa [hn] using hx
    | ok r => obtain ⟨ks', id⟩ := r; simpa [hn] using (ksGood_importMnemonic sch x.ks ks' mn pass x.coin he hi x.used x.gap s.fuel id hx hn).1
  | restart i pp =>
    apply sysGood_onInst sch s i _ hS
    intro x hx
    cases hn : openKS sch.toScheme x.ks.recs pp with
    | error e => simpa [hn] using hx
    | ok ks' => simpa [hn] using ksGood_open sch x.ks ks' pp hx hn
  | chPub i old new =>
    apply sysGood_onInst sch s i _ hS
    intro x hx
    cases hn : changePubPass x.ks old new with
    | error e => simpa [hn] using hx
    | ok ks' => simpa [hn] using ksGood_chPub sch x.ks ks' old new hx hn
  | chain i u => exact sysGood_onInst sch s i _ hS (fun x hx => hx)
  | setGap i g => exact sysGood_onInst sch s i _ hS (fun x hx => hx)
  | loadPriv i id pass =>
    apply sysGood_onInst sch s i _ hS
    intro x hx
    cases hn : loadPriv x.ks id pass with
    | error e => simpa [hn] using hx
    | ok ks' => simpa [hn] using ksGood_loadPriv sch x.ks ks' id pass hx hn
  | clearPriv i => exact sysGood_onInst sch s i _ hS (fun x hx => ksGood_clearPriv sch x.ks hx)

theorem sysGood_run (sch : Curve Priv Pub Addr) (ops : List (Op Addr)) :
    ∀ (s : Sys Priv Pub Addr), SysGood sch.toScheme s → SysGood sch.toScheme (s.run sch.toScheme ops) := by
  induction ops with
  | nil => intro s h; exact h
  | cons op ops ih => intro s h; exact ih _ (sysGood_step sch s op h)

theorem sysGood_init (sch : Curve Priv Pub Addr) (fuel : Nat) :
    SysGood sch.toScheme ({ fuel := fuel } : Sys Priv Pub Addr) := fun e he => nomatch he

theorem findMgr_some (ks : KS Priv Pub Addr) (a : Addr) (id : String) (ma : MAddr Pub Addr)
    (h : findMgr ks a = some (id, ma)) : ∃ m, (id, m) ∈ ks.mgrs ∧ AMap.get m.addrs a = some ma := by
  unfold findMgr at h
  generalize ks.mgrs = l at h
  induction l with
  | nil => simp at h
  | cons e l ih =>
    rw [List.findSome?_cons] at h
    cases hg : AMap.get e.2.addrs a with
    | none =>
      simp only [hg, Option.map_none] at h
      obtain ⟨m, hm, hma⟩ := ih h
      exact ⟨m, List.mem_cons_of_mem _ hm, hma⟩
    | some ma' =>
      simp only [hg, Option.map_some, Option.some.injEq, Prod.mk.injEq] at h
      obtain ⟨rfl, rfl⟩ := h
      exact ⟨e.2, List.mem_cons_self, hg⟩

end MW.Lemmas.KsSys
