/-
  The abstraction function on the worked store of LedgerObsEx.lean (`obS`, the store the follower builds
  on `obChain`).

  `obCtx` itself has an EMPTY block-file table (`obCtx.node.known = []`), so `abs obCtx obS = []`: nothing
  can be read back. `obCtxK` is `obCtx` with the block files of `obChain` present – the hypothesis `hK`
  of `abs_perm`; the store, the parameters, the keystore view and the wallets are the same.
-/
import MW.Lemmas.LedgerAbs
import MW.Lemmas.LedgerObsEx
namespace MW.Lemmas.Ledger
open MW MW.Model.Ledger MW.Spec.Chain MW.Spec.Books

/-- `obCtx` with the block files of `obChain` on disk -/
def obCtxK : Ctx := { obCtx with node := { chain := obChain, known := obChain.map (fun b => (b.id, b)) } }

/-- without block files nothing is read back (why `obCtxK` is needed) -/
example : abs obCtx obS = [] := by decide

/-- the worked store denotes the spec ledger: t1:1, 30 units at height 2, paid to "a2" of wallet "w1" -/
example : abs obCtxK obS = [⟨"w1", "t1", 1, 30, 2, false, .std, "a2"⟩] := by decide

theorem obKnownK : ∀ x ∈ obChain, AMap.get obCtxK.node.known x.id = some x := by
  intro x hx
  simp only [obChain, exChain, List.mem_cons, List.not_mem_nil, or_false] at hx
  rcases hx with rfl | rfl | rfl <;> rfl

/-- the invariant does not look at the node: it holds for `obCtxK` as it does for `obCtx` -/
theorem obInvK : Inv obCtxK obS obChain :=
  ⟨obHyp.1.inv.agree, obHyp.1.inv.bal, obHyp.1.inv.sync, obHyp.1.inv.syncedTo⟩

/-- the abstraction theorems instantiated (non-vacuity of their hypotheses) -/
example : (abs obCtxK obS).Perm (ledgerOf exOwn obChain) :=
  abs_perm obInvK obHyp.1.wf obValid obHeights obKnownK

example : total (abs obCtxK obS) "w1" = total (ledgerOf exOwn obChain) "w1" :=
  abs_total obInvK obHyp.1.wf obValid obHeights obKnownK "w1"

example : total (abs obCtxK obS) "w1" = 30 := by decide

end MW.Lemmas.Ledger
