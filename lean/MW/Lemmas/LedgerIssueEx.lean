/-
  Non-vacuity of `RunHypI` / `ledger_correct_issue`: a concrete history in which the wallet issues an address
  WHILE a notification is pending, and a later block pays that address.
    node:     G ── b1 ── d2              (d2's coinbase pays "a3")
    history:  extend b1 · issue "a3" (wallet "w1") · handle · extend d2 · handle
  When "a3" is issued the node is at G–b1 and the wallet still at G (`S ≠ N`): neither pays "a3".
  The initial keystore view is `exOwn` ("a1", "a2"); `e.own` is `[]` – it is never read.
-/
import MW.Lemmas.LedgerIssue2
import MW.Lemmas.LedgerHistoryEx
namespace MW.Lemmas.Ledger
open MW MW.Model.Ledger MW.Spec.Chain MW.Spec.Books

/-- a child of `hxB1` whose coinbase pays the address "a3" -/
def ixD2 : Block := ⟨"d2", "b1", 2, [⟨"c4", true, [⟨"", 0, 0⟩], [⟨"a3", 50, .std⟩]⟩]⟩

def ixEnv : Env :=
  { p := { cbMaturity := 1 }, own := [], wallets := ["w1"],
    known := [("G", hxG), ("b1", hxB1), ("d2", ixD2)] }

def ix0 : WorldI := ⟨exOwn, hxW0⟩

def ixEvs : List EvI :=
  [.node (.extend hxB1), .issue "a3" "w1" false, .node .handle, .node (.extend ixD2), .node .handle]

/-- the keystore view after the issuance -/
def ixOwn' : Own := AMap.put exOwn "a3" ("w1", false)

/-- where an element of a list sits -/
theorem split_at_index {α : Type} {l pre post : List α} {x : α} (h : l = pre ++ x :: post) :
    pre = l.take pre.length ∧ l[pre.length]? = some x := by
  subst h; simp

theorem ixKnown_cases {id : BlkId} {x : Block} (h : AMap.get ixEnv.known id = some x) :
    x = hxG ∨ x = hxB1 ∨ x = ixD2 := by
  simp only [ixEnv, AMap.get_cons, AMap.get_nil] at h
  repeat' split at h
  all_goals first | (cases h; simp; done) | cases h

theorem ixOK (own : Own) (hv : ChainValid own [hxG, hxB1, ixD2]) :
    ChainOK { ixEnv with own := own } hxG [hxG, hxB1, ixD2] :=
  ⟨hxGood3 rfl rfl rfl rfl rfl, hv, rfl, by
    intro x hx
    simp only [List.mem_cons, List.not_mem_nil, or_false] at hx
    rcases hx with rfl | rfl | rfl <;> rfl⟩

theorem ixValid0 : ChainValid exOwn [hxG, hxB1, ixD2] := by decide
theorem ixValid1 : ChainValid ixOwn' [hxG, hxB1, ixD2] := by decide

/-- THE HYPOTHESES OF `ledger_correct_issue` HOLD for this history -/
theorem ixRunHypI :
    RunHypI ixEnv hxG ix0 ixEvs where
  genesisOnly := by
    intro id x h h0
    rcases ixKnown_cases h with rfl | rfl | rfl
    · rfl
    all_goals cases h0
  genesisPrev := by
    intro id x h
    rcases ixKnown_cases h with rfl | rfl | rfl <;> decide
  chain0 := (ixOK exOwn ixValid0).take 0
  chains := by
    intro pre ev post heq
    obtain ⟨hpre, hx⟩ := split_at_index heq
    rw [hpre]
    match hn : pre.length, hx with
    | 0, hx => cases hx; exact (ixOK exOwn ixValid0).take 1
    | 1, hx => cases hx
    | 2, hx => cases hx; exact (ixOK ixOwn' ixValid1).take 1
    | 3, hx => cases hx; exact ixOK ixOwn' ixValid1
    | 4, hx => cases hx; exact ixOK ixOwn' ixValid1
    | n + 5, hx => simp [ixEvs] at hx
  reorgNonempty := by
    intro ev hev
    simp only [ixEvs, List.mem_cons, List.not_mem_nil, or_false] at hev
    rcases hev with h | h | h | h | h <;> cases h <;> trivial
  paid := by
    intro pre a w ch post heq
    obtain ⟨hpre, hx⟩ := split_at_index heq
    rw [hpre]
    match hn : pre.length, hx with
    | 0, hx => cases hx
    | 1, hx =>
      cases hx
      intro c hc
      have : chainsI ixEnv ix0 (List.take 1 ixEvs) = [[hxG], [hxG, hxB1]] := rfl
      rw [this] at hc
      simp only [List.mem_cons, List.not_mem_nil, or_false] at hc
      rcases hc with rfl | rfl <;> decide
    | 2, hx => cases hx
    | 3, hx => cases hx
    | 4, hx => cases hx
    | n + 5, hx => simp [ixEvs] at hx
  issuer := by
    intro a w ch hev
    simp only [ixEvs, List.mem_cons, List.not_mem_nil, or_false] at hev
    rcases hev with h | h | h | h | h <;> cases h
    show (readyWallets obS0 obCtx.wallets).contains "w1" = true
    rw [obReady]; rfl
  ready := by
    show AllReady exOwn (readyWallets obS0 obCtx.wallets)
    rw [obReady]; exact obAllReady
  readyNe := by
    show (readyWallets obS0 obCtx.wallets).isEmpty = false
    rw [obReady]; rfl

theorem ixQueue : (runI ixEnv ix0 ixEvs).w.queue = [] := rfl
theorem ixChain : (runI ixEnv ix0 ixEvs).w.chain = [hxG, hxB1, ixD2] := rfl
theorem ixOwn : (runI ixEnv ix0 ixEvs).own = ixOwn' := rfl

/-- `ledger_correct_issue` on the example: at the end the store holds exactly the books of `G – b1 – d2` FOR THE
    KEYSTORE VIEW THAT KNOWS "a3", and the follower's tip is `d2` -/
theorem ixCorrect :
    Inv ({ ixEnv with own := ixOwn' }.ctx [hxG, hxB1, ixD2]) (runI ixEnv ix0 ixEvs).w.s [hxG, hxB1, ixD2] ∧
      (runI ixEnv ix0 ixEvs).w.v.best = ⟨2, "d2"⟩ := by
  have h := ledger_correct_issue ixEnv hxG ix0 ixEvs ixRunHypI
    ((inv_ctx_irrel (c := obCtx) (c' := ({ ixEnv with own := exOwn }).ctx [hxG]) rfl rfl rfl).1 obInv0)
    rfl rfl ixQueue
  rw [ixChain, ixOwn] at h
  exact h

/-- … in particular the payment to the issued address is booked: the balance of "w1" is 50 ("a1") + 50 ("a3"),
    whereas for the initial keystore view the chain pays "w1" only 50 -/
example :
    AMap.get (runI ixEnv ix0 ixEvs).w.s.balance "w1" = some 100 ∧
      totalU (bookOf ixEnv.p exOwn [hxG, hxB1, ixD2]).L "w1" = 50 := by
  refine ⟨?_, by decide⟩
  have hr := ledger_ready_issue ixEnv hxG ix0 ixEvs ixRunHypI
    ((inv_ctx_irrel (c := obCtx) (c' := ({ ixEnv with own := exOwn }).ctx [hxG]) rfl rfl rfl).1 obInv0)
    rfl rfl
  have hb := ixCorrect.1.bal "w1" (by
    show (readyWallets (runI ixEnv ix0 ixEvs).w.s ixEnv.wallets).contains "w1" = true
    rw [hr]
    show (readyWallets obS0 obCtx.wallets).contains "w1" = true
    rw [obReady]; rfl)
  rw [hb]
  show some (totalU (bookOf ixEnv.p ixOwn' [hxG, hxB1, ixD2]).L "w1") = some 100
  have : totalU (bookOf ixEnv.p ixOwn' [hxG, hxB1, ixD2]).L "w1" = 100 := by decide
  rw [this]

-- ------------------------------------------------------------------ why `paid` is a hypothesis

/-- a keystore view that does not (yet) know "a1" -/
def ixLate0 : WorldI := ⟨[("a2", ("w1", true))], hxW0⟩

/-- the wallet issues "a1" AFTER the block paying it has been handled -/
def ixLateEvs : List EvI := [.node (.extend hxB1), .node .handle, .issue "a1" "w1" false]

/-- WHY `paid` IS A HYPOTHESIS: if "a1" is issued only after the node's chain pays it (and the follower has
    handled that block), the queue is empty but the store – balance 0 – is not the books of the node's chain for
    the final keystore view – balance 50: the conclusion of `ledger_correct_issue` fails (the rescan of C07 is
    what repairs this). -/
theorem late_issue_breaks :
    (runI ixEnv ixLate0 ixLateEvs).w.queue = [] ∧
      ¬ Inv ({ ixEnv with own := (runI ixEnv ixLate0 ixLateEvs).own }.ctx (runI ixEnv ixLate0 ixLateEvs).w.chain)
          (runI ixEnv ixLate0 ixLateEvs).w.s (runI ixEnv ixLate0 ixLateEvs).w.chain := by
  refine ⟨rfl, fun h => ?_⟩
  have hr : (readyWallets (runI ixEnv ixLate0 ixLateEvs).w.s ixEnv.wallets).contains "w1" = true := by decide
  have hb := h.bal "w1" hr
  have h1 : AMap.get (runI ixEnv ixLate0 ixLateEvs).w.s.balance "w1" = some 0 := by decide
  have h2 : totalU (bookOf ixEnv.p (runI ixEnv ixLate0 ixLateEvs).own (runI ixEnv ixLate0 ixLateEvs).w.chain).L
      "w1" = 50 := by decide
  rw [h1] at hb
  change some 0 = some (totalU (bookOf ixEnv.p (runI ixEnv ixLate0 ixLateEvs).own
    (runI ixEnv ixLate0 ixLateEvs).w.chain).L "w1") at hb
  rw [h2] at hb
  cases hb

end MW.Lemmas.Ledger
