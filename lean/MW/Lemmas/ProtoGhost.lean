/- C20 liveness, state level: invariants of the protocol model with history observers (MW.Spec.Live) and the
   effect of every step on the ranking functions -/
import MW.Spec.Live
import MW.Lemmas.Proto
namespace MW.Lemmas.ProtoGhost
open MW.Model.Proto MW.Lemmas.Proto MW.Spec.Live

theorem xstep_some {c : Cfg} {l : Label} {x x' : XSt} (h : xstep c l x = some x') :
    fire .fixed c l x.s = some x'.s ∧ x'.g = gstep l x.s x.g := by
  unfold xstep at h
  split at h
  · rename_i s' hs
    cases h
    exact ⟨hs, rfl⟩
  · cases h

theorem en_iff {c : Cfg} {l : Label} {x : XSt} : En (xstep c) l x ↔ (fire .fixed c l x.s).isSome = true := by
  unfold En xstep
  split <;> simp_all

/-- the invariant of the observers -/
structure XInv (c : Cfg) (x : XSt) : Prop where
  inv : Inv .fixed c x.s
  qlen : x.g.q.length = x.s.nt
  hand : x.g.hand.isSome = true ↔ inflight x.s.wp = 1
  blkC : x.g.annB = x.g.procB + x.s.nb + (if x.s.hp = .blk then 1 else 0)
  txC : x.g.annT = x.g.procT + x.s.ntx + (if x.s.hp = .tx then 1 else 0)
  acc : ∀ k, k < x.g.next → Pend k x.g ∨ k ∈ x.g.fin ∨ k ∈ x.g.ab ∨ k ∈ x.g.lost
  lost : x.g.lost = []
  ab : x.s.quit = false → x.g.ab = []

theorem xinv_init {c : Cfg} {x : XSt} (hi : Init c x.s) (hg : x.g = ginit x.s) : XInv c x := by
  obtain ⟨s, g⟩ := x
  dsimp only at hi hg
  subst hg
  obtain ⟨h1, h2, h3, h4, h5, h6, _, _, h9⟩ := hi
  refine ⟨inv_init ⟨h1, h2, h3, h4, h5, h6, ‹_›, ‹_›, h9⟩, ?_, ?_, ?_, ?_, ?_, ?_, ?_⟩ <;>
    simp_all [ginit, inflight, Pend]


-- one transition: destructure, evaluate the guard, check every conjunct
set_option hygiene false in
macro "xinv_tac" : tactic => `(tactic| (
  obtain ⟨hf, hg⟩ := xstep_some hs
  have hinv' := inv_step hc h.inv hf
  have hnd := no_drop_of_inv hc h.inv
  obtain ⟨i0, i1, i2, i3, i4, i5, i6, i7⟩ := h
  clear hs
  obtain ⟨s', g'⟩ := x'
  obtain ⟨⟨quit, dbOpen, hp, wp, sp, ap, nb, ntx, nt⟩, ⟨q, hand, next, fin, ab, lost, used, annB, procB, annT, procT⟩⟩ := x
  dsimp only at hf hg i0 i1 i2 i3 i4 i5 i6 i7 hnd hinv'
  subst hg
  refine ⟨hinv', ?_, ?_, ?_, ?_, ?_, ?_, ?_⟩ <;> clear hinv' i0 <;>
  rcases wp with _ | _ | _ | ⟨_|_|_|_⟩ | _ | _ | _ | ⟨_|_|_⟩ | _ | _ <;>
  simp [fire, susNext, susAbort, resNext, Shape.fixed] at hf hnd <;>
    (first | (obtain ⟨hg, rfl⟩ := hf) | (subst hf)) <;>
    (rcases q with _ | ⟨t, ts⟩) <;> (rcases hand with _ | hd) <;>
    simp_all [gstep, inflight, Pend, resNext] <;> (try omega) <;>
    (try (intro k hk; by_cases hh : k < next
          · have := i5 k hh; grind
          · have : k = next := by omega
            grind))))

theorem xinv_hQuit {c : Cfg} (hc : c.busy < c.cap) {x x' : XSt} (h : XInv c x)
    (hs : xstep c .hQuit x = some x') : XInv c x' := by xinv_tac
theorem xinv_hTakeBlk {c : Cfg} (hc : c.busy < c.cap) {x x' : XSt} (h : XInv c x)
    (hs : xstep c .hTakeBlk x = some x') : XInv c x' := by xinv_tac
theorem xinv_hTakeTx {c : Cfg} (hc : c.busy < c.cap) {x x' : XSt} (h : XInv c x)
    (hs : xstep c .hTakeTx x = some x') : XInv c x' := by xinv_tac
theorem xinv_hDoneBlk {c : Cfg} (hc : c.busy < c.cap) {x x' : XSt} (h : XInv c x)
    (hs : xstep c .hDoneBlk x = some x') : XInv c x' := by xinv_tac
theorem xinv_hDoneTx {c : Cfg} (hc : c.busy < c.cap) {x x' : XSt} (h : XInv c x)
    (hs : xstep c .hDoneTx x = some x') : XInv c x' := by xinv_tac
theorem xinv_hWaitQuit {c : Cfg} (hc : c.busy < c.cap) {x x' : XSt} (h : XInv c x)
    (hs : xstep c .hWaitQuit x = some x') : XInv c x' := by xinv_tac
theorem xinv_sus {c : Cfg} (hc : c.busy < c.cap) {x x' : XSt} (h : XInv c x)
    (hs : xstep c .sus x = some x') : XInv c x' := by xinv_tac
theorem xinv_res {c : Cfg} (hc : c.busy < c.cap) {x x' : XSt} (h : XInv c x)
    (hs : xstep c .res x = some x') : XInv c x' := by xinv_tac
theorem xinv_wQuit {c : Cfg} (hc : c.busy < c.cap) {x x' : XSt} (h : XInv c x)
    (hs : xstep c .wQuit x = some x') : XInv c x' := by xinv_tac
theorem xinv_wTakeImp {c : Cfg} (hc : c.busy < c.cap) {x x' : XSt} (h : XInv c x)
    (hs : xstep c .wTakeImp x = some x') : XInv c x' := by xinv_tac
theorem xinv_wTakeRem {c : Cfg} (hc : c.busy < c.cap) {x x' : XSt} (h : XInv c x)
    (hs : xstep c .wTakeRem x = some x') : XInv c x' := by xinv_tac
theorem xinv_wTakeSkip {c : Cfg} (hc : c.busy < c.cap) {x x' : XSt} (h : XInv c x)
    (hs : xstep c .wTakeSkip x = some x') : XInv c x' := by xinv_tac
theorem xinv_wSusQuit {c : Cfg} (hc : c.busy < c.cap) {x x' : XSt} (h : XInv c x)
    (hs : xstep c .wSusQuit x = some x') : XInv c x' := by xinv_tac
theorem xinv_wCommitI {c : Cfg} {o} (hc : c.busy < c.cap) {x x' : XSt} (h : XInv c x)
    (hs : xstep c (.wCommitI o) x = some x') : XInv c x' := by cases o <;> xinv_tac
theorem xinv_wCommitR {c : Cfg} {o} (hc : c.busy < c.cap) {x x' : XSt} (h : XInv c x)
    (hs : xstep c (.wCommitR o) x = some x') : XInv c x' := by cases o <;> xinv_tac
theorem xinv_wResQuit {c : Cfg} (hc : c.busy < c.cap) {x x' : XSt} (h : XInv c x)
    (hs : xstep c .wResQuit x = some x') : XInv c x' := by xinv_tac
theorem xinv_wChkQuit {c : Cfg} (hc : c.busy < c.cap) {x x' : XSt} (h : XInv c x)
    (hs : xstep c .wChkQuit x = some x') : XInv c x' := by xinv_tac
theorem xinv_wChkGo {c : Cfg} (hc : c.busy < c.cap) {x x' : XSt} (h : XInv c x)
    (hs : xstep c .wChkGo x = some x') : XInv c x' := by xinv_tac
theorem xinv_wPush {c : Cfg} (hc : c.busy < c.cap) {x x' : XSt} (h : XInv c x)
    (hs : xstep c .wPush x = some x') : XInv c x' := by xinv_tac
theorem xinv_wPushDrop {c : Cfg} (hc : c.busy < c.cap) {x x' : XSt} (h : XInv c x)
    (hs : xstep c .wPushDrop x = some x') : XInv c x' := by xinv_tac
theorem xinv_sWait {c : Cfg} (hc : c.busy < c.cap) {x x' : XSt} (h : XInv c x)
    (hs : xstep c .sWait x = some x') : XInv c x' := by xinv_tac
theorem xinv_sClose {c : Cfg} (hc : c.busy < c.cap) {x x' : XSt} (h : XInv c x)
    (hs : xstep c .sClose x = some x') : XInv c x' := by xinv_tac
theorem xinv_eStop {c : Cfg} (hc : c.busy < c.cap) {x x' : XSt} (h : XInv c x)
    (hs : xstep c .eStop x = some x') : XInv c x' := by xinv_tac
theorem xinv_eBlk {c : Cfg} (hc : c.busy < c.cap) {x x' : XSt} (h : XInv c x)
    (hs : xstep c .eBlk x = some x') : XInv c x' := by xinv_tac
theorem xinv_eTx {c : Cfg} (hc : c.busy < c.cap) {x x' : XSt} (h : XInv c x)
    (hs : xstep c .eTx x = some x') : XInv c x' := by xinv_tac
theorem xinv_aCheck {c : Cfg} (hc : c.busy < c.cap) {x x' : XSt} (h : XInv c x)
    (hs : xstep c .aCheck x = some x') : XInv c x' := by xinv_tac
theorem xinv_aPush {c : Cfg} (hc : c.busy < c.cap) {x x' : XSt} (h : XInv c x)
    (hs : xstep c .aPush x = some x') : XInv c x' := by xinv_tac
theorem xinv_aPushDrop {c : Cfg} (hc : c.busy < c.cap) {x x' : XSt} (h : XInv c x)
    (hs : xstep c .aPushDrop x = some x') : XInv c x' := by xinv_tac

theorem xinv_step {c : Cfg} (hc : c.busy < c.cap) {l : Label} {x x' : XSt} (h : XInv c x)
    (hs : xstep c l x = some x') : XInv c x' := by
  cases l
  · exact xinv_hQuit hc h hs
  · exact xinv_hTakeBlk hc h hs
  · exact xinv_hTakeTx hc h hs
  · exact xinv_hDoneBlk hc h hs
  · exact xinv_hDoneTx hc h hs
  · exact xinv_hWaitQuit hc h hs
  · exact xinv_sus hc h hs
  · exact xinv_res hc h hs
  · exact xinv_wQuit hc h hs
  · exact xinv_wTakeImp hc h hs
  · exact xinv_wTakeRem hc h hs
  · exact xinv_wTakeSkip hc h hs
  · exact xinv_wSusQuit hc h hs
  · exact xinv_wCommitI hc h hs
  · exact xinv_wCommitR hc h hs
  · exact xinv_wResQuit hc h hs
  · exact xinv_wChkQuit hc h hs
  · exact xinv_wChkGo hc h hs
  · exact xinv_wPush hc h hs
  · exact xinv_wPushDrop hc h hs
  · exact xinv_sWait hc h hs
  · exact xinv_sClose hc h hs
  · exact xinv_eStop hc h hs
  · exact xinv_eBlk hc h hs
  · exact xinv_eTx hc h hs
  · exact xinv_aCheck hc h hs
  · exact xinv_aPush hc h hs
  · exact xinv_aPushDrop hc h hs

end MW.Lemmas.ProtoGhost
