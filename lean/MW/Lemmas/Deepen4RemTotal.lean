/-
  C06 deepening (round 4): TOTALITY of the wallet removal under C08's in-progress invariant.

  C08's library (MW.Lemmas.RemoveInv / RemoveMain) says what a removal step does WHEN IT SUCCEEDS
  (`removeStep … = some o`).  A step fails (`none`: the database transaction rolls back) in exactly two places of
  `removeRelevantTx`:
    (1) the credit scan meets a credit of the wallet flagged `spent` without spender key ("debit missing");
    (2) `removeMinedTxs` finds a tx record whose transaction the node cannot fetch (`txByFileLoc = none`).
  Under `Mid` neither happens: every stored credit / tx record is one of the books of the chain, the books' credits
  are well formed (C01's `CredInv`: a spent credit names its spender) and the books' tx records are block-file
  locations of transactions of the chain, whose blocks the node has (`RemHyp.known`).
    `removeRelevantTx_total_of`   ARBITRARY stores: no failure when the wallet's stored credits are well formed and
                                  every stored tx record can be fetched
    `removeStep_total`            under `RemHyp` and `Mid` a step succeeds
    `removeStep_progress`         (C08's `remove_progress`, restated) a non-finishing step decreases `left`
    `removeLoop_total`            the worker loop of the persistence model completes with `left + 1` iterations of fuel
-/
import MW.Lemmas.Deepen4Remove
import MW.Lemmas.RemoveProgress
namespace MW.Lemmas.Deepen4
open MW MW.Model.Ledger MW.Model.Persist MW.Spec.Persist MW.Spec.Chain MW.Spec.Books MW.Lemmas.Ledger
  MW.Lemmas.PersistOp MW.Lemmas.PersistFault MW.Lemmas.PersistCrash MW.Lemmas.Deepen3 MW.Lemmas.ImportJoin
  MW.Lemmas.RemoveProj

-- ------------------------------------------------------------------ 1. failure (1): "debit missing"

/-- `spender` does not fail on this credit -/
def SpenderOK (cr : Credit) : Prop := ∃ d, Model.Remove.spender cr = .ok d

/-- C01's credit invariant: a credit of the books that is flagged spent names its spender -/
theorem book_credit_spenderOK {p : Params} {own : Own} {chain : List Block} (hV : ChainValid own chain)
    {ck : CredKey} {cr : Credit} (h : (bookOf p own chain).credits ck = some cr) : SpenderOK cr := by
  have hC := credInv_bookOf (p := p) hV
  obtain ⟨u, hu, hck⟩ := hC.only ck cr h
  by_cases hsp : (u.tx, u.idx) ∈ spentOps (occs chain)
  · obtain ⟨dk, hdk⟩ := mem_spentOps_spentBy hsp
    have h1 := hC.spent u dk hu hdk
    rw [← hck, h] at h1
    injection h1 with h1
    exact ⟨some dk, by rw [h1]; simp [Model.Remove.spender]⟩
  · have h1 := hC.unspent u hu hsp
    rw [← hck, h] at h1
    injection h1 with h1
    exact ⟨none, by rw [h1]; simp [Model.Remove.spender, creditOf]⟩

/-- one iteration of the credit scan does not set `failed` on a well-formed credit -/
theorem scanCredit_ok (limit : Nat) (addrs : List Addr) (sc : Model.Remove.Scan) (e : CredKey × Credit)
    (hf : sc.failed = false) (he : addrs.contains e.2.sh = true → SpenderOK e.2) :
    (Model.Remove.scanCredit limit addrs sc e).failed = false := by
  unfold Model.Remove.scanCredit
  by_cases h1 : (sc.stopped || sc.failed) = true
  · rw [if_pos h1]; exact hf
  · rw [if_neg h1]
    by_cases h2 : (!addrs.contains e.2.sh) = true
    · rw [if_pos h2]; exact hf
    · rw [if_neg h2]
      by_cases h3 : (decide (sc.count ≥ limit) || Model.Remove.twoHeights sc.heightOf e.1) = true
      · rw [if_pos h3]; exact hf
      · rw [if_neg h3]
        obtain ⟨d, hd⟩ := he (by simpa using h2)
        rw [hd]
        exact hf

theorem scan_ok (limit : Nat) (addrs : List Addr) (l : List (CredKey × Credit)) (sc : Model.Remove.Scan)
    (hf : sc.failed = false) (hl : ∀ e ∈ l, addrs.contains e.2.sh = true → SpenderOK e.2) :
    (l.foldl (Model.Remove.scanCredit limit addrs) sc).failed = false := by
  induction l generalizing sc with
  | nil => exact hf
  | cons a l ih =>
    exact ih _ (scanCredit_ok limit addrs sc a hf (hl a (List.mem_cons_self ..)))
      (fun e he => hl e (List.mem_cons_of_mem _ he))

/-- the credit scan of a store whose credits of the wallet are well formed does not fail -/
theorem removeRelevantCredit_ok (limit : Nat) (s : Store) (addrs : List Addr)
    (h : ∀ e ∈ s.credits, addrs.contains e.2.sh = true → SpenderOK e.2) :
    (Model.Remove.removeRelevantCredit limit s addrs).failed = false :=
  scan_ok limit addrs s.credits { s := s } rfl h

-- ------------------------------------------------------------------ 2. failure (2): a tx record that cannot be fetched

/-- every visible tx record is the block-file location of a transaction the node can fetch -/
def Fetchable (c : Ctx) (m : AMap.T (TxId × BlockMeta) (BlkId × Nat)) : Prop :=
  ∀ k loc, AMap.get m k = some loc → ∃ tx, c.node.txByFileLoc loc = some tx

theorem fetchable_erase {c : Ctx} {m : AMap.T (TxId × BlockMeta) (BlkId × Nat)} (h : Fetchable c m)
    (k : TxId × BlockMeta) : Fetchable c (AMap.erase m k) := by
  intro k' loc hg
  rw [AMap.get_erase] at hg
  by_cases hk : k = k'
  · rw [if_pos hk] at hg; cases hg
  · rw [if_neg hk] at hg; exact h k' loc hg

/-- one examined (transaction, height) pair: no failure, and what is left can still be fetched -/
theorem minedStep_ok (c : Ctx) (addrs : List Addr) (acc : Store × List (Nat × TxId)) (x : TxId × Nat)
    (h : Fetchable c acc.1.txrecs) :
    ∃ acc', Model.Remove.minedStep c addrs acc x = some acc' ∧ Fetchable c acc'.1.txrecs := by
  unfold Model.Remove.minedStep
  cases hrec : Model.Remove.txRecordAt acc.1 x.1 x.2 with
  | none => exact ⟨acc, rfl, h⟩
  | some rec =>
    obtain ⟨hget, _, _⟩ := MW.Lemmas.RemoveChar.txRecordAt_get hrec
    obtain ⟨tx, htx⟩ := h rec.1 rec.2 hget
    simp only [htx]
    by_cases hr : (Model.Remove.removable c.own acc.1 addrs tx && !Model.Remove.inUse acc.1 rec.1) = true
    · rw [if_pos hr]
      exact ⟨_, rfl, fetchable_erase h rec.1⟩
    · rw [if_neg hr]
      exact ⟨acc, rfl, h⟩

theorem minedFold_ok (c : Ctx) (addrs : List Addr) (l : List (TxId × Nat)) :
    ∀ (acc : Store × List (Nat × TxId)), Fetchable c acc.1.txrecs →
      ∃ r, l.foldlM (Model.Remove.minedStep c addrs) acc = some r := by
  induction l with
  | nil => intro acc _; exact ⟨acc, rfl⟩
  | cons x l ih =>
    intro acc h
    obtain ⟨acc', hs, h'⟩ := minedStep_ok c addrs acc x h
    obtain ⟨r, hr⟩ := ih acc' h'
    refine ⟨r, ?_⟩
    rw [List.foldlM_cons, hs]
    exact hr

/-- the mined half of RemoveRelevantTx does not fail on a store whose tx records can all be fetched -/
theorem removeMinedTxs_ok (c : Ctx) (s : Store) (addrs : List Addr) (hOf : AMap.T TxId Nat)
    (h : Fetchable c s.txrecs) : ∃ r, Model.Remove.removeMinedTxs c s addrs hOf = some r :=
  minedFold_ok c addrs hOf (s, []) h

-- ------------------------------------------------------------------ 3. RemoveRelevantTx / asyncRemove on arbitrary stores

/-- RemoveRelevantTx on ANY store: it succeeds when the stored credits of the wallet are well formed (a credit
    flagged spent has its spender key) and every stored tx record can be fetched from the block files -/
theorem removeRelevantTx_total_of (limit : Nat) (c : Ctx) (s : Store) (addrs : List Addr)
    (hcr : ∀ e ∈ s.credits, addrs.contains e.2.sh = true → SpenderOK e.2) (htx : Fetchable c s.txrecs) :
    ∃ o, Model.Remove.removeRelevantTx limit c s addrs = some o := by
  cases h : Model.Remove.removeRelevantTx limit c s addrs with
  | some o => exact ⟨o, rfl⟩
  | none =>
    exfalso
    unfold Model.Remove.removeRelevantTx at h
    by_cases hemp : addrs.isEmpty = true
    · rw [if_pos hemp] at h; cases h
    · simp only [hemp, Bool.false_eq_true, if_false] at h
      -- the two stores the failing parts start from
      have hcd : ∀ uh, MW.Lemmas.RemoveStep.cd
          (Model.Remove.removeUnminedTxs c.own (Model.Remove.removeRelevantUnminedCredit s addrs).1 addrs uh).1 =
          MW.Lemmas.RemoveStep.cd s := by
        intro uh
        rw [MW.Lemmas.RemoveStep.unminedTxs_proj MW.Lemmas.RemoveStep.cd (fun _ _ => rfl) (fun _ _ => rfl),
          MW.Lemmas.RemoveStep.unminedCredit_cd]
      have hrecs : ∀ uh, MW.Lemmas.RemoveStep.recs
          (Model.Remove.removeUnminedTxs c.own (Model.Remove.removeRelevantUnminedCredit s addrs).1 addrs uh).1 =
          MW.Lemmas.RemoveStep.recs s := by
        intro uh
        rw [MW.Lemmas.RemoveStep.unminedTxs_proj MW.Lemmas.RemoveStep.recs (fun _ _ => rfl) (fun _ _ => rfl),
          MW.Lemmas.RemoveStep.unminedCredit_recs]
      have hF : ∀ s1 : Store, s1.credits = s.credits →
          (Model.Remove.removeRelevantCredit limit s1 addrs).failed = false := by
        intro s1 h1
        exact removeRelevantCredit_ok limit s1 addrs (by rw [h1]; exact hcr)
      have hT : ∀ (s1 : Store) sp hOf, s1.txrecs = s.txrecs →
          ∃ r, Model.Remove.removeMinedTxs c
            (Model.Remove.removeUnminedTxs c.own (Model.Remove.removeRelevantCredit limit s1 addrs).s addrs sp).1
            addrs hOf = some r := by
        intro s1 sp hOf h1
        apply removeMinedTxs_ok
        have e1 : MW.Lemmas.RemoveStep.recs
            (Model.Remove.removeUnminedTxs c.own (Model.Remove.removeRelevantCredit limit s1 addrs).s addrs sp).1 =
            MW.Lemmas.RemoveStep.recs s1 := by
          rw [MW.Lemmas.RemoveStep.unminedTxs_proj MW.Lemmas.RemoveStep.recs (fun _ _ => rfl) (fun _ _ => rfl),
            (MW.Lemmas.RemoveStep.scan_recs_pending limit s1 addrs).1]
        have e2 : (Model.Remove.removeUnminedTxs c.own (Model.Remove.removeRelevantCredit limit s1 addrs).s addrs
            sp).1.txrecs = s1.txrecs := congrArg Prod.fst e1
        rw [e2, h1]
        exact htx
      split at h
      · rename_i hfl
        rw [hF _ (congrArg Prod.fst (hcd _))] at hfl
        cases hfl
      · split at h
        · rename_i hm
          obtain ⟨r, hr⟩ := hT _ _ _ (congrArg Prod.fst (hrecs _))
          rw [hr] at hm
          cases hm
        · cases h

/-- asyncRemove's step succeeds whenever its RemoveRelevantTx does -/
theorem removeStep_of_rrt {limit : Nat} {c : Ctx} {w : Wid} {addrs : List Addr} {s : Store}
    (h : ∃ o, Model.Remove.removeRelevantTx limit c s addrs = some o) :
    ∃ o, Model.Remove.removeStep limit c w addrs s = some o := by
  obtain ⟨o, ho⟩ := h
  unfold Model.Remove.removeStep
  rw [ho]
  by_cases hf : o.finish = true
  · simp only [hf, if_true]; exact ⟨_, rfl⟩
  · simp only [hf]; exact ⟨_, rfl⟩

-- ------------------------------------------------------------------ 4. under `Mid` a step never fails

/-- under `Mid`, every stored credit is the books' credit under its key -/
theorem mid_credit_book {c : Ctx} {w : Wid} {addrs : List Addr} {own' : Own} {chain : List Block} {s : Store}
    (hM : MW.Lemmas.RemoveInv.Mid c w addrs own' s chain) {e : CredKey × Credit} (he : e ∈ s.credits) :
    (bookOf c.p c.own chain).credits e.1 = some e.2 := by
  have hge : AMap.get s.credits e.1 = some e.2 := (mem_iff_get_of_nodup hM.nodup e.1 e.2).1 he
  rcases hM.credits e.1 with h1 | ⟨h1, _⟩
  · rw [← h1]; exact hge
  · rw [hge] at h1; cases h1

/-- under `Mid` and `RemHyp`, every stored tx record can be fetched: it is a tx record of the books, i.e. the
    block-file location of a transaction of the chain, and the chain's blocks are known to the node -/
theorem mid_fetchable {c : Ctx} {w : Wid} {addrs : List Addr} {own' : Own} {chain : List Block} {s : Store}
    (H : MW.Lemmas.RemoveInv.RemHyp c w addrs own' chain) (hM : MW.Lemmas.RemoveInv.Mid c w addrs own' s chain) :
    Fetchable c s.txrecs := by
  intro k loc hk
  have hB : (bookOf c.p c.own chain).txrecs k = some loc := by
    rcases hM.txrecs k with h1 | ⟨h1, _⟩
    · rw [← h1]; exact hk
    · rw [hk] at h1; cases h1
  obtain ⟨P₁, oc, P₂, hs, _, _, hl⟩ := MW.Lemmas.RemoveBooks.txrec_occ H.valid hB
  have hoc : oc ∈ occs chain := by rw [hs]; simp
  exact ⟨oc.t, by rw [hl]; exact txByFileLoc_of_occ H.known hoc⟩

/-- RemoveRelevantTx never fails under the in-progress invariant -/
theorem removeRelevantTx_total {c : Ctx} {w : Wid} {addrs : List Addr} {own' : Own} {chain : List Block} (limit : Nat)
    (H : MW.Lemmas.RemoveInv.RemHyp c w addrs own' chain) {s : Store}
    (hM : MW.Lemmas.RemoveInv.Mid c w addrs own' s chain) :
    ∃ o, Model.Remove.removeRelevantTx limit c s addrs = some o :=
  removeRelevantTx_total_of limit c s addrs
    (fun _ he _ => book_credit_spenderOK H.valid (mid_credit_book hM he)) (mid_fetchable H hM)

/-- TOTALITY OF ONE STEP: under `RemHyp` and `Mid` the database transaction of an asyncRemove iteration never fails -/
theorem removeStep_total {c : Ctx} {w : Wid} {addrs : List Addr} {own' : Own} {chain : List Block} (limit : Nat)
    (H : MW.Lemmas.RemoveInv.RemHyp c w addrs own' chain) {s : Store}
    (hM : MW.Lemmas.RemoveInv.Mid c w addrs own' s chain) :
    ∃ o, Model.Remove.removeStep limit c w addrs s = some o :=
  removeStep_of_rrt (removeRelevantTx_total limit H hM)

-- ------------------------------------------------------------------ 5. progress (C08's `remove_progress`, restated)

/-- a step that does not finish leaves strictly fewer credits of the removed wallet (MW.Props.C08.remove_progress,
    repeated here: lemma files do not import property files) -/
theorem removeStep_progress {limit : Nat} (hl : limit > 0) {c : Ctx} {w : Wid} {addrs : List Addr} {s : Store}
    {o : Model.Remove.StepOut} (hne : addrs ≠ []) (h : Model.Remove.removeStep limit c w addrs s = some o)
    (hnf : o.finish = false) :
    MW.Lemmas.RemoveProgress.left o.s addrs < MW.Lemmas.RemoveProgress.left s addrs := by
  have hr := MW.Lemmas.RemoveMain.removeStep_parked h hnf
  obtain ⟨s1, hcd1, hcd, hfe, _⟩ := (MW.Lemmas.RemoveStep.removeRelevantTx_spec limit c s addrs o hne hr).credits
  have h1 : o.s.credits = (Model.Remove.removeRelevantCredit limit s1 addrs).s.credits := congrArg Prod.fst hcd
  have h2 : s1.credits = s.credits := congrArg Prod.fst hcd1
  have := MW.Lemmas.RemoveProgress.removeRelevantCredit_decreases limit hl s1 addrs (by rw [← hfe]; exact hnf)
  unfold MW.Lemmas.RemoveProgress.left at this ⊢
  rw [h1, ← h2]; exact this

-- ------------------------------------------------------------------ 6. the worker loop completes

/-- TOTALITY OF THE WORKER LOOP: from a state in which the wallet is stored and cached, the removal is in progress
    (`Mid`) and the wallet's status entry is still there, `removeLoop` COMPLETES (returns `some`) for every fuel
    greater than the number of credits of the wallet still stored (`left`): at most `left + 1` iterations, none of
    which fails. -/
theorem removeLoop_total {st : Static} {ks : AMap.T Wid KsRec} {w : Wid} {r : KsRec} {chain X : List Block}
    (limit nR : Nat) (hlimit : limit > 0) (hr : AMap.get ks w = some r)
    (H : MW.Lemmas.RemoveInv.RemHyp ((lenv st ks).ctx chain) w (addrsOf ks w) (ownOf (AMap.erase ks w)) X) :
    ∀ (fuel : Nat) {P : PStore} {V : PVol} {stt : WStatus},
    P.ks = ks → V.keys = ks →
    MW.Lemmas.RemoveInv.Mid ((lenv st ks).ctx chain) w (addrsOf ks w) (ownOf (AMap.erase ks w)) P.led X →
    AMap.get P.led.status w = some stt →
    MW.Lemmas.RemoveProgress.left P.led (addrsOf ks w) < fuel →
    (removeLoop limit nR (envAt st chain) w (addrsOf ks w) fuel P V).isSome = true := by
  intro fuel
  induction fuel with
  | zero => intro P V stt _ _ _ _ h; omega
  | succ f ih =>
    intro P V stt hks hkeys hM hst hlt
    have hrP : AMap.get P.ks w = some r := by rw [hks]; exact hr
    have hrV : AMap.get V.keys w = some r := by rw [hkeys]; exact hr
    have hcl := removeStep_none limit nR (envAt st chain) w (addrsOf ks w) P V r r hrP hrV
    have hctx : ctxOf (envAt st chain) V = (lenv st ks).ctx chain := by rw [ctx_eq, hkeys]
    rw [hctx] at hcl
    obtain ⟨o, hs⟩ := removeStep_total limit H hM
    obtain ⟨hnf, hf⟩ := removeStep_model_status H.ne hs
    rw [hs] at hcl
    simp only at hcl
    rw [removeLoop_succ, hcl]
    by_cases hfin : o.finish = true
    · have hgone : AMap.get o.s.status w = none := by rw [hf hfin, AMap.get_erase]; simp
      have hd : removeDone ({ led := o.s, ks := AMap.erase P.ks w } : PStore) w = true := by
        unfold removeDone; rw [hgone]; rfl
      simp only [if_pos hfin, hd, Bool.not_true, Bool.false_eq_true, if_false, if_true, Option.isSome_some]
    · have hfin' : o.finish = false := by simpa using hfin
      have hstat := hnf hfin'
      have hd : removeDone ({ led := o.s, ks := P.ks } : PStore) w = false := by
        unfold removeDone; rw [hstat, hst]; rfl
      simp only [if_neg hfin, hd, Bool.not_true, Bool.false_eq_true, if_false]
      have hdec := removeStep_progress hlimit H.ne hs hfin'
      exact ih (P := { led := o.s, ks := P.ks })
        (V := { V with led := Model.Remove.removeMempool V.led o.removedTx }) (stt := stt) hks hkeys
        (MW.Lemmas.RemoveMain.parked_step limit H hM hs hfin') (by rw [hstat]; exact hst)
        (by show MW.Lemmas.RemoveProgress.left o.s (addrsOf ks w) < f; omega)

/-- the bound in the form "`left + 1` iterations are enough" -/
theorem removeLoop_total_left {st : Static} {ks : AMap.T Wid KsRec} {w : Wid} {r : KsRec} {chain X : List Block}
    (limit nR : Nat) (hlimit : limit > 0) {P : PStore} {V : PVol} {stt : WStatus}
    (hks : P.ks = ks) (hkeys : V.keys = ks) (hr : AMap.get ks w = some r)
    (H : MW.Lemmas.RemoveInv.RemHyp ((lenv st ks).ctx chain) w (addrsOf ks w) (ownOf (AMap.erase ks w)) X)
    (hM : MW.Lemmas.RemoveInv.Mid ((lenv st ks).ctx chain) w (addrsOf ks w) (ownOf (AMap.erase ks w)) P.led X)
    (hst : AMap.get P.led.status w = some stt) :
    (removeLoop limit nR (envAt st chain) w (addrsOf ks w)
      (MW.Lemmas.RemoveProgress.left P.led (addrsOf ks w) + 1) P V).isSome = true :=
  removeLoop_total limit nR hlimit hr H _ hks hkeys hM hst (Nat.lt_succ_self _)

end MW.Lemmas.Deepen4
