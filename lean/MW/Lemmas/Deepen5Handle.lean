/-
  C06 deepening (round 5), part 2: A HANDLER STEP INSIDE A REMOVAL WINDOW.
  The follower handles the next queued notification while the removal of `w` is in progress: if the block is on the
  node's chain (at any height: extension, reorganisation of any depth, also below the height at which the wallet was
  flagged) and its database transaction succeeds, the relaxed in-progress state `JRmidW` holds again, for the node's
  chain up to that block (C08 round 7: `p2w_processM`).  Once the finishing iteration has run it is round 3's handler
  step for the table without `w`.
-/
import MW.Lemmas.Deepen5Defs
namespace MW.Lemmas.Deepen5
open MW MW.Model.Ledger MW.Model.Persist MW.Spec.Persist MW.Spec.Chain MW.Spec.Books MW.Lemmas.Ledger
  MW.Lemmas.PersistOp MW.Lemmas.PersistFault MW.Lemmas.PersistCrash MW.Lemmas.Deepen3 MW.Lemmas.Deepen4

/-- ONE BLOCK of the node's chain handed to the follower in the relaxed state: if the database transaction succeeds,
    keystore, key cache and task queue stay, nobody's readiness changes, and `P2W` holds for the node's chain up to
    that block -/
theorem block_p2w {st : Static} {G : Block} (E : StaticOK st G) {ks : AMap.T Wid KsRec} {chain X : List Block}
    (hN : ChainOK (lenv st ks) G chain) (hX : ChainOK (lenv st ks) G X) (n : Nat) {P : PStore} {V : PVol} {w : Wid}
    {addrs : List Addr} {own' : Own} {g : Store} {kk : Nat}
    (hkeys : V.keys = ks)
    (hS : MW.Lemmas.RemoveInterleave.Static ((lenv st ks).ctx chain) w addrs own')
    (hP : MW.Lemmas.RemoveInterleave.P2W ((lenv st ks).ctx chain) w addrs own' g P.led X kk)
    (hv : V.led.best = tipMeta X) {b : Block} (hb : chain[b.height]? = some b)
    (hok : ((opBlock (envAt st chain) n b).run none P V).ok = true) :
    ((opBlock (envAt st chain) n b).run none P V).P.ks = P.ks ∧
    ((opBlock (envAt st chain) n b).run none P V).V.keys = V.keys ∧
    ((opBlock (envAt st chain) n b).run none P V).V.tasks = V.tasks ∧
    (∃ g' k', MW.Lemmas.RemoveInterleave.P2W ((lenv st ks).ctx chain) w addrs own' g'
      ((opBlock (envAt st chain) n b).run none P V).P.led (chain.take (b.height + 1)) k') ∧
    ((opBlock (envAt st chain) n b).run none P V).V.led.best = tipMeta (chain.take (b.height + 1)) ∧
    (∀ l, readyWallets ((opBlock (envAt st chain) n b).run none P V).P.led l = readyWallets P.led l) := by
  have hc : ctxOf (envAt st chain) V = (lenv st ks).ctx chain := by rw [ctx_eq, hkeys]
  have hbk : AMap.get (lenv st ks).known b.id = some b := hN.known b (List.mem_of_getElem? hb)
  have hR := reorgHyp_of hN hX
  have hrd := processBlock_ready ((lenv st ks).ctx chain) P.led V.led b
  obtain ⟨e1, e2, e3⟩ := opBlock_processBlock (envAt st chain) n b P V
  rw [hc] at e1 e2 e3
  rw [hok] at e3
  cases hpm : processM ((lenv st ks).ctx chain) P.led V.led b with
  | error e =>
    rw [processBlock_of_error hpm] at e3
    cases e3
  | ok r =>
    obtain ⟨s', rolled, added⟩ := r
    obtain ⟨v', hpb, hv'⟩ := processBlock_of_ok hpm
    rw [hpb] at e1 e2 hrd
    obtain ⟨g', k', hP'⟩ := MW.Lemmas.RemoveInterleave.p2w_processM (c := (lenv st ks).ctx chain) hS hN.good hN.valid
      hN.known hX.good hX.valid hX.known hR.genesis hR.inj hP hb hv (hgen_of (E.envHyp ks) hX hbk) hpm
    refine ⟨by rw [e1], by rw [e2], by rw [e2], ⟨g', k', by rw [e1]; exact hP'⟩, ?_, by rw [e1]; exact hrd⟩
    rw [e2]
    show v'.best = _
    rw [hv', ← tipMeta_take hN.good hb]

/-- **a handler step inside a removal window, removal in progress**: the next queued notification is a block of the
    node's chain; if its database transaction succeeds the relaxed state holds for the node's chain up to that block; if
    it FAILS nothing changes (one Update) — which keeps the state as long as another notification is still queued, so
    success is asked of the LAST queued notification only -/
theorem JRmidW_handle {cfg : Cfg} {G : Block} (E : StaticOK cfg.st G) (cr : Bool) {x : SysQ} {k : Skel} {w : Wid}
    (hJ : JRmidW cfg G x k w)
    (hon : ∀ b, x.queue.head? = some b → k.chain[b.height]? = some b)
    (hok : ∀ b, x.queue = [b] → ((opBlock (envAt cfg.st k.chain) cfg.n b).run none x.P x.V).ok = true) :
    JRmidW cfg G (stepQ cfg.st cfg.n cr x .handle) k w := by
  cases hq : x.queue with
  | nil =>
    have h1 : stepQ cfg.st cfg.n cr x .handle = x := by simp only [stepQ, hq]
    rw [h1]; exact hJ
  | cons b q =>
    obtain ⟨hc, hks, hkeys, hnW, hnA, ⟨r, hr, hrne⟩, htask, ⟨X, g, kk, hX, hP, hv, hpreX, _⟩, hqk, hql, hN, hcur, hoth, hother⟩ := hJ
    have hb : k.chain[b.height]? = some b := hon b (by rw [hq]; rfl)
    have h1 : stepQ cfg.st cfg.n cr x .handle =
        { x with queue := q, P := ((opBlock (envAt cfg.st k.chain) cfg.n b).run none x.P x.V).P,
                 V := ((opBlock (envAt cfg.st k.chain) cfg.n b).run none x.P x.V).V } := by
      simp only [stepQ, hq, hc]
    rw [h1]
    have hql' : q ≠ [] → q.getLast? = k.chain.getLast? := by
      intro hqne
      have hl := hql (by rw [hq]; simp)
      rw [hq] at hl
      rw [← hl]
      cases q with
      | nil => exact absurd rfl hqne
      | cons a t => rw [List.getLast?_cons_cons]
    have hqk' : ∀ y ∈ q, AMap.get cfg.st.known y.id = some y :=
      fun y hy => hqk y (by rw [hq]; exact List.mem_cons_of_mem _ hy)
    have hS := static_of (cfg := cfg) hX hnA hnW hr hrne k.chain
    cases hokb : ((opBlock (envAt cfg.st k.chain) cfg.n b).run none x.P x.V).ok with
    | false =>
      -- the transaction failed: store and volatile state are what they were; another notification is still queued
      have hqne : q ≠ [] := by
        intro hqe
        have := hok b (by rw [hq, hqe])
        rw [hokb] at this; cases this
      have hcx : ctxOf (envAt cfg.st k.chain) x.V = (lenv cfg.st k.ks).ctx k.chain := by rw [ctx_eq, hkeys]
      obtain ⟨e1, e2, e3⟩ := opBlock_processBlock (envAt cfg.st k.chain) cfg.n b x.P x.V
      rw [hcx] at e1 e2 e3
      rw [hokb] at e3
      have hpb : processBlock ((lenv cfg.st k.ks).ctx k.chain) x.P.led x.V.led b = (x.P.led, x.V.led, false) := by
        cases hpm : processM ((lenv cfg.st k.ks).ctx k.chain) x.P.led x.V.led b with
        | error e => exact processBlock_of_error hpm
        | ok r =>
          obtain ⟨s', rolled, added⟩ := r
          obtain ⟨v', hpb', _⟩ := processBlock_of_ok hpm
          rw [hpb'] at e3; cases e3
      rw [hpb] at e1 e2
      have eP : ((opBlock (envAt cfg.st k.chain) cfg.n b).run none x.P x.V).P = x.P := e1
      have eV : ((opBlock (envAt cfg.st k.chain) cfg.n b).run none x.P x.V).V = x.V := e2
      rw [eP, eV]
      exact ⟨hc, hks, hkeys, hnW, hnA, ⟨r, hr, hrne⟩, htask, ⟨X, g, kk, hX, hP, hv, hpreX, fun h => absurd h hqne⟩,
        hqk', hql', hN, hcur, hoth, hother⟩
    | true =>
    obtain ⟨b3, b4, b5, ⟨g', k', b6⟩, b7, b8⟩ := block_p2w E hN hX cfg.n hkeys hS hP hv hb hokb
    refine ⟨hc, b3.trans hks, b4.trans hkeys, hnW, hnA, ⟨r, hr, hrne⟩, ?_,
      ⟨k.chain.take (b.height + 1), g', k', hN.take _, b6, b7, ⟨k.chain, hcur, List.take_prefix _ _⟩, ?_⟩,
      hqk', hql', hN, hcur, ?_, hother⟩
    · show ((opBlock (envAt cfg.st k.chain) cfg.n b).run none x.P x.V).V.tasks.contains (.rem w) = true
      rw [b5]; exact htask
    · intro hqe
      have hqe' : q = [] := hqe
      have hl := hql (by rw [hq]; simp)
      rw [hq, hqe', List.getLast?_singleton] at hl
      obtain ⟨_, hlen⟩ := hN.good.getLast_at hl.symm
      rw [hlen, List.take_length]
    · intro w' hw' hne
      show readyB ((opBlock (envAt cfg.st k.chain) cfg.n b).run none x.P x.V).P.led w' = true
      rw [readyB_of_readyWallets b8 w']; exact hoth w' hw' hne

end MW.Lemmas.Deepen5
