/-
  Store algebra for MW.Model.Secrets: reads after `putAll`, `eraseWallet`, the public-passphrase
  rewrite and `clearAll`; the contents of a freshly written account bucket.
-/
import MW.Model.Secrets
import MW.Lemmas.SecretsInv
namespace MW.Lemmas.SecretsDB
open MW MW.Model.Secrets

theorem putAll_nil (db : DB) : putAll db [] = db := rfl

theorem putAll_cons (db : DB) (e : Key × Term) (es : List (Key × Term)) :
    putAll db (e :: es) = putAll (AMap.put db e.1 e.2) es := by
  simp [putAll]

theorem putAll_append (db : DB) (xs ys : List (Key × Term)) :
    putAll db (xs ++ ys) = putAll (putAll db xs) ys := by
  simp [putAll, List.foldl_append]

/-- keys not written keep their value -/
theorem get_putAll_of_ne {k : Key} : ∀ (es : List (Key × Term)) (db : DB), (∀ e ∈ es, e.1 ≠ k) →
    AMap.get (putAll db es) k = AMap.get db k := by
  intro es
  induction es with
  | nil => intro db _; rfl
  | cons x xs ih =>
    intro db h
    rw [putAll_cons, ih _ (fun e he => h e (List.mem_cons_of_mem _ he)), AMap.get_put]
    have := h x (List.mem_cons_self)
    simp [this]

theorem dbGet_putAll_of_ne {w : String} {k : KeyName} (es : List (Key × Term)) (db : DB)
    (h : ∀ e ∈ es, e.1 ≠ (w, k)) : dbGet (putAll db es) w k = dbGet db w k := by
  unfold dbGet
  rw [get_putAll_of_ne es db h]

theorem dbGet_put (db : DB) (k' : Key) (v : Term) (w : String) (k : KeyName) :
    dbGet (AMap.put db k' v) w k = if k' = (w, k) then v else dbGet db w k := by
  unfold dbGet
  rw [AMap.get_put]
  split <;> simp

-- ------------------------------------------------------------------ account bucket

theorem scopeEntries_wallet (w e : String) (p : Pass) (nExt nInt : Nat) (kPub kPriv : Term) :
    ∀ x ∈ scopeEntries w e p nExt nInt kPub kPriv, x.1.1 = w := by
  intro x hx
  unfold scopeEntries at hx
  simp only [List.mem_append, List.mem_cons, List.mem_map, List.mem_range, List.not_mem_nil, or_false] at hx
  rcases hx with ((h | h | h | h | h | h | h | h) | ⟨i, _, h⟩) | ⟨i, _, h⟩ <;> subst h <;> rfl

theorem acctEntries_wallet (w e : String) (p : Pass) (nExt nInt : Nat) (a b c d : Term) (x y z : Nat) :
    ∀ en ∈ acctEntries w e p nExt nInt a b c d x y z, en.1.1 = w := by
  intro en hen
  unfold acctEntries at hen
  rcases List.mem_append.mp hen with h | h
  · exact scopeEntries_wallet _ _ _ _ _ _ _ en h
  · simp only [List.mem_cons, List.not_mem_nil, or_false] at h
    rcases h with h | h | h | h | h | h | h <;> subst h <;> rfl

/-- writes into bucket `w` do not touch another bucket -/
theorem dbGet_putAll_other {w w' : String} (es : List (Key × Term)) (db : DB) (hes : ∀ e ∈ es, e.1.1 = w)
    (hne : w' ≠ w) (k : KeyName) : dbGet (putAll db es) w' k = dbGet db w' k := by
  apply dbGet_putAll_of_ne
  intro e he heq
  have := hes e he
  rw [heq] at this
  exact hne this

/-- what the account bucket holds after create / import: the five entries the gate reads -/
theorem acctEntries_reads (db : DB) (w e : String) (p : Pass) (nExt nInt : Nat)
    (privParams mkPriv mkPubParams mkPub : Term) (kPub kPriv kEnt : Nat) :
    let db' := putAll db (acctEntries w e p nExt nInt privParams mkPriv mkPubParams mkPub kPub kPriv kEnt)
    dbGet db' w .mpriv = privParams ∧
    dbGet db' w .cent = .enc mkPriv (.secret (.key kEnt)) ∧
    dbGet db' w .ent = .enc (.secret (.key kEnt)) (.secret (.entropy e)) ∧
    dbGet db' w .cpriv = .enc mkPriv (.secret (.key kPriv)) ∧
    dbGet db' w (.acct 1) = .pair (.enc (.secret (.key kPub)) (.pub "acct-xpub"))
                                 (.enc (.secret (.key kPriv)) (.secret (.acctPriv e p))) := by
  intro db'
  have hlast : ∀ (d : DB) (k : KeyName),
      dbGet (putAll d [ ((w, KeyName.kver), Term.pub "0"), ((w, .mpriv), privParams), ((w, .mpub), mkPubParams),
        ((w, .ent), .enc (.secret (.key kEnt)) (.secret (.entropy e))), ((w, .cpub), .enc mkPub (.secret (.key kPub))),
        ((w, .cpriv), .enc mkPriv (.secret (.key kPriv))), ((w, .cent), .enc mkPriv (.secret (.key kEnt))) ]) w k =
      if k = .cent then .enc mkPriv (.secret (.key kEnt)) else
      if k = .cpriv then .enc mkPriv (.secret (.key kPriv)) else
      if k = .cpub then .enc mkPub (.secret (.key kPub)) else
      if k = .ent then .enc (.secret (.key kEnt)) (.secret (.entropy e)) else
      if k = .mpub then mkPubParams else
      if k = .mpriv then privParams else
      if k = .kver then .pub "0" else dbGet d w k := by
    intro d k
    simp only [putAll, List.foldl_cons, List.foldl_nil, dbGet_put, Prod.mk.injEq, true_and]
    simp only [eq_comm (b := k)]
  have hdb' : db' = putAll (putAll db (scopeEntries w e p nExt nInt (.secret (.key kPub)) (.secret (.key kPriv))))
      [ ((w, KeyName.kver), Term.pub "0"), ((w, .mpriv), privParams), ((w, .mpub), mkPubParams),
        ((w, .ent), .enc (.secret (.key kEnt)) (.secret (.entropy e))), ((w, .cpub), .enc mkPub (.secret (.key kPub))),
        ((w, .cpriv), .enc mkPriv (.secret (.key kPriv))), ((w, .cent), .enc mkPriv (.secret (.key kEnt))) ] := by
    simp only [db', acctEntries, putAll_append]
  refine ⟨?_, ?_, ?_, ?_, ?_⟩
  · rw [hdb', hlast]; simp
  · rw [hdb', hlast]; simp
  · rw [hdb', hlast]; simp
  · rw [hdb', hlast]; simp
  · rw [hdb', hlast]
    simp only [reduceCtorEq, if_false]
    -- the account row is written by createManagerKeyScope and not overwritten by the public-key entries
    unfold scopeEntries
    rw [putAll_append, putAll_append]
    rw [dbGet_putAll_of_ne, dbGet_putAll_of_ne]
    · simp only [putAll, List.foldl_cons, List.foldl_nil, dbGet_put, Prod.mk.injEq, true_and]
      simp
    · intro x hx
      simp only [List.mem_map, List.mem_range] at hx
      obtain ⟨i, _, rfl⟩ := hx
      simp
    · intro x hx
      simp only [List.mem_map, List.mem_range] at hx
      obtain ⟨i, _, rfl⟩ := hx
      simp

-- ------------------------------------------------------------------ eraseWallet

theorem get_eraseWallet_other (db : DB) {w w' : String} (hne : w' ≠ w) (k : KeyName) :
    AMap.get (eraseWallet db w) (w', k) = AMap.get db (w', k) := by
  unfold eraseWallet AMap.get
  induction db with
  | nil => rfl
  | cons x xs ih =>
    by_cases hx : x.1.1 = w
    · have hk : ¬ x.1 = (w', k) := by
        intro h; rw [h] at hx; exact hne hx
      simp only [List.filter, hx, decide_true, Bool.not_true, List.find?, hk, decide_false]
      exact ih
    · simp only [List.filter, hx, decide_false, Bool.not_false, List.find?]
      by_cases hk : x.1 = (w', k)
      · simp [hk]
      · simp only [hk, decide_false]
        exact ih

theorem dbGet_eraseWallet_other (db : DB) {w w' : String} (hne : w' ≠ w) (k : KeyName) :
    dbGet (eraseWallet db w) w' k = dbGet db w' k := by
  unfold dbGet
  rw [get_eraseWallet_other db hne]

-- ------------------------------------------------------------------ chpub writes

theorem chpub_fold_reads (db0 : DB) (old new : Pass) (w : String) (k : KeyName) (hk1 : k ≠ .mpub) (hk2 : k ≠ .cpub)
    (ws : List (String × WRec × AM)) : ∀ (acc : DB × Nat),
    dbGet (ws.foldl (fun (acc : DB × Nat) e =>
      let w := e.1
      let ck := match deriveKey (dbGet db0 w .mpub) old with
        | some mkOld => (dec mkOld (dbGet db0 w .cpub)).getD (.pub "missing")
        | none => .pub "missing"
      (AMap.put (AMap.put acc.1 (w, .mpub) (paramsT acc.2 new)) (w, .cpub) (.enc (masterKey acc.2 new) ck), acc.2 + 1)) acc).1 w k
    = dbGet acc.1 w k := by
  induction ws with
  | nil => intro acc; rfl
  | cons x xs ih =>
    intro acc
    simp only [List.foldl_cons]
    rw [ih]
    simp only [dbGet_put, Prod.mk.injEq]
    have h1 : ¬ (x.1 = w ∧ KeyName.cpub = k) := fun h => hk2 h.2.symm
    have h2 : ¬ (x.1 = w ∧ KeyName.mpub = k) := fun h => hk1 h.2.symm
    simp [h1, h2]

theorem chpubWrites_reads (st : St) (old new : Pass) (w : String) (k : KeyName) (hk1 : k ≠ .mpub) (hk2 : k ≠ .cpub) :
    dbGet (chpubWrites st old new).1 w k = dbGet st.db w k := by
  unfold chpubWrites
  exact chpub_fold_reads st.db old new w k hk1 hk2 st.wal (st.db, st.nonce)

-- ------------------------------------------------------------------ clearAll

theorem get_clearAll (wal : AMap.T String (WRec × AM)) (w : String) :
    AMap.get (clearAll wal) w = (AMap.get wal w).map (fun ra => (ra.1, ({} : AM))) := by
  unfold clearAll AMap.get
  induction wal with
  | nil => rfl
  | cons x xs ih =>
    simp only [List.map_cons, List.find?]
    by_cases hx : x.1 = w
    · simp [hx, clearPrivKeys]
    · simp only [hx, decide_false]
      exact ih

theorem clearAll_of_locked (wal : AMap.T String (WRec × AM)) (h : ∀ e ∈ wal, e.2.2 = ({} : AM)) :
    clearAll wal = wal := by
  unfold clearAll
  induction wal with
  | nil => rfl
  | cons x xs ih =>
    simp only [List.map_cons]
    rw [ih (fun e he => h e (List.mem_cons_of_mem _ he))]
    have := h x (List.mem_cons_self)
    obtain ⟨k, r, a⟩ := x
    simp at this
    simp [clearPrivKeys, this]

theorem mem_clearAll {wal : AMap.T String (WRec × AM)} {e : String × WRec × AM} (h : e ∈ clearAll wal) :
    e.2.2 = ({} : AM) := by
  unfold clearAll at h
  simp only [List.mem_map] at h
  obtain ⟨x, _, rfl⟩ := h
  rfl

end MW.Lemmas.SecretsDB
