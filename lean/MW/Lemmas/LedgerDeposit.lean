/-
  C10 — the lifecycle of staking / binding deposits, read off the invariant `Inv c s chain`.
    deposit_once            the deposit-history bucket = one record per entry of `deposits`, none else
    deposit_eq_of_outpoint  an outpoint of a valid chain is at most one deposit (of one wallet)
    deposit_record_unique   every record of the bucket at a deposit's outpoint IS the deposit's record
    deposit_unique          the record with the opposite withdrawn flag is absent
    created_credit / deposit_credit / deposit_credit_stk / deposit_entry
                            the credit the history listing joins with: amount, address, class, maturity, spent
    withdrawn_iff / unwithdrawn_iff / withdrawn_chain_iff
                            record in the withdrawn partition <-> a transaction of the chain spends the deposit
    excluded / standard_not_deposit / walletBalance_spendable / spendable_excludes_deposits
                            a deposit is no `standard` coin; the spendable amount sums non-deposits only
    withdrawable_iff / staking_withdrawable_iff / binding_*_withdrawable_iff
                            the wallet's maturity test on an unspent deposit = the consensus sequence lock
    deposit_credit_stk_cb / spendableAt_stk_cb / staking_cb_withdrawable_iff
                            a staking output of a COINBASE: coinbase maturity AND sequence lock (max of both)
  Every statement is about the store `s` of ANY history that ends with `Inv c s chain` (blocks connected,
  rolled back, reorganised): the records are a function of the current chain, so a withdrawal that is
  reorganised away is shown as not withdrawn again (`unwithdrawn_iff` at the new chain).
-/
import MW.Lemmas.LedgerChar4
import MW.Lemmas.LedgerObs3
namespace MW.Lemmas.Ledger
open MW MW.Model.Ledger MW.Spec.Chain MW.Spec.Books

-- ------------------------------------------------------------------ classes

theorem uclassOf_standard_iff (k : Cls) : uclassOf k = .standard ↔ isDeposit k = false := by
  cases k <;> simp [uclassOf, isDeposit, Cls.isStaking, Cls.isBinding]

theorem uclassOf_deposit {k : Cls} (h : isDeposit k = true) : uclassOf k ≠ .standard := by
  intro e
  rw [(uclassOf_standard_iff k).1 e] at h
  cases h

-- ------------------------------------------------------------------ 1. exactly once

section
variable {c : Ctx} {s : Store} {chain : List Block}

/-- 1a. the deposit-history bucket holds one record per deposit of the chain, and nothing else -/
theorem deposit_once (hI : Inv c s chain) (hV : ChainValid c.own chain) (gk : GameKey) :
    AMap.get s.game gk = some () ↔
      ∃ d ∈ deposits c.own chain gk.wallet,
        gk = ⟨gk.wallet, d.cls.isBinding, d.withdrawn, d.tx, d.height, d.idx⟩ := by
  rw [hI.agree.game]
  exact game_bookOf_deposits hV gk

/-- on a valid chain an outpoint is at most one deposit, of one wallet -/
theorem deposit_eq_of_outpoint {own : Own} {chain : List Block} (hV : ChainValid own chain) {w w' : Wid}
    {d d' : Deposit} (hd : d ∈ deposits own chain w) (hd' : d' ∈ deposits own chain w')
    (ht : d.tx = d'.tx) (hi : d.idx = d'.idx) : w = w' ∧ d = d' := by
  obtain ⟨u, hc, _, hw, rfl⟩ := (deposits_mem_iff own chain w d).1 hd
  obtain ⟨u', hc', _, hw', rfl⟩ := (deposits_mem_iff own chain w' d').1 hd'
  have hn := (glob_bookOf (p := {}) hV).idsNodup
  have he : u = u' := char_created_unique hn hc hc' ht hi
  subst he
  exact ⟨hw.symm.trans hw', rfl⟩

/-- 1b. EXACTLY ONCE: whatever record the bucket holds at the outpoint of a deposit is THE record of that
    deposit (its wallet, binding flag, withdrawn flag, height) -/
theorem deposit_record_unique (hI : Inv c s chain) (hV : ChainValid c.own chain) {w : Wid} {d : Deposit}
    (hd : d ∈ deposits c.own chain w) (gk : GameKey) (hg : AMap.get s.game gk = some ())
    (ht : gk.tx = d.tx) (hv : gk.vout = d.idx) :
    gk = ⟨w, d.cls.isBinding, d.withdrawn, d.tx, d.height, d.idx⟩ := by
  obtain ⟨d', hd', hk⟩ := (deposit_once hI hV gk).1 hg
  have h1 : gk.tx = d'.tx := congrArg GameKey.tx hk
  have h2 : gk.vout = d'.idx := congrArg GameKey.vout hk
  obtain ⟨hw, he⟩ := deposit_eq_of_outpoint hV hd hd' (ht.symm.trans h1) (hv.symm.trans h2)
  rw [hk, hw, he]

/-- the record of a deposit is there -/
theorem deposit_record (hI : Inv c s chain) (hV : ChainValid c.own chain) {w : Wid} {d : Deposit}
    (hd : d ∈ deposits c.own chain w) :
    AMap.get s.game ⟨w, d.cls.isBinding, d.withdrawn, d.tx, d.height, d.idx⟩ = some () :=
  (deposit_once hI hV _).2 ⟨d, hd, rfl⟩

/-- 1c. the record with the opposite withdrawn flag is absent -/
theorem deposit_unique (hI : Inv c s chain) (hV : ChainValid c.own chain) {w : Wid} {d : Deposit}
    (hd : d ∈ deposits c.own chain w) :
    AMap.get s.game ⟨w, d.cls.isBinding, !d.withdrawn, d.tx, d.height, d.idx⟩ = none := by
  cases h : AMap.get s.game ⟨w, d.cls.isBinding, !d.withdrawn, d.tx, d.height, d.idx⟩ with
  | none => rfl
  | some x =>
    exfalso
    have := deposit_record_unique hI hV hd _ h rfl rfl
    have hb : (!d.withdrawn) = d.withdrawn := congrArg GameKey.withdrawn this
    cases hw : d.withdrawn <;> rw [hw] at hb <;> cases hb

-- ------------------------------------------------------------------ 2. the credit of a deposit

/-- every owned output of the chain has its credit: amount, address, class, change flag, maturity
    (32-bit field) as the output says, marked spent exactly when a transaction of the chain spends it -/
theorem created_credit (hI : Inv c s chain) (hV : ChainValid c.own chain) {u : UCoin}
    (hc : CreatedIn c.own (occs chain) u) :
    ∃ cr, AMap.get s.credits u.credKey = some cr ∧ cr.amt = u.out.amt ∧ cr.sh = u.out.addr ∧
      cr.cls = uclassOf u.out.cls ∧
      cr.maturity = (if u.cb then max c.p.cbMaturity u.out.cls.maturity else u.out.cls.maturity) % 2^32 ∧
      (cr.spent = true ↔ (u.tx, u.idx) ∈ spentOps (occs chain)) := by
  have hC := credInv_bookOf (p := c.p) hV
  by_cases hs : (u.tx, u.idx) ∈ spentOps (occs chain)
  · obtain ⟨dk, hdk⟩ := mem_spentOps_spentBy hs
    refine ⟨{ creditOf c.p u with spent := true, spentBy := some dk }, ?_, rfl, rfl, rfl, rfl,
      ⟨fun _ => hs, fun _ => rfl⟩⟩
    rw [hI.agree.credits]
    exact hC.spent u dk hc hdk
  · refine ⟨creditOf c.p u, ?_, rfl, rfl, rfl, rfl, ⟨fun h => ?_, fun h => absurd h hs⟩⟩
    · rw [hI.agree.credits]
      exact hC.unspent u hc hs
    · simp [creditOf] at h

/-- 2. RIGHT AMOUNT, ADDRESS, FROZEN PERIOD: the credit of a deposit -/
theorem deposit_credit (hI : Inv c s chain) (hV : ChainValid c.own chain) {u : UCoin}
    (hc : CreatedIn c.own (occs chain) u) (_hd : isDeposit u.out.cls = true) :
    ∃ cr, AMap.get s.credits u.credKey = some cr ∧ cr.amt = u.out.amt ∧ cr.sh = u.out.addr ∧
      cr.cls = uclassOf u.out.cls ∧
      cr.maturity = (if u.cb then max c.p.cbMaturity u.out.cls.maturity else u.out.cls.maturity) % 2^32 ∧
      (cr.spent = true ↔ (u.tx, u.idx) ∈ spentOps (occs chain)) :=
  created_credit hI hV hc

/-- staking: the stored maturity is frozen period + 1 (the listing shows FrozenPeriod = maturity − 1) -/
theorem deposit_credit_stk (hI : Inv c s chain) (hV : ChainValid c.own chain) {u : UCoin}
    (hc : CreatedIn c.own (occs chain) u) {f : Nat} (hf : u.out.cls = .stk f) (hcb : u.cb = false)
    (hb : f + 1 < 2^32) :
    ∃ cr, AMap.get s.credits u.credKey = some cr ∧ cr.amt = u.out.amt ∧ cr.sh = u.out.addr ∧
      cr.cls = .staking ∧ cr.maturity = f + 1 ∧ cr.maturity - 1 = f ∧
      (cr.spent = true ↔ (u.tx, u.idx) ∈ spentOps (occs chain)) := by
  obtain ⟨cr, h1, h2, h3, h4, h5, h6⟩ := created_credit hI hV hc
  have hm : cr.maturity = f + 1 := by
    rw [h5, hcb, hf]
    simp only [Bool.false_eq_true, if_false, Cls.maturity]
    exact Nat.mod_eq_of_lt hb
  refine ⟨cr, h1, h2, h3, ?_, hm, by omega, h6⟩
  rw [h4, hf]; rfl

/-- staking output OF A COINBASE: the stored maturity is the larger of the coinbase maturity and
    frozen period + 1 (both the coinbase rule and the sequence lock of the script must hold) -/
theorem deposit_credit_stk_cb (hI : Inv c s chain) (hV : ChainValid c.own chain) {u : UCoin}
    (hc : CreatedIn c.own (occs chain) u) {f : Nat} (hf : u.out.cls = .stk f) (hcb : u.cb = true)
    (hb : f + 1 < 2^32) (hm : c.p.cbMaturity < 2^32) :
    ∃ cr, AMap.get s.credits u.credKey = some cr ∧ cr.amt = u.out.amt ∧ cr.sh = u.out.addr ∧
      cr.cls = .staking ∧ cr.maturity = max c.p.cbMaturity (f + 1) ∧
      (cr.spent = true ↔ (u.tx, u.idx) ∈ spentOps (occs chain)) := by
  obtain ⟨cr, h1, h2, h3, h4, h5, h6⟩ := created_credit hI hV hc
  have hmm : cr.maturity = max c.p.cbMaturity (f + 1) := by
    rw [h5, hcb, hf]
    simp only [if_true, Cls.maturity]
    apply Nat.mod_eq_of_lt
    omega
  refine ⟨cr, h1, h2, h3, ?_, hmm, h6⟩
  rw [h4, hf]; rfl

/-- the same per entry of the spec list: the record of deposit `d` (key: tx, height, vout) has a credit in
    the block at that height with the deposit's amount, address and class, spent iff `d.withdrawn` -/
theorem deposit_entry (hI : Inv c s chain) (hV : ChainValid c.own chain) {w : Wid} {d : Deposit}
    (hd : d ∈ deposits c.own chain w) :
    ∃ (bh : BlkId) (cb : Bool) (cr : Credit),
      AMap.get s.credits ⟨d.tx, ⟨d.height, bh⟩, d.idx⟩ = some cr ∧ cr.amt = d.amt ∧ cr.sh = d.addr ∧
      cr.cls = uclassOf d.cls ∧ cr.cls ≠ .standard ∧
      cr.maturity = (if cb then max c.p.cbMaturity d.cls.maturity else d.cls.maturity) % 2^32 ∧
      (cr.spent = true ↔ d.withdrawn = true) := by
  obtain ⟨u, hc, hdep, _, rfl⟩ := (deposits_mem_iff c.own chain w d).1 hd
  obtain ⟨cr, h1, h2, h3, h4, h5, h6⟩ := created_credit hI hV hc
  refine ⟨u.blk.hash, u.cb, cr, h1, h2, h3, h4, ?_, h5, ?_⟩
  · rw [h4]; exact uclassOf_deposit hdep
  · rw [h6]; simp

-- ------------------------------------------------------------------ 3. withdrawn

/-- 3a. the record sits in the withdrawn partition exactly when the spec says the deposit is withdrawn -/
theorem withdrawn_iff (hI : Inv c s chain) (hV : ChainValid c.own chain) {w : Wid} {d : Deposit}
    (hd : d ∈ deposits c.own chain w) :
    AMap.get s.game ⟨w, d.cls.isBinding, true, d.tx, d.height, d.idx⟩ = some () ↔ d.withdrawn = true := by
  have h1 := deposit_record hI hV hd
  have h2 := deposit_unique hI hV hd
  cases hw : d.withdrawn
  · rw [hw] at h2
    simp only [Bool.not_false] at h2
    rw [h2]; simp
  · rw [hw] at h1
    rw [h1]; simp

/-- 3b. … and in the not-withdrawn partition exactly when it is not -/
theorem unwithdrawn_iff (hI : Inv c s chain) (hV : ChainValid c.own chain) {w : Wid} {d : Deposit}
    (hd : d ∈ deposits c.own chain w) :
    AMap.get s.game ⟨w, d.cls.isBinding, false, d.tx, d.height, d.idx⟩ = some () ↔ d.withdrawn = false := by
  have h1 := deposit_record hI hV hd
  have h2 := deposit_unique hI hV hd
  cases hw : d.withdrawn
  · rw [hw] at h1
    rw [h1]; simp
  · rw [hw] at h2
    simp only [Bool.not_true] at h2
    rw [h2]; simp

/-- 3c. `withdrawn` of the spec list, unfolded: a non-coinbase transaction of the chain spends the outpoint -/
theorem withdrawn_chain_iff {own : Own} {chain : List Block} {w : Wid} {d : Deposit}
    (hd : d ∈ deposits own chain w) :
    d.withdrawn = true ↔
      ∃ b ∈ chain, ∃ t ∈ b.txs, t.cb = false ∧ ∃ x ∈ t.ins, x.tx = d.tx ∧ x.idx = d.idx := by
  obtain ⟨u, _, _, _, rfl⟩ := (deposits_mem_iff own chain w d).1 hd
  simp only [decide_eq_true_eq]
  rw [← char_spentOnChain_iff]
  simp only [List.any_eq_true, Bool.and_eq_true, Bool.not_eq_true', decide_eq_true_eq]

/-- 3. shown as withdrawn exactly while a transaction of the (current) chain spends it -/
theorem withdrawn_shown_iff (hI : Inv c s chain) (hV : ChainValid c.own chain) {w : Wid} {d : Deposit}
    (hd : d ∈ deposits c.own chain w) :
    AMap.get s.game ⟨w, d.cls.isBinding, true, d.tx, d.height, d.idx⟩ = some () ↔
      ∃ b ∈ chain, ∃ t ∈ b.txs, t.cb = false ∧ ∃ x ∈ t.ins, x.tx = d.tx ∧ x.idx = d.idx :=
  (withdrawn_iff hI hV hd).trans (withdrawn_chain_iff hd)

/-- 3d. REVERT: when no transaction of the (new) chain spends the deposit — e.g. the block with the
    withdrawal has been reorganised away — the record is in the not-withdrawn partition and the
    withdrawn one is gone -/
theorem withdrawn_reverts (hI : Inv c s chain) (hV : ChainValid c.own chain) {w : Wid} {d : Deposit}
    (hd : d ∈ deposits c.own chain w)
    (hno : ¬ ∃ b ∈ chain, ∃ t ∈ b.txs, t.cb = false ∧ ∃ x ∈ t.ins, x.tx = d.tx ∧ x.idx = d.idx) :
    AMap.get s.game ⟨w, d.cls.isBinding, false, d.tx, d.height, d.idx⟩ = some () ∧
    AMap.get s.game ⟨w, d.cls.isBinding, true, d.tx, d.height, d.idx⟩ = none := by
  have hw : d.withdrawn = false := by
    cases h : d.withdrawn
    · rfl
    · exact absurd ((withdrawn_chain_iff hd).1 h) hno
  have h1 := deposit_record hI hV hd
  have h2 := deposit_unique hI hV hd
  rw [hw] at h1 h2
  exact ⟨h1, h2⟩

-- ------------------------------------------------------------------ 4. excluded from ordinary funds

/-- 4a. a coin the wallet's coin query returns at the outpoint of a deposit carries the deposit's class
    (staking / binding), never `standard`: coin selection and the spendable sum only take `standard` -/
theorem excluded (H : ObsHyp c s chain) {w : Wid} {x : Coin} (hx : x ∈ coinsOf s w) {d : Deposit}
    (hd : d ∈ deposits c.own chain w) (ht : d.tx = x.tx) (hi : d.idx = x.idx) :
    x.cred.cls = uclassOf d.cls ∧ x.cred.cls ≠ .standard := by
  obtain ⟨hL, _⟩ := loc_bookOf (p := c.p) H.valid
  have hp := coinsOf_perm_bookM w H.wf H.inv.agree hL
  obtain ⟨u, hu, rfl⟩ := List.mem_map.1 (hp.mem_iff.1 hx)
  have hG := glob_bookOf (p := c.p) H.valid
  have hc := ((hG.mem u).1 (List.mem_filter.1 hu).1).1
  obtain ⟨u', hc', hdep, _, rfl⟩ := (deposits_mem_iff c.own chain w d).1 hd
  have he : u' = u := char_created_unique hG.idsNodup hc' hc ht hi
  subst he
  exact ⟨rfl, uclassOf_deposit hdep⟩

/-- 4b. the same by the ledger entry behind the coin -/
theorem excluded_entry (H : ObsHyp c s chain) {w : Wid} {x : Coin} (hx : x ∈ coinsOf s w) :
    ∃ u ∈ (bookOf c.p c.own chain).L, u.wallet = w ∧ coinU c.p u = x ∧
      (isDeposit u.out.cls = true → x.cred.cls ≠ .standard) := by
  obtain ⟨hL, _⟩ := loc_bookOf (p := c.p) H.valid
  have hp := coinsOf_perm_bookM w H.wf H.inv.agree hL
  obtain ⟨u, hu, rfl⟩ := List.mem_map.1 (hp.mem_iff.1 hx)
  obtain ⟨hm, hl⟩ := List.mem_filter.1 hu
  simp only [listedU, Bool.and_eq_true, decide_eq_true_eq] at hl
  exact ⟨u, hm, hl.1, rfl, fun hdep => uclassOf_deposit hdep⟩

/-- 4c. contrapositive: a `standard` coin of the wallet is no deposit of the chain -/
theorem standard_not_deposit (H : ObsHyp c s chain) {w : Wid} {x : Coin} (hx : x ∈ coinsOf s w)
    (hs : x.cred.cls = .standard) : ∀ d ∈ deposits c.own chain w, ¬ (d.tx = x.tx ∧ d.idx = x.idx) :=
  fun _ hd h => (excluded H hx hd h.1 h.2).2 hs

/-- 4d. the spendable amount WalletBalance reports sums coins of class `standard` only (by definition) -/
theorem walletBalance_spendable {s : Store} {w : Wid} {mc : Nat} {b : Balance}
    (h : walletBalance s w mc = some b) :
    b.spendable = ((((coinsOf s w).filter (fun x => decide (confs s.syncedTo x.blk.height ≥ mc ∧
        confs s.syncedTo x.blk.height ≥ x.cred.maturity))).filter
      (fun x => decide (x.cred.cls = .standard))).map (·.cred.amt)).sum := by
  unfold walletBalance at h
  cases hb : AMap.get s.balance w with
  | none => rw [hb] at h; cases h
  | some g =>
    rw [hb] at h
    simp only [Option.some.injEq] at h
    rw [← h]

/-- 4e. against the chain: the reported spendable amount is the sum over the unspent outputs of the wallet
    that are NOT deposits (enough confirmations, mature); no deposit contributes -/
theorem spendable_excludes_deposits (H : ObsHyp c s chain) {w : Wid}
    (hw : (readyWallets s c.wallets).contains w = true) (mc : Nat) :
    ∃ b, walletBalance s w mc = some b ∧
      b.spendable = (((utxosOf c.own chain w).filter (fun x =>
        decide (chain.length - 1 + 1 - x.height ≥ mc) && spendableAt c.p (chain.length - 1) x &&
          !isDeposit x.cls)).map (·.amt)).sum := by
  refine ⟨_, balance_correct H hw mc, ?_⟩
  show (Spec.Chain.balance c.p c.own chain w mc).spendable = _
  unfold Spec.Chain.balance utxosOf
  simp only [List.filter_filter]
  refine congrArg List.sum (congrArg (List.map _) (List.filter_congr ?_))
  intro x _
  rw [Bool.eq_iff_iff]
  simp only [Bool.and_eq_true, decide_eq_true_eq, Bool.not_eq_true', kindOf, uclassOf_standard_iff]
  constructor
  · rintro ⟨h1, ⟨h2, h3⟩, h4⟩; exact ⟨⟨⟨h2, h3⟩, h1⟩, h4⟩
  · rintro ⟨⟨⟨h2, h3⟩, h1⟩, h4⟩; exact ⟨h1, ⟨h2, h3⟩, h4⟩

-- ------------------------------------------------------------------ 5. withdrawable

/-- 5a. an unspent deposit passes the wallet's maturity test exactly when consensus lets the next block
    spend it -/
theorem withdrawable_iff (H : ObsHyp c s chain) {u : UCoin} (hu : u ∈ (bookOf c.p c.own chain).L) :
    confs s.syncedTo u.blk.height ≥ (creditOf c.p u).maturity ↔
      spendableAt c.p (chain.length - 1) u.toSCoin = true :=
  spendable_iff H hu

theorem ObsHyp.length_pos (H : ObsHyp c s chain) : 0 < chain.length := by
  have := H.inv.syncedTo; omega

/-- 5b. the consensus rule for a staking output with frozen period `f` created at height `h`:
    origin + (f+1) − 1 < tip + 1, i.e. the block at height `chain.length` may spend it iff h + f + 1 ≤ it -/
theorem spendableAt_stk (p : Params) {chain : List Block} (hpos : 0 < chain.length) {u : UCoin} {f : Nat}
    (hf : u.out.cls = .stk f) (hcb : u.cb = false) :
    spendableAt p (chain.length - 1) u.toSCoin = true ↔ u.blk.height + f + 1 ≤ chain.length := by
  unfold spendableAt seqOK UCoin.toSCoin
  simp only [hcb, hf, Bool.false_eq_true, if_false, Bool.true_and, decide_eq_true_eq]
  omega

/-- the consensus rule for a staking output OF A COINBASE: the coinbase maturity AND the sequence lock -/
theorem spendableAt_stk_cb (p : Params) {chain : List Block} (hpos : 0 < chain.length) {u : UCoin} {f : Nat}
    (hf : u.out.cls = .stk f) (hcb : u.cb = true) :
    spendableAt p (chain.length - 1) u.toSCoin = true ↔
      u.blk.height + p.cbMaturity ≤ chain.length ∧ u.blk.height + f + 1 ≤ chain.length := by
  unfold spendableAt seqOK UCoin.toSCoin
  simp only [hcb, hf, if_true, Bool.and_eq_true, decide_eq_true_eq]
  omega

theorem spendableAt_bindNew (p : Params) {chain : List Block} (hpos : 0 < chain.length) {u : UCoin} {t : String}
    (hf : u.out.cls = .bindNew t) (hcb : u.cb = false) :
    spendableAt p (chain.length - 1) u.toSCoin = true ↔ u.blk.height + 0xfffffffe ≤ chain.length := by
  unfold spendableAt seqOK UCoin.toSCoin
  simp only [hcb, hf, Bool.false_eq_true, if_false, Bool.true_and, decide_eq_true_eq]
  have : bindingLockedPeriod = 0xfffffffe := rfl
  omega

theorem spendableAt_bindOld (p : Params) (tip : Nat) {u : UCoin} {t : String}
    (hf : u.out.cls = .bindOld t) (hcb : u.cb = false) : spendableAt p tip u.toSCoin = true := by
  unfold spendableAt seqOK UCoin.toSCoin
  simp only [hcb, hf, Bool.false_eq_true, if_false, Bool.true_and]

/-- 5c. WITHDRAWABLE EXACTLY AT THE HEIGHT CONSENSUS ALLOWS, staking -/
theorem staking_withdrawable_iff (H : ObsHyp c s chain) {u : UCoin} (hu : u ∈ (bookOf c.p c.own chain).L)
    {f : Nat} (hf : u.out.cls = .stk f) (hcb : u.cb = false) :
    confs s.syncedTo u.blk.height ≥ (creditOf c.p u).maturity ↔ u.blk.height + f + 1 ≤ chain.length :=
  (spendable_iff H hu).trans (spendableAt_stk c.p H.length_pos hf hcb)

/-- staking output of a coinbase: withdrawable exactly when BOTH the coinbase maturity and the frozen period
    have passed -/
theorem staking_cb_withdrawable_iff (H : ObsHyp c s chain) {u : UCoin} (hu : u ∈ (bookOf c.p c.own chain).L)
    {f : Nat} (hf : u.out.cls = .stk f) (hcb : u.cb = true) :
    confs s.syncedTo u.blk.height ≥ (creditOf c.p u).maturity ↔
      u.blk.height + c.p.cbMaturity ≤ chain.length ∧ u.blk.height + f + 1 ≤ chain.length :=
  (spendable_iff H hu).trans (spendableAt_stk_cb c.p H.length_pos hf hcb)

/-- MASSIP-2 binding: locked for 0xfffffffe blocks -/
theorem binding_new_withdrawable_iff (H : ObsHyp c s chain) {u : UCoin} (hu : u ∈ (bookOf c.p c.own chain).L)
    {t : String} (hf : u.out.cls = .bindNew t) (hcb : u.cb = false) :
    confs s.syncedTo u.blk.height ≥ (creditOf c.p u).maturity ↔ u.blk.height + 0xfffffffe ≤ chain.length :=
  (spendable_iff H hu).trans (spendableAt_bindNew c.p H.length_pos hf hcb)

/-- old-style binding: no lock -/
theorem binding_old_withdrawable (H : ObsHyp c s chain) {u : UCoin} (hu : u ∈ (bookOf c.p c.own chain).L)
    {t : String} (hf : u.out.cls = .bindOld t) (hcb : u.cb = false) :
    confs s.syncedTo u.blk.height ≥ (creditOf c.p u).maturity :=
  (spendable_iff H hu).2 (spendableAt_bindOld c.p _ hf hcb)

end
end MW.Lemmas.Ledger
