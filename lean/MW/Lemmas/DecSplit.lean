/-
  Helper lemmas for `splitDot` (strings.Split(s, ".")), for ALL byte strings.
-/
import MW.Lemmas.DecBasic
namespace MW.Dec

theorem splitDot_nil : splitDot [] = [[]] := rfl

theorem splitDot_ne_nil (s : Bytes) : splitDot s ≠ [] := by
  cases s with
  | nil => simp [splitDot]
  | cons b bs =>
    rw [splitDot]
    split
    · simp
    · split <;> simp

theorem splitDot_cons_dot (bs : Bytes) : splitDot (dot :: bs) = [] :: splitDot bs := by
  rw [splitDot]
  split
  · next h => exact absurd h (splitDot_ne_nil bs)
  · next p ps h => simp [h]

theorem splitDot_cons_ne {b : UInt8} (hb : b ≠ dot) (bs : Bytes) :
    ∃ p ps, splitDot bs = p :: ps ∧ splitDot (b :: bs) = (b :: p) :: ps := by
  cases h : splitDot bs with
  | nil => exact absurd h (splitDot_ne_nil bs)
  | cons p ps =>
    refine ⟨p, ps, rfl, ?_⟩
    rw [splitDot, h]; simp [hb]

/-- a string without a point is one part -/
theorem splitDot_of_no_dot {s : Bytes} (h : ∀ b ∈ s, b ≠ dot) : splitDot s = [s] := by
  induction s with
  | nil => rfl
  | cons b bs ih =>
    obtain ⟨p, ps, e1, e2⟩ := splitDot_cons_ne (h b (by simp)) bs
    rw [ih (fun c hc => h c (by simp [hc]))] at e1
    injection e1 with e3 e4
    rw [e2, ← e3, ← e4]

theorem splitDot_of_all_isDigit {s : Bytes} (h : s.all isDigit = true) : splitDot s = [s] :=
  splitDot_of_no_dot (fun b hb => ne_dot_of_isDigit (List.all_eq_true.mp h b hb))

/-- the first point cuts off the first part -/
theorem splitDot_append_dot {ip : Bytes} (h : ∀ b ∈ ip, b ≠ dot) (fp : Bytes) :
    splitDot (ip ++ dot :: fp) = ip :: splitDot fp := by
  induction ip with
  | nil => exact splitDot_cons_dot fp
  | cons b bs ih =>
    obtain ⟨p, ps, e1, e2⟩ := splitDot_cons_ne (h b (by simp)) (bs ++ dot :: fp)
    rw [ih (fun c hc => h c (by simp [hc]))] at e1
    injection e1 with e3 e4
    rw [List.cons_append, e2, ← e3, ← e4]

/-- number of parts = number of points + 1 -/
theorem splitDot_length (s : Bytes) : (splitDot s).length = s.count dot + 1 := by
  induction s with
  | nil => rfl
  | cons b bs ih =>
    by_cases hb : b = dot
    · subst hb; rw [splitDot_cons_dot]; simp [ih]
    · obtain ⟨p, ps, e1, e2⟩ := splitDot_cons_ne hb bs
      rw [e2, List.count_cons_of_ne hb, ← ih, e1]; simp

/-- every part consists of digits iff every byte is a digit or the point -/
theorem splitDot_all_isDigit (s : Bytes) :
    (splitDot s).all (fun p => p.all isDigit) = s.all (fun b => isDigit b || b == dot) := by
  induction s with
  | nil => rfl
  | cons b bs ih =>
    by_cases hb : b = dot
    · subst hb; rw [splitDot_cons_dot]; simp [ih]
    · obtain ⟨p, ps, e1, e2⟩ := splitDot_cons_ne hb bs
      rw [e1] at ih
      rw [e2]
      simp only [List.all_cons] at ih ⊢
      rw [← ih]
      have hbd : (b == dot) = false := by simpa using hb
      simp [hbd, Bool.and_assoc]

/-- total length of the parts = number of bytes that are not the point -/
theorem splitDot_sum_length (s : Bytes) :
    ((splitDot s).map List.length).sum + s.count dot = s.length := by
  induction s with
  | nil => rfl
  | cons b bs ih =>
    by_cases hb : b = dot
    · subst hb; rw [splitDot_cons_dot]; simp; omega
    · obtain ⟨p, ps, e1, e2⟩ := splitDot_cons_ne hb bs
      rw [e1] at ih
      rw [e2, List.count_cons_of_ne hb]; simp at ih ⊢; omega

theorem count_dot_of_all_isDigit {x : Bytes} (h : x.all isDigit = true) : x.count dot = 0 := by
  rw [List.count_eq_zero]
  intro hm
  exact ne_dot_of_isDigit (List.all_eq_true.mp h _ hm) rfl

end MW.Dec
