/-
  The books rollback passes through (`Mid`, LedgerUndo.lean), part 1:
    mid_start / mid_record_eq / mid_txrecs / mid_blocks   `applyOcc` is `Mid … 0 0` after the record step; the record
                                                          step only changes `txrecs` / `blocks`, which `Mid` never reads
    mid_end                                               `Mid … |ins| |outs|` is the books before the transaction
    commutation lemmas: a spend commutes with the spends of other outpoints, and with the credits and deposit
    records of a transaction it does not spend from.
-/
import MW.Lemmas.LedgerMid
namespace MW.Lemmas.Ledger
open MW MW.Model.Ledger MW.Spec.Chain MW.Spec.Books


def setRec (B : Book) (x : TxId × BlockMeta → Option (BlkId × Nat)) (y : Nat → Option (BlkId × List TxId)) : Book :=
  { B with txrecs := x, blocks := y }

theorem spendB_setRec (p : Params) (t : Tx) (bm : BlockMeta) (B : Book) (k : Nat) (i : Inp) x y :
    spendB p t bm (setRec B x y) k i = setRec (spendB p t bm B k i) x y := by
  unfold spendB
  simp only [setRec]
  cases lookupU B.L i.tx i.idx <;> rfl

theorem createB_setRec (p : Params) (own : Own) (t : Tx) (bm : BlockMeta) (B : Book) (j : Nat) (o : Out) x y :
    createB p own t bm (setRec B x y) j o = setRec (createB p own t bm B j o) x y := by
  unfold createB
  simp only [setRec]
  cases ownerOf own o <;> rfl

theorem depositB_setRec (own : Own) (t : Tx) (bm : BlockMeta) (B : Book) (j : Nat) (o : Out) x y :
    depositB own t bm (setRec B x y) j o = setRec (depositB own t bm B j o) x y := by
  unfold depositB
  simp only [setRec]
  cases ownerOf own o with
  | none => rfl
  | some wc => dsimp only; split <;> rfl

theorem foldIdx_map_comm {α β : Type} (f : β → Nat → α → β) (g : β → β) (h : ∀ b i a, f (g b) i a = g (f b i a))
    (as : List α) (i : Nat) (b : β) : foldIdx f as i (g b) = g (foldIdx f as i b) := by
  induction as generalizing i b with
  | nil => rfl
  | cons a as ih => rw [foldIdx_cons, foldIdx_cons, h, ih]

theorem mid_setRec (p : Params) (own : Own) (B : Book) (oc : Occ) (k j : Nat) x y :
    Mid p own (setRec B x y) oc k j = setRec (Mid p own B oc k j) x y := by
  unfold Mid
  have h1 : (if oc.t.cb then setRec B x y else foldIdx (spendB p oc.t oc.bm) (oc.t.ins.drop k) k (setRec B x y)) =
      setRec (if oc.t.cb then B else foldIdx (spendB p oc.t oc.bm) (oc.t.ins.drop k) k B) x y := by
    by_cases hc : oc.t.cb = true
    · simp [hc]
    · simp only [hc]
      exact foldIdx_map_comm _ (fun b => setRec b x y) (fun b i a => spendB_setRec p oc.t oc.bm b i a x y) _ _ _
  rw [h1, foldIdx_map_comm _ (fun b => setRec b x y) (fun b i a => createB_setRec p own oc.t oc.bm b i a x y),
    foldIdx_map_comm _ (fun b => setRec b x y) (fun b i a => depositB_setRec own oc.t oc.bm b i a x y)]

theorem recStep_eq_setRec (own : Own) (B : Book) (oc : Occ) :
    recStep own B oc = setRec B (recStep own B oc).txrecs (recStep own B oc).blocks := by
  unfold recStep
  by_cases h : touches own B oc.t = true
  · simp only [h, if_true]; rfl
  · simp only [h]; rfl

theorem mid_start (p : Params) (own : Own) (B : Book) (oc : Occ) :
    applyOcc p own B oc = Mid p own (recStep own B oc) oc 0 0 := rfl

theorem mid_txrecs (p : Params) (own : Own) (X : Book) (oc : Occ) (k j : Nat) :
    (Mid p own X oc k j).txrecs = X.txrecs := by
  unfold Mid
  rw [(depositFold_L ..).2.2.2.1, createFold_txrecs]
  by_cases hc : oc.t.cb = true
  · simp [hc]
  · simp only [hc]; exact spendFold_txrecs ..

theorem mid_blocks (p : Params) (own : Own) (X : Book) (oc : Occ) (k j : Nat) :
    (Mid p own X oc k j).blocks = X.blocks := by
  unfold Mid
  rw [(depositFold_L ..).2.2.2.2.1, createFold_blocks]
  by_cases hc : oc.t.cb = true
  · simp [hc]
  · simp only [hc]; exact spendFold_blocks ..

theorem mid_record_eq (p : Params) (own : Own) (B : Book) (oc : Occ) (k j : Nat) :
    BookEq (Mid p own (recStep own B oc) oc k j) { Mid p own B oc k j with txrecs := (recStep own B oc).txrecs } := by
  have e := mid_setRec p own B oc k j (recStep own B oc).txrecs (recStep own B oc).blocks
  rw [← recStep_eq_setRec] at e
  rw [e]
  exact ⟨rfl, rfl, rfl, rfl, rfl⟩

theorem mid_end (p : Params) (own : Own) (B : Book) (oc : Occ) (k : Nat)
    (hk : oc.t.cb = true ∨ oc.t.ins.length ≤ k) : Mid p own B oc k oc.t.outs.length = B := by
  unfold Mid
  rw [List.drop_length]
  simp only [foldIdx_nil]
  rcases hk with hk | hk
  · simp [hk]
  · rw [List.drop_of_length_le hk]; simp

-- ------------------------------------------------------------------ tables: updates at distinct keys commute

theorem upd_comm {K V : Type} [DecidableEq K] (f : K → V) {a b : K} (v w : V) (h : a ≠ b) :
    upd (upd f a v) b w = upd (upd f b w) a v := by
  funext x
  simp only [upd_apply]
  by_cases h1 : b = x
  · subst h1; simp [h]
  · simp [h1]

theorem upd21_comm {K V : Type} [DecidableEq K] (g : K → V) {a b c : K} (v1 v2 v3 : V) (h1 : a ≠ c) (h2 : b ≠ c) :
    upd (upd (upd g a v1) b v2) c v3 = upd (upd (upd g c v3) a v1) b v2 := by
  funext x
  simp only [upd_apply]
  by_cases e1 : c = x
  · subst e1; simp [h1, h2]
  · simp [e1]

theorem upd22_comm {K V : Type} [DecidableEq K] (g : K → V) {a b a' b' : K} (v1 v2 v3 v4 : V)
    (h1 : a ≠ a') (h2 : a ≠ b') (h3 : b ≠ a') (h4 : b ≠ b') :
    upd (upd (upd (upd g a v1) b v2) a' v3) b' v4 = upd (upd (upd (upd g a' v3) b' v4) a v1) b v2 := by
  funext x
  simp only [upd_apply]
  by_cases e1 : b' = x
  · subst e1; simp [h2, h4]
  · by_cases e2 : a' = x
    · subst e2; simp [e1, h1, h3]
    · simp [e1, e2]

-- ------------------------------------------------------------------ explicit form of a spend that hits

/-- what a spend does to the deposit records -/
def gameSp (u : UCoin) (g : GameKey → Option Unit) : GameKey → Option Unit :=
  if isDeposit u.out.cls then upd (upd g (u.gameKey false) none) (u.gameKey true) (some ()) else g

/-- the books after spending the ledger entry `u` at outpoint `i` by input `k` -/
def spendHit (p : Params) (t : Tx) (bm : BlockMeta) (B : Book) (k : Nat) (i : Inp) (u : UCoin) : Book :=
  { B with
    L := B.L.filter (fun u' => !UCoin.at i.tx i.idx u'),
    credits := upd B.credits u.credKey (some { creditOf p u with spent := true, spentBy := some ⟨t.id, bm, k⟩ }),
    debits := upd B.debits ⟨t.id, bm, k⟩ (some (u.out.amt, u.credKey)),
    game := gameSp u B.game }

theorem spendB_hit {p : Params} {t : Tx} {bm : BlockMeta} {B : Book} {k : Nat} {i : Inp} {u : UCoin}
    (h : lookupU B.L i.tx i.idx = some u) : spendB p t bm B k i = spendHit p t bm B k i u := by
  unfold spendB spendHit gameSp; rw [h]

theorem gameSp_comm (u u' : UCoin) (g : GameKey → Option Unit) (hne : ¬ (u'.tx = u.tx ∧ u'.idx = u.idx)) :
    gameSp u' (gameSp u g) = gameSp u (gameSp u' g) := by
  unfold gameSp
  by_cases hd : isDeposit u.out.cls = true <;> by_cases hd' : isDeposit u'.out.cls = true
  · simp only [hd, hd', if_true]
    exact upd22_comm g _ _ _ _ (gameKey_ne_of_key_ne false false hne) (gameKey_ne_of_key_ne false true hne)
      (gameKey_ne_of_key_ne true false hne) (gameKey_ne_of_key_ne true true hne)
  · simp only [hd, hd', if_true]; rfl
  · simp only [hd, hd', if_true]; rfl
  · simp only [hd, hd']; rfl

theorem filter_at_comm (L : List UCoin) (a : TxId) (b : Nat) (a' : TxId) (b' : Nat) :
    (L.filter (fun u => !UCoin.at a b u)).filter (fun u => !UCoin.at a' b' u) =
      (L.filter (fun u => !UCoin.at a' b' u)).filter (fun u => !UCoin.at a b u) := by
  rw [List.filter_filter, List.filter_filter]
  apply List.filter_congr
  intro u _
  rw [Bool.and_comm]

/-- spends of distinct outpoints by distinct inputs commute -/
theorem spendB_comm (p : Params) (t : Tx) (bm : BlockMeta) (B : Book) {k k' : Nat} {i i' : Inp}
    (hk : k ≠ k') (hop : ¬ (i.tx = i'.tx ∧ i.idx = i'.idx)) :
    spendB p t bm (spendB p t bm B k i) k' i' = spendB p t bm (spendB p t bm B k' i') k i := by
  have hop' : ¬ (i'.tx = i.tx ∧ i'.idx = i.idx) := fun h => hop ⟨h.1.symm, h.2.symm⟩
  have hl1 : lookupU (spendB p t bm B k i).L i'.tx i'.idx = lookupU B.L i'.tx i'.idx := by
    rw [spendB_L, lookupU_filter]; simp only [hop, if_false]
  have hl2 : lookupU (spendB p t bm B k' i').L i.tx i.idx = lookupU B.L i.tx i.idx := by
    rw [spendB_L, lookupU_filter]; simp only [hop', if_false]
  cases hu : lookupU B.L i.tx i.idx with
  | none =>
    rw [spendB_miss hu, spendB_miss (B := spendB p t bm B k' i') (by rw [hl2]; exact hu)]
  | some u =>
    cases hu' : lookupU B.L i'.tx i'.idx with
    | none =>
      rw [spendB_miss hu', spendB_miss (B := spendB p t bm B k i) (by rw [hl1]; exact hu')]
    | some u' =>
      obtain ⟨_, htx, hidx⟩ := lookupU_some hu
      obtain ⟨_, htx', hidx'⟩ := lookupU_some hu'
      have hne : ¬ (u'.tx = u.tx ∧ u'.idx = u.idx) := by rw [htx, hidx, htx', hidx']; exact hop'
      have hne' : ¬ (u.tx = u'.tx ∧ u.idx = u'.idx) := fun h => hne ⟨h.1.symm, h.2.symm⟩
      have e1 : spendB p t bm (spendB p t bm B k i) k' i' = spendHit p t bm (spendB p t bm B k i) k' i' u' :=
        spendB_hit (by rw [hl1]; exact hu')
      have e2 : spendB p t bm (spendB p t bm B k' i') k i = spendHit p t bm (spendB p t bm B k' i') k i u :=
        spendB_hit (by rw [hl2]; exact hu)
      rw [e1, e2, spendB_hit hu, spendB_hit hu']
      have hdk : (⟨t.id, bm, k⟩ : CredKey) ≠ ⟨t.id, bm, k'⟩ := by
        intro e; injection e with _ _ e3; exact hk e3
      simp only [spendHit]
      rw [filter_at_comm, upd_comm B.credits _ _ (credKey_ne_of_key_ne hne), upd_comm B.debits _ _ hdk,
        gameSp_comm u u' B.game hne]

theorem spendFold_comm (p : Params) (t : Tx) (bm : BlockMeta) {k : Nat} {i : Inp} (is : List Inp) :
    ∀ (k' : Nat) (B : Book), k < k' → (∀ i' ∈ is, ¬ (i.tx = i'.tx ∧ i.idx = i'.idx)) →
      foldIdx (spendB p t bm) is k' (spendB p t bm B k i) = spendB p t bm (foldIdx (spendB p t bm) is k' B) k i := by
  induction is with
  | nil => intro k' B _ _; rfl
  | cons i' is ih =>
    intro k' B hk h
    rw [foldIdx_cons, foldIdx_cons, spendB_comm p t bm B (by omega) (h i' (List.mem_cons_self ..)),
      ih (k' + 1) _ (by omega) (fun x hx => h x (List.mem_cons_of_mem _ hx))]

/-- a spend commutes with the credit of an output of a transaction it does not spend from -/
theorem spendB_createB_comm (p : Params) (own : Own) (t : Tx) (bm : BlockMeta) (B : Book) (k : Nat) (i : Inp)
    (j : Nat) (o : Out) (hne : i.tx ≠ t.id) :
    createB p own t bm (spendB p t bm B k i) j o = spendB p t bm (createB p own t bm B j o) k i := by
  cases ho : ownerOf own o with
  | none => rw [createB_none ho, createB_none ho]
  | some wc =>
    obtain ⟨w, ch⟩ := wc
    have hnk : ¬ ((⟨w, t.id, j, bm, t.cb, o, ch⟩ : UCoin).tx = i.tx ∧ (⟨w, t.id, j, bm, t.cb, o, ch⟩ : UCoin).idx = i.idx) :=
      fun h => hne h.1.symm
    have hl : lookupU (createB p own t bm B j o).L i.tx i.idx = lookupU B.L i.tx i.idx := by
      rw [(createB_owned ho).1, lookupU_append_single]
      cases lookupU B.L i.tx i.idx with
      | some x => rfl
      | none => simp only [hnk, if_false]
    cases hu : lookupU B.L i.tx i.idx with
    | none => rw [spendB_miss hu, spendB_miss (B := createB p own t bm B j o) (by rw [hl]; exact hu)]
    | some u =>
      obtain ⟨_, htx, _⟩ := lookupU_some hu
      have e2 : spendB p t bm (createB p own t bm B j o) k i = spendHit p t bm (createB p own t bm B j o) k i u :=
        spendB_hit (by rw [hl]; exact hu)
      rw [e2, spendB_hit hu]
      have hck : u.credKey ≠ (⟨w, t.id, j, bm, t.cb, o, ch⟩ : UCoin).credKey := by
        intro e; unfold UCoin.credKey at e; injection e with e1 _ _; exact hne (htx ▸ e1)
      have hat : UCoin.at i.tx i.idx ⟨w, t.id, j, bm, t.cb, o, ch⟩ = false := by
        apply Bool.eq_false_iff.2; intro h; exact hnk ((at_iff _ _ _).1 h)
      have hf : List.filter (fun u' => !UCoin.at i.tx i.idx u') [(⟨w, t.id, j, bm, t.cb, o, ch⟩ : UCoin)] =
          [⟨w, t.id, j, bm, t.cb, o, ch⟩] := by simp [hat]
      unfold createB
      rw [ho]
      simp only [spendHit]
      rw [List.filter_append, hf, upd_comm B.credits _ _ hck]

theorem createFold_comm (p : Params) (own : Own) (t : Tx) (bm : BlockMeta) {k : Nat} {i : Inp} (hne : i.tx ≠ t.id)
    (os : List Out) : ∀ (j : Nat) (B : Book),
      foldIdx (createB p own t bm) os j (spendB p t bm B k i) = spendB p t bm (foldIdx (createB p own t bm) os j B) k i := by
  induction os with
  | nil => intro j B; rfl
  | cons o os ih =>
    intro j B
    rw [foldIdx_cons, foldIdx_cons, spendB_createB_comm p own t bm B k i j o hne, ih]

/-- a spend commutes with the deposit record of an output of a transaction it does not spend from -/
theorem spendB_depositB_comm (p : Params) (own : Own) (t : Tx) (bm : BlockMeta) (B : Book) (k : Nat) (i : Inp)
    (j : Nat) (o : Out) (hne : i.tx ≠ t.id) :
    depositB own t bm (spendB p t bm B k i) j o = spendB p t bm (depositB own t bm B j o) k i := by
  have hL : (depositB own t bm B j o).L = B.L := (depositB_L ..).1
  cases hu : lookupU B.L i.tx i.idx with
  | none => rw [spendB_miss hu, spendB_miss (B := depositB own t bm B j o) (by rw [hL]; exact hu)]
  | some u =>
    obtain ⟨_, htx, _⟩ := lookupU_some hu
    have e2 : spendB p t bm (depositB own t bm B j o) k i = spendHit p t bm (depositB own t bm B j o) k i u :=
      spendB_hit (by rw [hL]; exact hu)
    rw [e2, spendB_hit hu]
    unfold depositB
    cases ho : ownerOf own o with
    | none => rfl
    | some wc =>
      obtain ⟨w, ch⟩ := wc
      by_cases hd : isDeposit o.cls = true
      · simp only [hd, if_true, spendHit]
        have hg : ∀ b, u.gameKey b ≠ (⟨w, o.cls.isBinding, false, t.id, bm.height, j⟩ : GameKey) := by
          intro b e; unfold UCoin.gameKey at e; injection e with _ _ _ e4 _ _; exact hne (htx ▸ e4)
        have : upd (gameSp u B.game) ⟨w, o.cls.isBinding, false, t.id, bm.height, j⟩ (some ()) =
            gameSp u (upd B.game ⟨w, o.cls.isBinding, false, t.id, bm.height, j⟩ (some ())) := by
          unfold gameSp
          by_cases hdu : isDeposit u.out.cls = true
          · simp only [hdu, if_true]
            exact upd21_comm B.game _ _ _ (hg false) (hg true)
          · simp only [hdu]; rfl
        rw [this]
      · simp only [hd]; rfl

theorem depositFold_comm (p : Params) (own : Own) (t : Tx) (bm : BlockMeta) {k : Nat} {i : Inp} (hne : i.tx ≠ t.id)
    (os : List Out) : ∀ (j : Nat) (B : Book),
      foldIdx (depositB own t bm) os j (spendB p t bm B k i) = spendB p t bm (foldIdx (depositB own t bm) os j B) k i := by
  induction os with
  | nil => intro j B; rfl
  | cons o os ih =>
    intro j B
    rw [foldIdx_cons, foldIdx_cons, spendB_depositB_comm p own t bm B k i j o hne, ih]

end MW.Lemmas.Ledger
