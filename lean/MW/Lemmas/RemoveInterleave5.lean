/-
  C08, removal INTERLEAVED with follower events — REORGANISATIONS ABOVE A FLOOR.  Between two removal steps a
  reorganisation is harmless as long as it only replaces blocks connected AFTER the first removal step: blocks above the
  ghost height `k` hold records of the other wallets only, in the ghost store and in the real store alike.
    `bw_*_height` / `upper_*_w`   every record of `w`'s half of the joined book sits under a block of height ≤ `k`
    `midC_shrink`                 the in-progress invariant for the chain WITHOUT its tip block (mirror of `midC_ext`)
    `P2F`, `p2f_disc`, `p2f_connect`, `p2f_connSpec`   the store-level invariant with a floor and its two steps
    `phase2_notify_reorg`         a notification whose chain agrees with the stored one up to the floor
    `DomC`, `remove_interleaved_above`   the history level
-/
import MW.Lemmas.RemoveInterleave3
import MW.Lemmas.RemoveSimRb
import MW.Lemmas.ImportReorgF
import MW.Lemmas.ImportJoinRbk3
namespace MW.Lemmas.RemoveInterleave
open MW MW.Model.Ledger MW.Model.Remove MW.Spec.Chain MW.Spec.Books MW.Lemmas.Ledger MW.Lemmas.RemoveProj
  MW.Lemmas.RemoveInv MW.Lemmas.RemoveMain MW.Lemmas.RemoveUpper MW.Lemmas.RemoveJoin MW.Lemmas.RemoveGlue
  MW.Lemmas.RemoveFlagged MW.Lemmas.ImportReorg MW.Lemmas.ImportJoin MW.Lemmas.RemoveChar MW.Lemmas.RemoveStep
  MW.Lemmas.RemoveBooks MW.Lemmas.RemoveSim

-- ------------------------------------------------------------------ `w`'s half sits at heights ≤ `k`

section heights
variable {c : Ctx} {w : Wid} {addrs : List Addr} {own' : Own} {X : List Block} {k : Nat}

theorem occ_take_height (hH : HeightsOK X) {oc : Occ} (h : oc ∈ occs (X.take (k + 1))) : oc.bm.height < k + 1 := by
  have := occ_height_lt (heightsOK_take hH (k + 1)) h
  rw [List.length_take] at this
  omega

theorem bw_credit_height (hKN : KeysNodup c.own) (hV : ChainValid c.own X) (hH : HeightsOK X) {ck : CredKey}
    {cr : Credit} (h : (bookOf c.p (ownW c.own w) (X.take (k + 1))).credits ck = some cr) : ck.blk.height < k + 1 := by
  have hVw : ChainValid (ownW c.own w) (X.take (k + 1)) := chainValid_sub (ownW_sub hKN w) (chainValid_take hV _)
  obtain ⟨u, hu, hck⟩ := (credInv_bookOf (p := c.p) hVw).only ck cr h
  obtain ⟨oc, hoc, _, _, _, hblk, _⟩ := hu
  rw [hck]
  show u.blk.height < _
  rw [hblk]
  exact occ_take_height hH hoc

theorem bw_debit_height (hKN : KeysNodup c.own) (hV : ChainValid c.own X) (hH : HeightsOK X) {dk : CredKey}
    {d : Nat × CredKey} (h : (bookOf c.p (ownW c.own w) (X.take (k + 1))).debits dk = some d) : dk.blk.height < k + 1 := by
  have hVw : ChainValid (ownW c.own w) (X.take (k + 1)) := chainValid_sub (ownW_sub hKN w) (chainValid_take hV _)
  obtain ⟨amt, ck⟩ := d
  obtain ⟨u, _, hsp, _, _⟩ := (debitInv_bookOf (p := c.p) hVw dk amt ck).1 h
  obtain ⟨oc, hoc, _, j, i, _, _, hdk⟩ := hsp
  rw [hdk]
  exact occ_take_height hH hoc

theorem bw_txrec_height (hKN : KeysNodup c.own) (hV : ChainValid c.own X) (hH : HeightsOK X) {key : TxId × BlockMeta}
    {loc : BlkId × Nat} (h : (bookOf c.p (ownW c.own w) (X.take (k + 1))).txrecs key = some loc) :
    key.2.height < k + 1 := by
  have hVw : ChainValid (ownW c.own w) (X.take (k + 1)) := chainValid_sub (ownW_sub hKN w) (chainValid_take hV _)
  obtain ⟨P₁, oc, P₂, hsp, _, hkey, _⟩ := txrec_occ hVw h
  have hoc : oc ∈ occs (X.take (k + 1)) := by rw [hsp]; simp
  rw [hkey]
  exact occ_take_height hH hoc

/-- a credit of the joined book that pays `w` is one of `w`'s half -/
theorem upper_credit_w (H : RemHyp c w addrs own' X) (hKN : KeysNodup c.own) (hk : k + 1 ≤ X.length) {ck : CredKey}
    {cr : Credit} (h : (joinBookK c w own' X k).credits ck = some cr) (hw : isW c.own w cr.sh = true) :
    ck.blk.height < k + 1 := by
  have HU := upperOK_join (k := k) H hKN hk
  have h' : orE ((bookOf c.p own' X).credits ck) ((bookOf c.p (ownW c.own w) (X.take (k + 1))).credits ck) = some cr := h
  cases hb : (bookOf c.p own' X).credits ck with
  | some cr' =>
    rw [hb] at h'
    simp only [orE_some, Option.some.injEq] at h'
    subst h'
    have := ((HU.minus.credits ck cr').1 hb).2
    rw [hw] at this; cases this
  | none =>
    rw [hb] at h'
    exact bw_credit_height hKN H.valid H.heights h'

/-- a debit of the joined book that spends a credit of `w` is one of `w`'s half -/
theorem upper_debit_w (H : RemHyp c w addrs own' X) (hKN : KeysNodup c.own) (hk : k + 1 ≤ X.length) {dk : CredKey}
    {d : Nat × CredKey} {cr : Credit} (h : (joinBookK c w own' X k).debits dk = some d)
    (hc : (joinBookK c w own' X k).credits d.2 = some cr) (hw : isW c.own w cr.sh = true) :
    dk.blk.height < k + 1 := by
  have HU := upperOK_join (k := k) H hKN hk
  have h' : orE ((bookOf c.p own' X).debits dk) ((bookOf c.p (ownW c.own w) (X.take (k + 1))).debits dk) = some d := h
  cases hb : (bookOf c.p own' X).debits dk with
  | some d' =>
    rw [hb] at h'
    simp only [orE_some, Option.some.injEq] at h'
    subst h'
    obtain ⟨_, cr', hcr', hw'⟩ := (HU.minus.debits dk d').1 hb
    rw [hc] at hcr'
    injection hcr' with hcr'
    rw [← hcr', hw] at hw'; cases hw'
  | none =>
    rw [hb] at h'
    exact bw_debit_height hKN H.valid H.heights h'

/-- a tx record of the joined book the other wallets' books do not have is one of `w`'s half -/
theorem upper_txrec_w (H : RemHyp c w addrs own' X) (hKN : KeysNodup c.own) {key : TxId × BlockMeta}
    {loc : BlkId × Nat} (h : (joinBookK c w own' X k).txrecs key = some loc)
    (hb : (bookOf c.p own' X).txrecs key = none) : key.2.height < k + 1 := by
  have h' : orE ((bookOf c.p own' X).txrecs key) ((bookOf c.p (ownW c.own w) (X.take (k + 1))).txrecs key) = some loc := h
  rw [hb] at h'
  exact bw_txrec_height hKN H.valid H.heights h'

end heights

-- ------------------------------------------------------------------ the in-progress invariant for the shorter chain

section shrink
variable {c : Ctx} {w : Wid} {addrs : List Addr} {own' : Own} {Y : List Block} {b : Block} {k : Nat}
  {g g' s s' : Store} {bh : BlkId}

/-- **`MidC` for the chain without its tip block**, field by field (the mirror image of `midC_ext`): the records under
    the other blocks are framed on both stores, the ghost stores hold the joined books of the two chains, every record
    of `w` sits at a height ≤ `k` -/
theorem midC_shrink (H : RemHyp c w addrs own' (Y ++ [b])) (HY : RemHyp c w addrs own' Y) (hKN : KeysNodup c.own)
    (hk : k + 1 ≤ Y.length) (hbh : b.height = Y.length)
    (hS : ScanJS c w g (Y ++ [b]) k) (hS' : ScanJS c w g' Y k)
    (hnr' : (readyWallets g' c.wallets).contains w = false) (hng' : KeysNodup g'.credits)
    (hM : MidC c w addrs own' s (Y ++ [b]) (joinBookK c w own' (Y ++ [b]) k))
    (hSub : Sub addrs g s) (hSub' : Sub addrs g' s') (hns' : KeysNodup s'.credits)
    (hblk' : AMap.get s'.blocks b.height = none)
    (f_tx : ∀ k : TxId × BlockMeta, k.2 ≠ ⟨b.height, bh⟩ → AMap.get s'.txrecs k = AMap.get s.txrecs k)
    (f_blk : ∀ h, h ≠ b.height → AMap.get s'.blocks h = AMap.get s.blocks h)
    (f_deb : ∀ k : CredKey, k.blk ≠ ⟨b.height, bh⟩ → AMap.get s'.debits k = AMap.get s.debits k)
    (f_cred : ∀ k : CredKey, k.blk ≠ ⟨b.height, bh⟩ → AMap.get s'.credits k = AMap.get s.credits k ∨
      (∃ c0, AMap.get s.credits k = some c0 ∧ AMap.get g.credits k = some c0 ∧ addrs.contains c0.sh = false ∧
        AMap.get s'.credits k = AMap.get g'.credits k))
    (gc1 : ∀ k cr, k.blk ≠ ⟨b.height, bh⟩ → AMap.get g.credits k = some cr → addrs.contains cr.sh = true →
      AMap.get g'.credits k = some cr)
    (gc2 : ∀ k cr, AMap.get g'.credits k = some cr → addrs.contains cr.sh = true → AMap.get g.credits k = some cr)
    (gf_tx : ∀ k : TxId × BlockMeta, k.2 ≠ ⟨b.height, bh⟩ → AMap.get g'.txrecs k = AMap.get g.txrecs k)
    (gf_deb : ∀ k : CredKey, k.blk ≠ ⟨b.height, bh⟩ → AMap.get g'.debits k = AMap.get g.debits k) :
    MidC c w addrs own' s' Y (joinBookK c w own' Y k) := by
  have hkX : k + 1 ≤ (Y ++ [b]).length := by rw [List.length_append]; omega
  have htake : (Y ++ [b]).take (k + 1) = Y.take (k + 1) := List.take_append_of_le_length hk
  have hUX : joinBookK c w own' (Y ++ [b]) k =
      joinB (bookOf c.p own' (Y ++ [b])) (bookOf c.p (ownW c.own w) (Y.take (k + 1))) := by
    unfold joinBookK; rw [htake]
  have hA := ghost_agree H hKN hS
  rw [htake] at hA
  have hA' := ghost_agree HY hKN hS'
  have HUY := upperOK_join (k := k) HY hKN hk
  have hMg' : MidU c w addrs own' { g' with pendCred := [] } Y (joinBookK c w own' Y k) :=
    scanJS_to_midU HY hKN hk
      (scanJS_congr hS' (s' := { g' with pendCred := [] }) ⟨rfl, rfl, rfl, rfl, rfl, rfl, rfl, rfl, rfl, rfl, rfl⟩)
      hnr' hng' (fun _ he => by cases he)
  -- a key with a record in the joined book of `Y` is not under the tip block
  have not_tip : ∀ {bm : BlockMeta} {oc : Occ}, oc ∈ occs Y → oc.bm = bm → bm ≠ ⟨b.height, bh⟩ := by
    intro bm oc hoc he e
    have := occ_height_lt HY.heights hoc
    rw [he, e] at this
    simp only [hbh] at this
    exact Nat.lt_irrefl _ this
  have low_not_tip : ∀ {bm : BlockMeta}, bm.height < k + 1 → bm ≠ ⟨b.height, bh⟩ := by
    intro bm hlt e
    rw [e] at hlt
    simp only [hbh] at hlt
    omega
  -- the old in-progress invariant, relative to the joined book in the `joinB` form
  have hMX : MidU c w addrs own' { s with pendCred := [] } (Y ++ [b]) (joinBookK c w own' (Y ++ [b]) k) := hM
  have upC : ∀ ck cr, AMap.get g.credits ck = some cr → isW c.own w cr.sh = true → ck.blk.height < k + 1 := by
    intro ck cr hg hw
    refine upper_credit_w H hKN hkX (ck := ck) (cr := cr) ?_ hw
    rw [hUX, ← hg]; exact (hA.credits ck).symm
  -- a credit of `w` that is in the real store stays
  have keep_cred : ∀ ck cr, AMap.get s.credits ck = some cr → isW c.own w cr.sh = true →
      AMap.get s'.credits ck = some cr := by
    intro ck cr hs hw
    have hcon : addrs.contains cr.sh = true := by rw [H.managed]; exact hw
    have hg : AMap.get g.credits ck = some cr := by
      rcases hSub.credits ck with h | ⟨h, _⟩
      · rw [← h]; exact hs
      · rw [hs] at h; cases h
    rcases f_cred ck (low_not_tip (upC ck cr hg hw)) with h | ⟨c0, h1, _, h3, _⟩
    · rw [h]; exact hs
    · rw [hs] at h1
      injection h1 with h1
      rw [← h1, hcon] at h3; cases h3
  refine ⟨hns', ?_, ?_, ?_, ?_, ?_, ?_, ?_, ?_, ?_, ?_, ?_, fun _ he => by cases he⟩
  · -- credits
    intro ck
    show AMap.get s'.credits ck = _ ∨ (AMap.get s'.credits ck = none ∧ _)
    rcases hSub'.credits ck with h | ⟨h1, cr, h2, h3⟩
    · exact Or.inl (h.trans (hA'.credits ck))
    · exact Or.inr ⟨h1, cr, (hA'.credits ck).symm.trans h2, by rw [← H.managed]; exact h3⟩
  · -- debits
    intro dk
    show AMap.get s'.debits dk = _ ∨ (AMap.get s'.debits dk = none ∧ _)
    rcases hSub'.debits dk with h | h1
    · exact Or.inl (h.trans (hA'.debits dk))
    · cases hU : (joinBookK c w own' Y k).debits dk with
      | none => exact Or.inl h1
      | some d =>
        obtain ⟨cr0, hcr0, hsp0⟩ := HUY.debitCredit dk d hU
        obtain ⟨_, oc, hoc, _, hbm⟩ := HUY.spKeyDebit d.2 dk cr0 hcr0 hsp0
        have hb : dk.blk ≠ ⟨b.height, bh⟩ := not_tip hoc hbm
        have hgd : AMap.get g.debits dk = some d := by rw [← gf_deb dk hb, hA'.debits dk]; exact hU
        have hUXd : (joinBookK c w own' (Y ++ [b]) k).debits dk = some d := by
          rw [hUX, ← hgd]; exact (hA.debits dk).symm
        rcases hMX.debits dk with h | ⟨_, d0, cr, h2, h3, h4⟩
        · exfalso
          have : AMap.get s'.debits dk = some d := by rw [f_deb dk hb]; exact h.trans hUXd
          rw [h1] at this; cases this
        · rw [hUXd] at h2
          injection h2 with h2
          subst h2
          have hgc : AMap.get g.credits d.2 = some cr := by
            have := h3; rw [hUX] at this; rw [← this]; exact hA.credits d.2
          have hg'c := gc1 d.2 cr (low_not_tip (upC d.2 cr hgc h4)) hgc (by rw [H.managed]; exact h4)
          exact Or.inr ⟨h1, d, cr, rfl, (hA'.credits d.2).symm.trans hg'c, h4⟩
  · -- debitsW
    intro dk d cr hd hc hw
    show AMap.get s'.credits d.2 = some cr
    have hd : AMap.get s'.debits dk = some d := hd
    have hcon : addrs.contains cr.sh = true := by rw [H.managed]; exact hw
    have hg' : AMap.get g'.credits d.2 = some cr := (hA'.credits d.2).trans hc
    have hg : AMap.get g.credits d.2 = some cr := gc2 _ _ hg' hcon
    have hUc : (joinBookK c w own' (Y ++ [b]) k).credits d.2 = some cr := by
      rw [hUX, ← hg]; exact (hA.credits d.2).symm
    have hg'd : AMap.get g'.debits dk = some d := by
      rcases hSub'.debits dk with h | h
      · rw [← h]; exact hd
      · rw [hd] at h; cases h
    have hUYd : (joinBookK c w own' Y k).debits dk = some d := (hA'.debits dk).symm.trans hg'd
    obtain ⟨cr0, hcr0, hsp0⟩ := HUY.debitCredit dk d hUYd
    obtain ⟨_, oc, hoc, _, hbm⟩ := HUY.spKeyDebit d.2 dk cr0 hcr0 hsp0
    have hb : dk.blk ≠ ⟨b.height, bh⟩ := not_tip hoc hbm
    have hsd : AMap.get s.debits dk = some d := by rw [← f_deb dk hb]; exact hd
    exact keep_cred d.2 cr (hMX.debitsW dk d cr hsd hUc hw) hw
  · -- unspent
    intro w' tx idx
    show AMap.get s'.unspent (w', tx, idx) = _
    rw [hSub'.unspent]; exact hA'.unspent w' tx idx
  · -- game
    intro gk
    show AMap.get s'.game gk = _
    rw [hSub'.game]; exact hA'.game gk
  · -- txrecs
    intro key
    show AMap.get s'.txrecs key = _ ∨ (AMap.get s'.txrecs key = none ∧ _)
    rcases hSub'.txrecs key with h | h1
    · exact Or.inl (h.trans (hA'.txrecs key))
    · by_cases hb : key.2 = ⟨b.height, bh⟩
      · refine Or.inr ⟨h1, ?_⟩
        cases hB : (bookOf c.p own' Y).txrecs key with
        | none => rfl
        | some loc =>
          exfalso
          obtain ⟨P₁, oc, P₂, hsp, _, hkey, _⟩ := txrec_occ (chainValid_minus HY.minus HY.valid) hB
          have hoc : oc ∈ occs Y := by rw [hsp]; simp
          exact not_tip hoc (congrArg Prod.snd hkey).symm hb
      · rcases hMX.txrecs key with h | ⟨_, h2⟩
        · left
          have e1 : AMap.get s'.txrecs key = AMap.get s.txrecs key := f_tx key hb
          have e2 : AMap.get g'.txrecs key = AMap.get g.txrecs key := gf_tx key hb
          have e3 : AMap.get g.txrecs key = (joinBookK c w own' (Y ++ [b]) k).txrecs key := by
            rw [hUX]; exact hA.txrecs key
          exact e1.trans (h.trans (e3.symm.trans (e2.symm.trans (hA'.txrecs key))))
        · refine Or.inr ⟨h1, ?_⟩
          by_cases hbb : key.2 = ⟨b.height, b.id⟩
          · cases hB : (bookOf c.p own' Y).txrecs key with
            | none => rfl
            | some loc =>
              exfalso
              obtain ⟨P₁, oc, P₂, hsp, _, hkey, _⟩ := txrec_occ (chainValid_minus HY.minus HY.valid) hB
              have hoc : oc ∈ occs Y := by rw [hsp]; simp
              have := occ_height_lt HY.heights hoc
              have e : key.2 = oc.bm := congrArg Prod.snd hkey
              rw [← e, hbb] at this
              simp only [hbh] at this
              exact Nat.lt_irrefl _ this
          · rw [← bookOf_snoc_txrecs c.p own' Y b key hbb]; exact h2
  · -- txrecsW
    intro key loc hs hB'
    show ∃ ck cr, AMap.get s'.credits ck = some cr ∧ _
    have hs : AMap.get s'.txrecs key = some loc := hs
    have hg' : AMap.get g'.txrecs key = some loc := by
      rcases hSub'.txrecs key with h | h
      · rw [← h]; exact hs
      · rw [hs] at h; cases h
    have hUY : (joinBookK c w own' Y k).txrecs key = some loc := (hA'.txrecs key).symm.trans hg'
    have hlow := upper_txrec_w HY hKN hUY hB'
    have hb : key.2 ≠ ⟨b.height, bh⟩ := low_not_tip hlow
    have hbb : key.2 ≠ ⟨b.height, b.id⟩ := by
      intro e; rw [e] at hlow; simp only [hbh] at hlow; omega
    have hs0 : AMap.get s.txrecs key = some loc := by rw [← f_tx key hb]; exact hs
    have hB0 : (bookOf c.p own' (Y ++ [b])).txrecs key = none := by
      rw [bookOf_snoc_txrecs c.p own' Y b key hbb]; exact hB'
    obtain ⟨ck, cr, h1, h2, h3⟩ := hMX.txrecsW key loc hs0 hB0
    exact ⟨ck, cr, keep_cred ck cr h1 h2, h2, h3⟩
  · -- blocks
    intro h
    show AMap.get s'.blocks h = blockRecOf (fun k => (AMap.get s'.txrecs k).isSome) Y h
    by_cases hh : h = b.height
    · subst hh
      rw [hblk', hbh]
      exact (blockRecOf_none (Nat.le_refl _)).symm
    · rw [f_blk h hh]
      have := hMX.blocks h
      rw [show AMap.get s.blocks h = _ from this]
      have hne : h ≠ Y.length := by rw [← hbh]; exact hh
      apply blockRecOf_congr_at
      · by_cases hl : h < Y.length
        · rw [List.getElem?_append_left hl]
        · rw [List.getElem?_eq_none (by rw [List.length_append]; simp; omega), List.getElem?_eq_none (by omega)]
      · intro b0 hb0 oc hoc
        have hbm : oc.bm = ⟨b0.height, b0.id⟩ := mem_occsFrom_bm hoc
        have hb0h : b0.height = h := H.heights h b0 hb0
        have hkey : (oc.t.id, oc.bm).2 ≠ ⟨b.height, bh⟩ := by
          intro e
          simp only [hbm] at e
          injection e with e1 _
          exact hh (hb0h.symm.trans e1)
        show (AMap.get s.txrecs (oc.t.id, oc.bm)).isSome = (AMap.get s'.txrecs (oc.t.id, oc.bm)).isSome
        rw [f_tx _ hkey]
  · -- bal
    intro w' hw' hr
    show AMap.get s'.balance w' = _
    rw [hSub'.balance]
    have hr' : (readyWallets { g' with pendCred := [] } c.wallets).contains w' = true := by
      have : readyWallets { s' with pendCred := [] } c.wallets = readyWallets { g' with pendCred := [] } c.wallets :=
        readyWallets_congr (s := { g' with pendCred := [] }) (s' := { s' with pendCred := [] }) hSub'.status c.wallets
      rw [← this]; exact hr
    exact hMg'.bal w' hw' hr'
  · -- sync
    intro h
    show AMap.get s'.sync h = _
    rw [hSub'.sync]; exact hS'.sync h
  · -- syncedTo
    show s'.syncedTo + 1 = _
    rw [hSub'.syncedTo]; exact hS'.syncedTo

end shrink

-- ------------------------------------------------------------------ the store-level invariant with a floor

/-- the ghost store follows chain `X` with `w` flagged at ghost height `k` -/
structure GhostX (c : Ctx) (w : Wid) (g : Store) (X : List Block) (k : Nat) : Prop where
  scan : ScanJS c w g X k
  flag : AMap.get g.status w = some ⟨none, true⟩
  allReady : AllReady (ownR c.own w) (readyWallets g c.wallets)
  nonempty : (readyWallets g c.wallets).isEmpty = false
  nodup : KeysNodup g.credits

/-- **removal in progress, store level, with a floor `fl`** (the tip height when the first removal step ran): a ghost
    store follows `X` with `w` flagged at a ghost height `k ≤ fl`, the real store is the ghost minus some records of
    `w` and satisfies the in-progress invariant relative to the joined book; `X` reaches above the floor -/
def P2F (c : Ctx) (w : Wid) (addrs : List Addr) (own' : Own) (fl : Nat) (s : Store) (X : List Block) : Prop :=
  ∃ g k, k ≤ fl ∧ fl < X.length ∧ GhostX c w g X k ∧ Sub addrs g s ∧
    MidC c w addrs own' s X (joinBookK c w own' X k)

theorem blockRecOf_id {has : TxId × BlockMeta → Bool} {X : List Block} {h : Nat} {b : Block} {bh : BlkId}
    {txs : List TxId} (hx : X[h]? = some b) (hr : blockRecOf has X h = some (bh, txs)) : bh = b.id := by
  unfold blockRecOf at hr
  rw [hx] at hr
  simp only at hr
  split at hr
  · cases hr
  · injection hr with hr
    exact (congrArg Prod.fst hr).symm

section floor
variable {c : Ctx} {w : Wid} {addrs : List Addr} {own' : Own} {fl : Nat}

/-- **disconnecting a tip block ABOVE the floor**: it succeeds on the real store because it does on the ghost store
    (`disconnectBlock_sim`): everything under that block belongs to the other wallets, on both stores alike -/
theorem p2f_disc (hS : Static c w addrs own') {Y : List Block} {b : Block} (hV : ChainValid c.own (Y ++ [b]))
    (hH : HeightsOK (Y ++ [b])) (hkn : ∀ y ∈ Y ++ [b], AMap.get c.node.known y.id = some y) {s : Store}
    (hfl : fl < Y.length) (hP : P2F c w addrs own' fl s (Y ++ [b])) :
    ∃ s', disconnectBlock c s b.height = .ok s' ∧ P2F c w addrs own' fl s' Y := by
  obtain ⟨g, k, hkfl, _, hG, hSub, hM⟩ := hP
  have hKN := hS.keys
  have hk : k + 1 ≤ Y.length := by omega
  have hkX : k + 1 ≤ (Y ++ [b]).length := by rw [List.length_append]; omega
  have hbh : b.height = Y.length := heightsOK_mid hH
  have hne : Y ≠ [] := by intro e; rw [e] at hfl; cases hfl
  have H : RemHyp c w addrs own' (Y ++ [b]) := ⟨hS.minus, hS.managed, hS.ne, hV, hH, hkn⟩
  have HY : RemHyp c w addrs own' Y := ⟨hS.minus, hS.managed, hS.ne, chainValid_prefix hV, heightsOK_prefix hH,
    fun y hy => hkn y (List.mem_append_left _ hy)⟩
  obtain ⟨g', hdg, hS', _, hkeep, hrdy⟩ := MW.Lemmas.ImportJoin.disconnect_scanJS_above' hKN hV hH hne
    (hkn b (by simp)) hG.scan hk hG.allReady
  have hMX : MidU c w addrs own' { s with pendCred := [] } (Y ++ [b]) (joinBookK c w own' (Y ++ [b]) k) := hM
  have hA := ghost_agree H hKN hG.scan
  have hgetb : (Y ++ [b])[b.height]? = some b := by rw [hbh]; simp
  have hhigh : ∀ {n : Nat}, n < k + 1 → n ≠ b.height := by intro n hn e; omega
  -- the records under the tip block agree on the two stores
  have eq_tx : ∀ id, AMap.get s.txrecs (id, ⟨b.height, b.id⟩) = AMap.get g.txrecs (id, ⟨b.height, b.id⟩) := by
    intro id
    rcases hSub.txrecs (id, ⟨b.height, b.id⟩) with h | h
    · exact h
    · cases hg : AMap.get g.txrecs (id, ⟨b.height, b.id⟩) with
      | none => exact h
      | some loc =>
        exfalso
        have hU : (joinBookK c w own' (Y ++ [b]) k).txrecs (id, ⟨b.height, b.id⟩) = some loc := by
          rw [← hg]; exact (hA.txrecs _).symm
        rcases hMX.txrecs (id, ⟨b.height, b.id⟩) with h2 | ⟨_, h2⟩
        · have h2' : AMap.get s.txrecs (id, ⟨b.height, b.id⟩) = _ := h2
          rw [h, hU] at h2'; cases h2'
        · exact hhigh (upper_txrec_w H hKN hU h2) rfl
  have eq_cred : ∀ id i, AMap.get s.credits ⟨id, ⟨b.height, b.id⟩, i⟩ = AMap.get g.credits ⟨id, ⟨b.height, b.id⟩, i⟩ := by
    intro id i
    rcases hSub.credits ⟨id, ⟨b.height, b.id⟩, i⟩ with h | ⟨_, cr, h2, h3⟩
    · exact h
    · exfalso
      have hU : (joinBookK c w own' (Y ++ [b]) k).credits ⟨id, ⟨b.height, b.id⟩, i⟩ = some cr := by
        rw [← h2]; exact (hA.credits _).symm
      exact hhigh (upper_credit_w H hKN hkX hU (by rw [← H.managed]; exact h3)) rfl
  have deb_high : ∀ id i d cr, AMap.get g.debits ⟨id, ⟨b.height, b.id⟩, i⟩ = some d →
      AMap.get g.credits d.2 = some cr → isW c.own w cr.sh = true → False := by
    intro id i d cr hd hc hw
    have hU : (joinBookK c w own' (Y ++ [b]) k).debits ⟨id, ⟨b.height, b.id⟩, i⟩ = some d := by
      rw [← hd]; exact (hA.debits _).symm
    have hUc : (joinBookK c w own' (Y ++ [b]) k).credits d.2 = some cr := by rw [← hc]; exact (hA.credits _).symm
    exact hhigh (upper_debit_w H hKN hkX hU hUc hw) rfl
  have eq_deb : ∀ id i, AMap.get s.debits ⟨id, ⟨b.height, b.id⟩, i⟩ = AMap.get g.debits ⟨id, ⟨b.height, b.id⟩, i⟩ := by
    intro id i
    rcases hSub.debits ⟨id, ⟨b.height, b.id⟩, i⟩ with h | h
    · exact h
    · cases hg : AMap.get g.debits ⟨id, ⟨b.height, b.id⟩, i⟩ with
      | none => exact h
      | some d =>
        exfalso
        have hU : (joinBookK c w own' (Y ++ [b]) k).debits ⟨id, ⟨b.height, b.id⟩, i⟩ = some d := by
          rw [← hg]; exact (hA.debits _).symm
        rcases hMX.debits ⟨id, ⟨b.height, b.id⟩, i⟩ with h2 | ⟨_, d0, cr, h2, h3, h4⟩
        · have h2' : AMap.get s.debits ⟨id, ⟨b.height, b.id⟩, i⟩ = _ := h2
          rw [h, hU] at h2'; cases h2'
        · rw [hU] at h2
          injection h2 with h2
          subst h2
          exact deb_high id i d cr hg ((hA.credits d.2).trans h3) h4
  have eq_blk : AMap.get s.blocks b.height = AMap.get g.blocks b.height := by
    have h1 := hMX.blocks b.height
    rw [show AMap.get s.blocks b.height = _ from h1, hG.scan.blocks b.height]
    apply blockRecOf_congr_at rfl
    intro b0 hb0 oc hoc
    rw [hgetb] at hb0
    injection hb0 with hb0
    subst hb0
    have hbm : oc.bm = ⟨b.height, b.id⟩ := mem_occsFrom_bm hoc
    unfold hasRec
    rw [hbm]
    show (AMap.get s.txrecs (oc.t.id, ⟨b.height, b.id⟩)).isSome = _
    rw [eq_tx]
  have hdeb : ∀ id i d cr, AMap.get g.debits ⟨id, ⟨b.height, b.id⟩, i⟩ = some d → AMap.get g.credits d.2 = some cr →
      addrs.contains cr.sh = false := by
    intro id i d cr hd hc
    cases hcon : addrs.contains cr.sh with
    | false => rfl
    | true => exact (deb_high id i d cr hd hc (by rw [← H.managed]; exact hcon)).elim
  have hh : g.syncedTo = b.height := by
    have := hG.scan.syncedTo
    rw [List.length_append] at this
    simp only [List.length_singleton] at this
    omega
  have h0 : b.height ≠ 0 := by omega
  have hnr : (readyWallets g c.wallets).contains w = false := notReady_of_removed hG.flag rfl
  have hnr' : (readyWallets g' c.wallets).contains w = false := by rw [hrdy]; exact hnr
  have hG' : KeysNodup g'.credits → GhostX c w g' Y k := fun hn =>
    ⟨hS', hkeep w _ hG.flag rfl, by rw [hrdy]; exact hG.allReady, by rw [hrdy]; exact hG.nonempty, hn⟩
  cases hrec : AMap.get g.blocks b.height with
  | some rec =>
    obtain ⟨bh0, txs⟩ := rec
    have hbh0 : bh0 = b.id := by
      have := hG.scan.blocks b.height
      rw [hrec] at this
      exact blockRecOf_id hgetb this.symm
    subst hbh0
    obtain ⟨s', hds, hSub', hns', hng', _, hblk, f_tx, f_blk, f_deb, gf_tx, _, gf_deb, f_cred, gc1, gc2⟩ :=
      disconnectBlock_sim (c := c) hSub hG.nodup hMX.nodup hh h0 hrec ⟨eq_tx, eq_blk, eq_cred, eq_deb⟩ hdeb hdg
    have hblk' : AMap.get s'.blocks b.height = none := by
      rw [hblk, hS'.blocks b.height, hbh]; exact blockRecOf_none (Nat.le_refl _)
    exact ⟨s', hds, g', k, hkfl, hfl, hG' hng', hSub',
      midC_shrink H HY hKN hk hbh hG.scan hS' hnr' hng' hM hSub hSub' hns' hblk' f_tx f_blk f_deb f_cred gc1 gc2
        gf_tx gf_deb⟩
  | none =>
    obtain ⟨s', hds, hSub', e1, e2, e3, e4, e5, e6, e7, _⟩ :=
      disconnectBlock_sim_none (c := c) hSub hh h0 hrec eq_blk hdg
    have hns' : KeysNodup s'.credits := by rw [e1]; exact hMX.nodup
    have hng' : KeysNodup g'.credits := by rw [e5]; exact hG.nodup
    have hblk' : AMap.get s'.blocks b.height = none := by rw [e4, eq_blk, hrec]
    exact ⟨s', hds, g', k, hkfl, hfl, hG' hng', hSub',
      midC_shrink (bh := b.id) H HY hKN hk hbh hG.scan hS' hnr' hng' hM hSub hSub' hns' hblk'
        (fun _ _ => by rw [e3]) (fun _ _ => by rw [e4]) (fun _ _ => by rw [e2]) (fun _ _ => Or.inl (by rw [e1]))
        (fun _ _ _ h _ => by rw [e5]; exact h) (fun _ _ h _ => by rw [← e5]; exact h)
        (fun _ _ => by rw [e7]) (fun _ _ => by rw [e6])⟩

/-- **connecting the next block of the node's chain** (the store-level core of `phase2_notify_ext`) -/
theorem p2f_connect (hS : Static c w addrs own') (hgN : GoodChain c.node.chain) (hvN : ChainValid c.own c.node.chain)
    (hknN : ∀ y ∈ c.node.chain, AMap.get c.node.known y.id = some y) {s : Store} {h : Nat} {b : Block}
    (hb : c.node.chain[h + 1]? = some b) (hP : P2F c w addrs own' fl s (c.node.chain.take (h + 1))) :
    ∃ s' conf, filterBlock c s (readyWallets s c.wallets) b = .ok (s', conf) ∧
      P2F c w addrs own' fl s' (c.node.chain.take (h + 2)) ∧ s'.status = s.status := by
  obtain ⟨g, k, hkfl, hflX, hG, hSub, hM⟩ := hP
  have hKN := hS.keys
  have hlt : h + 1 < c.node.chain.length := (List.getElem?_eq_some_iff.1 hb).1
  have hlen : (c.node.chain.take (h + 1)).length = h + 1 := by rw [List.length_take]; omega
  have e : c.node.chain.take (h + 2) = c.node.chain.take (h + 1) ++ [b] := take_succ_of_get hb
  have hnode : c.node.chain = c.node.chain.take (h + 1) ++ b :: c.node.chain.drop (h + 2) := by
    have : c.node.chain.drop (h + 1) = b :: c.node.chain.drop (h + 2) := by
      rw [List.drop_eq_getElem?_toList_append, hb]; rfl
    rw [← this, List.take_append_drop]
  have hk : k + 1 ≤ (c.node.chain.take (h + 1)).length := by omega
  have H : RemHyp c w addrs own' (c.node.chain.take (h + 1)) :=
    ⟨hS.minus, hS.managed, hS.ne, chainValid_take hvN _, heightsOK_take hgN.heights _,
      fun y hy => hknN y (List.mem_of_mem_take hy)⟩
  have H' : RemHyp c w addrs own' (c.node.chain.take (h + 1) ++ [b]) := by
    rw [← e]
    exact ⟨hS.minus, hS.managed, hS.ne, chainValid_take hvN _, heightsOK_take hgN.heights _,
      fun y hy => hknN y (List.mem_of_mem_take hy)⟩
  have hbh : b.height = (c.node.chain.take (h + 1)).length := by rw [hlen]; exact hgN.heights _ _ hb
  have hnr : (readyWallets g c.wallets).contains w = false := notReady_of_removed hG.flag rfl
  obtain ⟨g', conf, hfg, hSg', hstg, _⟩ := connect_scanJS' hKN ⟨hvN, hgN.heights⟩ hnode hG.scan hnr hk hG.allReady
    hG.nonempty
  have hready : readyWallets s c.wallets = readyWallets g c.wallets := readyWallets_congr hSub.status c.wallets
  have hFs : AMap.get s.blocks b.height = none := by
    have := hM.blocks b.height
    rw [show AMap.get s.blocks b.height = _ from this, hbh]
    exact blockRecOf_none (Nat.le_refl _)
  obtain ⟨s', hfs, hSub', hNew, hns', hng', _, f_tx, f_blk, f_deb, f_cred, gc1, gc2, gf_tx, _, gf_deb⟩ :=
    filterBlock_sim (c := c) (ready := readyWallets g c.wallets) hSub hG.nodup hM.nodup
      (ghost_fresh H hKN hk hG.scan hbh) hFs (ghost_coinsOK H hKN hG.scan hnr)
      (ghost_find H hKN hk hG.scan hG.nodup hnode hvN)
      (real_own H hKN hk hG.scan hG.nodup hM.nodup hM.credits hnode hvN hnr)
      (ready_not_addrs H hnr) hfg
  have hnr' : (readyWallets g' c.wallets).contains w = false := by rw [readyWallets_congr hstg]; exact hnr
  have hM' := midC_ext H H' hKN hk hbh hG.scan hSg' hnr' hng' hM hSub hSub' hNew hns' f_tx f_blk f_deb f_cred gc1 gc2
    gf_tx gf_deb
  refine ⟨s', conf, by rw [hready]; exact hfs, ?_, hSub'.status.trans (hstg.trans hSub.status.symm)⟩
  rw [e]
  refine ⟨g', k, hkfl, by rw [List.length_append]; omega, ⟨hSg', by rw [hstg]; exact hG.flag, ?_, ?_, hng'⟩, hSub', hM'⟩
  · rw [readyWallets_congr hstg]; exact hG.allReady
  · rw [readyWallets_congr hstg]; exact hG.nonempty

theorem p2f_connSpec (hS : Static c w addrs own') (hgN : GoodChain c.node.chain) (hvN : ChainValid c.own c.node.chain)
    (hknN : ∀ y ∈ c.node.chain, AMap.get c.node.known y.id = some y) :
    ConnSpec c (P2F c w addrs own' fl) (fun _ => True) := by
  have key : ∀ (d : Nat) (s : Store) (f B : Nat) (ready : List Wid) (added : List (Nat × List TxId)), B - f = d → f ≤ B →
      B < c.node.chain.length → P2F c w addrs own' fl s (c.node.chain.take (f + 1)) → ready = readyWallets s c.wallets →
      ∃ s' added', connectAll c ready ((c.node.chain.take (B + 1)).drop (f + 1)) s added = .ok (s', added') ∧
        P2F c w addrs own' fl s' (c.node.chain.take (B + 1)) := by
    intro d
    induction d with
    | zero =>
      intro s f B ready added hd hfB _ hI _
      have : f = B := by omega
      subst this
      refine ⟨s, added, ?_, hI⟩
      rw [List.drop_take]; simp [connectAll]
    | succ d ih =>
      intro s f B ready added hd hfB hBl hI hr
      have hx : c.node.chain[f + 1]? = some c.node.chain[f + 1] := List.getElem?_eq_getElem (by omega)
      rw [seg_cons hx (by omega)]
      obtain ⟨s1, conf, hfb, hI1, hst1⟩ := p2f_connect hS hgN hvN hknN hx hI
      obtain ⟨s2, added2, h2, hI2⟩ := ih s1 (f + 1) B ready (added ++ [(c.node.chain[f + 1].height, conf)]) (by omega)
        (by omega) hBl hI1 (by rw [hr]; exact (readyWallets_congr hst1 c.wallets).symm)
      refine ⟨s2, added2, ?_, hI2⟩
      unfold connectAll
      rw [hr, hfb]
      simp only [M_ok_bind]
      rw [← hr]
      exact h2
  intro s f B hfB hBl hI _
  obtain ⟨s', added', h1, h2⟩ := key (B - f) s f B _ [] rfl hfB hBl hI rfl
  exact ⟨s', added', h1, h2, trivial⟩

end floor

-- ------------------------------------------------------------------ phase 2 with a floor, the events

/-- **phase 2 with a floor** `fl`: `Phase2` whose ghost height is ≤ `fl`, the chain reaching above `fl` -/
def Phase2F (c : Ctx) (w : Wid) (addrs : List Addr) (own' : Own) (G : Block) (fl : Nat) (x : ISt) : Prop :=
  ∃ g k, k ≤ fl ∧ fl < x.node.chain.length ∧ GhostOK c w x.node g k ∧ SubG addrs g x.s ∧
    MidC { c with node := x.node } w addrs own' x.s x.node.chain
      (joinBookK { c with node := x.node } w own' x.node.chain k) ∧
    ChainFacts c G x

section events
variable {limit : Nat} {c : Ctx} {w : Wid} {addrs : List Addr} {own' : Own} {G : Block} {fl : Nat} {x x' : ISt}

/-- the floor is set at the first removal step: the tip height -/
theorem phase2F_of_phase2 (h : Phase2 c w addrs own' G x) : Phase2F c w addrs own' G (x.node.chain.length - 1) x := by
  obtain ⟨g, k, hG, hSub, hM, hcf⟩ := h
  have := hG.len
  exact ⟨g, k, by omega, by omega, hG, hSub, hM, hcf⟩

theorem phase2F_recv {t : Tx} (hP : Phase2F c w addrs own' G fl x) (h : istep limit c w addrs x (.recv t) = some x') :
    Phase2F c w addrs own' G fl x' := by
  obtain ⟨g, k, hkfl, hfl, hG, hSub, hM, hcf⟩ := hP
  have hx := istep_recv h
  have m := minedEq_recvTx { c with node := x.node } x.s x.v t
  subst hx
  refine ⟨g, k, hkfl, hfl, hG, ?_, ?_, ⟨?_, hcf.fin, hcf.good, hcf.valid, hcf.genesis, hcf.known⟩⟩
  · refine ⟨m.unspent.trans hSub.unspent, m.game.trans hSub.game, m.balance.trans hSub.balance,
      m.sync.trans hSub.sync, m.syncedTo.trans hSub.syncedTo, m.status.trans hSub.status, m.addrs.trans hSub.addrs,
      ?_, ?_, ?_⟩
    · intro key; show AMap.get (recvTx _ x.s x.v t).1.credits key = _ ∨ (AMap.get (recvTx _ x.s x.v t).1.credits key = none ∧ _)
      rw [m.credits]; exact hSub.credits key
    · intro key; show AMap.get (recvTx _ x.s x.v t).1.debits key = _ ∨ AMap.get (recvTx _ x.s x.v t).1.debits key = none
      rw [m.debits]; exact hSub.debits key
    · intro key; show AMap.get (recvTx _ x.s x.v t).1.txrecs key = _ ∨ AMap.get (recvTx _ x.s x.v t).1.txrecs key = none
      rw [m.txrecs]; exact hSub.txrecs key
  · exact midC_congr hM m.credits m.debits m.unspent m.game m.txrecs m.blocks m.balance m.sync m.syncedTo m.status
  · show (recvTx _ x.s x.v t).2.1.best = _
    rw [recvTx_best]; exact hcf.best

theorem phase2F_restart {v : Vol} (hv : v.best = x.v.best) (hP : Phase2F c w addrs own' G fl x)
    (h : istep limit c w addrs x (.restart v) = some x') : Phase2F c w addrs own' G fl x' := by
  rw [istep_restart h]
  obtain ⟨g, k, hkfl, hfl, hG, hSub, hM, hcf⟩ := hP
  exact ⟨g, k, hkfl, hfl, hG, hSub, hM, ⟨hv.trans hcf.best, hcf.fin, hcf.good, hcf.valid, hcf.genesis, hcf.known⟩⟩

theorem phase2F_rem (hS : Static c w addrs own') (hP : Phase2F c w addrs own' G fl x)
    (hp : PendOK addrs x.s x.node.chain) (h : istep limit c w addrs x .rem = some x') :
    (x'.fin = false → Phase2F c w addrs own' G fl x') ∧
    (x'.fin = true → ∀ ws', (∀ y ∈ ws', y ∈ c.wallets) →
      Inv { c with own := own', wallets := ws', node := x'.node } x'.s x'.node.chain) := by
  obtain ⟨g, k, hkfl, hfl, hG, hSub, hM, hcf⟩ := hP
  obtain ⟨_, o, ho, rfl⟩ := istep_rem h
  have H := remHyp_of hS hcf
  have HU := upperOK_join H hS.keys hG.len
  have hMU := midU_of_midC hM hp
  constructor
  · intro hf
    have hf' : o.finish = false := hf
    have hM' := parked_step_U limit H HU hMU ho hf'
    have hr := removeStep_parked ho hf'
    exact ⟨g, k, hkfl, hfl, hG, subG_step hS.ne hSub hMU.nodup hr, midC_of_midU hM',
      ⟨hcf.best, hf', hcf.good, hcf.valid, hcf.genesis, hcf.known⟩⟩
  · intro hf ws' hws
    have hf' : o.finish = true := hf
    exact finish_projects_U limit H HU hMU ws' hws ho hf'

/-- **a reorganisation between two removal steps that forks above the floor** (or an extension): the announced chain
    agrees with the stored one up to the floor, so only blocks connected after the first removal step are rolled back -/
theorem phase2_notify_reorg {n : Node} {b : Block} (hS : Static c w addrs own') (hP : Phase2F c w addrs own' G fl x)
    (hN : NodeOK c.own G x.node.known n b) (hinj : IdInj (x.node.chain ++ n.chain))
    (hagree : x.node.chain.take (fl + 1) = n.chain.take (fl + 1))
    (hg0 : b.height = 0 → b.prev ≠ x.v.best.hash) :
    ∃ x', istep limit c w addrs x (.notify n b) = some x' ∧ Phase2F c w addrs own' G fl x' := by
  obtain ⟨g, k, hkfl, hfl, hG, hSub, hM, hcf⟩ := hP
  have hS' : Static { c with node := n } w addrs own' := ⟨hS.minus, hS.managed, hS.ne, hS.keys⟩
  have hknX : ∀ y ∈ x.node.chain, AMap.get n.known y.id = some y := fun y hy => hN.grows _ _ (hcf.known y hy)
  -- the tip of the announced chain
  have hne : n.chain ≠ [] := hN.good.nonempty
  have hlen : n.chain.length ≠ 0 := fun h => hne (List.eq_nil_of_length_eq_zero h)
  have hlast : n.chain[n.chain.length - 1]? = some b := by rw [← List.getLast?_eq_getElem?]; exact hN.tip
  have hbh : b.height = n.chain.length - 1 := hN.good.heights _ _ hlast
  have hb : n.chain[b.height]? = some b := by rw [hbh]; exact hlast
  have htake : n.chain.take (b.height + 1) = n.chain := List.take_of_length_le (by omega)
  have hfln : fl < n.chain.length := by
    have := congrArg List.length hagree
    rw [List.length_take, List.length_take] at this
    omega
  -- the store-level invariant, for the context with the announced node
  have hI : P2F { c with node := n } w addrs own' fl x.s x.node.chain :=
    ⟨g, k, hkfl, hfl,
      ⟨scanJS_ctx (c := { c with node := x.node }) rfl rfl rfl hG.scan, hG.flag, hG.allReady, hG.nonempty, hG.nodup⟩,
      sub_of_subG hSub, midU_ctx (c := { c with node := x.node }) rfl rfl rfl hM⟩
  have HF : RIfaceF { c with node := n } x.node.chain fl (P2F { c with node := n } w addrs own' fl) (fun _ => True) :=
    ⟨hN.good, hcf.good, hinj, hfl, hagree,
      fun {s n' j y} hI hj hy => by
        obtain ⟨_, _, _, _, _, _, hM⟩ := hI
        have := hM.sync j
        rw [show AMap.get s.sync j = _ from this, syncOf, getElem?_take_of_lt hj, hy]; rfl,
      fun {s j} hflj hjl hI _ => by
        have hx : x.node.chain[j]? = some x.node.chain[j] := List.getElem?_eq_getElem hjl
        have e := take_succ_of_get hx
        have hjh : (x.node.chain[j]).height = j := hcf.good.heights _ _ hx
        rw [e] at hI
        have hV : ChainValid c.own (x.node.chain.take j ++ [x.node.chain[j]]) := by
          rw [← e]; exact chainValid_take hcf.valid _
        have hH : HeightsOK (x.node.chain.take j ++ [x.node.chain[j]]) := by
          rw [← e]; exact heightsOK_take hcf.good.heights _
        have hkn : ∀ y ∈ x.node.chain.take j ++ [x.node.chain[j]], AMap.get n.known y.id = some y := by
          rw [← e]; exact fun y hy => hknX y (List.mem_of_mem_take hy)
        have hlj : fl < (x.node.chain.take j).length := by rw [List.length_take]; omega
        obtain ⟨s', h1, h2⟩ := p2f_disc (c := { c with node := n }) hS' hV hH hkn hlj hI
        rw [hjh] at h1
        exact ⟨s', h1, h2, trivial⟩⟩
  obtain ⟨s', v', hpb, hI', _, hv', _⟩ := processBlock_reachesIF HF
    (p2f_connSpec (c := { c with node := n }) hS' hN.good hN.valid hN.known) hI hb (by omega) hcf.best
    (by rw [← hcf.best]; exact hg0) trivial
    (by
      intro j hX hj
      have hb' : n.chain[j + 1]? = some b := by rw [← hj]; exact hb
      have hI0 := hI
      rw [hX] at hI0
      obtain ⟨s', conf, hfb, hI', _⟩ := p2f_connect (c := { c with node := n }) hS' hN.good hN.valid hN.known hb' hI0
      exact ⟨s', conf, hfb, hI', trivial⟩)
  rw [htake] at hI' hv'
  obtain ⟨g', k', hk'fl, hfl', hG', hSub', hM'⟩ := hI'
  refine ⟨{ x with s := s', v := v', node := n }, ?_, g', k', hk'fl, hfl',
    ⟨by show k' + 1 ≤ n.chain.length; omega, hG'.scan, hG'.flag, hG'.allReady, hG'.nonempty, hG'.nodup⟩,
    subG_of_sub hSub', hM', ⟨hv', hcf.fin, hN.good, hN.valid, hN.genesis, hN.known⟩⟩
  simp only [istep, hcf.fin, hpb, Bool.false_eq_true, if_false, if_true]

end events

-- ------------------------------------------------------------------ histories: reorganisations above the floor

/-- the floor after an event: set to the tip height by the first removal step, kept afterwards -/
def floorAfter (fl : Option Nat) (x : ISt) : IEv → Option Nat
  | .rem => some (fl.getD (x.node.chain.length - 1))
  | _ => fl

/-- the domain of `remove_interleaved_above`, threaded along the history; `fl` = the floor once a removal step has run
    (`none` before): a removal step needs the pending-side clause; a tip notification — ANY announced node state,
    extension or reorganisation — must, once the floor is set, agree with the stored chain up to the floor (it forks
    above it: only blocks connected after the first removal step are rolled back); unconfirmed transactions anywhere;
    a restarted follower reports the stored best block.  (`b.height = 0 → …` excludes a re-announcement of the
    genesis block that would be taken for an extension.) -/
def DomC (limit : Nat) (c : Ctx) (w : Wid) (addrs : List Addr) (G : Block) : Option Nat → ISt → List IEv → Prop
  | _, _, [] => True
  | fl, x, ev :: evs =>
    (match ev with
      | .rem => PendOK addrs x.s x.node.chain
      | .notify n b => NodeOK c.own G x.node.known n b ∧ IdInj (x.node.chain ++ n.chain) ∧
          (b.height = 0 → b.prev ≠ x.v.best.hash) ∧
          (∀ f, fl = some f → x.node.chain.take (f + 1) = n.chain.take (f + 1))
      | .recv _ => True
      | .restart v => v.best = x.v.best) ∧
    ∀ x', istep limit c w addrs x ev = some x' → DomC limit c w addrs G (floorAfter fl x ev) x' evs

section
variable {limit : Nat} {c : Ctx} {w : Wid} {addrs : List Addr} {own' : Own} {G : Block}

/-- the invariant of a history with a floor -/
def PhaseF (c : Ctx) (w : Wid) (addrs : List Addr) (own' : Own) (G : Block) (x : ISt) : Option Nat → Prop
  | none => Phase1 c w G x
  | some f => Phase2F c w addrs own' G f x

theorem phaseF_fin {x : ISt} {fl : Option Nat} (h : PhaseF c w addrs own' G x fl) : x.fin = false := by
  cases fl with
  | none => exact h.cf.fin
  | some f =>
    obtain ⟨_, _, _, _, _, _, _, hcf⟩ := h
    exact hcf.fin

theorem domC_run (hS : Static c w addrs own') (ws' : List Wid) (hws : ∀ y ∈ ws', y ∈ c.wallets) :
    ∀ (evs : List IEv) (fl : Option Nat) (x xe : ISt), PhaseF c w addrs own' G x fl →
      DomC limit c w addrs G fl x evs → irun limit c w addrs x evs = some xe → xe.fin = true →
      Inv { c with own := own', wallets := ws', node := xe.node } xe.s xe.node.chain := by
  intro evs
  induction evs with
  | nil =>
    intro fl x xe hP _ h hfin
    simp only [irun, Option.some.injEq] at h
    subst h
    have := phaseF_fin hP
    rw [hfin] at this; cases this
  | cons ev evs ih =>
    intro fl x xe hP hD h hfin
    obtain ⟨hev, hdom⟩ := hD
    simp only [irun] at h
    cases hs : istep limit c w addrs x ev with
    | none => rw [hs] at h; cases h
    | some x1 =>
      rw [hs] at h
      have hdom' := hdom x1 hs
      cases ev with
      | rem =>
        have hnode : x1.node = x.node := istep_node hs
        have hcore : (x1.fin = false → PhaseF c w addrs own' G x1 (floorAfter fl x .rem)) ∧
            (x1.fin = true → ∀ ws', (∀ y ∈ ws', y ∈ c.wallets) →
              Inv { c with own := own', wallets := ws', node := x1.node } x1.s x1.node.chain) := by
          cases fl with
          | none =>
            obtain ⟨h1, h2⟩ := phase1_rem hS hP hev hs
            refine ⟨fun hf => ?_, h2⟩
            have := phase2F_of_phase2 (h1 hf)
            rw [hnode] at this
            exact this
          | some f => exact phase2F_rem hS hP hev hs
        cases hf1 : x1.fin with
        | false => exact ih _ x1 xe (hcore.1 hf1) hdom' h hfin
        | true =>
          have := irun_fin hf1 h
          subst this
          exact hcore.2 hf1 ws' hws
      | notify n b =>
        obtain ⟨hN, hinj, hg0, hfloor⟩ := hev
        cases fl with
        | none =>
          obtain ⟨x1', hs', hP'⟩ := phase1_notify (limit := limit) (addrs := addrs) hS.keys hP hN hinj hg0
          rw [hs] at hs'
          injection hs' with hs'
          subst hs'
          exact ih none x1 xe hP' hdom' h hfin
        | some f =>
          obtain ⟨x1', hs', hP'⟩ := phase2_notify_reorg (limit := limit) hS hP hN hinj (hfloor f rfl) hg0
          rw [hs] at hs'
          injection hs' with hs'
          subst hs'
          exact ih (some f) x1 xe hP' hdom' h hfin
      | recv t =>
        cases fl with
        | none => exact ih none x1 xe (phase1_recv hP hs) hdom' h hfin
        | some f => exact ih (some f) x1 xe (phase2F_recv hP hs) hdom' h hfin
      | restart v =>
        cases fl with
        | none => exact ih none x1 xe (phase1_restart hev hP hs) hdom' h hfin
        | some f => exact ih (some f) x1 xe (phase2F_restart hev hP hs) hdom' h hfin

/-- **removal interleaved with the follower, reorganisations above the floor**: from a store that follows the chain with
    `w` flagged, any history inside `DomC` — ANY announced node states before the first removal step; after it,
    extensions and reorganisations that fork above the tip height at the first removal step; unconfirmed transactions
    and restarts anywhere — that ends with the finishing step leaves C01's invariant for the table without `w`, on the
    chain the follower was last told about.  (`MW.Lemmas.RemoveMidCex`'s history is outside `DomC` exactly at the floor
    clause: its reorganisation replaces B1 and B2, connected BEFORE the first removal step.) -/
theorem remove_interleaved_above {x0 x : ISt} {evs : List IEv} {ws' : List Wid}
    (hP : Phase1 c w G x0) (hS : Static c w addrs own') (hD : DomC limit c w addrs G none x0 evs)
    (hrun : irun limit c w addrs x0 evs = some x) (hfin : x.fin = true) (hws : ∀ y ∈ ws', y ∈ c.wallets) :
    Inv { c with own := own', wallets := ws', node := x.node } x.s x.node.chain :=
  domC_run hS ws' hws evs none x0 x hP hD hrun hfin

end

end MW.Lemmas.RemoveInterleave
