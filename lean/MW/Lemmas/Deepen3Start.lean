/-
  C06 deepening (round 3), part 4: THE BRIDGE — `Model.Persist.crash` (boot + the real Start: resync step,
  fast-forward test, height-driven catch-up loop with its fuel, initTaskChan) on a wallet that satisfies C01's
  step invariant: Start SUCCEEDS (no step of the catch-up fails, the fuel suffices) and ends with the books of
  the node's whole chain, the tip copy at the node's tip and an exact key cache — at EVERY commit boundary,
  whatever was queued, whatever branch the wallet was on.
-/
import MW.Lemmas.Deepen3Keys
namespace MW.Lemmas.Deepen3
open MW MW.Model.Ledger MW.Model.Persist MW.Spec.Persist MW.Spec.Chain MW.Spec.Books MW.Lemmas.Ledger
  MW.Lemmas.PersistOp MW.Lemmas.PersistFault MW.Lemmas.PersistCrash

/-- the state of Start between two steps: the wallet holds the books of the first `h+1` blocks of the node's
    chain, the tip copy is block `h`, the key cache is the stored keystore, readiness is what it was -/
structure SInv (st : Static) (ks : AMap.T Wid KsRec) (chain : List Block) (s0 : Store) (h : Nat) (P : PStore)
    (V : PVol) : Prop where
  pks : P.ks = ks
  vkeys : V.keys = ks
  inv : Ledger.Inv ((lenv st ks).ctx chain) P.led (chain.take (h + 1))
  best : V.led.best = tipMeta (chain.take (h + 1))
  lt : h < chain.length
  ready : ∀ ws, readyWallets P.led ws = readyWallets s0 ws

theorem SInv.syncedTo {st : Static} {ks : AMap.T Wid KsRec} {chain : List Block} {s0 : Store} {h : Nat} {P : PStore}
    {V : PVol} (hS : SInv st ks chain s0 h P V) : P.led.syncedTo = h := by
  have := hS.inv.syncedTo
  rw [List.length_take] at this
  have := hS.lt
  omega

/-- one block of the node's chain, processed on top of the books of the blocks below it or — for the resync
    step — of ANY stored chain `S`: succeeds and reaches the books up to that block -/
theorem start_block {st : Static} {G : Block} (E : StaticOK st G) {ks : AMap.T Wid KsRec} {chain : List Block}
    (hN : ChainOK (lenv st ks) G chain) {s0 : Store}
    (hAR : AllReady (ownOf ks) (readyWallets s0 (walletsOf ks))) (hne : (readyWallets s0 (walletsOf ks)).isEmpty = false)
    (n : Nat) {P : PStore} {V : PVol} {S : List Block} (hks : P.ks = ks) (hkeys : V.keys = ks)
    (hI : Ledger.Inv ((lenv st ks).ctx chain) P.led S) (hv : V.led.best = tipMeta S) (hS : ChainOK (lenv st ks) G S)
    (hr : ∀ ws, readyWallets P.led ws = readyWallets s0 ws) {b : Block} {h : Nat} (hb : chain[h]? = some b) :
    ((opBlock (envAt st chain) n b).run none P V).ok = true ∧
    ((opBlock (envAt st chain) n b).run none P V).commits = 1 ∧
    SInv st ks chain s0 h ((opBlock (envAt st chain) n b).run none P V).P ((opBlock (envAt st chain) n b).run none P V).V := by
  have hbh : b.height = h := hN.good.height_at hb
  have hlt : h < chain.length := (List.getElem?_eq_some_iff.1 hb).1
  have hc : ctxOf (envAt st chain) V = (lenv st ks).ctx chain := by rw [ctx_eq, hkeys]
  have hbk : AMap.get (lenv st ks).known b.id = some b := hN.known b (List.mem_of_getElem? hb)
  obtain ⟨s', v', h1, h2, _, h4, h5⟩ := processBlock_reaches (reorgHyp_of hN hS) (v := V.led) hI
    (by show chain[b.height]? = some b; rw [hbh]; exact hb) hv (hgen_of (E.envHyp ks) hS hbk)
    (by show AllReady (ownOf ks) (readyWallets P.led (walletsOf ks)); rw [hr]; exact hAR)
    (by show (readyWallets P.led (walletsOf ks)).isEmpty = false; rw [hr]; exact hne)
  obtain ⟨e1, e2, e3⟩ := opBlock_processBlock (envAt st chain) n b P V
  rw [hc, h1] at e1 e2 e3
  have hbh' : b.height + 1 = h + 1 := by rw [hbh]
  refine ⟨e3, ?_, ?_⟩
  · rw [run_commits, e3]; rfl
  · rw [e1, e2]
    refine ⟨hks, hkeys, ?_, ?_, hlt, fun ws => (h5 ws).trans (hr ws)⟩
    · have : Ledger.Inv ((lenv st ks).ctx chain) s' (chain.take (b.height + 1)) := h2
      rw [hbh'] at this; exact this
    · have : v'.best = tipMeta (chain.take (b.height + 1)) := h4
      rw [hbh'] at this; exact this

/-- the catch-up loop of Start: from the books of `chain.take (h+1)` it processes blocks `h+1, h+2, …` of the
    node's chain; no step fails; the fuel `tipHeight + 1` of the code is enough -/
theorem catchUp_reaches {st : Static} {G : Block} (E : StaticOK st G) {ks : AMap.T Wid KsRec} {chain : List Block}
    (hN : ChainOK (lenv st ks) G chain) {s0 : Store}
    (hAR : AllReady (ownOf ks) (readyWallets s0 (walletsOf ks))) (hne : (readyWallets s0 (walletsOf ks)).isEmpty = false)
    (n : Nat) : ∀ (fuel h : Nat) (P : PStore) (V : PVol) (k0 : Nat), SInv st ks chain s0 h P V →
      chain.length + 1 ≤ fuel + (h + 1) →
      (catchUp (envAt st chain) n fuel (h + 1) P V k0).ok = true ∧
      (catchUp (envAt st chain) n fuel (h + 1) P V k0).commits = k0 + (chain.length - 1 - h) ∧
      SInv st ks chain s0 (chain.length - 1) (catchUp (envAt st chain) n fuel (h + 1) P V k0).P
        (catchUp (envAt st chain) n fuel (h + 1) P V k0).V := by
  intro fuel
  induction fuel with
  | zero =>
    intro h P V k0 hS hf
    have := hS.lt
    omega
  | succ fuel ih =>
    intro h P V k0 hS hf
    have htip : (envAt st chain).node.tipHeight = chain.length - 1 := rfl
    unfold catchUp
    by_cases hgt : h + 1 > (envAt st chain).node.tipHeight
    · rw [if_pos hgt]
      have hl := hS.lt
      have he : chain.length - 1 = h := by rw [htip] at hgt; omega
      rw [he]
      exact ⟨rfl, by simp, hS⟩
    · rw [if_neg hgt]
      have hlt : h + 1 < chain.length := by rw [htip] at hgt; have := hS.lt; omega
      have hb : (envAt st chain).node.blockAt (h + 1) = some (chain[h + 1]'hlt) := List.getElem?_eq_getElem hlt
      simp only [hb]
      obtain ⟨o1, o2, o3⟩ := start_block E hN hAR hne n hS.pks hS.vkeys hS.inv hS.best (hN.take h) hS.ready
        (b := chain[h + 1]'hlt) (h := h + 1) (List.getElem?_eq_getElem hlt)
      rw [if_pos o1]
      obtain ⟨i1, i2, i3⟩ := ih (h + 1) _ _ (k0 + ((opBlock (envAt st chain) n (chain[h + 1]'hlt)).run none P V).commits)
        o3 (by omega)
      refine ⟨i1, ?_, i3⟩
      rw [i2, o2]
      omega


/-- what boot reconstructs from a store that holds the books of `S`: the tip copy is the tip of `S` -/
theorem boot_best {c : Ctx} {P : PStore} {S : List Block} (hI : Ledger.Inv c P.led S) (hG : GoodChain S) :
    (bootVol P).led.best = tipMeta S ∧ ∃ x, S[P.led.syncedTo]? = some x ∧ (bootVol P).led.best.hash = x.id ∧
      P.led.syncedTo + 1 = S.length := by
  obtain ⟨x, hx, ht⟩ := tipMeta_good hG
  have hlen : P.led.syncedTo + 1 = S.length := hI.syncedTo
  have hpos := hG.length_pos
  have he : P.led.syncedTo = S.length - 1 := by omega
  have hsync : AMap.get P.led.sync P.led.syncedTo = some x.id := by
    rw [hI.sync, syncOf, he, hx]; rfl
  have hb : (bootVol P).led.best = ⟨P.led.syncedTo, x.id⟩ := by
    simp [bootVol, hsync]
  refine ⟨by rw [hb, ht, he], x, by rw [he]; exact hx, by rw [hb], hlen⟩

/-- Start's resync step on a freshly booted wallet holding the books of ANY stored chain `S`: it succeeds and
    leaves the wallet on the node's chain (books of a prefix of it) -/
theorem resync_reaches {st : Static} {G : Block} (E : StaticOK st G) {ks : AMap.T Wid KsRec} {chain : List Block}
    (hN : ChainOK (lenv st ks) G chain) (n : Nat) {P : PStore} {S : List Block} (hks : P.ks = ks)
    (hI : Ledger.Inv ((lenv st ks).ctx chain) P.led S) (hS : ChainOK (lenv st ks) G S)
    (hAR : AllReady (ownOf ks) (readyWallets P.led (walletsOf ks)))
    (hne : (readyWallets P.led (walletsOf ks)).isEmpty = false) :
    (resync (envAt st chain) n P (bootVol P)).ok = true ∧ (resync (envAt st chain) n P (bootVol P)).commits ≤ 1 ∧
    ∃ h, SInv st ks chain P.led h (resync (envAt st chain) n P (bootVol P)).P (resync (envAt st chain) n P (bootVol P)).V := by
  obtain ⟨hbest, x, hxs, hxid, hlen⟩ := boot_best hI hS.good
  have hkeys : (bootVol P).keys = ks := hks
  have hposN := hN.good.length_pos
  have htip : (envAt st chain).node.tipHeight = chain.length - 1 := rfl
  unfold resync
  by_cases h0 : P.led.syncedTo = 0
  · rw [if_pos h0]
    refine ⟨rfl, Nat.zero_le _, 0, hks, hkeys, ?_, ?_, hposN, fun _ => rfl⟩
    · have h1 : S.take 1 = chain.take 1 := (reorgHyp_of hN hS).take1
      have h2 : S.take 1 = S := List.take_of_length_le (by omega)
      rw [← h1, h2]; exact hI
    · have h1 : S.take 1 = chain.take 1 := (reorgHyp_of hN hS).take1
      have h2 : S.take 1 = S := List.take_of_length_le (by omega)
      rw [← h1, h2]; exact hbest
  · rw [if_neg h0]
    have hat : min P.led.syncedTo (envAt st chain).node.tipHeight < chain.length := by
      rw [htip]; have := Nat.min_le_right P.led.syncedTo (chain.length - 1); omega
    have hb : (envAt st chain).node.blockAt (min P.led.syncedTo (envAt st chain).node.tipHeight) =
        some (chain[min P.led.syncedTo (envAt st chain).node.tipHeight]'hat) := List.getElem?_eq_getElem hat
    simp only [hb]
    by_cases hst : min P.led.syncedTo (envAt st chain).node.tipHeight < P.led.syncedTo ∨
        (chain[min P.led.syncedTo (envAt st chain).node.tipHeight]'hat).id ≠ (bootVol P).led.best.hash
    · rw [if_pos hst]
      obtain ⟨o1, o2, o3⟩ := start_block E hN hAR hne n hks hkeys hI hbest hS (fun _ => rfl)
        (b := chain[min P.led.syncedTo (envAt st chain).node.tipHeight]'hat) (List.getElem?_eq_getElem hat)
      exact ⟨o1, by rw [o2]; exact Nat.le_refl 1, _, o3⟩
    · rw [if_neg hst]
      simp only [not_or, Nat.not_lt, ne_eq, Decidable.not_not] at hst
      obtain ⟨hge, hid⟩ := hst
      have hmin : min P.led.syncedTo (envAt st chain).node.tipHeight = P.led.syncedTo :=
        Nat.le_antisymm (Nat.min_le_left _ _) hge
      have hlt : P.led.syncedTo < chain.length := by rw [← hmin]; exact hat
      have hy : chain[P.led.syncedTo]? = some (chain[min P.led.syncedTo (envAt st chain).node.tipHeight]'hat) := by
        rw [List.getElem?_eq_getElem hlt]; congr 1; simp only [hmin]
      have hinj : IdInj (S ++ chain) := idInj_of_known (known := (lenv st ks).known) (fun y hy => by
        rcases List.mem_append.1 hy with h | h
        · exact hS.known y h
        · exact hN.known y h)
      have hpre := prefix_of_id hS.good hN.good hinj P.led.syncedTo x _ hxs hy (by rw [hid, hxid])
      have hSt : S.take (P.led.syncedTo + 1) = S := List.take_of_length_le (by omega)
      rw [hSt] at hpre
      refine ⟨rfl, Nat.zero_le _, P.led.syncedTo, hks, hkeys, ?_, ?_, hlt, fun _ => rfl⟩
      · rw [← hpre]; exact hI
      · rw [← hpre]; exact hbest

/-- THE BRIDGE: a process crash of a wallet that holds the books of any stored chain `S` (every address owner
    ready, at least one ready wallet): boot + Start succeed and end with the books of the node's WHOLE chain -/
theorem crash_reaches {st : Static} {G : Block} (E : StaticOK st G) {ks : AMap.T Wid KsRec} {chain : List Block}
    (hN : ChainOK (lenv st ks) G chain) (n : Nat) {P : PStore} {S : List Block} (hks : P.ks = ks)
    (hI : Ledger.Inv ((lenv st ks).ctx chain) P.led S) (hS : ChainOK (lenv st ks) G S)
    (hAR : AllReady (ownOf ks) (readyWallets P.led (walletsOf ks)))
    (hne : (readyWallets P.led (walletsOf ks)).isEmpty = false) :
    (Model.Persist.crash (envAt st chain) n P).ok = true ∧
    SInv st ks chain P.led (chain.length - 1) (Model.Persist.crash (envAt st chain) n P).P
      (Model.Persist.crash (envAt st chain) n P).V ∧
    (Model.Persist.crash (envAt st chain) n P).V.tasks = requeue (Model.Persist.crash (envAt st chain) n P).P := by
  obtain ⟨r1, _, h, hS0⟩ := resync_reaches E hN n hks hI hS hAR hne
  have hsync := hS0.syncedTo
  have hready : (readyWallets (resync (envAt st chain) n P (bootVol P)).P.led
      (walletsOf (resync (envAt st chain) n P (bootVol P)).V.keys)).isEmpty = false := by
    rw [hS0.ready, hS0.vkeys]; exact hne
  obtain ⟨c1, _, c3⟩ := catchUp_reaches E hN hAR hne n ((envAt st chain).node.tipHeight + 1) h _ _
    (resync (envAt st chain) n P (bootVol P)).commits hS0 (by
      have : (envAt st chain).node.tipHeight = chain.length - 1 := rfl
      have := hN.good.length_pos
      omega)
  have hstart : start (envAt st chain) n P (bootVol P) =
      { catchUp (envAt st chain) n ((envAt st chain).node.tipHeight + 1) (h + 1)
          (resync (envAt st chain) n P (bootVol P)).P (resync (envAt st chain) n P (bootVol P)).V
          (resync (envAt st chain) n P (bootVol P)).commits with
        V := { (catchUp (envAt st chain) n ((envAt st chain).node.tipHeight + 1) (h + 1)
          (resync (envAt st chain) n P (bootVol P)).P (resync (envAt st chain) n P (bootVol P)).V
          (resync (envAt st chain) n P (bootVol P)).commits).V with
          tasks := requeue (catchUp (envAt st chain) n ((envAt st chain).node.tipHeight + 1) (h + 1)
          (resync (envAt st chain) n P (bootVol P)).P (resync (envAt st chain) n P (bootVol P)).V
          (resync (envAt st chain) n P (bootVol P)).commits).P } } := by
    unfold start
    simp only [r1, Bool.not_true, Bool.false_eq_true, if_false]
    unfold startCore
    simp only [hready, Bool.not_false, Bool.not_true, Bool.false_and, Bool.false_eq_true, if_false, hsync, c1]
  unfold Model.Persist.crash
  rw [hstart]
  exact ⟨c1, ⟨c3.pks, c3.vkeys, c3.inv, c3.best, c3.lt, c3.ready⟩, rfl⟩

end MW.Lemmas.Deepen3
