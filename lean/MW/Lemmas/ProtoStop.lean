/- C20 liveness, stop side: once the stop request has been made (quit closed), every weakly fair run of the protocol
   model reaches the final state (both goroutines returned, database closed) -/
import MW.Lemmas.Proto
import MW.Lemmas.Fair
namespace MW.Lemmas.ProtoStop
open MW.Model.Proto MW.Lemmas.Proto MW.Spec.Live MW.Lemmas.Fair

/-- an API call passing its busy check changes nothing the follower, the worker or the stop sequence look at -/
theorem aCheck_frame {c : Cfg} {s s' : St} (hf : fire .fixed c .aCheck s = some s') (h : Label) (hh : h.core = true) :
    (fire .fixed c h s').isSome = (fire .fixed c h s).isSome ∧ stopMeasure s' = stopMeasure s := by
  obtain ⟨quit, dbOpen, hp, wp, sp, ap, nb, ntx, nt⟩ := s
  simp [fire] at hf
  obtain ⟨_, rfl⟩ := hf
  refine ⟨?_, rfl⟩
  cases h <;> simp [Label.core] at hh <;> simp only [fire] <;> (repeat' split) <;> simp_all

/-- one step after the stop request, other than an API push: the measure decreases, or nothing relevant changed
    (and the step was not the helpful one) -/
theorem stop_un {c : Cfg} (hc : c.busy < c.cap) {s s' : St} {l h : Label} (hi : Inv .fixed c s) (hq : s.quit = true)
    (hf : fire .fixed c l s = some s') (hl : l ≠ .aPush) (hh : h.core = true)
    (hen : (fire .fixed c h s).isSome = true) :
    (stopMeasure s' = stopMeasure s ∧ (fire .fixed c h s').isSome = true ∧ l ≠ h) ∨ stopMeasure s' < stopMeasure s := by
  by_cases hcore : l.core = true
  · exact Or.inr (measure_decreases hcore hq hf)
  · have hidle : s.sp ≠ .idle := fun h0 => by
      have := hi.spQuit.1 h0
      rw [hq] at this
      cases this
    cases l <;> simp [Label.core] at hcore
    · simp [fire, hidle] at hf
    · simp [fire, hidle] at hf
    · simp [fire, hidle] at hf
    · obtain ⟨h1, h2⟩ := aCheck_frame hf h hh
      refine Or.inl ⟨h2, by rw [h1]; exact hen, ?_⟩
      intro h0
      rw [← h0] at hh
      cases hh
    · exact absurd rfl hl
    · rw [(no_drop_of_inv hc hi).2] at hf
      cases hf

section run
variable {c : Cfg} {run : Nat → St} {ls : Nat → Option Label}

theorem run_cases (hr : IsRun c run ls) (i : Nat) :
    (ls i = none ∧ run (i + 1) = run i) ∨ ∃ l, ls i = some l ∧ fire .fixed c l (run i) = some (run (i + 1)) := by
  have h := hr.step i
  cases hl : ls i with
  | none => rw [hl] at h; exact Or.inl ⟨rfl, h⟩
  | some l => rw [hl] at h; exact Or.inr ⟨l, rfl, h⟩

theorem run_reach (hr : IsRun c run ls) : ∀ i, Reach .fixed c (run i) := by
  intro i
  induction i with
  | zero => exact .init hr.init
  | succ i ih =>
    rcases run_cases hr i with ⟨_, h⟩ | ⟨l, _, h⟩
    · rw [h]; exact ih
    · exact .step l ih h

theorem run_quit (hr : IsRun c run ls) {i : Nat} (hq : (run i).quit = true) : ∀ j, i ≤ j → (run j).quit = true := by
  intro j hj
  obtain ⟨d, rfl⟩ := Nat.exists_eq_add_of_le hj
  clear hj
  induction d with
  | zero => exact hq
  | succ d ih =>
    rcases run_cases hr (i + d) with ⟨_, h⟩ | ⟨l, _, h⟩
    · rw [show i + (d + 1) = i + d + 1 from rfl, h]; exact ih
    · exact quit_stable ih h

/-- STOP-SIDE LIVENESS. In every run of the fixed skeleton in which each step of follower, worker and stop
    sequence is weakly fair and no API call pushes a task after the stop request: once quit is closed, the run
    reaches the final state – Stop has returned, both goroutines have returned, the database is closed. -/
theorem stop_live (hc : c.busy < c.cap) (hr : IsRun c run ls)
    (hwf : ∀ l : Label, l.core = true → WF (fire .fixed c) run ls l)
    (hapi : ∀ j, (run j).quit = true → ls j ≠ some .aPush) :
    ∀ i, (run i).quit = true → ∃ j, i ≤ j ∧ Final (run j) ∧ (run j).dbOpen = false := by
  have hinv := fun i => inv_reach hc (run_reach hr i)
  have key : LeadsTo run (fun s => s.quit = true) (fun s => Final s) := by
    refine leadsTo_nat stopMeasure ?_
    intro a i hp
    obtain ⟨hq, hm⟩ := hp
    rcases no_deadlock_of_inv (hinv i) with ⟨h, hh, hen⟩ | hfin | hqui
    · -- the helpful label `h`
      refine wf1 (step := fire .fixed c) (ls := ls) h
        (P := fun s => s.quit = true ∧ stopMeasure s = a ∧ (fire .fixed c h s).isSome = true)
        (Q := fun s => Final s ∨ (s.quit = true ∧ stopMeasure s < a))
        (fun j hp => hp.2.2) ?_ ?_ (hwf h hh) i ⟨hq, hm, hen⟩
      · intro j hp
        obtain ⟨hq, hm, hen⟩ := hp
        rcases run_cases hr j with ⟨_, h2⟩ | ⟨l, h1, h2⟩
        · left; rw [h2]; exact ⟨hq, hm, hen⟩
        · have hq' := quit_stable hq h2
          rcases stop_un hc (hinv j) hq h2 (fun h0 => hapi j hq (h0 ▸ h1)) hh hen with ⟨h3, h4, _⟩ | h3
          · exact Or.inl ⟨hq', h3.trans hm, h4⟩
          · exact Or.inr (Or.inr ⟨hq', hm ▸ h3⟩)
      · intro j hp hl
        obtain ⟨hq, hm, hen⟩ := hp
        rcases run_cases hr j with ⟨h1, _⟩ | ⟨l, h1, h2⟩
        · rw [hl] at h1; cases h1
        · rw [hl] at h1; cases h1
          exact Or.inr ⟨quit_stable hq h2, hm ▸ measure_decreases hh hq h2⟩
    · exact ⟨i, Nat.le_refl i, Or.inl hfin⟩
    · have := (hinv i).spQuit.1 hqui.1
      rw [hq] at this
      cases this
  intro i hq
  obtain ⟨j, hj, hfin⟩ := key i hq
  exact ⟨j, hj, hfin, (hinv j).db.2 hfin.1⟩

end run

end MW.Lemmas.ProtoStop
