/-
  C13: the big-integer code of mnemonic.go computes the BIP-39 bit-string codec.
  Encoding half: addChecksum, the word loop, NewMnemonic = Spec.encode.
-/
import MW.Lemmas.Bip39Num
import MW.Lemmas.Bip39Words
import MW.Lemmas.Bip39Fields
import Mathlib.Tactic.Ring
import Mathlib.Tactic.Linarith
namespace MW.Lemmas.Bip39Codec
open MW MW.B39 MW.Model.Bip39 MW.Lemmas.Bip39Words MW.Lemmas.Bip39Fields

/-- a digest is never empty (SHA-256 returns 32 bytes); the only thing assumed about `H` -/
def HashOK (H : Bytes → Bytes) : Prop := ∀ x, H x ≠ []

/-! ### small arithmetic facts -/

theorem or_one (y : Nat) : y * 2 ||| 1 = y * 2 + 1 := by
  have := Nat.two_pow_add_eq_or_of_lt (i := 1) (b := 1) (by decide) y
  rw [Nat.pow_one, Nat.mul_comm] at this
  exact this.symm

set_option maxRecDepth 100000 in
theorem and_bit : ∀ n, n < 256 → ∀ j, j < 8 → ((n &&& 2 ^ j > 0) ↔ n / 2 ^ j % 2 = 1) := by
  decide

theorem mul_or (b i : Nat) (h : i < 2048) : b * 2048 ||| i = b * 2048 + i := by
  have := Nat.two_pow_add_eq_or_of_lt (i := 11) (b := i) (by simpa using h) b
  rw [Nat.mul_comm] at this
  exact this.symm

theorem and_2047 (x : Nat) : x &&& 2047 = x % 2048 := Nat.and_two_pow_sub_one_eq_mod x 11

/-! ### addChecksum -/

theorem addChecksumStep_eq (h0 : UInt8) (y k : Nat) (hk : k ≤ 7) :
    addChecksumStep h0 y k = y * 2 + h0.toNat / 2 ^ (7 - k) % 2 := by
  unfold addChecksumStep bitMask
  simp only [hk, ↓reduceIte, Gen.Bip39.bigTwo, Gen.Bip39.bigOne]
  have hb := and_bit h0.toNat h0.toNat_lt (7 - k) (by omega)
  by_cases h : h0.toNat &&& 2 ^ (7 - k) > 0
  · rw [if_pos h, or_one, hb.mp h]
  · rw [if_neg h]
    have : h0.toNat / 2 ^ (7 - k) % 2 ≠ 1 := fun e => h (hb.mpr e)
    omega

theorem addChecksum_fold (h0 : UInt8) (x : Nat) : ∀ k, k ≤ 8 →
    (List.range k).foldl (addChecksumStep h0) x = x * 2 ^ k + h0.toNat / 2 ^ (8 - k) := by
  intro k
  induction k with
  | zero =>
    intro _
    have := h0.toNat_lt
    simp only [List.range_zero, List.foldl_nil, pow_zero, Nat.mul_one]
    rw [Nat.div_eq_of_lt (by simpa using this)]; simp
  | succ k ih =>
    intro hk
    rw [List.range_succ, List.foldl_append, ih (by omega)]
    simp only [List.foldl_cons, List.foldl_nil]
    rw [addChecksumStep_eq _ _ _ (by omega)]
    have e : 8 - k = (7 - k) + 1 := by omega
    have e2 : 8 - (k + 1) = 7 - k := by omega
    rw [e, e2, pow_succ, ← Nat.div_div_eq_div_mul, pow_succ]
    generalize h0.toNat / 2 ^ (7 - k) = m
    have := Nat.div_add_mod m 2
    nlinarith

/-- the checksum value: the first `cs` bits of the first digest byte -/
def csVal (h : Bytes) (cs : Nat) : Nat := (h.headD 0).toNat / 2 ^ (8 - cs)

theorem csVal_lt (h : Bytes) (cs : Nat) (hcs : cs ≤ 8) : csVal h cs < 2 ^ cs := by
  unfold csVal
  have := (h.headD 0).toNat_lt
  rw [Nat.div_lt_iff_lt_mul (by positivity), ← pow_add]
  have : cs + (8 - cs) = 8 := by omega
  rw [this]; simpa using ‹(h.headD 0).toNat < 2 ^ 8›

/-- `addChecksum` appends the first len/4 bits of the digest to the number (and returns MINIMAL bytes) -/
theorem addChecksum_eq (H : Bytes → Bytes) (hH : HashOK H) (data : Bytes) (h8 : data.length / 4 ≤ 8) :
    addChecksum H data =
      .ok (toBytesBE (ofBytesBE data * 2 ^ (data.length / 4) + csVal (H data) (data.length / 4))) := by
  unfold addChecksum
  cases hd : H data with
  | nil => exact absurd hd (hH data)
  | cons h0 t =>
    simp only [firstByte, bind, Except.bind, pure, Except.pure]
    rw [addChecksum_fold h0 _ _ h8]
    simp [csVal]

/-! ### the word loop of NewMnemonic -/

/-- `n` base-2048 digits of `x`, most significant first -/
def digitsRec : Nat → Nat → List Nat
  | 0, _ => []
  | k + 1, x => digitsRec k (x / 2048) ++ [x % 2048]

theorem digitsRec_length (k x : Nat) : (digitsRec k x).length = k := by
  induction k generalizing x with
  | zero => rfl
  | succ k ih => simp [digitsRec, ih]

theorem digitsRec_lt (k x : Nat) : ∀ d ∈ digitsRec k x, d < 2048 := by
  induction k generalizing x with
  | zero => intro d hd; simp [digitsRec] at hd
  | succ k ih =>
    intro d hd
    simp only [digitsRec, List.mem_append, List.mem_singleton] at hd
    rcases hd with hd | hd
    · exact ih _ d hd
    · subst hd; exact Nat.mod_lt _ (by norm_num)

theorem beUint16_pad (v : Nat) (h : v < 65536) : beUint16 (padLeft (toBytesBE v) 2) = .ok v := by
  have hl := padLeft_length (toBytesBE v) 2 (toBytesBE_length_le 2 v (by simpa using h))
  have hv := ofBytesBE_padLeft (toBytesBE v) 2
  rw [ofBytesBE_toBytesBE] at hv
  generalize padLeft (toBytesBE v) 2 = l at hl hv
  match l, hl with
  | [b0, b1], _ =>
    simp only [beUint16]
    rw [← hv]; simp [ofBytesBE]

/-- the word at an index (`getD`: the indexes in use are < 2048, see `wordsLoop_eq`) -/
def wordOf (i : Nat) : Bytes := wordList.getD i []

theorem wordAt_lt (i : Nat) (h : i < 2048) : wordAt i = .ok (wordOf i) := by
  unfold wordAt wordOf
  have hi : i < wordList.length := by rw [wordList_length]; exact h
  simp [List.getElem?_eq_getElem hi, List.getD_eq_getElem?_getD]

theorem wordsLoop_eq : ∀ (k x : Nat) (acc : List Bytes),
    wordsLoop k x acc = .ok ((digitsRec k x).map wordOf ++ acc) := by
  intro k
  induction k with
  | zero => intro x acc; rfl
  | succ k ih =>
    intro x acc
    simp only [wordsLoop, Gen.Bip39.last11BitsMask, Gen.Bip39.shift11BitsMask, and_2047]
    have hlt : x % 2048 < 2048 := Nat.mod_lt _ (by norm_num)
    rw [beUint16_pad _ (by omega)]
    simp only [bind, Except.bind]
    rw [wordAt_lt _ hlt]
    simp only [ih, digitsRec, List.map_append, List.map_cons, List.map_nil, List.append_assoc,
      List.cons_append, List.nil_append]

/-! ### digits of a number and groups of bits -/

theorem digitsRec_eq_map : ∀ (n N : Nat),
    digitsRec n N = (List.range n).map (fun k => N / 2048 ^ (n - 1 - k) % 2048) := by
  intro n
  induction n with
  | zero => intro N; rfl
  | succ n ih =>
    intro N
    rw [digitsRec, ih, List.range_succ, List.map_append]
    congr 1
    · apply List.map_congr_left
      intro k hk
      have hk : k < n := List.mem_range.mp hk
      rw [Nat.div_div_eq_div_mul, ← pow_succ']
      congr 3; omega
    · simp

/-- the spec's groups of 11 bits are the base-2048 digits of the value of the bit string -/
theorem groups_eq_digits (bits : List Bool) (n : Nat) (hl : bits.length = 11 * n) :
    (List.range n).map (fun k => bitsToNat (Spec.Bip39.group bits k)) = digitsRec n (bitsToNat bits) := by
  rw [digitsRec_eq_map]
  apply List.map_congr_left
  intro k hk
  have hk : k < n := List.mem_range.mp hk
  unfold Spec.Bip39.group
  rw [bitsToNat_slice bits (11 * k) 11 (by omega), hl]
  have : 11 * n - 11 * k - 11 = 11 * (n - 1 - k) := by omega
  rw [this, pow_mul]; norm_num

/-! ### NewMnemonic is the BIP-39 encoder -/

theorem legal_cs (len : Nat) (h : Spec.Bip39.legalEntropyLen len = true) :
    ∃ cs, 4 ≤ cs ∧ cs ≤ 8 ∧ len = 4 * cs := by
  simp only [Spec.Bip39.legalEntropyLen, Bool.or_eq_true, beq_iff_eq] at h
  rcases h with (((h | h) | h) | h) | h
  · exact ⟨4, by omega, by omega, h⟩
  · exact ⟨5, by omega, by omega, h⟩
  · exact ⟨6, by omega, by omega, h⟩
  · exact ⟨7, by omega, by omega, h⟩
  · exact ⟨8, by omega, by omega, h⟩

theorem checksumBits_spec (H : Bytes → Bytes) (hH : HashOK H) (e : Bytes) (cs : Nat) (hcs : cs ≤ 8)
    (hl : e.length = 4 * cs) :
    (Spec.Bip39.checksumBits H e).length = cs ∧ bitsToNat (Spec.Bip39.checksumBits H e) = csVal (H e) cs := by
  unfold Spec.Bip39.checksumBits csVal
  have hcs' : e.length * 8 / 32 = cs := by omega
  rw [hcs']
  cases hd : H e with
  | nil => exact absurd hd (hH e)
  | cons h0 t =>
    rw [bitsOfBytes_cons, List.take_append_of_le_length (by simpa using hcs)]
    constructor
    · simp; omega
    · rw [bitsToNat_take _ _ (by simpa using hcs), bitsToNat_bitsOfByte]; simp

/-- the number whose base-2048 digits are the word indexes -/
def encNat (H : Bytes → Bytes) (e : Bytes) : Nat :=
  ofBytesBE e * 2 ^ (e.length / 4) + csVal (H e) (e.length / 4)

theorem spec_wordIndices (H : Bytes → Bytes) (hH : HashOK H) (e : Bytes) (cs : Nat) (hcs : cs ≤ 8)
    (hl : e.length = 4 * cs) :
    Spec.Bip39.wordIndices H e = digitsRec (3 * cs) (encNat H e) := by
  obtain ⟨h1, h2⟩ := checksumBits_spec H hH e cs hcs hl
  unfold Spec.Bip39.wordIndices
  simp only
  have hlen : (bitsOfBytes e ++ Spec.Bip39.checksumBits H e).length = 11 * (3 * cs) := by
    rw [List.length_append, bitsOfBytes_length, h1, hl]; omega
  rw [hlen, Nat.mul_div_cancel_left _ (by norm_num : 0 < 11), groups_eq_digits _ _ hlen]
  congr 1
  rw [bitsToNat_append, bitsToNat_bitsOfBytes, h1, h2]
  unfold encNat
  have : e.length / 4 = cs := by omega
  rw [this]

theorem spec_words (H : Bytes → Bytes) (hH : HashOK H) (e : Bytes) (cs : Nat) (hcs : cs ≤ 8)
    (hl : e.length = 4 * cs) :
    Spec.Bip39.words H e = (digitsRec (3 * cs) (encNat H e)).map wordOf := by
  unfold Spec.Bip39.words
  rw [spec_wordIndices H hH e cs hcs hl]
  apply List.map_congr_left
  intro i _
  unfold wordOf
  rw [wordList_eq_spec]

theorem newMnemonic_words (H : Bytes → Bytes) (hH : HashOK H) (e : Bytes) (cs : Nat) (h4 : 4 ≤ cs) (hcs : cs ≤ 8)
    (hl : e.length = 4 * cs) :
    newMnemonic H e = .ok (joinSpace ((digitsRec (3 * cs) (encNat H e)).map wordOf)) := by
  unfold newMnemonic
  have hv : validateEntropyBitSize (e.length * 8) = .ok () := by
    unfold validateEntropyBitSize
    rw [if_neg]; omega
  have h8 : e.length / 4 ≤ 8 := by omega
  simp only [hv, addChecksum_eq H hH e h8, bind, Except.bind, pure, Except.pure, ofBytesBE_toBytesBE]
  have : (e.length * 8 + e.length * 8 / 32) / 11 = 3 * cs := by omega
  rw [this, wordsLoop_eq]
  simp [encNat]

theorem newMnemonic_eq_spec (H : Bytes → Bytes) (hH : HashOK H) (e : Bytes)
    (h : Spec.Bip39.legalEntropyLen e.length = true) :
    newMnemonic H e = .ok (Spec.Bip39.mnemonic H e) := by
  obtain ⟨cs, h4, h8, hl⟩ := legal_cs _ h
  rw [newMnemonic_words H hH e cs h4 h8 hl]
  unfold Spec.Bip39.mnemonic
  rw [spec_words H hH e cs h8 hl, joinSpace_eq_spec]

theorem newMnemonic_illegal (H : Bytes → Bytes) (e : Bytes) (h : Spec.Bip39.legalEntropyLen e.length = false) :
    newMnemonic H e = .error .entropyLen := by
  unfold newMnemonic
  have hv : validateEntropyBitSize (e.length * 8) = .error .entropyLen := by
    unfold validateEntropyBitSize
    rw [if_pos]
    simp only [Spec.Bip39.legalEntropyLen, Bool.or_eq_false_iff, beq_eq_false_iff_ne] at h
    omega
  simp only [hv, bind, Except.bind]

end MW.Lemmas.Bip39Codec
