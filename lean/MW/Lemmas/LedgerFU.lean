/-
  ADDRESS RECORDS = FIRST-USE HEIGHTS (C01 address clause / C12 used flag), part 1.

  `firstUse S stk a` : the least POSITIVE height at which the chain `S` pays script hash `a` in a recognised
  form of class `stk` (staking / any other template), 0 if there is none.  The genesis block is never
  connected through `filterBlock`, so a payment at height 0 is never recorded (and a record 0 means "unused").

  `AddrInv c s S` : for every key (wallet, class, address) the record of the store, read with default 0
  (`none` and `some 0` both mean "no first use"), is `firstUse S` if the keystore view gives the address to
  that wallet, and 0 otherwise.

  This file: the definitions, the algebra of the two record updates (`Bumped`: connect writes the height where
  the record is 0; `Reset`: rollback writes 0 where the record is the rolled-back height), what one block does
  to the address table of the books, and `connect_addr`: `filterBlock` on the next block keeps `AddrInv`.
-/
import MW.Lemmas.LedgerConnect
namespace MW.Lemmas.LedgerFU
open MW MW.Model.Ledger MW.Spec.Chain MW.Spec.Books MW.Lemmas.Ledger

abbrev AKey := Wid × Bool × Addr

-- ------------------------------------------------------------------ 1. first use of an address on a chain

/-- output `o` pays script hash `a` with a recognised template of class `stk` -/
def outPays (stk : Bool) (a : Addr) (o : Out) : Bool :=
  decide (o.addr = a) && decide (o.cls ≠ .raw) && (o.cls.isStaking == stk)

def txPays (stk : Bool) (a : Addr) (t : Tx) : Bool := t.outs.any (outPays stk a)

def paysKey (stk : Bool) (a : Addr) (b : Block) : Bool := b.txs.any (txPays stk a)

/-- the least positive height (= position) at which `S` pays (`stk`, `a`); 0 if none -/
def firstUse (S : List Block) (stk : Bool) (a : Addr) : Nat :=
  match (S.drop 1).findIdx? (paysKey stk a) with
  | some i => i + 1
  | none => 0

theorem firstUse_snoc {S : List Block} (hS : S ≠ []) (b : Block) (stk : Bool) (a : Addr) :
    firstUse (S ++ [b]) stk a =
      if firstUse S stk a ≠ 0 then firstUse S stk a else if paysKey stk a b then S.length else 0 := by
  have hlen : 1 ≤ S.length := by
    cases S with
    | nil => exact absurd rfl hS
    | cons x xs => simp
  unfold firstUse
  rw [List.drop_append_of_le_length hlen, List.findIdx?_append]
  cases h : (S.drop 1).findIdx? (paysKey stk a) with
  | some i => simp
  | none =>
    simp only [Option.none_or, List.findIdx?_singleton, List.length_drop]
    by_cases hp : paysKey stk a b = true
    · simp only [hp, if_true, Option.map_some]
      simp; omega
    · simp [hp]

theorem firstUse_lt {S : List Block} (hS : S ≠ []) (stk : Bool) (a : Addr) : firstUse S stk a < S.length := by
  have hlen : 1 ≤ S.length := by
    cases S with
    | nil => exact absurd rfl hS
    | cons x xs => simp
  unfold firstUse
  cases h : (S.drop 1).findIdx? (paysKey stk a) with
  | none => simp only; omega
  | some i =>
    have := (List.findIdx?_eq_some_iff_findIdx_eq.1 h).1
    rw [List.length_drop] at this
    simp only; omega

theorem firstUse_singleton (G : Block) (stk : Bool) (a : Addr) : firstUse [G] stk a = 0 := rfl

/-- `firstUse` is positive exactly when a block above the genesis pays the key -/
theorem firstUse_pos_iff (S : List Block) (stk : Bool) (a : Addr) :
    0 < firstUse S stk a ↔ (S.drop 1).any (paysKey stk a) = true := by
  unfold firstUse
  rw [← List.findIdx?_isSome]
  cases (S.drop 1).findIdx? (paysKey stk a) <;> simp

-- ------------------------------------------------------------------ 2. the invariant

/-- the keystore view gives address `a` to wallet `w` -/
def ownsB (own : Own) (w : Wid) (a : Addr) : Bool :=
  match AMap.get own a with
  | some (w', _) => decide (w' = w)
  | none => false

/-- what the record under key `k` must be (read with default 0) for the stored chain `S` -/
def recOf (own : Own) (S : List Block) (k : AKey) : Nat :=
  if ownsB own k.1 k.2.2 then firstUse S k.2.1 k.2.2 else 0

/-- the address records of a store, read with default 0 -/
def gA (s : Store) (k : AKey) : Nat := (AMap.get s.addrs k).getD 0

/-- THE ADDRESS CLAUSE: every record is the first-use height of its key on the stored chain -/
def AddrInv (c : Ctx) (s : Store) (S : List Block) : Prop := ∀ k, gA s k = recOf c.own S k

-- ------------------------------------------------------------------ 3. the two updates

/-- connect at height `H`: the keys in `P` get `H` where they hold 0 -/
def Bumped (H : Nat) (P : AKey → Prop) (g g' : AKey → Nat) : Prop :=
  ∀ k, (P k → g' k = if g k = 0 then H else g k) ∧ (¬ P k → g' k = g k)

/-- rollback of height `H`: the keys in `P` get 0 where they hold `H` -/
def Reset (H : Nat) (P : AKey → Prop) (g g' : AKey → Nat) : Prop :=
  ∀ k, (P k → g' k = if g k = H then 0 else g k) ∧ (¬ P k → g' k = g k)

theorem Bumped.refl (H : Nat) (g : AKey → Nat) : Bumped H (fun _ => False) g g :=
  fun _ => ⟨fun h => h.elim, fun _ => rfl⟩

theorem Reset.refl (H : Nat) (g : AKey → Nat) : Reset H (fun _ => False) g g :=
  fun _ => ⟨fun h => h.elim, fun _ => rfl⟩

theorem Bumped.congr {H : Nat} {P Q : AKey → Prop} {g g' : AKey → Nat} (h : Bumped H P g g')
    (e : ∀ k, P k ↔ Q k) : Bumped H Q g g' :=
  fun k => ⟨fun hq => (h k).1 ((e k).2 hq), fun hq => (h k).2 (fun hp => hq ((e k).1 hp))⟩

theorem Reset.congr {H : Nat} {P Q : AKey → Prop} {g g' : AKey → Nat} (h : Reset H P g g')
    (e : ∀ k, P k ↔ Q k) : Reset H Q g g' :=
  fun k => ⟨fun hq => (h k).1 ((e k).2 hq), fun hq => (h k).2 (fun hp => hq ((e k).1 hp))⟩

theorem Bumped.trans {H : Nat} {P Q : AKey → Prop} {g g' g'' : AKey → Nat} (h₁ : Bumped H P g g')
    (h₂ : Bumped H Q g' g'') : Bumped H (fun k => P k ∨ Q k) g g'' := by
  intro k
  by_cases hp : P k <;> by_cases hq : Q k
  · refine ⟨fun _ => ?_, fun hn => absurd (Or.inl hp) hn⟩
    rw [(h₂ k).1 hq, (h₁ k).1 hp]
    by_cases h0 : g k = 0
    · simp only [h0, if_true]; split <;> rfl
    · simp only [h0, if_false]
  · refine ⟨fun _ => ?_, fun hn => absurd (Or.inl hp) hn⟩
    rw [(h₂ k).2 hq, (h₁ k).1 hp]
  · refine ⟨fun _ => ?_, fun hn => absurd (Or.inr hq) hn⟩
    rw [(h₂ k).1 hq, (h₁ k).2 hp]
  · refine ⟨fun h => (h.elim hp hq).elim, fun _ => ?_⟩
    rw [(h₂ k).2 hq, (h₁ k).2 hp]

theorem Reset.trans {H : Nat} {P Q : AKey → Prop} {g g' g'' : AKey → Nat} (h₁ : Reset H P g g')
    (h₂ : Reset H Q g' g'') : Reset H (fun k => P k ∨ Q k) g g'' := by
  intro k
  by_cases hp : P k <;> by_cases hq : Q k
  · refine ⟨fun _ => ?_, fun hn => absurd (Or.inl hp) hn⟩
    rw [(h₂ k).1 hq, (h₁ k).1 hp]
    by_cases h0 : g k = H
    · simp only [h0, if_true]; split <;> rfl
    · simp only [h0, if_false]
  · refine ⟨fun _ => ?_, fun hn => absurd (Or.inl hp) hn⟩
    rw [(h₂ k).2 hq, (h₁ k).1 hp]
  · refine ⟨fun _ => ?_, fun hn => absurd (Or.inr hq) hn⟩
    rw [(h₂ k).1 hq, (h₁ k).2 hp]
  · refine ⟨fun h => (h.elim hp hq).elim, fun _ => ?_⟩
    rw [(h₂ k).2 hq, (h₁ k).2 hp]

theorem Bumped.of_eq {H : Nat} {g g' : AKey → Nat} (h : ∀ k, g' k = g k) : Bumped H (fun _ => False) g g' :=
  fun k => ⟨fun hf => hf.elim, fun _ => h k⟩

theorem Reset.of_eq {H : Nat} {g g' : AKey → Nat} (h : ∀ k, g' k = g k) : Reset H (fun _ => False) g g' :=
  fun k => ⟨fun hf => hf.elim, fun _ => h k⟩

-- ------------------------------------------------------------------ 4. the keys a block pays

/-- the record key of an owned output -/
def POut (own : Own) (o : Out) (k : AKey) : Prop :=
  ∃ w ch, ownerOf own o = some (w, ch) ∧ k = (w, o.cls.isStaking, o.addr)

def PTx (own : Own) (t : Tx) (k : AKey) : Prop := ∃ o ∈ t.outs, POut own o k

def PBlk (own : Own) (b : Block) (k : AKey) : Prop := ∃ t ∈ b.txs, PTx own t k

theorem POut_iff (own : Own) (o : Out) (k : AKey) :
    POut own o k ↔ ownsB own k.1 k.2.2 = true ∧ outPays k.2.1 k.2.2 o = true := by
  obtain ⟨w, stk, a⟩ := k
  unfold POut ownsB outPays ownerOf
  constructor
  · rintro ⟨w', ch, ho, hk⟩
    injection hk with h1 hk
    injection hk with h2 h3
    subst h1 h2 h3
    by_cases hr : o.cls = .raw
    · simp [hr] at ho
    · simp only [hr, if_false] at ho
      simp [ho, hr]
  · rintro ⟨h1, h2⟩
    simp only [Bool.and_eq_true, decide_eq_true_eq, beq_iff_eq] at h2
    obtain ⟨⟨ha, hr⟩, hs⟩ := h2
    subst ha hs
    cases hg : AMap.get own o.addr with
    | none => simp [hg] at h1
    | some wc =>
      obtain ⟨w', ch⟩ := wc
      simp only [hg, decide_eq_true_eq] at h1
      subst h1
      exact ⟨w', ch, by simp [hr], rfl⟩

theorem PBlk_iff (own : Own) (b : Block) (k : AKey) :
    PBlk own b k ↔ ownsB own k.1 k.2.2 = true ∧ paysKey k.2.1 k.2.2 b = true := by
  unfold PBlk PTx paysKey txPays
  simp only [POut_iff, List.any_eq_true]
  constructor
  · rintro ⟨t, ht, o, ho, h1, h2⟩
    exact ⟨h1, t, ht, o, ho, h2⟩
  · rintro ⟨h1, t, ht, o, ho, h2⟩
    exact ⟨t, ht, o, ho, h1, h2⟩

-- ------------------------------------------------------------------ 5. the address table of the books

/-- the address table of a book, read with default 0 -/
def gB (B : Book) (k : AKey) : Nat := (B.addrs k).getD 0

theorem spendB_addrs (p : Params) (t : Tx) (bm : BlockMeta) (B : Book) (k : Nat) (i : Inp) :
    (spendB p t bm B k i).addrs = B.addrs := by
  unfold spendB
  cases lookupU B.L i.tx i.idx <;> rfl

theorem depositB_addrs (own : Own) (t : Tx) (bm : BlockMeta) (B : Book) (j : Nat) (o : Out) :
    (depositB own t bm B j o).addrs = B.addrs := by
  unfold depositB
  cases ownerOf own o with
  | none => rfl
  | some wc => dsimp only; split <;> rfl

theorem foldIdx_addrs {α : Type} (f : Book → Nat → α → Book) (hf : ∀ B j a, (f B j a).addrs = B.addrs)
    (as : List α) : ∀ (j : Nat) (B : Book), (foldIdx f as j B).addrs = B.addrs := by
  induction as with
  | nil => intro j B; rfl
  | cons a as ih => intro j B; rw [foldIdx_cons, ih, hf]

theorem recStep_addrs (own : Own) (B : Book) (oc : Occ) : (recStep own B oc).addrs = B.addrs := by
  unfold recStep; by_cases h : touches own B oc.t = true <;> simp [h, recordB]

theorem spendStep_addrs (p : Params) (B : Book) (oc : Occ) : (spendStep p B oc).addrs = B.addrs := by
  unfold spendStep
  split
  · rfl
  · exact foldIdx_addrs _ (fun B j a => spendB_addrs p oc.t oc.bm B j a) _ _ _

theorem createB_bumped (p : Params) (own : Own) (t : Tx) (bm : BlockMeta) (B : Book) (j : Nat) (o : Out) :
    Bumped bm.height (POut own o) (gB B) (gB (createB p own t bm B j o)) := by
  intro k
  unfold createB POut
  cases ho : ownerOf own o with
  | none =>
    refine ⟨fun ⟨w, ch, h, _⟩ => (by cases h), fun _ => rfl⟩
  | some wc =>
    obtain ⟨w, ch⟩ := wc
    have hk : (∃ w' ch', some (w, ch) = some (w', ch') ∧ k = (w', o.cls.isStaking, o.addr)) ↔
        (w, o.cls.isStaking, o.addr) = k := by
      constructor
      · rintro ⟨w', ch', h, rfl⟩; injection h with h; injection h with h1 h2; rw [h1]
      · intro h; exact ⟨w, ch, rfl, h.symm⟩
    rw [hk]
    unfold gB
    simp only
    constructor
    · intro e
      subst e
      cases hb : B.addrs (w, o.cls.isStaking, o.addr) with
      | none => simp [upd_apply]
      | some h =>
        by_cases h0 : h = 0
        · simp [h0, upd_apply]
        · simp [h0, hb]
    · intro e
      cases hb : B.addrs (w, o.cls.isStaking, o.addr) with
      | none => simp [upd_apply, e]
      | some h =>
        by_cases h0 : h = 0
        · simp [h0, upd_apply, e]
        · simp [h0]

theorem createOuts_bumped (p : Params) (own : Own) (t : Tx) (bm : BlockMeta) (os : List Out) :
    ∀ (j : Nat) (B : Book), Bumped bm.height (fun k => ∃ o ∈ os, POut own o k) (gB B)
      (gB (foldIdx (createB p own t bm) os j B)) := by
  induction os with
  | nil => intro j B; exact (Bumped.refl _ _).congr (fun k => by simp)
  | cons o os ih =>
    intro j B
    rw [foldIdx_cons]
    exact ((createB_bumped p own t bm B j o).trans (ih (j + 1) _)).congr (fun k => by simp)

theorem applyOcc_bumped (p : Params) (own : Own) (B : Book) (oc : Occ) :
    Bumped oc.bm.height (PTx own oc.t) (gB B) (gB (applyOcc p own B oc)) := by
  rw [applyOcc_eq]
  have h1 := createOuts_bumped p own oc.t oc.bm oc.t.outs 0 (spendStep p (recStep own B oc) oc)
  have e0 : gB (spendStep p (recStep own B oc) oc) = gB B := by
    funext k; unfold gB; rw [spendStep_addrs, recStep_addrs]
  have e1 : ∀ X, gB (foldIdx (depositB own oc.t oc.bm) oc.t.outs 0 X) = gB X := by
    intro X; funext k; unfold gB
    rw [foldIdx_addrs _ (fun B j a => depositB_addrs own oc.t oc.bm B j a)]
  rw [e0] at h1
  rw [e1]
  exact h1

theorem foldOcc_bumped (p : Params) (own : Own) (H : Nat) (ocs : List Occ) :
    ∀ (B : Book), (∀ oc ∈ ocs, oc.bm.height = H) →
      Bumped H (fun k => ∃ oc ∈ ocs, PTx own oc.t k) (gB B) (gB (ocs.foldl (applyOcc p own) B)) := by
  induction ocs with
  | nil => intro B _; exact (Bumped.refl _ _).congr (fun k => by simp)
  | cons oc ocs ih =>
    intro B hH
    rw [List.foldl_cons]
    have h1 := applyOcc_bumped p own B oc
    rw [hH oc List.mem_cons_self] at h1
    exact (h1.trans (ih _ (fun oc' h => hH oc' (List.mem_cons_of_mem _ h)))).congr (fun k => by simp)

theorem exists_occ_iff (own : Own) (b : Block) (k : AKey) :
    (∃ oc ∈ occsOfBlock b, PTx own oc.t k) ↔ PBlk own b k := by
  unfold PBlk occsOfBlock
  constructor
  · rintro ⟨oc, hoc, h⟩
    obtain ⟨m, hm, _, _⟩ := mem_occsFrom.1 hoc
    exact ⟨oc.t, List.mem_of_getElem? hm, h⟩
  · rintro ⟨t, ht, h⟩
    obtain ⟨m, hm⟩ := List.getElem?_of_mem ht
    exact ⟨⟨⟨b.height, b.id⟩, 0 + m, t⟩, mem_occsFrom.2 ⟨m, hm, rfl, rfl⟩, h⟩

/-- ONE BLOCK on the address table of the books: the keys of the owned outputs of the block get its height
    where they hold 0 -/
theorem block_bumped (p : Params) (own : Own) (b : Block) (B : Book) :
    Bumped b.height (PBlk own b) (gB B) (gB ((occsOfBlock b).foldl (applyOcc p own) B)) :=
  (foldOcc_bumped p own b.height (occsOfBlock b) B (fun oc h => by rw [mem_occsFrom_bm h])).congr
    (exists_occ_iff own b)

-- ------------------------------------------------------------------ 6. connect keeps the address clause

/-- the arithmetic of connect: bumping the keys the block pays turns `recOf S` into `recOf (S ++ [b])` -/
theorem bumped_recOf {own : Own} {S : List Block} {b : Block} {g g' : AKey → Nat} (hS : S ≠ [])
    (hg : ∀ k, g k = recOf own S k) (hb : Bumped S.length (PBlk own b) g g') :
    ∀ k, g' k = recOf own (S ++ [b]) k := by
  intro k
  have hgk := hg k
  unfold recOf at hgk ⊢
  rw [firstUse_snoc hS]
  by_cases ho : ownsB own k.1 k.2.2 = true
  · simp only [ho, if_true] at hgk ⊢
    by_cases hp : paysKey k.2.1 k.2.2 b = true
    · rw [(hb k).1 ((PBlk_iff own b k).2 ⟨ho, hp⟩), hgk]
      simp only [hp, if_true]
      by_cases h0 : firstUse S k.2.1 k.2.2 = 0 <;> simp [h0]
    · rw [(hb k).2 (fun h => hp ((PBlk_iff own b k).1 h).2), hgk]
      by_cases h0 : firstUse S k.2.1 k.2.2 = 0 <;> simp [h0, hp]
  · rw [(hb k).2 (fun h => ho ((PBlk_iff own b k).1 h).1), hgk]
    simp [ho]

/-- the arithmetic of rollback: resetting the keys the block pays turns `recOf (S ++ [b])` into `recOf S` -/
theorem reset_recOf {own : Own} {S : List Block} {b : Block} {g g' : AKey → Nat} (hS : S ≠ [])
    (hg : ∀ k, g k = recOf own (S ++ [b]) k) (hb : Reset S.length (PBlk own b) g g') :
    ∀ k, g' k = recOf own S k := by
  intro k
  have hlt := firstUse_lt hS k.2.1 k.2.2
  unfold recOf at hg ⊢
  by_cases ho : ownsB own k.1 k.2.2 = true
  · have hgk := hg k
    simp only [ho, if_true] at hgk ⊢
    rw [firstUse_snoc hS] at hgk
    by_cases hp : paysKey k.2.1 k.2.2 b = true
    · rw [(hb k).1 ((PBlk_iff own b k).2 ⟨ho, hp⟩), hgk]
      simp only [hp, if_true]
      by_cases h0 : firstUse S k.2.1 k.2.2 = 0
      · simp [h0]
      · simp only [h0, ne_eq, not_false_eq_true, if_true]
        rw [if_neg (by omega)]
    · rw [(hb k).2 (fun h => hp ((PBlk_iff own b k).1 h).2), hgk]
      by_cases h0 : firstUse S k.2.1 k.2.2 = 0 <;> simp [h0, hp]
  · have hgk := hg k
    rw [(hb k).2 (fun h => ho ((PBlk_iff own b k).1 h).1), hgk]
    simp [ho]

/-- CONNECT KEEPS THE ADDRESS CLAUSE: under the hypotheses of `connect_sound`, the store `filterBlock` returns
    for the next block of the node's chain holds the first-use heights of the longer chain. -/
theorem connect_addr {c : Ctx} {s : Store} {chain rest : List Block} {b : Block}
    (hI : Inv c s chain) (hA : AddrInv c s chain) (hnode : c.node.chain = chain ++ b :: rest)
    (hvalid : ChainValid c.own c.node.chain) (hheight : b.height = chain.length)
    (hAR : AllReady c.own (readyWallets s c.wallets)) (hne : (readyWallets s c.wallets).isEmpty = false)
    {s' : Store} {conf : List TxId} (h : filterBlock c s (readyWallets s c.wallets) b = .ok (s', conf)) :
    AddrInv c s' (chain ++ [b]) := by
  have hvc : ChainValid c.own chain :=
    chainValid_prefix (a := chain) (b := b :: rest) (by rw [← hnode]; exact hvalid)
  obtain ⟨hL0, hG0⟩ := loc_bookOf (p := c.p) hvc
  have e := eqM_withAddrs (bookOf c.p c.own chain) (fun k => AMap.get s.addrs k)
  obtain ⟨s'', conf'', h1, hR, _, _, _, _⟩ :=
    connect_core (B0 := { bookOf c.p c.own chain with addrs := fun k => AMap.get s.addrs k })
      hI.agree.toAgree hI.bal ((glob_bookOf (p := c.p) hvc).congrM e) (hL0.congrM e) (hG0.congrM e)
      hI.sync hI.syncedTo hnode hvalid hheight hAR hne
  rw [h] at h1
  have es : s' = s'' := by injection h1 with h1; exact congrArg Prod.fst h1
  subst es
  have hne' : chain ≠ [] := by
    intro h0
    have := hI.syncedTo
    rw [h0] at this
    simp at this
  have hb := block_bumped c.p c.own b { bookOf c.p c.own chain with addrs := fun k => AMap.get s.addrs k }
  rw [hheight] at hb
  have hg' : ∀ k, gA s' k = gB ((occsOfBlock b).foldl (applyOcc c.p c.own)
      { bookOf c.p c.own chain with addrs := fun k => AMap.get s.addrs k }) k := by
    intro k; unfold gA gB; rw [hR.addrs]
  intro k
  rw [hg']
  exact bumped_recOf hne' (g := gB { bookOf c.p c.own chain with addrs := fun k => AMap.get s.addrs k })
    (fun k => hA k) hb k

end MW.Lemmas.LedgerFU
