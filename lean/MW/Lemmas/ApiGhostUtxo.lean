/-
  C19, ghost state instantiated: `w.txStore.ExistsUtxo` (contract `oerr == nil → flags != nil ∧ vout < len(prevTx.TxOut)`).

  GHOST STATE = object identity. In Go `len(prevTx.TxOut)` is read off the pointer `prevTx`; the skeletons keep the
  length in a shadow variable `prevTx.TxOut` written by the call that writes `prevTx`. A world `W` says which
  transaction a non-nil `prevTx` value denotes (`W.obj`). The run invariant
      GU W σ :=  σ prevTx ≠ 0 → σ prevTx.TxOut = |outs (W.obj (σ prevTx))|
  is re-established by every call node that writes `prevTx` or `prevTx.TxOut` (hypothesis `Shadow`: the meaning of the
  shadow variable - in Go true by construction) and untouched by everything else a gRPC handler can reach
  (`reach_ok`, kernel evaluation of `frameOK` over the bodies). For an oracle that answers ExistsUtxo by running
  MW.Model.ApiLedger.existsUtxo - the function the driver executes - on the outpoint (id of the transaction `prevTx`
  denotes, `vout`) over a store satisfying C01's invariant `Inv` for a `ChainValid` chain, the contract holds in every
  `GU`-state: a mined credit belongs to an existing output of the chain's transaction of that id
  (`creditBlock_created`), which is the transaction the pointer denotes (`W.ids`: an id names one transaction).
  For an UNMINED credit the bound is the hypothesis `W.pend` (C09's invariants do not relate the unmined-credit bucket
  to the outputs of the pending transaction yet): hence `_partial`.
-/
import MW.Lemmas.ApiGhost
import MW.Lemmas.ApiBackedLedger
namespace MW.Lemmas.ApiGhostUtxo
open MW MW.Model.Api MW.Lemmas.ApiContracts MW.Lemmas.ApiGhost MW.Lemmas.ApiBacked MW.Model.Ledger MW.Model.ApiLedger
  MW.Spec.Books MW.Lemmas.Ledger

def gvU : List Var := [V "prevTx", V "prevTx.TxOut"]

/-- the call nodes of the model that write `prevTx` or its shadow length -/
def shadowCalls : List CallNode := (progCalls.filter (fun c => c.2.1.any (fun x => gvU.contains x))).eraseDups

/-- positions whose bodies keep the ghost variables intact (except through `shadowCalls`), closed under `invoke`:
    everything but the follower functions around filterTx (`prevTx = &bro.MsgTx` is an assignment there) -/
def reachStep (R : List Nat) : List Nat :=
  R.filter (fun f => match prog f with | some b => frameOK gvU shadowCalls R b | none => false)

def reachU : List Nat := reachStep (reachStep (reachStep (reachStep (reachStep (List.range Fn.count)))))

theorem reachU_closed : reachU.all (fun f => match prog f with | some b => frameOK gvU shadowCalls reachU b | none => false) = true := by
  decide +kernel

theorem reach_ok : ∀ f, reachU.contains f = true → ∀ body, prog f = some body →
    frameOK gvU shadowCalls reachU body = true := by
  intro f hf body hb
  have := List.all_eq_true.1 reachU_closed f (List.contains_iff_mem.1 hf)
  rw [hb] at this
  exact this

/-- the gRPC handlers (and everything they invoke) are in the reach -/
def handlerKeys : List Nat := (roots.filterMap fnOf).filter (fun f => reachU.contains f)

-- ------------------------------------------------------------------ the model function

theorem existsUtxo_found {s : Store} {cur : Wid} {tx : TxId} {i : Nat} (h : existsUtxo s cur tx i < 2) :
    (creditBlock s cur tx i).isSome = true ∨ (AMap.get s.pendCred (tx, i)).isSome = true := by
  unfold existsUtxo at h
  unfold creditBlock
  cases hu : AMap.get s.unspent (cur, tx, i) with
  | some blk => left; simp
  | none =>
    rw [hu] at h
    simp only at h
    cases hf : (s.credits.filter (fun e => e.1.tx = tx)).find? (fun e => e.1.idx = i) with
    | some e =>
      left
      rw [List.find?_filter] at hf
      have : s.credits.find? (fun e => decide (e.1.tx = tx) && decide (e.1.idx = i)) = some e := by
        rw [← hf]; congr 1; funext a; simp
      simp [this]
    | none =>
      rw [hf] at h
      simp only at h
      right
      split at h
      · cases hp : AMap.get s.pendCred (tx, i) with
        | some c => simp
        | none => rw [hp] at h; simp at h
      · simp at h

-- ------------------------------------------------------------------ the world, the invariant

structure UtxoWorld where
  c : Ctx
  s : Store
  chain : List Block
  cur : Wid
  /-- the transaction a non-nil `prevTx` value denotes (ghost: object identity) -/
  obj : Nat → Tx
  inv : Inv c s chain
  valid : ChainValid c.own chain
  /-- an id names one transaction: what a pointer denotes under the id of a transaction of the chain IS that transaction -/
  ids : ∀ p, ∀ oc ∈ occs chain, (obj p).id = oc.t.id → obj p = oc.t
  /-- an unmined credit belongs to an existing output of the transaction of that id (not derived: see the header) -/
  pend : ∀ p i, (AMap.get s.pendCred ((obj p).id, i)).isSome = true → i < (obj p).outs.length

def GU (W : UtxoWorld) (σ : State) : Prop :=
  σ (V "prevTx") ≠ 0 → σ (V "prevTx.TxOut") = (W.obj (σ (V "prevTx"))).outs.length

/-- every call that writes `prevTx` / `prevTx.TxOut` writes the length of the transaction the pointer denotes -/
def Shadow (O : Oracle) (W : UtxoWorld) : Prop :=
  ∀ c ∈ shadowCalls, ∀ σ, GU W σ → GU W (setMany σ c.2.1 (O c.1 σ))

/-- ExistsUtxo is answered by the model function for the outpoint (id of the transaction `prevTx` denotes, `vout`) -/
def UtxoBacked (O : Oracle) (W : UtxoWorld) : Prop :=
  ∀ σ, O "w.txStore.ExistsUtxo" σ =
    if σ (V "prevTx") = 0 then [0, E.notFound]
    else existsUtxoAnswer E.notFound (existsUtxo W.s W.cur (W.obj (σ (V "prevTx"))).id (σ (V "vout")))

theorem ghostU {O : Oracle} {W : UtxoWorld} (h : Shadow O W) : Ghost O (GU W) gvU shadowCalls where
  frame := by
    intro σ τ hv hg
    have h1 : σ (V "prevTx") = τ (V "prevTx") := hv _ (by simp [gvU])
    have h2 : σ (V "prevTx.TxOut") = τ (V "prevTx.TxOut") := hv _ (by simp [gvU])
    unfold GU at *
    rw [← h1, ← h2]; exact hg
  calls := h

def existsUtxoNode : CallNode :=
  ("w.txStore.ExistsUtxo", [V "flags", V "oerr"], onOk "oerr" [.nz "flags", .lt "vout" "prevTx.TxOut"])

/-- the contract of ExistsUtxo holds in every state that satisfies the ghost invariant -/
theorem existsUtxo_holds {O : Oracle} {W : UtxoWorld} (hU : UtxoBacked O W) (τ : State) (hG : GU W τ) :
    HoldsAt O existsUtxoNode τ := by
  have hnd : ([V "flags", V "oerr"] : List Var).Nodup := by decide
  have g := setMany_get _ τ (O "w.txStore.ExistsUtxo" τ) hnd
  have g0 := g 0 (by decide)
  have g1 := g 1 (by decide)
  have gv := setMany_other (V "vout") [V "flags", V "oerr"] τ (O "w.txStore.ExistsUtxo" τ) (by decide)
  have gl := setMany_other (V "prevTx.TxOut") [V "flags", V "oerr"] τ (O "w.txStore.ExistsUtxo" τ) (by decide)
  simp only [List.getElem_cons_zero, List.getElem_cons_succ] at g0 g1
  simp only [HoldsAt, existsUtxoNode, onOk, List.map_cons, List.map_nil, List.all_cons, List.all_nil, Bool.and_true,
    Clause.eval, Atom.eval, g0, g1, gv, gl]
  rw [hU τ]
  by_cases hp : τ (V "prevTx") = 0
  · simp [hp, E.notFound]
  · simp only [hp, if_false]
    unfold existsUtxoAnswer
    split
    · rename_i hlt
      have hb : τ (V "vout") < (W.obj (τ (V "prevTx"))).outs.length := by
        rcases existsUtxo_found hlt with hc | hc
        · cases hcb : creditBlock W.s W.cur (W.obj (τ (V "prevTx"))).id (τ (V "vout")) with
          | none => rw [hcb] at hc; cases hc
          | some blk =>
            obtain ⟨oc, hoc, hid, hlt', -⟩ := creditBlock_created W.inv W.valid hcb
            have := W.ids (τ (V "prevTx")) oc hoc hid.symm
            rw [this]; exact hlt'
        · exact W.pend _ _ hc
      rw [hG hp]
      simp [hb]
    · simp [E.notFound]

/-- ExistsUtxo's contract is never broken by a run of a handler-reachable position that starts in a `GU`-state
    (the initial state of a request, `prevTx` = nil, is one) -/
theorem no_ExistsUtxo_fault {O : Oracle} {W : UtxoWorld} (hS : Shadow O W) (hU : UtxoBacked O W)
    (r : Nat) (hr : reachU.contains r = true) (n : Nat) (σ : State) (h0 : GU W σ) :
    run prog O n (.invoke r) σ ≠ .error (.contract "w.txStore.ExistsUtxo") := by
  refine no_contract_fault_G (ghostU hS) reach_ok (.invoke r) (by simpa [frameOK] using hr) _ ?_ n σ h0
  intro c hoc hname τ hG
  have hm := occurs_prog hoc
  -- the only call node of that name in the model is `existsUtxoNode`
  have hall : progCalls.all (fun c => c.1 != "w.txStore.ExistsUtxo" || c == existsUtxoNode) = true := by decide +kernel
  have := List.all_eq_true.1 hall c hm
  simp only [hname, bne_self_eq_false, Bool.false_or, beq_iff_eq] at this
  rw [this]
  exact existsUtxo_holds hU τ hG

end MW.Lemmas.ApiGhostUtxo
